(* Properties_C15.v — Bloom filter: no false negatives in any representation; bitwise set algebra.
   Only statements, closed by [exact]; proofs live in BloomProofs.v.

   Vocabulary (BloomDefs.v / BloomProofs.v):
     core_update / core_qau / core_query / core_union / core_intersect / core_invert / core_reset / core_bits_used
         the operations of bloom_filter_impl.hpp on (cached fields, bit array), with the count written through to wrapped
         memory as an explicit effect; the first argument [true] selects the REPAIRED code (fixes/15_*.patch), which is what
         BloomDefs.step extracts and runs against the implementation; [false] is the code before the repairs
         (Regression_bloom.v).
     cst = (s_f, s_bits, s_mcnt)     one filter object: cached fields, the bit array it addresses, the count stored at
                                     byte 24 of the caller memory it lives in (unused for owned filters)
     frun fx idx ops s               the object after ANY list of operations (update, query_and_update, union with ANY
                                     bit array, intersect, invert, reset, get_bits_used), idx = ANY index function
     indices_of H f                  the double-hashing indices ((h0 + i*h1) >> 1) mod capacity, i = 1..num_hashes, of ANY
                                     hash function H (h0 = H item seed, h1 = H item h0)
     view_of idx cap s v             v is one of: s itself / a copy, deserialize(serialize s), a read-only or writable wrap
                                     of serialize s, a read-only or writable wrap (or deserialize) of the caller memory s
                                     lives in, any compatible filter after union_with(s) and any further monotone history *)
From Coq Require Import ZArith NArith List Bool Lia.
From DS Require Import Word XXHash64 RunnerLib BloomDefs BloomProofs.
Import ListNotations.
Local Open Scope N_scope.

(* ---------------------------------------------------------------------------------------------------------------- *)
(* no false negatives                                                                                                 *)
(* ---------------------------------------------------------------------------------------------------------------- *)

(* THE property: for ANY hash function, ANY sound writable start state (fresh_start below: every constructor yields one),
   ANY history containing an insertion of x (update or query_and_update) with no intersect / invert / reset after it,
   EVERY view of the resulting state answers query(x) = true. *)
Theorem C15_no_false_negative_in_any_view :
  forall (H : list N -> N -> N) s0 pre ins post x v,
  let idx := indices_of H (s_f s0) in
  let cap := f_cap (s_f s0) in
  cap <> 0 -> cap < two64 -> f_nh (s_f s0) <> 0 ->
  inv cap s0 -> f_ro (s_f s0) = false ->
  inserts ins x -> Forall monotone post -> Forall (op_ok cap) (pre ++ ins :: post) ->
  view_of idx cap (frun true idx (pre ++ ins :: post) s0) v -> squery idx v x = true.
Proof. exact nfn_every_view_hash. Qed.

(* the same for an arbitrary index function (not only double hashing) *)
Theorem C15_no_false_negative_any_index_function :
  forall (idx : item -> list N) cap, cap < two64 -> (forall x i, In i (idx x) -> i < cap) ->
  forall s0 pre ins post x v,
  inv cap s0 -> f_ro (s_f s0) = false -> idx x <> [] ->
  inserts ins x -> Forall monotone post -> Forall (op_ok cap) (pre ++ ins :: post) ->
  view_of idx cap (frun true idx (pre ++ ins :: post) s0) v -> squery idx v x = true.
Proof. exact nfn_every_view. Qed.

(* start states: what the constructors build (owned: mem = None; over caller memory: stored count 0) *)
Theorem C15_fresh_start : forall seed nh cap mem,
  inv cap (mkS (mkF seed nh cap false false 0 mem 0) 0 0) /\ minv (mkS (mkF seed nh cap false false 0 mem 0) 0 0).
Proof. intros. split; [apply fresh_inv|apply fresh_minv]. Qed.

(* the wrap views of caller memory (V_memwrap / V_memdes) are available after EVERY history through a writable view:
   the count stored in the memory is always the dirty marker or exact *)
Theorem C15_memory_image_always_consistent :
  forall (idx : item -> list N) cap, cap < two64 -> (forall x i, In i (idx x) -> i < cap) ->
  forall s0 ops, is_wview s0 -> inv cap s0 -> minv s0 -> Forall (op_ok cap) ops ->
  is_wview (frun true idx ops s0) /\ minv (frun true idx ops s0).
Proof. exact memory_views_available. Qed.

(* at the level of the bit array nothing is ever lost by a monotone history — both variants of the code, any start state *)
Theorem C15_inserted_bits_stay_set :
  forall fx (idx : item -> list N) s pre ins post x,
  f_ro (s_f s) = false -> inserts ins x -> Forall monotone post ->
  all_set (s_bits (frun fx idx (pre ++ ins :: post) s)) (idx x) = true.
Proof. exact nfn_bits. Qed.

(* query answers "absent" for an item whose index bits are all set only through the is_empty short-circuit *)
Theorem C15_query_spec : forall (idx : item -> list N) s x,
  squery idx s x = negb (is_empty (s_f s)) && all_set (s_bits s) (idx x).
Proof. exact squery_spec. Qed.

(* ---------------------------------------------------------------------------------------------------------------- *)
(* the same at the level of the PROTOCOL STEP that is extracted and run against the implementation (BloomDefs.wstep): *)
(* the history the property text singles out, for ANY hash function, ANY world and ANY history through the view       *)
(* ---------------------------------------------------------------------------------------------------------------- *)

(* builder::initialize_by_size over ANY block b that is large enough (OInit), then ANY list of update / query_and_update /
   query / invert / reset / get_bits_used through that filter containing an insertion of x with no invert / reset after
   it: the step function answers 1 to query(x) through the filter, through a FRESH read-only or writable wrap of the
   block into any register, and through deserialize (bytes or stream) of the block.  (wstep executes the byte-level
   image: header, count at byte 24, bit array at byte 32, exactly as compared with the implementation.) *)
Theorem C15_protocol_no_false_negative_in_caller_memory :
  forall (H : list N -> N -> N) w r b be nbits nh seed pre ins post x,
  reg_get (w_b w) b = Some be -> ctor_ok nbits nh = true ->
  size_for (round_cap nbits) <= N.of_nat (length (b_data be)) -> nh < 2 ^ 16 -> seed < 2 ^ 64 ->
  Forall lop_ok (pre ++ ins :: post) -> linserts ins x -> Forall lmonotone post ->
  let w0 := fst (wstep true H w (OInit r b nbits nh seed)) in
  let w1 := wrunL H r (pre ++ ins :: post) w0 in
  fst (snd (wstep true H w1 (OQuery r x))) = [1%Z] /\
  (forall r2 writable,
     fst (snd (wstep true H w1 (OWrap r2 b writable))) = ok /\
     fst (snd (wstep true H (fst (wstep true H w1 (OWrap r2 b writable))) (OQuery r2 x))) = [1%Z]) /\
  (forall r2 stream,
     fst (snd (wstep true H w1 (ODeser r2 b stream))) = ok /\
     fst (snd (wstep true H (fst (wstep true H w1 (ODeser r2 b stream))) (OQuery r2 x))) = [1%Z]).
Proof. exact world_nfn_from_init. Qed.

(* OWNED filters at the level of the protocol step.  Register r holds an owned filter (owned_at, established by
   builder::create_by_size: C15_protocol_constructors); after ANY history through r with an insertion of x and no
   invert / reset after it: *)

(* ... the filter itself and every copy / move of it answer 1 *)
Theorem C15_protocol_owned_copy :
  forall (H : list N -> N -> N) w r s pre ins post x,
  owned_at w r s -> goodo s -> f_nh (s_f s) <> 0 ->
  Forall lop_ok (pre ++ ins :: post) -> linserts ins x -> Forall lmonotone post ->
  let w1 := wrunL H r (pre ++ ins :: post) w in
  fst (snd (wstep true H w1 (OQuery r x))) = [1%Z] /\
  (forall r2 variant, r2 <> r ->
     fst (snd (wstep true H w1 (OCopy r2 r variant))) = ok /\
     fst (snd (wstep true H (fst (wstep true H w1 (OCopy r2 r variant))) (OQuery r2 x))) = [1%Z]).
Proof. exact world_nfn_owned_copy. Qed.

(* ... serialize into ANY block that is large enough, then deserialize (bytes / stream) or wrap / writable_wrap of the
   block into any register: the restored filter answers 1 *)
Theorem C15_protocol_owned_serialize :
  forall (H : list N -> N -> N) w r s pre ins post x b be,
  owned_at w r s -> goodo s -> f_nh (s_f s) <> 0 ->
  Forall lop_ok (pre ++ ins :: post) -> linserts ins x -> Forall lmonotone post ->
  let w1 := wrunL H r (pre ++ ins :: post) w in
  reg_get (w_b w1) b = Some be -> (32 + cap_bytes (f_cap (s_f s)) <= length (b_data be))%nat ->
  let w2 := fst (wstep true H w1 (OSer r b)) in
  fst (snd (wstep true H w1 (OSer r b))) = [nz (32 + cap_bytes (f_cap (s_f s)))] /\
  (forall r2 stream,
     fst (snd (wstep true H w2 (ODeser r2 b stream))) = ok /\
     fst (snd (wstep true H (fst (wstep true H w2 (ODeser r2 b stream))) (OQuery r2 x))) = [1%Z]) /\
  (forall r2 writable,
     fst (snd (wstep true H w2 (OWrap r2 b writable))) = ok /\
     fst (snd (wstep true H (fst (wstep true H w2 (OWrap r2 b writable))) (OQuery r2 x))) = [1%Z]).
Proof. exact world_nfn_owned_serialize. Qed.

(* ... union_with into ANY other compatible owned filter, whatever its state: the union answers 1 *)
Theorem C15_protocol_owned_union :
  forall (H : list N -> N -> N) w r s pre ins post x,
  owned_at w r s -> goodo s -> f_nh (s_f s) <> 0 ->
  Forall lop_ok (pre ++ ins :: post) -> linserts ins x -> Forall lmonotone post ->
  let w1 := wrunL H r (pre ++ ins :: post) w in
  forall r3 t, r3 <> r -> owned_at w1 r3 t -> goodo t ->
    f_seed (s_f t) = f_seed (s_f s) -> f_nh (s_f t) = f_nh (s_f s) -> f_cap (s_f t) = f_cap (s_f s) ->
    fst (snd (wstep true H w1 (OUnion r3 r))) = ok /\
    fst (snd (wstep true H (fst (wstep true H w1 (OUnion r3 r))) (OQuery r3 x))) = [1%Z].
Proof. exact world_nfn_owned_union. Qed.

(* the constructors establish the hypotheses *)
Theorem C15_protocol_constructors :
  forall (H : list N -> N -> N) w r nbits nh seed,
  ctor_ok nbits nh = true -> nh < 2 ^ 16 -> seed < 2 ^ 64 ->
  let s0 := mkS (mkF seed nh (round_cap nbits) false false 0 None 0) 0 0 in
  fst (snd (wstep true H w (ONew r nbits nh seed))) = ok /\
  owned_at (fst (wstep true H w (ONew r nbits nh seed))) r s0 /\ goodo s0 /\ f_nh (s_f s0) <> 0.
Proof. exact new_view. Qed.

(* the protocol step REFINES the object-level step: while register r is a writable view of block b holding the image of
   object s, every operation through r leaves the block holding the image of the object-level result (so every theorem
   about frun above is a theorem about what wstep leaves in the block) *)
Theorem C15_protocol_refines_object :
  forall (H : list N -> N -> N) r b junk ops w s,
  view_at w r b s junk -> good s -> Forall lop_ok ops ->
  view_at (wrunL H r ops w) r b (frun true (indices_of H (s_f s)) (lfops ops) s) junk /\
  good (frun true (indices_of H (s_f s)) (lfops ops) s).
Proof. exact wrun_local. Qed.

(* ---------------------------------------------------------------------------------------------------------------- *)
(* exact count, query_and_update, set algebra                                                                        *)
(* ---------------------------------------------------------------------------------------------------------------- *)

(* get_bits_used after ANY history = number of set bits *)
Theorem C15_bits_used_exact :
  forall (idx : item -> list N) cap, cap < two64 -> (forall x i, In i (idx x) -> i < cap) ->
  forall s ops, inv cap s -> Forall (op_ok cap) ops ->
  f_cnt (s_f (fstep true idx (frun true idx ops s) FBitsUsed)) = popcount (s_bits (frun true idx ops s)).
Proof. intros idx cap Hc Hl s ops Hi Hok. apply (bits_used_exact true idx cap Hc Hl); [assumption|assumption|now left]. Qed.

(* query_and_update returns exactly whether all index bits were set before the call, and sets them *)
Theorem C15_query_and_update_prior_membership : forall fx f bits l e ex,
  core_qau fx f bits l = Some (e, ex) -> ex = all_set bits l /\ x_bits e = set_bits bits l.
Proof. exact qau_prior_membership. Qed.

Theorem C15_union_is_or : forall fx f bits o e,
  core_union fx f bits o = Some e ->
  x_bits e = N.lor bits o /\ f_cnt (x_f e) = popcount (N.lor bits o) /\ f_dirty (x_f e) = false /\
  x_memw e = memw_of f (popcount (N.lor bits o)).
Proof. exact union_is_or. Qed.

Theorem C15_intersect_is_and : forall fx f bits o e,
  core_intersect fx f bits o = Some e ->
  x_bits e = N.land bits o /\ f_cnt (x_f e) = popcount (N.land bits o) /\ f_dirty (x_f e) = false /\
  x_memw e = memw_of f (popcount (N.land bits o)).
Proof. exact intersect_is_and. Qed.

(* NOT within the capacity: every bit below the capacity is flipped, nothing above it is touched *)
Theorem C15_invert_is_not : forall fx f bits e,
  core_invert fx f bits = Some e ->
  (forall j, N.testbit (x_bits e) j = if j <? f_cap f then negb (N.testbit bits j) else N.testbit bits j) /\
  f_cnt (x_f e) = popcount (x_bits e) /\ f_dirty (x_f e) = false /\ x_memw e = memw_of f (popcount (x_bits e)).
Proof. exact invert_is_not. Qed.

Theorem C15_reset_clears : forall f e, core_reset f = Some e -> x_bits e = 0 /\ f_cnt (x_f e) = 0 /\ f_dirty (x_f e) = false.
Proof. exact reset_clears. Qed.

(* ---------------------------------------------------------------------------------------------------------------- *)
(* the serialized image, byte level (serialize / deserialize / wrap are the functions of the extracted model; the     *)
(* image bytes are compared with the implementation's by the correspondence runs)                                    *)
(* ---------------------------------------------------------------------------------------------------------------- *)

(* layout: 4 preamble longs | count at byte 24 (all ones = dirty) | bit array at byte 32; deserialize (bytes or stream)
   restores configuration, count / dirty marker and every bit; anything may follow the image in the block.
   cfg_ok: hashes < 2^16, seed < 2^64, capacity a non-zero multiple of 64 below 2^35 (every size the constructors accept) *)
Theorem C15_deserialize_serialize : forall f bits junk stream,
  cfg_ok f -> in_range bits (f_cap f) -> is_empty f = false -> ser_cnt f < 2 ^ 64 ->
  deser_filt true (serialize f bits ++ junk) stream =
  Some (mkF (f_seed f) (f_nh f) (f_cap f) (N.eqb (ser_cnt f) DIRTY) false (ser_cnt f) None bits).
Proof. exact deser_serialize. Qed.

Theorem C15_wrap_serialize : forall f bits junk b writable,
  cfg_ok f -> in_range bits (f_cap f) -> is_empty f = false -> ser_cnt f < 2 ^ 64 ->
  wrap_filt true (serialize f bits ++ junk) b writable =
  Some (mkF (f_seed f) (f_nh f) (f_cap f) (N.eqb (ser_cnt f) DIRTY) (negb writable)
            (if negb writable && N.eqb (ser_cnt f) DIRTY then popcount bits else ser_cnt f) (Some b) 0) /\
  rd (serialize f bits ++ junk) 32 (cap_bytes (f_cap f)) = bits.
Proof.
  intros f bits junk b writable Hc Hr He Hs. split; [now apply wrap_serialize|].
  rewrite (serialize_nonempty _ _ He). now apply (parse_image f (ser_cnt f) bits junk false false false).
Qed.

(* the empty image (3 preamble longs, EMPTY flag) restores a fresh filter of the same configuration *)
Theorem C15_deserialize_serialize_empty : forall f bits junk stream,
  cfg_ok f -> f_nh f <> 0 -> f_cap f <= MAX_BITS -> is_empty f = true ->
  deser_filt true (serialize f bits ++ junk) stream = Some (mkF (f_seed f) (f_nh f) (f_cap f) false false 0 None 0) /\
  wrap_filt true (serialize f bits ++ junk) 0%Z false = Some (mkF (f_seed f) (f_nh f) (f_cap f) false false 0 None 0).
Proof. exact deser_serialize_empty. Qed.

(* no false negative THROUGH THE BYTES: any history as in C15_no_false_negative_in_any_view, then serialize, then
   deserialize (bytes / stream) or wrap / writable_wrap of the bytes: query(x) = true in the restored filter *)
Theorem C15_no_false_negative_through_bytes :
  forall (H : list N -> N -> N) s0 pre ins post x junk,
  let idx := indices_of H (s_f s0) in
  let cap := f_cap (s_f s0) in
  cfg_ok (s_f s0) -> f_nh (s_f s0) <> 0 ->
  inv cap s0 -> f_ro (s_f s0) = false ->
  inserts ins x -> Forall monotone post -> Forall (op_ok cap) (pre ++ ins :: post) ->
  let s := frun true idx (pre ++ ins :: post) s0 in
  let img := serialize (s_f s) (s_bits s) ++ junk in
  (forall stream, exists g, deser_filt true img stream = Some g /\ core_query g (f_bits g) (indices_of H g x) = true) /\
  (forall b writable, exists g, wrap_filt true img b writable = Some g /\
                                core_query g (rd img 32 (cap_bytes (f_cap g))) (indices_of H g x) = true).
Proof. exact nfn_through_bytes. Qed.

(* ---------------------------------------------------------------------------------------------------------------- *)
(* refusals (protocol step of the extracted model, ANY hash function) and capacity rounding                          *)
(* ---------------------------------------------------------------------------------------------------------------- *)

Theorem C15_incompatible_refused : forall fx H w r r2 fe ge,
  reg_get (w_f w) r = Some fe -> reg_get (w_f w) r2 = Some ge -> compatible (e_f fe) (e_f ge) = false ->
  wstep fx H w (OUnion r r2) = (w, (refused, [bz (f_ro (e_f fe)); 1]%Z)) /\
  wstep fx H w (OIntersect r r2) = (w, (refused, [bz (f_ro (e_f fe)); 1]%Z)).
Proof. exact wstep_union_incompatible. Qed.

Theorem C15_readonly_write_refused : forall fx H w r fe x,
  reg_get (w_f w) r = Some fe -> f_ro (e_f fe) = true -> x <> [] ->
  wstep fx H w (OUpdate r x) = (w, (refused, [1]%Z)) /\
  wstep fx H w (OQau r x) = (w, (refused, [1; 0; 0; 0]%Z)) /\
  wstep fx H w (OReset r) = (w, (refused, [1; 0]%Z)).
Proof. exact wstep_readonly_write_refused. Qed.

Theorem C15_readonly_setop_refused : forall H w r r2 fe ge,
  reg_get (w_f w) r = Some fe -> reg_get (w_f w) r2 = Some ge -> f_ro (e_f fe) = true ->
  compatible (e_f fe) (e_f ge) = true ->
  wstep true H w (OUnion r r2) = (w, (refused, [1; 0]%Z)) /\
  wstep true H w (OIntersect r r2) = (w, (refused, [1; 0]%Z)) /\
  wstep true H w (OInvert r) = (w, (refused, [1; 0]%Z)).
Proof. exact wstep_readonly_setop_refused. Qed.

Theorem C15_constructor_refusals : forall nbits nh seed,
  nh = 0 \/ nbits = 0 \/ MAX_BITS < nbits -> new_owned nbits nh seed = None.
Proof. exact new_owned_refusals. Qed.

Theorem C15_writable_wrap_of_empty_image_refused : forall wide d b,
  (8 <= length d)%nat -> N.land (nth 3 d 0) 4 <> 0 -> wrap_filt wide d b true = None.
Proof. exact writable_wrap_empty_refused. Qed.

(* compatible filters address the same bits for every item (so that union/intersect are meaningful) *)
Theorem C15_compatible_same_indices : forall H f g x, compatible f g = true -> indices_of H f x = indices_of H g x.
Proof. exact compatible_indices. Qed.

(* capacity = requested size rounded up to the next multiple of 64; every index is below the capacity *)
Theorem C15_capacity_rounding : forall nbits,
  nbits + 63 < two64 -> nbits <= round_cap nbits /\ round_cap nbits < nbits + 64 /\ round_cap nbits mod 64 = 0.
Proof. exact round_cap_props. Qed.

Theorem C15_indices_below_capacity : forall H f x i, f_cap f <> 0 -> In i (indices_of H f x) -> i < f_cap f.
Proof. exact indices_lt. Qed.

(* ---------------------------------------------------------------------------------------------------------------- *)
(* non-vacuity: a concrete filter over caller memory with the XXH64 instance; the history of the property text       *)
(* (update through the view, then fresh wraps of the same memory) meets every hypothesis, and the conclusion is       *)
(* informative (an item that was not inserted is reported absent)                                                     *)
(* ---------------------------------------------------------------------------------------------------------------- *)
Definition ex_s0 : cst := mkS (mkF 123 3 128 false false 0 (Some 101%Z) 0) 0 0.
Definition ex_idx := indices_of xxh64 (s_f ex_s0).
Definition ex_x : item := N_to_le_bytes 8 5.
Definition ex_hist : list fop := [FQau (N_to_le_bytes 8 9); FUpdate ex_x; FBitsUsed; FUnion 1024; FQau ex_x].

Example C15_nonvacuous :
  let s := frun true ex_idx ex_hist ex_s0 in
  squery ex_idx (wrap_view s true) ex_x = true /\ squery ex_idx (wrap_view s false) ex_x = true /\
  squery ex_idx (deser_view s) ex_x = true /\ squery ex_idx (deser_view (ser_img s)) ex_x = true /\
  squery ex_idx s (N_to_le_bytes 8 77) = false /\
  forallb (fun i => i <? 128) (ex_idx ex_x) = true /\ length (ex_idx ex_x) = 3%nat /\
  s_mcnt s = popcount (s_bits s) /\ s_mcnt (frun true ex_idx [FUpdate ex_x] ex_s0) = DIRTY.
Proof. vm_compute. repeat split; reflexivity. Qed.

(* protocol level: block 101 of 56 bytes, initialize_by_size(100 bits, 3 hashes, seed 123), query_and_update(9), update(5),
   get_bits_used, then writable_wrap into register 7 and query(5) there: the hypotheses hold and the answer is 1; the
   same history in the code before the repairs answers 0 *)
Example C15_nonvacuous_protocol :
  let w := mkW [] [(101%Z, mkBE (repeat 0 56) [] 0%Z 0%Z 0%Z 0%Z)] in
  let ops := [LQau (N_to_le_bytes 8 9); LUpdate ex_x; LBitsUsed] in
  let w1 := wrunL xxh64 1%Z ops (fst (wstep true xxh64 w (OInit 1%Z 101%Z 100 3 123))) in
  ctor_ok 100 3 = true /\ size_for (round_cap 100) <= 56 /\ Forall lop_ok ops /\
  fst (snd (wstep true xxh64 (fst (wstep true xxh64 w1 (OWrap 7%Z 101%Z true))) (OQuery 7%Z ex_x))) = [1%Z] /\
  fst (snd (wstep true xxh64 (fst (wstep true xxh64 w1 (OWrap 7%Z 101%Z true))) (OQuery 7%Z (N_to_le_bytes 8 77)))) = [0%Z] /\
  (let w1' := fold_left (fun w o => fst (wstep false xxh64 w (lop_wop 1%Z o))) [LUpdate ex_x]
                        (fst (wstep false xxh64 w (OInit 1%Z 101%Z 100 3 123))) in
   fst (snd (wstep false xxh64 (fst (wstep false xxh64 w1' (OWrap 7%Z 101%Z true))) (OQuery 7%Z ex_x))) = [0%Z]).
Proof. vm_compute. repeat split; try reflexivity; try discriminate; repeat constructor; discriminate. Qed.

(* protocol level, owned: create_by_size(100, 3, 123) in register 1, update(5), serialize into block 101, deserialize into
   register 2 and wrap into register 3, an empty compatible filter in register 4 united with register 1: all answer 1 *)
Example C15_nonvacuous_protocol_owned :
  let w := mkW [] [(101%Z, mkBE (repeat 0 56) [] 0%Z 0%Z 0%Z 0%Z)] in
  let w1 := wrunL xxh64 1%Z [LUpdate ex_x] (fst (wstep true xxh64 w (ONew 1%Z 100 3 123))) in
  let w2 := fst (wstep true xxh64 w1 (OSer 1%Z 101%Z)) in
  let w3 := fst (wstep true xxh64 (fst (wstep true xxh64 w2 (ODeser 2%Z 101%Z false))) (OWrap 3%Z 101%Z false)) in
  let w4 := fst (wstep true xxh64 (fst (wstep true xxh64 w3 (ONew 4%Z 100 3 123))) (OUnion 4%Z 1%Z)) in
  map (fun r => fst (snd (wstep true xxh64 w4 (OQuery r ex_x)))) [1%Z; 2%Z; 3%Z; 4%Z] = [[1%Z]; [1%Z]; [1%Z]; [1%Z]] /\
  map (fun r => fst (snd (wstep true xxh64 w4 (OQuery r (N_to_le_bytes 8 77))))) [1%Z; 2%Z; 3%Z; 4%Z] = [[0%Z]; [0%Z]; [0%Z]; [0%Z]].
Proof. vm_compute. split; reflexivity. Qed.

(* byte level: the image of the example filter is 48 bytes, carries the count 6 at byte 24, and restores to the same bits *)
Example C15_nonvacuous_bytes :
  let s := frun true ex_idx ex_hist ex_s0 in
  let img := serialize (s_f s) (s_bits s) in
  length img = 48%nat /\ firstn 4 img = [4; 1; 21; 0] /\ rd img 24 8 = popcount (s_bits s) /\
  cfg_ok (s_f s) /\ is_empty (s_f s) = false /\
  (match deser_filt true img true with Some g => core_query g (f_bits g) (ex_idx ex_x) | None => false end) = true /\
  firstn 8 (skipn 24 (serialize (s_f (frun true ex_idx [FUpdate ex_x] ex_s0)) 0)) = repeat 255 8.
Proof. vm_compute. repeat split; try reflexivity; try discriminate. Qed.

Print Assumptions C15_no_false_negative_in_any_view.
Print Assumptions C15_no_false_negative_any_index_function.
Print Assumptions C15_protocol_no_false_negative_in_caller_memory.
Print Assumptions C15_protocol_owned_copy.
Print Assumptions C15_protocol_owned_serialize.
Print Assumptions C15_protocol_owned_union.
Print Assumptions C15_protocol_constructors.
Print Assumptions C15_protocol_refines_object.
Print Assumptions C15_fresh_start.
Print Assumptions C15_memory_image_always_consistent.
Print Assumptions C15_inserted_bits_stay_set.
Print Assumptions C15_query_spec.
Print Assumptions C15_bits_used_exact.
Print Assumptions C15_query_and_update_prior_membership.
Print Assumptions C15_union_is_or.
Print Assumptions C15_intersect_is_and.
Print Assumptions C15_invert_is_not.
Print Assumptions C15_reset_clears.
Print Assumptions C15_deserialize_serialize.
Print Assumptions C15_wrap_serialize.
Print Assumptions C15_deserialize_serialize_empty.
Print Assumptions C15_no_false_negative_through_bytes.
Print Assumptions C15_incompatible_refused.
Print Assumptions C15_readonly_write_refused.
Print Assumptions C15_readonly_setop_refused.
Print Assumptions C15_constructor_refusals.
Print Assumptions C15_writable_wrap_of_empty_image_refused.
Print Assumptions C15_compatible_same_indices.
Print Assumptions C15_capacity_rounding.
Print Assumptions C15_indices_below_capacity.
