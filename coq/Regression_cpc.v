(* Regression_cpc.v — the behaviour of cpc_compressor::determine_pseudo_phase BEFORE its repair
   (cpc/include/cpc_compressor_impl.hpp l.444-465 as first translated), kept so that the defect stays refuted inside Coq.

   Before the repair k = 1 << lg_k was a uint32_t and every product (1000 * c, 2375 * k, 4 * c, 3 * k, ...) an
   int * uint32_t, i.e. a uint32_t product that wraps modulo 2^32.  The thresholds wrap from lg_k = 21 on, and 1000 * c
   wraps as soon as c >= 4294968.  For lg_k = 20 a sketch with C = 4296581 coupons (about 14.25 million distinct
   updates; C >= 3.375 k, so its flavor is SLIDING) gets 1000 * C mod 2^32 = 1613704 < 2375 * k: the mid-range branch is
   taken, the four tests on unwrapped products fail, the wrapped 1000 * C < 1965 * k succeeds, and the function returns
   16 + 4, a pseudo phase that compress_sliding_flavor refuses
   ("unexpected pseudo phase for sliding flavor": serialize() throws).
   The repaired function ([CpcCodecDefs.determine_pseudo_phase], all products exact) returns a true phase < 16 for every
   SLIDING sketch: [CpcCodecProofs.sliding_phase_lt16]. *)
From Coq Require Import ZArith NArith List Bool Lia.
From DS Require Import Word RunnerLib CpcCodecDefs CpcCodecProofs.
Import ListNotations.
Local Open Scope N_scope.

(* uint32_t products, as coded before the repair; 0 stands for the throw (lg_k < 4), as in [determine_pseudo_phase] *)
Definition determine_pseudo_phase_old (lg_k c : N) : N :=
  let k := w32 (N.shiftl 1 lg_k) in
  if w32 (1000 * c) <? w32 (2375 * k) then
    if w32 (4 * c) <? w32 (3 * k) then 16 + 0
    else if w32 (10 * c) <? w32 (11 * k) then 16 + 1
    else if w32 (100 * c) <? w32 (132 * k) then 16 + 2
    else if w32 (3 * c) <? w32 (5 * k) then 16 + 3
    else if w32 (1000 * c) <? w32 (1965 * k) then 16 + 4
    else if w32 (1000 * c) <? w32 (2275 * k) then 16 + 5
    else 6
  else
    if lg_k <? 4 then 0
    else
      let tmp := N.shiftr c (lg_k - 4) in
      let phase := N.land tmp 15 in
      if 16 <=? phase then 0 else phase.

(* the failing sketch: lg_k = 20, C = 4296581 *)
Example pseudo_phase_old_witness :
  determine_pseudo_phase_old 20 4296581 = 16 + 4 /\ determine_pseudo_phase 20 4296581 = 1.
Proof. vm_compute. split; reflexivity. Qed.

(* a SLIDING sketch (27 k <= 8 C) for which the old function returns a mid-range pseudo phase (>= 16) *)
Theorem pseudo_phase_old_refuted : exists lg_k c,
  4 <= lg_k <= 26 /\ c < 2 ^ 32 /\ 27 * 2 ^ lg_k <= 8 * c /\ 16 <= determine_pseudo_phase_old lg_k c.
Proof. exists 20, 4296581. vm_compute. repeat split; discriminate. Qed.

(* ... which the repaired function never does *)
Theorem pseudo_phase_new_not_refuted : forall lg_k c,
  4 <= lg_k <= 26 -> c < 2 ^ 32 -> 27 * 2 ^ lg_k <= 8 * c -> ~ 16 <= determine_pseudo_phase lg_k c.
Proof. intros lg_k c Hlg _ Hc. pose proof (sliding_phase_lt16 lg_k c ltac:(lia) Hc). lia. Qed.

Theorem pseudo_phase_old_differs : exists lg_k c,
  4 <= lg_k <= 26 /\ c < 2 ^ 32 /\ determine_pseudo_phase_old lg_k c <> determine_pseudo_phase lg_k c.
Proof. exists 20, 4296581. vm_compute. repeat split; discriminate. Qed.

(* the two agree where nothing wraps: small lg_k, and also the very same sketch one doubling earlier *)
Example pseudo_phase_old_agrees_small :
  map (determine_pseudo_phase_old 10) [100; 800; 1200; 1500; 1800; 2100; 2350; 2432; 2500; 4416]
  = map (determine_pseudo_phase 10) [100; 800; 1200; 1500; 1800; 2100; 2350; 2432; 2500; 4416]
  /\ determine_pseudo_phase_old 20 4294967 = determine_pseudo_phase 20 4294967.
Proof. vm_compute. split; reflexivity. Qed.

(* the thresholds themselves wrap from lg_k = 21 on: c = k / 2 is far below 0.75 k, yet the old function leaves the
   mid-range branch *)
Example pseudo_phase_old_wraps_thresholds :
  determine_pseudo_phase_old 21 1048576 = 8 /\ determine_pseudo_phase 21 1048576 = 16 /\
  determine_pseudo_phase_old 26 67108864 = 0 /\ determine_pseudo_phase 26 67108864 = 17.
Proof. vm_compute. repeat split. Qed.

Print Assumptions pseudo_phase_old_refuted.
Print Assumptions pseudo_phase_new_not_refuted.
Print Assumptions pseudo_phase_old_differs.
