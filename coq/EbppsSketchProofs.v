(* EbppsSketchProofs.v — sketch-level invariant of the exact-arithmetic (Q) instance of the EBPPS model:
   update, the replay loop of internal_merge, merge.  For ARBITRARY choice streams (unit draws in (0,1)). *)
From Coq Require Import ZArith List Bool QArith Qround Lia Lqa Psatz.
From DS Require Import RunnerLib EbppsDefs EbppsProofs.
Import ListNotations.
Local Open Scope Q_scope.

(* ---------- arithmetic helpers ---------- *)
Lemma qdiv_pos a b : 0 < a -> 0 < b -> 0 < a / b.
Proof. intros. apply Qlt_shift_div_l; lra. Qed.

Lemma qdiv_le_mono a b c d : 0 <= a -> a <= b -> 0 < d -> d <= c -> a / c <= b / d.
Proof.
  intros Ha Hab Hd Hdc.
  apply Qle_shift_div_r; [lra|].
  assert (E : b / d * d == b) by (field; lra).
  assert (T : 0 <= b / d) by (apply Qle_shift_div_l; lra).
  set (t := b / d) in *. nra.
Qed.

Lemma injZ_pos k : (1 <= k)%Z -> 0 < inject_Z k.
Proof. intro H. change 0 with (inject_Z 0). rewrite <- Zlt_Qlt. lia. Qed.

Lemma injZ_le a b : (a <= b)%Z -> inject_Z a <= inject_Z b.
Proof. intro H. now rewrite <- Zle_Qle. Qed.

Lemma is_min_glb r a b x : is_min r a b -> x <= a -> x <= b -> x <= r.
Proof. intros (H1 & H2 & [E|E]) Ha Hb; rewrite E; auto. Qed.

Lemma nmin_glb a b x : x <= a -> x <= b -> x <= nmin QOps a b.
Proof. intros. eapply is_min_glb; eauto using nmin_is_min. Qed.
Lemma nmin_le_l a b : nmin QOps a b <= a. Proof. apply nmin_is_min. Qed.
Lemma nmin_le_r a b : nmin QOps a b <= b. Proof. apply nmin_is_min. Qed.
Lemma nmin_pos a b : 0 < a -> 0 < b -> 0 < nmin QOps a b.
Proof. intros Ha Hb. destruct (nmin_is_min a b) as (_ & _ & [E|E]); rewrite E; auto. Qed.

Lemma is_min_compat r a b r' a' b' : r == r' -> a == a' -> b == b' -> is_min r a b -> is_min r' a' b'.
Proof. unfold is_min. intros E1 E2 E3. rewrite E1, E2, E3. auto. Qed.

Definition is_max (r a b : Q) : Prop := a <= r /\ b <= r /\ (r == a \/ r == b).

Lemma nmax_is_max a b : is_max (nmax QOps a b) a b.
Proof.
  destruct (nmax_spec a b) as (H1 & H2 & [E|E]); unfold is_max; splits; auto; rewrite E; [left|right]; reflexivity.
Qed.

Lemma nmax_zero_r a b : 0 < a -> b == 0 -> nmax QOps a b = a.
Proof.
  intros Ha Hb. unfold nmax; qs. destruct (qleb_spec b a) as [_|H]; cbn [negb]; auto. lra.
Qed.

Lemma qeqb_compat a a' b : a == a' -> Qeq_bool a b = Qeq_bool a' b.
Proof.
  intro E. destruct (qeqb_spec a b), (qeqb_spec a' b); auto; exfalso.
  - apply H0. now rewrite <- E.
  - apply H. now rewrite E.
Qed.

Lemma qleb_compat a a' b b' : a == a' -> b == b' -> Qle_bool a b = Qle_bool a' b'.
Proof.
  intros E1 E2. destruct (qleb_spec a b), (qleb_spec a' b'); auto; exfalso; lra.
Qed.

(* ---------- the sketch invariant ---------- *)
Section SketchInv.
  Variable Item : Type.
  Notation qsketch := (sketch QOps Item).
  Notation qsample := (sample QOps Item).
  Notation qcs := (cs QOps).

  (* [kk] is the k the current rho was computed with (= sk_k except right after a merge in which one side was empty) *)
  Definition Inv (P : Item -> Prop) (kk : Z) (sk : qsketch) : Prop :=
    (1 <= sk_k sk)%Z /\ (sk_k sk <= kk)%Z /\ (0 <= sk_n sk)%Z /\
    (sk_n sk = 0%Z <-> sk_cw sk == 0) /\
    0 <= sk_wmax sk /\ sk_wmax sk <= sk_cw sk /\ (0 < sk_cw sk -> 0 < sk_wmax sk) /\
    0 < sk_rho sk /\
    (0 < sk_cw sk -> is_min (sk_rho sk) (1 / sk_wmax sk) (inject_Z kk / sk_cw sk)) /\
    sc (sk_smp sk) == sk_rho sk * sk_cw sk /\
    Shape Item (sk_smp sk) /\ AllP Item P (sk_smp sk).

  Lemma AllP_weaken (P P' : Item -> Prop) (sm : qsample) :
    (forall x, P x -> P' x) -> AllP Item P sm -> AllP Item P' sm.
  Proof.
    intros H (A & B). split.
    - eapply Forall_impl; eauto.
    - intros x Hx. auto.
  Qed.

  Lemma Inv_weaken (P P' : Item -> Prop) kk sk :
    (forall x, P x -> P' x) -> Inv P kk sk -> Inv P' kk sk.
  Proof.
    intros H (A1 & A2 & A3 & A4 & A5 & A6 & A7 & A8 & A9 & A10 & A11 & A12).
    unfold Inv. splits; auto. eapply AllP_weaken; eauto.
  Qed.

  Lemma Inv_empty P k : (1 <= k)%Z -> Inv P k (sketch_empty QOps Item k).
  Proof.
    intro Hk. unfold Inv, sketch_empty, sample_empty; cbn [sk_k sk_n sk_cw sk_wmax sk_rho sk_smp sc]; qs.
    splits; try (intros; lra); try lia; try reflexivity.
    - unfold Shape; cbn [sc sdata spart]; qs. splits; try lra; try reflexivity.
      all: try (split; intros _; reflexivity).
    - split; cbn [sdata spart]; [constructor|discriminate].
  Qed.

  (* ----- update ----- *)
  Lemma update_pos_spec P kk sk it w s :
    Inv P kk sk -> P it -> cs_ok s -> 0 < w ->
    exists sk' s', update QOps Item sk it w s = Some (sk', s') /\
      Inv P (sk_k sk) sk' /\ cs_ok s' /\
      sk_k sk' = sk_k sk /\ sk_n sk' = (sk_n sk + 1)%Z /\ sk_cw sk' = sk_cw sk + w /\
      sk_wmax sk' = nmax QOps (sk_wmax sk) w.
  Proof.
    intros (K1 & K2 & N0 & NW & M0 & MW & MP & R0 & RM & CE & SH & AP) Hit Hs Hw.
    unfold update. qs.
    destruct (qleb_spec 0 w) as [_|?]; [|lra]. cbn [negb orb].
    destruct (qeqb_spec w 0) as [?|_]; [lra|].
    pose proof (nmax_spec (sk_wmax sk) w) as (X1 & X2 & X3).
    set (wm := nmax QOps (sk_wmax sk) w) in *.
    assert (Wm : 0 < wm) by lra.
    assert (Kp : 0 < inject_Z (sk_k sk)) by now apply injZ_pos.
    match goal with |- context [feed ?a ?b ?c ?d ?e ?f ?g ?h ?i] =>
      destruct (feed a b c d e f g h i) as [[[cw' rho'] sm'] s'] eqn:EF end.
    apply feed_spec with (P := P) in EF; auto; try lra.
    - destruct EF as (E1 & E2 & E3 & E4 & E5 & E6). subst cw' rho'.
      eexists; eexists; split; [reflexivity|].
      cbn [sk_k sk_n sk_cw sk_wmax sk_rho sk_smp].
      splits; auto; try lia; try lra.
      + unfold Inv; cbn [sk_k sk_n sk_cw sk_wmax sk_rho sk_smp]. splits; auto; try lia; try lra.
        * split; intro H; [lia|lra].
        * destruct X3 as [X3|X3]; rewrite X3; lra.
        * apply nmin_pos; apply qdiv_pos; lra.
        * intros _. apply nmin_is_min.
    - apply nmin_pos; apply qdiv_pos; lra.
    - intro Hc. eapply is_min_glb; [apply RM; auto| |].
      + eapply Qle_trans; [apply nmin_le_l|]. apply qdiv_le_mono; try lra; auto.
      + eapply Qle_trans; [apply nmin_le_r|]. apply qdiv_le_mono; try lra; now apply injZ_le.
    - pose proof (nmin_le_l (1 / wm) (inject_Z (sk_k sk) / (sk_cw sk + w))) as L.
      assert (P0 : 0 < nmin QOps (1 / wm) (inject_Z (sk_k sk) / (sk_cw sk + w))) by (apply nmin_pos; apply qdiv_pos; lra).
      assert (E : 1 / wm * wm == 1) by (field; lra).
      set (t := 1 / wm) in *. set (x := nmin QOps t _) in *. nra.
  Qed.

  Lemma update_nonpos sk it w s : w <= 0 ->
    match update QOps Item sk it w s with Some r => r | None => (sk, s) end = (sk, s).
  Proof.
    intro Hw. unfold update. qs.
    destruct (qleb_spec 0 w) as [H0|H0]; cbn [negb orb]; auto.
    destruct (qeqb_spec w 0) as [_|H1]; auto. exfalso; apply H1; lra.
  Qed.

  (* ----- the replay loop of internal_merge ----- *)
  Definition LoopInv (P : Item -> Prop) (k : Z) (wm base : Q) (st : Q * Q * qsample) : Prop :=
    base <= fst (fst st) /\ 0 < snd (fst st) /\ sc (snd st) == snd (fst st) * fst (fst st) /\
    Shape Item (snd st) /\ AllP Item P (snd st) /\
    (forall x, x <= 1 / wm -> x <= inject_Z k / fst (fst st) -> x <= snd (fst st)).

  Section Loop.
    Variable P : Item -> Prop.
    Variable k : Z.
    Variables wm base avg : Q.
    Definition LoopCtx : Prop :=
      (1 <= k)%Z /\ 0 < wm /\ 0 < base /\ 0 < avg /\
      (forall x, 0 < x -> x <= 1 / wm -> x <= inject_Z k / base -> x * avg <= 1).

    Lemma feed_loop_step (dw : Q) (th : Q -> Q) it (st : Q * Q * qsample) s (st' : Q * Q * qsample) s' :
      LoopCtx ->
      0 < dw -> dw <= avg -> (forall r, th r == r * dw) ->
      LoopInv P k wm base st -> P it -> cs_ok s ->
      feed QOps Item k wm it dw th st s = (st', s') ->
      LoopInv P k wm base st' /\ cs_ok s' /\ fst (fst st') = fst (fst st) + dw /\
      snd (fst st') = nmin QOps (1 / wm) (inject_Z k / fst (fst st')).
    Proof.
      intros (Hk & Hwm & Hbase & Havg & Hbound) Hdw Hda Hth (L1 & L2 & L3 & L4 & L5 & L6) Hit Hs EF.
      destruct st as [[cw rho] sm], st' as [[cw' rho'] sm']. cbn [fst snd] in *.
      assert (Kp : 0 < inject_Z k) by now apply injZ_pos.
      assert (P0 : 0 < nmin QOps (1 / wm) (inject_Z k / (cw + dw))) by (apply nmin_pos; apply qdiv_pos; lra).
      apply feed_spec with (P := P) in EF; auto; try lra.
      - destruct EF as (E1 & E2 & E3 & E4 & E5 & E6). subst cw' rho'.
        unfold LoopInv; cbn [fst snd]. splits; auto; try lra.
        intros x H1 H2. now apply nmin_glb.
      - intros _. apply L6; [apply nmin_le_l|].
        eapply Qle_trans; [apply nmin_le_r|]. apply qdiv_le_mono; lra.
      - pose proof (nmin_le_l (1 / wm) (inject_Z k / (cw + dw))) as A.
        pose proof (nmin_le_r (1 / wm) (inject_Z k / (cw + dw))) as B.
        assert (C : inject_Z k / (cw + dw) <= inject_Z k / base) by (apply qdiv_le_mono; lra).
        set (x := nmin QOps (1 / wm) (inject_Z k / (cw + dw))) in *.
        assert (D : x * avg <= 1) by (apply Hbound; auto; lra).
        nra.
    Qed.

    Lemma replay_fold l : LoopCtx -> forall (st : Q * Q * qsample) s (st' : Q * Q * qsample) s',
      Forall P l -> LoopInv P k wm base st -> cs_ok s ->
      fold_left (fun acc it => feed QOps Item k wm it avg (fun r : Q => r * avg) (fst acc) (snd acc)) l (st, s) = (st', s') ->
      LoopInv P k wm base st' /\ cs_ok s' /\
      fst (fst st') == fst (fst st) + inject_Z (Z.of_nat (length l)) * avg /\
      (l <> [] -> snd (fst st') = nmin QOps (1 / wm) (inject_Z k / fst (fst st'))) /\
      (l = [] -> st' = st).
    Proof.
      intro CTX. pose proof CTX as (Hk & Hwm & Hbase & Havg & Hbound).
      induction l as [|it l IH]; intros st s st' s' HP LI Hs E; cbn [fold_left fst snd length] in E.
      - inversion E; subst. splits; auto; try congruence.
        cbn [length Z.of_nat]. change (inject_Z 0) with 0. rewrite Qmult_0_l, Qplus_0_r. reflexivity.
      - inversion HP; subst.
        destruct (feed QOps Item k wm it avg (fun r : Q => r * avg) st s) as [st1 s1] eqn:EF.
        apply feed_loop_step in EF; auto; try lra; try (intro; reflexivity).
        destruct EF as (LI1 & Hs1 & Ecw & Erho).
        specialize (IH st1 s1 st' s' H2 LI1 Hs1 E). destruct IH as (LI' & Hs' & Ecw' & Erho' & Enil).
        splits; auto.
        + rewrite Ecw', Ecw. cbn [length]. rewrite Nat2Z.inj_succ. unfold Z.succ. rewrite inject_Z_plus.
          change (inject_Z 1) with 1. ring.
        + intros _. destruct l as [|y l']; [|apply Erho'; discriminate].
          rewrite (Enil eq_refl). exact Erho.
        + discriminate.
    Qed.
  End Loop.

  (* ----- internal_merge: [a] is *this and not lighter than [b] ----- *)
  Lemma shape_zero (sm : qsample) : Shape Item sm -> sc sm == 0 -> sdata sm = [] /\ spart sm = None.
  Proof.
    intros (C0 & L & Pn) Z0.
    assert (F : Qfloor (sc sm) = 0%Z) by (rewrite Z0; reflexivity).
    rewrite F in L. cbn in L. split.
    - destruct (sdata sm); [reflexivity|discriminate].
    - apply Pn. unfold fl. rewrite F. exact Z0.
  Qed.

  Lemma shape_count (sm : qsample) : Shape Item sm ->
    inject_Z (Z.of_nat (length (sdata sm))) == fl (sc sm).
  Proof.
    intros (C0 & L & Pn). rewrite L, Z2Nat.id; [reflexivity|]. now apply floor_nonneg.
  Qed.

  Lemma internal_merge_spec P kka kkb a b s r s' :
    internal_merge QOps Item a b s = (r, s') ->
    Inv P kka a -> Inv P kkb b -> cs_ok s -> sk_cw b <= sk_cw a -> 0 < sk_cw a ->
    Inv P (if Qeq_bool (sk_cw b) 0 then kka else Z.min (sk_k a) (sk_k b)) r /\ cs_ok s' /\
    sk_k r = Z.min (sk_k a) (sk_k b) /\ sk_n r = (sk_n a + sk_n b)%Z /\
    sk_cw r = sk_cw a + sk_cw b /\ sk_wmax r = nmax QOps (sk_wmax a) (sk_wmax b).
  Proof.
    intros E (K1 & K2 & N0 & NW & M0 & MW & MP & R0 & RM & CE & SH & AP)
             (K1b & K2b & N0b & NWb & M0b & MWb & MPb & R0b & RMb & CEb & SHb & APb) Hs Hle Hpa.
    unfold internal_merge, internal_merge_gen in E. qs.
    set (k := Z.min (sk_k a) (sk_k b)) in *.
    set (wm := nmax QOps (sk_wmax a) (sk_wmax b)) in *.
    set (avg := sk_cw b / sc (sk_smp b)) in *.
    specialize (MP Hpa). specialize (RM Hpa).
    destruct (qeqb_spec (sk_cw b) 0) as [Wb0|Wb0].
    - (* empty b: nothing is replayed *)
      assert (Cb : sc (sk_smp b) == 0) by (rewrite CEb, Wb0; ring).
      destruct (shape_zero _ SHb Cb) as [Db Pb]. rewrite Db, Pb in E. cbn [fold_left] in E.
      inversion E; subst r s'; clear E.
      cbn [sk_k sk_n sk_cw sk_wmax sk_rho sk_smp].
      assert (Wm : wm = sk_wmax a) by (apply nmax_zero_r; auto; lra).
      splits; auto.
      unfold Inv; cbn [sk_k sk_n sk_cw sk_wmax sk_rho sk_smp]. rewrite Wm.
      assert (N0' : sk_n b = 0%Z) by (apply NWb; auto).
      splits; auto; try lia; try lra.
      + split; intro H; [exfalso; assert (sk_n a = 0%Z) by lia; assert (sk_cw a == 0) by (apply NW; auto); lra | lra].
      + intros _. eapply is_min_compat; [reflexivity|reflexivity| |exact RM]. rewrite Wb0. now rewrite Qplus_0_r.
      + rewrite CE, Wb0. ring.
    - (* b is not empty: its C items are replayed with the average weight *)
      assert (Wb : 0 < sk_cw b) by (destruct (Qlt_le_dec 0 (sk_cw b)); auto; exfalso; apply Wb0; lra).
      specialize (MPb Wb). specialize (RMb Wb).
      assert (Cb : 0 < sc (sk_smp b)) by (rewrite CEb; nra).
      assert (Havg : 0 < avg) by (apply qdiv_pos; auto).
      assert (AC : avg * sc (sk_smp b) == sk_cw b) by (unfold avg; field; lra).
      assert (AR : avg * sk_rho b == 1).
      { unfold avg. rewrite CEb. field. split; lra. }
      pose proof (nmax_spec (sk_wmax a) (sk_wmax b)) as (X1 & X2 & X3). fold wm in X1, X2, X3.
      assert (Wmle : wm <= sk_cw a + sk_cw b) by (destruct X3 as [X3|X3]; rewrite X3; lra).
      clear X3.
      assert (Wm : 0 < wm) by lra.
      assert (Kk : (1 <= k)%Z) by (unfold k; lia).
      assert (Kp : 0 < inject_Z k) by now apply injZ_pos.
      assert (CTX : LoopCtx k wm (sk_cw a) avg).
      { unfold LoopCtx. splits; auto. intros x Hx H1 H2.
        assert (Hxr : x <= sk_rho b).
        { eapply is_min_glb; [exact RMb| |].
          - eapply Qle_trans; [exact H1|]. apply qdiv_le_mono; lra.
          - eapply Qle_trans; [exact H2|]. apply qdiv_le_mono; try lra. apply injZ_le. unfold k. lia. }
        nra. }
      assert (LI0 : LoopInv P k wm (sk_cw a) (sk_cw a, sk_rho a, sk_smp a)).
      { unfold LoopInv; cbn [fst snd]. splits; auto; try lra.
        intros x H1 H2. eapply is_min_glb; [exact RM| |].
        - eapply Qle_trans; [exact H1|]. apply qdiv_le_mono; lra.
        - eapply Qle_trans; [exact H2|]. apply qdiv_le_mono; try lra. apply injZ_le. unfold k. lia. }
      destruct APb as (APd & APp).
      match type of E with context [fold_left ?f ?l ?i] => destruct (fold_left f l i) as [st1 s1] eqn:EF end.
      apply replay_fold with (P := P) (base := sk_cw a) in EF; auto.
      destruct EF as (LI1 & Hs1 & Ecw1 & Erho1 & Enil1). cbn [fst snd] in Ecw1.
      rewrite (shape_count _ SHb) in Ecw1.
      pose proof SHb as (C0b & Lb & Pnb).
      pose proof (fl_le (sc (sk_smp b))) as F1. pose proof (fl_lt (sc (sk_smp b))) as F2.
      (* the state after the partial item, if any *)
      assert (FIN : forall (st2 : Q * Q * qsample) s2,
                (match spart (sk_smp b) with
                 | Some p => feed QOps Item k wm p ((sc (sk_smp b) - inject_Z (Qfloor (sc (sk_smp b)))) * avg)
                               (fun r : Q => r * (sc (sk_smp b) - inject_Z (Qfloor (sc (sk_smp b)))) * avg) st1 s1
                 | None => (st1, s1)
                 end = (st2, s2)) ->
                LoopInv P k wm (sk_cw a) st2 /\ cs_ok s2 /\ fst (fst st2) == sk_cw a + sk_cw b /\
                snd (fst st2) = nmin QOps (1 / wm) (inject_Z k / fst (fst st2))).
      { intros st2 s2 E2. destruct (spart (sk_smp b)) as [p|] eqn:Ep.
        - assert (Hfr : fl (sc (sk_smp b)) < sc (sk_smp b)).
          { destruct (frac_cases (sc (sk_smp b))) as [H|H]; auto. apply Pnb in H. congruence. }
          unfold fl in *.
          apply feed_loop_step with (P := P) (base := sk_cw a) (avg := avg) in E2; auto.
          + destruct E2 as (LI2 & Hs2 & Ecw2 & Erho2). splits; auto.
            rewrite Ecw2, Ecw1. unfold fl. set (c := sc (sk_smp b)) in *. set (f := inject_Z (Qfloor c)) in *. nra.
          + set (c := sc (sk_smp b)) in *. set (f := inject_Z (Qfloor c)) in *. nra.
          + set (c := sc (sk_smp b)) in *. set (f := inject_Z (Qfloor c)) in *. nra.
          + intro r0. ring.
        - inversion E2; subst st2 s2; clear E2.
          assert (Hint : sc (sk_smp b) == fl (sc (sk_smp b))) by (apply Pnb; reflexivity).
          splits; auto.
          + rewrite Ecw1. rewrite <- Hint. lra.
          + apply Erho1. intro Hnil. rewrite Hnil in Lb. cbn [length] in Lb.
            assert (1 <= Z.to_nat (Qfloor (sc (sk_smp b))))%nat; [|lia].
            apply to_nat_floor_ge1. unfold fl in *.
            destruct (Qlt_le_dec (sc (sk_smp b)) 1) as [Hlt|]; auto. exfalso.
            assert (Qfloor (sc (sk_smp b)) = 0%Z) by (apply floor_unique; change (inject_Z 0) with 0; lra).
            rewrite H in Hint. change (inject_Z 0) with 0 in Hint. lra. }
      clear Pnb.
      destruct (spart (sk_smp b)) as [p|];
        [ match type of E with context [feed ?a1 ?a2 ?a3 ?a4 ?a5 ?a6 ?a7 ?a8 ?a9] =>
            destruct (feed a1 a2 a3 a4 a5 a6 a7 a8 a9) as [st2 s2] end; pose proof (FIN st2 s2 eq_refl) as E2
        | pose proof (FIN st1 s1 eq_refl) as E2; revert E E2; generalize st1 as st2, s1 as s2; intros st2 s2 E E2 ].
      all: destruct E2 as (LI2 & Hs2 & Ecw2 & Erho2).
      all: clear FIN.
      all: destruct st2 as [[cw2 rho2] sm2]; cbn [fst snd] in *.
      all: destruct LI2 as (L1 & L2 & L3 & L4 & L5 & L6); cbn [fst snd] in *.
      all: inversion E; subst r s'; clear E.
      all: cbn [sk_k sk_n sk_cw sk_wmax sk_rho sk_smp]; fold wm; fold k.
      all: splits; auto.
      all: unfold Inv; cbn [sk_k sk_n sk_cw sk_wmax sk_rho sk_smp].
      all: splits; auto; try lia; try lra.
      all: try (split; intro H; [exfalso|lra];
                assert (sk_n a = 0%Z) by lia; assert (sk_cw a == 0) by (apply NW; auto); lra).
      all: try (intros _; rewrite Erho2; eapply is_min_compat; [reflexivity|reflexivity| |apply nmin_is_min];
                now rewrite Ecw2).
      all: try (rewrite L3, Ecw2; reflexivity).
  Qed.
End SketchInv.
