(* Properties_C13.v — Tuple sketches keep theta-sketch keys and exact per-key summaries (statements only). *)
From Coq Require Import ZArith NArith List Bool Lia.
From DS Require Import Word Murmur3 RunnerLib OpenAddr KSmallest Canon ThetaDefs TupleDefs.
Import ListNotations.

(* the line protocol drives the polymorphic update with the policy adapter *)
Theorem C13_protocol_trim : forall st r pol seed k e,
  reg_get st r = Some (RU pol seed k) ->
  fst (step st [3; r]%Z e) = reg_set st r (RU pol seed (trim sm ssel k)).
Proof. intros st r pol seed k e H. unfold step. rewrite H. reflexivity. Qed.

Print Assumptions C13_protocol_trim.
