(* Properties_C13.v — Tuple sketches keep theta-sketch keys and exact per-key summaries.
   Statements only; proofs live in TupleProofs.v (per-key fold), TupleErase.v (same keys as a Theta sketch),
   TupleSetProofs.v (filter, A-not-B, intersection), TupleUnionProofs.v (union), TupleArray.v (array-of-doubles) and
   the C01 files (ThetaProofs / ThetaRefine / ThetaFacts: the table model, polymorphic in the payload).

   Setting: the executable model TupleDefs.v — the Theta table of ThetaDefs.v carrying a summary per key, driven by
   the tuple update policy ([tup_f]: create() then update() on first sight, update() on repeat), and the set
   operations as coded in theta_*_base_impl.hpp.  Quantification:
   - summary type S, update type U and the policies create / upd / comb are ARBITRARY (no algebraic law assumed),
   - the 64-bit hash of every update is arbitrary (any hash function, any keys, any repetition),
   - std::nth_element is ANY function meeting its postcondition,
   - any lg_k >= 5, resize factor and starting theta; every history of update / trim / reset,
   - set operations: any list of well-formed inputs ([cwf]: distinct keys, no entries when empty, strictly increasing
     when flagged ordered), in any physical form (ordered or not), any presentation order. *)
From Coq Require Import ZArith NArith List Bool Lia Permutation Sorted.
From DS Require Import Word Murmur3 RunnerLib OpenAddr KSmallest Canon ThetaDefs ThetaProofs ThetaRefine ThetaFacts
  TupleDefs TupleProofs TupleErase TupleSetProofs TupleUnionProofs TupleWf TupleMore TupleArray TupleBridge.
From DS Require ThetaSetDefs.
Import ListNotations.
Local Open Scope N_scope.

(* ------------------------------------------------------------------------------------------ *)
Section UpdateSketch.
  Variables S U : Type.
  Variable create : S.
  Variable upd : S -> U -> S.
  Variable sel : nat -> list (N * S) -> list (N * S).
  Hypothesis sel_ok : forall k l, (k < length l)%nat -> nth_post fst k l (sel k l).
  Variables lgn r th0 : N.
  Hypothesis lgn_ge : 5 <= lgn.
  Notation trun ts := (run_ops S sel lgn r th0 (map (op_of_top S U create upd) ts)).

  (* the Theta sketch fed the same keys (payload unit), with ITS OWN nth_element *)
  Definition theta_ops (ts : list (top U)) : list (op unit) :=
    map (fun t => match t with TUpdate h _ => OpUpdate h unit_upd | TTrim => OpTrim | TReset => OpReset end) ts.

  (* a tuple sketch retains exactly the keys of a Theta sketch with the same configuration: same lg_cur_size, theta,
     is_empty, num_entries, reported theta and the same sorted keys, after every history *)
  Theorem C13_same_keys_as_theta_sketch :
    forall (sel2 : nat -> list (N * unit) -> list (N * unit)),
    (forall k l, (k < length l)%nat -> nth_post fst k l (sel2 k l)) ->
    forall ts, let s := trun ts in let t := run_ops unit sel2 lgn r th0 (theta_ops ts) in
    lg_cur s = lg_cur t /\ theta s = theta t /\ is_empty s = is_empty t /\ num s = num t /\
    get_theta64 S s = get_theta64 unit t /\
    Permutation (keys S s) (keys unit t) /\ sortN (keys S s) = sortN (keys unit t).
  Proof.
    intros sel2 sel2_ok ts. apply (same_keys S unit sel sel2 sel_ok sel2_ok lgn r th0 lgn_ge).
    unfold theta_ops. rewrite !map_map. apply map_ext. intros [h u| |]; reflexivity.
  Qed.

  (* ... which are the distinct non-zero hashes offered since the last reset that are below theta, each once *)
  Theorem C13_keys_are_the_theta_sample : forall ts, let s := trun ts in
    NoDup (keys S s) /\
    (forall h, In h (keys S s) <-> In h (seen_of (map (op_of_top S U create upd) ts)) /\ 0 < h < theta s) /\
    num s = N.of_nat (length (keys S s)).
  Proof. intros ts. exact (refines S sel sel_ok lgn r th0 lgn_ge _). Qed.

  (* the summary of every retained key = the update policy folded over every value offered with that key since the
     last reset, in arrival order, starting from create() — across resize, rebuild and trim *)
  Theorem C13_summary_is_fold : forall ts h v, In (h, v) (entries S (trun ts)) ->
    offered_with U h ts [] <> [] /\ v = fold_policy S U create upd (offered_with U h ts []).
  Proof. exact (summary_is_fold S U create upd sel sel_ok lgn r th0 lgn_ge). Qed.

  (* compact(ordered): same theta, emptiness and (key, summary) pairs; hence the same per-key folds *)
  Theorem C13_compact_keeps_summaries : forall ts ordered h v,
    let c := compact_of S (trun ts) ordered in
    (c_theta c = get_theta64 S (trun ts) /\ c_empty c = is_empty (trun ts) /\
     Permutation (c_entries c) (entries S (trun ts)) /\ cwf S c) /\
    (In (h, v) (c_entries c) -> v = fold_policy S U create upd (offered_with U h ts [])).
  Proof.
    intros ts ordered h v c.
    destruct (compact_same S sel sel_ok lgn r th0 lgn_ge (map (op_of_top S U create upd) ts) ordered)
      as (H1 & H2 & H3 & _ & H5). split; [auto|].
    intros Hin. eapply Permutation_in in Hin; [|exact H3].
    now destruct (summary_is_fold S U create upd sel sel_ok lgn r th0 lgn_ge ts h v Hin).
  Qed.
End UpdateSketch.

(* the general form behind C13_summary_is_fold: ANY payload functions, composed in arrival order *)
Theorem C13_payload_is_composition : forall S sel,
  (forall k l, (k < length l)%nat -> nth_post fst k l (sel k l)) ->
  forall lgn r th0, 5 <= lgn -> forall ops h v,
  In (h, v) (entries S (run_ops S sel lgn r th0 ops)) -> pay_of h ops = Some v.
Proof. intros S sel sel_ok lgn r th0 Hk. exact (run_pay S sel sel_ok lgn r th0 Hk). Qed.

(* ------------------------------------------------------------------------------------------ *)
Section SetOperations.
  Variable S : Type.
  Variable comb : S -> S -> S.             (* ANY union / intersection policy *)

  (* filter keeps precisely the entries whose summary satisfies the predicate; theta is kept; the result is empty
     iff nothing is left of a sketch that was not in estimation mode; well-formedness is kept *)
  Theorem C13_filter_spec : forall (p : S -> bool) (c : compact S), let f := filter_c S p c in
    c_theta f = c_theta c /\
    c_entries f = filter (fun e => p (snd e)) (c_entries c) /\
    (forall h v, In (h, v) (c_entries f) <-> In (h, v) (c_entries c) /\ p v = true) /\
    c_empty f = negb (c_est S c) && (length (c_entries f) =? 0)%nat /\
    (c_est S c = true -> c_empty f = false) /\
    (cwf S c -> cwf S f).
  Proof. exact (filter_spec S comb). Qed.

  (* A-not-B keeps A's summaries untouched: the result holds exactly A's (key, summary) pairs whose key is below
     min(theta_A, theta_B) and is not a key of B — by either code path (sort-based or hash-based) *)
  Theorem C13_a_not_b_keeps_A : forall a b ordered, cwf S a -> cwf S b -> anb_early S a b = false ->
    let c := a_not_b S a b ordered in
    c_theta c = N.min (c_theta a) (c_theta b) /\
    forall h v, In (h, v) (c_entries c) <->
                In (h, v) (c_entries a) /\ h < N.min (c_theta a) (c_theta b) /\ ~ In h (map fst (c_entries b)).
  Proof. exact (a_not_b_spec S comb). Qed.

  (* the two early returns (A empty; A has entries and B is empty) give A itself *)
  Theorem C13_a_not_b_early_is_A : forall a b ordered, cwf S a -> anb_early S a b = true ->
    let c := a_not_b S a b ordered in
    c_theta c = c_theta a /\ c_empty c = c_empty a /\ Permutation (c_entries c) (c_entries a) /\ cwf S c.
  Proof. exact (a_not_b_early S). Qed.

  (* intersection: every key of the result is held by EVERY input and its summary is the policy folded over the
     inputs' summaries of that key in presentation order, starting from the first input's summary: the COMBINED
     summary is kept at every stage, each input is combined exactly once *)
  Theorem C13_intersection_summary : forall cs h v, Forall (cwf S) cs ->
    In (h, v) (i_ents (inter_run S comb cs)) ->
    exists v1 vs, summaries S h cs = Some (v1 :: vs) /\ v = fold_left comb vs v1.
  Proof. exact (inter_summary S comb). Qed.

  Theorem C13_intersection_result : forall cs ordered c, inter_result S (inter_run S comb cs) ordered = Some c ->
    Permutation (c_entries c) (i_ents (inter_run S comb cs)) /\ c_theta c = i_theta (inter_run S comb cs) /\
    c_empty c = i_empty (inter_run S comb cs)
                || ((length (i_ents (inter_run S comb cs)) =? 0)%nat && (i_theta (inter_run S comb cs) =? max_theta)).
  Proof. exact (inter_result_entries S comb). Qed.

  Theorem C13_intersection_defined_after_first_update : forall cs ordered, Forall (cwf S) cs ->
    (inter_result S (inter_run S comb cs) ordered = None <-> cs = []).
  Proof. exact (inter_has_result S comb). Qed.

  (* union: every key of a result is held by some non-empty input and its summary is the first such input's summary
     (stored as it came) combined by the policy with the summaries of the later inputs holding the key, in
     presentation order, each exactly once — for any nth_element, any union configuration, ordered or unordered
     inputs (early stop), whatever the union's table resized or rebuilt *)
  Theorem C13_union_summary : forall sel,
    (forall k l, (k < length l)%nat -> nth_post fst k l (sel k l)) ->
    forall lgn r th0, 5 <= lgn -> forall cs ordered h v, Forall (cwf S) cs ->
    In (h, v) (c_entries (union_result S sel (union_run S sel comb lgn r th0 cs) ordered)) ->
    exists v1 vs, hsummaries S h cs = v1 :: vs /\ v = fold_left comb vs v1.
  Proof. intros sel sel_ok lgn r th0 Hk. exact (union_summary S sel sel_ok comb lgn r th0 Hk). Qed.
End SetOperations.

(* one intersection step selects exactly the keys held by both sides below theta — the early stop on an ordered
   input loses nothing (completeness; C13_intersection_summary gives the summaries) *)
Theorem C13_intersection_step_keys : forall S comb o th ents l h,
  NoDup (map fst l) -> (o = true -> StronglySorted (klt fst) l) ->
  (In h (map fst (inter_scan S comb o th ents l)) <-> In h (map fst ents) /\ In h (map fst l) /\ h < th).
Proof. exact inter_scan_complete. Qed.

(* Theta sketches as operands: compact_tuple_sketch(theta_sketch, summary, ordered) has the Theta sketch's theta,
   emptiness and exactly its keys, each carrying the given summary, and is well-formed when the Theta sketch is *)
Theorem C13_from_theta_sketch : forall S (t : compact unit) (v : S) ordered, let c := of_theta S t v ordered in
  c_theta c = c_theta t /\ c_empty c = c_empty t /\
  (forall h s, In (h, s) (c_entries c) <-> In h (map fst (c_entries t)) /\ s = v) /\
  (cwf unit t -> cwf S c).
Proof. intros S. exact (of_theta_spec S (fun a _ => a)). Qed.

(* the results of the set operations are well-formed again, so the theorems above cover arbitrary SEQUENCES of set
   operations (results fed to further operations), starting from compacted update sketches (C13_compact_keeps_summaries),
   filter results (C13_filter_spec) and each other *)
Theorem C13_a_not_b_result_wf : forall S (a b : compact S) ordered, cwf S a -> cwf S b -> cwf S (a_not_b S a b ordered).
Proof. exact a_not_b_wf. Qed.

Theorem C13_intersection_result_wf : forall S comb cs ordered c, Forall (cwf S) cs ->
  inter_result S (inter_run S comb cs) ordered = Some c -> cwf S c.
Proof. exact inter_result_wf. Qed.

Theorem C13_union_result_wf : forall S comb sel,
  (forall k l, (k < length l)%nat -> nth_post fst k l (sel k l)) ->
  forall lgn r th0, 5 <= lgn -> forall cs ordered, Forall (cwf S) cs ->
  cwf S (union_result S sel (union_run S sel comb lgn r th0 cs) ordered).
Proof. intros S comb sel sel_ok lgn r th0 Hk. exact (union_result_wf S comb sel sel_ok lgn r th0 Hk). Qed.

(* the tuple union IS the union model of property C02 (coq/ThetaSetDefs.v) at payload type S — same table and union
   theta after every update, same result — so the C02 theorems on which keys a union returns (exact set expression,
   theta rule, permutation and form independence; all stated for any payload type and policy) hold for it verbatim *)
Theorem C13_union_update_is_C02_union : forall S sel comb sh (u : union_st S) sh' (c : compact S),
  ThetaSetDefs.union_update S sel comb (to_c02 S sh u) (ThetaSetDefs.input_of_compact S sh' c) =
  if c_empty c then Some (to_c02 S sh u)
  else if negb (sh' =? sh) then None
  else Some (to_c02 S sh (union_update S sel comb u c)).
Proof. exact bridge_union_update. Qed.

Theorem C13_union_result_is_C02_union : forall S sel,
  (forall k l, (k < length l)%nat -> nth_post fst k l (sel k l)) ->
  forall sh (u : union_st S) ordered,
  let a := ThetaSetDefs.union_result S sel (to_c02 S sh u) ordered in
  let b := union_result S sel u ordered in
  ThetaSetDefs.in_theta a = c_theta b /\ ThetaSetDefs.in_empty a = c_empty b /\
  ThetaSetDefs.in_ordered a = c_ordered b /\ ThetaSetDefs.in_entries a = c_entries b /\
  ThetaSetDefs.in_seed_hash a = sh.
Proof.
  intros S sel sel_ok. apply bridge_union_result. intros k l H. destruct (sel_ok k l H) as [Hp _].
  exact (Permutation_length Hp).
Qed.

(* ------------------------------------------------------------------------------------------ *)
(* array-of-doubles = the column-wise instance of the same model (policies of TupleDefs.v with pol = n > 0); the
   arithmetic summary with the default policies (pol = -1: Summary() = 0, +=) is the one-column case *)
Theorem C13_array_update_columnwise : forall (n : Z) vs k, (0 < n)%Z -> (k < zn n)%nat ->
  nth k (fold_policy sm (list Z) (p_create n) (p_upd n) vs) 0%Z = col k vs.
Proof. exact array_update_columnwise. Qed.

Theorem C13_array_combine_columnwise : forall (n sep : Z) v1 vs k, (0 < n)%Z -> (k < length v1)%nat ->
  nth k (fold_left (p_comb n sep) vs v1) 0%Z = (nth k v1 0 + col k vs)%Z.
Proof. exact array_comb_columnwise. Qed.

(* ------------------------------------------------------------------------------------------ *)
(* the line protocol run against the C++ drives exactly these functions *)
Theorem C13_protocol_update : forall st r mv pol seed k vals kind args bytes e,
  reg_get st r = Some (RU pol seed k) -> canon_input kind args = Some bytes ->
  nz (length vals) = arity pol ->
  fst (step st (2 :: r :: mv :: nz (length vals) :: vals ++ kind :: args)%Z e) =
  reg_set st r (RU pol seed (step_op sm ssel k (tup_op sm (list Z) (p_create pol) (p_upd pol) (hash64 seed bytes) vals))).
Proof.
  intros st r mv pol seed k vals kind args bytes e Hr Hc Hn. unfold step. rewrite Hr.
  unfold zn, nz. rewrite Nat2Z.id, firstn_app, firstn_all, Nat.sub_diag, skipn_app, skipn_all, Nat.sub_diag.
  cbn [firstn skipn app]. rewrite app_nil_r. unfold nz in Hn. rewrite Hn, Z.eqb_refl. cbn [negb]. rewrite Hc. reflexivity.
Qed.

Theorem C13_protocol_union_update : forall st r r2 pol seed u g c e,
  reg_get st r = Some (RUn pol seed u) -> reg_get st r2 = Some g ->
  view g = Some (pol, compute_seed_hash seed, c) -> c_empty c = false ->
  fst (step st [13; r; r2; 0]%Z e) = reg_set st r (RUn pol seed (union_update sm ssel (p_comb pol sep_union) u c)).
Proof.
  intros st r r2 pol seed u g c e Hr Hg Hv He. unfold step. rewrite Hr, Hg, Hv, Z.eqb_refl, He, N.eqb_refl. reflexivity.
Qed.

Theorem C13_protocol_intersection_update : forall st r r2 pol seed i g c e,
  reg_get st r = Some (RIn pol seed i) -> reg_get st r2 = Some g ->
  view g = Some (pol, compute_seed_hash seed, c) -> i_empty i = false ->
  fst (step st [17; r; r2; 0]%Z e) = reg_set st r (RIn pol seed (inter_update sm (p_comb pol sep_inter) i c)).
Proof.
  intros st r r2 pol seed i g c e Hr Hg Hv He. unfold step. rewrite Hr, Hg, Hv, Z.eqb_refl, He, N.eqb_refl.
  rewrite andb_false_r. reflexivity.
Qed.

(* ------------------------------------------------------------------------------------------ *)
(* non-vacuity *)
(* (1) a concrete history at lg_k = 5, p = 0.5 with Murmur hashes: 600 updates over 150 keys (every key offered
       4 times) with the "log" policy: passes through resize and rebuild; every retained summary is the 4-value fold *)
Definition nv_ts (n : nat) : list (top (list Z)) :=
  map (fun i => TUpdate (hash64 9001 (N_to_le_bytes 8 (N.of_nat (i mod 150)))) [Z.of_nat i]) (seq 1 n).

Definition sm_eqb (a b : sm) : bool := (length a =? length b)%nat && forallb (fun p => Z.eqb (fst p) (snd p)) (combine a b).

Example C13_nonvacuous_update :
  let ts := nv_ts 600 in
  let s := run_ops sm ssel 5 1 (2 ^ 62) (map (op_of_top sm (list Z) (p_create 0) (p_upd 0)) ts) in
  lg_cur s = 6 /\ (theta s <? 2 ^ 62) = true /\ (32 <=? num s) = true /\
  forallb (fun e => sm_eqb (snd e) (fold_policy sm (list Z) (p_create 0) (p_upd 0) (offered_with (list Z) (fst e) ts [])))
          (entries sm s) = true /\
  forallb (fun e => (length (snd e) =? 5)%nat) (entries sm s) = true /\
  sortN (keys sm s) = sortN (keys unit (run_ops unit sel_sort 5 1 (2 ^ 62) (theta_ops (list Z) ts))).
Proof. vm_compute. repeat split; reflexivity. Qed.

(* array-of-doubles instance with 2 columns *)
Example C13_nonvacuous_array :
  fold_policy sm (list Z) (p_create 2) (p_upd 2) [[1; 2]; [3; 4]; [5; 6]]%Z = [9; 12]%Z /\
  fold_left (p_comb 2 sep_union) [[3; 4]; [5; 6]]%Z [1; 2]%Z = [9; 12]%Z /\ col 1 [[1; 2]; [3; 4]; [5; 6]]%Z = 12%Z.
Proof. vm_compute. repeat split; reflexivity. Qed.

(* (2) concrete set operations with the log policy (Z lists): the hypotheses hold and the conclusions are informative *)
Definition nv_a : compact sm := mk_compact sm max_theta false true [(1, [(10)%Z]); (3, [(30)%Z]); (5, [(50)%Z])].
Definition nv_b : compact sm := mk_compact sm max_theta false false [(7, [(71)%Z]); (3, [(31)%Z]); (5, [(51)%Z])].
Definition nv_c : compact sm := mk_compact sm 6 false true [(3, [(32)%Z])].

Lemma nv_wf : Forall (cwf sm) [nv_a; nv_b; nv_c].
Proof.
  repeat constructor; simpl; try (intros H; discriminate H); try (intros [H|H]; try discriminate H; try contradiction);
  try (intuition discriminate); unfold klt; simpl; try lia.
Qed.

Example C13_nonvacuous_setops :
  i_ents (inter_run sm (p_comb 0 sep_inter) [nv_a; nv_b; nv_c]) = [(3, [(30)%Z; (-9)%Z; (31)%Z; (-9)%Z; (32)%Z])] /\
  option_map (@c_entries sm) (Some (union_result sm ssel (union_run sm ssel (p_comb 0 sep_union) 5 0 max_theta [nv_a; nv_b; nv_c]) true))
    = Some [(1, [(10)%Z]); (3, [(30)%Z; (-8)%Z; (31)%Z; (-8)%Z; (32)%Z]); (5, [(50)%Z; (-8)%Z; (51)%Z])] /\
  c_theta (union_result sm ssel (union_run sm ssel (p_comb 0 sep_union) 5 0 max_theta [nv_a; nv_b; nv_c]) true) = 6 /\
  c_entries (a_not_b sm nv_a nv_b true) = [(1, [(10)%Z])] /\ anb_early sm nv_a nv_b = false /\
  c_entries (filter_c sm (p_pred 0 0) nv_a) = [(3, [(30)%Z])].
Proof. vm_compute. repeat split; reflexivity. Qed.

Print Assumptions C13_same_keys_as_theta_sketch.
Print Assumptions C13_keys_are_the_theta_sample.
Print Assumptions C13_summary_is_fold.
Print Assumptions C13_compact_keeps_summaries.
Print Assumptions C13_payload_is_composition.
Print Assumptions C13_filter_spec.
Print Assumptions C13_a_not_b_keeps_A.
Print Assumptions C13_a_not_b_early_is_A.
Print Assumptions C13_intersection_summary.
Print Assumptions C13_intersection_result.
Print Assumptions C13_intersection_defined_after_first_update.
Print Assumptions C13_union_summary.
Print Assumptions C13_intersection_step_keys.
Print Assumptions C13_from_theta_sketch.
Print Assumptions C13_a_not_b_result_wf.
Print Assumptions C13_intersection_result_wf.
Print Assumptions C13_union_result_wf.
Print Assumptions C13_union_update_is_C02_union.
Print Assumptions C13_union_result_is_C02_union.
Print Assumptions C13_array_update_columnwise.
Print Assumptions C13_array_combine_columnwise.
Print Assumptions C13_protocol_update.
Print Assumptions C13_protocol_union_update.
Print Assumptions C13_protocol_intersection_update.
