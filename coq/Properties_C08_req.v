(* Properties_C08_req.v — C08 for the REQ sketch: exact unbiasedness over the internal coin flips, and the published error.

   Estimator: est p cs = sum over the compactors of 2^lg_weight * #{retained items satisfying p}; with p = "<= x" /
   "< x" this is get_rank(x) * n (theorem C07_req_rank_is_estimator).

   MAIN THEOREM (C08_req_unbiased, proved in ReqFull.v): for every history that is a merge tree of updates (any k, both
   modes, any items), every query point and both criteria, the sum over ALL outcomes of the coins of get_rank * n equals
   2^m * true rank, where m is the number of coins that EVERY outcome draws.  The reused (negated) coin of odd
   compactions is covered: per outcome, estimate = true count + sum over levels h of 2^h * g_h (g_h = signed error
   accumulated by the compactions of level h, carried as ghost state of an instrumented semantics that erases to the
   model); negating every coin of level h (initial coins of level-h compactors and fresh coins of level-h compactions)
   is a bijection on outcomes that leaves all compactors below level h unchanged, keeps the items of level-h compactors
   while negating their stored coin, and changes the sign of g_h; hence the sum of g_h over all outcomes is 0.
   The theorem is about the REPAIRED constructor (ic = true); for the original coin_ = false it is false
   (C08_req_unset_coin_biased_refuted).  Not covered: histories that are DAGs (a sketch copied and merged with itself or
   with a descendant), where the same coin variable occurs in both operands; these are checked by enumeration only.

   Also proved, for every reachable state and query predicate (used as lemmas or of independent interest):
     - every operation step other than a compaction changes the estimator exactly like the true rank
       (C08_req_update_merge_exact_partial);
     - a compaction with an even state_ is a fair coin flip whose two outcomes add up to twice the estimate before
       (C08_req_fresh_coin_unbiased_partial);
     - a compaction with an odd state_ draws no coin (C08_req_odd_compaction_draws_no_coin);
     - the pairing argument on ONE compactor (C08_req_negated_pair_unbiased_partial);
     - the number of coins an update or a merge draws, and all sizes, state_ counters and section parameters it
       leaves behind, do not depend on the outcomes of the coins nor on the item values
       (C08_req_flip_count_independent, C08_req_lockstep);
     - the exact band of is_exact_rank (C08_req_exact_band). *)
From Coq Require Import ZArith List Bool Lia Permutation Sorted.
From DS Require Import RunnerLib SortedView ReqDefs ReqProofs ReqView ReqUnbiased ReqFlips ReqExact ReqFull Regression_req.
Import ListNotations.
Local Open Scope Z_scope.

(* htree: a merge tree of updates; run true hr t: the choice tree of the sketch it produces (all sketches in mode hr, the
   constructor drawing its first coin); hlog t: the stream; hwf t: every k fits uint16.  msum f T = sum of f over all
   outcomes (leaves) of T; mdepth T = number of coins on the all-false path - by the second clause, on EVERY path. *)
Theorem C08_req_unbiased : forall hr t x incl, hwf t ->
  let T := run true hr t in
  msum (fun s => qrank s x incl) T = 2 ^ Z.of_nat (mdepth T) * cnt (below x incl) (hlog t) /\
  (forall cs s r, replay T cs = Some (s, r) -> (length cs = mdepth T + length r)%nat).
Proof. exact rank_unbiased. Qed.

(* the same for every predicate on items (not only rank predicates), in the form sum = (number of outcomes) * true count *)
Theorem C08_req_unbiased_any_predicate : forall p hr t, hwf t ->
  msum (fun s => est p (comps s)) (run true hr t) = msum (fun _ => 1) (run true hr t) * cnt p (hlog t).
Proof. exact unbiased. Qed.

(* every outcome of a history is a reachable state that has been given exactly the history's stream *)
Theorem C08_req_histories_are_reachable : forall ic hr t s, hwf t -> leaf (run ic hr t) s -> reach ic s (hlog t) /\ hra s = hr.
Proof. intros ic hr t s W L. now apply run_reach. Qed.

(* per level: the signed error of the compactions of one level sums to zero over all outcomes *)
Theorem C08_req_level_error_cancels : forall p hr t h, msum (fun sg : req * G => snd sg h) (run_g p hr t) = 0.
Proof. exact level_error_sums_to_zero. Qed.

Theorem C08_req_fresh_coin_unbiased_partial : forall ic s log h p, reach ic s log ->
  (S h < length (comps s))%nat -> nom_cap (getc s h) <= nitems (getc s h) -> Z.odd (cstate (getc s h)) = false ->
  compact (hra s) (getc s h) (getc s (S h)) = Flip (fun b => Ret (compact_with (hra s) (getc s h) (getc s (S h)) b)) /\
  est p (after_compaction s h false) + est p (after_compaction s h true) = 2 * est p (comps s).
Proof.
  intros ic s log h p R HL CAP EV. split; [now apply fresh_coin_is_flip|].
  apply compaction_pair; auto. exact (r_inv s log (reach_Rel ic s log R)).
Qed.

Theorem C08_req_odd_compaction_draws_no_coin : forall hr c nx, Z.odd (cstate c) = true ->
  compact hr c nx = Ret (compact_with hr c nx (negb (coin c))).
Proof. exact odd_state_reuses_coin. Qed.

Theorem C08_req_update_merge_exact_partial :
  (* update: the new item enters level 0 with weight 1 *)
  (forall hr p c x r, lgw c = 0 -> est p (append hr c x :: r) = (if p x then 1 else 0) + est p (c :: r)) /\
  (* merge: compactor-wise merge adds the estimates *)
  (forall ic s l1 o l2 p, reach ic s l1 -> reach ic o l2 -> (length (comps o) <= length (comps s))%nat ->
     est p (merge_comps (hra s) (comps s) (comps o)) = est p (comps s) + est p (comps o)) /\
  (* sorting level 0 and adding an empty compactor change nothing *)
  (forall ic s log p, reach ic s log -> est p (comps (sort_level_zero s)) = est p (comps s)) /\
  (forall ic s log p c0, reach ic s log -> est p (comps (grow_with s c0)) = est p (comps s)).
Proof.
  splits.
  - exact append_est.
  - intros ic s l1 o l2 p R1 R2 LE.
    destruct (r_inv s l1 (reach_Rel ic s l1 R1)) as [_ _ LG _ _ _ S0 _ PA].
    destruct (r_inv o l2 (reach_Rel ic o l2 R2)) as [_ _ LGo _ _ _ S0o _ PAo].
    now apply merge_comps_est.
  - intros ic s log p R. apply sort_est. exact (r_inv s log (reach_Rel ic s log R)).
  - intros ic s log p c0 R. apply grow_est. exact (r_inv s log (reach_Rel ic s log R)).
Qed.

(* one fresh compaction (coin b) and the following negated one (coin !b) of the same compactor c, next compactor nx;
   L = what c holds before the second compaction (any list, the same for b = false and b = true), with whatever section
   parameters and state_ it has then.  w = 2^lg_weight.  Sum over b of the estimate of the two compactors after both
   compactions = 2 * (estimate with L, the first range and nx uncompacted). *)
Theorem C08_req_negated_pair_unbiased_partial : forall h c nx L p srt2 ssr2 ssz2 nsec2 st2,
  par_ok c -> nom_cap c <= nitems c ->
  let nx1 := fun b => snd (fst (compact_with h c nx b)) in
  let c2 := fun b => mkcomp (lgw c) b srt2 ssr2 ssz2 nsec2 st2 L in
  par_ok (c2 false) -> nom_cap (c2 false) <= nitems (c2 false) ->
  let w := 2 ^ lgw c in
  (w * cnt p (items (fst (fst (second h c2 nx1 false)))) + 2 * w * cnt p (items (snd (fst (second h c2 nx1 false))))) +
  (w * cnt p (items (fst (fst (second h c2 nx1 true)))) + 2 * w * cnt p (items (snd (fst (second h c2 nx1 true))))) =
  2 * (w * cnt p L + w * cnt p (crange h c) + 2 * w * cnt p (items nx)).
Proof. exact negated_pair. Qed.

(* "the number of flips does not depend on their outcomes": whatever coins two executions of the same update / merge
   see (cs1, cs2: the coins offered; r1, r2: what is left over), they consume the same number and end in states of
   the same shape (sizes, state_, section parameters, num_retained, max_nom_size, n) *)
Theorem C08_req_flip_count_independent :
  (forall ic s log x, reach ic s log ->
     forall cs1 cs2 s1 r1 s2 r2, replay (update ic s x) cs1 = Some (s1, r1) -> replay (update ic s x) cs2 = Some (s2, r2) ->
     (length cs1 - length r1 = length cs2 - length r2)%nat /\ sshape s1 = sshape s2) /\
  (forall ic s l1 o l2, reach ic s l1 -> reach ic o l2 ->
     forall cs1 cs2 s1 r1 s2 r2, replay (merge ic s o) cs1 = Some (s1, r1) -> replay (merge ic s o) cs2 = Some (s2, r2) ->
     (length cs1 - length r1 = length cs2 - length r2)%nat /\ sshape s1 = sshape s2).
Proof. split; [exact update_flips_independent|exact merge_flips_independent]. Qed.

(* stronger: two sketches of the same shape stay in lock-step (same branching of the coin tree, same shapes at the
   leaves) under updates with ANY items and merges with operands of the same shape *)
Theorem C08_req_lockstep : forall ic a la b lb, reach ic a la -> reach ic b lb -> sshape a = sshape b ->
  (forall x y, tsim SS (update ic a x) (update ic b y)) /\
  (forall oa loa ob lob, reach ic oa loa -> reach ic ob lob -> sshape oa = sshape ob -> tsim SS (merge ic a oa) (merge ic b ob)).
Proof.
  intros ic a la b lb Ra Rb H. pose proof (r_inv a la (reach_Rel ic a la Ra)) as Ia. pose proof (r_inv b lb (reach_Rel ic b lb Rb)) as Ib.
  split.
  - intros x y. now apply update_tsim.
  - intros oa loa ob lob Roa Rob Ho. apply merge_tsim; auto.
    + exact (r_inv oa loa (reach_Rel ic oa loa Roa)).
    + exact (r_inv ob lob (reach_Rel ic ob lob Rob)).
Qed.

(* The published error (get_rank_lower_bound / get_rank_upper_bound / get_RSE, is_exact_rank) is modelled bit-exactly in
   binary64 (ReqDefs.rank_lb / rank_ub / is_exact_rank) and compared with the code on every run.  The claim behind
   is_exact_rank - the nsec * section_size items at the accurate end of level 0 (3k at the start, never fewer) are never
   compacted - for every history, every coin outcome, both modes; m = 3 * the smallest k of all sketches merged in
   (reachm).  LRA: an estimated rank numerator BELOW m is the true rank; HRA: likewise when the estimated number of
   items above the query point, n - numerator, is below m.  STRICT: at numerator = m exactly the code also declares the
   rank exact, which is wrong (known finding req_exact_band_wrong_at_its_edge), and after a merge with a smaller-k
   operand the code still uses the receiver's k (known finding req_exact_band_wrong_after_unequal_k_merge). *)
Theorem C08_req_exact_band : forall ic m s log, reachm ic m s log -> forall x incl,
  (hra s = false -> qrank s x incl < m -> qrank s x incl = cnt (below x incl) log) /\
  (hra s = true -> rn s - qrank s x incl < m -> qrank s x incl = cnt (below x incl) log).
Proof. exact exact_band_rank. Qed.

(* every reachable state of sketches built with the same k is covered with m = 3 * k (the band of is_exact_rank) *)
Theorem C08_req_exact_band_covers_reachable : forall ic m s log, reachm ic m s log -> reach ic s log /\ m <= nsec (getc s 0%nat) * ssz (getc s 0%nat).
Proof. intros ic m s log R. split; [now apply (reachm_reach ic m)|]. exact (pr_m m s log (reachm_Prot ic m s log R)). Qed.

(* the defect repaired by fixes/08_req_unset_coin.patch, as a theorem about the model of the old code (ic = false) *)
Theorem C08_req_unset_coin_biased_refuted :
  (forall s, leaf (hist false) s -> reach false s hist_log) /\
  msum est16 (hist false) <> 2 ^ Z.of_nat (mdepth (hist false)) * cnt (below 16 true) hist_log.
Proof. exact C08_req_unset_coin_refuted. Qed.

(* non-vacuity: the same history with the repaired constructor: 5 coins on every path, exhaustive sum = 2^5 * 17 *)
Example C08_req_nonvacuous : muniform (hist true) = true /\ mdepth (hist true) = 5%nat /\
  msum est16 (hist true) = 2 ^ 5 * 17 /\ cnt (below 16 true) hist_log = 17.
Proof. destruct hist_new_values as (A & B & C). destruct hist_old_values as (_ & _ & _ & D). auto. Qed.

(* non-vacuity of C08_req_unbiased: the history of Regression_req (24 updates, merge into a fresh sketch, 26 updates) as a tree *)
Definition ex_tree : htree :=
  fold_left HUpd (stream 100 26) (HMerge (HNew 4) (fold_left HUpd (stream 0 24) (HNew 4))).
Example C08_req_unbiased_nonvacuous : hwf ex_tree /\ mdepth (run true false ex_tree) = 5%nat /\
  msum (fun s => qrank s 16 true) (run true false ex_tree) = 2 ^ 5 * 17 /\ cnt (below 16 true) (hlog ex_tree) = 17.
Proof. vm_compute. repeat split; try discriminate; reflexivity. Qed.

Print Assumptions C08_req_unbiased.
Print Assumptions C08_req_unbiased_any_predicate.
Print Assumptions C08_req_histories_are_reachable.
Print Assumptions C08_req_level_error_cancels.
Print Assumptions C08_req_fresh_coin_unbiased_partial.
Print Assumptions C08_req_odd_compaction_draws_no_coin.
Print Assumptions C08_req_update_merge_exact_partial.
Print Assumptions C08_req_negated_pair_unbiased_partial.
Print Assumptions C08_req_flip_count_independent.
Print Assumptions C08_req_lockstep.
Print Assumptions C08_req_exact_band.
Print Assumptions C08_req_exact_band_covers_reachable.
Print Assumptions C08_req_unset_coin_biased_refuted.
