(* EbppsEqualMerge.v — EBPPS over exact arithmetic: equal weights and n1 + n2 <= min(k1, k2): a merge keeps every item
   of both sketches as full items and consumes no random draw. *)
From Coq Require Import ZArith List Bool QArith Qround Lia Lqa Psatz.
From DS Require Import RunnerLib EbppsDefs EbppsProofs EbppsSketchProofs EbppsHistProofs EbppsEqualProofs.
Import ListNotations.
Local Open Scope Q_scope.

Section EqualMerge.
  Variable Item : Type.
  Notation qsketch := (sketch QOps Item).
  Notation qsample := (sample QOps Item).
  Notation qcs := (cs QOps).

  (* state (cumulative weight, rho, sample) of the replay loop after [items] *)
  Definition EqSt (w0 : Q) (items : list Item) (st : Q * Q * qsample) : Prop :=
    let m := inject_Z (Z.of_nat (length items)) in
    fst (fst st) == m * w0 /\ (items <> [] -> snd (fst st) == 1 / w0) /\
    sc (snd st) == m /\ sdata (snd st) = items /\ spart (snd st) = None.

  Lemma feed_equal k w0 wm dw (th : Q -> Q) items (st : Q * Q * qsample) it (s : qcs) :
    0 < w0 -> wm == w0 -> dw == w0 -> (forall r, th r == r * dw) ->
    (Z.of_nat (length items) + 1 <= k)%Z -> EqSt w0 items st ->
    exists st' : Q * Q * qsample, feed QOps Item k wm it dw th st s = (st', s) /\ EqSt w0 (items ++ [it]) st'.
  Proof.
    intros Hw0 Wm Hw Hth Hlen (Ecw & Enz & Ec & Ed & Ep).
    destruct st as [[cw rho] sm]. cbn [fst snd] in *.
    set (m := inject_Z (Z.of_nat (length items))) in *.
    assert (Hm0 : 0 <= m) by (unfold m; change 0 with (inject_Z 0); rewrite <- Zle_Qle; lia).
    assert (Hmk : m + 1 <= inject_Z k).
    { unfold m. change 1 with (inject_Z 1). rewrite <- inject_Z_plus, <- Zle_Qle. lia. }
    unfold feed. qs.
    set (nr := nmin QOps (1 / wm) (inject_Z k / (cw + dw))).
    assert (Hnr : nr == 1 / w0).
    { apply (is_min_eq _ _ _ _ (nmin_is_min _ _)).
      - rewrite Wm. reflexivity.
      - apply Qle_shift_div_l; [rewrite Ecw; nra|].
        assert (E : 1 / w0 * (cw + dw) == m + 1) by (rewrite Ecw, Hw; field; lra).
        rewrite E. exact Hmk. }
    assert (DS : (if negb (Qle_bool cw 0) then downsample QOps Item (nr / rho) sm s else (sm, s)) = (sm, s)).
    { destruct (qleb_spec cw 0) as [_|Hpos]; cbn [negb]; [reflexivity|].
      apply downsample_ge1.
      assert (NE : items <> []).
      { intro H. unfold m in Ecw. rewrite H in Ecw. cbn [length Z.of_nat] in Ecw.
        change (inject_Z 0) with 0 in Ecw. lra. }
      rewrite Hnr, (Enz NE). apply Qle_shift_div_l.
      - apply qdiv_pos; lra.
      - lra. }
    rewrite DS.
    rewrite andb_negb_r. rewrite note_site_false.
    assert (Th : th nr == 1) by (rewrite Hth, Hnr, Hw; field; lra).
    assert (Hint : sc sm == fl (sc sm)).
    { unfold fl. rewrite Ec. unfold m. now rewrite Qfloor_Z. }
    rewrite (smerge_full_int Item sm it (th nr) s Hint Th).
    set (sm2 := Build_sample QOps Item (sc sm + th nr) (sdata sm ++ [it]) None).
    assert (C2 : sc sm2 == inject_Z (Z.of_nat (length (items ++ [it])))).
    { cbn [sc sm2]. rewrite app_length. cbn [length]. rewrite Nat.add_1_r, injZ_succ_nat. fold m. rewrite Ec, Th. reflexivity. }
    assert (Sh2 : Shape Item sm2).
    { unfold Shape. splits.
      - rewrite C2. change 0 with (inject_Z 0). rewrite <- Zle_Qle. lia.
      - rewrite C2, Qfloor_Z, Nat2Z.id. cbn [sdata sm2]. now rewrite Ed.
      - split; [intros _|reflexivity]. unfold fl. rewrite C2. now rewrite Qfloor_Z. }
    rewrite (shape_ok_true Item sm2 Sh2). cbn [negb]. rewrite andb_false_r, note_site_false.
    eexists; split; [reflexivity|].
    unfold EqSt; cbn [fst snd]. fold sm2.
    splits; auto.
    all: try exact C2.
    all: try (intros _; exact Hnr).
    all: try (cbn [sdata sm2]; now rewrite Ed).
    all: try (rewrite app_length; cbn [length]; rewrite Nat.add_1_r, injZ_succ_nat; fold m; rewrite Ecw, Hw; ring).
  Qed.

  Lemma replay_equal k w0 wm avg : 0 < w0 -> wm == w0 -> avg == w0 ->
    forall l items (st : Q * Q * qsample) (s : qcs),
    (Z.of_nat (length items + length l) <= k)%Z -> EqSt w0 items st ->
    exists st' : Q * Q * qsample,
      fold_left (fun acc it => feed QOps Item k wm it avg (fun r : Q => r * avg) (fst acc) (snd acc)) l (st, s) = (st', s) /\
      EqSt w0 (items ++ l) st'.
  Proof.
    intros Hw0 Wm Ha. induction l as [|it l IH]; intros items st s Hlen I; cbn [fold_left fst snd].
    - exists st. rewrite app_nil_r. auto.
    - cbn [length] in Hlen.
      destruct (feed_equal k w0 wm avg (fun r : Q => r * avg) items st it s Hw0 Wm Ha) as (st1 & EF & I1); auto.
      { intro; reflexivity. } { lia. }
      rewrite EF.
      destruct (IH (items ++ [it]) st1 s) as (st' & ER & I'); auto.
      { rewrite app_length. cbn [length]. lia. }
      exists st'. split; auto. now rewrite <- app_assoc in I'.
  Qed.

  Lemma EqInv_items_pos k w0 items (sk : qsketch) : 0 < w0 -> EqInv Item k w0 items sk ->
    (0 < sk_cw sk <-> items <> []).
  Proof.
    intros Hw0 (_ & _ & Ecw & _). split.
    - intros H E. rewrite E in Ecw. cbn [length Z.of_nat] in Ecw. change (inject_Z 0) with 0 in Ecw. lra.
    - intro NE. rewrite Ecw. destruct items as [|x l]; [congruence|].
      cbn [length]. rewrite injZ_succ_nat.
      assert (0 <= inject_Z (Z.of_nat (length l))) by (change 0 with (inject_Z 0); rewrite <- Zle_Qle; lia).
      nra.
  Qed.

  (* internal_merge under equal weights: [b]'s items are appended to [a]'s *)
  Lemma internal_merge_equal ka kb w0 ia ib (a b : qsketch) (s : qcs) :
    0 < w0 -> EqInv Item ka w0 ia a -> EqInv Item kb w0 ib b -> ia <> [] -> ib <> [] ->
    (Z.of_nat (length ia + length ib) <= Z.min ka kb)%Z ->
    exists r, internal_merge QOps Item a b s = (r, s) /\ EqInv Item (Z.min ka kb) w0 (ia ++ ib) r.
  Proof.
    intros Hw0 Ia Ib NEa NEb Hlen.
    pose proof Ia as (Eka & Ena & Ecwa & Emxa & Enza & Eca & Eda & Epa).
    pose proof Ib as (Ekb & Enb & Ecwb & Emxb & Enzb & Ecb & Edb & Epb).
    destruct (Enza NEa) as [Wa Ra]. destruct (Enzb NEb) as [Wb Rb].
    unfold internal_merge, internal_merge_gen. qs.
    rewrite Eka, Ekb.
    pose proof (nmax_spec (sk_wmax a) (sk_wmax b)) as (X1 & X2 & X3).
    set (wm := nmax QOps (sk_wmax a) (sk_wmax b)) in *.
    assert (Wm : wm == w0) by (destruct X3 as [X3|X3]; rewrite X3; auto).
    set (avg := sk_cw b / sc (sk_smp b)).
    assert (Nb : 0 < inject_Z (Z.of_nat (length ib))).
    { destruct ib as [|x l]; [congruence|]. cbn [length]. rewrite injZ_succ_nat.
      assert (0 <= inject_Z (Z.of_nat (length l))) by (change 0 with (inject_Z 0); rewrite <- Zle_Qle; lia). lra. }
    assert (Ha : avg == w0) by (unfold avg; rewrite Ecwb, Ecb; field; lra).
    assert (I0 : EqSt w0 ia (sk_cw a, sk_rho a, sk_smp a)).
    { unfold EqSt; cbn [fst snd]. splits; auto. }
    rewrite Edb, Epb.
    destruct (replay_equal (Z.min ka kb) w0 wm avg Hw0 Wm Ha ib ia (sk_cw a, sk_rho a, sk_smp a) s Hlen I0)
      as (st' & EF & I').
    match goal with |- context [fold_left ?f ?l ?i] =>
      assert (EF' : fold_left f l i = (st', s)) by exact EF; rewrite EF' end.
    destruct st' as [[cw' rho'] sm']. destruct I' as (Ecw' & Enz' & Ec' & Ed' & Ep'). cbn [fst snd] in *.
    eexists; split; [reflexivity|].
    unfold EqInv; cbn [sk_k sk_n sk_cw sk_wmax sk_rho sk_smp]. fold wm.
    assert (NE : ia ++ ib <> []) by (destruct ia; [congruence|discriminate]).
    splits; auto.
    all: try (rewrite Ena, Enb, app_length; lia).
    all: try (rewrite Ecwa, Ecwb, app_length, Nat2Z.inj_add, inject_Z_plus; ring).
    all: try lra.
    all: try (intros _; split; [exact Wm|auto]).
  Qed.

  (* merge under equal weights: everything is kept, nothing random happens *)
  Theorem merge_equal_keeps_all ka kb w0 ia ib (a b : qsketch) (s : qcs) :
    0 < w0 -> EqInv Item ka w0 ia a -> EqInv Item kb w0 ib b ->
    (Z.of_nat (length ia + length ib) <= Z.min ka kb)%Z ->
    exists r, merge QOps Item a b s = (r, s) /\
      spart (sk_smp r) = None /\ sc (sk_smp r) == inject_Z (Z.of_nat (length ia + length ib)) /\
      sk_n r = Z.of_nat (length ia + length ib) /\
      (sdata (sk_smp r) = ia ++ ib \/ sdata (sk_smp r) = ib ++ ia).
  Proof.
    intros Hw0 Ia Ib Hlen. unfold merge, merge_gen. qs.
    change (internal_merge_gen QOps Item false) with (internal_merge QOps Item).
    pose proof (EqInv_items_pos ka w0 ia a Hw0 Ia) as Pa.
    pose proof (EqInv_items_pos kb w0 ib b Hw0 Ib) as Pb.
    pose proof Ia as (Eka & Ena & Ecwa & _ & _ & Eca & Eda & Epa).
    pose proof Ib as (Ekb & Enb & Ecwb & _ & _ & Ecb & Edb & Epb).
    destruct (qeqb_spec (sk_cw b) 0) as [Wb0|Wb0].
    - assert (ib = []).
      { destruct ib as [|x l]; auto. exfalso. assert (0 < sk_cw b) by (apply Pb; discriminate). lra. }
      exists a. rewrite H. cbn [length]. rewrite Nat.add_0_r, app_nil_r. splits; auto.
    - assert (NEb : ib <> []).
      { intro E. apply Wb0. rewrite Ecwb, E. cbn [length Z.of_nat]. change (inject_Z 0) with 0. ring. }
      destruct (qleb_spec (sk_cw b) (sk_cw a)) as [Hle|Hlt]; cbn [negb].
      + assert (NEa : ia <> []) by (apply Pa; assert (0 < sk_cw b) by (apply Pb; auto); lra).
        destruct (internal_merge_equal ka kb w0 ia ib a b s Hw0 Ia Ib NEa NEb Hlen) as (r & ER & Ir).
        exists r. destruct Ir as (_ & En & _ & _ & _ & Ec & Ed & Ep). rewrite app_length in *. splits; auto.
      + destruct ia as [|x la].
        * (* a is empty: the (non-empty) argument is taken over, nothing is replayed *)
          unfold internal_merge, internal_merge_gen. qs. rewrite Eda, Epa. cbn [fold_left].
          eexists; split; [reflexivity|]. cbn [sk_k sk_n sk_cw sk_wmax sk_rho sk_smp app length Nat.add].
          splits; auto. rewrite Enb, Ena. cbn [length]. lia.
        * assert (NEa : x :: la <> []) by discriminate.
          rewrite Z.min_comm, Nat.add_comm in Hlen.
          destruct (internal_merge_equal kb ka w0 ib (x :: la) b a s Hw0 Ib Ia NEb NEa Hlen) as (r & ER & Ir).
          exists r. destruct Ir as (_ & En & _ & _ & _ & Ec & Ed & Ep). rewrite app_length in *.
          rewrite (Nat.add_comm (length (x :: la))). splits; auto.
  Qed.

  (* two equal-weight streams into two fresh sketches, then a merge: with n1 + n2 <= min(k1, k2) everything is kept,
     c = n1 + n2, and no random draw is consumed anywhere *)
  Theorem equal_weights_merge_keeps_all k1 k2 w0 ups1 ups2 (s : qcs) :
    (1 <= k1)%Z -> (1 <= k2)%Z -> 0 < w0 ->
    Forall (fun u => accepted (snd u) = true -> snd u == w0) ups1 ->
    Forall (fun u => accepted (snd u) = true -> snd u == w0) ups2 ->
    (Z.of_nat (length (acc_items Item ups1) + length (acc_items Item ups2)) <= Z.min k1 k2)%Z ->
    exists a b r,
      run_updates QOps Item (sketch_empty QOps Item k1) ups1 s = (a, s) /\
      run_updates QOps Item (sketch_empty QOps Item k2) ups2 s = (b, s) /\
      merge QOps Item a b s = (r, s) /\
      spart (sk_smp r) = None /\
      sc (sk_smp r) == inject_Z (Z.of_nat (length (acc_items Item ups1) + length (acc_items Item ups2))) /\
      sk_n r = Z.of_nat (length (acc_items Item ups1) + length (acc_items Item ups2)) /\
      (sdata (sk_smp r) = acc_items Item ups1 ++ acc_items Item ups2 \/
       sdata (sk_smp r) = acc_items Item ups2 ++ acc_items Item ups1).
  Proof.
    intros Hk1 Hk2 Hw0 F1 F2 Hlen.
    destruct (run_updates_equal Item k1 w0 Hk1 Hw0 ups1 [] (sketch_empty QOps Item k1) s F1) as (a & Ea & Ia).
    { cbn [length Nat.add]. lia. } { now apply EqInv_empty. }
    destruct (run_updates_equal Item k2 w0 Hk2 Hw0 ups2 [] (sketch_empty QOps Item k2) s F2) as (b & Eb & Ib).
    { cbn [length Nat.add]. lia. } { now apply EqInv_empty. }
    cbn [app] in Ia, Ib.
    destruct (merge_equal_keeps_all k1 k2 w0 _ _ a b s Hw0 Ia Ib Hlen) as (r & Er & R).
    exists a, b, r. splits; auto; apply R.
  Qed.
End EqualMerge.
