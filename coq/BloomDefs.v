(* BloomDefs.v — executable model of filters/include/bloom_filter_impl.hpp, bloom_filter_builder_impl.hpp and
   bit_array_ops.hpp (no proofs here).  The model mirrors what the code DOES:
     - the bit array is an N (bit i of the number = bit index i of the array; little-endian bytes, as bit_array_ops addresses them);
     - capacity is rounded up to a multiple of 64;  index_i = (((h0 + i*h1) mod 2^64) >> 1) mod capacity, i = 1..num_hashes;
     - every filter object caches (num_bits_set_, is_dirty_); is_empty() = !dirty && count == 0 short-circuits query();
     - internal_update sets is_dirty_ and writes DIRTY_BITS_VALUE to the count stored in wrapped memory
       (fixes/15_bloom_update_marks_memory_dirty.patch; before the repair it never touched the stored count);
     - internal_query_and_update calls update_num_bits_set(count + inc) for every hash while the cached count is clean, which
       writes the cached count through to wrapped memory; while is_dirty_ is set the count is left alone
       (fixes/15_bloom_qau_keeps_dirty.patch; before the repair the stale count was stored and is_dirty_ cleared);
     - union_with / intersect / invert refuse read-only filters (fixes/15_bloom_readonly_setops_refused.patch; before the
       repair they did not look at is_read_only_);
     - filters in caller memory (builder::initialize_*, wrap, writable_wrap) are VIEWS of a buffer register: the 32-byte header,
       the stored count at byte 24 and the bit array at byte 32 live in the shared buffer, several views may alias one buffer.
   The hash function is a parameter [H] of the whole model (h0 = H item seed, h1 = H item h0); the instance used for the
   correspondence runs is the XXH64 model of XXHash64.v.
   Besides the real state the model keeps GHOST state (never compared with the implementation): for every filter and every
   buffer the list of items that the specification says must be reported present, an epoch counter that invalidates the claims
   of other views after a destructive operation on shared memory, and a hazard code naming the known defect (if any) that has
   touched the lineage of the state. They feed the S lines read by the property oracle. *)
From Coq Require Import ZArith NArith List Bool.
From DS Require Import Word XXHash64 RunnerLib.
Import ListNotations.
Local Open Scope N_scope.

(* ------------------------------------------------------------------ *)
(* bit-array level                                                      *)
(* ------------------------------------------------------------------ *)

Definition DIRTY : N := mask64.                                (* DIRTY_BITS_VALUE = (uint64_t) -1 *)
Definition MAX_BITS : N := (2147483647 - 32) * 8.              (* MAX_FILTER_SIZE_BITS *)

(* (num_bits + 63) & ~0x3F on uint64_t *)
Definition round_cap (nbits : N) : N := N.land (w64 (nbits + 63)) 0xFFFFFFFFFFFFFFC0.

Definition bf_index (cap h0 h1 i : N) : N := (shr64 (add64 h0 (mul64 i h1)) 1) mod cap.

Definition bf_indices (cap nh h0 h1 : N) : list N :=
  map (fun i => bf_index cap h0 h1 (N.of_nat i)) (seq 1 (N.to_nat nh)).

Definition set_bits (bits : N) (l : list N) : N := fold_left N.setbit l bits.
Definition all_set (bits : N) (l : list N) : bool := forallb (N.testbit bits) l.

(* the loop of internal_query_and_update: get_and_set_bit, count + (value ? 0 : 1) on uint64_t, value_exists &= value *)
Fixpoint qau_loop (l : list N) (bits cnt : N) (ex : bool) : N * N * bool :=
  match l with
  | [] => (bits, cnt, ex)
  | i :: t => let v := N.testbit bits i in
              qau_loop t (N.setbit bits i) (w64 (cnt + (if v then 0 else 1))) (ex && v)
  end.

Fixpoint pos_bits (p : positive) (i : N) : list N :=
  match p with
  | xH => [i]
  | xO q => pos_bits q (i + 1)
  | xI q => i :: pos_bits q (i + 1)
  end.
Definition set_positions (n : N) : list N := match n with N0 => [] | Npos p => pos_bits p 0 end.

(* ------------------------------------------------------------------ *)
(* one filter object                                                    *)
(* ------------------------------------------------------------------ *)

Record filt := mkF {
  f_seed : N; f_nh : N; f_cap : N;
  f_dirty : bool; f_ro : bool; f_cnt : N;
  f_mem : option Z;        (* Some b: not owned, header+count+bit array live in buffer register b (memory_ != nullptr) *)
  f_bits : N               (* the owned bit array; unused for views *)
}.

Definition f_cache (f : filt) (dirty : bool) (cnt : N) : filt :=
  mkF (f_seed f) (f_nh f) (f_cap f) dirty (f_ro f) cnt (f_mem f) (f_bits f).
Definition f_setbits (f : filt) (bits : N) : filt :=
  mkF (f_seed f) (f_nh f) (f_cap f) (f_dirty f) (f_ro f) (f_cnt f) (f_mem f) bits.

Definition is_empty (f : filt) : bool := negb (f_dirty f) && (f_cnt f =? 0).

Definition compatible (f g : filt) : bool :=
  (f_seed f =? f_seed g) && (f_nh f =? f_nh g) && (f_cap f =? f_cap g).

(* effect of a mutating operation: new cached fields, new bit array, count written through to memory (if any) *)
Record eff := mkE { x_f : filt; x_bits : N; x_memw : option N }.

(* update_num_bits_set: cache the count, clear dirty, write through when memory_ != nullptr && !is_read_only_ *)
Definition memw_of (f : filt) (c : N) : option N :=
  match f_mem f with
  | Some _ => if f_ro f then None else Some c
  | None => None
  end.
Definition upd_cnt (f : filt) (bits c : N) : eff := mkE (f_cache f false c) bits (memw_of f c).

(* The switch [fx] selects between the code before and after the four repairs fixes/15_*.patch:
     fx = true   the REPAIRED code (this is what [step]/[run] below use, i.e. what is extracted and run against /repo):
                 (A) internal_update also writes DIRTY_BITS_VALUE to the count stored in wrapped memory,
                 (B) internal_query_and_update leaves the count alone while is_dirty_ is set,
                 (D) union_with / intersect / invert refuse read-only filters,
                 (E) deserialize / wrap compute the capacity from the header in 64 bits;
     fx = false  the code before the repairs, kept as a variant for the refutations in Regression_bloom.v. *)
Section Core.
  Variable fx : bool.

  (* internal_update *)
  Definition core_update (f : filt) (bits : N) (idx : list N) : option eff :=
    if f_ro f then None
    else Some (mkE (f_cache f true (f_cnt f)) (set_bits bits idx) (if fx then memw_of f DIRTY else None)).

  (* internal_query_and_update; the count is cached/written once per hash, so nothing happens to it when num_hashes = 0 *)
  Definition core_qau (f : filt) (bits : N) (idx : list N) : option (eff * bool) :=
    if f_ro f then None
    else
      let '(bits', cnt', ex) := qau_loop idx bits (f_cnt f) true in
      match idx with
      | [] => Some (mkE f bits None, ex)
      | _ => if fx && f_dirty f then Some (mkE f bits' None, ex) else Some (upd_cnt f bits' cnt', ex)
      end.

  (* internal_query *)
  Definition core_query (f : filt) (bits : N) (idx : list N) : bool :=
    if is_empty f then false else all_set bits idx.

  (* union_with / intersect / invert: no read-only check in the code as it is; the count is recomputed over the whole array *)
  Definition core_union (f : filt) (bits obits : N) : option eff :=
    if fx && f_ro f then None else let b := N.lor bits obits in Some (upd_cnt f b (popcount b)).
  Definition core_intersect (f : filt) (bits obits : N) : option eff :=
    if fx && f_ro f then None else let b := N.land bits obits in Some (upd_cnt f b (popcount b)).
  Definition core_invert (f : filt) (bits : N) : option eff :=
    if fx && f_ro f then None else let b := N.lxor bits (N.ones (f_cap f)) in Some (upd_cnt f b (popcount b)).
  Definition core_reset (f : filt) : option eff :=
    if f_ro f then None else Some (upd_cnt f 0 0).
  (* get_bits_used: recount when dirty; never written through to memory *)
  Definition core_bits_used (f : filt) (bits : N) : filt :=
    if f_dirty f then f_cache f false (popcount bits) else f.
End Core.

(* ------------------------------------------------------------------ *)
(* serialized image                                                     *)
(* ------------------------------------------------------------------ *)

Definition rd (d : list N) (off n : nat) : N := le_bytes_to_N (firstn n (skipn off d)).
Definition wr (d : list N) (off n : nat) (v : N) : list N :=
  firstn off d ++ N_to_le_bytes n v ++ skipn (off + n) d.
(* copy an image to the start of a buffer, the rest of the buffer is untouched *)
Definition overlay (img d : list N) : list N := img ++ skipn (length img) d.

Definition header (seed nh cap : N) (empty : bool) : list N :=
  [if empty then 3 else 4; 1; 21; if empty then 4 else 0] ++ N_to_le_bytes 2 nh ++ [0; 0]
  ++ N_to_le_bytes 8 seed ++ N_to_le_bytes 4 (N.shiftr cap 6) ++ [0; 0; 0; 0].

Definition cap_bytes (cap : N) : nat := N.to_nat (N.shiftr cap 3).

Definition serialize (f : filt) (bits : N) : list N :=
  header (f_seed f) (f_nh f) (f_cap f) (is_empty f) ++
  (if is_empty f then []
   else N_to_le_bytes 8 (if f_dirty f then DIRTY else f_cnt f) ++ N_to_le_bytes (cap_bytes (f_cap f)) bits).

(* the image written by the constructor over caller memory: standard preamble, non-empty flags, count 0, zero bit array *)
Definition init_image (seed nh cap : N) : list N :=
  header seed nh cap false ++ repeat 0 (8 * (N.to_nat (N.shiftr cap 6) + 1)).

(* get_serialized_size_bytes(num_bits) *)
Definition size_for (nbits : N) : N := 8 * (4 + N.shiftr (w64 (nbits + 63)) 6).

(* public constructor checks (builder::validate_size_inputs performs the same ones) *)
Definition ctor_ok (nbits nh : N) : bool := negb (nh =? 0) && negb (nbits =? 0) && (nbits <=? MAX_BITS).

Definition new_owned (nbits nh seed : N) : option filt :=
  if ctor_ok nbits nh then Some (mkF seed nh (round_cap nbits) false false 0 None 0) else None.

(* internal_deserialize_or_wrap / deserialize(istream): what the header parse yields *)
Inductive parsed :=
| PRefuse
| PEmpty (nbits nh seed : N)                       (* empty flag: a fresh owned filter is built with the public constructor *)
| PFull (cap nh seed nbs : N) (nbytes : nat).      (* standard image: capacity, stored count, bit-array length in bytes *)

(* [wide] = true: the capacity is computed in 64 bits (static_cast<uint64_t>(num_longs) << 6,
   fixes/15_bloom_deserialize_capacity_64bit.patch); false: the code before that repair computed num_longs << 6 on
   uint32_t, which truncates the capacity of filters of 2^32 bits and more *)
Definition parse (wide : bool) (d : list N) (read_only wrap stream : bool) : parsed :=
  let len := length d in
  if Nat.ltb len 8 then PRefuse else
  let prelongs := nth 0 d 0 in
  let server := nth 1 d 0 in
  let family := nth 2 d 0 in
  let flags := nth 3 d 0 in
  if (prelongs <? (if stream then 1 else 3)) || (4 <? prelongs) then PRefuse else
  if negb (server =? 1) then PRefuse else
  if negb (family =? 21) then PRefuse else
  let empty := negb (N.land flags 4 =? 0) in
  if Nat.ltb len (N.to_nat prelongs * 8) then PRefuse else
  let nh := rd d 4 2 in
  let seed := rd d 8 8 in
  let nlongs := rd d 16 4 in
  let capbits := if wide then N.shiftl nlongs 6 else w32 (N.shiftl nlongs 6) in
  if wrap && empty && negb read_only then PRefuse else
  if empty then PEmpty capbits nh seed else
  if Nat.ltb len 32 then PRefuse else          (* unreachable for images produced by the library *)
  let nbs := rd d 24 8 in
  let nbytes := N.to_nat (w32 (N.shiftl nlongs 3)) in
  if negb wrap && Nat.ltb (len - 32) nbytes then PRefuse else
  PFull (round_cap capbits) nh seed nbs nbytes.

(* deserialize(bytes) / deserialize(istream): an owned filter with a copy of the bit array *)
Definition deser_filt (wide : bool) (d : list N) (stream : bool) : option filt :=
  match parse wide d false false stream with
  | PRefuse => None
  | PEmpty nbits nh seed => new_owned nbits nh seed
  | PFull cap nh seed nbs nbytes => Some (mkF seed nh cap (N.eqb nbs DIRTY) false nbs None (rd d 32 nbytes))
  end.

(* wrap / writable_wrap of buffer register b: a view (or, for an empty image, a fresh owned filter).
   Private constructor: a read-only wrap of a dirty image recounts (is_dirty_ stays set). *)
Definition wrap_filt (wide : bool) (d : list N) (b : Z) (writable : bool) : option filt :=
  match parse wide d (negb writable) true false with
  | PRefuse => None
  | PEmpty nbits nh seed => new_owned nbits nh seed
  | PFull cap nh seed nbs nbytes =>
      let ro := negb writable in
      let cnt := if ro && N.eqb nbs DIRTY then popcount (rd d 32 (cap_bytes cap)) else nbs in
      Some (mkF seed nh cap (N.eqb nbs DIRTY) ro cnt (Some b) 0)
  end.

(* ------------------------------------------------------------------ *)
(* items: the bytes that are hashed, per overload                       *)
(* ------------------------------------------------------------------ *)

Definition canon_double (b : N) : N :=
  let b := w64 b in
  if N.land b 0x7FFFFFFFFFFFFFFF =? 0 then 0                                   (* item == 0.0: -0.0 -> 0.0 *)
  else if (N.land (N.shiftr b 52) 0x7FF =? 0x7FF) && negb (N.land b 0xFFFFFFFFFFFFF =? 0)
       then 0x7ff8000000000000                                                 (* NaN -> Java's canonical NaN *)
       else b.

(* static_cast<double>(float) on bit patterns (exact) *)
Definition f32_to_f64 (b : N) : N :=
  let b := w32 b in
  let s := N.shiftl (N.shiftr b 31) 63 in
  let e := N.land (N.shiftr b 23) 0xFF in
  let m := N.land b 0x7FFFFF in
  if e =? 0xFF then N.lor s (N.lor (N.shiftl 0x7FF 52) (N.shiftl m 29))
  else if e =? 0 then
    if m =? 0 then s
    else let k := N.size m in
         N.lor s (N.lor (N.shiftl (k + 873) 52) (N.shiftl (m - N.shiftl 1 (k - 1)) (53 - k)))
  else N.lor s (N.lor (N.shiftl (e + 896) 52) (N.shiftl m 29)).

Definition sext (bits : N) (z : Z) : N :=
  let m := Z.pow 2 (Z.of_N bits) in
  let v := (z mod m)%Z in
  z_to_u64 (if (v <? m / 2)%Z then v else (v - m)%Z).

Definition item_bytes (kind : Z) (args : list Z) : list N :=
  let v := match args with a :: _ => a | [] => 0%Z end in
  match kind with
  | 0%Z => N_to_le_bytes 8 (z_to_u64 v)                       (* uint64_t *)
  | 1%Z => N_to_le_bytes 8 (w32 (z_to_u64 v))                 (* uint32_t -> uint64_t *)
  | 2%Z => N_to_le_bytes 8 (w16 (z_to_u64 v))
  | 3%Z => N_to_le_bytes 8 (w8 (z_to_u64 v))
  | 4%Z => N_to_le_bytes 8 (z_to_u64 v)                       (* int64_t *)
  | 5%Z => N_to_le_bytes 8 (sext 32 v)                        (* int32_t -> int64_t *)
  | 6%Z => N_to_le_bytes 8 (sext 16 v)
  | 7%Z => N_to_le_bytes 8 (sext 8 v)
  | 8%Z => N_to_le_bytes 8 (canon_double (z_to_u64 v))        (* double, canonicalised *)
  | 9%Z => N_to_le_bytes 8 (canon_double (f32_to_f64 (z_to_u64 v)))   (* float -> double *)
  | _ => map (fun a => w8 (zN a)) args                        (* std::string / (void*, size): the bytes; empty = ignored *)
  end.

Definition item := list N.
Fixpoint item_eqb (a b : item) : bool :=
  match a, b with
  | [], [] => true
  | x :: a', y :: b' => (x =? y) && item_eqb a' b'
  | _, _ => false
  end.
Definition mem_item (x : item) (l : list item) : bool := existsb (item_eqb x) l.

(* ------------------------------------------------------------------ *)
(* the world: filter registers and buffer registers, with ghost state   *)
(* ------------------------------------------------------------------ *)

(* e_epoch / b_epoch: bumped by every destructive event on the buffer (the claims of the other views become void);
   e_gen / b_gen: bumped when the IMAGE in the buffer is replaced (initialize, serialize into it): older views are then
   detached for good (their cached seed/hashes/capacity need not match the header any more) *)
(* e_seen / b_mut: b_mut counts the writes to the buffer through any view; a view is CURRENT (its cached count reflects
   the shared bit array) while e_seen = b_mut.  Insertions through a view that is not current are not claimed. *)
Record fent := mkFE { e_f : filt; e_must : list item; e_epoch : Z; e_haz : Z; e_gen : Z; e_seen : Z }.
Record bent := mkBE { b_data : list N; b_must : list item; b_epoch : Z; b_haz : Z; b_gen : Z; b_mut : Z }.
Record world := mkW { w_f : list (Z * fent); w_b : list (Z * bent) }.

Inductive wop :=
| ONew (r : Z) (nbits nh seed : N)
| ONewBuf (b : Z) (len : N)
| OInit (r b : Z) (nbits nh seed : N)
| OUpdate (r : Z) (x : item)
| OQuery (r : Z) (x : item)
| OQau (r : Z) (x : item)
| OUnion (r r2 : Z)
| OIntersect (r r2 : Z)
| OInvert (r : Z)
| OReset (r : Z)
| OBitsUsed (r : Z)
| OInfo (r : Z)
| ODump (r : Z)
| OSer (r b : Z)
| ODeser (r b : Z) (stream : bool)
| OWrap (r b : Z) (writable : bool)
| OCopy (r2 r : Z) (variant : Z)
| ODrop (r : Z)
| ODumpBuf (b : Z)
| OBad.

Definition bits_of (w : world) (f : filt) : N :=
  match f_mem f with
  | None => f_bits f
  | Some b => match reg_get (w_b w) b with
              | Some be => rd (b_data be) 32 (cap_bytes (f_cap f))
              | None => 0
              end
  end.

Definition memcnt_of (be : bent) : N := rd (b_data be) 24 8.

(* write the effect of an operation back: owned bit array, or shared memory (bits, and the count when written through) *)
Definition commit (w : world) (e : eff) : filt * list (Z * bent) :=
  let f := x_f e in
  match f_mem f with
  | None => (f_setbits f (x_bits e), w_b w)
  | Some b =>
      match reg_get (w_b w) b with
      | Some be =>
          let d := wr (b_data be) 32 (cap_bytes (f_cap f)) (x_bits e) in
          let d := match x_memw e with Some c => wr d 24 8 c | None => d end in
          (f, reg_set (w_b w) b (mkBE d (b_must be) (b_epoch be) (b_haz be) (b_gen be) (b_mut be)))
      | None => (f, w_b w)
      end
  end.

(* ---- ghost helpers ---- *)
Local Open Scope Z_scope.

Definition buf_epoch (bs : list (Z * bent)) (b : Z) : Z :=
  match reg_get bs b with Some be => b_epoch be | None => 0 end.

(* claims of a filter that are still valid: a view loses them when the epoch of its buffer has moved on *)
Definition emust (bs : list (Z * bent)) (fe : fent) : list item :=
  match f_mem (e_f fe) with
  | None => e_must fe
  | Some b => if e_epoch fe =? buf_epoch bs b then e_must fe else []
  end.

Definition incons_f (f : filt) (bits : N) : bool := negb (f_dirty f) && negb (N.eqb (f_cnt f) (popcount bits)).
Definition incons_b (be : bent) (bits : N) : bool :=
  negb (N.eqb (memcnt_of be) DIRTY) && negb (N.eqb (memcnt_of be) (popcount bits)).

Definition flag (cur code : Z) (bad : bool) : Z := if bad && (cur =? 0) then code else cur.
Definition hmax (a b : Z) : Z := if a =? 0 then b else a.

Definition buf_upd (bs : list (Z * bent)) (b : Z) (g : bent -> bent) : list (Z * bent) :=
  match reg_get bs b with Some be => reg_set bs b (g be) | None => bs end.

Definition buf_gen (bs : list (Z * bent)) (b : Z) : Z :=
  match reg_get bs b with Some be => b_gen be | None => 0 end.
Definition buf_mut (bs : list (Z * bent)) (b : Z) : Z :=
  match reg_get bs b with Some be => b_mut be | None => 0 end.

(* ghost update after a MONOTONE write (update / query_and_update / union) through a filter:
   [add] = items that are now claimed, [code] = hazard code if the count information became inconsistent,
   [hz] = hazard inherited from the operand of a union, [recount] = the operation recomputed the count over the whole
   array (union), which makes the view current again.
   A write through a DETACHED view (the image in the buffer was replaced behind it) scribbles on somebody else's image:
   every claim on the buffer is dropped. *)
Definition ghost_grow (bs : list (Z * bent)) (fe : fent) (f' : filt) (add : list item) (code hz : Z) (recount : bool)
  : fent * list (Z * bent) :=
  let w' := mkW [] bs in
  let bits := bits_of w' f' in
  let fhaz := flag (hmax (e_haz fe) hz) code (incons_f f' bits) in
  match f_mem f' with
  | None => (mkFE f' (e_must fe ++ add) 0 fhaz 0 0, bs)
  | Some b =>
      let current := (e_seen fe =? buf_mut bs b) || recount in
      let add' := if current then add else [] in
      let must := emust bs fe ++ add' in
      let mut' := buf_mut bs b + 1 in
      let seen' := if current then mut' else e_seen fe in
      if e_gen fe =? buf_gen bs b then
        (mkFE f' must (buf_epoch bs b) fhaz (e_gen fe) seen',
         buf_upd bs b (fun be => mkBE (b_data be) (b_must be ++ add') (b_epoch be)
                                      (flag (hmax (b_haz be) hz) code (incons_b be bits)) (b_gen be) mut'))
      else
        (mkFE f' must (buf_epoch bs b + 1) fhaz (e_gen fe) seen',
         buf_upd bs b (fun be => mkBE (b_data be) [] (b_epoch be + 1) 0 (b_gen be) mut'))
  end.

(* ghost update after a DESTRUCTIVE write (intersect / invert / reset): all claims on the state are dropped;
   these operations recompute the count, the view is current afterwards *)
Definition ghost_clear (bs : list (Z * bent)) (fe : fent) (f' : filt) (code : Z) : fent * list (Z * bent) :=
  let w' := mkW [] bs in
  let bits := bits_of w' f' in
  match f_mem f' with
  | None => (mkFE f' [] 0 0 0 0, bs)
  | Some b =>
      let ep := buf_epoch bs b + 1 in
      let mut' := buf_mut bs b + 1 in
      (mkFE f' [] ep 0 (e_gen fe) mut',
       buf_upd bs b (fun be => mkBE (b_data be) [] ep
                                    (if e_gen fe =? b_gen be then flag 0 code (incons_b be bits) else 0) (b_gen be) mut'))
  end.

(* ------------------------------------------------------------------ *)
(* one step of the world                                                *)
(* ------------------------------------------------------------------ *)

Section WithHash.
  Variable fx : bool.                        (* true: the repaired code; false: the code before the three repairs *)
  Variable H : list N -> N -> N.             (* ANY hash function: h0 = H item seed, h1 = H item h0 *)

  Definition indices_of (f : filt) (x : item) : list N :=
    let h0 := w64 (H x (f_seed f)) in
    let h1 := w64 (H x h0) in
    bf_indices (f_cap f) (f_nh f) h0 h1.

  Definition rfs : outline := (refused, []).
  Definition is_view (f : filt) : bool := match f_mem f with Some _ => true | None => false end.

  (* a successful monotone / destructive write through register r *)
  Definition fin_grow (w : world) (r : Z) (fe : fent) (e : eff) (add : list item) (code hz : Z) (recount : bool)
             (out : outline) : world * outline :=
    let '(f', bs') := commit w e in
    let '(fe', bs'') := ghost_grow bs' fe f' add code hz recount in
    (mkW (reg_set (w_f w) r fe') bs'', out).
  Definition fin_clear (w : world) (r : Z) (fe : fent) (e : eff) (out : outline) : world * outline :=
    let '(f', bs') := commit w e in
    let '(fe', bs'') := ghost_clear bs' fe f' 3 in
    (mkW (reg_set (w_f w) r fe') bs'', out).

  Definition wstep (w : world) (op : wop) : world * outline :=
    let fs := w_f w in let bs := w_b w in
    match op with
    | ONew r nbits nh seed =>
        match new_owned nbits nh seed with
        | Some f => (mkW (reg_set fs r (mkFE f [] 0 0 0 0)) bs, (ok, []))
        | None => (w, rfs)
        end
    | ONewBuf b len =>
        match reg_get bs b with
        | Some _ => (w, rfs)
        | None => (mkW fs (reg_set bs b (mkBE (repeat 0%N (N.to_nat len)) [] 0 0 0 0)), (ok, []))
        end
    | OInit r b nbits nh seed =>
        match reg_get bs b with
        | Some be =>
            if ctor_ok nbits nh && negb (N.ltb (N.of_nat (length (b_data be))) (size_for (round_cap nbits))) then
              let cap := round_cap nbits in
              let ep := b_epoch be + 1 in
              let f := mkF seed nh cap false false 0 (Some b) 0 in
              (mkW (reg_set fs r (mkFE f [] ep 0 (b_gen be + 1) (b_mut be + 1)))
                   (reg_set bs b (mkBE (overlay (init_image seed nh cap) (b_data be)) [] ep 0 (b_gen be + 1) (b_mut be + 1))),
               (ok, []))
            else (w, rfs)
        | None => (w, rfs)
        end
    | OUpdate r x =>
        match reg_get fs r with
        | Some fe =>
            let f := e_f fe in
            match x with
            | [] => (w, (ok, [0]))                      (* empty string / zero-length block: ignored before any check *)
            | _ =>
              match core_update fx f (bits_of w f) (indices_of f x) with
              | Some e => fin_grow w r fe e [x] 1 0 false (ok, [bz (f_ro f)])
              | None => (w, (refused, [bz (f_ro f)]))
              end
            end
        | None => (w, rfs)
        end
    | OQuery r x =>
        match reg_get fs r with
        | Some fe =>
            let f := e_f fe in
            match x with
            | [] => (w, ([0], [0; 0; 0]))
            | _ =>
              let bits := bits_of w f in
              let idx := indices_of f x in
              (w, ([bz (core_query f bits idx)],
                   [bz (mem_item x (emust bs fe)); e_haz fe; bz (all_set bits idx)]))
            end
        | None => (w, rfs)
        end
    | OQau r x =>
        match reg_get fs r with
        | Some fe =>
            let f := e_f fe in
            match x with
            | [] => (w, ([0], [0; 0; 0; 0]))
            | _ =>
              let bits := bits_of w f in
              let idx := indices_of f x in
              match core_qau fx f bits idx with
              | Some (e, ex) =>
                  fin_grow w r fe e [x] 2 0 false
                    ([bz ex], [bz (f_ro f); bz (all_set bits idx); bz (mem_item x (emust bs fe)); e_haz fe])
              | None => (w, (refused, [bz (f_ro f); 0; 0; 0]))
              end
            end
        | None => (w, rfs)
        end
    | OUnion r r2 =>
        match reg_get fs r, reg_get fs r2 with
        | Some fe, Some ge =>
            let f := e_f fe in let g := e_f ge in
            if compatible f g then
              match core_union fx f (bits_of w f) (bits_of w g) with
              | Some e => fin_grow w r fe e (emust bs ge) 3 (e_haz ge) true (ok, [bz (f_ro f); 0])
              | None => (w, (refused, [bz (f_ro f); 0]))
              end
            else (w, (refused, [bz (f_ro f); 1]))
        | _, _ => (w, rfs)
        end
    | OIntersect r r2 =>
        match reg_get fs r, reg_get fs r2 with
        | Some fe, Some ge =>
            let f := e_f fe in let g := e_f ge in
            if compatible f g then
              match core_intersect fx f (bits_of w f) (bits_of w g) with
              | Some e => fin_clear w r fe e (ok, [bz (f_ro f); 0])
              | None => (w, (refused, [bz (f_ro f); 0]))
              end
            else (w, (refused, [bz (f_ro f); 1]))
        | _, _ => (w, rfs)
        end
    | OInvert r =>
        match reg_get fs r with
        | Some fe =>
            let f := e_f fe in
            match core_invert fx f (bits_of w f) with
            | Some e => fin_clear w r fe e (ok, [bz (f_ro f); 0])
            | None => (w, (refused, [bz (f_ro f); 0]))
            end
        | None => (w, rfs)
        end
    | OReset r =>
        match reg_get fs r with
        | Some fe =>
            let f := e_f fe in
            match core_reset f with
            | Some e => fin_clear w r fe e (ok, [bz (f_ro f); 0])
            | None => (w, (refused, [bz (f_ro f); 0]))
            end
        | None => (w, rfs)
        end
    | OBitsUsed r =>
        match reg_get fs r with
        | Some fe =>
            let f := e_f fe in
            let bits := bits_of w f in
            let f' := core_bits_used f bits in
            let seen' := match f_mem f with
                         | Some b => if f_dirty f then buf_mut bs b else e_seen fe
                         | None => e_seen fe
                         end in
            (mkW (reg_set fs r (mkFE f' (e_must fe) (e_epoch fe) (e_haz fe) (e_gen fe) seen')) bs,
             ([Nz (f_cnt f')], [Nz (popcount bits)]))
        | None => (w, rfs)
        end
    | OInfo r =>
        match reg_get fs r with
        | Some fe =>
            let f := e_f fe in
            (w, ([Nz (f_cap f); Nz (f_nh f); Nz (f_seed f); bz (is_empty f); bz (f_ro f);
                  bz (is_view f); bz (negb (is_view f)); nz (length (serialize f 0))], []))
        | None => (w, rfs)
        end
    | ODump r =>
        match reg_get fs r with
        | Some fe => (w, (map Nz (set_positions (bits_of w (e_f fe))), []))
        | None => (w, rfs)
        end
    | OSer r b =>
        match reg_get fs r, reg_get bs b with
        | Some fe, Some be =>
            let f := e_f fe in
            let img := serialize f (bits_of w f) in
            if Nat.ltb (length (b_data be)) (length img) then (w, rfs)
            else (mkW fs (reg_set bs b (mkBE (overlay img (b_data be)) (emust bs fe) (b_epoch be + 1) (e_haz fe)
                                             (b_gen be + 1) (b_mut be + 1))),
                  ([nz (length img)], []))
        | _, _ => (w, rfs)
        end
    | ODeser r b stream =>
        match reg_get bs b with
        | Some be =>
            match deser_filt fx (b_data be) stream with
            | Some f => (mkW (reg_set fs r (mkFE f (b_must be) 0 (b_haz be) 0 0)) bs, (ok, []))
            | None => (w, rfs)
            end
        | None => (w, rfs)
        end
    | OWrap r b writable =>
        match reg_get bs b with
        | Some be =>
            match wrap_filt fx (b_data be) b writable with
            | Some f =>
                if is_view f
                then (mkW (reg_set fs r (mkFE f (b_must be) (b_epoch be) (b_haz be) (b_gen be) (b_mut be))) bs, (ok, []))
                else (mkW (reg_set fs r (mkFE f (b_must be) 0 (b_haz be) 0 0)) bs, (ok, []))
            | None => (w, rfs)
            end
        | None => (w, rfs)
        end
    | OCopy r2 r variant =>
        match reg_get fs r with
        | Some fe =>
            (* 0 copy constructor, 1 copy assignment: both leave the source in place; an owned filter copies its bits,
               a view aliases the same memory.  2 move constructor, 3 move assignment: the harness drops the source. *)
            let fs' := reg_set fs r2 fe in
            if (variant =? 2) || (variant =? 3)
            then (if r =? r2 then (w, (ok, [])) else (mkW (reg_del fs' r) bs, (ok, [])))
            else (mkW fs' bs, (ok, []))
        | None => (w, rfs)
        end
    | ODrop r => (mkW (reg_del fs r) bs, (ok, []))
    | ODumpBuf b =>                              (* the bytes of a memory block: serialized images and wrapped memory *)
        match reg_get bs b with
        | Some be => (w, (map Nz (b_data be), []))
        | None => (w, rfs)
        end
    | OBad => (w, ([-2], []))
    end.
End WithHash.

(* ------------------------------------------------------------------ *)
(* line protocol                                                        *)
(* ------------------------------------------------------------------ *)

Definition decode (o e : line) : wop :=
  match o with
  | 1 :: r :: nbits :: nh :: seed :: _ => ONew r (w64 (zN nbits)) (w16 (zN nh)) (w64 (zN seed))
  | 2 :: b :: len :: _ => ONewBuf b (zN len)
  | 3 :: r :: b :: nbits :: nh :: seed :: _ => OInit r b (w64 (zN nbits)) (w16 (zN nh)) (w64 (zN seed))
  | 4 :: r :: kind :: args => OUpdate r (item_bytes kind args)
  | 5 :: r :: kind :: args => OQuery r (item_bytes kind args)
  | 6 :: r :: kind :: args => OQau r (item_bytes kind args)
  | 7 :: r :: r2 :: _ => OUnion r r2
  | 8 :: r :: r2 :: _ => OIntersect r r2
  | 9 :: r :: _ => OInvert r
  | 10 :: r :: _ => OReset r
  | 11 :: r :: _ => OBitsUsed r
  | 12 :: r :: _ => OInfo r
  | 13 :: r :: _ => ODump r
  | 14 :: r :: b :: _ => OSer r b
  | 15 :: r :: b :: v :: _ => ODeser r b (v =? 1)
  | 16 :: r :: b :: _ => OWrap r b false
  | 17 :: r :: b :: _ => OWrap r b true
  | 18 :: r2 :: r :: v :: _ => OCopy r2 r v
  | 19 :: r :: _ => ODrop r
  | 20 :: b :: _ => ODumpBuf b
  (* builder::create_by_accuracy / initialize_by_accuracy: the suggested size and hash count pass through libm in the
     implementation, the harness reports them (E line) and the model takes them as inputs *)
  | 21 :: r :: _ :: _ :: seed :: _ =>
      match e with
      | nbits :: nh :: _ => ONew r (w64 (zN nbits)) (w16 (zN nh)) (w64 (zN seed))
      | _ => ONew r 0%N 0%N 0%N                       (* the accuracy inputs were refused: nothing is built *)
      end
  | 22 :: r :: b :: _ :: _ :: seed :: _ =>
      match e with
      | nbits :: nh :: _ => OInit r b (w64 (zN nbits)) (w16 (zN nh)) (w64 (zN seed))
      | _ => ONew r 0%N 0%N 0%N
      end
  | _ => OBad
  end.

Definition step (w : world) (o e : line) : world * outline := wstep true xxh64 w (decode o e).
Definition run (ops : list opline) : list outline := run_case step (mkW [] []) ops.

(* the same protocol over the code BEFORE the repairs (Regression_bloom.v) *)
Definition step_old (w : world) (o e : line) : world * outline := wstep false xxh64 w (decode o e).
Definition run_old (ops : list opline) : list outline := run_case step_old (mkW [] []) ops.
