(* LedgerReqProofs.v — the effect logs of the REQ compactor model (LedgerReq.v) are accepted by the ledger; afterwards each
   compactor's ledger holds exactly its buffer with the slots [begin, begin + num_items) constructed. *)
From Coq Require Import ZArith NArith List Bool Lia.
From DS Require Import LedgerCore LedgerCoreProofs LedgerReq.
Import ListNotations.
Local Open Scope N_scope.

Definition CInv (c : comp) (L : ledger) : Prop :=
  L = [(c_blk c, mkblk true (c_cap c) (c_begin c) (c_begin c + c_num c))] /\ c_num c <= c_cap c /\ c_blk c < c_nxt c /\
  4 <= c_sec c /\ 1 <= c_nsec c.

Opaque init_cap trailing_ones.
Ltac rsplit := repeat match goal with |- _ /\ _ => split end.
Ltac csimpl := cbn [c_hra c_sec c_j c_nsec c_state c_num c_cap c_blk c_nxt mkc fst snd q_k q_hra q_tab q_n q_retained q_maxnom q_comps with_comps].
Tactic Notation "csimpl" "in" hyp(H) := cbn [c_hra c_sec c_j c_nsec c_state c_num c_cap c_blk c_nxt mkc fst snd q_k q_hra q_tab q_n q_retained q_maxnom q_comps with_comps] in H.

Lemma mkblk_eq ty sz lo hi lo' hi' : lo = lo' -> hi = hi' -> mkblk ty sz lo hi = mkblk ty sz lo' hi'.
Proof. now intros -> ->. Qed.

Lemma one_blk_eq (b : N) ty sz lo hi lo' hi' : lo = lo' -> hi = hi' -> [(b, mkblk ty sz lo hi)] = [(b, mkblk ty sz lo' hi')].
Proof. now intros -> ->. Qed.

Lemma judgeq_ok X L es L' : apply_all X L es = Some L' -> judgeq X L es = (L', false).
Proof. intros H. unfold judgeq. now rewrite H. Qed.

Lemma begin_end c : c_num c <= c_cap c -> c_begin c + c_num c <= c_cap c.
Proof. unfold c_begin. destruct (c_hra c); cbn; lia. Qed.

Lemma new_comp_ok X hra k c e : 4 <= k -> new_comp hra k = (c, e) -> exists L, apply_all X [] e = Some L /\ CInv c L.
Proof.
  intros Hk. unfold new_comp. cbv zeta. intros E; injection E as <- <-. cbn [apply_all]. rewrite alloc0.
  eexists. split; [reflexivity|]. unfold CInv, c_begin. csimpl. destruct hra.
  - rewrite (mkblk_empty_eq true _ 0 (init_cap k - 0)) by lia. rewrite N.add_0_r. rsplit; try reflexivity; try lia.
  - rsplit; try reflexivity; try lia.
Qed.

Lemma comp_grow_ok X c L new_cap c' e : CInv c L -> c_num c <= new_cap -> comp_grow c new_cap = (c', e) ->
  exists L', apply_all X L e = Some L' /\ CInv c' L' /\ c_cap c' = new_cap /\ c_num c' = c_num c /\ c_hra c' = c_hra c /\
             c_sec c' = c_sec c /\ c_nsec c' = c_nsec c /\ c_state c' = c_state c /\ c_j c' = c_j c.
Proof.
  intros (-> & Hn & Hb & Hs & Hns) Hnew. unfold comp_grow. cbv zeta. intros E; injection E as <- <-.
  pose proof (begin_end c Hn) as Hbe.
  set (c' := mkc c (c_sec c) (c_j c) (c_nsec c) (c_state c) (c_num c) new_cap (c_nxt c) (c_nxt c + 1)).
  assert (Hbe' : c_begin c' + c_num c <= new_cap) by (unfold c_begin, c'; csimpl; destruct (c_hra c); lia).
  cbn [apply_all]. rewrite alloc1 by lia.
  rewrite (mkblk_empty_eq true new_cap 0 (c_begin c')) by lia.
  rewrite (movd_dst_fst X (c_nxt c) true new_cap (c_begin c') (c_begin c') (c_blk c) true (c_cap c) (c_begin c) (c_begin c + c_num c) (c_num c)) by lia.
  rewrite dealloc2_snd by lia.
  eexists. split; [reflexivity|]. unfold CInv, c'. csimpl. rsplit; auto; try reflexivity; try lia.
Qed.

Lemma nom_pos c : 4 <= c_sec c -> 1 <= c_nsec c -> 1 <= nom_capacity c.
Proof. unfold nom_capacity. nia. Qed.

Lemma comp_append_ok X c L c' e : CInv c L -> comp_append c = (c', e) ->
  exists L', apply_all X L e = Some L' /\ CInv c' L' /\ c_num c' = c_num c + 1.
Proof.
  intros HI. unfold comp_append.
  assert (Hg : forall c1 e1, (if c_num c =? c_cap c then comp_grow c (c_cap c + nom_capacity c) else (c, [])) = (c1, e1) ->
               exists L1, apply_all X L e1 = Some L1 /\ CInv c1 L1 /\ c_num c1 < c_cap c1 /\ c_num c1 = c_num c).
  { intros c1 e1. pose proof HI as (_ & Hn & _ & Hs & Hns). pose proof (nom_pos c Hs Hns).
    destruct (N.eqb_spec (c_num c) (c_cap c)).
    - intros E. destruct (comp_grow_ok X c L (c_cap c + nom_capacity c) c1 e1 HI ltac:(lia) E) as (L1 & H1 & H2 & H3 & H4 & _).
      exists L1. rsplit; auto. lia.
    - intros E; injection E as <- <-. exists L. rsplit; auto. lia. }
  destruct (if c_num c =? c_cap c then _ else _) as [c1 e1]. destruct (Hg c1 e1 eq_refl) as (L1 & HL1 & HI1 & Hlt & Hnum).
  intros E; injection E as <- <-. destruct HI1 as (-> & Hn & Hb & Hs & Hns).
  rewrite (apply_all_app X L e1 _ _ HL1). cbn [apply_all]. unfold c_begin in *. destruct (c_hra c1) eqn:Hh.
  - pose proof (cons1_below X (c_blk c1) true (c_cap c1) (c_cap c1 - c_num c1) (c_cap c1 - c_num c1 + c_num c1) 1) as H.
    replace (c_cap c1 - c_num c1 - 1) with (c_cap c1 - c_num c1 - 1) by lia. rewrite H by lia.
    eexists. split; [reflexivity|]. unfold CInv, c_begin. csimpl. rewrite Hh.
    split; [split; [apply one_blk_eq; lia|rsplit; auto; lia]|lia].
  - rewrite !N.add_0_l. rewrite (cons1_above X (c_blk c1) true (c_cap c1) 0 (c_num c1) 1) by lia.
    eexists. split; [reflexivity|]. unfold CInv, c_begin. csimpl. rewrite Hh.
    split; [split; [apply one_blk_eq; lia|rsplit; auto; lia]|lia].
Qed.

(* what grow-like steps preserve *)
Definition same_shape (c c' : comp) : Prop :=
  c_num c' = c_num c /\ c_hra c' = c_hra c /\ c_state c' = c_state c.

Lemma comp_ensure_space_ok X c L n c' e : CInv c L -> comp_ensure_space c n = (c', e) ->
  exists L', apply_all X L e = Some L' /\ CInv c' L' /\ same_shape c c' /\ c_num c' + n <= c_cap c'.
Proof.
  intros HI. unfold comp_ensure_space. destruct (N.ltb_spec (c_cap c) (c_num c + n)).
  - intros E. destruct (comp_grow_ok X c L (c_num c + n + nom_capacity c) c' e HI ltac:(lia) E) as (L1 & H1 & H2 & H3 & H4 & H5 & _ & _ & H8 & _).
    exists L1. unfold same_shape. rsplit; auto. lia.
  - intros E; injection E as <- <-. exists L. unfold same_shape. rsplit; auto.
Qed.

Lemma comp_ensure_sections_ok X tab c L c' e again : CInv c L -> comp_ensure_sections tab c = (c', e, again) ->
  exists L', apply_all X L e = Some L' /\ CInv c' L' /\ same_shape c c'.
Proof.
  intros HI. unfold comp_ensure_sections.
  destruct ((2 ^ (c_nsec c - 1) <=? c_state c) && (MIN_K <=? nth (N.to_nat (c_j c)) tab 0)) eqn:Hc.
  - apply andb_prop in Hc. destruct Hc as [_ Hne]. apply N.leb_le in Hne. unfold MIN_K in Hne.
    set (c1 := mkc c (nth (N.to_nat (c_j c)) tab 0) (c_j c + 1) (2 * c_nsec c) (c_state c) (c_num c) (c_cap c) (c_blk c) (c_nxt c)).
    assert (HI1 : CInv c1 L).
    { destruct HI as (-> & Hn & Hb & Hs & Hns). unfold CInv, c1, c_begin. csimpl. rsplit; auto; try reflexivity; try lia. }
    destruct (N.ltb_spec (c_cap c1) (2 * nom_capacity c1)).
    + destruct (comp_grow c1 (2 * nom_capacity c1)) as [c2 e2] eqn:Eg. intros E; injection E as <- <- <-.
      assert (Hle : c_num c1 <= 2 * nom_capacity c1) by (destruct HI1 as (_ & Hn & _); lia).
      destruct (comp_grow_ok X c1 L _ c2 e2 HI1 Hle Eg) as (L1 & H1 & H2 & H3 & H4 & H5 & _ & _ & H8 & _).
      exists L1. unfold same_shape. rsplit; auto.
    + intros E; injection E as <- <- <-. exists L. unfold same_shape. rsplit; auto.
  - intros E; injection E as <- <- <-. exists L. unfold same_shape. rsplit; auto.
Qed.

Lemma ensure_sections_loop_ok X tab : forall fuel c L acc L0 c' e, apply_all X L0 acc = Some L -> CInv c L ->
  ensure_sections_loop fuel tab c acc = (c', e) -> exists L', apply_all X L0 e = Some L' /\ CInv c' L' /\ same_shape c c'.
Proof.
  induction fuel as [|f IH]; intros c L acc L0 c' e Hacc HI; cbn [ensure_sections_loop].
  - intros E; injection E as <- <-. exists L. unfold same_shape. auto.
  - destruct (comp_ensure_sections tab c) as [[c1 e1] again] eqn:E1.
    destruct (comp_ensure_sections_ok X tab c L c1 e1 again HI E1) as (L1 & H1 & H2 & H3).
    assert (Hacc1 : apply_all X L0 (acc ++ e1) = Some L1) by (rewrite (apply_all_app X L0 acc _ _ Hacc); exact H1).
    destruct again.
    + intros E. destruct (IH c1 L1 _ L0 c' e Hacc1 H2 E) as (L' & A & B & C). exists L'. rsplit; auto.
      unfold same_shape in *. intuition congruence.
    + intros E; injection E as <- <-. exists L1. auto.
Qed.

Lemma range_ok c low high : compaction_range c = (low, high) -> high <= c_num c -> low <= high ->
  (c_hra c = true -> low = 0) /\ (c_hra c = false -> high = c_num c).
Proof.
  unfold compaction_range. cbv zeta. destruct (c_hra c); intros E; injection E as <- <-; intros; split; intros; try discriminate; auto.
Qed.

(* compact(next) *)
Lemma comp_compact_ok tab c Lc nx Ln c' ec nx' en num dnom : CInv c Lc -> CInv nx Ln -> c_hra nx = c_hra c ->
  comp_compact tab c nx = Some (c', ec, nx', en, num, dnom) ->
  (exists Ln', apply_all Lc Ln en = Some Ln' /\ CInv nx' Ln') /\ (exists Lc', apply_all [] Lc ec = Some Lc' /\ CInv c' Lc') /\
  c_hra c' = c_hra c /\ c_hra nx' = c_hra c.
Proof.
  intros HIc HIn Hh. unfold comp_compact. cbv zeta.
  destruct (compaction_range c) as [low high] eqn:ER.
  destruct ((high - low <? 2) || (c_num c <? high) || (high <? low)) eqn:Hg; [discriminate|].
  apply orb_false_elim in Hg. destruct Hg as [Hg H3]. apply orb_false_elim in Hg. destruct Hg as [H1 H2].
  apply N.ltb_ge in H1, H2, H3.
  destruct (range_ok c low high ER H2 H3) as [Rh Rl].
  set (half := (high - low) / 2).
  assert (Hhalf : 2 * half <= high - low) by (unfold half; apply N.mul_div_le; lia).
  destruct (comp_ensure_space nx half) as [n1 en1] eqn:ES.
  destruct (comp_ensure_space_ok Lc nx Ln half n1 en1 HIn ES) as (Ln1 & HL1 & HI1 & (S1 & S2 & S3) & Hroom).
  set (c1 := mkc c (c_sec c) (c_j c) (c_nsec c) (c_state c + 1) (c_num c - (high - low)) (c_cap c) (c_blk c) (c_nxt c)).
  destruct (comp_ensure_sections tab c1) as [[c2 ec2] ag] eqn:ESec.
  intros E; injection E as <- <- <- <- <- <-.
  pose proof HIc as (-> & Hnc & Hbc & Hsc & Hnsc). pose proof (begin_end c Hnc) as Hbe.
  split; [|split].
  - (* next *)
    destruct HI1 as (-> & Hn1 & Hb1 & Hs1 & Hns1). pose proof (begin_end n1 Hn1) as Hbe1.
    rewrite (apply_all_app _ Ln en1 _ _ HL1). cbn [apply_all].
    assert (Hh1 : c_hra n1 = c_hra c) by congruence.
    unfold c_begin in *. rewrite Hh1 in *. destruct (c_hra c) eqn:Hhc.
    + pose proof (fromx1_below [(c_blk c, mkblk true (c_cap c) (c_cap c - c_num c) (c_cap c - c_num c + c_num c))]
                    (c_blk c) true (c_cap c) (c_cap c - c_num c) (c_cap c - c_num c + c_num c) (c_cap c - c_num c + low)
                    (c_blk n1) true (c_cap n1) (c_cap n1 - c_num n1) (c_cap n1 - c_num n1 + c_num n1) half) as H.
      rewrite H; try lia; [|apply lookup_hd].
      eexists. split; [reflexivity|]. unfold CInv, c_begin. csimpl. rewrite Hh1. split; [|rsplit; auto; lia].
      apply one_blk_eq; lia.
    + pose proof (fromx1_above [(c_blk c, mkblk true (c_cap c) 0 (0 + c_num c))]
                    (c_blk c) true (c_cap c) 0 (0 + c_num c) (0 + low)
                    (c_blk n1) true (c_cap n1) 0 (0 + c_num n1) half) as H.
      rewrite H; try lia; [|apply lookup_hd].
      eexists. split; [reflexivity|]. unfold CInv, c_begin. csimpl. rewrite Hh1. split; [|rsplit; auto; lia].
      apply one_blk_eq; lia.
  - (* this compactor *)
    assert (Hd : exists L1, apply [] [(c_blk c, mkblk true (c_cap c) (c_begin c) (c_begin c + c_num c))]
                              (Dest (c_blk c) (c_begin c + low) (high - low)) = Some L1 /\ CInv c1 L1).
    { unfold c_begin in *. destruct (c_hra c) eqn:Hhc.
      - rewrite (Rh eq_refl) in *. rewrite N.add_0_r. rewrite dest1_prefix by lia.
        eexists. split; [reflexivity|]. unfold CInv, c1, c_begin. csimpl. rewrite Hhc. split; [|rsplit; auto; lia].
        apply one_blk_eq; lia.
      - rewrite (Rl eq_refl) in *.
        pose proof (dest1_suffix [] (c_blk c) true (c_cap c) 0 (0 + c_num c) (c_num c - low)) as H.
        replace (0 + c_num c - (c_num c - low)) with (0 + low) in H by lia. rewrite H by lia.
        eexists. split; [reflexivity|]. unfold CInv, c1, c_begin. csimpl. rewrite Hhc. split; [|rsplit; auto; lia].
        apply one_blk_eq; lia. }
    destruct Hd as (L1 & Hd1 & HIc1).
    destruct (comp_ensure_sections_ok [] tab c1 L1 c2 ec2 ag HIc1 ESec) as (L2 & A & B & C).
    exists L2. split; auto. cbn [apply_all]. rewrite Hd1. exact A.
  - destruct (comp_ensure_sections_ok [] tab c1 [(c_blk c1, mkblk true (c_cap c1) (c_begin c1) (c_begin c1 + c_num c1))] c2 ec2 ag) as (L2 & A & B & (C1 & C2 & C3)); auto.
    + unfold CInv, c1. csimpl. rsplit; auto; try reflexivity; try lia.
    + split; [rewrite C2; reflexivity|]. csimpl. congruence.
Qed.

Lemma comp_merge_ok tab c L o LO c' e : CInv c L -> CInv o LO -> c_hra o = c_hra c -> comp_merge tab c o = (c', e) ->
  exists L', apply_all LO L e = Some L' /\ CInv c' L' /\ c_hra c' = c_hra c.
Proof.
  intros HI HO Hh. unfold comp_merge. cbv zeta.
  set (c0 := mkc c (c_sec c) (c_j c) (c_nsec c) (N.lor (c_state c) (c_state o)) (c_num c) (c_cap c) (c_blk c) (c_nxt c)).
  assert (HI0 : CInv c0 L) by (destruct HI as (-> & ? & ? & ? & ?); unfold CInv, c0, c_begin; csimpl; rsplit; auto).
  destruct (ensure_sections_loop 64 tab c0 []) as [c1 e1] eqn:E1.
  destruct (ensure_sections_loop_ok LO tab 64 c0 L [] L c1 e1 eq_refl HI0 E1) as (L1 & H1 & HI1 & (S1 & S2 & S3)).
  destruct (comp_ensure_space c1 (c_num o)) as [c2 e2] eqn:E2.
  destruct (comp_ensure_space_ok LO c1 L1 (c_num o) c2 e2 HI1 E2) as (L2 & H2 & HI2 & (T1 & T2 & T3) & Hroom).
  intros E; injection E as <- <-.
  rewrite (apply_all_app LO L e1 _ _ H1). rewrite (apply_all_app LO L1 e2 _ _ H2).
  assert (Hh2 : c_hra c2 = c_hra c) by (unfold c0 in S2; cbn [c_hra mkc] in S2; congruence).
  destruct HO as (-> & Hno & Hbo & _). pose proof (begin_end o Hno) as Hbeo.
  destruct HI2 as (-> & Hn2 & Hb2 & Hs2 & Hns2). pose proof (begin_end c2 Hn2) as Hbe2.
  destruct (N.ltb_spec 0 (c_num o)) as [Hpos|Hz].
  - cbn [apply_all]. unfold c_begin in *. rewrite Hh2 in *. destruct (c_hra c) eqn:Hhc.
    + pose proof (fromx1_below [(c_blk o, mkblk true (c_cap o) (if c_hra o then c_cap o - c_num o else 0) ((if c_hra o then c_cap o - c_num o else 0) + c_num o))]
                    (c_blk o) true (c_cap o) (if c_hra o then c_cap o - c_num o else 0) ((if c_hra o then c_cap o - c_num o else 0) + c_num o)
                    (if c_hra o then c_cap o - c_num o else 0)
                    (c_blk c2) true (c_cap c2) (c_cap c2 - c_num c2) (c_cap c2 - c_num c2 + c_num c2) (c_num o)) as H.
      rewrite H; try lia; [|apply lookup_hd].
      eexists. split; [reflexivity|]. unfold CInv, c_begin. csimpl. rewrite Hh2. split; [|rsplit; auto; lia].
      split; [|rsplit; auto; lia]. apply one_blk_eq; lia.
    + pose proof (fromx1_above [(c_blk o, mkblk true (c_cap o) (if c_hra o then c_cap o - c_num o else 0) ((if c_hra o then c_cap o - c_num o else 0) + c_num o))]
                    (c_blk o) true (c_cap o) (if c_hra o then c_cap o - c_num o else 0) ((if c_hra o then c_cap o - c_num o else 0) + c_num o)
                    (if c_hra o then c_cap o - c_num o else 0)
                    (c_blk c2) true (c_cap c2) 0 (0 + c_num c2) (c_num o)) as H.
      rewrite N.add_0_l in H. rewrite ?N.add_0_l. rewrite H; try lia; [|apply lookup_hd].
      eexists. split; [reflexivity|]. unfold CInv, c_begin. csimpl. rewrite Hh2. split; [|rsplit; auto; lia].
      split; [|rsplit; auto; lia]. apply one_blk_eq; lia.
  - assert (c_num o = 0) by lia. eexists. split; [reflexivity|]. unfold CInv, c_begin in *. csimpl. rewrite Hh2 in *.
    split; [|auto]. split; [|rsplit; auto; lia]. destruct (c_hra c); apply one_blk_eq; lia.
Qed.

Lemma comp_copy_ok o LO c e : CInv o LO -> comp_copy o = (c, e) -> exists L, apply_all LO [] e = Some L /\ CInv c L /\ c_hra c = c_hra o.
Proof.
  intros (-> & Hn & Hb & Hs & Hns). unfold comp_copy. intros E; injection E as <- <-.
  pose proof (begin_end o Hn) as Hbe. cbn [app apply_all]. rewrite alloc0.
  destruct (N.ltb_spec 0 (c_num o)).
  - cbn [apply_all]. rewrite (mkblk_empty_eq true (c_cap o) 0 (c_begin o)) by lia.
    rewrite (fromx1_above _ (c_blk o) true (c_cap o) (c_begin o) (c_begin o + c_num o) (c_begin o) 0 true (c_cap o) (c_begin o) (c_begin o) (c_num o));
      try lia; [|apply lookup_hd].
    eexists. split; [reflexivity|]. unfold CInv, c_begin. csimpl. rsplit; auto; try reflexivity; try lia.
  - assert (c_num o = 0) by lia. eexists. split; [reflexivity|]. unfold CInv, c_begin in *. csimpl. rewrite H0 in *. rewrite N.add_0_r.
    split; [split; [|rsplit; auto; lia]|reflexivity]. f_equal. f_equal. apply mkblk_empty_eq; destruct (c_hra o); lia.
Qed.

Lemma comp_destroy_ok X c L : CInv c L -> apply_all X L (comp_destroy c) = Some [].
Proof.
  intros (-> & Hn & _). pose proof (begin_end c Hn). unfold comp_destroy. cbn [apply_all].
  rewrite dest1_prefix by lia. rewrite dealloc1 by lia. reflexivity.
Qed.

Lemma comp_live c L : CInv c L -> live_slots L = c_num c /\ item_slots L = c_cap c.
Proof.
  intros (-> & Hn & _). pose proof (begin_end c Hn). split.
  - rewrite live_slots_one by lia. lia.
  - unfold item_slots. cbn [fold_right snd b_ty b_size mkblk]. lia.
Qed.

(* ---- the sketch ---- *)
Definition QInv (s : req) : Prop :=
  4 <= q_k s /\ Forall (fun p => CInv (fst p) (snd p) /\ c_hra (fst p) = q_hra s) (q_comps s).

Lemma push_comp_ok s cs cs' b : 4 <= q_k s -> Forall (fun p => CInv (fst p) (snd p) /\ c_hra (fst p) = q_hra s) cs ->
  push_comp s cs = (cs', b) -> Forall (fun p => CInv (fst p) (snd p) /\ c_hra (fst p) = q_hra s) cs' /\ b = false.
Proof.
  intros Hk HF. unfold push_comp. destruct (new_comp (q_hra s) (q_k s)) as [c e] eqn:E.
  destruct (new_comp_ok [] _ _ c e Hk E) as (L & HL & HI). rewrite (judgeq_ok _ _ _ _ HL).
  intros E2; injection E2 as <- <-. split; auto. apply Forall_app. split; auto. constructor; [|constructor].
  csimpl. split; auto. unfold new_comp in E. injection E as <- _. reflexivity.
Qed.

Lemma compress_loop_ok s : 4 <= q_k s -> forall fuel done rest ret mx bad cs ret' mx' bad',
  Forall (fun p => CInv (fst p) (snd p) /\ c_hra (fst p) = q_hra s) done ->
  Forall (fun p => CInv (fst p) (snd p) /\ c_hra (fst p) = q_hra s) rest ->
  compress_loop fuel s done rest ret mx bad = Some (cs, ret', mx', bad') ->
  Forall (fun p => CInv (fst p) (snd p) /\ c_hra (fst p) = q_hra s) cs /\ bad' = bad.
Proof.
  intros Hk. induction fuel as [|f IH]; intros done rest ret mx bad cs ret' mx' bad' HD HR; cbn [compress_loop].
  - intros E; injection E as <- _ _ <-. split; auto. apply Forall_app. auto.
  - destruct rest as [|[c L] t]. { intros E; injection E as <- _ _ <-. auto. }
    inversion HR as [|? ? [HIc Hhc] HRt]; subst. csimpl in HIc; csimpl in Hhc.
    destruct (nom_capacity c <=? c_num c).
    + assert (Htop : exists t1 mx1 bad1, (match t with
                  | [] => let '(t', b') := push_comp s [] in (t', sum_nom (done ++ (c, L) :: t'), bad || b')
                  | _ :: _ => (t, mx, bad) end) = (t1, mx1, bad1) /\
                  Forall (fun p => CInv (fst p) (snd p) /\ c_hra (fst p) = q_hra s) t1 /\ bad1 = bad).
      { destruct t.
        - destruct (push_comp s []) as [t' b'] eqn:EP. destruct (push_comp_ok s [] t' b' Hk (Forall_nil _) EP) as [F ->].
          eexists _, _, _. split; [reflexivity|]. split; auto. destruct bad; auto.
        - eexists _, _, _. split; [reflexivity|]. auto. }
      destruct Htop as (t1 & mx1 & bad1 & -> & HF1 & ->).
      destruct t1 as [|[nx LN] t2]; [discriminate|].
      inversion HF1 as [|? ? [HIn Hhn] HF2]; subst. csimpl in HIn; csimpl in Hhn.
      destruct (comp_compact (q_tab s) c nx) as [[[[[[c' ec] nx'] en] num] dnom]|] eqn:EC; [|discriminate].
      destruct (comp_compact_ok _ c L nx LN c' ec nx' en num dnom HIc HIn ltac:(congruence) EC)
        as ((Ln' & A1 & A2) & (Lc' & B1 & B2) & C1 & C2).
      rewrite (judgeq_ok _ _ _ _ A1), (judgeq_ok _ _ _ _ B1).
      intros E. apply IH in E.
      * destruct E as [E1 ->]. split; auto. destruct bad; auto.
      * apply Forall_app. split; auto. constructor; [|constructor]. csimpl. split; auto. congruence.
      * constructor; auto. csimpl. split; auto. congruence.
    + intros E. apply IH in E; auto. apply Forall_app. split; auto.
Qed.

Lemma req_update_ok s s' bad : QInv s -> req_update s = Some (s', bad) -> QInv s' /\ bad = false.
Proof.
  intros [Hk HF]. unfold req_update. destruct (q_comps s) as [|[c0 L0] t] eqn:Hc; [discriminate|].
  inversion HF as [|? ? [HI0 Hh0] HFt]; subst. csimpl in HI0; csimpl in Hh0.
  destruct (comp_append c0) as [c1 e1] eqn:EA.
  destruct (comp_append_ok [] c0 L0 c1 e1 HI0 EA) as (L1 & H1 & HI1 & Hn).
  rewrite (judgeq_ok _ _ _ _ H1).
  assert (Hh1 : c_hra c1 = q_hra s).
  { unfold comp_append in EA. destruct (c_num c0 =? c_cap c0); [unfold comp_grow in EA; cbv zeta in EA|]; injection EA as <- _; csimpl; auto. }
  assert (HF1 : Forall (fun p => CInv (fst p) (snd p) /\ c_hra (fst p) = q_hra s) ((c1, L1) :: t)) by (constructor; auto).
  destruct (q_retained s + 1 =? q_maxnom s).
  - unfold req_compress. destruct (compress_loop _ s [] _ _ _ false) as [[[[cs' r'] m'] b']|] eqn:EC; [|discriminate].
    destruct (compress_loop_ok s Hk _ _ _ _ _ _ _ _ _ _ (Forall_nil _) HF1 EC) as [F ->].
    intros E; injection E as <- <-. split; auto. split; auto.
  - intros E; injection E as <- <-. split; auto. split; auto.
Qed.

Lemma grow_to_ok s : 4 <= q_k s -> forall fuel cs n bad cs' bad',
  Forall (fun p => CInv (fst p) (snd p) /\ c_hra (fst p) = q_hra s) cs -> grow_to fuel s cs n bad = (cs', bad') ->
  Forall (fun p => CInv (fst p) (snd p) /\ c_hra (fst p) = q_hra s) cs' /\ bad' = bad.
Proof.
  intros Hk. induction fuel as [|f IH]; intros cs n bad cs' bad' HF; cbn [grow_to].
  - intros E; injection E as <- <-. auto.
  - destruct (length cs <? n)%nat.
    + destruct (push_comp s cs) as [cs1 b] eqn:EP. destruct (push_comp_ok s cs cs1 b Hk HF EP) as [F ->].
      intros E. apply IH in E; auto. destruct E as [E1 ->]. split; auto. destruct bad; auto.
    + intros E; injection E as <- <-. auto.
Qed.

Lemma merge_comps_ok tab hra : forall cs os bad cs' bad',
  Forall (fun p => CInv (fst p) (snd p) /\ c_hra (fst p) = hra) cs ->
  Forall (fun p => CInv (fst p) (snd p) /\ c_hra (fst p) = hra) os ->
  merge_comps tab cs os bad = (cs', bad') ->
  Forall (fun p => CInv (fst p) (snd p) /\ c_hra (fst p) = hra) cs' /\ bad' = bad.
Proof.
  induction cs as [|[c L] t IH]; intros os bad cs' bad' HC HO; cbn [merge_comps].
  - intros E; injection E as <- <-. auto.
  - destruct os as [|[o LO] ot]. { intros E; injection E as <- <-. auto. }
    inversion HC as [|? ? [HIc Hhc] HCt]; subst. inversion HO as [|? ? [HIo Hho] HOt]; subst. cbn [fst snd] in *.
    destruct (comp_merge tab c o) as [c' e] eqn:EM.
    destruct (comp_merge_ok tab c L o LO c' e HIc HIo ltac:(congruence) EM) as (L' & A & B & C).
    rewrite (judgeq_ok _ _ _ _ A).
    destruct (merge_comps tab t ot (bad || false)) as [t' b'] eqn:ER.
    destruct (IH ot _ t' b' HCt HOt ER) as [F ->].
    intros E; injection E as <- <-. split; [constructor; auto; csimpl; split; auto; congruence|destruct bad; auto].
Qed.

Lemma req_merge_ok s o s' bad : QInv s -> QInv o -> req_merge s o = Some (s', bad) -> QInv s' /\ bad = false.
Proof.
  intros [Hk HF] [Hko HFo]. unfold req_merge.
  destruct (Bool.eqb (q_hra s) (q_hra o)) eqn:Hh; simpl negb; cbv iota; [|discriminate].
  apply Bool.eqb_prop in Hh.
  destruct (q_n o =? 0). { intros E; injection E as <- <-. split; auto. split; auto. }
  destruct (grow_to _ s (q_comps s) _ false) as [cs1 b1] eqn:EG.
  destruct (grow_to_ok s Hk _ _ _ _ _ _ HF EG) as [F1 ->].
  destruct (merge_comps (q_tab s) cs1 (q_comps o) false) as [cs2 b2] eqn:EM.
  rewrite <- Hh in HFo.
  destruct (merge_comps_ok _ (q_hra s) _ _ _ _ _ F1 HFo EM) as [F2 ->].
  destruct (sum_nom cs2 <=? sum_num cs2).
  - unfold req_compress. destruct (compress_loop _ s [] cs2 _ _ false) as [[[[cs' r'] m'] b']|] eqn:EC; [|discriminate].
    destruct (compress_loop_ok s Hk _ _ _ _ _ _ _ _ _ _ (Forall_nil _) F2 EC) as [F ->].
    intros E; injection E as <- <-. split; auto. split; auto.
  - intros E; injection E as <- <-. split; auto. split; auto.
Qed.

Lemma req_copy_ok o s' bad : QInv o -> req_copy o = (s', bad) -> QInv s' /\ bad = false.
Proof.
  intros [Hk HF]. unfold req_copy. intros E; injection E as <- <-.
  assert (H : Forall (fun p => CInv (fst p) (snd p) /\ c_hra (fst p) = q_hra o)
                (map fst (map (fun p => let '(c, e) := comp_copy (fst p) in let '(L, b) := judgeq (snd p) [] e in ((c, L), b)) (q_comps o))) /\
              existsb snd (map (fun p => let '(c, e) := comp_copy (fst p) in let '(L, b) := judgeq (snd p) [] e in ((c, L), b)) (q_comps o)) = false).
  { induction HF as [|[c L] t [HI Hh] Ht IH]; cbn [map existsb fst snd]; [auto|]. cbn [fst snd] in HI, Hh.
    destruct (comp_copy c) as [c' e] eqn:EC. destruct (comp_copy_ok c L c' e HI EC) as (L' & A & B & C).
    rewrite (judgeq_ok _ _ _ _ A). cbn [map existsb fst snd orb]. destruct IH as [I1 I2]. split; auto. constructor; auto. csimpl. split; auto. congruence. }
  destruct H as [H1 H2]. split; auto. split; auto.
Qed.

Lemma req_destroy_ok s : QInv s -> req_destroy s = false.
Proof.
  intros [_ HF]. unfold req_destroy. induction HF as [|[c L] t [HI _] Ht IH]; cbn [existsb fst snd]; auto.
  rewrite (judgeq_ok _ _ _ _ (comp_destroy_ok [] c L HI)). cbn [orb]. exact IH.
Qed.

Lemma new_req_ok k hra tab s bad : 4 <= k -> new_req k hra tab = (s, bad) -> QInv s /\ bad = false.
Proof.
  intros Hk. unfold new_req. destruct (new_comp hra k) as [c e] eqn:E.
  destruct (new_comp_ok [] _ _ c e Hk E) as (L & HL & HI). rewrite (judgeq_ok _ _ _ _ HL).
  intros E2; injection E2 as <- <-. split; auto. split; auto. csimpl. constructor; [|constructor]. csimpl. split; auto.
  unfold new_comp in E. injection E as <- _. reflexivity.
Qed.

Lemma live_slots_cons b x L : live_slots ((b, x) :: L) = count_true (b_map x) + live_slots L.
Proof. reflexivity. Qed.
Lemma item_slots_cons b x L : item_slots ((b, x) :: L) = (if b_ty x then b_size x else 0) + item_slots L.
Proof. reflexivity. Qed.

Lemma req_live s : QInv s -> live_slots (q_ledger s) = sum_num (q_comps s).
Proof.
  intros [_ HF]. unfold q_ledger. induction HF as [|[c L] t [HI _] Ht IH]; cbn [flat_map]; auto.
  cbn [fst snd] in HI. destruct HI as (-> & Hn & _). pose proof (begin_end c Hn). cbn [snd app].
  rewrite live_slots_cons. cbn [b_map mkblk sum_num fold_right fst]. rewrite count_true_rng by lia. fold (sum_num t). rewrite IH. lia.
Qed.

Definition sum_cap (cs : list (comp * ledger)) : N := fold_right (fun p a => c_cap (fst p) + a) 0 cs.

Lemma req_caps s : QInv s -> item_slots (q_ledger s) = sum_cap (q_comps s).
Proof.
  intros [_ HF]. unfold q_ledger. induction HF as [|[c L] t [HI _] Ht IH]; cbn [flat_map]; auto.
  cbn [fst snd] in HI. destruct HI as (-> & Hn & _). cbn [snd app].
  rewrite item_slots_cons. cbn [b_ty b_size mkblk sum_cap fold_right fst]. fold (sum_cap t). rewrite IH. lia.
Qed.

Lemma req_destroy_moved_from s : req_destroy (req_moved_from s) = false.
Proof. reflexivity. Qed.

(* ---- the guards of the model never fire on reachable states ---- *)
Lemma half_nom c : nom_capacity c / 2 = c_nsec c * c_sec c.
Proof. unfold nom_capacity. replace (2 * c_nsec c * c_sec c) with (c_nsec c * c_sec c * 2) by lia. apply N.div_mul. lia. Qed.

Lemma comp_compact_total tab c nx Lc : CInv c Lc -> nom_capacity c <= c_num c -> comp_compact tab c nx <> None.
Proof.
  intros (_ & Hn & _ & Hs & Hns) Hfull. unfold comp_compact. cbv zeta.
  destruct (compaction_range c) as [low high] eqn:ER.
  assert (Hr : 2 <= high - low /\ high <= c_num c /\ low <= high).
  { unfold compaction_range in ER. cbv zeta in ER. rewrite half_nom in ER.
    set (secs := N.min (trailing_ones 64 (c_state c) + 1) (c_nsec c)) in ER.
    assert (Hsecs : 1 <= secs /\ secs <= c_nsec c) by (unfold secs; lia).
    set (nc0 := c_nsec c * c_sec c + (c_nsec c - secs) * c_sec c) in ER.
    assert (Hnc0 : nc0 + c_sec c <= nom_capacity c) by (unfold nc0, nom_capacity; nia).
    set (nc := if N.odd (c_num c - nc0) then nc0 + 1 else nc0) in ER.
    assert (Hnc : nc + 3 <= c_num c) by (unfold nc; destruct (N.odd (c_num c - nc0)); lia).
    destruct (c_hra c); injection ER as <- <-; lia. }
  destruct Hr as (H1 & H2 & H3).
  replace ((high - low <? 2) || (c_num c <? high) || (high <? low)) with false.
  2:{ symmetry. apply orb_false_intro; [apply orb_false_intro|]; apply N.ltb_ge; lia. }
  destruct (comp_ensure_space nx ((high - low) / 2)) as [n1 en1].
  destruct (comp_ensure_sections tab _) as [[c2 ec2] ag]. discriminate.
Qed.

Lemma compress_loop_total s : 4 <= q_k s -> forall fuel done rest ret mx bad,
  Forall (fun p => CInv (fst p) (snd p) /\ c_hra (fst p) = q_hra s) done ->
  Forall (fun p => CInv (fst p) (snd p) /\ c_hra (fst p) = q_hra s) rest ->
  compress_loop fuel s done rest ret mx bad <> None.
Proof.
  intros Hk. induction fuel as [|f IH]; intros done rest ret mx bad HD HR; cbn [compress_loop]; [discriminate|].
  destruct rest as [|[c L] t]; [discriminate|].
  inversion HR as [|? ? [HIc Hhc] HRt]; subst. cbn [fst snd] in HIc, Hhc.
  destruct (N.leb_spec (nom_capacity c) (c_num c)) as [Hfull|].
  - assert (Htop : exists nx LN t2 mx1 bad1, (match t with
                | [] => let '(t', b') := push_comp s [] in (t', sum_nom (done ++ (c, L) :: t'), bad || b')
                | _ :: _ => (t, mx, bad) end) = ((nx, LN) :: t2, mx1, bad1) /\
                Forall (fun p => CInv (fst p) (snd p) /\ c_hra (fst p) = q_hra s) ((nx, LN) :: t2)).
    { destruct t as [|[nx LN] t2].
      - destruct (push_comp s []) as [t' b'] eqn:EP. destruct (push_comp_ok s [] t' b' Hk (Forall_nil _) EP) as [F ->].
        unfold push_comp in EP. destruct (new_comp (q_hra s) (q_k s)) as [c0 e0]. destruct (judgeq [] [] e0) as [L0 b0].
        injection EP as <- _. cbn [app] in *. eexists _, _, _, _, _. split; [reflexivity|exact F].
      - eexists _, _, _, _, _. split; [reflexivity|exact HRt]. }
    destruct Htop as (nx & LN & t2 & mx1 & bad1 & -> & HF1).
    inversion HF1 as [|? ? [HIn Hhn] HF2]; subst. cbn [fst snd] in HIn, Hhn.
    destruct (comp_compact (q_tab s) c nx) as [[[[[[c' ec] nx'] en] num] dnom]|] eqn:EC.
    2:{ exfalso. exact (comp_compact_total _ c nx L HIc Hfull EC). }
    destruct (comp_compact_ok _ c L nx LN c' ec nx' en num dnom HIc HIn ltac:(congruence) EC)
      as ((Ln' & A1 & A2) & (Lc' & B1 & B2) & C1 & C2).
    rewrite (judgeq_ok _ _ _ _ A1), (judgeq_ok _ _ _ _ B1).
    apply IH.
    + apply Forall_app. split; auto. constructor; [|constructor]. cbn [fst snd]. split; auto. congruence.
    + constructor; auto. cbn [fst snd]. split; auto. congruence.
  - apply IH; auto. apply Forall_app. split; auto.
Qed.

(* update never escapes with an exception on a sketch that holds its compactors *)
Lemma req_update_total s : QInv s -> q_comps s <> [] -> req_update s <> None.
Proof.
  intros [Hk HF] Hne. unfold req_update. destruct (q_comps s) as [|[c0 L0] t] eqn:Hc; [congruence|].
  inversion HF as [|? ? [HI0 Hh0] HFt]; subst. cbn [fst snd] in HI0, Hh0.
  destruct (comp_append c0) as [c1 e1] eqn:EA.
  destruct (comp_append_ok [] c0 L0 c1 e1 HI0 EA) as (L1 & H1 & HI1 & Hn).
  rewrite (judgeq_ok _ _ _ _ H1).
  assert (Hh1 : c_hra c1 = q_hra s).
  { unfold comp_append in EA. destruct (c_num c0 =? c_cap c0); [unfold comp_grow in EA; cbv zeta in EA|]; injection EA as <- _; cbn [c_hra mkc]; auto. }
  assert (HF1 : Forall (fun p => CInv (fst p) (snd p) /\ c_hra (fst p) = q_hra s) ((c1, L1) :: t)) by (constructor; auto).
  destruct (q_retained s + 1 =? q_maxnom s); [|discriminate].
  unfold req_compress. pose proof (compress_loop_total s Hk (length ((c1, L1) :: t) + 70) [] _ (q_retained s + 1) (q_maxnom s) false (Forall_nil _) HF1) as HT.
  destruct (compress_loop _ s [] _ _ _ false) as [[[[cs' r'] m'] b']|]; [discriminate|congruence].
Qed.

(* merge: the only refusal is the HRA/LRA mismatch (invalid_argument before anything is touched) *)
Lemma req_merge_total s o : QInv s -> QInv o -> q_hra s = q_hra o -> req_merge s o <> None.
Proof.
  intros [Hk HF] [Hko HFo] Hh. unfold req_merge. rewrite Hh, Bool.eqb_reflx. cbn [negb].
  destruct (q_n o =? 0); [discriminate|].
  destruct (grow_to _ s (q_comps s) _ false) as [cs1 b1] eqn:EG.
  destruct (grow_to_ok s Hk _ _ _ _ _ _ HF EG) as [F1 ->].
  destruct (merge_comps (q_tab s) cs1 (q_comps o) false) as [cs2 b2] eqn:EM.
  rewrite <- Hh in HFo.
  destruct (merge_comps_ok _ (q_hra s) _ _ _ _ _ F1 HFo EM) as [F2 ->].
  destruct (sum_nom cs2 <=? sum_num cs2); [|discriminate].
  unfold req_compress. pose proof (compress_loop_total s Hk (length cs2 + 70) [] cs2 (sum_num cs2) (sum_nom cs2) false (Forall_nil _) F2) as HT.
  destruct (compress_loop _ s [] cs2 _ _ false) as [[[[cs' r'] m'] b']|]; [discriminate|congruence].
Qed.

(* compactors are never lost: a sketch created by the constructor keeps at least one *)
Lemma compress_loop_len s : forall fuel done rest ret mx bad cs ret' mx' bad',
  compress_loop fuel s done rest ret mx bad = Some (cs, ret', mx', bad') -> (length done + length rest <= length cs)%nat.
Proof.
  induction fuel as [|f IH]; intros done rest ret mx bad cs ret' mx' bad'; cbn [compress_loop].
  - intros E; injection E as <- _ _ _. rewrite app_length. lia.
  - destruct rest as [|[c L] t]. { intros E; injection E as <- _ _ _. simpl. lia. }
    destruct (nom_capacity c <=? c_num c).
    + destruct t as [|[nx LN] t2].
      * destruct (push_comp s []) as [t' b']. destruct t' as [|[nx LN] t2]; [discriminate|].
        destruct (comp_compact (q_tab s) c nx) as [[[[[[c' ec] nx'] en] num] dnom]|]; [|discriminate].
        destruct (judgeq L LN en), (judgeq [] L ec). intros E. apply IH in E. rewrite app_length in E. simpl in *. lia.
      * destruct (comp_compact (q_tab s) c nx) as [[[[[[c' ec] nx'] en] num] dnom]|]; [|discriminate].
        destruct (judgeq L LN en), (judgeq [] L ec). intros E. apply IH in E. rewrite app_length in E. simpl in *. lia.
    + intros E. apply IH in E. rewrite app_length in E. simpl in *. lia.
Qed.

Lemma grow_to_len s : forall fuel cs n bad cs' bad', grow_to fuel s cs n bad = (cs', bad') -> (length cs <= length cs')%nat.
Proof.
  induction fuel as [|f IH]; intros cs n bad cs' bad'; cbn [grow_to].
  - intros E; injection E as <- _. lia.
  - destruct (length cs <? n)%nat; [|intros E; injection E as <- _; lia].
    unfold push_comp. destruct (new_comp (q_hra s) (q_k s)) as [c e]. destruct (judgeq [] [] e) as [L b].
    intros E. apply IH in E. rewrite app_length in E. simpl in E. lia.
Qed.

Lemma merge_comps_len tab : forall cs os bad cs' bad', merge_comps tab cs os bad = (cs', bad') -> length cs' = length cs.
Proof.
  induction cs as [|[c L] t IH]; intros os bad cs' bad'; cbn [merge_comps].
  - intros E; injection E as <- _. reflexivity.
  - destruct os as [|[o LO] ot]. { intros E; injection E as <- _. reflexivity. }
    destruct (comp_merge tab c o) as [c' e]. destruct (judgeq LO L e) as [L' b].
    destruct (merge_comps tab t ot (bad || b)) as [t' b'] eqn:ER. intros E; injection E as <- _. simpl. f_equal. eapply IH; eauto.
Qed.

Lemma req_update_nonempty s s' bad : req_update s = Some (s', bad) -> q_comps s' <> [].
Proof.
  unfold req_update. destruct (q_comps s) as [|[c0 L0] t]; [discriminate|].
  destruct (comp_append c0) as [c1 e1]. destruct (judgeq [] L0 e1) as [L1 b1].
  destruct (q_retained s + 1 =? q_maxnom s).
  - unfold req_compress. destruct (compress_loop _ s [] _ _ _ b1) as [[[[cs' r'] m'] b']|] eqn:EC; [|discriminate].
    apply compress_loop_len in EC. intros E; injection E as <- _. cbn [q_comps with_comps]. destruct cs'; [simpl in EC; lia|discriminate].
  - intros E; injection E as <- _. cbn [q_comps with_comps]. discriminate.
Qed.

Lemma req_merge_nonempty s o s' bad : q_comps s <> [] -> req_merge s o = Some (s', bad) -> q_comps s' <> [].
Proof.
  intros Hne. unfold req_merge. destruct (negb (Bool.eqb (q_hra s) (q_hra o))); [discriminate|].
  destruct (q_n o =? 0). { intros E; injection E as <- _. exact Hne. }
  destruct (grow_to _ s (q_comps s) _ false) as [cs1 b1] eqn:EG. apply grow_to_len in EG.
  destruct (merge_comps (q_tab s) cs1 (q_comps o) b1) as [cs2 b2] eqn:EM. apply merge_comps_len in EM.
  assert (Hl : (1 <= length cs2)%nat) by (destruct (q_comps s); [congruence|simpl in EG; lia]).
  destruct (sum_nom cs2 <=? sum_num cs2).
  - unfold req_compress. destruct (compress_loop _ s [] cs2 _ _ b2) as [[[[cs' r'] m'] b']|] eqn:EC; [|discriminate].
    apply compress_loop_len in EC. intros E; injection E as <- _. cbn [q_comps with_comps]. destruct cs'; [simpl in EC; lia|discriminate].
  - intros E; injection E as <- _. cbn [q_comps with_comps]. destruct cs2; [simpl in Hl; lia|discriminate].
Qed.

Lemma req_copy_nonempty o s' bad : q_comps o <> [] -> req_copy o = (s', bad) -> q_comps s' <> [].
Proof.
  intros Hne. unfold req_copy. intros E; injection E as <- _. cbn [q_comps with_comps].
  destruct (q_comps o); [congruence|]. simpl. discriminate.
Qed.

Lemma new_req_nonempty k hra tab s bad : new_req k hra tab = (s, bad) -> q_comps s <> [].
Proof. unfold new_req. destruct (new_comp hra k) as [c e]. destruct (judgeq [] [] e). intros E; injection E as <- _. simpl. discriminate. Qed.
