(* Properties_C09_req.v — C09 for the REQ sketch over int64, double and float items (integer values): the image written by
   serialize (model ReqCodecDefs.enc, compared byte for byte with the code on every run) is decoded by both readers (model
   dec_core / dec) to the sketch it was written from, up to the coin_ of each compactor, which the readers redraw and the
   image does not store.  Statements only; proofs in ReqCodecInv.v and ReqCodecProofs.v.
   reach true s log: s is any state produced by updates, merges (any k, both accuracy modes) and queries under any coins
   (the repaired code: fixes 07_req_empty_iterator, 08_req_unset_coin).  [Fits]: every value fits its field
   (state < 2^64, lg_weight / num_sections / number of levels < 256, num_items < 2^32, n < 2^64, items within the item type).
   NOT modelled: string items and custom serdes; that the stream reader and the bytes reader are one function is the
   model's reading of the code (they are compared with each other and with the model on every run). *)
From Coq Require Import ZArith List Bool Lia.
From DS Require Import RunnerLib SortedView ReqDefs ReqProofs ReqCodecInv ReqCodecDefs ReqCodecProofs.
Import ListNotations.
Local Open Scope Z_scope.

(* dec (enc s ++ rest) = (s without its coins, rest) and one coin is drawn per compactor: empty, raw-items form (n <= 4),
   single level, estimation mode; both accuracy modes; whatever follows the image is left untouched *)
Theorem C09_req_image_roundtrip : forall kind s log rest, reach true s log -> Fits kind s ->
  dec_core kind (enc kind s ++ rest) = (Some (clear s, rest), length (comps s)).
Proof. exact reach_roundtrip. Qed.

(* with the coins the reader draws: every outcome is s with fresh coins and exactly the image is consumed; when the
   coins drawn are those of s itself the restored sketch IS s *)
Theorem C09_req_reader_outcomes : forall kind s log rest, reach true s log -> Fits kind s ->
  (forall r, leaf (dec kind (enc kind s ++ rest)) r ->
     exists cs, length cs = length (comps s) /\ r = Some (with_coins cs s, rest)) /\
  replay (dec kind (enc kind s ++ rest)) (map tok (coins_of s)) = Some (Some (s, rest), []).
Proof. exact dec_roundtrip. Qed.

(* the restored sketch is indistinguishable through the queries: n, retained count, k, mode, min, max, the iterator
   (items with weights), every rank, the sorted view *)
Theorem C09_req_restored_answers_alike : forall bs s,
  rn (with_coins bs s) = rn s /\ nret (with_coins bs s) = nret s /\ rk (with_coins bs s) = rk s /\ hra (with_coins bs s) = hra s /\
  rmin (with_coins bs s) = rmin s /\ rmax (with_coins bs s) = rmax s /\
  iterate (with_coins bs s) = iterate s /\
  (forall x incl, rank_w (with_coins bs s) x incl = rank_w s x incl) /\
  sorted_view (with_coins bs s) = sorted_view s.
Proof. exact with_coins_observations. Qed.

(* ... and re-serializes to the same image, byte for byte *)
Theorem C09_req_reserialize_identical : forall kind bs s, enc kind (with_coins bs s) = enc kind s.
Proof. exact enc_with_coins. Qed.

(* the image has the advertised size (get_serialized_size_bytes with the raw-items repair 0740b2e) *)
Theorem C09_req_image_size : forall kind s, nitems (c0 s) = rn s \/ 4 < rn s ->
  len (enc kind s) =
  8 + (if rn s =? 0 then 0 else
       (if est_mode s then 8 + 2 * Z.of_nat (isz kind) else 0) +
       (if rn s <=? 4 then Z.of_nat (isz kind) * rn s else comps_size kind (comps s))).
Proof. exact enc_size. Qed.

(* items: int64, binary64 and binary32 patterns of integers, little endian, and back *)
Theorem C09_req_item_roundtrip : forall kind v, item_ok kind v ->
  length (item_enc kind v) = isz kind /\ item_dec kind (item_enc kind v) = Some v.
Proof. exact item_roundtrip. Qed.

(* the facts about reachable sketches the format relies on (none of them is stored in the image):
   section_size_ = nearest_even(section_size_raw_) with a positive normal binary32, k even in 4..255 *)
Theorem C09_req_section_size_recomputable : forall s log, reach true s log ->
  Forall (fun c => f32_valid (ssr c) /\ ssz c = nearest_even (ssr c)) (comps s) /\ 4 <= rk s <= 255 /\ Z.even (rk s) = true.
Proof.
  intros s log R. destruct (reach_P _ _ _ R) as [W K E]. split; [|auto].
  eapply Forall_impl; [|exact W]. intros c H. inversion H; auto.
Qed.

(* a sketch written in the raw-items form (or any with fewer than 24 items) never compacted: one level, state 0,
   3 sections, section size k - exactly what the raw-items reader reconstructs *)
Theorem C09_req_small_sketch_pristine : forall s log, reach true s log -> rn s < 24 ->
  exists c, comps s = [c] /\ cstate c = 0 /\ nsec c = 3 /\ ssr c = f32_of_Z (rk s) /\ ssz c = rk s.
Proof. intros s log R H. destruct (reach_pristine _ _ _ R) as [P|G]; [exact P|lia]. Qed.

(* a single-level sketch stores neither n nor min/max: they are recomputed from the items, exactly *)
Theorem C09_req_single_level_exact : forall s log c, reach true s log -> comps s = [c] ->
  rn s = nitems c /\ (0 < rn s -> rmin s = lmin (items c) /\ rmax s = lmax (items c)).
Proof. intros s log c R. apply (single_level_exact s log c). now apply (reach_Rel true). Qed.

(* non-vacuity: a reachable HRA sketch with k = 4 after 30 updates is in estimation mode (2 levels); its 296-byte int64 image
   decodes to itself, every strict prefix is refused *)
Fixpoint feed (s : req) (xs : list Z) (cs : list Z) : option (req * list Z) :=
  match xs with
  | [] => Some (s, cs)
  | x :: r => match replay (update true s x) cs with Some (s', cs') => feed s' r cs' | None => None end
  end.
Definition demo : option req :=
  match replay (req_new true 4 true) (repeat 1 8) with
  | Some (s0, cs) => option_map fst (feed s0 (map Z.of_nat (seq 0 30)) cs)
  | None => None
  end.

Lemma feed_reach : forall xs s log cs s' cs', reach true s log -> feed s xs cs = Some (s', cs') -> reach true s' (log ++ xs).
Proof.
  induction xs as [|x r IH]; intros s log cs s' cs' R H; simpl in H.
  - inversion H; subst. now rewrite app_nil_r.
  - destruct (replay (update true s x) cs) as [[s1 cs1]|] eqn:E; [|discriminate].
    replace (log ++ x :: r) with ((log ++ [x]) ++ r) by (rewrite <- app_assoc; reflexivity).
    eapply IH; [|exact H]. eapply reach_update; [exact R|]. eapply replay_leaf; eauto.
Qed.

Example C09_req_nonvacuous : exists s, demo = Some s /\ reach true s (map Z.of_nat (seq 0 30)) /\
  length (comps s) = 2%nat /\ rn s = 30 /\ length (enc 0 s) = 296%nat /\
  dec_core 0 (enc 0 s) = (Some (clear s, []), 2%nat) /\
  forallb (fun n => match fst (dec_core 0 (firstn n (enc 0 s))) with None => true | Some _ => false end) (seq 0 296) = true.
Proof.
  unfold demo. destruct (replay (req_new true 4 true) (repeat 1 8)) as [[s0 cs]|] eqn:E0; [|vm_compute in E0; discriminate].
  destruct (feed s0 (map Z.of_nat (seq 0 30)) cs) as [[s cs']|] eqn:E1.
  2:{ exfalso. revert E1. vm_compute in E0. inversion E0; subst. vm_compute. discriminate. }
  exists s. split; [reflexivity|]. split.
  - apply (feed_reach _ s0 [] cs s cs'); [|exact E1]. eapply (reach_new true 4 true); [lia|]. eapply replay_leaf; eauto.
  - vm_compute in E0. inversion E0; subst. vm_compute in E1. inversion E1; subst. vm_compute. repeat split; reflexivity.
Qed.

Print Assumptions C09_req_image_roundtrip.
Print Assumptions C09_req_reader_outcomes.
Print Assumptions C09_req_restored_answers_alike.
Print Assumptions C09_req_reserialize_identical.
Print Assumptions C09_req_image_size.
Print Assumptions C09_req_item_roundtrip.
Print Assumptions C09_req_section_size_recomputable.
Print Assumptions C09_req_small_sketch_pristine.
Print Assumptions C09_req_single_level_exact.
