(* CountMinDefs.v — executable model of count/include/count_min_impl.hpp (no proofs here).
   The table is a list of rows; the location of an item in a row is given by an
   arbitrary function [loc]; the concrete instance uses the Murmur model with
   the per-row seeds reported by the implementation. *)
From Coq Require Import ZArith NArith List Bool.
From DS Require Import Word Murmur3 RunnerLib.
Import ListNotations.
Local Open Scope Z_scope.

Section Abstract.
  Variable Item : Type.
  Variable nh nb : nat.                       (* rows, buckets per row *)
  Variable loc : nat -> Item -> nat.           (* row -> item -> bucket *)

  Record cm := { cells : list (list Z); total : Z }.

  Definition cm_empty : cm :=
    {| cells := repeat (repeat 0 nb) nh; total := 0 |}.

  Fixpoint upd_rows (r : nat) (rows : list (list Z)) (x : Item) (w : Z) : list (list Z) :=
    match rows with
    | [] => []
    | row :: t => upd_nth (loc r x) (fun c => c + w) row :: upd_rows (S r) t x w
    end.

  Definition cm_update (s : cm) (xw : Item * Z) : cm :=
    let '(x, w) := xw in
    {| cells := upd_rows 0 (cells s) x w; total := total s + Z.abs w |}.

  Fixpoint row_vals (r : nat) (rows : list (list Z)) (x : Item) : list Z :=
    match rows with
    | [] => []
    | row :: t => nth (loc r x) row 0 :: row_vals (S r) t x
    end.

  Definition min_list (l : list Z) : Z :=
    match l with [] => 0 | a :: t => fold_left Z.min t a end.

  Definition cm_estimate (s : cm) (x : Item) : Z := min_list (row_vals 0 (cells s) x).

  Definition add_rows (a b : list (list Z)) : list (list Z) :=
    map (fun p => map (fun q => fst q + snd q) (combine (fst p) (snd p))) (combine a b).

  Definition cm_merge (a b : cm) : cm :=
    {| cells := add_rows (cells a) (cells b); total := total a + total b |}.

  Definition cm_run (ops : list (Item * Z)) : cm := fold_left cm_update ops cm_empty.
End Abstract.


(* ---- concrete instance and line protocol ---- *)
Local Open Scope N_scope.

Record cfg := { c_nh : N; c_nb : N; c_seed : N; c_seeds : list N }.

Definition cm_loc (c : cfg) (r : nat) (item : list N) : nat :=
  N.to_nat ((fst (murmur3_x64_128 item (nth r (c_seeds c) 0))) mod (c_nb c)).

Definition sk : Type := cfg * cm.

(* constructor check, as coded: uint32 * int arithmetic wraps mod 2^32 *)
Definition ctor_ok (nh nb : N) : bool :=
  negb (nb <? 3) && (w32 (nb * nh) <? 1073741824).

Definition cfg_eqb (a b : cfg) : bool :=
  (c_nh a =? c_nh b) && (c_nb a =? c_nb b) && (c_seed a =? c_seed b).

Local Open Scope Z_scope.

Definition item_bytes (kind : Z) (args : list Z) : list N :=
  match kind with
  | 2 => map zN args                             (* string: raw bytes *)
  | _ => match args with
         | v :: _ => N_to_le_bytes 8 (z_to_u64 v)  (* uint64_t / int64_t: 8 bytes LE *)
         | [] => []
         end
  end.

Definition st := list (Z * sk).

Definition flat (rows : list (list Z)) : list Z := concat rows.

(* true weight of an item in a log of updates (L0 ghost state kept beside each register) *)
Definition item_eqb (a b : list N) : bool :=
  (length a =? length b)%nat && forallb (fun p => N.eqb (fst p) (snd p)) (combine a b).

Definition true_weight (log : list (list N * Z)) (x : list N) : Z :=
  fold_left (fun acc p => if item_eqb (fst p) x then acc + snd p else acc) log 0.

Record full := { f_sk : sk; f_log : list (list N * Z) }.

Definition step (s : list (Z * full)) (o e : line) : list (Z * full) * outline :=
  match o with
  | 1 :: r :: nh :: nb :: seed :: _ =>            (* new sketch; env = row seeds *)
      if ctor_ok (zN nh) (zN nb) then
        let c := {| c_nh := zN nh; c_nb := zN nb; c_seed := zN seed; c_seeds := map zN e |} in
        (reg_set s r {| f_sk := (c, cm_empty (zn nh) (zn nb)); f_log := [] |}, (ok, []))
      else (s, (refused, []))
  | 2 :: r :: w :: kind :: args =>                (* update item with weight w *)
      match reg_get s r with
      | Some f =>
          let b := item_bytes kind args in
          match b with
          | [] => (s, (ok, []))                   (* empty string ignored *)
          | _ =>
            let '(c, m) := f_sk f in
            let m' := cm_update _ (cm_loc c) m (b, w) in
            (reg_set s r {| f_sk := (c, m'); f_log := f_log f ++ [(b, w)] |}, (ok, []))
          end
      | None => (s, (refused, []))
      end
  | 3 :: r :: kind :: args =>                     (* query: estimate, lower bound, total *)
      match reg_get s r with
      | Some f =>
          let b := item_bytes kind args in
          let '(c, m) := f_sk f in
          match b with
          | [] => (s, ([0; 0; total m], [0; total m]))
          | _ =>
            let est := cm_estimate _ (cm_loc c) m b in
            (s, ([est; est; total m], [true_weight (f_log f) b; total m]))
          end
      | None => (s, (refused, []))
      end
  | 4 :: r :: r2 :: _ =>                          (* merge r2 into r *)
      match reg_get s r, reg_get s r2 with
      | Some f, Some g =>
          if Z.eqb r r2 then (s, (refused, [])) else
          let '(c, m) := f_sk f in let '(c2, m2) := f_sk g in
          if cfg_eqb c c2 then
            (reg_set s r {| f_sk := (c, cm_merge m m2); f_log := f_log f ++ f_log g |}, (ok, []))
          else (s, (refused, []))
      | _, _ => (s, (refused, []))
      end
  | 5 :: r :: _ =>                                (* dump: total then all cells row-major *)
      match reg_get s r with
      | Some f => let '(c, m) := f_sk f in (s, (total m :: flat (cells m), []))
      | None => (s, (refused, []))
      end
  | 6 :: r :: r2 :: _ =>                          (* r2 := deserialize (serialize r) (either path): same configuration, seeds, cells *)
      match reg_get s r with
      | Some f => let '(c, m) := f_sk f in
                  (reg_set s r2 f, (1 :: Z.of_N (c_seed c) :: map Z.of_N (c_seeds c), []))
      | None => (s, (refused, []))
      end
  | _ => (s, ([-2], []))
  end.

Definition run (ops : list opline) : list outline := run_case step [] ops.
