(* ThetaWrapDefs.v — executable model of wrapped_compact_theta_sketch (theta_sketch.hpp / theta_sketch_impl.hpp):
   wrap() = compact_theta_sketch_parser::parse over caller memory (a view: flags, seed hash, theta, entry count,
   where the entries start, entry width) and the lazy const_iterator AS CODED: state {ptr_, index_, previous_,
   is_block_mode_, offset_, buffer_[8]}; constructor, operator++, operator*, operator!=, unpack8 (one block of 8 deltas
   through unpack_bits_block8, ptr_ += entry_bits, deltas accumulated into buffer_), unpack1 (one delta through the
   generic unpack_bits at (ptr_, offset_)), the switch from block mode to the bit-by-bit tail when fewer than 8 entries
   remain; for 64-bit entries (serial versions 1-3) the iterator is a plain uint64 pointer.
   The meaning of a block is BitPackSpec.unpack_vals b 8 (the TRANSLATED routine) and the meaning of one unpack_bits
   call is the hand-unrolled program BitPackSpec.unroll_unpack1 — the same two definitions the eager decoder
   ThetaCodecDefs.unpack_all is built from.  Every memory read goes through an option: reading outside the image is a
   failure of the model ([None]).  No proofs here. *)
From Coq Require Import NArith ZArith List Bool Arith.
From DS Require Import Word Murmur3 RunnerLib BitPackLang BitPackSpec ThetaCodecDefs.
Import ListNotations.
Local Open Scope N_scope.

(* compact_theta_sketch_parser::compact_theta_sketch_data *)
Record view := mk_view {
  v_empty : bool; v_ordered : bool; v_seed_hash : N; v_num : N; v_theta : N;
  v_start : nat;             (* entries_start_ptr as an offset into the image *)
  v_bits : N                 (* entry_bits: 64 = uncompressed *)
}.

(* parse(ptr, size, seed): [expected] = compute_seed_hash(seed); None = throws *)
Definition parse (expected : N) (bytes : list N) : option view :=
  let size := length bytes in
  if (size <? 8)%nat then None else
  do pre <- rd 1 0 bytes; do ver <- rd 1 1 bytes; do typ <- rd 1 2 bytes;
  if negb (typ =? 3) then None else
  if ver =? 4 then
    do sh <- rd 2 6 bytes;
    if negb (sh =? expected) then None else
    let has_theta := 1 <? pre in
    do theta <- (if has_theta then rd 8 8 bytes else Some MAX_THETA);
    do neb <- rd 1 4 bytes;
    if 4 <? neb then None else
    let off := if has_theta then 16%nat else 8%nat in
    do n <- rd (N.to_nat neb) off bytes;
    let n := w32 n in
    do b <- rd 1 3 bytes;
    if bad_width b then None else
    let doff := (off + N.to_nat neb)%nat in
    if N.of_nat size <? N.of_nat doff + whole_bytes (b * n) then None else
    Some (mk_view false true sh n theta doff b)
  else if ver =? 3 then
    do sh <- rd 2 6 bytes; do fl <- rd 1 5 bytes;
    if N.testbit fl 2 then Some (mk_view true true sh 0 MAX_THETA 0 64) else
    if negb (sh =? expected) then None else
    let has_theta := 2 <? pre in
    do theta <- (if has_theta then rd 8 16 bytes else Some MAX_THETA);
    if pre =? 1 then
      if (size <? 16)%nat then None else Some (mk_view false true sh 1 theta 8 64)
    else
      let start := if has_theta then 24%nat else 16%nat in
      if (size <? start)%nat then None else
      do n <- rd 4 8 bytes;
      if N.of_nat size <? N.of_nat start + 8 * n then None else
      Some (mk_view false (N.testbit fl 4) sh n theta start 64)
  else if ver =? 1 then
    if (size <? 24)%nat then None else
    do n <- rd 4 8 bytes; do theta <- rd 8 16 bytes;
    if (n =? 0) && (theta =? MAX_THETA) then Some (mk_view true true expected 0 theta 0 64) else
    if N.of_nat size <? 24 + 8 * n then None else
    Some (mk_view false true expected n theta 24 64)
  else if ver =? 2 then
    do sh <- rd 2 6 bytes;
    if negb (sh =? expected) then None else
    if pre =? 1 then Some (mk_view true true sh 0 MAX_THETA 0 64)
    else if pre =? 2 then
      if (size <? 16)%nat then None else
      do n <- rd 4 8 bytes;
      if n =? 0 then Some (mk_view true true sh 0 MAX_THETA 0 64) else
      if N.of_nat size <? 16 + 8 * n then None else
      Some (mk_view false true sh n MAX_THETA 16 64)
    else if pre =? 3 then
      if (size <? 24)%nat then None else
      do n <- rd 4 8 bytes; do theta <- rd 8 16 bytes;
      if (n =? 0) && (theta =? MAX_THETA) then Some (mk_view true true sh 0 theta 0 64) else
      if N.of_nat size <? 24 + 8 * n then None else
      Some (mk_view false true sh n theta 24 64)
    else None
  else None.

(* ---- the const_iterator ---- *)
Record iter := mk_iter {
  it_ptr : nat;              (* ptr_ as an offset into the image *)
  it_index : N;              (* index_ *)
  it_prev : N;               (* previous_ *)
  it_block : bool;           (* is_block_mode_ *)
  it_off : nat;              (* offset_ : bit offset inside *ptr_ *)
  it_buf : list N            (* buffer_[8] *)
}.

Fixpoint set_buf (l : list N) (i : nat) (v : N) : list N :=
  match l, i with
  | [], _ => []
  | _ :: t, O => v :: t
  | x :: t, S i' => x :: set_buf t i' v
  end.

Definition slot (it : iter) : nat := N.to_nat (it_index it mod 8).      (* index_ & 7 *)

(* unpack8: unpack_bits_block8(buffer_, ptr_, entry_bits_); ptr_ += entry_bits_; buffer_[i] += previous_ ... *)
Definition unpack8 (b : nat) (bytes : list N) (it : iter) : option iter :=
  if (length bytes <? it_ptr it + b)%nat then None else
  match unpack_vals b 8 (firstn b (skipn (it_ptr it) bytes)) with
  | Some ds =>
      let buf := undeltas (it_prev it) ds in
      Some (mk_iter (it_ptr it + b) (it_index it) (last buf (it_prev it)) (it_block it) (it_off it) buf)
  | None => None
  end.

(* unpack1: offset_ = unpack_bits(buffer_[i], entry_bits_, ptr_, offset_); buffer_[i] += previous_; previous_ = buffer_[i] *)
Definition unpack1 (b : nat) (bytes : list N) (it : iter) : option iter :=
  let i := slot it in
  let '(prog, j', o') := unroll_unpack1 i b (it_ptr it) (it_off it) in
  match exec (repeat None 8, map Some bytes) prog with
  | Some st =>
      match get (fst st) i with
      | Some d =>
          let e := add64 d (it_prev it) in
          Some (mk_iter j' (it_index it) e (it_block it) o' (set_buf (it_buf it) i e))
      | None => None
      end
  | None => None
  end.

Definition compressed (v : view) : bool := negb (v_bits v =? 64).
Definition vb (v : view) : nat := N.to_nat (v_bits v).

(* const_iterator(ptr, entry_bits, num_entries, index = 0): begin() *)
Definition it_begin (v : view) (bytes : list N) : option iter :=
  let it0 := mk_iter (v_start v) 0 0 (8 <=? v_num v) 0 (repeat 0 8) in
  if negb (compressed v) then Some it0
  else if 0 <? v_num v then
    (if it_block it0 then unpack8 (vb v) bytes it0 else unpack1 (vb v) bytes it0)
  else Some it0.

(* operator++ *)
Definition it_next (v : view) (bytes : list N) (it : iter) : option iter :=
  if negb (compressed v) then
    Some (mk_iter (it_ptr it + 8) (it_index it) (it_prev it) (it_block it) (it_off it) (it_buf it))
  else
    let it1 := mk_iter (it_ptr it) (w32 (it_index it + 1)) (it_prev it) (it_block it) (it_off it) (it_buf it) in
    if it_index it1 <? v_num v then
      if it_block it1 then
        if it_index it1 mod 8 =? 0 then
          if 8 <=? v_num v - it_index it1 then unpack8 (vb v) bytes it1
          else unpack1 (vb v) bytes
                 (mk_iter (it_ptr it1) (it_index it1) (it_prev it1) false (it_off it1) (it_buf it1))
        else Some it1
      else unpack1 (vb v) bytes it1
    else Some it1.

(* operator* *)
Definition it_deref (v : view) (bytes : list N) (it : iter) : option N :=
  if negb (compressed v) then rd 8 (it_ptr it) bytes else Some (nth (slot it) (it_buf it) 0).

(* operator== against end() = const_iterator(ptr, entry_bits, num_entries, num_entries) *)
Definition it_at_end (v : view) (it : iter) : bool :=
  if negb (compressed v) then (it_ptr it =? v_start v + 8 * N.to_nat (v_num v))%nat
  else it_index it =? v_num v.

(* for (auto e : wrapped) ... *)
Fixpoint iter_loop (fuel : nat) (v : view) (bytes : list N) (it : iter) : option (list N) :=
  match fuel with
  | O => None
  | S f =>
      if it_at_end v it then Some []
      else
        match it_deref v bytes it with
        | None => None
        | Some e =>
            match it_next v bytes it with
            | None => None
            | Some it' =>
                match iter_loop f v bytes it' with
                | Some r => Some (e :: r)
                | None => None
                end
            end
        end
  end.

Definition iterate (v : view) (bytes : list N) : option (list N) :=
  match it_begin v bytes with
  | Some it => iter_loop (S (N.to_nat (v_num v))) v bytes it
  | None => None
  end.

(* the view as a compact sketch value: what the getters and the iteration report *)
Definition view_sketch (v : view) (ents : list N) : csk :=
  {| k_empty := v_empty v; k_ordered := v_ordered v; k_seed_hash := v_seed_hash v; k_theta := v_theta v; k_entries := ents |}.

Definition wrap_all (expected : N) (bytes : list N) : option csk :=
  match parse expected bytes with
  | Some v => match iterate v bytes with Some ents => Some (view_sketch v ents) | None => None end
  | None => None
  end.

(* ---- line protocol ----
   op 50 compressed seed byte*   : compact_theta_sketch::deserialize(the given v3 image), then serialize() (compressed = 0)
                                   or serialize_compressed(), wrap that image with [seed]: R = [1; empty; ordered; seed_hash;
                                   theta; num_retained; entries in iteration order...] or [-1]
   op 51 seed byte*              : wrap the given image: same R
   S (both) = what the eager decoder ThetaCodecDefs.dec_bytes returns for the same image ([1; show...] or [0]) *)
Local Open Scope Z_scope.

Definition show_view (s : csk) : list Z :=
  [1; bz (k_empty s); bz (k_ordered s); Nz (k_seed_hash s); Nz (k_theta s); Z.of_nat (length (k_entries s))]
  ++ map Nz (k_entries s).

Definition eager_line (expected : N) (bytes : list N) : list Z :=
  match dec_bytes expected bytes with Some s => 1 :: show s | None => [0] end.

Definition wrap_lines (expected : N) (bytes : list N) : outline :=
  match wrap_all expected bytes with
  | Some s => (show_view s, eager_line expected bytes)
  | None => (refused, eager_line expected bytes)
  end.

Definition step (st : unit) (o e : line) : unit * outline :=
  match o with
  | 50 :: comp :: seed :: bytes =>
      let expected := compute_seed_hash (z_to_u64 seed) in
      match dec_bytes expected (map zN bytes) with
      | Some s =>
          match (if comp =? 0 then Some (enc_v3 s) else serialize_compressed s) with
          | Some img => (st, wrap_lines expected img)
          | None => (st, (refused, []))
          end
      | None => (st, (refused, []))
      end
  | 51 :: seed :: bytes => (st, wrap_lines (compute_seed_hash (z_to_u64 seed)) (map zN bytes))
  | _ => (st, ([-2], []))
  end.

Definition run (ops : list opline) : list outline := run_case step tt ops.
