(* Properties_C18.v — EBPPS: sample size and bookkeeping are exact.
   Only statements, closed by [exact]; proofs live in Ebpps{Proofs,SketchProofs,HistProofs,EqualProofs,Main}.v.

   All theorems are about the exact-arithmetic (Q) instance of the executable model coq/EbppsDefs.v (the same Gallina text
   whose binary64 instance is extracted and replayed bit for bit against ebpps_sketch<int64_t>), and hold
     - for EVERY history [h]: any tree of  HNew k | HUpd h item weight | HMerge h1 h2  (h_wf: every k >= 1; weights are
       arbitrary rationals: negative ones are refused, zero ones ignored, exactly as the code does),
     - for EVERY stream [s] of random choices (unit draws in the open interval (0,1) -- [cs_ok] -- and arbitrary indices),
       threaded through all operations of the history.
   L0 facts of a history: h_n (accepted updates), h_W (their total weight), h_wmax (their maximum weight), h_items,
   h_k (get_k as coded: an empty operand's k is ignored by merge), h_kk (the k that governs the sample size: equal to h_k
   after any accepted update and after any merge of two non-empty sketches -- C18_kk_*; see Regression_ebpps.v for the
   registered finding where they differ). *)
From Coq Require Import ZArith List Bool QArith Qround Lia Lqa.
From DS Require Import RunnerLib EbppsDefs EbppsProofs EbppsSketchProofs EbppsHistProofs EbppsEqualProofs EbppsMain
                       EbppsSerdeProofs EbppsEqualMerge.
Import ListNotations.
Local Open Scope Q_scope.

Section AnyItems.
  Variable Item : Type.
  Notation run h s := (fst (eval Item h s)).
  Notation rest h s := (snd (eval Item h s)).

  (* n is exact *)
  Theorem C18_n_exact : forall h s, h_wf Item h -> cs_ok s -> sk_n (run h s) = h_n Item h.
  Proof. exact (main_n Item). Qed.

  (* the cumulative weight is exact *)
  Theorem C18_cum_weight_exact : forall h s, h_wf Item h -> cs_ok s -> sk_cw (run h s) == h_W Item h.
  Proof. exact (main_W Item). Qed.

  (* the maximum weight is exact (with fixes/18_ebpps_merge_wt_max.patch; refuted for the old code in Regression_ebpps.v) *)
  Theorem C18_max_weight_exact : forall h s, h_wf Item h -> cs_ok s -> sk_wmax (run h s) == h_wmax Item h.
  Proof. exact (main_wmax Item). Qed.

  Theorem C18_k : forall h s, h_wf Item h -> cs_ok s -> sk_k (run h s) = h_k Item h.
  Proof. exact (main_k Item). Qed.

  (* c = rho * W *)
  Theorem C18_c_is_rho_W : forall h s, h_wf Item h -> cs_ok s ->
    let sk := run h s in sc (sk_smp sk) == sk_rho sk * sk_cw sk.
  Proof. exact (main_c_rho Item). Qed.

  (* c = min(k, W / w_max) *)
  Theorem C18_c_closed_form : forall h s, h_wf Item h -> cs_ok s -> 0 < h_W Item h ->
    sc (sk_smp (run h s)) == qminb (inject_Z (h_kk Item h)) (h_W Item h / h_wmax Item h).
  Proof. exact (main_c Item). Qed.

  Theorem C18_kk_after_update : forall (h : hist Item) it w, accepted w = true ->
    h_kk Item (HUpd Item h it w) = h_k Item (HUpd Item h it w).
  Proof. exact (kk_after_update Item). Qed.

  Theorem C18_kk_after_merge : forall h1 h2 : hist Item, 0 < h_W Item h1 -> 0 < h_W Item h2 ->
    h_kk Item (HMerge Item h1 h2) = h_k Item (HMerge Item h1 h2) /\
    h_k Item (HMerge Item h1 h2) = Z.min (h_k Item h1) (h_k Item h2).
  Proof. exact (kk_after_merge Item). Qed.

  (* a plain weighted stream into a fresh sketch: c = min(k, W / w_max) after every prefix *)
  Theorem C18_stream_c_closed_form : forall k ups s, (1 <= k)%Z -> cs_ok s -> 0 < h_W Item (hist_of Item k ups) ->
    sc (sk_smp (fst (run_updates QOps Item (sketch_empty QOps Item k) ups s))) ==
    qminb (inject_Z k) (h_W Item (hist_of Item k ups) / h_wmax Item (hist_of Item k ups)).
  Proof. exact (main_stream_c Item). Qed.

  (* floor(c) full items; a partial item iff c is not an integer *)
  Theorem C18_shape : forall h s, h_wf Item h -> cs_ok s ->
    let sm := sk_smp (run h s) in
    length (sdata sm) = Z.to_nat (Qfloor (sc sm)) /\ (spart sm = None <-> sc sm == inject_Z (Qfloor (sc sm))).
  Proof. exact (main_shape Item). Qed.

  (* everything held comes from the input *)
  Theorem C18_items_from_input : forall h s, h_wf Item h -> cs_ok s ->
    let sm := sk_smp (run h s) in
    Forall (fun x => In x (h_items Item h)) (sdata sm) /\ (forall p, spart sm = Some p -> In p (h_items Item h)).
  Proof. exact (main_stored_from_input Item). Qed.

  (* every returned sample has floor(c) or ceil(c) items, all taken from the input (whatever the draw) *)
  Theorem C18_result : forall h s, h_wf Item h -> cs_ok s ->
    let sk := run h s in
    let res := fst (get_result QOps Item (sk_smp sk) (rest h s)) in
    floor_or_ceil (sc (sk_smp sk)) (length res) /\ Forall (fun x => In x (h_items Item h)) res.
  Proof. exact (main_result Item). Qed.

  Theorem C18_result_is_full_items_plus_maybe_partial : forall h s, h_wf Item h -> cs_ok s ->
    let sm := sk_smp (run h s) in
    let res := fst (get_result QOps Item sm (rest h s)) in
    res = sdata sm \/ exists p, spart sm = Some p /\ res = sdata sm ++ [p].
  Proof. exact (main_result_exact Item). Qed.

  (* the same for begin()/end() iteration *)
  Theorem C18_iteration : forall h s, h_wf Item h -> cs_ok s ->
    let sk := run h s in
    let res := fst (iterate QOps Item (sk_smp sk) (rest h s)) in
    floor_or_ceil (sc (sk_smp sk)) (length res) /\ Forall (fun x => In x (h_items Item h)) res.
  Proof. exact (main_iterate Item). Qed.

  (* equal weights and n <= k: every item is kept as a full item (in order), c = n, nothing random happens,
     and get_result returns exactly the input for every draw *)
  Theorem C18_equal_weights_keep_all : forall k w0 ups (s : cs QOps),
    (1 <= k)%Z -> 0 < w0 ->
    Forall (fun u => accepted (snd u) = true -> snd u == w0) ups ->
    (Z.of_nat (length (acc_items Item ups)) <= k)%Z ->
    exists sk, run_updates QOps Item (sketch_empty QOps Item k) ups s = (sk, s) /\
      sdata (sk_smp sk) = acc_items Item ups /\ spart (sk_smp sk) = None /\
      sc (sk_smp sk) == inject_Z (Z.of_nat (length (acc_items Item ups))) /\
      sk_n sk = Z.of_nat (length (acc_items Item ups)) /\
      forall s1, fst (get_result QOps Item (sk_smp sk) s1) = acc_items Item ups.
  Proof. exact (equal_weights_keep_all Item). Qed.

  (* merge: n and W add; k is the smaller one unless the argument is empty (then *this is unchanged);
     the merged sample has c = min(min k, (W1 + W2) / max w_max) when both sides are non-empty *)
  Theorem C18_merge : forall h1 h2 s, h_wf Item h1 -> h_wf Item h2 -> cs_ok s ->
    let a := run h1 s in
    let b := fst (eval Item h2 (rest h1 s)) in
    let r := run (HMerge Item h1 h2) s in
    sk_n r = (sk_n a + sk_n b)%Z /\ sk_cw r == sk_cw a + sk_cw b /\
    (0 < sk_cw b -> sk_k r = Z.min (sk_k a) (sk_k b)) /\
    (sk_cw b == 0 -> r = a) /\
    (0 < sk_cw a -> 0 < sk_cw b ->
       sc (sk_smp r) == qminb (inject_Z (Z.min (sk_k a) (sk_k b))) ((sk_cw a + sk_cw b) / qmaxb (sk_wmax a) (sk_wmax b))).
  Proof. exact (main_merge Item). Qed.

  (* serialize then deserialize gives back the same sample (floor(c) items + partial iff frac(c) > 0 is what the reader expects) *)
  Theorem C18_roundtrip : forall h s, h_wf Item h -> cs_ok s ->
    let sm := sk_smp (run h s) in reread QOps Item sm = Some sm.
  Proof. exact (main_roundtrip Item). Qed.

  (* ... and so does the whole sketch (empty sketches are written as k only): what step 7 of the protocol model runs *)
  Theorem C18_sketch_roundtrip : forall h s, h_wf Item h -> cs_ok s ->
    sk_reread QOps Item (run h s) = Some (run h s).
  Proof. exact (sketch_roundtrip Item). Qed.
  (* a non-empty sketch has 1 <= c <= k, and no returned sample is larger than k *)
  Theorem C18_c_bounds : forall h s, h_wf Item h -> cs_ok s -> 0 < h_W Item h ->
    1 <= sc (sk_smp (run h s)) /\ sc (sk_smp (run h s)) <= inject_Z (h_kk Item h).
  Proof. exact (main_c_bounds Item). Qed.

  Theorem C18_result_at_most_k : forall h s, h_wf Item h -> cs_ok s -> 0 < h_W Item h ->
    let sk := run h s in
    (length (fst (get_result QOps Item (sk_smp sk) (rest h s))) <= Z.to_nat (h_kk Item h))%nat.
  Proof. exact (main_result_le_k Item). Qed.

  (* equal weights across a merge: two streams with n1 + n2 <= min(k1, k2) -- every item of both is kept, c = n1 + n2,
     and neither the updates nor the merge consume a random draw *)
  Theorem C18_equal_weights_merge_keeps_all : forall k1 k2 w0 ups1 ups2 (s : cs QOps),
    (1 <= k1)%Z -> (1 <= k2)%Z -> 0 < w0 ->
    Forall (fun u => accepted (snd u) = true -> snd u == w0) ups1 ->
    Forall (fun u => accepted (snd u) = true -> snd u == w0) ups2 ->
    (Z.of_nat (length (acc_items Item ups1) + length (acc_items Item ups2)) <= Z.min k1 k2)%Z ->
    exists a b r,
      run_updates QOps Item (sketch_empty QOps Item k1) ups1 s = (a, s) /\
      run_updates QOps Item (sketch_empty QOps Item k2) ups2 s = (b, s) /\
      merge QOps Item a b s = (r, s) /\
      spart (sk_smp r) = None /\
      sc (sk_smp r) == inject_Z (Z.of_nat (length (acc_items Item ups1) + length (acc_items Item ups2))) /\
      sk_n r = Z.of_nat (length (acc_items Item ups1) + length (acc_items Item ups2)) /\
      (sdata (sk_smp r) = acc_items Item ups1 ++ acc_items Item ups2 \/
       sdata (sk_smp r) = acc_items Item ups2 ++ acc_items Item ups1).
  Proof. exact (equal_weights_merge_keeps_all Item). Qed.
End AnyItems.

(* ---- non-vacuity: a concrete history with updates, a refused and an ignored weight, and a merge ---- *)
Definition ex_draws : list (Q * nat) :=
  [(1#2, 0%nat); (1#3, 1%nat); (2#3, 0%nat); (1#5, 2%nat); (4#5, 1%nat); (1#7, 0%nat); (3#7, 3%nat); (5#7, 1%nat)].
Definition ex_cs : cs QOps := Build_cs QOps ex_draws false false false 0.
Definition ex_h : hist Z :=
  HMerge Z (HUpd Z (HUpd Z (HUpd Z (HUpd Z (HNew Z 3) 1%Z 2) 2%Z 3) 9%Z (-1)) 8%Z 0)
           (HUpd Z (HNew Z 5) 7%Z (1#2)).

Lemma ex_cs_ok : cs_ok ex_cs.
Proof. apply cs_ok_init. unfold ex_draws. repeat (constructor; [split; reflexivity|]). constructor. Qed.

Example C18_nonvacuous :
  h_wf Z ex_h /\ cs_ok ex_cs /\ 0 < h_W Z ex_h /\
  h_n Z ex_h = 3%Z /\ Qeq_bool (h_W Z ex_h) (11#2) = true /\ h_k Z ex_h = 3%Z /\ h_kk Z ex_h = 3%Z /\
  let sk := fst (eval Z ex_h ex_cs) in
  sk_n sk = 3%Z /\ Qeq_bool (sk_cw sk) (11#2) = true /\ Qeq_bool (sc (sk_smp sk)) (11#6) = true /\
  length (sdata (sk_smp sk)) = 1%nat /\ (exists p, spart (sk_smp sk) = Some p).
Proof.
  split; [cbn; lia|]. split; [exact ex_cs_ok|]. split; [vm_compute; reflexivity|].
  vm_compute. repeat split. eexists; reflexivity.
Qed.

Example C18_nonvacuous_equal :
  exists sk, run_updates QOps Z (sketch_empty QOps Z 4) [(5%Z, 7#3); (6%Z, 0); (7%Z, 7#3); (8%Z, 14#6)] ex_cs = (sk, ex_cs) /\
             sdata (sk_smp sk) = [5%Z; 7%Z; 8%Z].
Proof.
  destruct (C18_equal_weights_keep_all Z 4 (7#3) [(5%Z, 7#3); (6%Z, 0); (7%Z, 7#3); (8%Z, 14#6)] ex_cs) as (sk & E & D & _).
  - lia.
  - reflexivity.
  - repeat (apply Forall_cons; [cbn [snd]; first [intros _; reflexivity | intro H; vm_compute in H; discriminate H]|]).
    apply Forall_nil.
  - cbn. lia.
  - exists sk. split; [exact E|exact D].
Qed.

Print Assumptions C18_n_exact.
Print Assumptions C18_cum_weight_exact.
Print Assumptions C18_max_weight_exact.
Print Assumptions C18_k.
Print Assumptions C18_c_is_rho_W.
Print Assumptions C18_c_closed_form.
Print Assumptions C18_kk_after_update.
Print Assumptions C18_kk_after_merge.
Print Assumptions C18_stream_c_closed_form.
Print Assumptions C18_shape.
Print Assumptions C18_items_from_input.
Print Assumptions C18_result.
Print Assumptions C18_result_is_full_items_plus_maybe_partial.
Print Assumptions C18_iteration.
Print Assumptions C18_equal_weights_keep_all.
Print Assumptions C18_merge.
Print Assumptions C18_roundtrip.
Print Assumptions C18_sketch_roundtrip.
Print Assumptions C18_c_bounds.
Print Assumptions C18_result_at_most_k.
Print Assumptions C18_equal_weights_merge_keeps_all.
