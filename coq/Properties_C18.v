(* Properties_C18.v — EBPPS (work in progress: being filled in) *)
From Coq Require Import ZArith List Bool QArith Qround.
From DS Require Import RunnerLib EbppsDefs EbppsProofs.
Import ListNotations.

Theorem C18_min_is_min : forall a b, is_min (nmin QOps a b) a b.
Proof. exact nmin_is_min. Qed.

Print Assumptions C18_min_is_min.
