(* CpcRun.v — protocol runner of the cpc family: the operations of CpcDefs.step plus operations that tie the
   compressor model (CpcCodecDefs.v, translated tables) to the code: the compressed image of a sketch
   (cpc_compressor::compress per flavor, cpc_compressor_impl.hpp lines 144-331) and the low-level codecs. No proofs. *)
From Coq Require Import ZArith NArith List Bool.
From DS.gen Require Import CpcTablesGen.
From DS Require Import Word Murmur3 RunnerLib CpcDefs CpcCodecTables CpcCodecDefs.
Import ListNotations.
Local Open Scope N_scope.

(* tricky_get_pairs_from_window: the pairs of the window bits (HYBRID flavor, offset 0) *)
Fixpoint window_pairs (win : list N) (row : N) : list N :=
  match win with
  | [] => []
  | b :: r =>
    map (fun c => N.lor (N.shiftl row 6) c) (filter (fun c => N.testbit b c) [0;1;2;3;4;5;6;7]) ++ window_pairs r (row + 1)
  end.

Record cstate := { c_num_entries : N; c_table : list N; c_window : list N }.

Definition compress_sketch (s : sketch) : option cstate :=
  let fl := determine_flavor (lgk s) (ncoup s) in
  let items := t_items (table s) in
  if fl =? FL_EMPTY then Some {| c_num_entries := 0; c_table := []; c_window := [] |}
  else if fl =? FL_SPARSE then
    match window s with _ :: _ => None | [] =>
    let pairs := sortN items in
    do w <- compress_surprising_values pairs (lgk s);
    Some {| c_num_entries := N.of_nat (length pairs); c_table := w; c_window := [] |} end
  else if fl =? FL_HYBRID then
    match window s with [] => None | _ =>
    if negb (woff s =? 0) then None else
    let pairs := sortN (items ++ window_pairs (window s) 0) in
    if negb (N.of_nat (length pairs) =? ncoup s) then None else
    do w <- compress_surprising_values pairs (lgk s);
    Some {| c_num_entries := N.of_nat (length pairs); c_table := w; c_window := [] |} end
  else if fl =? FL_PINNED then
    let ww := compress_sliding_window (window s) (lgk s) (ncoup s) in
    match items with
    | [] => Some {| c_num_entries := 0; c_table := []; c_window := ww |}
    | _ =>
      if existsb (fun p => N.land p 63 <? 8) items then None else
      let pairs := sortN (map (fun p => p - 8) items) in
      do w <- compress_surprising_values pairs (lgk s);
      Some {| c_num_entries := N.of_nat (length pairs); c_table := w; c_window := ww |}
    end
  else
    let ww := compress_sliding_window (window s) (lgk s) (ncoup s) in
    match items with
    | [] => Some {| c_num_entries := 0; c_table := []; c_window := ww |}
    | _ =>
      let phase := determine_pseudo_phase (lgk s) (ncoup s) in
      if 16 <=? phase then None else
      if 56 <? woff s then None else
      let perm := nth (N.to_nat phase) column_permutations_for_encoding [] in
      let tr := fun p => let row := N.shiftr p 6 in
                         let col := N.land (N.land p 63 + 56 - woff s) 63 in
                         N.lor (N.shiftl row 6) (nth (N.to_nat col) perm 0) in
      if existsb (fun p => 56 <=? N.land (N.land p 63 + 56 - woff s) 63) items then None else
      let pairs := sortN (map tr items) in
      do w <- compress_surprising_values pairs (lgk s);
      Some {| c_num_entries := N.of_nat (length pairs); c_table := w; c_window := ww |}
    end.

Local Open Scope Z_scope.

Definition step (st : list (Z * obj)) (o e : line) : list (Z * obj) * outline :=
  match o with
  | 30 :: r :: _ =>                                        (* compressed image of sketch r *)
      match reg_get st r with
      | Some (OSk s log) =>
          match compress_sketch s with
          | Some c => (st, ([Nz (c_num_entries c); nz (length (c_table c))] ++ NL (c_table c) ++
                            [nz (length (c_window c))] ++ NL (c_window c), []))
          | None => (st, (refused, []))
          end
      | _ => (st, (refused, []))
      end
  | 31 :: ti :: bytes =>                                   (* low_level_compress_bytes with table ti, and back *)
      let bs := map zN bytes in
      let w := compress_bytes (nth (zn ti) encoding_tables_for_high_entropy_byte []) bs in
      match uncompress_bytes (nth (zn ti) byte_decoding_tables []) (N.of_nat (length bs)) w with
      | Some bs' => (st, (nz (length w) :: NL w ++ NL bs', []))
      | None => (st, (refused, []))
      end
  | 32 :: nbb :: pairs =>                                  (* low_level_compress_pairs, and back *)
      match compress_pairs (map zN pairs) (zN nbb) with
      | Some w =>
        match uncompress_pairs (N.of_nat (length pairs)) (zN nbb) w with
        | Some ps => (st, (nz (length w) :: NL w ++ NL ps, []))
        | None => (st, (refused, []))
        end
      | None => (st, (refused, []))
      end
  | 33 :: l :: c :: _ =>                                   (* determine_pseudo_phase *)
      match determine_pseudo_phase_opt (zN l) (zN c) with
      | Some p => (st, ([Nz p], []))
      | None => (st, (refused, []))
      end
  | 34 :: k :: c :: _ =>                                   (* golomb_choose_number_of_base_bits *)
      match golomb_choose_number_of_base_bits (zN k) (zN c) with
      | Some p => (st, ([Nz p], []))
      | None => (st, (refused, []))
      end
  | _ => CpcDefs.step st o e
  end.

Definition run (ops : list opline) : list outline := run_case step [] ops.
