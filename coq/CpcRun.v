(* CpcRun.v — protocol runner of the cpc family: the operations of CpcDefs.step plus operations that tie the
   compressor model (CpcCodecDefs.v, translated tables) to the code: the compressed image of a sketch
   (cpc_compressor::compress per flavor, cpc_compressor_impl.hpp lines 144-331) and the low-level codecs. No proofs. *)
From Coq Require Import ZArith NArith List Bool.
From DS.gen Require Import CpcTablesGen.
From DS Require Import Word Murmur3 RunnerLib CpcDefs CpcCodecTables CpcCodecDefs CpcFlavorDefs.
Import ListNotations.
Local Open Scope N_scope.

Local Open Scope Z_scope.

Definition step (st : list (Z * obj)) (o e : line) : list (Z * obj) * outline :=
  match o with
  | 30 :: r :: _ =>                                        (* compressed image of sketch r *)
      match reg_get st r with
      | Some (OSk s log) =>
          match compress_sketch s with
          | Some c => (st, ([Nz (c_num_entries c); nz (length (c_table c))] ++ NL (c_table c) ++
                            [nz (length (c_window c))] ++ NL (c_window c), []))
          | None => (st, (refused, []))
          end
      | _ => (st, (refused, []))
      end
  | 6 :: r :: r2 :: _ =>                                   (* r2 := deserialize(serialize(r)) through the codec model *)
      match reg_get st r with
      | Some (OSk s log) =>
          match codec_roundtrip s with
          | Some s' => (reg_set st r2 (OSk s' log), (ok, []))
          | None => (st, (refused, []))
          end
      | _ => (st, (refused, []))
      end
  | 31 :: ti :: bytes =>                                   (* low_level_compress_bytes with table ti, and back *)
      let bs := map zN bytes in
      let w := compress_bytes (nth (zn ti) encoding_tables_for_high_entropy_byte []) bs in
      match uncompress_bytes (nth (zn ti) byte_decoding_tables []) (N.of_nat (length bs)) w with
      | Some bs' => (st, (nz (length w) :: NL w ++ NL bs', []))
      | None => (st, (refused, []))
      end
  | 32 :: nbb :: pairs =>                                  (* low_level_compress_pairs, and back *)
      match compress_pairs (map zN pairs) (zN nbb) with
      | Some w =>
        match uncompress_pairs (N.of_nat (length pairs)) (zN nbb) w with
        | Some ps => (st, (nz (length w) :: NL w ++ NL ps, []))
        | None => (st, (refused, []))
        end
      | None => (st, (refused, []))
      end
  | 33 :: l :: c :: _ =>                                   (* determine_pseudo_phase *)
      match determine_pseudo_phase_opt (zN l) (zN c) with
      | Some p => (st, ([Nz p], []))
      | None => (st, (refused, []))
      end
  | 34 :: k :: c :: _ =>                                   (* golomb_choose_number_of_base_bits *)
      match golomb_choose_number_of_base_bits (zN k) (zN c) with
      | Some p => (st, ([Nz p], []))
      | None => (st, (refused, []))
      end
  | 14 :: r :: r2 :: _ =>                                  (* union r2 := copy-constructed from union r *)
      match reg_get st r with
      | Some (OUn u lg0 ins) => (reg_set st r2 (OUn u lg0 ins), (ok, []))
      | _ => (st, (refused, []))
      end
  | 15 :: r :: r2 :: _ =>                                  (* existing union r2 = union r (copy assignment): a copy of the state *)
      match reg_get st r, reg_get st r2 with
      | Some (OUn u lg0 ins), Some (OUn _ _ _) => (reg_set st r2 (OUn u lg0 ins), (ok, []))
      | _, _ => (st, (refused, []))
      end
  | 16 :: r :: r2 :: _ =>                                  (* union r2 := move-constructed from r; r is dropped *)
      match reg_get st r with
      | Some (OUn u lg0 ins) => if Z.eqb r r2 then (st, (refused, [])) else (reg_set (reg_del st r) r2 (OUn u lg0 ins), (ok, []))
      | _ => (st, (refused, []))
      end
  | 17 :: r :: r2 :: _ =>                                  (* existing union r2 = std::move(union r); r is dropped *)
      match reg_get st r, reg_get st r2 with
      | Some (OUn u lg0 ins), Some (OUn _ _ _) =>
          if Z.eqb r r2 then (st, (refused, [])) else (reg_set (reg_del st r) r2 (OUn u lg0 ins), (ok, []))
      | _, _ => (st, (refused, []))
      end
  | 50 :: _ => (st, ([1; 1; 1], []))                       (* allocator scenario (harness only): all three checks hold *)
  | 13 :: rest => CpcDefs.step st (11 :: rest) e            (* union update with an rvalue copy of the sketch: same effect *)
  | _ => CpcDefs.step st o e
  end.

Definition run (ops : list opline) : list outline := run_case step [] ops.
