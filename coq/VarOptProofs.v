(* VarOptProofs.v — lemmas about the exact-arithmetic (Q) instance of the VarOpt model of VarOptDefs.v.
   Part 1: list and heap lemmas (generic in the number type where possible). *)
From Coq Require Import ZArith List Bool QArith Lia Lra Psatz Permutation.
From DS Require Import RunnerLib VarOptDefs.
Import ListNotations.

(* ------------------------------------------------------------------ *)
(* generic list facts                                                  *)
(* ------------------------------------------------------------------ *)
Lemma swap_length {A} (d : A) l i j : length (swap d l i j) = length l.
Proof. unfold swap. now rewrite !upd_nth_length. Qed.

Lemma nth_swap {A} (d : A) l i j k :
  (i < length l)%nat -> (j < length l)%nat ->
  nth k (swap d l i j) d = if (k =? j)%nat then nth i l d else if (k =? i)%nat then nth j l d else nth k l d.
Proof.
  intros Hi Hj. unfold swap.
  destruct (Nat.eqb_spec k j) as [->|Hkj].
  - rewrite nth_upd_nth_eq; [reflexivity| now rewrite upd_nth_length].
  - rewrite nth_upd_nth_neq by congruence.
    destruct (Nat.eqb_spec k i) as [->|Hki].
    + now rewrite nth_upd_nth_eq.
    + now rewrite nth_upd_nth_neq by congruence.
Qed.

Lemma swap_perm {A} (d : A) l i j :
  (i < length l)%nat -> (j < length l)%nat -> Permutation l (swap d l i j).
Proof.
  intros Hi Hj. apply (Permutation_nth l (swap d l i j) d). cbv zeta. split.
  - apply swap_length.
  - exists (fun k => if (k =? j)%nat then i else if (k =? i)%nat then j else k). repeat split.
    + intros x Hx. destruct (Nat.eqb_spec x j); [assumption|]. destruct (Nat.eqb_spec x i); assumption.
    + intros x y Hx Hy.
      destruct (Nat.eqb_spec x j), (Nat.eqb_spec y j), (Nat.eqb_spec x i), (Nat.eqb_spec y i); subst; intros; try congruence; try lia.
    + intros x Hx. rewrite nth_swap by assumption.
      destruct (Nat.eqb_spec x j); [reflexivity|]. destruct (Nat.eqb_spec x i); reflexivity.
Qed.

Lemma upd_nth_map {A B} (f : A -> B) n a l :
  map f (upd_nth n (fun _ => a) l) = upd_nth n (fun _ => f a) (map f l).
Proof. revert n; induction l as [|x t IH]; intros [|n]; simpl; auto. now rewrite IH. Qed.

(* data_[delete_slot] = data_[leftmost]; drop the leftmost  ==  remove element d *)
Definition del_via_head {A} (d : nat) (l : list A) : list A :=
  match l with [] => [] | c0 :: _ => tl (upd_nth d (fun _ => c0) l) end.

Lemma del_via_head_perm {A} (dflt : A) d l :
  (d < length l)%nat -> Permutation l (nth d l dflt :: del_via_head d l).
Proof.
  destruct l as [|a t]; simpl; [intros Hd; exfalso; lia|]. intros Hd.
  destruct d as [|d]; simpl; [reflexivity|].
  assert (Hd' : (d < length t)%nat) by lia. clear Hd.
  revert d Hd'. induction t as [|b t IH]; simpl; intros d Hd; [lia|].
  destruct d as [|d]; simpl.
  - apply perm_swap.
  - eapply perm_trans; [apply perm_swap|].
    eapply perm_trans; [apply perm_skip, (IH d); lia|].
    apply perm_swap.
Qed.

Lemma del_via_head_length {A} d (l : list A) : length (del_via_head d l) = pred (length l).
Proof. destruct l; simpl; auto. destruct d; simpl; auto. now rewrite upd_nth_length. Qed.

Lemma del_via_head_map {A B} (f : A -> B) d l : map f (del_via_head d l) = del_via_head d (map f l).
Proof.
  destruct l as [|a t]; simpl; auto. destruct d; simpl; auto. apply upd_nth_map.
Qed.

Lemma removelast_length {A} (l : list A) : length (removelast l) = pred (length l).
Proof. rewrite removelast_firstn_len, firstn_length. lia. Qed.

Lemma nth_removelast {A} (l : list A) i d : (i < pred (length l))%nat -> nth i (removelast l) d = nth i l d.
Proof.
  intros Hi. destruct l as [|a t] using rev_ind; [simpl in *; lia|].
  rewrite removelast_last. rewrite app_length in Hi; simpl in Hi. now rewrite app_nth1 by lia.
Qed.

Lemma last_nth {A} (l : list A) d : last l d = nth (pred (length l)) l d.
Proof.
  destruct l as [|a t] using rev_ind; [reflexivity|].
  rewrite last_last, app_length; simpl. rewrite app_nth2 by lia. replace (pred (length t + 1) - length t)%nat with O by lia. reflexivity.
Qed.

(* ------------------------------------------------------------------ *)
(* the heap on an abstract totally pre-ordered weight                   *)
(* ------------------------------------------------------------------ *)
Section Heap.
  Variable Item : Type.
  Variable ditem : Item.
  Variable num : Type.
  Variable zero : num.
  Variables ltb leb : num -> num -> bool.
  Variable le : num -> num -> Prop.
  Hypothesis le_refl : forall a, le a a.
  Hypothesis le_trans : forall a b c, le a b -> le b c -> le a c.
  Hypothesis leb_true : forall a b, leb a b = true -> le a b.
  Hypothesis leb_false : forall a b, leb a b = false -> le b a.
  Hypothesis ltb_true : forall a b, ltb a b = true -> le a b.
  Hypothesis ltb_false : forall a b, ltb a b = false -> le b a.

  Notation slot := (slot Item num).
  Notation dslot := (dslot Item ditem num zero).
  Notation wtat := (wtat Item ditem num zero).
  Notation sift_down := (sift_down Item ditem num zero ltb leb).
  Notation sift_up := (sift_up Item ditem num zero ltb).
  Notation convert_to_heap := (convert_to_heap Item ditem num zero ltb leb).
  Notation heapify_from := (heapify_from Item ditem num zero ltb leb).

  Definition child (i j : nat) : Prop := j = (2 * i + 1)%nat \/ j = (2 * i + 2)%nat.

  (* every parent from index a on is <= its children *)
  Definition hp_from (a : nat) (H : list slot) : Prop :=
    forall i j, (a <= i)%nat -> (j < length H)%nat -> child i j -> le (wtat H i) (wtat H j).
  Definition hp (H : list slot) : Prop := hp_from 0 H.

  Lemma wtat_swap H i j k : (i < length H)%nat -> (j < length H)%nat ->
    wtat (swap dslot H i j) k = if (k =? j)%nat then wtat H i else if (k =? i)%nat then wtat H j else wtat H k.
  Proof.
    intros Hi Hj. unfold VarOptDefs.wtat. rewrite nth_swap by assumption.
    destruct (k =? j)%nat; [reflexivity|]. destruct (k =? i)%nat; reflexivity.
  Qed.

  Lemma sift_down_S f H s : sift_down (S f) H s =
    if (2 * s + 1 <=? length H - 1)%nat then
      let c := if ((2 * s + 1 + 1 <=? length H - 1)%nat && ltb (wtat H (2 * s + 1 + 1)) (wtat H (2 * s + 1)))%bool
               then (2 * s + 1 + 1)%nat else (2 * s + 1)%nat in
      if leb (wtat H s) (wtat H c) then H else sift_down f (swap dslot H s c) c
    else H.
  Proof. reflexivity. Qed.

  Lemma sift_up_S f H s : sift_up (S f) H s =
    match s with
    | O => H
    | _ => let p := ((s + 1) / 2 - 1)%nat in
           if ltb (wtat H s) (wtat H p) then sift_up f (swap dslot H s p) p else H
    end.
  Proof. reflexivity. Qed.

  Lemma sift_down_length fuel : forall H s, length (sift_down fuel H s) = length H.
  Proof.
    induction fuel as [|f IH]; intros H s; [reflexivity|]. rewrite sift_down_S; cbv zeta.
    destruct (2 * s + 1 <=? length H - 1)%nat; [|reflexivity].
    match goal with |- context [leb ?a ?b] => destruct (leb a b) end; [reflexivity|].
    rewrite IH. apply swap_length.
  Qed.

  Lemma sift_down_perm fuel : forall H s, Permutation H (sift_down fuel H s).
  Proof.
    induction fuel as [|f IH]; intros H s; [reflexivity|]. rewrite sift_down_S; cbv zeta.
    destruct (Nat.leb_spec (2 * s + 1) (length H - 1)) as [Hc|Hc]; [|reflexivity].
    match goal with |- context [leb ?a ?b] => destruct (leb a b) end; [reflexivity|].
    eapply perm_trans; [|apply IH].
    apply swap_perm; [lia|].
    match goal with |- context [if ?c then _ else _] => destruct c eqn:E end; [|lia].
    apply andb_true_iff in E. destruct E as [E _]. apply Nat.leb_le in E. lia.
  Qed.

  (* the general sift-down lemma: everything from a on is fine except node s, and the parent of s (if >= a)
     is below the children of s *)
  Lemma sift_down_hp fuel : forall H s a,
    (a <= s)%nat -> (length H - s <= fuel)%nat ->
    (forall i j, (a <= i)%nat -> i <> s -> (j < length H)%nat -> child i j -> le (wtat H i) (wtat H j)) ->
    (forall p j, (a <= p)%nat -> child p s -> (j < length H)%nat -> child s j -> le (wtat H p) (wtat H j)) ->
    hp_from a (sift_down fuel H s).
  Proof.
    induction fuel as [|f IH]; intros H s a Has Hfuel HA HB.
    - change (sift_down 0 H s) with H. intros i j Hi Hj Hc. destruct (Nat.eq_dec i s) as [->|Hne]; [|now apply HA].
      exfalso. destruct Hc; lia.
    - rewrite sift_down_S; cbv zeta.
      destruct (Nat.leb_spec (2 * s + 1) (length H - 1)) as [Hc|Hc].
      2:{ intros i j Hi Hj Hch. destruct (Nat.eq_dec i s) as [->|Hne]; [|now apply HA].
          exfalso. destruct Hch; lia. }
      set (c := if ((2 * s + 1 + 1 <=? length H - 1)%nat && ltb (wtat H (2 * s + 1 + 1)) (wtat H (2 * s + 1)))%bool
                then (2 * s + 1 + 1)%nat else (2 * s + 1)%nat).
      assert (Hcc : child s c /\ (c < length H)%nat /\
                    (forall j, (j < length H)%nat -> child s j -> le (wtat H c) (wtat H j))).
      { subst c. destruct (Nat.leb_spec (2 * s + 1 + 1) (length H - 1)) as [H2|H2]; cbn [andb].
        - destruct (ltb (wtat H (2 * s + 1 + 1)) (wtat H (2 * s + 1))) eqn:E.
          + split; [right; lia|]. split; [lia|]. intros j Hj [->| ->].
            * now apply ltb_true.
            * replace (2 * s + 2)%nat with (2 * s + 1 + 1)%nat by lia. apply le_refl.
          + split; [left; lia|]. split; [lia|]. intros j Hj [->| ->].
            * apply le_refl.
            * replace (2 * s + 2)%nat with (2 * s + 1 + 1)%nat by lia. now apply ltb_false.
        - split; [left; lia|]. split; [lia|]. intros j Hj [->| ->]; [apply le_refl|lia]. }
      destruct Hcc as (Hchild & Hclt & Hcmin).
      destruct (leb (wtat H s) (wtat H c)) eqn:Ele.
      + (* node s is fine *)
        intros i j Hi Hj Hch. destruct (Nat.eq_dec i s) as [->|Hne]; [|now apply HA].
        eapply le_trans; [apply leb_true, Ele|]. now apply Hcmin.
      + assert (Hslt : (s < length H)%nat) by lia.
        assert (Hsc : s <> c) by (destruct Hchild; lia).
        apply IH.
        * destruct Hchild; lia.
        * rewrite swap_length. destruct Hchild; lia.
        * rewrite swap_length. intros i j Hi Hne Hj Hch.
          rewrite !wtat_swap by assumption.
          destruct (Nat.eqb_spec i c) as [->|Hic]; [congruence|].
          destruct (Nat.eqb_spec i s) as [->|His].
          -- (* parent s now holds the smaller child *)
             destruct (Nat.eqb_spec j c) as [->|Hjc]; [now apply leb_false|].
             destruct (Nat.eqb_spec j s) as [->|Hjs]; [destruct Hch; lia|].
             now apply Hcmin.
          -- destruct (Nat.eqb_spec j c) as [->|Hjc].
             { exfalso. destruct Hch, Hchild; lia. }
             destruct (Nat.eqb_spec j s) as [->|Hjs].
             { (* i is the parent of s *) apply HB; assumption. }
             apply HA; assumption.
        * rewrite swap_length. intros p j Hp Hpc Hj Hcj.
          assert (p = s) by (destruct Hpc, Hchild; lia). subst p.
          rewrite !wtat_swap by assumption.
          rewrite Nat.eqb_refl.
          destruct (Nat.eqb_spec s c); [congruence|].
          destruct (Nat.eqb_spec j c) as [->|Hjc]; [destruct Hcj; lia|].
          destruct (Nat.eqb_spec j s) as [->|Hjs]; [destruct Hcj, Hchild; lia|].
          apply HA; try assumption; [destruct Hchild; lia | congruence].
  Qed.

  Lemma sift_up_length fuel : forall H s, length (sift_up fuel H s) = length H.
  Proof.
    induction fuel as [|f IH]; intros H s; [reflexivity|]. rewrite sift_up_S.
    destruct s; [reflexivity|]. cbv zeta.
    match goal with |- context [ltb ?a ?b] => destruct (ltb a b) end; [|reflexivity].
    rewrite IH. apply swap_length.
  Qed.

  Lemma parent_child s : (0 < s)%nat -> child ((s + 1) / 2 - 1) s.
  Proof.
    intros Hs. unfold child.
    pose proof (Nat.div_mod (s + 1) 2 ltac:(lia)) as E.
    pose proof (Nat.mod_upper_bound (s + 1) 2 ltac:(lia)).
    assert ((s + 1) / 2 >= 1)%nat by (destruct ((s + 1) / 2)%nat; lia).
    lia.
  Qed.

  Lemma sift_up_perm fuel : forall H s, (s < length H)%nat -> Permutation H (sift_up fuel H s).
  Proof.
    induction fuel as [|f IH]; intros H s Hs; [reflexivity|]. rewrite sift_up_S.
    destruct s as [|s']; [reflexivity|]. cbv zeta.
    match goal with |- context [ltb ?a ?b] => destruct (ltb a b) end; [|reflexivity].
    pose proof (parent_child (S s') ltac:(lia)) as Hc.
    assert (((S s' + 1) / 2 - 1 < S s')%nat) by (destruct Hc; lia).
    eapply perm_trans; [|apply IH; rewrite swap_length; lia].
    apply swap_perm; lia.
  Qed.

  (* every edge is fine except the one into s; the parent of s is below the children of s *)
  Lemma sift_up_hp fuel : forall H s,
    (s < fuel)%nat -> (s < length H)%nat ->
    (forall i j, (j < length H)%nat -> j <> s -> child i j -> le (wtat H i) (wtat H j)) ->
    (forall p j, child p s -> (j < length H)%nat -> child s j -> le (wtat H p) (wtat H j)) ->
    hp (sift_up fuel H s).
  Proof.
    induction fuel as [|f IH]; intros H s Hfuel Hs HA HB; [lia|].
    rewrite sift_up_S. destruct s as [|s']; cbv zeta.
    - intros i j _ Hj Hc. apply HA; try assumption. destruct Hc; lia.
    - set (s := S s') in *. set (p := ((s + 1) / 2 - 1)%nat).
      pose proof (parent_child s ltac:(lia)) as Hps. fold p in Hps.
      assert (Hplt : (p < s)%nat) by (destruct Hps; lia).
      destruct (ltb (wtat H s) (wtat H p)) eqn:E.
      + apply IH.
        * lia.
        * rewrite swap_length; lia.
        * rewrite swap_length. intros i j Hj Hjp Hc.
          rewrite !wtat_swap by lia.
          destruct (Nat.eqb_spec j p) as [->|_]; [congruence|].
          destruct (Nat.eqb_spec i p) as [->|Hip].
          -- (* parent p now holds w[s] *)
             destruct (Nat.eqb_spec j s) as [->|Hjs]; [now apply ltb_true|].
             eapply le_trans; [apply ltb_true, E|]. apply HA; assumption.
          -- destruct (Nat.eqb_spec i s) as [->|His].
             ++ destruct (Nat.eqb_spec j s) as [->|Hjs]; [destruct Hc; lia|]. apply HB; assumption.
             ++ destruct (Nat.eqb_spec j s) as [->|Hjs].
                ** exfalso. destruct Hc, Hps; lia.
                ** apply HA; assumption.
        * rewrite swap_length. intros g j Hg Hj Hc.
          rewrite !wtat_swap by lia.
          destruct (Nat.eqb_spec g p) as [->|Hgp]; [destruct Hg; lia|].
          destruct (Nat.eqb_spec g s) as [->|Hgs]; [destruct Hg; lia|].
          destruct (Nat.eqb_spec j p) as [->|Hjp]; [destruct Hc; lia|].
          destruct (Nat.eqb_spec j s) as [->|Hjs].
          -- apply HA; try assumption; lia.
          -- eapply le_trans; [apply (HA g p); try assumption; lia|]. apply HA; assumption.
      + intros i j _ Hj Hc. destruct (Nat.eq_dec j s) as [->|Hne]; [|now apply HA].
        assert (i = p) by (destruct Hc, Hps; lia). subst i. now apply ltb_false.
  Qed.

  (* the root of a heap is a minimum *)
  Lemma hp_root_min H : hp H -> forall j, (j < length H)%nat -> le (wtat H 0) (wtat H j).
  Proof.
    intros Hh j. induction j as [j IH] using lt_wf_ind. intros Hj.
    destruct j as [|j']; [apply le_refl|].
    pose proof (parent_child (S j') ltac:(lia)) as Hc.
    set (p := ((S j' + 1) / 2 - 1)%nat) in *.
    assert (p < S j')%nat by (destruct Hc; lia).
    eapply le_trans; [apply (IH p); lia|]. apply Hh; try assumption. lia.
  Qed.

  (* push: append and sift up *)
  Lemma push_hp H x : hp H -> hp (sift_up (length (H ++ [x])) (H ++ [x]) (length H)).
  Proof.
    intros Hh. apply sift_up_hp.
    - rewrite app_length; simpl; lia.
    - rewrite app_length; simpl; lia.
    - rewrite app_length; simpl. intros i j Hj Hne Hc.
      assert (j < length H)%nat by lia. assert (i < length H)%nat by (destruct Hc; lia).
      unfold VarOptDefs.wtat. rewrite !app_nth1 by assumption. apply Hh; try assumption. lia.
    - rewrite app_length; simpl. intros p j _ Hj Hc. destruct Hc; lia.
  Qed.

  (* pop: move the last element to the root, drop the last slot, sift down *)
  Definition pop_rest (H : list slot) : list slot :=
    let H1 := removelast (swap dslot H 0 (length H - 1)) in sift_down (length H1) H1 0.

  Lemma pop_rest_hp H : (2 <= length H)%nat -> hp H -> hp (pop_rest H).
  Proof.
    intros Hn Hh. unfold pop_rest, hp.
    set (H1 := removelast (swap dslot H 0 (length H - 1))).
    assert (L1 : length H1 = (length H - 1)%nat) by (subst H1; rewrite removelast_length, swap_length; lia).
    assert (W1 : forall i, (0 < i)%nat -> (i < length H1)%nat -> wtat H1 i = wtat H i).
    { intros i Hi0 Hi. subst H1. unfold VarOptDefs.wtat. rewrite nth_removelast by (rewrite swap_length; lia).
      rewrite nth_swap by lia.
      destruct (Nat.eqb_spec i (length H - 1)); [lia|]. destruct (Nat.eqb_spec i 0); [lia|]. reflexivity. }
    apply sift_down_hp; try lia.
    - intros i j _ Hi Hj Hc. rewrite !W1 by (destruct Hc; lia). apply Hh; try lia. assumption.
    - intros p j _ Hc. destruct Hc; lia.
  Qed.

  Lemma pop_rest_perm H : (2 <= length H)%nat -> Permutation H (nth 0 H dslot :: pop_rest H).
  Proof.
    intros Hn. unfold pop_rest.
    set (Hs := swap dslot H 0 (length H - 1)).
    assert (Hne : Hs <> []) by (intro E; apply (f_equal (@length _)) in E; subst Hs; rewrite swap_length in E; simpl in E; lia).
    pose proof (app_removelast_last dslot Hne) as E.
    assert (El : last Hs dslot = nth 0 H dslot).
    { rewrite last_nth. subst Hs. rewrite swap_length, nth_swap by lia.
      replace (pred (length H)) with (length H - 1)%nat by lia. now rewrite Nat.eqb_refl. }
    rewrite El in E.
    eapply perm_trans; [apply (swap_perm dslot H 0 (length H - 1)); lia|]. fold Hs. rewrite E at 1.
    eapply perm_trans; [apply Permutation_app_comm|]. simpl. apply perm_skip. apply sift_down_perm.
  Qed.

  (* convert_to_heap *)
  Lemma heapify_from_length j : forall H, length (heapify_from j H) = length H.
  Proof. induction j as [|j IH]; intros H; cbn [VarOptDefs.heapify_from]; [apply sift_down_length|]. rewrite IH. apply sift_down_length. Qed.

  Lemma heapify_from_perm j : forall H, Permutation H (heapify_from j H).
  Proof.
    induction j as [|j IH]; intros H; cbn [VarOptDefs.heapify_from]; [apply sift_down_perm|].
    eapply perm_trans; [apply sift_down_perm|apply IH].
  Qed.

  Lemma heapify_from_hp j : forall H, hp_from (S j) H -> hp (heapify_from j H).
  Proof.
    induction j as [|j IH]; intros H Hh; cbn [VarOptDefs.heapify_from].
    - apply sift_down_hp; try lia.
      + intros i k Hi Hne Hk Hc. apply Hh; try assumption. lia.
      + intros p k _ Hc. destruct Hc; lia.
    - apply IH. apply sift_down_hp; try lia.
      + intros i k Hi Hne Hk Hc. apply Hh; try assumption. lia.
      + intros p k Hp Hc. destruct Hc; lia.
  Qed.

  Lemma convert_to_heap_hp H : hp (convert_to_heap H).
  Proof.
    unfold VarOptDefs.convert_to_heap. destruct (Nat.ltb_spec (length H) 2) as [Hl|Hl].
    - intros i j _ Hj Hc. destruct Hc; lia.
    - apply heapify_from_hp. intros i j Hi Hj Hc.
      exfalso.
      pose proof (Nat.div_mod (length H) 2 ltac:(lia)) as E.
      pose proof (Nat.mod_upper_bound (length H) 2 ltac:(lia)).
      assert (length H / 2 >= 1)%nat by (destruct (length H / 2)%nat; lia).
      destruct Hc; lia.
  Qed.

  Lemma convert_to_heap_perm H : Permutation H (convert_to_heap H).
  Proof.
    unfold VarOptDefs.convert_to_heap. destruct (length H <? 2)%nat; [reflexivity|apply heapify_from_perm].
  Qed.

  Lemma convert_to_heap_length H : length (convert_to_heap H) = length H.
  Proof. apply Permutation_length, Permutation_sym, convert_to_heap_perm. Qed.
End Heap.

(* ------------------------------------------------------------------ *)
(* Part 2: the exact-arithmetic instance                               *)
(* ------------------------------------------------------------------ *)
Lemma Qltb_true a b : Qltb a b = true -> a < b.
Proof.
  unfold Qltb. intros H. apply negb_true_iff in H. apply Qnot_le_lt. intro L.
  apply Qle_bool_iff in L. congruence.
Qed.
Lemma Qltb_false a b : Qltb a b = false -> b <= a.
Proof. unfold Qltb. intros H. apply negb_false_iff in H. now apply Qle_bool_iff. Qed.
Lemma Qleb_true a b : Qle_bool a b = true -> a <= b.
Proof. apply Qle_bool_iff. Qed.
Lemma Qleb_false a b : Qle_bool a b = false -> b < a.
Proof. intros H. apply Qnot_le_lt. intro L. apply Qle_bool_iff in L. congruence. Qed.
Lemma Qltb_lt a b : a < b -> Qltb a b = true.
Proof. intros H. destruct (Qltb a b) eqn:E; [reflexivity|]. apply Qltb_false in E. lra. Qed.
Lemma Qltb_ge a b : b <= a -> Qltb a b = false.
Proof. intros H. destruct (Qltb a b) eqn:E; [|reflexivity]. apply Qltb_true in E. lra. Qed.

Definition qn (n : nat) : Q := inject_Z (Z.of_nat n).
Lemma qn_S n : qn (S n) = qn n + 1.
Proof. unfold qn. rewrite Nat2Z.inj_succ, <- Z.add_1_r, inject_Z_plus. reflexivity. Qed.
Lemma qn_nonneg n : 0 <= qn n.
Proof. unfold qn. change 0 with (inject_Z 0). rewrite <- Zle_Qle. lia. Qed.
Lemma qn_pos n : (0 < n)%nat -> 0 < qn n.
Proof. intros H. unfold qn. change 0 with (inject_Z 0). rewrite <- Zlt_Qlt. lia. Qed.
Lemma qn_pred n : (1 <= n)%nat -> qn n = qn (n - 1) + 1.
Proof. intros H. replace n with (S (n - 1)) at 1 by lia. apply qn_S. Qed.
Lemma qn_0 : qn 0 = 0. Proof. reflexivity. Qed.
Lemma qn_1 : qn 1 = 1. Proof. reflexivity. Qed.
Lemma qn_ge1 n : (1 <= n)%nat -> 1 <= qn n.
Proof. intros H. rewrite (qn_pred n H). pose proof (qn_nonneg (n - 1)). lra. Qed.

Ltac prj := unfold set_M, set_H, set_R, set_tot, set_n, set_k, set_marks; cbn [vk vn vH vM vmb vR vtot vgad vmarks].

Section QI.
  Variable Item : Type.
  Variable ditem : Item.
  Variable cu : Z -> Q.

  Notation slot := (slot Item Q).
  Notation vo := (vo Item Q).
  Notation dslot := (dslot Item ditem Q 0).
  Notation wtat := (wtat Item ditem Q 0).
  Notation pop_min := (pop_min Item ditem Q 0 Qltb Qle_bool).
  Notation push := (push Item ditem Q 0 Qltb).
  Notation convert_to_heap := (convert_to_heap Item ditem Q 0 Qltb Qle_bool).
  Notation grow_loop := (grow_loop Item ditem Q 0 Qplus Qmult Qltb Qle_bool inject_Z).
  Notation pick_random_slot_in_r := (pick_random_slot_in_r Item Q).
  Notation choose_weighted_delete_slot := (choose_weighted_delete_slot Item Q 0 1 (-(1)) Qplus Qmult Qltb Qeq_bool inject_Z cu).
  Notation choose_delete_slot := (choose_delete_slot Item ditem Q 0 1 (-(1)) Qplus Qmult Qltb Qeq_bool inject_Z cu).
  Notation downsample_candidate_set := (downsample_candidate_set Item ditem Q 0 1 (-(1)) Qplus Qmult Qltb Qeq_bool inject_Z cu).
  Notation grow_candidate_set := (grow_candidate_set Item ditem Q 0 1 (-(1)) Qplus Qmult Qltb Qle_bool Qeq_bool inject_Z cu).
  Notation transition_from_warmup := (transition_from_warmup Item ditem Q 0 1 (-(1)) Qplus Qmult Qltb Qle_bool Qeq_bool inject_Z cu).
  Notation update_warmup_phase := (update_warmup_phase Item ditem Q 0 1 (-(1)) Qplus Qmult Qltb Qle_bool Qeq_bool inject_Z cu).
  Notation update_light := (update_light Item ditem Q 0 1 (-(1)) Qplus Qmult Qltb Qle_bool Qeq_bool inject_Z cu).
  Notation update_heavy_general := (update_heavy_general Item ditem Q 0 1 (-(1)) Qplus Qmult Qltb Qle_bool Qeq_bool inject_Z cu).
  Notation update_heavy_r_eq1 := (update_heavy_r_eq1 Item ditem Q 0 1 (-(1)) Qplus Qmult Qltb Qle_bool Qeq_bool inject_Z cu).
  Notation update_body := (update_body Item ditem Q 0 1 (-(1)) Qplus Qmult Qdiv Qltb Qle_bool Qeq_bool inject_Z cu).
  Notation update := (update Item ditem Q 0 1 (-(1)) Qplus Qmult Qdiv Qltb Qle_bool Qeq_bool inject_Z Qbad cu).
  Notation update_st := (update_st Item ditem Q 0 1 (-(1)) Qplus Qmult Qdiv Qltb Qle_bool Qeq_bool inject_Z Qbad cu).
  Notation feed := (feed Item ditem Q 0 1 (-(1)) Qplus Qmult Qdiv Qltb Qle_bool Qeq_bool inject_Z Qbad cu).
  Notation get_tau := (get_tau Item Q Qdiv inject_Z).
  Notation get_samples := (get_samples Item Q Qdiv inject_Z).
  Notation estimate_subset_sum := (estimate_subset_sum Item Q 0 1 Qplus Qmult Qdiv Qltb inject_Z).
  Notation vo_empty := (vo_empty Item Q 0).
  Notation hp := (hp Item ditem Q 0 Qle).
  Notation pop_rest := (pop_rest Item ditem Q 0 Qltb Qle_bool).

  Definition sumw (l : list slot) : Q := fold_right (fun x a => s_wt x + a) 0 l.
  Definition wpos (l : list slot) : Prop := Forall (fun x => 0 < s_wt x) l.
  Definition pairs_of (l : list slot) : list (Item * Q) := map (fun x => (s_item x, s_wt x)) l.
  Definition le_all (M H : list slot) : Prop := forall x y, In x M -> In y H -> s_wt x <= s_wt y.

  Lemma sumw_perm l l' : Permutation l l' -> sumw l == sumw l'.
  Proof. induction 1; simpl; try lra. Qed.
  Lemma sumw_app l l' : sumw (l ++ l') == sumw l + sumw l'.
  Proof. induction l; simpl; lra. Qed.
  Lemma wpos_perm l l' : Permutation l l' -> wpos l -> wpos l'.
  Proof. intros P H. unfold wpos in *. rewrite Forall_forall in *. intros x Hx. apply H. eapply Permutation_in; [apply Permutation_sym|]; eassumption. Qed.
  Lemma sumw_nonneg l : wpos l -> 0 <= sumw l.
  Proof. induction 1; simpl; lra. Qed.
  Lemma pairs_perm l l' : Permutation l l' -> Permutation (pairs_of l) (pairs_of l').
  Proof. apply Permutation_map. Qed.
  Lemma map_fst_pairs l : map fst (pairs_of l) = map s_item l.
  Proof. unfold pairs_of. rewrite map_map. reflexivity. Qed.

  (* heap lemmas instantiated *)
  Lemma qle_leb_false a b : Qle_bool a b = false -> b <= a.
  Proof. intros H. apply Qleb_false in H. lra. Qed.
  Lemma qlt_ltb_true a b : Qltb a b = true -> a <= b.
  Proof. intros H. apply Qltb_true in H. lra. Qed.

  Definition Hpush := push_hp Item ditem Q 0 Qltb Qle Qle_trans qlt_ltb_true Qltb_false.
  Definition Hpop := pop_rest_hp Item ditem Q 0 Qltb Qle_bool Qle Qle_refl Qle_trans Qleb_true qle_leb_false qlt_ltb_true Qltb_false.
  Definition Hpop_perm := pop_rest_perm Item ditem Q 0 Qltb Qle_bool.
  Definition Hmin := hp_root_min Item ditem Q 0 Qle Qle_refl Qle_trans.
  Definition Hconv := convert_to_heap_hp Item ditem Q 0 Qltb Qle_bool Qle Qle_refl Qle_trans Qleb_true qle_leb_false qlt_ltb_true Qltb_false.
  Definition Hconv_perm := convert_to_heap_perm Item ditem Q 0 Qltb Qle_bool.
  Definition Hup_perm := sift_up_perm Item ditem Q 0 Qltb.

  Lemma hp_min_in H : hp H -> forall y, In y H -> wtat H 0 <= s_wt y.
  Proof.
    intros Hh y Hy. destruct (In_nth _ _ dslot Hy) as (j & Hj & E).
    pose proof (Hmin H Hh j Hj) as L. unfold VarOptDefs.wtat in *. now rewrite E in L.
  Qed.

  Lemma hp_nil : hp [].
  Proof. intros i j _ Hj. simpl in Hj. lia. Qed.

  (* ---------------- pop_min ---------------- *)
  Lemma pop_min_spec (s : vo) root t :
    vH s = root :: t -> (hh s + mm s + rr s = vk s + 1)%nat ->
    exists s', pop_min s = Some s' /\
      vM s' = root :: vM s /\ vR s' = vR s /\ vk s' = vk s /\ vn s' = vn s /\ vtot s' = vtot s /\
      vmb s' = vmb s /\ vgad s' = vgad s /\
      Permutation (vH s) (root :: vH s') /\
      (hp (vH s) -> hp (vH s') /\ forall y, In y (vH s') -> s_wt root <= s_wt y).
  Proof.
    intros EH Hfull. unfold VarOptDefs.pop_min.
    assert (Hh : hh s = S (length t)) by (unfold hh; now rewrite EH).
    replace (hh s =? 0)%nat with false by (symmetry; apply Nat.eqb_neq; lia).
    replace (hh s + mm s + rr s =? vk s + 1)%nat with true by (symmetry; now apply Nat.eqb_eq).
    cbn [orb negb]. rewrite EH.
    set (H' := if (hh s =? 1)%nat then [] else _).
    assert (HP : Permutation (root :: t) (root :: H') /\
                 (hp (root :: t) -> hp H' /\ forall y, In y H' -> s_wt root <= s_wt y)).
    { subst H'. destruct (Nat.eqb_spec (hh s) 1) as [E1|E1].
      - assert (t = []) by (destruct t; simpl in *; [reflexivity|lia]). subst t. split; [reflexivity|].
        intros _. split; [apply hp_nil|]. intros y [].
      - assert (L2 : (2 <= length (root :: t))%nat) by (simpl; lia).
        pose proof (Hpop_perm (root :: t) L2) as P. cbn [nth] in P.
        unfold hh. rewrite EH. fold (pop_rest (root :: t)).
        split; [exact P|]. intros Hh0. split; [now apply Hpop|].
        intros y Hy. pose proof (hp_min_in _ Hh0 y) as L. unfold VarOptDefs.wtat in L. cbn [nth] in L.
        apply L. eapply Permutation_in; [apply Permutation_sym, P|]. now right. }
    destruct HP as [HP1 HP2].
    eexists. split; [reflexivity|].
    destruct (is_marked Item Q s root); cbn; repeat split; auto; apply HP2; assumption.
  Qed.

  (* ---------------- invariants ---------------- *)
  Definition prov (H M : list slot) (R : list Item) (t : Q) (r : nat) (inp : list (Item * Q)) : Prop :=
    exists LR LD, Permutation inp (pairs_of H ++ pairs_of M ++ LR ++ LD) /\ map fst LR = R /\
                  forall p, In p (LR ++ LD) -> snd p * qn r <= t.

  Record Mid (s : vo) (wc : Q) (nc : nat) : Prop := {
    mid_mb : vmb s = 0%nat;
    mid_full : (hh s + length (vM s) + rr s = vk s + 1)%nat;
    mid_nc : nc = (length (vM s) + rr s)%nat;
    mid_nc2 : (2 <= nc)%nat;
    mid_r : (1 <= rr s)%nat;
    mid_hp : hp (vH s);
    mid_posH : wpos (vH s);
    mid_posM : wpos (vM s);
    mid_tot : 0 < vtot s;
    mid_wc : wc == sumw (vM s) + vtot s;
    mid_le : le_all (vM s) (vH s);
    mid_Mtau : forall x, In x (vM s) -> s_wt x * qn (nc - 1) <= wc;
    mid_tau : vtot s * qn (nc - 1) <= wc * qn (rr s);
    mid_Htau : forall y, In y (vH s) -> vtot s <= s_wt y * qn (rr s);
    mid_n : (Z.of_nat (vk s) < vn s)%Z }.

  (* slot level: a slot is still in H, or it is no heavier than tau *)
  Definition kept (s' : vo) (y : slot) : Prop :=
    In y (vH s') \/ ((1 <= rr s')%nat /\ s_wt y * qn (rr s') <= vtot s').

  Lemma grow_loop_spec fuel : forall (s : vo) wc nc inp,
    (hh s <= fuel)%nat -> Mid s wc nc -> prov (vH s) (vM s) (vR s) (vtot s) (rr s) inp ->
    exists s' wc' nc', grow_loop fuel s wc nc = Some (s', wc', nc') /\
      (forall y, In y (vH s) \/ In y (vM s) -> In y (vH s') \/ In y (vM s')) /\
      Mid s' wc' nc' /\ prov (vH s') (vM s') (vR s') (vtot s') (rr s') inp /\
      (forall y, In y (vH s') -> wc' <= s_wt y * qn (nc' - 1)) /\
      sumw (vH s') + wc' == sumw (vH s) + wc /\
      vtot s' = vtot s /\ vR s' = vR s /\ vk s' = vk s /\ vn s' = vn s /\ vgad s' = vgad s.
  Proof.
    induction fuel as [|f IH]; intros s wc nc inp Hf HM HP.
    - exists s, wc, nc. cbn. split; [reflexivity|]. split; [intros y Hy; exact Hy|]. split; [exact HM|]. split; [exact HP|].
      split; [|repeat split; reflexivity].
      intros y Hy. unfold hh in Hf. destruct (vH s); [destruct Hy|simpl in Hf; lia].
    - cbn [VarOptDefs.grow_loop]. destruct (vH s) as [|root t] eqn:EH.
      { exists s, wc, nc. split; [reflexivity|]. split; [intros y Hy; rewrite EH; exact Hy|]. split; [exact HM|]. split; [rewrite EH; exact HP|].
        split; [|repeat split; rewrite ?EH; reflexivity]. rewrite EH. intros y []. }
      rewrite <- EH in HP. try rewrite <- EH.
      unfold ofN.
      destruct (Qltb (s_wt root * inject_Z (Z.of_nat nc)) (wc + s_wt root)) eqn:Ec.
      + apply Qltb_true in Ec. fold (qn nc) in Ec.
        destruct HM as [Hmb Hfull Hnc Hnc2 Hr Hhp HposH HposM Htot Hwc Hle HMtau Htau HHtau Hn].
        assert (Hfull' : (hh s + mm s + rr s = vk s + 1)%nat) by (unfold mm; lia).
        destruct (pop_min_spec s root t EH Hfull') as (s1 & E1 & EM & ER & Ek & En & Et & Emb & Eg & Pm & Hh1).
        destruct (Hh1 Hhp) as [Hhp1 Hmin1].
        rewrite E1.
        assert (Hlen : hh s = S (hh s1)) by (unfold hh; apply Permutation_length in Pm; simpl in Pm; lia).
        assert (HinH : forall y, In y (vH s1) -> In y (vH s)).
        { intros y Hy. eapply Permutation_in; [apply Permutation_sym, Pm|]. now right. }
        assert (Hrootin : In root (vH s)) by (rewrite EH; now left).
        assert (Hq : qn nc = qn (nc - 1) + 1) by (apply qn_pred; lia).
        assert (Hrw : 0 < s_wt root).
        { unfold wpos in HposH. rewrite Forall_forall in HposH. now apply HposH. }
        destruct (IH s1 (wc + s_wt root) (S nc) inp) as (s' & wc' & nc' & E' & Hsl' & HM' & HP' & Hex & Hsum & Et' & ER' & Ek' & En' & Eg').
        * lia.
        * assert (Err : rr s1 = rr s) by (unfold rr; now rewrite ER).
          constructor; rewrite ?EM, ?Err, ?Ek, ?En, ?Et, ?Emb; auto.
          -- simpl. lia.
          -- simpl. lia.
          -- eapply wpos_perm in HposH; [|exact Pm]. now inversion HposH.
          -- constructor; assumption.
          -- simpl. rewrite Hwc. lra.
          -- intros x y [<-|Hx] Hy; [now apply Hmin1|]. apply Hle; auto.
          -- replace (S nc - 1)%nat with nc by lia. intros x [<-|Hx]; [lra|].
             pose proof (HMtau x Hx). pose proof (Hle x root Hx Hrootin). rewrite Hq. lra.
          -- replace (S nc - 1)%nat with nc by lia. pose proof (HHtau root Hrootin). rewrite Hq. lra.
        * destruct HP as (LR & LD & P & EF & Hb). exists LR, LD.
          assert (Err : rr s1 = rr s) by (unfold rr; now rewrite ER).
          rewrite EM, ER, Et, Err. repeat split; auto.
          eapply perm_trans; [exact P|].
          eapply perm_trans; [apply Permutation_app_tail, pairs_perm, Pm|].
          cbn [pairs_of map app]. apply Permutation_middle.
        * exists s', wc', nc'. split; [exact E'|].
          split.
          { intros y [Hy|Hy]; apply Hsl'.
            - eapply Permutation_in in Hy; [|exact Pm]. destruct Hy as [<-|Hy]; [right; rewrite EM; now left|now left].
            - right. rewrite EM. now right. }
          split; [exact HM'|]. split; [exact HP'|]. split; [exact Hex|].
          split; [|repeat split; congruence].
          rewrite Hsum. rewrite (sumw_perm _ _ Pm). simpl. lra.
      + apply Qltb_false in Ec. fold (qn nc) in Ec.
        exists s, wc, nc. split; [reflexivity|]. split; [intros y Hy; exact Hy|]. split; [exact HM|]. split; [exact HP|].
        split; [|repeat split; reflexivity].
        destruct HM as [Hmb Hfull Hnc Hnc2 Hr Hhp HposH HposM Htot Hwc Hle HMtau Htau HHtau Hn].
        intros y Hy. rewrite EH in Hhp, Hy.
        pose proof (hp_min_in _ Hhp y Hy) as L. unfold VarOptDefs.wtat in L. cbn [nth] in L.
        assert (Hq : qn nc = qn (nc - 1) + 1) by (apply qn_pred; lia).
        rewrite Hq in Ec.
        assert (s_wt root * qn (nc - 1) <= s_wt y * qn (nc - 1)) by (apply Qmult_le_compat_r; [assumption|apply qn_nonneg]).
        lra.
  Qed.

  (* ---------------- rest-state invariants ---------------- *)
  Definition Est (s : vo) : Prop :=
    (1 <= rr s)%nat /\ (hh s + rr s = vk s)%nat /\ 0 < vtot s /\ hp (vH s) /\
    (forall y, In y (vH s) -> vtot s <= s_wt y * qn (rr s)) /\ (Z.of_nat (vk s) < vn s)%Z.
  Definition Warm (s : vo) : Prop :=
    vR s = [] /\ (hh s <= vk s)%nat /\ vn s = Z.of_nat (hh s) /\ vtot s == 0.
  Definition Rest (s : vo) : Prop :=
    vM s = [] /\ vmb s = 0%nat /\ wpos (vH s) /\ (1 <= vk s)%nat /\ (Warm s \/ Est s).
  Definition provR (s : vo) (inp : list (Item * Q)) : Prop :=
    prov (vH s) [] (vR s) (vtot s) (rr s) inp /\ (vR s = [] -> Permutation inp (pairs_of (vH s))).

  Lemma tau_trans a t wc R N : 0 < R -> 0 <= N -> a * R <= t -> t * N <= wc * R -> a * N <= wc.
  Proof. intros. nra. Qed.

  (* ---------------- choosing the slot to delete ---------------- *)
  Lemma draw_index_lt r c : (0 < r)%nat -> (fst (draw_index r c) < r)%nat.
  Proof.
    intros Hr. unfold draw_index. destruct (c_rest c) as [|z t]; simpl; [assumption|].
    pose proof (Z.mod_pos_bound z (Z.of_nat r) ltac:(lia)). lia.
  Qed.

  Lemma pick_random_spec (s : vo) c : (1 <= rr s)%nat ->
    exists d c', pick_random_slot_in_r s c = Some (d, c') /\ (d < mm s + rr s)%nat.
  Proof.
    intros Hr. unfold VarOptDefs.pick_random_slot_in_r.
    destruct (Nat.eqb_spec (rr s) 0); [lia|].
    destruct (Nat.eqb_spec (rr s) 1).
    - eexists _, _. split; [reflexivity|lia].
    - pose proof (draw_index_lt (rr s) c ltac:(lia)). destruct (draw_index (rr s) c) as [j c'].
      eexists _, _. split; [reflexivity|]. simpl in *. lia.
  Qed.

  Lemma cw_loop_bound ms : forall i l r wc ntk,
    (cw_loop Item Q Qplus Qmult Qltb ms i l r wc ntk <= i + length ms)%nat.
  Proof.
    induction ms as [|x t IH]; intros; simpl; [lia|].
    match goal with |- context [if ?b then _ else _] => destruct b end; [lia|].
    etransitivity; [apply IH|]. lia.
  Qed.

  Lemma choose_delete_slot_spec (s : vo) wc nc c : (1 <= rr s)%nat -> vmb s = 0%nat ->
    exists d c', choose_delete_slot s wc nc c = Some (d, c') /\ (d < length (vM s) + rr s)%nat.
  Proof.
    intros Hr Hmb. unfold VarOptDefs.choose_delete_slot.
    assert (Hmm : mm s = length (vM s)) by (unfold mm; lia).
    destruct (Nat.eqb_spec (rr s) 0); [lia|].
    destruct (Nat.eqb_spec (mm s) 0).
    { destruct (pick_random_spec s c Hr) as (d & c' & E & L). exists d, c'. split; [exact E|lia]. }
    destruct (Nat.eqb_spec (mm s) 1).
    { destruct (draw_unit Q 0 1 Qeq_bool cu c) as [u c1].
      match goal with |- context [if ?b then _ else _] => destruct b end.
      - destruct (pick_random_spec s c1 Hr) as (d & c' & E & L). exists d, c'. split; [exact E|lia].
      - eexists _, _. split; [reflexivity|lia]. }
    unfold VarOptDefs.choose_weighted_delete_slot.
    destruct (Nat.ltb_spec (mm s) 1); [lia|].
    destruct (draw_unit Q 0 1 Qeq_bool cu c) as [u c1].
    match goal with |- context [cw_loop ?a ?b ?c ?d ?e ?ms ?i ?l ?r ?w ?k] =>
      pose proof (cw_loop_bound ms i l r w k) as B; set (dd := cw_loop a b c d e ms i l r w k) in * end.
    destruct (Nat.eqb_spec dd (mm s)).
    - destruct (pick_random_spec s c1 Hr) as (d & c' & E & L). exists d, c'. split; [exact E|lia].
    - eexists _, _. split; [reflexivity|]. simpl in B. lia.
  Qed.

  (* ---------------- downsample_candidate_set ---------------- *)
  Lemma downsample_spec (s : vo) wc nc c inp :
    Mid s wc nc -> prov (vH s) (vM s) (vR s) (vtot s) (rr s) inp ->
    (forall y, In y (vH s) -> wc <= s_wt y * qn (nc - 1)) ->
    exists s' c', downsample_candidate_set s wc nc c = Some (s', c') /\
      Rest s' /\ Est s' /\ provR s' inp /\
      vtot s' = wc /\ rr s' = (nc - 1)%nat /\ vH s' = vH s /\ vk s' = vk s /\ vn s' = vn s /\ vgad s' = vgad s.
  Proof.
    intros HM HP Hex.
    destruct HM as [Hmb Hfull Hnc Hnc2 Hr Hhp HposH HposM Htot Hwc Hle HMtau Htau HHtau Hn].
    unfold VarOptDefs.downsample_candidate_set.
    destruct (Nat.ltb_spec nc 2); [lia|].
    replace (hh s + nc =? vk s + 1)%nat with true by (symmetry; apply Nat.eqb_eq; lia).
    cbn [orb negb].
    destruct (choose_delete_slot_spec s wc nc c Hr Hmb) as (d & c' & Ed & Ld). rewrite Ed.
    destruct (Nat.ltb_spec (vk s - hh s) d); [lia|].
    destruct HP as (LR & LD & P & EF & Hb).
    set (LRc := pairs_of (vM s) ++ LR).
    assert (ELRc : map fst LRc = map s_item (vM s) ++ vR s) by (subst LRc; now rewrite map_app, map_fst_pairs, EF).
    assert (LLRc : length LRc = (length (vM s) + rr s)%nat).
    { subst LRc. unfold pairs_of, rr. rewrite app_length, map_length, <- EF, map_length. reflexivity. }
    destruct (map s_item (vM s) ++ vR s) as [|c0 ct] eqn:Ec.
    { apply (f_equal (@length _)) in ELRc. rewrite map_length in ELRc. simpl in ELRc. lia. }
    change (tl (upd_nth d (fun _ => c0) (c0 :: ct))) with (del_via_head d (c0 :: ct)).
    eexists _, c'. split; [reflexivity|].
    assert (Hwc0 : 0 < wc) by (pose proof (sumw_nonneg _ HposM); lra).
    assert (Hlen : length (del_via_head d (c0 :: ct)) = (nc - 1)%nat).
    { rewrite del_via_head_length, <- ELRc, map_length, LLRc. lia. }
    assert (HE : Est (mkvo Item Q (vk s) (vn s) (vH s) [] 0 (del_via_head d (c0 :: ct)) wc (vgad s) (vmarks s))).
    { unfold Est, rr, hh. prj. rewrite Hlen. repeat split; auto; try lia. unfold hh in *. lia. }
    split; [|split; [exact HE|]].
    { unfold Rest. prj. repeat split; auto; try lia. }
    split; [|prj; unfold rr; prj; repeat split; auto].
    unfold provR, rr. prj. rewrite Hlen. split.
    - exists (del_via_head d LRc), (nth d LRc (ditem, 0) :: LD). split; [|split].
      + eapply perm_trans; [exact P|]. apply Permutation_app_head. cbn [pairs_of map app].
        rewrite app_assoc. fold LRc.
        eapply perm_trans; [apply Permutation_app_tail, (del_via_head_perm (ditem, 0) d LRc); lia|].
        cbn [app]. apply Permutation_middle.
      + now rewrite del_via_head_map, ELRc.
      + intros p Hp.
        assert (Hin : In p (LRc ++ LD)).
        { apply in_app_or in Hp. apply in_or_app. destruct Hp as [Hp|[<-|Hp]].
          - left. eapply Permutation_in; [apply Permutation_sym, (del_via_head_perm (ditem, 0) d LRc); lia|]. now right.
          - left. apply nth_In. lia.
          - now right. }
        subst LRc. rewrite <- app_assoc in Hin. apply in_app_or in Hin. destruct Hin as [Hin|Hin].
        * unfold pairs_of in Hin. apply in_map_iff in Hin. destruct Hin as (x & <- & Hx). cbn. now apply HMtau.
        * apply (tau_trans (snd p) (vtot s) wc (qn (rr s)) (qn (nc - 1))); auto.
          -- apply qn_pos; lia.
          -- apply qn_nonneg.
    - intros E. exfalso. apply (f_equal (@length _)) in E. rewrite Hlen in E. simpl in E. lia.
  Qed.

  (* ---------------- grow_candidate_set ---------------- *)
  Lemma grow_candidate_set_spec (s : vo) wc nc c inp :
    Mid s wc nc -> (length (vM s) < 2)%nat -> prov (vH s) (vM s) (vR s) (vtot s) (rr s) inp ->
    exists s' c', grow_candidate_set s wc nc c = Some (s', c') /\
      (forall y, In y (vH s) \/ In y (vM s) -> kept s' y) /\
      Rest s' /\ Est s' /\ provR s' inp /\
      sumw (vH s') + vtot s' == sumw (vH s) + wc /\
      vtot s * qn (rr s') <= vtot s' * qn (rr s) /\
      vk s' = vk s /\ vn s' = vn s /\ vgad s' = vgad s.
  Proof.
    intros HM Hm2 HP. unfold VarOptDefs.grow_candidate_set.
    assert (Hmm : mm s = length (vM s)) by (unfold mm; rewrite (mid_mb _ _ _ HM); lia).
    pose proof (mid_full _ _ _ HM). pose proof (mid_nc _ _ _ HM). pose proof (mid_nc2 _ _ _ HM).
    replace (hh s + mm s + rr s =? vk s + 1)%nat with true by (symmetry; apply Nat.eqb_eq; lia).
    destruct (Nat.ltb_spec nc 1); [lia|].
    replace (nc =? mm s + rr s)%nat with true by (symmetry; apply Nat.eqb_eq; lia).
    destruct (Nat.leb_spec 2 (mm s)); [lia|]. cbn [orb negb].
    destruct (grow_loop_spec (hh s) s wc nc inp (le_n _) HM HP)
      as (s1 & wc1 & nc1 & E1 & Hsl1 & HM1 & HP1 & Hex1 & Hsum1 & Et1 & ER1 & Ek1 & En1 & Eg1).
    rewrite E1.
    destruct (downsample_spec s1 wc1 nc1 c inp HM1 HP1 Hex1)
      as (s2 & c2 & E2 & HR2 & HE2 & HP2 & Et2 & Er2 & EH2 & Ek2 & En2 & Eg2).
    exists s2, c2. split; [exact E2|].
    split.
    { intros y Hy. apply Hsl1 in Hy. destruct Hy as [Hy|Hy]; [left; rewrite EH2; exact Hy|right].
      split; [destruct HE2 as (Hr2 & _); exact Hr2|]. rewrite Er2, Et2. apply (mid_Mtau _ _ _ HM1). exact Hy. }
    split; [exact HR2|]. split; [exact HE2|]. split; [exact HP2|].
    split; [rewrite EH2, Et2; exact Hsum1|].
    split; [|repeat split; congruence].
    rewrite Er2, Et2. pose proof (mid_tau _ _ _ HM1) as T. rewrite Et1 in T. unfold rr in *. rewrite ER1 in T. exact T.
  Qed.

  (* ---------------- small arithmetic facts ---------------- *)
  Lemma Qlt_div_mult a b c : 0 < c -> a < b / c -> a * c < b.
  Proof.
    intros Hc H. assert (E : b / c * c == b) by (field; lra).
    apply (Qmult_lt_r _ _ c Hc) in H. lra.
  Qed.
  Lemma Qdiv_le_mult a b c : 0 < c -> b / c <= a -> b <= a * c.
  Proof.
    intros Hc H. assert (E : b / c * c == b) by (field; lra).
    apply (Qmult_le_r _ _ c Hc) in H. lra.
  Qed.

  Lemma perm_snoc {A} (l : list A) a : Permutation (l ++ [a]) (a :: l).
  Proof. apply Permutation_sym, Permutation_cons_append. Qed.

  Lemma in_hd_wtat (H : list slot) : H <> [] -> In (nth 0 H dslot) H.
  Proof. destruct H; [congruence|]. intros _. now left. Qed.

  (* ---------------- push ---------------- *)
  Lemma push_proj (s : vo) x w mark :
    let s1 := push s x w mark in
    vH s1 = VarOptDefs.sift_up Item ditem Q 0 Qltb (length (vH s ++ [mkslot x w mark])) (vH s ++ [mkslot x w mark]) (hh s) /\
    vM s1 = vM s /\ vR s1 = vR s /\ vk s1 = vk s /\ vn s1 = vn s /\ vtot s1 = vtot s /\ vmb s1 = vmb s /\ vgad s1 = vgad s.
  Proof. unfold VarOptDefs.push. destruct (vgad s && mark)%bool; cbn; repeat split. Qed.

  Lemma push_spec (s : vo) x w mark :
    let s1 := push s x w mark in
    Permutation (vH s ++ [mkslot x w mark]) (vH s1) /\ (hp (vH s) -> hp (vH s1)) /\ hh s1 = S (hh s) /\
    vM s1 = vM s /\ vR s1 = vR s /\ vk s1 = vk s /\ vn s1 = vn s /\ vtot s1 = vtot s /\ vmb s1 = vmb s /\ vgad s1 = vgad s.
  Proof.
    intros s1. destruct (push_proj s x w mark) as (EH & EM & ER & Ek & En & Et & Emb & Eg). fold s1 in EH, EM, ER, Ek, En, Et, Emb, Eg.
    assert (P : Permutation (vH s ++ [mkslot x w mark]) (vH s1)).
    { rewrite EH. apply Hup_perm. unfold hh. rewrite app_length. simpl. lia. }
    split; [exact P|]. split; [intros Hh; rewrite EH; now apply Hpush|].
    split; [unfold hh; apply Permutation_length in P; rewrite app_length in P; simpl in P; lia|].
    repeat split; assumption.
  Qed.

  (* ---------------- the three estimation-mode updates ---------------- *)
  Definition Post (s s' : vo) (inp : list (Item * Q)) (x : Item) (w : Q) : Prop :=
    Rest s' /\ Est s' /\ provR s' (inp ++ [(x, w)]) /\
    sumw (vH s') + vtot s' == sumw (vH s) + vtot s + w /\
    vk s' = vk s /\ vn s' = vn s /\ vgad s' = vgad s.

  Lemma update_light_spec (s : vo) x w mark c inp :
    Rest s -> Est s -> provR s inp -> 0 < w ->
    (hh s = 0%nat \/ w <= wtat (vH s) 0) -> w * qn (rr s) < w + vtot s ->
    exists s' c', update_light s x w mark c = Some (s', c') /\ Post s s' inp x w /\
                  vtot s * qn (rr s') <= vtot s' * qn (rr s) /\
                  (forall y, In y (vH s) \/ y = mkslot x w mark -> kept s' y).
  Proof.
    intros (HM0 & Hmb & HposH & Hk & _) (Hr & Hhr & Htot & Hhp & HHtau & Hn) (HP & _) Hw Hc1 Hc2.
    unfold VarOptDefs.update_light.
    destruct (Nat.eqb_spec (rr s) 0); [lia|].
    replace (rr s + hh s =? vk s)%nat with true by (symmetry; apply Nat.eqb_eq; lia). cbn [orb negb].
    rewrite HM0.
    set (s1 := set_M Item Q s [mkslot x w mark]).
    assert (HM1 : Mid s1 (vtot s + w) (rr s + 1)).
    { constructor.
      - exact Hmb.
      - change (hh s + 1 + rr s = vk s + 1)%nat. lia.
      - change (rr s + 1 = 1 + rr s)%nat. lia.
      - lia.
      - exact Hr.
      - exact Hhp.
      - exact HposH.
      - constructor; [exact Hw|constructor].
      - exact Htot.
      - change (vtot s + w == (w + 0) + vtot s). lra.
      - intros a y [<-|[]] Hy. change (w <= s_wt y). change (In y (vH s)) in Hy. destruct Hc1 as [E0|L].
        + unfold hh in E0. destruct (vH s); [destruct Hy|simpl in E0; lia].
        + eapply Qle_trans; [exact L|]. now apply hp_min_in.
      - intros a [<-|[]]. change (w * qn (rr s + 1 - 1) <= vtot s + w).
        replace (rr s + 1 - 1)%nat with (rr s) by lia. lra.
      - change (vtot s * qn (rr s + 1 - 1) <= (vtot s + w) * qn (rr s)).
        replace (rr s + 1 - 1)%nat with (rr s) by lia.
        pose proof (qn_pos (rr s) ltac:(lia)). nra.
      - exact HHtau.
      - exact Hn. }
    assert (HP1 : prov (vH s1) (vM s1) (vR s1) (vtot s1) (rr s1) (inp ++ [(x, w)])).
    { destruct HP as (LR & LD & P & EF & Hb). exists LR, LD. split; [|split; [exact EF|exact Hb]].
      change (Permutation (inp ++ [(x, w)]) (pairs_of (vH s) ++ ((x, w) :: nil) ++ LR ++ LD)).
      eapply perm_trans; [apply perm_snoc|]. cbn [pairs_of map app] in *.
      eapply perm_trans; [apply perm_skip, P|]. apply Permutation_middle. }
    destruct (grow_candidate_set_spec s1 _ _ c _ HM1 ltac:(subst s1; simpl; lia) HP1)
      as (s' & c' & E & Hsl & HR' & HE' & HP' & Hsum & Htau & Ek & En & Eg).
    exists s', c'. split; [exact E|]. split; [|split; [exact Htau|]].
    2:{ intros y [Hy| ->]; apply Hsl; [left; exact Hy|right; now left]. }
    unfold Post. split; [exact HR'|]. split; [exact HE'|]. split; [exact HP'|].
    split; [|split; [exact Ek|split; [exact En|exact Eg]]].
    rewrite Hsum. change (vH s1) with (vH s). lra.
  Qed.

  Lemma update_heavy_general_spec (s : vo) x w mark c inp :
    Rest s -> Est s -> provR s inp -> 0 < w -> (2 <= rr s)%nat -> vtot s <= w * qn (rr s) ->
    exists s' c', update_heavy_general s x w mark c = Some (s', c') /\ Post s s' inp x w /\
                  vtot s * qn (rr s') <= vtot s' * qn (rr s) /\
                  (forall y, In y (vH s) \/ y = mkslot x w mark -> kept s' y).
  Proof.
    intros (HM0 & Hmb & HposH & Hk & _) (Hr & Hhr & Htot & Hhp & HHtau & Hn) (HP & _) Hw Hr2 Hheavy.
    unfold VarOptDefs.update_heavy_general.
    assert (Hmm : mm s = 0%nat) by (unfold mm; rewrite HM0, Hmb; reflexivity).
    destruct (Nat.ltb_spec (rr s) 2); [lia|]. rewrite Hmm.
    replace (rr s + hh s =? vk s)%nat with true by (symmetry; apply Nat.eqb_eq; lia). cbn [orb negb Nat.eqb].
    destruct (push_spec s x w mark) as (Pp & Hhp1 & Hh1 & EM & ER & Ek & En & Et & Emb & Eg).
    set (s1 := push s x w mark) in *.
    assert (Err : rr s1 = rr s) by (unfold rr; now rewrite ER).
    assert (HinH : forall y, In y (vH s1) -> In y (vH s) \/ y = mkslot x w mark).
    { intros y Hy. eapply Permutation_in in Hy; [|apply Permutation_sym, Pp]. apply in_app_or in Hy.
      destruct Hy as [Hy|[<-|[]]]; auto. }
    assert (HM1 : Mid s1 (vtot s1) (rr s1)).
    { constructor; rewrite ?EM, ?Err, ?Ek, ?En, ?Et, ?Emb, ?HM0.
      - exact Hmb.
      - rewrite Hh1. simpl. lia.
      - reflexivity.
      - lia.
      - lia.
      - now apply Hhp1.
      - eapply wpos_perm; [exact Pp|]. apply Forall_app. split; [exact HposH|]. constructor; [exact Hw|constructor].
      - constructor.
      - exact Htot.
      - simpl. lra.
      - intros a y [].
      - intros a [].
      - rewrite (qn_pred (rr s)) by lia. pose proof (qn_nonneg (rr s - 1)). nra.
      - intros y Hy. destruct (HinH y Hy) as [Hy'| ->]; [now apply HHtau|exact Hheavy].
      - exact Hn. }
    assert (HP1 : prov (vH s1) (vM s1) (vR s1) (vtot s1) (rr s1) (inp ++ [(x, w)])).
    { destruct HP as (LR & LD & P & EF & Hb). exists LR, LD. rewrite EM, ER, Et, Err, HM0. split; [|split; [exact EF|exact Hb]].
      eapply perm_trans; [apply Permutation_app_tail, P|].
      eapply perm_trans; [|apply Permutation_app_tail, pairs_perm, Pp].
      unfold pairs_of. rewrite map_app. cbn [map app]. rewrite <- !app_assoc. apply Permutation_app_head.
      rewrite app_assoc. cbn. apply perm_snoc. }
    destruct (grow_candidate_set_spec s1 _ _ c _ HM1 ltac:(rewrite EM, HM0; simpl; lia) HP1)
      as (s' & c' & E & Hsl & HR' & HE' & HP' & Hsum & Htau & Ek' & En' & Eg').
    exists s', c'. split; [exact E|]. split; [|split; [rewrite Et, Err in Htau; exact Htau|]].
    2:{ intros y Hy. apply Hsl. left. eapply Permutation_in; [exact Pp|]. apply in_or_app.
        destruct Hy as [Hy| ->]; [now left|right; now left]. }
    unfold Post. split; [exact HR'|]. split; [exact HE'|]. split; [exact HP'|].
    split; [|repeat split; congruence].
    rewrite Hsum, Et, <- (sumw_perm _ _ Pp), sumw_app. simpl. lra.
  Qed.

  Lemma update_heavy_r_eq1_spec (s : vo) x w mark c inp :
    Rest s -> Est s -> provR s inp -> 0 < w -> rr s = 1%nat -> vtot s <= w * qn (rr s) ->
    exists s' c', update_heavy_r_eq1 s x w mark c = Some (s', c') /\ Post s s' inp x w /\
                  vtot s * qn (rr s') <= vtot s' * qn (rr s) /\
                  (forall y, In y (vH s) \/ y = mkslot x w mark -> kept s' y).
  Proof.
    intros (HM0 & Hmb & HposH & Hk & _) (Hr & Hhr & Htot & Hhp & HHtau & Hn) (HP & _) Hw Hr1 Hheavy.
    unfold VarOptDefs.update_heavy_r_eq1.
    assert (Hmm : mm s = 0%nat) by (unfold mm; rewrite HM0, Hmb; reflexivity).
    rewrite Hmm, Hr1.
    replace (1 + hh s =? vk s)%nat with true by (symmetry; apply Nat.eqb_eq; lia). cbn [orb negb Nat.eqb].
    destruct (push_spec s x w mark) as (Pp & Hhp1 & Hh1 & EM & ER & Ek & En & Et & Emb & Eg).
    set (s1 := push s x w mark) in *.
    assert (Err : rr s1 = rr s) by (unfold rr; now rewrite ER).
    assert (HinH : forall y, In y (vH s1) -> In y (vH s) \/ y = mkslot x w mark).
    { intros y Hy. eapply Permutation_in in Hy; [|apply Permutation_sym, Pp]. apply in_app_or in Hy.
      destruct Hy as [Hy|[<-|[]]]; auto. }
    destruct (vH s1) as [|root t] eqn:EH1; [unfold hh in Hh1; rewrite EH1 in Hh1; simpl in Hh1; lia|].
    rewrite <- EH1 in *.
    assert (Hfull1 : (hh s1 + mm s1 + rr s1 = vk s1 + 1)%nat) by (unfold mm; rewrite EM, Emb, HM0, Err, Ek, Hh1; simpl; lia).
    destruct (pop_min_spec s1 root t EH1 Hfull1) as (s2 & E2 & EM2 & ER2 & Ek2 & En2 & Et2 & Emb2 & Eg2 & Pm & Hh2).
    rewrite E2, EM2.
    destruct (Hh2 (Hhp1 Hhp)) as [Hhp2 Hmin2].
    assert (Err2 : rr s2 = rr s) by (unfold rr in *; now rewrite ER2).
    assert (Hlen2 : hh s2 = hh s).
    { apply Permutation_length in Pm. unfold hh in *. simpl in *. lia. }
    assert (Hpos1 : wpos (root :: vH s2)).
    { eapply wpos_perm; [exact Pm|]. eapply wpos_perm; [exact Pp|].
      apply Forall_app. split; [exact HposH|]. constructor; [exact Hw|constructor]. }
    assert (Hroot : In root (vH s1)) by (rewrite EH1; now left).
    assert (Hrt : vtot s <= s_wt root * qn (rr s)).
    { destruct (HinH root Hroot) as [Hy| ->]; [now apply HHtau|exact Hheavy]. }
    assert (Hq1 : qn (rr s) = 1) by (rewrite Hr1; reflexivity).
    assert (HM2 : Mid s2 (s_wt root + vtot s2) 2).
    { constructor; rewrite ?EM2, ?Err2, ?Ek2, ?En2, ?Et2, ?Emb2, ?EM, ?Ek, ?En, ?Et, ?Emb, ?HM0, ?Hlen2.
      - exact Hmb.
      - simpl. lia.
      - simpl. lia.
      - lia.
      - lia.
      - exact Hhp2.
      - now inversion Hpos1.
      - constructor; [now inversion Hpos1|constructor].
      - exact Htot.
      - simpl. lra.
      - intros a y [<-|[]] Hy. now apply Hmin2.
      - intros a [<-|[]]. change (qn (2 - 1)) with 1. lra.
      - change (qn (2 - 1)) with 1. rewrite Hq1. assert (0 < s_wt root) by (now inversion Hpos1). lra.
      - intros y Hy. assert (Hy1 : In y (vH s1)).
        { eapply Permutation_in; [apply Permutation_sym, Pm|]. now right. }
        destruct (HinH y Hy1) as [Hy'| ->]; [now apply HHtau|exact Hheavy].
      - exact Hn. }
    assert (HP2 : prov (vH s2) (vM s2) (vR s2) (vtot s2) (rr s2) (inp ++ [(x, w)])).
    { destruct HP as (LR & LD & P & EF & Hb). exists LR, LD. rewrite EM2, ER2, Et2, Err2, EM, ER, Et, HM0. split; [|split; [exact EF|exact Hb]].
      assert (PH : Permutation (pairs_of (vH s) ++ [(x, w)]) ((s_item root, s_wt root) :: pairs_of (vH s2))).
      { change [(x, w)] with (pairs_of [mkslot x w mark]). unfold pairs_of. rewrite <- map_app.
        change ((s_item root, s_wt root) :: map (fun x0 : slot => (s_item x0, s_wt x0)) (vH s2))
          with (map (fun x0 : slot => (s_item x0, s_wt x0)) (root :: vH s2)).
        apply Permutation_map. eapply perm_trans; [exact Pp|exact Pm]. }
      eapply perm_trans; [apply perm_snoc|].
      eapply perm_trans; [apply perm_skip, P|]. cbn [pairs_of map app].
      change (Permutation (((x, w) :: pairs_of (vH s)) ++ (LR ++ LD))
                          (pairs_of (vH s2) ++ (s_item root, s_wt root) :: LR ++ LD)).
      eapply perm_trans; [apply Permutation_app_tail; eapply perm_trans; [apply Permutation_sym, perm_snoc|exact PH]|].
      cbn [app]. apply Permutation_middle. }
    destruct (grow_candidate_set_spec s2 _ _ c _ HM2 ltac:(rewrite EM2, EM, HM0; simpl; lia) HP2)
      as (s' & c' & E & Hsl & HR' & HE' & HP' & Hsum & Htau & Ek' & En' & Eg').
    exists s', c'. split; [exact E|]. split; [|split; [rewrite Et2, Et, Err2 in Htau; rewrite Hr1 in Htau; exact Htau|]].
    2:{ intros y Hy. apply Hsl.
        assert (Hy1 : In y (vH s1)).
        { eapply Permutation_in; [exact Pp|]. apply in_or_app. destruct Hy as [Hy| ->]; [now left|right; now left]. }
        eapply Permutation_in in Hy1; [|exact Pm]. destruct Hy1 as [<-|Hy1]; [right; rewrite EM2; now left|now left]. }
    unfold Post. split; [exact HR'|]. split; [exact HE'|]. split; [exact HP'|].
    split; [|repeat split; congruence].
    rewrite Hsum, Et2, Et.
    assert (S1 : sumw (vH s) + w == s_wt root + sumw (vH s2)).
    { rewrite <- (sumw_perm _ _ Pm), <- (sumw_perm _ _ Pp), sumw_app. simpl. lra. }
    lra.
  Qed.

  (* ---------------- transition_from_warmup ---------------- *)
  Lemma transition_spec (s : vo) c inp :
    vM s = [] -> vmb s = 0%nat -> vR s = [] -> (1 <= vk s)%nat -> hh s = (vk s + 1)%nat -> wpos (vH s) ->
    (Z.of_nat (vk s) < vn s)%Z -> Permutation inp (pairs_of (vH s)) ->
    exists s' c', transition_from_warmup s c = Some (s', c') /\
      Rest s' /\ Est s' /\ provR s' inp /\ sumw (vH s') + vtot s' == sumw (vH s) /\
      vk s' = vk s /\ vn s' = vn s /\ vgad s' = vgad s /\
      (forall y, In y (vH s) -> kept s' y).
  Proof.
    intros HM0 Hmb HR0 Hk Hh HposH Hn P.
    unfold VarOptDefs.transition_from_warmup.
    set (s0 := set_H Item Q s (convert_to_heap (vH s))).
    pose proof (Hconv (vH s)) as Hhp0. pose proof (Hconv_perm (vH s)) as P0.
    change (convert_to_heap (vH s)) with (vH s0) in Hhp0, P0.
    assert (Hh0 : hh s0 = (vk s + 1)%nat) by (unfold hh in *; apply Permutation_length in P0; lia).
    destruct (vH s0) as [|b t0] eqn:EH0; [unfold hh in Hh0; rewrite EH0 in Hh0; simpl in Hh0; lia|].
    rewrite <- EH0 in *.
    assert (Hfull0 : (hh s0 + mm s0 + rr s0 = vk s0 + 1)%nat).
    { change (mm s0) with (mm s). change (rr s0) with (rr s). change (vk s0) with (vk s).
      unfold mm, rr. rewrite HM0, Hmb, HR0, Hh0. simpl. lia. }
    destruct (pop_min_spec s0 b t0 EH0 Hfull0) as (s1 & E1 & EM1 & ER1 & Ek1 & En1 & Et1 & Emb1 & Eg1 & Pm1 & Hh1).
    rewrite E1. destruct (Hh1 Hhp0) as [Hhp1 Hmin1].
    assert (Hlen1 : hh s1 = vk s) by (apply Permutation_length in Pm1; unfold hh in *; simpl in *; lia).
    destruct (vH s1) as [|a t1] eqn:EH1; [unfold hh in Hlen1; rewrite EH1 in Hlen1; simpl in Hlen1; lia|].
    rewrite <- EH1 in *.
    change (vM s0) with (vM s) in EM1. change (vR s0) with (vR s) in ER1. change (vk s0) with (vk s) in Ek1.
    change (vn s0) with (vn s) in En1. change (vtot s0) with (vtot s) in Et1. change (vmb s0) with (vmb s) in Emb1.
    change (vgad s0) with (vgad s) in Eg1.
    assert (Hfull1 : (hh s1 + mm s1 + rr s1 = vk s1 + 1)%nat).
    { unfold mm, rr. rewrite EM1, Emb1, ER1, Ek1, HM0, Hmb, HR0, Hlen1. simpl. lia. }
    destruct (pop_min_spec s1 a t1 EH1 Hfull1) as (s2 & E2 & EM2 & ER2 & Ek2 & En2 & Et2 & Emb2 & Eg2 & Pm2 & Hh2).
    rewrite E2. destruct (Hh2 Hhp1) as [Hhp2 Hmin2].
    assert (Hlen2 : hh s2 = (vk s - 1)%nat) by (apply Permutation_length in Pm2; unfold hh in *; simpl in *; lia).
    rewrite EM2, EM1, HM0, ER2, ER1, HR0.
    replace (hh s2 =? vk s2 - 1)%nat with true by (symmetry; apply Nat.eqb_eq; rewrite Ek2, Ek1; exact Hlen2).
    replace (vmb s2 =? 0)%nat with true by (symmetry; apply Nat.eqb_eq; rewrite Emb2, Emb1; exact Hmb).
    cbn [orb negb].
    set (s3 := set_tot Item Q (set_R Item Q (set_M Item Q s2 [a]) [s_item b]) (s_wt b)).
    assert (Hpos0 : wpos (b :: a :: vH s2)).
    { eapply wpos_perm; [|exact HposH]. eapply perm_trans; [exact P0|]. eapply perm_trans; [exact Pm1|].
      apply perm_skip. exact Pm2. }
    assert (Hb : 0 < s_wt b) by (now inversion Hpos0).
    assert (Ha : 0 < s_wt a) by (inversion Hpos0 as [|? ? ? Hp']; now inversion Hp').
    assert (HposH2 : wpos (vH s2)) by (inversion Hpos0 as [|? ? ? Hp']; now inversion Hp').
    assert (Hba : s_wt b <= s_wt a) by (apply Hmin1; rewrite EH1; now left).
    assert (HM3 : Mid s3 (s_wt a + s_wt b) 2).
    { constructor.
      - change (vmb s2 = 0%nat). rewrite Emb2, Emb1. exact Hmb.
      - change (hh s2 + 1 + 1 = vk s2 + 1)%nat. rewrite Ek2, Ek1, Hlen2. lia.
      - reflexivity.
      - lia.
      - change (1 <= 1)%nat. lia.
      - exact Hhp2.
      - exact HposH2.
      - constructor; [exact Ha|constructor].
      - exact Hb.
      - change (s_wt a + s_wt b == (s_wt a + 0) + s_wt b). lra.
      - intros x y [<-|[]] Hy. now apply Hmin2.
      - intros x [<-|[]]. change (qn (2 - 1)) with 1. lra.
      - change (s_wt b * 1 <= (s_wt a + s_wt b) * 1). lra.
      - intros y Hy. change (s_wt b <= s_wt y * 1).
        assert (s_wt b <= s_wt y).
        { apply Hmin1. eapply Permutation_in; [apply Permutation_sym, Pm2|]. now right. }
        lra.
      - change (Z.of_nat (vk s2) < vn s2)%Z. rewrite Ek2, Ek1, En2, En1. exact Hn. }
    assert (HP3 : prov (vH s3) (vM s3) (vR s3) (vtot s3) (rr s3) inp).
    { exists [(s_item b, s_wt b)], []. split; [|split].
      - change (Permutation inp (pairs_of (vH s2) ++ ((s_item a, s_wt a) :: nil) ++ ((s_item b, s_wt b) :: nil) ++ nil)).
        eapply perm_trans; [exact P|].
        eapply perm_trans; [apply pairs_perm; eapply perm_trans; [exact P0|]; eapply perm_trans; [exact Pm1|]; apply perm_skip; exact Pm2|].
        cbn [pairs_of map app].
        eapply perm_trans; [|apply Permutation_app_comm]. cbn [app]. apply perm_swap.
      - reflexivity.
      - intros p [<-|[]]. change (s_wt b * 1 <= s_wt b). lra. }
    destruct (grow_candidate_set_spec s3 _ _ c _ HM3 ltac:(simpl; lia) HP3)
      as (s' & c' & E & Hsl & HR' & HE' & HP' & Hsum & Htau & Ek' & En' & Eg').
    exists s', c'. split; [exact E|]. split; [exact HR'|]. split; [exact HE'|]. split; [exact HP'|].
    split.
    - rewrite Hsum. change (vH s3) with (vH s2).
      rewrite (sumw_perm _ _ P0), (sumw_perm _ _ Pm1). simpl. rewrite (sumw_perm _ _ Pm2). simpl. lra.
    - change (vk s3) with (vk s2) in Ek'. change (vn s3) with (vn s2) in En'. change (vgad s3) with (vgad s2) in Eg'.
      split; [congruence|]. split; [congruence|]. split; [congruence|].
      intros y Hy. apply (Permutation_in y P0) in Hy. apply (Permutation_in y Pm1) in Hy. destruct Hy as [<-|Hy].
      + right. split; [destruct HE' as (Hr' & _); exact Hr'|].
        change (vtot s3) with (s_wt b) in Htau. change (rr s3) with 1%nat in Htau. change (qn 1) with 1 in Htau. lra.
      + apply (Permutation_in y Pm2) in Hy. destruct Hy as [<-|Hy]; apply Hsl; [right; now left|left; exact Hy].
  Qed.

  (* ---------------- warm-up ---------------- *)
  Lemma provR_warm (s : vo) inp : vR s = [] -> Permutation inp (pairs_of (vH s)) -> provR s inp.
  Proof.
    intros HR P. split; [|intros _; exact P].
    exists [], []. rewrite HR. split; [|split; [reflexivity|intros p []]].
    cbn [pairs_of map app]. now rewrite !app_nil_r.
  Qed.

  Lemma update_warmup_spec (s : vo) x w mark c inp :
    vM s = [] -> vmb s = 0%nat -> vR s = [] -> (1 <= vk s)%nat -> (hh s <= vk s)%nat -> wpos (vH s) ->
    vn s = (Z.of_nat (hh s) + 1)%Z -> vtot s == 0 -> Permutation inp (pairs_of (vH s)) -> 0 < w ->
    exists s' c', update_warmup_phase s x w mark c = Some (s', c') /\
      Rest s' /\ provR s' (inp ++ [(x, w)]) /\ sumw (vH s') + vtot s' == sumw (vH s) + vtot s + w /\
      vk s' = vk s /\ vn s' = vn s /\ vgad s' = vgad s /\
      (forall y, In y (vH s) \/ y = mkslot x w mark -> kept s' y).
  Proof.
    intros HM0 Hmb HR0 Hk Hh HposH Hn Ht P Hw.
    unfold VarOptDefs.update_warmup_phase.
    assert (Hrr : rr s = 0%nat) by (unfold rr; now rewrite HR0).
    assert (Hmm : mm s = 0%nat) by (unfold mm; now rewrite HM0, Hmb).
    rewrite Hrr, Hmm. destruct (Nat.ltb_spec (vk s) (hh s)); [lia|].
    change (0 <? 0)%nat with false. change (0 =? 0)%nat with true. cbn [orb negb].
    set (s1 := set_marks Item Q (set_H Item Q s (vH s ++ [mkslot x w mark])) _).
    assert (Hh1 : hh s1 = S (hh s)) by (unfold hh; subst s1; prj; rewrite app_length; simpl; lia).
    assert (Hpos1 : wpos (vH s1)).
    { subst s1; prj. apply Forall_app. split; [exact HposH|]. constructor; [exact Hw|constructor]. }
    assert (P1 : Permutation (inp ++ [(x, w)]) (pairs_of (vH s1))).
    { subst s1; prj. unfold pairs_of. rewrite map_app. cbn [map]. apply Permutation_app_tail. exact P. }
    assert (S1 : sumw (vH s1) == sumw (vH s) + w) by (subst s1; prj; rewrite sumw_app; simpl; lra).
    destruct (Nat.ltb_spec (vk s1) (hh s1)) as [Hlt|Hge].
    - change (vk s1) with (vk s) in Hlt.
      destruct (transition_spec s1 c (inp ++ [(x, w)]) HM0 Hmb HR0 Hk ltac:(change (vk s1) with (vk s); lia) Hpos1
                  ltac:(change (vk s1) with (vk s); change (vn s1) with (vn s); lia) P1)
        as (s' & c' & E & HR' & HE' & HP' & Hsum & Ek & En & Eg & Hslt).
      exists s', c'. split; [exact E|]. split; [exact HR'|]. split; [exact HP'|].
      split; [rewrite Hsum, S1; lra|]. split; [exact Ek|]. split; [exact En|]. split; [exact Eg|].
      intros y Hy. apply Hslt. subst s1; prj. apply in_or_app. destruct Hy as [Hy| ->]; [now left|right; now left].
    - change (vk s1) with (vk s) in Hge.
      exists s1, c. split; [reflexivity|]. split.
      + unfold Rest. split; [exact HM0|]. split; [exact Hmb|]. split; [exact Hpos1|]. split; [exact Hk|].
        left. unfold Warm. split; [exact HR0|]. split; [change (vk s1) with (vk s); lia|].
        split; [change (vn s1) with (vn s); rewrite Hh1; lia|exact Ht].
      + split; [apply provR_warm; [exact HR0|exact P1]|].
        split; [change (vtot s1) with (vtot s); rewrite S1; lra|]. split; [reflexivity|]. split; [reflexivity|]. split; [reflexivity|].
        intros y Hy. left. subst s1; prj. apply in_or_app. destruct Hy as [Hy| ->]; [now left|right; now left].
  Qed.

  (* ---------------- update ---------------- *)
  Lemma update_body_spec (s : vo) x w mark c inp :
    Rest s -> provR s inp -> 0 < w ->
    exists s' c', update_body s x w mark c = Some (s', c') /\
      Rest s' /\ provR s' (inp ++ [(x, w)]) /\
      sumw (vH s') + vtot s' == sumw (vH s) + vtot s + w /\
      vn s' = (vn s + 1)%Z /\ vk s' = vk s /\ vgad s' = vgad s /\
      (Est s -> Est s' /\ vtot s * qn (rr s') <= vtot s' * qn (rr s)) /\
      (forall y, In y (vH s) \/ y = mkslot x w mark -> kept s' y).
  Proof.
    intros HR HP Hw. unfold VarOptDefs.update_body.
    set (s1 := set_n Item Q s (vn s + 1)%Z).
    destruct HR as (HM0 & Hmb & HposH & Hk & [HW|HE]).
    - destruct HW as (HR0 & Hh & Hn & Ht).
      assert (Hrr : rr s1 = 0%nat) by (unfold rr; subst s1; prj; now rewrite HR0).
      rewrite Hrr. cbn [Nat.eqb].
      destruct HP as [_ HP2].
      destruct (update_warmup_spec s1 x w mark c inp HM0 Hmb HR0 Hk Hh HposH
                  ltac:(subst s1; unfold hh in *; prj; lia) Ht (HP2 HR0) Hw)
        as (s' & c' & E & HR' & HP' & Hsum & Ek & En & Eg & Hslw).
      exists s', c'. split; [exact E|]. split; [exact HR'|]. split; [exact HP'|]. split; [exact Hsum|].
      split; [exact En|]. split; [exact Ek|]. split; [exact Eg|]. split; [|exact Hslw].
      intros (Hr & _). unfold rr in Hr. rewrite HR0 in Hr. simpl in Hr. lia.
    - assert (HR1 : Rest s1).
      { unfold Rest. split; [exact HM0|]. split; [exact Hmb|]. split; [exact HposH|]. split; [exact Hk|].
        right. destruct HE as (Hr & Hhr & Htot & Hhp & HHtau & Hn). unfold Est. repeat split; auto.
        change (vk s1) with (vk s). change (vn s1) with (vn s + 1)%Z. lia. }
      assert (HE1 : Est s1).
      { destruct HR1 as (_ & _ & _ & _ & [(HR0 & _)|HE1]); [|exact HE1].
        destruct HE as (Hr & _). unfold rr in Hr. change (vR s1) with (vR s) in HR0. rewrite HR0 in Hr. simpl in Hr. lia. }
      assert (HP1 : provR s1 inp) by exact HP.
      destruct HE as (Hr & Hhr & Htot & Hhp & HHtau & Hn).
      change (rr s1) with (rr s). change (hh s1) with (hh s).
      destruct (Nat.eqb_spec (rr s) 0); [lia|].
      assert (Hqr : 0 < qn (rr s)) by (apply qn_pos; lia).
      unfold ofN. fold (qn (rr s)).
      assert (Hvalid : (negb (hh s =? 0)%nat && Qltb (peek_min Item ditem Q 0 s1) (get_tau s1))%bool = false).
      { destruct (Nat.eqb_spec (hh s) 0) as [|Hne]; [reflexivity|]. cbn [negb andb].
        apply Qltb_ge. unfold VarOptDefs.get_tau, VarOptDefs.peek_min, ofN. change (vH s1) with (vH s).
        change (vtot s1) with (vtot s). change (rr s1) with (rr s). fold (qn (rr s)).
        apply Qle_shift_div_r; [exact Hqr|]. apply HHtau. apply in_hd_wtat.
        unfold hh in Hne. destruct (vH s); [simpl in Hne; lia|congruence]. }
      rewrite Hvalid.
      change (vtot s1) with (vtot s).
      assert (Hfin : forall r' : option (vo * chs), (exists s' c', r' = Some (s', c') /\ Post s1 s' inp x w /\
                                  vtot s1 * qn (rr s') <= vtot s' * qn (rr s1) /\
                                  (forall y, In y (vH s1) \/ y = mkslot x w mark -> kept s' y)) ->
                exists s' c', r' = Some (s', c') /\ Rest s' /\ provR s' (inp ++ [(x, w)]) /\
                  sumw (vH s') + vtot s' == sumw (vH s) + vtot s + w /\
                  vn s' = (vn s + 1)%Z /\ vk s' = vk s /\ vgad s' = vgad s /\
                  (Est s -> Est s' /\ vtot s * qn (rr s') <= vtot s' * qn (rr s)) /\
                  (forall y, In y (vH s) \/ y = mkslot x w mark -> kept s' y)).
      { intros r' (s' & c' & E & (HR' & HE' & HP' & Hsum & Ek & En & Eg) & Htau & Hsl).
        exists s', c'. split; [exact E|]. split; [exact HR'|]. split; [exact HP'|]. split; [exact Hsum|].
        split; [exact En|]. split; [exact Ek|]. split; [exact Eg|]. split; [intros _; split; [exact HE'|exact Htau]|exact Hsl]. }
      destruct (((hh s =? 0)%nat || Qle_bool w (peek_min Item ditem Q 0 s1)) &&
                Qltb w ((w + vtot s) / qn (rr s)))%bool eqn:Ecase.
      + apply Hfin. apply andb_true_iff in Ecase. destruct Ecase as [Ec1 Ec2].
        apply update_light_spec; auto.
        * apply orb_true_iff in Ec1. destruct Ec1 as [E0|L]; [left; now apply Nat.eqb_eq|right; now apply Qleb_true].
        * apply Qltb_true in Ec2. apply Qlt_div_mult; assumption.
      + assert (Hheavy : vtot s1 <= w * qn (rr s1)).
        { change (vtot s1) with (vtot s). change (rr s1) with (rr s).
          apply andb_false_iff in Ecase. destruct Ecase as [Ec1|Ec2].
          - apply orb_false_iff in Ec1. destruct Ec1 as [E0 L]. apply Nat.eqb_neq in E0. apply Qleb_false in L.
            assert (Hin : In (nth 0 (vH s) dslot) (vH s)).
            { apply in_hd_wtat. unfold hh in E0. destruct (vH s); [simpl in E0; lia|congruence]. }
            pose proof (HHtau _ Hin) as L2. unfold VarOptDefs.peek_min, VarOptDefs.wtat in L. change (vH s1) with (vH s) in L.
            assert (s_wt (nth 0 (vH s) dslot) * qn (rr s) <= w * qn (rr s)) by (apply Qmult_le_compat_r; lra).
            lra.
          - apply Qltb_false in Ec2. apply Qdiv_le_mult in Ec2; [|exact Hqr]. lra. }
        destruct (Nat.eqb_spec (rr s) 1) as [E1|E1].
        * apply Hfin. apply update_heavy_r_eq1_spec; auto.
        * apply Hfin. apply update_heavy_general_spec; auto. change (rr s1) with (rr s). lia.
  Qed.
End QI.
