(* HllRegsProofs.v — register codecs of the HLL arrays.
   Part 1: 4-bit slots (get4/put4).  Part 2: the sequential decoders used by [hll_regs] (nibbles, sixes,
   regs4_from) agree slot by slot with getSlot (get4, get6, hll_get).  Part 3: the coupons of a register
   array (pair(slot, value) of the non-empty slots) reproduce the registers when replayed. *)
From Coq Require Import ZArith NArith List Bool Lia.
From DS Require Import Word RunnerLib HllDefs HllProofs.
Import ListNotations.
Local Open Scope N_scope.

Lemma forall_byte (P : N -> bool) : forallb P (seqN 256) = true -> forall b, b < 256 -> P b = true.
Proof. intros H b Hb. rewrite forallb_forall in H. apply H. now apply in_seqN. Qed.

Lemma forall_nib (P : N -> bool) : forallb P (seqN 16) = true -> forall b, b < 16 -> P b = true.
Proof. intros H b Hb. rewrite forallb_forall in H. apply H. now apply in_seqN. Qed.

(* ---------- Part 1: nibbles ---------- *)
Definition nib_chk (old v : N) : bool :=
  let lo := N.lor (N.land old 240) (N.land v 15) in
  let hi := N.lor (N.land old 15) (N.land (N.shiftl v 4) 240) in
  (N.land lo 15 =? v) && (N.shiftr lo 4 =? N.shiftr old 4)
  && (N.shiftr hi 4 =? v) && (N.land hi 15 =? N.land old 15).

Lemma nib_chk_all : forallb (fun old => forallb (nib_chk old) (seqN 16)) (seqN 256) = true.
Proof. vm_compute. reflexivity. Qed.

Lemma nib_facts old v : old < 256 -> v < 16 ->
  N.land (N.lor (N.land old 240) (N.land v 15)) 15 = v /\
  N.shiftr (N.lor (N.land old 240) (N.land v 15)) 4 = N.shiftr old 4 /\
  N.shiftr (N.lor (N.land old 15) (N.land (N.shiftl v 4) 240)) 4 = v /\
  N.land (N.lor (N.land old 15) (N.land (N.shiftl v 4) 240)) 15 = N.land old 15.
Proof.
  intros Ho Hv. pose proof (forall_byte _ nib_chk_all old Ho) as H. cbv beta in H.
  pose proof (forall_nib _ H v Hv) as F. unfold nib_chk in F. cbv zeta in F.
  apply andb_true_iff in F. destruct F as [F F4]. apply andb_true_iff in F. destruct F as [F F3].
  apply andb_true_iff in F. destruct F as [F1 F2].
  apply N.eqb_eq in F1, F2, F3, F4. auto.
Qed.

Lemma land_lt_r a m n : m < 2 ^ n -> N.land a m < 2 ^ n.
Proof.
  intros H. apply lt_pow2_of_bits. intros t Ht. rewrite N.land_spec.
  rewrite (small_testbit_high m n t H Ht). apply andb_false_r.
Qed.

Lemma lor_lt a b n : a < 2 ^ n -> b < 2 ^ n -> N.lor a b < 2 ^ n.
Proof.
  intros Ha Hb. apply lt_pow2_of_bits. intros t Ht. rewrite N.lor_spec.
  now rewrite (small_testbit_high a n t Ha Ht), (small_testbit_high b n t Hb Ht).
Qed.

Lemma half_odd s : s = 2 * N.shiftr s 1 + N.b2n (N.odd s).
Proof. rewrite <- N.div2_spec. apply N.div2_odd. Qed.

Lemma get4_lt b s : bytes_ok b -> get4 b s < 16.
Proof.
  intros Hb. unfold get4. pose proof (getN_bytes_ok b (N.shiftr s 1) Hb) as H.
  destruct (N.odd s).
  - rewrite N.shiftr_div_pow2. change (2 ^ 4) with 16. apply N.div_lt_upper_bound; lia.
  - change 15 with (N.ones 4). rewrite N.land_ones. apply N.mod_lt. discriminate.
Qed.

Lemma put4_length b s v : lenN (put4 b s v) = lenN b.
Proof. unfold put4. destruct (N.odd s); apply lenN_setN. Qed.

Lemma put4_bytes_ok b s v : bytes_ok b -> bytes_ok (put4 b s v).
Proof.
  intros Hb. unfold put4. change 256 with (2 ^ 8).
  destruct (N.odd s); apply bytes_ok_setN; auto; change 256 with (2 ^ 8);
    apply lor_lt; apply land_lt_r; reflexivity.
Qed.

Lemma get4_put4 b s s' v : bytes_ok b -> N.shiftr s 1 < lenN b -> v < 16 ->
  get4 (put4 b s v) s' = if s =? s' then v else get4 b s'.
Proof.
  intros Hb Hl Hv. pose proof (half_odd s) as Es. pose proof (half_odd s') as Es'.
  pose proof (getN_bytes_ok b (N.shiftr s 1) Hb) as Hold.
  destruct (nib_facts _ _ Hold Hv) as (F1 & F2 & F3 & F4).
  unfold get4, put4.
  destruct (N.odd s) eqn:Os; rewrite getN_setN by exact Hl;
    destruct (N.eqb_spec (N.shiftr s 1) (N.shiftr s' 1)) as [Eb|Eb];
    destruct (N.odd s') eqn:Os'; destruct (N.eqb_spec s s') as [E|E];
    cbn [N.b2n] in *; try lia; try rewrite <- Eb; auto; try congruence.
Qed.

Lemma get4_zeros n s : get4 (zerosN n) s = 0.
Proof. unfold get4. rewrite getN_zerosN. destruct (N.odd s); reflexivity. Qed.

(* ---------- Part 2: sequential decoders ---------- *)
Lemma take_pad_exact k (l : list N) : length l = k -> take_pad k l = l.
Proof.
  intros H. unfold take_pad. rewrite firstn_app, H, Nat.sub_diag. cbn [firstn].
  rewrite app_nil_r. subst k. apply firstn_all.
Qed.

Lemma hll_regs_T8 h : h_ty h = T8 -> lenN (h_bytes h) = 2 ^ h_lgk h -> hll_regs h = Some (h_bytes h).
Proof.
  intros Ht Hl. unfold hll_regs. rewrite Ht. f_equal. apply take_pad_exact. unfold lenN in Hl. lia.
Qed.

Lemma getN_cons x t j : getN (x :: t) (j + 1) = getN t j.
Proof. unfold getN. replace (N.to_nat (j + 1)) with (S (N.to_nat j)) by lia. reflexivity. Qed.

Lemma get4_cons x t s : get4 (x :: t) (s + 2) = get4 t s.
Proof.
  unfold get4. replace (N.shiftr (s + 2) 1) with (N.shiftr s 1 + 1).
  - rewrite getN_cons. replace (N.odd (s + 2)) with (N.odd s); [reflexivity|].
    symmetry. replace (s + 2) with (s + 2 * 1) by lia. apply N.odd_add_mul_2.
  - rewrite !N.shiftr_div_pow2. change (2 ^ 1) with 2. dlia.
Qed.

Lemma nibbles_nth b : forall n, nth n (nibbles b) 0 = get4 b (N.of_nat n).
Proof.
  induction b as [|x t IH]; intros n.
  - cbn [nibbles]. unfold get4, getN. destruct n; cbn [nth]; destruct (N.to_nat _); cbn [nth]; destruct (N.odd _); reflexivity.
  - destruct n as [|[|m]]; cbn [nibbles nth].
    + reflexivity.
    + reflexivity.
    + rewrite IH. replace (N.of_nat (S (S m))) with (N.of_nat m + 2) by lia. now rewrite get4_cons.
Qed.

Lemma nibbles_length b : length (nibbles b) = (2 * length b)%nat.
Proof. induction b; cbn [nibbles length]; lia. Qed.

Lemma nibbles_pointwise lgk b : 1 <= lgk -> lenN b = 2 ^ (lgk - 1) -> bytes_ok b ->
  take_pad (N.to_nat (2 ^ lgk)) (nibbles b) = map (get4 b) (seqN (2 ^ lgk)).
Proof.
  intros Hk Hl _.
  assert (E : 2 ^ lgk = 2 * 2 ^ (lgk - 1)).
  { replace lgk with (1 + (lgk - 1)) at 1 by lia. rewrite N.pow_add_r. reflexivity. }
  assert (Hlen : length (nibbles b) = N.to_nat (2 ^ lgk)).
  { rewrite nibbles_length. unfold lenN in Hl. lia. }
  rewrite take_pad_exact by exact Hlen.
  apply list_ext_getN.
  - rewrite map_length. pose proof (seqN_length (2 ^ lgk)) as H. unfold lenN in H. lia.
  - intros i Hi. unfold lenN in Hi. rewrite Hlen in Hi. rewrite getN_map_seqN by lia.
    unfold getN at 1. rewrite nibbles_nth. f_equal. lia.
Qed.

(* six-bit slots: slot 4q+r lives in bytes 3q .. 3q+3 *)
Lemma get6_at b s : get6 b s =
  N.land (N.shiftr (N.lor (N.shiftl (getN b (s * 6 / 8 + 1)) 8) (getN b (s * 6 / 8))) ((s * 6) mod 8)) 63.
Proof.
  unfold get6. change (N.land (s * 6) 7) with (N.land (s * 6) (N.ones 3)).
  rewrite N.land_ones. rewrite (N.shiftr_div_pow2 (s * 6) 3). reflexivity.
Qed.

Definition six_chk (x y : N) : bool :=
  (N.land (N.shiftr (N.lor (N.shiftl y 8) x) 0) 63 =? N.land x 63)
  && (N.land (N.shiftr (N.lor (N.shiftl y 8) x) 6) 63 =? N.lor (N.shiftr x 6) (N.shiftl (N.land y 15) 2))
  && (N.land (N.shiftr (N.lor (N.shiftl y 8) x) 4) 63 =? N.lor (N.shiftr x 4) (N.shiftl (N.land y 3) 4))
  && (N.land (N.shiftr (N.lor (N.shiftl y 8) x) 2) 63 =? N.shiftr x 2).

Lemma six_chk_all : forallb (fun x => forallb (six_chk x) (seqN 256)) (seqN 256) = true.
Proof. vm_compute. reflexivity. Qed.

Lemma six_facts x y : x < 256 -> y < 256 ->
  N.land (N.shiftr (N.lor (N.shiftl y 8) x) 0) 63 = N.land x 63 /\
  N.land (N.shiftr (N.lor (N.shiftl y 8) x) 6) 63 = N.lor (N.shiftr x 6) (N.shiftl (N.land y 15) 2) /\
  N.land (N.shiftr (N.lor (N.shiftl y 8) x) 4) 63 = N.lor (N.shiftr x 4) (N.shiftl (N.land y 3) 4) /\
  N.land (N.shiftr (N.lor (N.shiftl y 8) x) 2) 63 = N.shiftr x 2.
Proof.
  intros Hx Hy. pose proof (forall_byte _ six_chk_all x Hx) as H. cbv beta in H.
  pose proof (forall_byte _ H y Hy) as F. unfold six_chk in F.
  apply andb_true_iff in F. destruct F as [F F4]. apply andb_true_iff in F. destruct F as [F F3].
  apply andb_true_iff in F. destruct F as [F1 F2].
  apply N.eqb_eq in F1, F2, F3, F4. auto.
Qed.

Lemma getN_cons3 a b c t j : getN (a :: b :: c :: t) (j + 3) = getN t j.
Proof. unfold getN. replace (N.to_nat (j + 3)) with (S (S (S (N.to_nat j)))) by lia. reflexivity. Qed.

Lemma get6_cons3 a b c t s : get6 (a :: b :: c :: t) (s + 4) = get6 t s.
Proof.
  rewrite !get6_at.
  replace ((s + 4) * 6 / 8) with (s * 6 / 8 + 3) by dlia.
  replace ((s + 4) * 6 mod 8) with (s * 6 mod 8) by dlia.
  replace (s * 6 / 8 + 3 + 1) with (s * 6 / 8 + 1 + 3) by lia.
  now rewrite !getN_cons3.
Qed.

Lemma sixes_nth q : forall b n, bytes_ok b -> (3 * q <= length b)%nat -> (n < 4 * q)%nat ->
  nth n (sixes b) 0 = get6 b (N.of_nat n).
Proof.
  induction q as [|q IH]; intros b n Hb Hl Hn; [lia|].
  destruct b as [|b0 [|b1 [|b2 t]]]; cbn [length] in Hl; try lia.
  assert (H0 : b0 < 256) by (apply (getN_bytes_ok _ 0 Hb)).
  assert (H1 : b1 < 256) by (apply (getN_bytes_ok _ 1 Hb)).
  assert (H2 : b2 < 256) by (apply (getN_bytes_ok _ 2 Hb)).
  assert (H3 : getN (b0 :: b1 :: b2 :: t) 3 < 256) by (apply (getN_bytes_ok _ 3 Hb)).
  assert (Hbt : bytes_ok t).
  { unfold bytes_ok in *. inversion Hb as [|? ? _ Hb1]; subst. inversion Hb1 as [|? ? _ Hb2]; subst.
    inversion Hb2; subst. assumption. }
  cbn [sixes].
  destruct n as [|[|[|[|m]]]]; cbn [nth].
  - rewrite get6_at. change (N.of_nat 0 * 6 / 8) with 0. change (N.of_nat 0 * 6 mod 8) with 0.
    change (getN (b0 :: b1 :: b2 :: t) (0 + 1)) with b1. change (getN (b0 :: b1 :: b2 :: t) 0) with b0.
    symmetry. apply (six_facts b0 b1 H0 H1).
  - rewrite get6_at. change (N.of_nat 1 * 6 / 8) with 0. change (N.of_nat 1 * 6 mod 8) with 6.
    change (getN (b0 :: b1 :: b2 :: t) (0 + 1)) with b1. change (getN (b0 :: b1 :: b2 :: t) 0) with b0.
    symmetry. apply (six_facts b0 b1 H0 H1).
  - rewrite get6_at. change (N.of_nat 2 * 6 / 8) with 1. change (N.of_nat 2 * 6 mod 8) with 4.
    change (getN (b0 :: b1 :: b2 :: t) (1 + 1)) with b2. change (getN (b0 :: b1 :: b2 :: t) 1) with b1.
    symmetry. apply (six_facts b1 b2 H1 H2).
  - rewrite get6_at. change (N.of_nat 3 * 6 / 8) with 2. change (N.of_nat 3 * 6 mod 8) with 2.
    change (getN (b0 :: b1 :: b2 :: t) 2) with b2. change (2 + 1) with 3.
    symmetry. apply (six_facts b2 _ H2 H3).
  - replace (N.of_nat (S (S (S (S m))))) with (N.of_nat m + 4) by lia. rewrite get6_cons3.
    apply IH; auto; lia.
Qed.

Lemma sixes_length q : forall b, (3 * q <= length b)%nat -> (length b < 3 * q + 3)%nat -> length (sixes b) = (4 * q)%nat.
Proof.
  induction q as [|q IH]; intros b H1 H2.
  - destruct b as [|b0 [|b1 [|b2 t]]]; cbn [length] in *; try lia; reflexivity.
  - destruct b as [|b0 [|b1 [|b2 t]]]; cbn [length] in *; try lia.
    cbn [sixes length]. rewrite IH by lia. lia.
Qed.

Lemma sixes_pointwise lgk b : 2 <= lgk -> lenN b = arr_bytes T6 lgk -> bytes_ok b ->
  take_pad (N.to_nat (2 ^ lgk)) (sixes b) = abs6 lgk b.
Proof.
  intros Hk Hl Hb.
  assert (E : 2 ^ lgk = 4 * 2 ^ (lgk - 2)).
  { replace lgk with (2 + (lgk - 2)) at 1 by lia. rewrite N.pow_add_r. reflexivity. }
  set (q := N.to_nat (2 ^ (lgk - 2))).
  assert (Hlb : length b = (3 * q + 1)%nat).
  { unfold arr_bytes in Hl. rewrite N.shiftr_div_pow2, E in Hl. change (2 ^ 2) with 4 in Hl.
    replace (4 * 2 ^ (lgk - 2) * 3 / 4) with (3 * 2 ^ (lgk - 2)) in Hl by dlia.
    unfold lenN in Hl. subst q. lia. }
  assert (Hlen : length (sixes b) = N.to_nat (2 ^ lgk)).
  { rewrite (sixes_length q) by lia. subst q. lia. }
  rewrite take_pad_exact by exact Hlen.
  apply list_ext_getN.
  - pose proof (abs6_length lgk b) as H. unfold lenN in H. lia.
  - intros i Hi. unfold lenN in Hi. rewrite Hlen in Hi. rewrite getN_abs6 by lia.
    unfold getN at 1. rewrite (sixes_nth q) by (auto; subst q; lia). f_equal. lia.
Qed.

Lemma hll_regs_T6 h : h_ty h = T6 -> 2 <= h_lgk h -> lenN (h_bytes h) = arr_bytes T6 (h_lgk h) -> bytes_ok (h_bytes h) ->
  hll_regs h = Some (abs6 (h_lgk h) (h_bytes h)).
Proof. intros Ht Hk Hl Hb. unfold hll_regs. rewrite Ht. f_equal. now apply sixes_pointwise. Qed.

(* HLL_4: nibble + cur_min, or the aux map for the token 15 *)
Lemma regs4_from_pointwise cm lgk ax : forall nibs i regs, length regs = length nibs ->
  (forall j, j < lenN nibs ->
     (if getN nibs j =? 15 then match ax with Some a => aux_must_find a lgk (i + j) | None => None end
      else Some (w8 (getN nibs j + cm))) = Some (getN regs j)) ->
  regs4_from cm lgk ax i nibs = Some regs.
Proof.
  induction nibs as [|r t IH]; intros i regs Hl H.
  - destruct regs; [reflexivity|discriminate].
  - destruct regs as [|v vs]; [discriminate|]. cbn [regs4_from].
    pose proof (H 0 ltac:(unfold lenN; cbn [length]; lia)) as H0.
    change (getN (r :: t) 0) with r in H0. change (getN (v :: vs) 0) with v in H0. rewrite N.add_0_r in H0.
    rewrite H0. rewrite (IH (i + 1) vs); [reflexivity|cbn [length] in Hl; lia|].
    intros j Hj. specialize (H (j + 1)). rewrite !getN_cons in H.
    replace (i + (j + 1)) with (i + 1 + j) in H by lia. apply H.
    unfold lenN in *. cbn [length]. lia.
Qed.

Lemma hll_regs_T4 h regs : h_ty h = T4 -> 1 <= h_lgk h -> lenN (h_bytes h) = 2 ^ (h_lgk h - 1) -> bytes_ok (h_bytes h) ->
  lenN regs = 2 ^ h_lgk h -> (forall s, s < 2 ^ h_lgk h -> hll_get h s = Some (getN regs s)) ->
  hll_regs h = Some regs.
Proof.
  intros Ht Hk Hl Hb Hr Hg. unfold hll_regs. rewrite Ht. rewrite nibbles_pointwise by auto.
  apply regs4_from_pointwise.
  - rewrite map_length. pose proof (seqN_length (2 ^ h_lgk h)) as H. unfold lenN in *. lia.
  - intros j Hj. assert (Hj' : j < 2 ^ h_lgk h).
    { unfold lenN in Hj. rewrite map_length in Hj. pose proof (seqN_length (2 ^ h_lgk h)) as H. unfold lenN in H. lia. }
    rewrite getN_map_seqN by exact Hj'. rewrite N.add_0_l.
    specialize (Hg j Hj'). unfold hll_get in Hg. rewrite Ht in Hg. exact Hg.
Qed.

(* ---------- Part 3: the coupons of a register array ---------- *)
Lemma pair_sv_c_val s v : c_val (pair_sv s v) = v.
Proof.
  unfold c_val, pair_sv. rewrite N.shiftr_lor, N.shiftr_shiftl_l by lia. rewrite N.sub_diag, N.shiftl_0_r.
  replace (N.shiftr (N.land s mask26) 26) with 0; [apply N.lor_0_r|].
  symmetry. rewrite N.shiftr_div_pow2. apply N.div_small.
  change mask26 with (N.ones 26). rewrite N.land_ones. apply N.mod_lt. discriminate.
Qed.

Lemma pair_sv_c_slot lgk s v : lgk <= 26 -> s < 2 ^ lgk -> c_slot lgk (pair_sv s v) = s.
Proof.
  intros Hl Hs. unfold c_slot, c_low26, pair_sv. change mask26 with (N.ones 26).
  apply N.bits_inj. intros t. rewrite !N.land_spec, N.lor_spec, N.land_spec, !ones_testbit.
  destruct (N.ltb_spec t lgk) as [H|H].
  - replace (t <? 26) with true by (symmetry; apply N.ltb_lt; lia).
    rewrite N.shiftl_spec_low by lia. cbn [orb]. now rewrite !andb_true_r.
  - rewrite andb_false_r. symmetry. now apply (small_testbit_high s lgk).
Qed.

Lemma pair_sv_cvalid s v : v < 64 -> cvalid (pair_sv s v).
Proof.
  intros Hv. unfold cvalid, pair_sv. change 4294967296 with (2 ^ 32). apply lor_lt.
  - rewrite N.shiftl_mul_pow2. change (2 ^ 32) with (64 * 2 ^ 26). apply N.mul_lt_mono_pos_r; [reflexivity|exact Hv].
  - apply land_lt_r. reflexivity.
Qed.

Lemma pair_sv_nonzero s v : 0 < v -> pair_sv s v <> 0.
Proof. intros Hv E. pose proof (pair_sv_c_val s v) as H. rewrite E in H. unfold c_val in H. simpl in H. lia. Qed.

Lemma slot_max_coupons_from lgk : forall vals i s, lgk <= 26 -> i + lenN vals <= 2 ^ lgk ->
  slot_max lgk (coupons_from i vals) s = if (i <=? s) && (s <? i + lenN vals) then getN vals (s - i) else 0.
Proof.
  induction vals as [|v t IH]; intros i s Hk Hl.
  - cbn [coupons_from]. rewrite slot_max_nil. destruct ((i <=? s) && (s <? i + lenN [])); [|reflexivity].
    unfold getN. destruct (N.to_nat (s - i)); reflexivity.
  - assert (Hlt : lenN (v :: t) = lenN t + 1) by (unfold lenN; cbn [length]; lia).
    rewrite Hlt in *. cbn [coupons_from].
    assert (IH' := IH (i + 1) s Hk ltac:(lia)).
    destruct (N.eqb_spec v 0) as [Ev|Ev].
    + rewrite IH'. destruct (N.leb_spec i s), (N.ltb_spec s (i + (lenN t + 1))), (N.leb_spec (i + 1) s),
        (N.ltb_spec s (i + 1 + lenN t)); cbn [andb]; try lia; auto.
      * replace (s - i) with (s - (i + 1) + 1) by lia. now rewrite getN_cons.
      * replace (s - i) with 0 by lia. now subst v.
    + rewrite slot_max_cons, pair_sv_c_slot, pair_sv_c_val, IH' by (auto; lia).
      destruct (N.eqb_spec i s) as [<-|Hne].
      * replace (i + 1 <=? i) with false by (symmetry; apply N.leb_gt; lia). cbn [andb].
        replace (i <=? i) with true by (symmetry; apply N.leb_le; lia).
        replace (i <? i + (lenN t + 1)) with true by (symmetry; apply N.ltb_lt; lia). cbn [andb].
        rewrite N.sub_diag. change (getN (v :: t) 0) with v. lia.
      * destruct (N.leb_spec i s), (N.ltb_spec s (i + (lenN t + 1))), (N.leb_spec (i + 1) s),
          (N.ltb_spec s (i + 1 + lenN t)); cbn [andb]; try lia; auto.
        replace (s - i) with (s - (i + 1) + 1) by lia. now rewrite getN_cons.
Qed.

Lemma coupons_from_spec lgk regs : lgk <= 26 -> lenN regs = 2 ^ lgk -> spec_regs lgk (coupons_from 0 regs) = regs.
Proof.
  intros Hk Hl. apply list_ext_getN.
  - pose proof (spec_regs_length lgk (coupons_from 0 regs)) as H. unfold lenN in *. lia.
  - intros s Hs. rewrite spec_regs_length in Hs. rewrite getN_spec_regs by exact Hs.
    rewrite slot_max_coupons_from by lia. rewrite N.add_0_l, N.sub_0_r.
    replace (0 <=? s) with true by (symmetry; apply N.leb_le; lia).
    replace (s <? lenN regs) with true by (symmetry; apply N.ltb_lt; lia). reflexivity.
Qed.

Lemma coupons_from_length_gen : forall regs i, lenN (coupons_from i regs) + count_eq 0 regs = lenN regs.
Proof.
  induction regs as [|v t IH]; intros i; [reflexivity|].
  specialize (IH (i + 1)). unfold count_eq, lenN in *. cbn [coupons_from filter].
  destruct (N.eqb_spec v 0) as [->|Hv].
  - cbn [N.eqb length]. lia.
  - destruct (N.eqb_spec 0 v); [congruence|]. cbn [length]. lia.
Qed.

Lemma coupons_from_length regs : lenN (coupons_from 0 regs) + count_eq 0 regs = lenN regs.
Proof. apply coupons_from_length_gen. Qed.

Lemma coupons_from_cvalid : forall regs i, (forall s, getN regs s < 64) -> Forall cvalid (coupons_from i regs).
Proof.
  induction regs as [|v t IH]; intros i H; cbn [coupons_from]; [constructor|].
  assert (Ht : forall s, getN t s < 64) by (intros s; specialize (H (s + 1)); now rewrite getN_cons in H).
  destruct (v =? 0); [now apply IH|]. constructor; [|now apply IH].
  apply pair_sv_cvalid. apply (H 0).
Qed.

Lemma coupons_from_nonzero : forall regs i, Forall (fun c => c <> 0) (coupons_from i regs).
Proof.
  induction regs as [|v t IH]; intros i; cbn [coupons_from]; [constructor|].
  destruct (N.eqb_spec v 0); [apply IH|]. constructor; [|apply IH]. apply pair_sv_nonzero. lia.
Qed.
