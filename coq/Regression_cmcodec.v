(* Regression_cmcodec.v — the UNREPAIRED count-min readers (count_min_impl.hpp before
   fixes/11_count_min_reader_checks.patch), kept as small variant definitions so that the defects stay documented
   as theorems about the old code.
   (a) bytes reader: the size test of the non-empty branch was ensure_minimum_memory(size, 8 * (1 + nbuckets * nhashes))
       - the TOTAL size against the table size only (the 16 preamble bytes forgotten, product in uint32) - after
       which weight and table are copied from offset 16 on: up to 16 bytes beyond the buffer are read.
   (b) stream reader: no test of the stream state at all; a short stream leaves the rest of the (zero-initialised)
       table untouched and a sketch that was never written is returned. *)
From Coq Require Import NArith List Bool Lia Arith.
From DS Require Import Word RunnerLib ThetaCodecDefs CodecCmDefs CodecCmProofs.
Import ListNotations.
Local Open Scope N_scope.

(* ---- (a) ---- *)
Definition old_size_test_fails (len nb nh : N) : bool := len <? 8 * (1 + w32 (nb * nh)).

Definition dec_bytes_old (expected : N) (bytes : list N) : option cm :=
  if (length bytes <? 16)%nat then None else
  do pre <- rd 1 0 bytes; do ver <- rd 1 1 bytes; do fam <- rd 1 2 bytes; do fl <- rd 1 3 bytes;
  if negb (header_ok pre ver fam fl) then None else
  do nb <- rd 4 8 bytes; do nh <- rd 1 12 bytes; do sh <- rd 2 13 bytes;
  if negb (sh =? expected) then None else
  if negb (ctor_ok nh nb) then None else
  if N.testbit fl 0 then
    Some {| c_nh := nh; c_nb := nb; c_seed_hash := sh; c_total := 0; c_cells := zeros (ncells nh nb) |}
  else
    if old_size_test_fails (N.of_nat (length bytes)) nb nh then None else
    do total <- rd 8 16 bytes;
    do cells <- rd_entries (N.to_nat (ncells nh nb)) (skipn 24 bytes);
    Some {| c_nh := nh; c_nb := nb; c_seed_hash := sh; c_total := total; c_cells := cells |}.

(* the old reader gets past all of its tests, and then copies 8 * (1 + nb*nh) bytes from offset 16 on although the
   buffer ends before 16 + 8 * (1 + nb*nh) *)
Definition reads_outside_old (bytes : list N) : bool :=
  if (length bytes <? 16)%nat then false else
  match rd 1 0 bytes, rd 1 1 bytes, rd 1 2 bytes, rd 1 3 bytes, rd 4 8 bytes, rd 1 12 bytes with
  | Some pre, Some ver, Some fam, Some fl, Some nb, Some nh =>
      header_ok pre ver fam fl && ctor_ok nh nb && negb (N.testbit fl 0) &&
      negb (old_size_test_fails (N.of_nat (length bytes)) nb nh) &&
      (N.of_nat (length bytes) <? 16 + 8 * (1 + nb * nh))
  | _, _, _, _, _, _ => false
  end.

Definition reg_ex : cm := {| c_nh := 2; c_nb := 3; c_seed_hash := 37836; c_total := 5; c_cells := [1; 0; 4; 2; 3; 0] |}.
Lemma reg_ex_wf : wf reg_ex.
Proof.
  unfold wf. cbn [reg_ex c_nh c_nb c_seed_hash c_total c_cells].
  repeat split; try reflexivity; try discriminate; repeat (apply Forall_cons; [reflexivity|]); apply Forall_nil.
Qed.

(* a 60-byte prefix of the 72-byte image: the old test (60 >= 56) passes, 72 bytes are read *)
Theorem cm_old_bytes_reader_reads_outside_refuted :
  exists s n, wf s /\ (n < length (enc s))%nat /\ reads_outside_old (firstn n (enc s)) = true.
Proof. exists reg_ex, 60%nat. split; [exact reg_ex_wf|]. split; [vm_compute; lia | vm_compute; reflexivity]. Qed.

(* the repaired reader never does: whatever it accepts with the flag clear lies inside the buffer
   (cm_bytes_nonempty_bounded), so the condition above implies rejection *)
Theorem cm_new_bytes_reader_rejects_those : forall e bytes,
  reads_outside_old bytes = true -> dec_bytes e bytes = None.
Proof.
  intros e bytes H. destruct (dec_bytes e bytes) as [s|] eqn:E; [exfalso|reflexivity].
  unfold reads_outside_old in H.
  destruct (length bytes <? 16)%nat eqn:E16; [discriminate|].
  unfold dec_bytes in E. rewrite E16 in E.
  destruct (rd 1 0 bytes) as [pre|]; [|discriminate]. destruct (rd 1 1 bytes) as [ver|]; [|discriminate].
  destruct (rd 1 2 bytes) as [fam|]; [|discriminate]. destruct (rd 1 3 bytes) as [fl|]; [|discriminate].
  destruct (rd 4 8 bytes) as [nb|]; [|discriminate]. destruct (rd 1 12 bytes) as [nh|]; [|discriminate].
  cbn [bind] in E.
  repeat (apply andb_prop in H; destruct H as [H ?Hx]).
  rewrite H in E. cbn [negb] in E.
  destruct (rd 2 13 bytes) as [sh|]; [|discriminate]. cbn [bind] in E.
  destruct (negb (sh =? e)); [discriminate|].
  apply negb_true_iff in Hx1. rewrite Hx1 in E.
  apply N.ltb_lt in Hx.
  destruct (N.ltb_spec (N.of_nat (length bytes) - 16) (8 * (1 + nb * nh))); [discriminate|]. lia.
Qed.

(* ---- (b) ---- *)
(* a read on a short stream: the available bytes, the rest stays 0 (for the table this is exactly what
   istream::read into the zero-initialised vector leaves; for the scalar fields it is one possible outcome of
   reading an indeterminate value) *)
Definition rd0 (n off : nat) (bytes : list N) : N :=
  le_bytes_to_N (firstn n (skipn off bytes ++ repeat 0 n)).
Fixpoint rd0_entries (n : nat) (bytes : list N) : list N :=
  match n with
  | O => []
  | S n' => rd0 8 0 bytes :: rd0_entries n' (skipn 8 bytes)
  end.

Definition dec_stream_old (expected : N) (bytes : list N) : option cm :=
  let pre := rd0 1 0 bytes in let ver := rd0 1 1 bytes in let fam := rd0 1 2 bytes in let fl := rd0 1 3 bytes in
  if negb (header_ok pre ver fam fl) then None else
  let nb := rd0 4 8 bytes in let nh := rd0 1 12 bytes in let sh := rd0 2 13 bytes in
  if negb (sh =? expected) then None else
  if negb (ctor_ok nh nb) then None else
  if N.testbit fl 0 then
    Some {| c_nh := nh; c_nb := nb; c_seed_hash := sh; c_total := 0; c_cells := zeros (ncells nh nb) |}
  else
    Some {| c_nh := nh; c_nb := nb; c_seed_hash := sh; c_total := rd0 8 16 bytes;
            c_cells := rd0_entries (N.to_nat (ncells nh nb)) (skipn 24 bytes) |}.

(* a 56-byte prefix of the 72-byte image is accepted and yields a different sketch (the last two cells are 0) *)
Theorem cm_old_stream_prefix_accepted_refuted :
  exists s n s', wf s /\ (n < length (enc s))%nat /\
    dec_stream_old (c_seed_hash s) (firstn n (enc s)) = Some s' /\ s' <> s.
Proof.
  exists reg_ex, 56%nat,
    {| c_nh := 2; c_nb := 3; c_seed_hash := 37836; c_total := 5; c_cells := [1; 0; 4; 2; 0; 0] |}.
  split; [exact reg_ex_wf|]. split; [vm_compute; lia|]. split; [vm_compute; reflexivity|].
  unfold reg_ex. intros H. discriminate H.
Qed.

(* on complete images the old readers agree with the repaired ones (example) *)
Example reg_ex_full :
  dec_bytes_old 37836 (enc reg_ex) = dec_bytes 37836 (enc reg_ex) /\
  dec_stream_old 37836 (enc reg_ex) = Some reg_ex /\
  dec_bytes 37836 (firstn 60 (enc reg_ex)) = None /\ dec_stream 37836 (firstn 56 (enc reg_ex)) = None.
Proof. vm_compute. repeat split. Qed.

Print Assumptions cm_old_bytes_reader_reads_outside_refuted.
Print Assumptions cm_new_bytes_reader_rejects_those.
Print Assumptions cm_old_stream_prefix_accepted_refuted.

(* ---- the unrepaired constructor multiplied num_hashes * num_buckets in 32 bits (before fixes/11_count_min_product_overflow.patch) ---- *)
Definition ncells_old (nh nb : N) : N := w32 (nh * nb).
Definition ctor_ok_old (nh nb : N) : bool := (3 <=? nb) && (ncells_old nh nb <? 1073741824).
(* num_buckets = 0x80000005 with num_hashes = 2: the old test passes and the table gets 10 cells for 2^32+10 logical cells, so every
   later update / get_estimate indexes far outside it; the repaired test refuses the pair *)
Theorem cm_old_ctor_product_wraps_refuted :
  exists nh nb, ctor_ok_old nh nb = true /\ ncells_old nh nb = 10 /\ nh * nb = 4294967306 /\ ctor_ok nh nb = false.
Proof. exists 2, 2147483653. repeat split; vm_compute; reflexivity. Qed.
Print Assumptions cm_old_ctor_product_wraps_refuted.
