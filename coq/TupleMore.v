(* TupleMore.v — Theta sketches as operands (compact_tuple_sketch(theta_sketch, summary, ordered)) and completeness
   of one intersection step. *)
From Coq Require Import ZArith NArith List Bool Lia Permutation Sorted Arith.
From DS Require Import Word RunnerLib OpenAddr KSmallest Canon ThetaDefs ThetaProofs ThetaRefine ThetaFacts TupleDefs
  TupleSetProofs TupleWf.
Import ListNotations.
Local Open Scope N_scope.

Section More.
  Variable S : Type.
  Variable comb : S -> S -> S.

  Lemma map_keys_const (v : S) (l : list (N * unit)) : map fst (map (fun e => (fst e, v)) l) = map fst l.
  Proof. rewrite map_map. apply map_ext. reflexivity. Qed.

  Lemma sorted_map_const (v : S) (l : list (N * unit)) :
    StronglySorted (klt fst) l -> StronglySorted (klt fst) (map (fun e => (fst e, v)) l).
  Proof.
    induction 1 as [|a l Hs IH Hf]; simpl; constructor; [exact IH|].
    rewrite Forall_forall in *. intros x Hx. apply in_map_iff in Hx. destruct Hx as (y & <- & Hy). exact (Hf y Hy).
  Qed.

  (* a tuple sketch made from a Theta sketch: same theta and emptiness, exactly the Theta sketch's keys, every one
     carrying the given summary; well-formed when the Theta sketch is *)
  Theorem of_theta_spec (t : ThetaDefs.compact unit) (v : S) ordered : let c := of_theta S t v ordered in
    c_theta c = c_theta t /\ c_empty c = c_empty t /\
    (forall h s, In (h, s) (c_entries c) <-> In h (map fst (c_entries t)) /\ s = v) /\
    (cwf unit t -> cwf S c).
  Proof.
    intros c. unfold c, of_theta. cbn [c_theta c_empty c_entries c_ordered].
    set (ents := map (fun e : N * unit => (fst e, v)) (c_entries t)).
    assert (Hin : forall h s, In (h, s) ents <-> In h (map fst (c_entries t)) /\ s = v).
    { intros h s. unfold ents. rewrite !in_map_iff. split.
      - intros (e & E & He). inversion E; subst. split; [exists e; auto|reflexivity].
      - intros [(e & E & He) ->]. exists e. subst h. auto. }
    split; [reflexivity|]. split; [reflexivity|]. split.
    - intros h s. rewrite <- Hin. destruct (ordered && negb (c_ordered t)); [|tauto].
      apply perm_in_iff. apply msort_perm.
    - intros (Hnd & Hemp & Hord).
      assert (Hnde : NoDup (map fst ents)) by (unfold ents; now rewrite map_keys_const).
      split; [|split].
      + destruct (ordered && negb (c_ordered t)); [|exact Hnde].
        eapply Permutation_NoDup; [symmetry; apply Permutation_map, msort_perm|exact Hnde].
      + intros E. unfold ents. rewrite (Hemp E). simpl. destruct (ordered && negb (c_ordered t)); reflexivity.
      + intros Ho. destruct (c_ordered t) eqn:Eo.
        * cbn [negb]. rewrite andb_false_r. unfold ents. apply sorted_map_const. apply Hord. reflexivity.
        * simpl in Ho. subst ordered. simpl. now apply msort_strict.
  Qed.

  (* one intersection step finds every key held by both sides below theta (the early stop of an ordered input
     loses nothing), and nothing else *)
  Theorem inter_scan_complete o th ents l h : NoDup (map fst l) -> (o = true -> StronglySorted (klt fst) l) ->
    (In h (map fst (inter_scan S comb o th ents l)) <->
     In h (map fst ents) /\ In h (map fst l) /\ h < th).
  Proof.
    intros Hnd Hso. split.
    - intros Hin. apply in_map_iff in Hin. destruct Hin as ([k v] & E & Hin). simpl in E. subst k.
      destruct (inter_scan_in S comb _ _ _ _ _ _ Hin) as (cur & vin & Hl & Hinl & Hlt & _).
      split; [|split; [|exact Hlt]].
      + apply lookup_in in Hl. change h with (fst (h, cur)). now apply in_map.
      + change h with (fst (h, vin)). now apply in_map.
    - intros (He & Hl & Hlt). induction l as [|[k w] l IH]; [contradiction|].
      inversion Hnd; subst.
      assert (Hso' : o = true -> StronglySorted (klt fst) l) by (intros E; specialize (Hso E); inversion Hso; auto).
      cbn [inter_scan]. simpl in Hl. destruct (N.ltb_spec k th) as [Ek|Ek].
      + destruct Hl as [->|Hl].
        * destruct (lookup S h ents) eqn:El; [simpl; auto|]. apply (lookup_none S comb) in El. contradiction.
        * destruct (lookup S k ents); [simpl; right|]; apply IH; auto.
      + destruct Hl as [->|Hl]; [lia|]. destruct o.
        * exfalso. specialize (Hso eq_refl). inversion Hso; subst. rewrite Forall_forall in H4.
          apply in_map_iff in Hl. destruct Hl as (x & E & Hx). specialize (H4 x Hx). unfold klt in H4. simpl in H4. lia.
        * apply IH; auto.
  Qed.
End More.
