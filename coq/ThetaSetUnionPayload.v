(* ThetaSetUnionPayload.v — the summaries held by the union of property C02's model (the union of ThetaSetDefs.v), for any payload
   type and policy: the summary of a key of the result is the policy folded, in presentation order, over the summaries the
   non-empty inputs hold for that key, the first one stored as it came.
   The fact is proved ONCE, by the Tuple family on its own rendering of theta_union_base (TupleUnionProofs.union_summary, on
   top of the C01 payload tracking), and transported here through the definitional bridge TupleBridge (the two unions are
   the same function).  This file is the only C02 file that depends on Tuple files. *)
From Coq Require Import ZArith NArith List Bool Lia Permutation Sorted Arith.
From DS Require Import Word RunnerLib OpenAddr KSmallest Canon ThetaDefs ThetaProofs ThetaRefine ThetaFacts
  ThetaSetDefs ThetaSetWf ThetaSetUnion TupleDefs TupleBridge TupleUnionProofs.
Import ListNotations.
Local Open Scope N_scope.

Section UnionPayload.
  Variable S : Type.
  Variable sel : nat -> list (N * S) -> list (N * S).
  Hypothesis sel_ok : forall k l, (k < length l)%nat -> nth_post fst k l (sel k l).
  Variable comb : S -> S -> S.
  Variables lgk r th0 sh : N.
  Hypothesis lgk_ge : 5 <= lgk.

  Lemma sel_len k l : (k < length l)%nat -> length (sel k l) = length l.
  Proof. intros H. destruct (sel_ok k l H) as [Hp _]. now apply Permutation_length. Qed.

  Lemma fold_is_run (cs : list (compact S)) :
    ThetaSetUnion.union_fold S sel comb (ThetaSetDefs.union_new S lgk r th0 sh) (map (input_of_compact S sh) cs) =
    Some (to_c02 S sh (union_run S sel comb lgk r th0 cs)).
  Proof.
    induction cs as [|c cs IH] using rev_ind; [reflexivity|].
    rewrite map_app. cbn [map]. rewrite union_fold_snoc, IH, (bridge_union_update S sel comb sh _ sh c).
    rewrite N.eqb_refl. cbn [negb]. unfold union_run. rewrite fold_left_app. cbn [fold_left].
    destruct (c_empty c) eqn:Ee; [|reflexivity]. f_equal. f_equal. unfold TupleDefs.union_update. now rewrite Ee.
  Qed.

  Theorem union_summary_spec (cs : list (compact S)) : Forall (cwf S) cs ->
    exists u, ThetaSetUnion.union_fold S sel comb (ThetaSetDefs.union_new S lgk r th0 sh) (map (input_of_compact S sh) cs) = Some u /\
      forall ordered h v, In (h, v) (in_entries (ThetaSetDefs.union_result S sel u ordered)) ->
        exists v1 vs, hsummaries S h cs = v1 :: vs /\ v = fold_left comb vs v1.
  Proof.
    intros Hwf. eexists. split; [apply fold_is_run|]. intros ordered h v Hin.
    destruct (bridge_union_result S sel sel_len sh (union_run S sel comb lgk r th0 cs) ordered) as (_ & _ & _ & He & _).
    cbv zeta in He. rewrite He in Hin.
    exact (union_summary S sel sel_ok comb lgk r th0 lgk_ge cs ordered h v Hwf Hin).
  Qed.
End UnionPayload.
