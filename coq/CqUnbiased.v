(* CqUnbiased.v — C08 for the classic quantiles sketch: the rank estimator is unbiased over the outcomes of the
   internal random choices (coin of zip_buffer, offset of zip_buffer_with_stride), for every update / merge tree.
   [Mart f m v]: the exact expectation of f over the (uniform, independent) draws of m is the integer v
   (all conditional expectations along the way are integers as well). *)
From Coq Require Import ZArith List Bool Lia Permutation Sorted QArith.
From DS Require Import RunnerLib SortedView CqDefs CqProofs CqView.
Import ListNotations.
Local Open Scope Z_scope.

(* ===================== expectation ===================== *)
Inductive Mart {A} (f : A -> Z) : M A -> Z -> Prop :=
| Mart_ret a : Mart f (Ret a) (f a)
| Mart_draw n k g v : 0 < n -> (forall c, 0 <= c < n -> Mart f (k c) (g c)) ->
    zsum (Z.to_nat n) (fun i => g (Z.of_nat i)) = n * v -> Mart f (Draw n k) v.

Lemma Mart_ret' {A} (f : A -> Z) a v : v = f a -> Mart f (Ret a) v.
Proof. intros ->. constructor. Qed.

Lemma Mart_bind {A B} (f : B -> Z) (V : A -> Z) (m : M A) (h : A -> M B) v :
  Mart V m v -> (forall a, leaf m a -> Mart f (h a) (V a)) -> Mart f (bind m h) v.
Proof.
  induction 1 as [a|n k g v' Hn Hk IH Hs]; intro H; cbn [bind].
  - apply H. constructor.
  - apply (Mart_draw f n _ g v' Hn); [|exact Hs].
    intros c Hc. apply IH; [exact Hc|]. intros a La. apply H. econstructor; eauto.
Qed.

Lemma Mart_affine {A} (f : A -> Z) m v c0 c1 : Mart f m v -> Mart (fun a => c0 + c1 * f a) m (c0 + c1 * v).
Proof.
  induction 1 as [a|n k g v' Hn Hk IH Hs].
  - apply Mart_ret'. reflexivity.
  - apply (Mart_draw _ n k (fun c => c0 + c1 * g c) _ Hn); [exact IH|].
    rewrite zsum_add, zsum_const, zsum_scale, Hs. rewrite Z2Nat.id by lia. ring.
Qed.

Lemma Mart_plus {A} (f : A -> Z) m v c0 : Mart f m v -> Mart (fun a => f a + c0) m (v + c0).
Proof.
  intro H. apply (Mart_affine f m v c0 1) in H.
  replace (v + c0) with (c0 + 1 * v) by ring.
  clear -H. revert H. generalize (c0 + 1 * v). intros z H.
  induction H as [a|n k g v' Hn Hk IH Hs].
  - apply Mart_ret'. ring.
  - eapply Mart_draw; eauto.
Qed.

Lemma Mart_ext {A} (f f' : A -> Z) m v : (forall a, leaf m a -> f a = f' a) -> Mart f m v -> Mart f' m v.
Proof.
  intros H Hm. revert H. induction Hm as [a|n k g v' Hn Hk IH Hs]; intro H.
  - apply Mart_ret'. apply H. constructor.
  - eapply Mart_draw; eauto. intros c Hc. apply IH; auto. intros a La. apply H. econstructor; eauto.
Qed.

(* the expectation as a rational number: average over the outcomes of every draw *)
Fixpoint qsum (n : nat) (g : nat -> Q) : Q :=
  match n with
  | O => 0%Q
  | S n' => (qsum n' g + g n')%Q
  end.

Fixpoint Ex (m : M Z) : Q :=
  match m with
  | Ret a => inject_Z a
  | Draw n k => (qsum (Z.to_nat n) (fun i => Ex (k (Z.of_nat i))) / inject_Z n)%Q
  end.

Fixpoint fmap {A B} (f : A -> B) (m : M A) : M B :=
  match m with
  | Ret a => Ret (f a)
  | Draw n k => Draw n (fun c => fmap f (k c))
  end.

Lemma qsum_inject n (g : nat -> Q) (h : nat -> Z) : (forall i, (i < n)%nat -> (g i == inject_Z (h i))%Q) ->
  (qsum n g == inject_Z (zsum n h))%Q.
Proof.
  induction n as [|n IH]; intro H; cbn [qsum zsum]; [reflexivity|].
  rewrite IH by (intros; apply H; lia). rewrite H by lia. rewrite inject_Z_plus. reflexivity.
Qed.

Theorem Mart_Ex {A} (f : A -> Z) m v : Mart f m v -> (Ex (fmap f m) == inject_Z v)%Q.
Proof.
  induction 1 as [a|n k g v' Hn Hk IH Hs]; cbn [fmap Ex]; [reflexivity|].
  rewrite (qsum_inject _ _ (fun i => g (Z.of_nat i))) by (intros i Hi; apply IH; lia).
  rewrite Hs, inject_Z_mult. field. intro X. unfold Qeq in X. simpl in X. lia.
Qed.

(* ===================== one halving / one downsampling is unbiased ===================== *)
(* halve pair lemma: offset 0 + offset 1 count every item of the run once, so 2w * (the kept half) has mean w * (the run) *)
Lemma Mart_zip p buf c0 w : Mart (fun c => c0 + 2 * w * cnt p c) (zip buf) (c0 + w * cnt p buf).
Proof.
  unfold zip. apply (Mart_draw _ 2 _ (fun o => c0 + 2 * w * cnt p (every 2 (Z.to_nat o) buf))); [lia| |].
  - intros c Hc. apply Mart_ret'. reflexivity.
  - change (Z.to_nat 2) with 2%nat. cbn [zsum]. change (Z.to_nat (Z.of_nat 0)) with 0%nat.
    change (Z.to_nat (Z.of_nat 1)) with 1%nat. pose proof (every2_cnt p buf). lia.
Qed.

(* stride lemma: the offsets 0 .. stride-1 count every item once *)
Lemma Mart_zip_stride p buf stride c0 w : 1 <= stride ->
  Mart (fun c => c0 + stride * w * cnt p c) (zip_stride buf stride) (c0 + w * cnt p buf).
Proof.
  intro Hs. unfold zip_stride.
  apply (Mart_draw _ stride _ (fun o => c0 + stride * w * cnt p (every (Z.to_nat stride) (Z.to_nat o) buf))); [lia| |].
  - intros c Hc. apply Mart_ret'. reflexivity.
  - rewrite zsum_add, zsum_const, zsum_scale.
    rewrite (zsum_ext _ _ (fun o => cnt p (every (Z.to_nat stride) o buf))) by (intros; now rewrite Nat2Z.id).
    destruct (Z.to_nat stride) as [|m] eqn:E; [lia|].
    rewrite every_cnt_sum. rewrite <- E. rewrite Z2Nat.id by lia. ring.
Qed.

Lemma Rlv_zero p k : forall lv w, lv_ok k 0 lv -> Rlv p w lv = 0.
Proof.
  induction lv as [|l r IH]; intros w H; [reflexivity|].
  destruct H as [H1 H2]. simpl in H1. subst l. cbn [Rlv]. rewrite cnt_nil. change (0 / 2) with 0 in H2. rewrite IH by exact H2. lia.
Qed.

Lemma Rlv_app_empty p m : forall lv w, Rlv p w (lv ++ repeat [] m) = Rlv p w lv.
Proof.
  induction lv as [|l r IH]; intro w.
  - simpl. revert w. induction m as [|m IHm]; intro w; [reflexivity|]. cbn [repeat Rlv]. rewrite cnt_nil, IHm. lia.
  - cbn [app Rlv]. rewrite IH. reflexivity.
Qed.

(* ---------- the carry ---------- *)
Lemma carry_in_Mart p k : forall lv carry bp w c0, 0 <= bp -> lv_ok k bp lv -> bp + 1 < 2 ^ Z.of_nat (length lv) ->
  Mart (fun lv' => c0 + Rlv p w lv') (carry_in carry bp lv) (c0 + Rlv p w lv + w * cnt p carry).
Proof.
  induction lv as [|l r IH]; intros carry bp w c0 H0 Hok Hfit.
  - simpl in Hfit. lia.
  - cbn [carry_in]. destruct Hok as [Hl Hr]. cbn [length] in Hfit. rewrite pow2_S in Hfit.
    pose proof (odd_div2 bp) as E. destruct (Z.odd bp) eqn:O.
    + apply (Mart_bind _ (fun c' => (c0 + Rlv p (2 * w) r) + 2 * w * cnt p c')).
      * replace (c0 + Rlv p w (l :: r) + w * cnt p carry) with ((c0 + Rlv p (2 * w) r) + w * cnt p (merge2 l carry))
          by (cbn [Rlv]; rewrite cnt_merge2; ring).
        apply Mart_zip.
      * intros c' _. apply (Mart_bind _ (fun r' => c0 + Rlv p (2 * w) r')).
        -- replace (c0 + Rlv p (2 * w) r + 2 * w * cnt p c') with (c0 + Rlv p (2 * w) r + (2 * w) * cnt p c') by ring.
           apply IH; [lia|exact Hr|lia].
        -- intros r' _. apply Mart_ret'. cbn [Rlv]. rewrite cnt_nil. ring.
    + subst l. apply Mart_ret'. cbn [Rlv]. rewrite cnt_nil. ring.
Qed.

Lemma carry_at_Mart p k : forall start lv carry bp w c0, 0 <= bp -> lv_ok k bp lv ->
  bp + 2 ^ Z.of_nat start < 2 ^ Z.of_nat (length lv) ->
  Mart (fun lv' => c0 + Rlv p w lv') (carry_at start carry bp lv) (c0 + Rlv p w lv + w * 2 ^ Z.of_nat start * cnt p carry).
Proof.
  induction start as [|st IH]; intros lv carry bp w c0 H0 Hok Hfit.
  - cbn [carry_at]. change (2 ^ Z.of_nat 0) with 1 in *. replace (w * 1 * cnt p carry) with (w * cnt p carry) by ring.
    eapply carry_in_Mart; eauto.
  - cbn [carry_at]. destruct lv as [|l r].
    + simpl in Hfit. pose proof (pow2_pos (S st)). lia.
    + destruct Hok as [Hl Hr]. cbn [length] in Hfit. rewrite !pow2_S in Hfit.
      apply (Mart_bind _ (fun r' => (c0 + w * cnt p l) + Rlv p (2 * w) r')).
      * replace (c0 + Rlv p w (l :: r) + w * 2 ^ Z.of_nat (S st) * cnt p carry)
          with ((c0 + w * cnt p l) + Rlv p (2 * w) r + (2 * w) * 2 ^ Z.of_nat st * cnt p carry)
          by (cbn [Rlv]; rewrite pow2_S; ring).
        apply IH; [lia|exact Hr|lia].
      * intros r' _. apply Mart_ret'. cbn [Rlv]. ring.
Qed.

(* in_place_propagate_carry in merge mode: k items of weight 2^(start+1) each enter the sketch *)
Lemma propagate_merge_Mart p s start bufk : 0 <= cbp s -> lv_ok (ck s) (cbp s) (clv s) ->
  cbp s + 2 ^ Z.of_nat start < 2 ^ Z.of_nat (length (clv s)) ->
  Mart (Rest p) (propagate start bufk [] false s) (Rest p s + 2 * 2 ^ Z.of_nat start * cnt p bufk).
Proof.
  intros H0 Hok Hfit. unfold propagate. cbn [bind].
  apply (Mart_bind _ (fun lv' => cnt p (cbb s) + Rlv p 2 lv')).
  - unfold Rest. eapply carry_at_Mart; eauto.
  - intros lv' _. apply Mart_ret'. reflexivity.
Qed.

(* ---------- update ---------- *)
Lemma update_Mart p s x : Inv s -> Mart (Rest p) (update s x) (Rest p s + (if p x then 1 else 0)).
Proof.
  intro I. pose proof I as [K B N Lb V Ln Sr]. pose proof (valid_k_pos _ K) as K2.
  unfold update. fold (upd_min s x). fold (upd_max s x).
  rewrite len_app, len_cons, len_nil.
  destruct (Z.eqb_spec (len (cbb s) + (1 + 0)) (2 * ck s)) as [E|E].
  - unfold process_full.
    match goal with |- Mart _ (bind (propagate _ _ _ _ (grow_levels ?S1)) _) _ => set (s1 := S1) end.
    assert (Hn : cn s1 / (2 * ck s1) = cbp s1 + 1).
    { unfold s1; cbn [ck cn cbp]. replace (cn s + 1) with ((cbp s + 1) * (2 * ck s)) by lia. apply Z.div_mul. lia. }
    destruct (grow_levels_spec s1 B ltac:(unfold s1; cbn [ck]; lia) V Ln Hn) as (G1 & G2 & G3).
    set (g := grow_levels s1) in *.
    assert (Gk : ck g = ck s /\ cbp g = cbp s /\ cbb g = cbb s ++ [x]).
    { rewrite G1. unfold s1. cbn [ck cbp cbb set_lv]. repeat split; reflexivity. }
    destruct Gk as (Gk & Gb & Gbb). unfold s1 in G2, G3. cbn [ck cbp clv] in G2, G3.
    assert (Fit : cbp g + 1 < 2 ^ Z.of_nat (length (clv g))).
    { rewrite Gb, G3. apply bitlen_lt. lia. }
    assert (Rg : Rlv p 2 (clv g) = Rlv p 2 (clv s)).
    { unfold g, grow_levels. destruct (Nat.eqb _ 0); [reflexivity|]. destruct (Nat.leb _ _); [reflexivity|].
      unfold s1. cbn [set_lv clv]. apply (Rlv_app_empty p 1). }
    apply (Mart_bind _ (fun s2 => Rlv p 2 (clv s2))).
    + unfold propagate.
      apply (Mart_bind _ (fun carry => Rlv p 2 (clv g) + 2 * 1 * cnt p carry)).
      * replace (Rest p s + (if p x then 1 else 0)) with (Rlv p 2 (clv g) + 1 * cnt p (isort (cbb g))).
        { apply Mart_zip. }
        rewrite (cnt_perm _ _ _ (isort_perm (cbb g))), Gbb, cnt_app, cnt_cons, cnt_nil, Rg. unfold Rest. ring.
      * intros carry _. apply (Mart_bind _ (fun lv' => 0 + Rlv p 2 lv')).
        -- replace (Rlv p 2 (clv g) + 2 * 1 * cnt p carry) with (0 + Rlv p 2 (clv g) + 2 * 2 ^ Z.of_nat 0 * cnt p carry)
             by (change (2 ^ Z.of_nat 0) with 1; ring).
           apply (carry_at_Mart p (ck s)); [lia|rewrite Gb; exact G2|change (2 ^ Z.of_nat 0) with 1; exact Fit].
        -- intros lv' _. apply Mart_ret'. reflexivity.
    + intros s2 _. apply Mart_ret'. unfold Rest. cbn [cbb clv]. rewrite cnt_nil. ring.
  - apply Mart_ret'. unfold Rest. cbn [cbb clv]. rewrite cnt_app, cnt_cons, cnt_nil. ring.
Qed.

Lemma updates_Mart p : forall xs s, Inv s -> Mart (Rest p) (updates s xs) (Rest p s + cnt p xs).
Proof.
  induction xs as [|x r IH]; intros s I.
  - apply Mart_ret'. rewrite cnt_nil. ring.
  - cbn [updates]. apply (Mart_bind _ (fun s1 => Rest p s1 + cnt p r)).
    + replace (Rest p s + cnt p (x :: r)) with (Rest p s + (if p x then 1 else 0) + cnt p r) by (rewrite cnt_cons; ring).
      apply Mart_plus. now apply update_Mart.
    + intros s1 L1. apply IH. destruct (update_spec s x s1 I L1) as [I1 _]. exact I1.
Qed.

(* ---------- merging the levels of a source sketch ---------- *)
Section MergeLevelsMart.
  Variables (p : Z -> bool) (ks kt : Z) (lg : nat).
  Variable f : nat -> list Z -> cq -> M cq.
  Hypothesis Hf : forall lvl l t t', ck t = kt -> 0 <= cbp t -> lv_ok kt (cbp t) (clv t) ->
    cbp t + 2 ^ Z.of_nat (lvl + lg) < 2 ^ Z.of_nat (length (clv t)) -> len l = ks -> ssorted l ->
    leaf (f lvl l t) t' ->
    t' = set_lv t (clv t') (cbp t + 2 ^ Z.of_nat (lvl + lg)) /\
    lv_ok kt (cbp t + 2 ^ Z.of_nat (lvl + lg)) (clv t') /\ length (clv t') = length (clv t) /\
    (forall q, cnt q (concat (clv t')) <= cnt q (concat (clv t)) + cnt q l).
  (* one insertion keeps the estimate: the level had weight 2^(lvl+1) per item in the source *)
  Hypothesis HfM : forall lvl l t, ck t = kt -> 0 <= cbp t -> lv_ok kt (cbp t) (clv t) ->
    cbp t + 2 ^ Z.of_nat (lvl + lg) < 2 ^ Z.of_nat (length (clv t)) -> len l = ks -> ssorted l ->
    Mart (Rest p) (f lvl l t) (Rest p t + 2 * 2 ^ Z.of_nat lvl * cnt p l).

  Lemma merge_levels_Mart : forall src lvl pat t, 0 <= pat -> lv_ok ks pat src ->
    ck t = kt -> 0 <= cbp t -> lv_ok kt (cbp t) (clv t) ->
    cbp t + pat * 2 ^ Z.of_nat (lvl + lg) < 2 ^ Z.of_nat (length (clv t)) ->
    Mart (Rest p) (merge_levels f lvl pat src t) (Rest p t + Rlv p (2 * 2 ^ Z.of_nat lvl) src).
  Proof.
    induction src as [|l r IH]; intros lvl pat t Hp Hs Kt B V Fit.
    - apply Mart_ret'. cbn [Rlv]. ring.
    - destruct Hs as [Hl Hr]. cbn [merge_levels].
      pose proof (odd_div2 pat) as E. pose proof (pow2_pos (lvl + lg)) as PP.
      assert (PS : 2 ^ Z.of_nat (S lvl + lg) = 2 * 2 ^ Z.of_nat (lvl + lg)) by (cbn [Nat.add]; apply pow2_S).
      assert (PL : 2 * 2 ^ Z.of_nat (S lvl) = 2 * (2 * 2 ^ Z.of_nat lvl)) by (rewrite pow2_S; ring).
      remember (pat / 2) as q eqn:Eq. clear Eq. remember (2 ^ Z.of_nat (lvl + lg)) as P eqn:EP.
      apply (Mart_bind _ (fun t1 => Rest p t1 + Rlv p (2 * 2 ^ Z.of_nat (S lvl)) r)).
      + destruct (Z.odd pat) eqn:O.
        * destruct Hl as [Hl Sl].
          assert (F1 : cbp t + P < 2 ^ Z.of_nat (length (clv t))) by (pose proof (mul_ge pat P ltac:(lia) PP); lia).
          rewrite EP in F1.
          replace (Rest p t + Rlv p (2 * 2 ^ Z.of_nat lvl) (l :: r))
            with (Rest p t + 2 * 2 ^ Z.of_nat lvl * cnt p l + Rlv p (2 * 2 ^ Z.of_nat (S lvl)) r)
            by (cbn [Rlv]; rewrite PL; ring).
          apply Mart_plus. apply HfM; auto.
        * subst l. apply Mart_ret'. cbn [Rlv]. rewrite cnt_nil, PL. ring.
      + intros t1 L1. destruct (Z.odd pat) eqn:O.
        * destruct Hl as [Hl Sl].
          assert (F1 : cbp t + P < 2 ^ Z.of_nat (length (clv t))) by (pose proof (mul_ge pat P ltac:(lia) PP); lia).
          rewrite EP in F1. destruct (Hf lvl l t t1 Kt B V F1 Hl Sl L1) as (A1 & A2 & A3 & A4). rewrite <- EP in *.
          assert (K1 : ck t1 = kt) by (rewrite A1; cbn [ck set_lv]; exact Kt).
          assert (B1 : cbp t1 = cbp t + P) by (rewrite A1; reflexivity).
          apply (IH (S lvl) q t1); auto; try lia.
          -- rewrite B1. exact A2.
          -- rewrite B1, A3, PS. nia.
        * apply leaf_ret_inv in L1. subst t1. apply (IH (S lvl) q t); auto; try lia.
  Qed.
End MergeLevelsMart.

Lemma std_HfM p kt : forall lvl l t, ck t = kt -> 0 <= cbp t -> lv_ok kt (cbp t) (clv t) ->
    cbp t + 2 ^ Z.of_nat (lvl + 0) < 2 ^ Z.of_nat (length (clv t)) -> len l = kt -> ssorted l ->
    Mart (Rest p) (propagate lvl l [] false t) (Rest p t + 2 * 2 ^ Z.of_nat lvl * cnt p l).
Proof.
  intros lvl l t Kt B V Fit Hl Sl. rewrite Nat.add_0_r in Fit. subst kt. now apply propagate_merge_Mart.
Qed.

Lemma down_HfM p ks kt lg : 0 < kt -> ks = 2 ^ Z.of_nat lg * kt ->
  forall lvl l t, ck t = kt -> 0 <= cbp t -> lv_ok kt (cbp t) (clv t) ->
    cbp t + 2 ^ Z.of_nat (lvl + lg) < 2 ^ Z.of_nat (length (clv t)) -> len l = ks -> ssorted l ->
    Mart (Rest p) (bind (zip_stride l (2 ^ Z.of_nat lg)) (fun down => propagate (lvl + lg) down [] false t))
         (Rest p t + 2 * 2 ^ Z.of_nat lvl * cnt p l).
Proof.
  intros Hk Hks lvl l t Kt B V Fit Hl Sl. pose proof (pow2_pos lg) as PP.
  apply (Mart_bind _ (fun down => Rest p t + 2 ^ Z.of_nat lg * (2 * 2 ^ Z.of_nat lvl) * cnt p down)).
  - apply Mart_zip_stride. lia.
  - intros down _.
    replace (Rest p t + 2 ^ Z.of_nat lg * (2 * 2 ^ Z.of_nat lvl) * cnt p down)
      with (Rest p t + 2 * 2 ^ Z.of_nat (lvl + lg) * cnt p down)
      by (rewrite Nat2Z.inj_add, Z.pow_add_r by lia; ring).
    subst kt. now apply propagate_merge_Mart.
Qed.

(* the common part of standard_merge and downsampling_merge keeps the estimate: R(result) has mean R(tgt) + R(src) *)
Lemma merge_with_Mart p f tgt src l1 l2 lg :
  Rel tgt l1 -> Rel src l2 -> ck src = 2 ^ Z.of_nat lg * ck tgt ->
  (forall lvl l t t', ck t = ck tgt -> 0 <= cbp t -> lv_ok (ck tgt) (cbp t) (clv t) ->
    cbp t + 2 ^ Z.of_nat (lvl + lg) < 2 ^ Z.of_nat (length (clv t)) -> len l = ck src -> ssorted l ->
    leaf (f lvl l t) t' ->
    t' = set_lv t (clv t') (cbp t + 2 ^ Z.of_nat (lvl + lg)) /\
    lv_ok (ck tgt) (cbp t + 2 ^ Z.of_nat (lvl + lg)) (clv t') /\ length (clv t') = length (clv t) /\
    (forall q, cnt q (concat (clv t')) <= cnt q (concat (clv t)) + cnt q l)) ->
  (forall lvl l t, ck t = ck tgt -> 0 <= cbp t -> lv_ok (ck tgt) (cbp t) (clv t) ->
    cbp t + 2 ^ Z.of_nat (lvl + lg) < 2 ^ Z.of_nat (length (clv t)) -> len l = ck src -> ssorted l ->
    Mart (Rest p) (f lvl l t) (Rest p t + 2 * 2 ^ Z.of_nat lvl * cnt p l)) ->
  Mart (Rest p) (merge_with f tgt src) (Rest p tgt + Rest p src).
Proof.
  intros Rt Rs Hk Hf HfM. unfold merge_with.
  pose proof (r_inv _ _ Rs) as [Kvs Bs Ns Lbs Vs Lns Srs].
  pose proof (len_nonneg (cbb src)) as NNs. pose proof (valid_k_pos _ Kvs) as Ks2.
  destruct (Z.eqb_spec (cn src) 0) as [Z0|NZ].
  { apply Mart_ret'. assert (E1 : cbp src = 0) by nia. assert (E2 : len (cbb src) = 0) by nia.
    apply len_zero_nil in E2. unfold Rest at 2. rewrite E2, cnt_nil. rewrite E1 in Vs. rewrite (Rlv_zero p _ _ _ Vs). ring. }
  apply (Mart_bind _ (fun t1 => Rest p t1 + Rlv p 2 (clv src))).
  { replace (Rest p tgt + Rest p src) with (Rest p tgt + cnt p (cbb src) + Rlv p 2 (clv src)) by (unfold Rest; ring).
    apply Mart_plus. apply updates_Mart. apply (r_inv _ _ Rt). }
  intros t1 L1. destruct (updates_Rel _ _ _ _ Rt L1) as [R1 K1].
  pose proof (r_inv _ _ R1) as [Kv1 B1 N1 Lb1 V1 Ln1 Sr1].
  pose proof (valid_k_pos _ Kv1) as K2. pose proof (pow2_pos lg) as PP.
  pose proof (len_nonneg (cbb t1)) as NN1.
  set (fin := cbp t1 + cbp src * 2 ^ Z.of_nat lg).
  assert (Nt : cn t1 = cn tgt + len (cbb src)).
  { rewrite (r_n _ _ R1), (r_n _ _ Rt), len_app. reflexivity. }
  assert (Hnew : cn src + cn tgt = fin * (2 * ck t1) + len (cbb t1)).
  { unfold fin. rewrite K1 in *. rewrite Ns, Hk. nia. }
  assert (Hdiv : (cn src + cn tgt) / (2 * ck t1) = fin).
  { symmetry. apply (Z.div_unique_pos _ _ _ (len (cbb t1))); [lia|]. rewrite Hnew. ring. }
  assert (Fin0 : 0 <= fin) by (unfold fin; nia).
  unfold levels_needed. rewrite Hdiv.
  match goal with |- Mart _ (bind (merge_levels _ _ _ _ ?T2) _) _ => set (t2 := T2) end.
  assert (Len2 : length (clv t2) = bitlen fin).
  { unfold t2, grow_to. cbn [clv set_lv]. rewrite app_length, repeat_length, Ln1.
    pose proof (bitlen_mono (cbp t1) fin ltac:(unfold fin; nia)). lia. }
  assert (V2 : lv_ok (ck tgt) (cbp t2) (clv t2)).
  { unfold t2, grow_to. cbn [clv cbp set_lv]. rewrite <- K1. apply lv_ok_app_empty. exact V1. }
  assert (Fit : cbp t2 + cbp src * 2 ^ Z.of_nat (0 + lg) < 2 ^ Z.of_nat (length (clv t2))).
  { rewrite Len2. unfold t2. cbn [cbp set_lv]. cbn [Nat.add]. fold fin. apply bitlen_lt. exact Fin0. }
  assert (R2 : Rest p t2 = Rest p t1).
  { unfold Rest, t2, grow_to. cbn [cbb clv set_lv]. rewrite Rlv_app_empty. reflexivity. }
  apply (Mart_bind _ (fun t3 => Rest p t3)).
  - rewrite <- R2. change (Rlv p 2 (clv src)) with (Rlv p (2 * 2 ^ Z.of_nat 0) (clv src)).
    apply (merge_levels_Mart p (ck src) (ck tgt) lg f Hf HfM); auto.
  - intros t3 _. apply Mart_ret'. reflexivity.
Qed.

(* merge(other), all cases: R(result) has mean R(this) + R(other) *)
Theorem merge_Mart p s l1 o l2 : Rel s l1 -> Rel o l2 -> Mart (Rest p) (merge s o) (Rest p s + Rest p o).
Proof.
  intros Rs Ro. unfold merge.
  pose proof (r_inv _ _ Rs) as Is. pose proof (r_inv _ _ Ro) as Io.
  pose proof (i_k _ Is) as Ks. pose proof (i_k _ Io) as Ko.
  assert (Exact : forall t lt, Rel t lt -> cbp t = 0 -> Rest p t = cnt p (cbb t)).
  { intros t lt Rt Z0. destruct (exact_bb _ _ Rt Z0) as [E _]. unfold Rest. rewrite E. cbn [Rlv]. ring. }
  destruct (Z.eqb_spec (cn o) 0) as [Z0|NZ].
  { apply Mart_ret'. pose proof (i_n _ Io) as N. pose proof (i_bp _ Io). pose proof (len_nonneg (cbb o)).
    pose proof (valid_k_pos _ Ko). assert (E1 : cbp o = 0) by nia. assert (E2 : len (cbb o) = 0) by nia.
    rewrite (Exact o l2 Ro E1). apply len_zero_nil in E2. rewrite E2, cnt_nil. ring. }
  unfold is_estimation_mode.
  destruct (Z.eqb_spec (cbp o) 0) as [Eo|Eo]; cbn [negb].
  { rewrite (Exact o l2 Ro Eo). now apply updates_Mart. }
  destruct (Z.eqb_spec (cbp s) 0) as [Es|Es]; cbn [negb].
  - destruct (Z.leb_spec (ck s) (ck o)).
    + rewrite (Exact s l1 Rs Es). rewrite Z.add_comm. now apply updates_Mart.
    + unfold downsampling_merge. destruct (pow2_ratio (ck s) (ck o) Ks Ko ltac:(lia)) as [E1 E2].
      set (lg := Z.to_nat (Z.log2 (ck s / ck o))) in *. rewrite E2. rewrite Z.add_comm.
      apply (merge_with_Mart p _ o s l2 l1 lg Ro Rs E1).
      * apply (down_Hf (ck s) (ck o) lg); [apply valid_k_pos in Ko; lia|exact E1].
      * apply (down_HfM p (ck s) (ck o) lg); [apply valid_k_pos in Ko; lia|exact E1].
  - destruct (Z.eqb_spec (ck s) (ck o)) as [Ek|Ek].
    + unfold standard_merge.
      assert (E1 : ck o = 2 ^ Z.of_nat 0 * ck s) by (change (2 ^ Z.of_nat 0) with 1; lia).
      apply (merge_with_Mart p _ s o l1 l2 0%nat Rs Ro E1).
      * rewrite <- Ek. apply std_Hf. apply valid_k_pos in Ks. lia.
      * rewrite <- Ek. apply std_HfM.
    + destruct (Z.ltb_spec (ck o) (ck s)).
      * unfold downsampling_merge. destruct (pow2_ratio (ck s) (ck o) Ks Ko ltac:(lia)) as [E1 E2].
        set (lg := Z.to_nat (Z.log2 (ck s / ck o))) in *. rewrite E2. rewrite Z.add_comm.
        apply (merge_with_Mart p _ o s l2 l1 lg Ro Rs E1).
        -- apply (down_Hf (ck s) (ck o) lg); [apply valid_k_pos in Ko; lia|exact E1].
        -- apply (down_HfM p (ck s) (ck o) lg); [apply valid_k_pos in Ko; lia|exact E1].
      * unfold downsampling_merge. destruct (pow2_ratio (ck o) (ck s) Ko Ks ltac:(lia)) as [E1 E2].
        set (lg := Z.to_nat (Z.log2 (ck o / ck s))) in *. rewrite E2.
        apply (merge_with_Mart p _ s o l1 l2 lg Rs Ro E1).
        -- apply (down_Hf (ck o) (ck s) lg); [apply valid_k_pos in Ks; lia|exact E1].
        -- apply (down_HfM p (ck o) (ck s) lg); [apply valid_k_pos in Ks; lia|exact E1].
Qed.

(* ===================== histories: trees of updates, merges and queries ===================== *)
Inductive prog : Type :=
| PNew (k : Z)                     (* quantiles_sketch(k) *)
| PUpd (q : prog) (x : Z)          (* update(x) *)
| PMerge (a b : prog)              (* a.merge(b), a and b built independently (any k on either side) *)
| PQuery (q : prog).               (* a query in between: sorts the base buffer in place *)

Fixpoint exec (q : prog) : M cq :=
  match q with
  | PNew k => Ret (cq_new k)
  | PUpd q x => bind (exec q) (fun s => update s x)
  | PMerge a b => bind (exec a) (fun s => bind (exec b) (fun o => merge s o))
  | PQuery q => bind (exec q) (fun s => Ret (sort_bb s))
  end.

Fixpoint inputs (q : prog) : list Z :=
  match q with
  | PNew _ => []
  | PUpd q x => inputs q ++ [x]
  | PMerge a b => inputs a ++ inputs b
  | PQuery q => inputs q
  end.

Fixpoint wf (q : prog) : Prop :=
  match q with
  | PNew k => check_k k = true
  | PUpd q _ => wf q
  | PMerge a b => wf a /\ wf b
  | PQuery q => wf q
  end.

Theorem exec_reach : forall q s, wf q -> leaf (exec q) s -> reach s (inputs q).
Proof.
  induction q as [k|q IH x|a IHa b IHb|q IH]; intros s W L; cbn [exec inputs wf] in *.
  - apply leaf_ret_inv in L. subst. now constructor.
  - apply leaf_bind in L as (s0 & L0 & L1). eapply reach_update; eauto.
  - destruct W as [Wa Wb]. apply leaf_bind in L as (s0 & L0 & L). apply leaf_bind in L as (o & L1 & L2).
    eapply reach_merge; eauto.
  - apply leaf_bind in L as (s0 & L0 & L1). apply leaf_ret_inv in L1. subst. apply reach_sort. auto.
Qed.

Lemma Rest_sort_bb p s : Rest p (sort_bb s) = Rest p s.
Proof.
  unfold sort_bb. destruct (csorted s); [reflexivity|]. unfold Rest. cbn [cbb clv].
  rewrite (cnt_perm _ _ _ (isort_perm (cbb s))). reflexivity.
Qed.

(* the weighted count of retained items satisfying p has mean = the number of input items satisfying p *)
Theorem estimator_unbiased p : forall q, wf q -> Mart (Rest p) (exec q) (cnt p (inputs q)).
Proof.
  induction q as [k|q IH x|a IHa b IHb|q IH]; intro W; cbn [exec inputs wf] in *.
  - apply Mart_ret'. reflexivity.
  - apply (Mart_bind _ (fun s => Rest p s + (if p x then 1 else 0))).
    + rewrite cnt_app, cnt_cons, cnt_nil. replace (cnt p (inputs q) + ((if p x then 1 else 0) + 0))
        with (cnt p (inputs q) + (if p x then 1 else 0)) by ring.
      apply Mart_plus. auto.
    + intros s L. apply update_Mart. apply (r_inv _ _ (reach_Rel _ _ (exec_reach q s W L))).
  - destruct W as [Wa Wb]. apply (Mart_bind _ (fun s => Rest p s + cnt p (inputs b))).
    + rewrite cnt_app. apply Mart_plus. auto.
    + intros s Ls. apply (Mart_bind _ (fun o => Rest p s + Rest p o)).
      * apply (Mart_affine (Rest p) (exec b) (cnt p (inputs b)) (Rest p s) 1) in IHb; [|exact Wb].
        replace (Rest p s + cnt p (inputs b)) with (Rest p s + 1 * cnt p (inputs b)) by ring.
        eapply Mart_ext; [|exact IHb]. intros; ring.
      * intros o Lo. apply (merge_Mart p s (inputs a) o (inputs b)); apply reach_Rel; apply exec_reach; auto.
  - apply (Mart_bind _ (Rest p)); auto. intros s L. apply Mart_ret'. symmetry. apply Rest_sort_bb.
Qed.

(* what get_rank returns (numerator) on the result of the history, as an exact expectation over all outcomes *)
Definition rank_of (x : Z) (incl : bool) (s : cq) : Z := rank_num Z Z.ltb (qview s) x incl.

Theorem rank_unbiased x incl q : wf q ->
  (Ex (fmap (rank_of x incl) (exec q)) == inject_Z (cnt (below Z Z.ltb x incl) (inputs q)))%Q.
Proof.
  intro W. apply Mart_Ex. eapply Mart_ext; [|apply (estimator_unbiased (below Z Z.ltb x incl) q W)].
  intros s L. unfold rank_of. symmetry. eapply P_rank_is_estimator. eapply exec_reach; eauto.
Qed.
