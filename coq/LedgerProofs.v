(* LedgerProofs.v — object-level theorems of C19 for the three modelled families (KLL items_, theta/tuple entries_,
   frequent-items keys_/values_/states_): for every object reachable by ANY history of lifecycle operations
   (LedgerDefs.obj_* — the functions the extracted machine executes), the effect log of the next operation is accepted
   by the ledger (no release with a wrong size, no double construction, no destruction or read of an unconstructed
   slot, no release of a block that still holds items), the ledger afterwards holds exactly the object's buffers with
   exactly the slots its counters imply constructed, and the destructor leaves the ledger empty. *)
From Coq Require Import ZArith NArith List Bool Lia.
From DS Require Import RunnerLib LedgerCore LedgerCoreProofs LedgerKll LedgerKllProofs LedgerTup LedgerTupProofs LedgerFi LedgerFiProofs LedgerReq LedgerReqProofs LedgerVo LedgerVoProofs LedgerHll LedgerHllProofs LedgerDefs.
Import ListNotations.
Local Open Scope Z_scope.

(* the at-rest invariant of a live (not moved-from) object of the two proved families *)
Definition ObjInv (o : obj) : Prop :=
  match o_st o with
  | OK s => KInv s (o_led o) /\ k_blk s <> None
  | OT s => TInv s (o_led o) /\ t_blk s <> None
  | OF s => FInv s (o_led o) /\ f_blk s <> None
  | OQ s => QInv s /\ o_led o = q_ledger s /\ q_comps s <> []
  | OV s => VInv s (o_led o) /\ v_blk s <> None
  | OH s => HInv s (o_led o)
  end.

Lemma judge_ok X L es L' : apply_all X L es = Some L' -> judge X L es = (L', false).
Proof. intros H. unfold judge. now rewrite H. Qed.

Lemma obj_new_ok kind p1 p2 o bad : obj_new kind p1 p2 = Some (o, bad) -> ObjInv o /\ bad = false.
Proof.
  unfold obj_new.
  destruct kind as [|[p|p|]|p]; [ | discriminate | destruct p as [p|p|]; [discriminate|destruct p; [discriminate|discriminate|]|] | | discriminate ].
  - destruct ((p1 <? 8) || (65535 <? p1) || (p2 <? 0) || (255 <? p2)); [discriminate|].
    destruct (new_kll (zN p1)) as [s e] eqn:E.
    destruct (new_kll_ok [] _ _ _ E) as (L & HL & HI).
    rewrite (judge_ok _ _ _ _ HL). intros E2; injection E2 as <- <-. split; auto.
    unfold ObjInv. simpl. split; auto. unfold new_kll in E. injection E as <- _. simpl. congruence.
  - destruct ((p1 <? 1) || (65535 <? p1) || (p2 <? 0) || (3 <? p2)); [discriminate|].
    destruct (new_vo (zN p1) (zN p2)) as [s e] eqn:E.
    destruct (new_vo_ok [] _ _ _ _ E) as (L & HL & HI).
    rewrite (judge_ok _ _ _ _ HL). intros E2; injection E2 as <- <-. split; auto.
    unfold ObjInv. simpl. split; auto. unfold new_vo in E. injection E as <- _. simpl. congruence.
  - destruct ((p1 <? 0) || (p2 <? 0) || (12 <? p1) || (12 <? p2)); [discriminate|].
    destruct (new_fim (zN p1) (zN p2)) as [[s e]|] eqn:E; [|discriminate].
    destruct (new_fim_ok [] _ _ _ _ E) as (L & HL & HI & Hnn).
    rewrite (judge_ok _ _ _ _ HL). intros E2; injection E2 as <- <-. split; auto.
    unfold ObjInv. simpl. split; auto.
  - destruct ((p1 <? 5) || (26 <? p1) || (p2 <? 0) || (3 <? p2)); [discriminate|].
    destruct (new_tup (zN p1) (zN p2)) as [s e] eqn:E.
    destruct (new_tup_ok [] _ _ _ _ E) as (L & HL & HI).
    rewrite (judge_ok _ _ _ _ HL). intros E2; injection E2 as <- <-. split; auto.
    unfold ObjInv. simpl. split; auto. unfold new_tup in E. injection E as <- _. simpl. congruence.
Qed.

Lemma obj_new_req_ok p1 p2 e o bad : obj_new_req p1 p2 e = Some (o, bad) -> ObjInv o /\ bad = false.
Proof.
  unfold obj_new_req. destruct ((p1 <? 4) || (255 <? p1) || Z.odd p1 || (p2 <? 0) || (1 <? p2)) eqn:Hc; [discriminate|].
  destruct (new_req (zN p1) (p2 =? 1) (map zN e)) as [s b] eqn:E.
  assert (Hk : (4 <= zN p1)%N).
  { repeat (apply orb_false_elim in Hc; destruct Hc as [Hc ?]). apply Z.ltb_ge in Hc. unfold zN. lia. }
  destruct (new_req_ok _ _ _ s b Hk E) as [HQ ->]. pose proof (new_req_nonempty _ _ _ _ _ E). intros E2; injection E2 as <- <-. split; auto.
  unfold ObjInv, mkq. simpl. auto.
Qed.

Lemma obj_new_hll_ok u p1 p2 e o bad : obj_new_hll u p1 p2 e = Some (o, bad) -> ObjInv o /\ bad = false.
Proof.
  unfold obj_new_hll. destruct ((p1 <? 4) || (21 <? p1) || (p2 <? 0) || (2 <? p2)); [discriminate|].
  destruct e as [|s0 [|s1 [|s2 [|s3 [|s4 [|s5 [|m [|k [|t [|c [|a e']]]]]]]]]]]; try discriminate.
  destruct (hll_build u _ _) as [s es] eqn:E. destruct (build_ok [] _ _ _ _ _ E) as (L & HL & HI).
  rewrite (judge_ok _ _ _ _ HL). intros E2; injection E2 as <- <-. split; auto.
Qed.

Lemma obj_result_ok u e o bad : ObjInv u -> obj_result u e = Some (o, bad) -> ObjInv o /\ bad = false.
Proof.
  unfold obj_result. destruct (o_st u) as [s|s|s|s|s|s]; try discriminate.
  destruct e as [|m [|k [|t [|c [|a e']]]]]; try discriminate. destruct (h_union s); [|discriminate].
  intros _. destruct (hll_build false _ _) as [s' es] eqn:E. destruct (build_ok (o_led u) _ _ _ _ _ E) as (L & HL & HI).
  rewrite (judge_ok _ _ _ _ HL). intros E2; injection E2 as <- <-. split; auto.
Qed.

Lemma kll_update_blk s s' es : kll_update s = Some (s', es) -> k_blk s' <> None.
Proof.
  unfold kll_update. destruct (k_blk s); [|discriminate].
  destruct (internal_update s) as [[[s1 e1] idx]|]; [|discriminate].
  destruct (k_blk s1) eqn:H; [|discriminate]. intros E; injection E as <- _. congruence.
Qed.

Lemma tup_blk_update s h s' es : tup_update s h = Some (s', es) -> t_blk s' <> None.
Proof.
  unfold tup_update. destruct (t_blk s) eqn:Hb; [|discriminate].
  destruct ((t_theta s <=? h) || (h =? 0))%N. { intros E; injection E as <- _. congruence. }
  destruct (existsb (N.eqb h) (t_keys s)). { intros E; injection E as <- _. congruence. }
  destruct (_ <? _)%N.
  - destruct (t_lg_cur s <=? t_lg_nom s)%N; unfold resize, rebuild; cbv zeta; intros E; injection E as <- _; simpl; congruence.
  - intros E; injection E as <- _. simpl. congruence.
Qed.

(* frequent items: the model outcome Abort (resize could not re-insert, or a purge left the map over capacity: both are
   logic_error throws of the code from which it does not recover its buffers) is the only way to a raised flag *)
Definition update_aborts (o : obj) (v w : Z) (e : line) : Prop :=
  match o_st o, e with
  | OF s, h :: _ => fim_update s v (zN h) (zN w) = FAbort
  | _, _ => False
  end.

Lemma obj_update_ok o v w e : ObjInv o ->
  match obj_update o v w e with
  | UDone o' bad => ObjInv o' /\ bad = false
  | URefused o' bad => ObjInv o' /\ (bad = false \/ update_aborts o v w e)
  end.
Proof.
  unfold ObjInv, obj_update, update_aborts. destruct (o_st o) as [s|s|s|s|s|s] eqn:Hs.
  - intros [HI Hnn]. destruct (kll_update s) as [[s' es]|] eqn:E.
    + destruct (kll_update_ok [] s _ s' es HI E) as (L' & HL' & HI').
      rewrite (judge_ok _ _ _ _ HL'). simpl. repeat split; auto. eapply kll_update_blk; eauto.
    + rewrite Hs. auto.
  - intros [HI Hnn]. destruct e as [|h e']. { rewrite Hs. auto. }
    destruct (tup_update s (zN h)) as [[s' es]|] eqn:E.
    + destruct (tup_update_ok [] s _ _ s' es HI E) as (L' & HL' & HI').
      rewrite (judge_ok _ _ _ _ HL'). simpl. repeat split; auto. eapply tup_blk_update; eauto.
    + rewrite Hs. auto.
  - intros [HI Hnn]. destruct e as [|h e']. { rewrite Hs. auto. }
    pose proof (fim_update_ok [] s (o_led o) v (zN h) (zN w) HI) as H.
    destruct (fim_update s v (zN h) (zN w)) as [s' es| |].
    + destruct H as (L' & HL' & HI' & Hb'). rewrite (judge_ok _ _ _ _ HL'). simpl. repeat split; auto.
    + rewrite Hs. auto.
    + rewrite Hs. auto.
  - intros (HQ & HL & Hne). destruct (req_update s) as [[s' bad]|] eqn:E.
    + destruct (req_update_ok s s' bad HQ E) as [HQ' ->]. pose proof (req_update_nonempty _ _ _ E). unfold mkq. simpl. auto.
    + exfalso. exact (req_update_total s HQ Hne E).
  - intros [HI Hnn]. destruct (vo_update s (map zN e)) as [[s' es]|] eqn:E.
    + destruct (vo_update_ok [] s _ _ s' es HI E) as (L' & HL' & HI' & Hb').
      rewrite (judge_ok _ _ _ _ HL'). simpl. repeat split; auto.
    + rewrite Hs. auto.
  - intros HI. destruct e as [|m [|k [|t [|c [|a e']]]]]; try (rewrite Hs; auto).
    destruct (hll_reshape s _) as [s' es] eqn:E. destruct (reshape_ok [] s _ _ s' es HI E) as (L' & HL' & HI').
    rewrite (judge_ok _ _ _ _ HL'). simpl. auto.
Qed.

Lemma obj_copy_ok o c bad : ObjInv o -> obj_copy o = Some (c, bad) -> ObjInv c /\ bad = false.
Proof.
  unfold ObjInv, obj_copy. destruct (o_st o) as [s|s|s|s|s|s] eqn:Hs.
  - intros [HI Hnn]. destruct (kll_copy s) as [[s' es]|] eqn:E; [|discriminate].
    destruct (kll_copy_ok s _ s' es HI E) as (L' & HL' & HI').
    rewrite (judge_ok _ _ _ _ HL'). intros E2; injection E2 as <- <-. simpl. repeat split; auto.
    unfold kll_copy in E. destruct (k_blk s); [|discriminate]. injection E as <- _. simpl. congruence.
  - intros [HI Hnn]. destruct (tup_copy s) as [[s' es]|] eqn:E; [|discriminate].
    destruct (tup_copy_ok s _ s' es HI E) as (L' & HL' & HI').
    rewrite (judge_ok _ _ _ _ HL'). intros E2; injection E2 as <- <-. simpl. repeat split; auto.
    unfold tup_copy in E. destruct (t_blk s); [|congruence]. injection E as <- _. simpl. congruence.
  - intros [HI Hnn]. destruct (fim_copy s) as [[s' es]|] eqn:E; [|discriminate].
    destruct (fim_copy_ok s _ s' es HI E) as (L' & HL' & HI' & Hb').
    rewrite (judge_ok _ _ _ _ HL'). intros E2; injection E2 as <- <-. simpl. repeat split; auto.
  - intros (HQ & HL & Hne). destruct (req_copy s) as [s' b] eqn:E. destruct (req_copy_ok s s' b HQ E) as [HQ' ->].
    pose proof (req_copy_nonempty _ _ _ Hne E). intros E2; injection E2 as <- <-. unfold mkq. simpl. auto.
  - intros [HI Hnn]. destruct (vo_copy s) as [[s' es]|] eqn:E; [|discriminate].
    destruct (vo_copy_ok s _ s' es HI E) as (L' & HL' & HI' & Hb').
    rewrite (judge_ok _ _ _ _ HL'). intros E2; injection E2 as <- <-. simpl. repeat split; auto.
  - intros HI. destruct (hll_copy s) as [s' es] eqn:E. unfold hll_copy in E.
    destruct (build_ok (o_led o) _ _ _ _ _ E) as (L' & HL' & HI').
    rewrite (judge_ok _ _ _ _ HL'). intros E2; injection E2 as <- <-. simpl. auto.
Qed.

(* the destructor: accepted, and nothing is left in the object's ledger *)
Lemma obj_destroy_ok o : ObjInv o -> obj_destroy o = false.
Proof.
  unfold ObjInv, obj_destroy. destruct (o_st o) as [s|s|s|s|s|s].
  - intros [HI _]. rewrite (judge_ok _ _ _ _ (kll_destroy_ok [] s _ HI)). reflexivity.
  - intros [HI _]. rewrite (judge_ok _ _ _ _ (tup_destroy_ok [] s _ HI)). reflexivity.
  - intros [HI _]. rewrite (judge_ok _ _ _ _ (fim_destroy_ok [] s _ HI)). reflexivity.
  - intros (HQ & _). now apply req_destroy_ok.
  - intros [HI _]. rewrite (judge_ok _ _ _ _ (vo_destroy_ok [] s _ HI)). reflexivity.
  - intros HI. rewrite (judge_ok _ _ _ _ (hll_destroy_ok [] s _ HI)). reflexivity.
Qed.

(* a moved-from object owns nothing: destroying it touches nothing *)
Lemma obj_destroy_moved_from o : obj_destroy (obj_moved_from o) = false.
Proof.
  unfold obj_destroy, obj_moved_from. destruct (o_st o) as [s|s|s|s|s|s]; simpl.
  - unfold kll_destroy. simpl. reflexivity.
  - unfold tup_destroy. simpl. reflexivity.
  - unfold fim_destroy. simpl. reflexivity.
  - reflexivity.
  - unfold vo_destroy. simpl. reflexivity.
  - unfold hll_destroy. simpl. reflexivity.
Qed.

Lemma obj_copy_assign_ok r s o' bad : ObjInv r -> ObjInv s -> obj_copy_assign r s = Some (o', bad) -> ObjInv o' /\ bad = false.
Proof.
  intros Hr Hs. unfold obj_copy_assign. destruct (negb (kind_of r =? kind_of s)); [discriminate|].
  destruct (obj_copy s) as [[c b1]|] eqn:E; [|discriminate].
  destruct (obj_copy_ok s c b1 Hs E) as [Hc ->]. rewrite (obj_destroy_ok r Hr).
  intros E2; injection E2 as <- <-. auto.
Qed.

Lemma obj_reset_ok o e o' bad : ObjInv o -> obj_reset o e = Some (o', bad) -> ObjInv o' /\ bad = false.
Proof.
  unfold ObjInv, obj_reset. destruct (o_st o) as [s|s|s|s|s|s]; try discriminate.
  - intros [HI Hnn]. destruct (tup_reset s) as [[s' es]|] eqn:E; [|discriminate].
    destruct (tup_reset_ok [] s _ s' es HI E) as (L' & HL' & HI').
    rewrite (judge_ok _ _ _ _ HL'). intros E2; injection E2 as <- <-. simpl. repeat split; auto.
    unfold tup_reset in E. destruct (t_blk s); [|discriminate]. cbv zeta in E.
    destruct (_ =? _)%N; injection E as <- _; simpl; congruence.
  - intros [HI Hnn]. destruct (vo_reset s) as [[s' es]|] eqn:E; [|discriminate].
    destruct (vo_reset_ok [] s _ s' es HI E) as (L' & HL' & HI' & Hb').
    rewrite (judge_ok _ _ _ _ HL'). intros E2; injection E2 as <- <-. simpl. repeat split; auto.
  - intros HI. destruct e as [|m [|k [|t [|c [|a e']]]]]; try discriminate.
    destruct (hll_reshape s _) as [s' es] eqn:E. destruct (reshape_ok [] s _ _ s' es HI E) as (L' & HL' & HI').
    rewrite (judge_ok _ _ _ _ HL'). intros E2; injection E2 as <- <-. simpl. auto.
Qed.

Lemma obj_trim_ok o o' bad : ObjInv o -> obj_trim o = Some (o', bad) -> ObjInv o' /\ bad = false.
Proof.
  unfold ObjInv, obj_trim. destruct (o_st o) as [s|s|s|s|s|s]; try tauto; try discriminate.
  intros [HI Hnn]. destruct (tup_trim s) as [[s' es]|] eqn:E; [|discriminate].
  destruct (tup_trim_ok [] s _ s' es HI E) as (L' & HL' & HI').
  rewrite (judge_ok _ _ _ _ HL'). intros E2; injection E2 as <- <-. simpl. repeat split; auto.
  unfold tup_trim in E. destruct (t_blk s) eqn:Hb; [|discriminate].
  destruct (_ <? _)%N; [unfold rebuild in E; cbv zeta in E|]; injection E as <- _; simpl; congruence.
Qed.

Lemma merge_level0_blk : forall cnt ob osrc s acc s' es ok, k_blk s <> None ->
  merge_level0 cnt ob osrc s acc = (s', es, ok) -> k_blk s' <> None.
Proof.
  induction cnt as [|c IH]; intros ob osrc s acc s' es ok Hnn; simpl.
  - intros E; injection E as <- _ _. auto.
  - destruct (internal_update s) as [[[s1 e1] idx]|]. 2:{ intros E; injection E as <- _ _. auto. }
    destruct (k_blk s1) eqn:Hb. 2:{ intros E; injection E as <- _ _. auto. }
    apply IH. congruence.
Qed.

Lemma kll_merge_blk s o s' es oc : k_blk s <> None -> kll_merge s o = (s', es, oc) -> k_blk s' <> None.
Proof.
  intros Hnn. unfold kll_merge. destruct (k_n o =? 0)%N. { intros E; injection E as <- _ _. auto. }
  destruct (k_blk o). 2:{ intros E; injection E as <- _ _. auto. }
  destruct (merge_level0 _ _ _ s []) as [[s1 e1] ok] eqn:E0.
  pose proof (merge_level0_blk _ _ _ _ _ _ _ _ Hnn E0) as H1.
  destruct ok; simpl negb; cbv iota. 2:{ intros E; injection E as <- _ _. auto. }
  destruct (2 <=? k_nl o)%N.
  - destruct (merge_higher s1 o _) as [[s2 e2]|] eqn:Eh.
    + intros E; injection E as <- _ _. simpl. unfold merge_higher in Eh.
      destruct (k_blk s1); [|discriminate]. destruct (k_blk o); [|discriminate]. cbv zeta in Eh.
      destruct (_ || _); [discriminate|]. injection Eh as <- _. simpl. congruence.
    + intros E; injection E as <- _ _. auto.
  - intros E; injection E as <- _ _. simpl. auto.
Qed.

(* merge (by reference or by move).  The only way to a raised flag is the outcome [Abort] of the model: one of the
   postconditions of general_compress the code relies on (no more items than capacity, levels within the bound
   computed from n) failed — in the code that would be an out-of-bounds write, not something the ledger can absolve. *)
Definition merge_aborts (r s : obj) : Prop :=
  match o_st r, o_st s with
  | OK a, OK b => snd (kll_merge a b) = Abort
  | OF a, OF b => snd (fim_merge a b) = true
  | _, _ => False
  end.

Lemma obj_merge_ok r s e u : ObjInv r -> ObjInv s -> obj_merge r s e = Some u ->
  match u with
  | UDone o' bad => ObjInv o' /\ bad = false
  | URefused o' bad => ObjInv o' /\ (bad = false \/ merge_aborts r s)
  end.
Proof.
  unfold ObjInv, obj_merge, merge_aborts.
  destruct (o_st r) as [a|a|a|a|a|a] eqn:Hr; destruct (o_st s) as [b|b|b|b|b|b] eqn:Hs; try discriminate.
  - intros [HIa Hna] [HIb Hnb].
    destruct (kll_merge a b) as [[a' es] oc] eqn:E.
    destruct (kll_merge_ok a b _ _ a' es oc HIa HIb Hna E) as (L' & HL' & HI').
    rewrite (judge_ok _ _ _ _ HL'). pose proof (kll_merge_blk _ _ _ _ _ Hna E) as Hb'.
    intros E2; injection E2 as <-. destruct oc; simpl; repeat split; auto.
  - intros [HIa Hna] [HIb Hnb].
    destruct (fim_merge a b) as [[[a' es] ok] ab] eqn:E.
    destruct (fim_merge_ok a b _ _ a' es ok ab HIa HIb Hna E) as (L' & HL' & HI' & Hb').
    rewrite (judge_ok _ _ _ _ HL'). intros E2; injection E2 as <-.
    destruct ok; simpl; repeat split; auto. destruct ab; auto.
  - intros (HQa & HLa & Hna) (HQb & HLb & Hnb). destruct (req_merge a b) as [[a' bad]|] eqn:E.
    + destruct (req_merge_ok a b a' bad HQa HQb E) as [HQ' ->]. pose proof (req_merge_nonempty _ _ _ _ Hna E).
      intros E2; injection E2 as <-. unfold mkq. simpl. auto.
    + destruct (Bool.eqb (q_hra a) (q_hra b)) eqn:Hh; [|discriminate]. apply Bool.eqb_prop in Hh.
      exfalso. exact (req_merge_total a b HQa HQb Hh E).
  - intros HIa HIb. destruct (h_union a && negb (h_union b)); [|discriminate].
    destruct e as [|m [|k [|t [|c [|x e']]]]]; try discriminate.
    destruct (hll_reshape a _) as [a' es] eqn:E. destruct (reshape_ok (o_led s) a _ _ a' es HIa E) as (L' & HL' & HI').
    rewrite (judge_ok _ _ _ _ HL'). intros E2; injection E2 as <-. simpl. auto.
Qed.

(* ---- every object reachable by any history ---- *)
Inductive reach : obj -> Prop :=
| R_new kind p1 p2 o bad : obj_new kind p1 p2 = Some (o, bad) -> reach o
| R_new_req p1 p2 e o bad : obj_new_req p1 p2 e = Some (o, bad) -> reach o
| R_new_hll u p1 p2 e o bad : obj_new_hll u p1 p2 e = Some (o, bad) -> reach o
| R_result u e o bad : reach u -> obj_result u e = Some (o, bad) -> reach o
| R_update o v w e o' bad : reach o -> obj_update o v w e = UDone o' bad -> reach o'
| R_update_refused o v w e o' bad : reach o -> obj_update o v w e = URefused o' bad -> reach o'
| R_copy o c bad : reach o -> obj_copy o = Some (c, bad) -> reach c
| R_copy_assign r s o' bad : reach r -> reach s -> obj_copy_assign r s = Some (o', bad) -> reach o'
| R_merge r s e o' bad : reach r -> reach s -> obj_merge r s e = Some (UDone o' bad) -> reach o'
| R_merge_refused r s e o' bad : reach r -> reach s -> obj_merge r s e = Some (URefused o' bad) -> reach o'
| R_reset o e o' bad : reach o -> obj_reset o e = Some (o', bad) -> reach o'
| R_trim o o' bad : reach o -> obj_trim o = Some (o', bad) -> reach o'.

Theorem reach_inv o : reach o -> ObjInv o.
Proof.
  induction 1.
  - eapply (obj_new_ok kind p1 p2); eauto.
  - eapply (obj_new_req_ok p1 p2 e); eauto.
  - eapply (obj_new_hll_ok u p1 p2 e); eauto.
  - eapply (obj_result_ok u e); eauto.
  - pose proof (obj_update_ok o v w e IHreach) as H1. rewrite H0 in H1. tauto.
  - pose proof (obj_update_ok o v w e IHreach) as H1. rewrite H0 in H1. tauto.
  - eapply (obj_copy_ok o); eauto.
  - eapply (obj_copy_assign_ok r s); eauto.
  - pose proof (obj_merge_ok r s e _ IHreach1 IHreach2 H1) as H2. simpl in H2. tauto.
  - pose proof (obj_merge_ok r s e _ IHreach1 IHreach2 H1) as H2. simpl in H2. tauto.
  - eapply (obj_reset_ok o e); eauto.
  - eapply (obj_trim_ok o); eauto.
Qed.

(* what is alive at rest: exactly the retained items, in a buffer of exactly the capacity the object records *)
Definition capacity_of (o : obj) : N :=
  match o_st o with OK s => k_cap s | OT s => t_size s | OF s => f_size s | OQ s => sum_cap (q_comps s) | OV s => v_alloc s | OH s => hll_bytes s end.

(* constructed slots of the item buffer: retained items (KLL), retained entries (theta/tuple), slots with states_ > 0 (fi) *)
Definition constructed_of (o : obj) : N :=
  match o_st o with OK s => k_retained s | OT s => t_num s | OF s => count_active (f_slots s) | OQ s => sum_num (q_comps s)
                   | OV s => (v_retained s + (if (0 <? v_r s) && v_gapc s then 1 else 0))%N | OH _ => 0%N end.

Lemma inv_live o : ObjInv o -> live_slots (o_led o) = constructed_of o /\ item_slots (o_led o) = capacity_of o.
Proof.
  unfold ObjInv, constructed_of, capacity_of. destruct (o_st o) as [s|s|s|s|s|s].
  - intros [HI Hnn]. destruct (k_blk s) as [b|] eqn:Hb; [|congruence]. eapply kll_live; eauto.
  - intros [HI Hnn]. apply tup_live; auto.
  - intros [HI Hnn]. destruct (f_blk s) as [[[kb vb] sb]|] eqn:Hb; [|congruence]. eapply fim_live; eauto.
  - intros (HQ & -> & _). split; [now apply req_live|now apply req_caps].
  - intros [HI Hnn]. destruct (v_blk s) as [b|] eqn:Hb; [|congruence]. eapply vo_live; eauto.
  - intros HI. now apply hll_live.
Qed.
