(* Word.v — fixed-width machine words modelled on N with explicit wrap-around. *)
From Coq Require Import NArith ZArith List Lia.
Import ListNotations.
Local Open Scope N_scope.

Definition two64 : N := 18446744073709551616.
Definition two32 : N := 4294967296.
Definition mask64 : N := 18446744073709551615.
Definition mask32 : N := 4294967295.

Definition w64 (x : N) : N := N.land x mask64.
Definition w32 (x : N) : N := N.land x mask32.
Definition w16 (x : N) : N := N.land x 65535.
Definition w8  (x : N) : N := N.land x 255.

Definition add64 (a b : N) : N := w64 (a + b).
Definition mul64 (a b : N) : N := w64 (a * b).
Definition sub64 (a b : N) : N := w64 (a + two64 - w64 b).
Definition xor64 (a b : N) : N := N.lxor a b.
Definition shl64 (a n : N) : N := w64 (N.shiftl a n).
Definition shr64 (a n : N) : N := N.shiftr a n.
Definition rotl64 (x r : N) : N := N.lor (shl64 x r) (shr64 x (64 - r)).

Definition add32 (a b : N) : N := w32 (a + b).
Definition mul32 (a b : N) : N := w32 (a * b).
Definition shl32 (a n : N) : N := w32 (N.shiftl a n).
Definition rotl32 (x r : N) : N := N.lor (shl32 x r) (N.shiftr x (32 - r)).

(* little-endian bytes <-> words *)
Fixpoint le_bytes_to_N (bs : list N) : N :=
  match bs with
  | [] => 0
  | b :: r => N.lor (w8 b) (N.shiftl (le_bytes_to_N r) 8)
  end.

Fixpoint N_to_le_bytes (n : nat) (x : N) : list N :=
  match n with
  | O => []
  | S n' => w8 x :: N_to_le_bytes n' (N.shiftr x 8)
  end.

(* two's complement views *)
Definition z_to_u64 (z : Z) : N := Z.to_N (z mod 18446744073709551616)%Z.
Definition u64_to_s64 (x : N) : Z :=
  if x <? 9223372036854775808 then Z.of_N x else (Z.of_N x - 18446744073709551616)%Z.
Definition z_to_u32 (z : Z) : N := Z.to_N (z mod 4294967296)%Z.

(* count leading zeros of a 64-bit word; 64 for 0 *)
Definition clz64 (x : N) : N := 64 - N.size (w64 x).
(* count trailing zeros; 64 for 0 *)
Fixpoint ctz_pos (p : positive) : N :=
  match p with
  | xO q => 1 + ctz_pos q
  | _ => 0
  end.
Definition ctz64 (x : N) : N :=
  match w64 x with N0 => 64 | Npos p => ctz_pos p end.
Definition ctz32 (x : N) : N :=
  match w32 x with N0 => 32 | Npos p => ctz_pos p end.

Fixpoint popcount_pos (p : positive) : N :=
  match p with
  | xH => 1
  | xO q => popcount_pos q
  | xI q => 1 + popcount_pos q
  end.
Definition popcount (x : N) : N := match x with N0 => 0 | Npos p => popcount_pos p end.

Lemma w64_lt x : w64 x < two64.
Proof.
  unfold w64, mask64, two64.
  change 18446744073709551615 with (N.ones 64).
  rewrite N.land_ones. apply N.mod_lt. discriminate.
Qed.

Lemma w64_mod x : w64 x = x mod two64.
Proof.
  unfold w64, mask64, two64. change 18446744073709551615 with (N.ones 64).
  now rewrite N.land_ones.
Qed.

Lemma w32_mod x : w32 x = x mod two32.
Proof.
  unfold w32, mask32, two32. change 4294967295 with (N.ones 32).
  now rewrite N.land_ones.
Qed.
