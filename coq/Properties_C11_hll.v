(* Properties_C11_hll.v — truncated and corrupted hll_sketch images (C11), about the model decoders [dec_stream] / [dec_bytes] of
   HllCodecDefs.v (= the two readers as repaired by fixes/11_hll_reader_bounds.patch; their verdict and the accepted content are
   compared with the C++ on every strict prefix and on preamble-byte mutations by fam_hllcodec under ASan/UBSan).
   The decoders are total Coq functions on ARBITRARY byte lists (no exception path, no partiality). *)
From Coq Require Import ZArith NArith List Bool Lia.
From DS Require Import Word RunnerLib HllDefs HllProofs HllSketchProofs HllCodecDefs HllCodecProofs.
Import ListNotations.
Local Open Scope N_scope.

(* every strict prefix of an image is rejected by the stream reader *)
Theorem C11_hll_prefix_rejected_stream : forall ty lgk full cs i compact hip n,
  4 <= lgk -> lgk <= 21 -> Forall cvalid cs -> sk_run ty lgk full cs = Some i -> hip < two64 ->
  (n < length (enc compact hip i))%nat -> dec_stream (firstn n (enc compact hip i)) = None.
Proof. exact run_prefix_stream. Qed.

(* the bytes reader rejects a truncated image, or - only the unused aux area of an updatable HLL_4 image can be missing -
   yields the very same sketch as the full image *)
Theorem C11_hll_prefix_bytes : forall ty lgk full cs i compact hip n,
  4 <= lgk -> lgk <= 21 -> Forall cvalid cs -> sk_run ty lgk full cs = Some i -> hip < two64 ->
  dec_bytes (firstn n (enc compact hip i)) = None \/ dec_bytes (firstn n (enc compact hip i)) = dec_bytes (enc compact hip i).
Proof. exact run_prefix_bytes. Qed.

(* what a decoder accepted it read from the bytes it was given: appending bytes never changes the decoded sketch (arbitrary input) *)
Theorem C11_hll_decode_stable : forall stream p x d r, dec_gen stream p = Some (d, r) ->
  exists r', dec_gen stream (p ++ x) = Some (d, r') /\ (stream = true -> r' = r ++ x).
Proof. exact dec_gen_ext. Qed.

(* ARBITRARY bytes: an accepted image has bounded, consistent content - lg_k in range, counts within the structural limits,
   the register array and the coupon count no larger than the input: no allocation beyond a constant multiple of the input *)
Theorem C11_hll_accepted_list : forall stream bs d r l, dec_list stream bs = Some (d, r) -> d_impl d = IList l ->
  4 <= l_lgk l /\ l_lgk l <= 21 /\ l_cnt l <= 8 /\ lenN (nonzero (l_arr l)) = l_cnt l /\ 8 <= lenN bs.
Proof. exact accepted_list_bounded. Qed.

Theorem C11_hll_accepted_set : forall stream bs d r s, dec_set stream bs = Some (d, r) -> d_impl d = ISet s ->
  8 <= s_lgk s /\ s_lgk s <= 21 /\ 4 * s_cnt s <= 3 * 2 ^ (s_lgk s - 3) /\ 4 * s_cnt s <= lenN bs.
Proof. exact accepted_set_bounded. Qed.

Theorem C11_hll_accepted_array : forall stream bs d r h, dec_hll stream bs = Some (d, r) -> d_impl d = IHll h ->
  40 + lenN (h_bytes h) <= lenN bs /\ 4 <= h_lgk h /\ h_lgk h <= 21 /\ h_numat h <= 2 ^ h_lgk h.
Proof. exact accepted_hll_bounded. Qed.

(* non-vacuity: corrupted preambles are refused (lg_k 3, lg_k 22, list count 9, aux entries in an HLL_8 image, unknown first byte),
   a truncated list image is refused by both readers *)
Example C11_hll_nonvacuous :
  dec_bytes [2; 1; 7; 3; 3; 0; 0; 8] = None /\ dec_bytes [2; 1; 7; 22; 3; 12; 0; 8] = None /\
  dec_bytes ([2; 1; 7; 10; 3; 8; 9; 8] ++ zerosN 36) = None /\
  dec_bytes ([10; 1; 7; 4; 0; 8; 0; 10] ++ zerosN 28 ++ [1; 0; 0; 0] ++ zerosN 16 ++ zerosN 8) = None /\
  dec_stream [7; 1; 7] = None /\ dec_stream [] = None /\
  (exists d, dec_bytes ([2; 1; 7; 10; 3; 8; 1; 8] ++ le32 (pair_sv 5 3)) = Some d) /\
  dec_bytes ([2; 1; 7; 10; 3; 8; 1; 8] ++ firstn 3 (le32 (pair_sv 5 3))) = None /\
  dec_stream ([2; 1; 7; 10; 3; 8; 1; 8] ++ firstn 3 (le32 (pair_sv 5 3))) = None.
Proof. vm_compute. repeat split; try reflexivity. eexists; reflexivity. Qed.

Print Assumptions C11_hll_prefix_rejected_stream.
Print Assumptions C11_hll_prefix_bytes.
Print Assumptions C11_hll_decode_stable.
Print Assumptions C11_hll_accepted_list.
Print Assumptions C11_hll_accepted_set.
Print Assumptions C11_hll_accepted_array.
