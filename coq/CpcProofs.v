(* CpcProofs.v — move_window, update_windowed, runs of the CPC sketch and the theorems about sk_run; the invariant and the sparse half are in CpcSketchInv.v. *)
From Coq Require Import ZArith NArith List Bool Lia.
From DS Require Import Word RunnerLib CpcDefs CpcTableProofs CpcBits CpcSketchInv.
Import ListNotations.
Local Open Scope N_scope.

Lemma rows_loop_cons w m i off t ored :
  rows_loop (w :: m) i off t ored =
  (do t' <- insert_bits t i (P2 off w) 64;
   do (win, t'', o) <- rows_loop m (i + 1) off t' (N.lor ored (P2 off w));
   Some (N.land (N.shiftr w off) 255 :: win, t'', o)).
Proof. reflexivity. Qed.

Local Opaque insert_bits.

Lemma rows_loop_spec off : off <= 56 -> forall m i t ored win t' o,
  rows_loop m i off t ored = Some (win, t', o) -> TInv t -> (forall w, In w m -> w < two64) -> ored < two64 ->
  (forall j c, (j < length m)%nat -> N.testbit (P2 off (nth j m 0)) c = true -> rcp (i + N.of_nat j) c <> EMPTY) ->
  TInv t' /\ length win = length m /\
  (forall j, (j < length m)%nat -> nth j win 0 = N.land (N.shiftr (nth j m 0) off) 255) /\
  (forall y, In y (t_items t') <-> In y (t_items t) \/
      exists j c, (j < length m)%nat /\ N.testbit (P2 off (nth j m 0)) c = true /\ y = rcp (i + N.of_nat j) c) /\
  o < two64 /\
  (forall c, N.testbit o c = false ->
      N.testbit ored c = false /\ forall j, (j < length m)%nat -> N.testbit (P2 off (nth j m 0)) c = false).
Proof.
  intros Ho. induction m as [|w m IH]; intros i t ored win t' o H Ht Hm Hored Hne.
  - simpl in H. inversion H; subst. split; auto. split; auto. split; [intros j Hj; simpl in Hj; lia|].
    split; [|split; auto].
    + intros y. split; auto. intros [?|(j & c & Hj & _)]; auto. simpl in Hj. lia.
    + intros c Hc. split; auto. intros j Hj. simpl in Hj. lia.
  - rewrite rows_loop_cons in H.
    destruct (insert_bits t i (P2 off w) 64) as [t1|] eqn:Eib; [|discriminate].
    destruct (rows_loop m (i + 1) off t1 (N.lor ored (P2 off w))) as [[[win1 t2] o1]|] eqn:Erl; [|discriminate].
    inversion H; subst win t' o; clear H.
    assert (Hw : w < two64) by (apply Hm; simpl; auto).
    destruct (insert_bits_spec i 64 _ _ _ Eib Ht (P2_lt off w Hw Ho)) as [Ht1 Hit1].
    { intros c Hc. specialize (Hne 0%nat c). simpl in Hne. rewrite N.add_0_r in Hne. apply Hne; auto. lia. }
    destruct (IH _ _ _ _ _ _ Erl Ht1) as (A & B & Cw & D & E & F).
    { intros x Hx. apply Hm. simpl. auto. }
    { apply bits_lt64. intros j Hj. rewrite N.lor_spec, (lt64_bits _ Hored), (lt64_bits _ (P2_lt off w Hw Ho)) by auto. reflexivity. }
    { intros j c Hj Hc. replace (i + 1 + N.of_nat j) with (i + N.of_nat (S j)) by lia. apply Hne; simpl; auto. lia. }
    split; auto. split; [simpl; lia|]. split; [|split; [|split; auto]].
    + intros [|j] Hj; simpl; auto. apply Cw. simpl in Hj. lia.
    + intros y. rewrite D, Hit1. split.
      * intros [[?|(c & Hc & ->)]|(j & c & Hj & Hc & ->)]; auto.
        -- right. exists 0%nat, c. simpl. rewrite N.add_0_r. split; [lia|auto].
        -- right. exists (S j), c. simpl nth. split; [simpl; lia|]. split; auto. f_equal. lia.
      * intros [?|([|j] & c & Hj & Hc & ->)]; auto.
        -- left. right. exists c. simpl in Hc. rewrite N.add_0_r. auto.
        -- right. exists j, c. simpl in Hj, Hc. split; [lia|]. split; auto. f_equal. lia.
    + intros c Hc. destruct (F c Hc) as [F1 F2]. rewrite N.lor_spec in F1. apply orb_false_iff in F1.
      split; [tauto|]. intros [|j] Hj; simpl; [tauto|]. apply F2. simpl in Hj. lia.
Qed.

Lemma mem_bool x l (b : bool) : (In x l <-> b = true) -> mem x l = b.
Proof.
  intros H. destruct b.
  - apply mem_In. apply H. reflexivity.
  - apply mem_false. intros Hin. apply H in Hin. discriminate.
Qed.

Lemma P2_bit_lt64 off w c : w < two64 -> off <= 56 -> N.testbit (P2 off w) c = true -> c < 64.
Proof.
  intros Hw Ho H. destruct (N.lt_ge_cases c 64) as [|Hge]; auto.
  rewrite (lt64_bits _ (P2_lt off w Hw Ho)) in H by auto. discriminate.
Qed.

Lemma empty_col : N.land EMPTY 63 = 63.
Proof. reflexivity. Qed.

(* state rebuilt from a bit matrix [m] with offset [off]: shared by move_window and get_result_from_bit_matrix *)
Lemma rebuilt_core l hist m off t0 win t' ored sd mg nc :
  length m = N.to_nat (2 ^ l) ->
  (forall r c, r < 2 ^ l -> c < 64 -> bit m r c = has hist r c) ->
  (forall r c, 64 <= c -> bit m r c = false) ->
  valid l hist -> off <= 56 -> TInv t0 -> t_items t0 = [] ->
  rows_loop m 0 off t0 0 = Some (win, t', ored) ->
  Core l (mkS l sd mg nc t' win off (if off <? ctz64 ored then off else ctz64 ored)) hist.
Proof.
  intros Hlen Hbits Hhigh Hval Ho Ht0 Hit0 Hrl.
  assert (Hrows : forall w, In w m -> w < two64).
  { intros w Hw. destruct (In_nth _ _ 0 Hw) as (j & Hj & <-). apply bits_lt64. intros c Hc.
    specialize (Hhigh (N.of_nat j) c Hc). unfold bit, nthN in Hhigh. now rewrite Nat2N.id in Hhigh. }
  assert (Hrow : forall j, (j < length m)%nat -> nth j m 0 < two64).
  { intros j Hj. apply Hrows. now apply nth_In. }
  assert (Hwb : forall j c, (j < length m)%nat -> c < 64 -> N.testbit (nth j m 0) c = has hist (N.of_nat j) c).
  { intros j c Hj Hc. rewrite <- Hbits by (auto; lia). unfold bit, nthN. now rewrite Nat2N.id. }
  destruct (rows_loop_spec off Ho _ _ _ _ _ _ _ Hrl Ht0 Hrows) as (A & B & Cw & D & E & F).
  { reflexivity. }
  { intros j c Hj Hc. rewrite N.add_0_l. pose proof (P2_bit_lt64 _ _ _ (Hrow j Hj) Ho Hc) as Hc64.
    rewrite P2_bit in Hc by auto. intros Hemp.
    assert (Hc63 : c = 63) by (rewrite <- (rcp_col (N.of_nat j) c Hc64), Hemp; apply empty_col).
    destruct (N.ltb_spec c off); [lia|]. destruct (N.ltb_spec c (off + 8)); [discriminate|].
    rewrite Hwb in Hc by auto. unfold has in Hc. apply mem_In in Hc. apply Hval in Hc. tauto. }
  assert (HP : forall r c, r < 2 ^ l -> c < 64 ->
            mem (rcp r c) (t_items t') = N.testbit (P2 off (nth (N.to_nat r) m 0)) c).
  { intros r c Hr Hc. apply mem_bool. rewrite D, Hit0. split.
    - intros [[]|(j & c' & Hj & Hb & He)].
      pose proof (P2_bit_lt64 _ _ _ (Hrow j Hj) Ho Hb) as Hc'.
      rewrite N.add_0_l in He. apply rcp_inj in He; auto. destruct He as [-> ->]. now rewrite Nat2N.id.
    - intros Hb. right. exists (N.to_nat r), c. split; [lia|]. split; auto. rewrite N.add_0_l. now rewrite N2Nat.id. }
  set (f := if off <? ctz64 ored then off else ctz64 ored).
  assert (Hf1 : f <= off) by (unfold f; destruct (N.ltb_spec off (ctz64 ored)); lia).
  assert (Hf2 : f <= ctz64 ored) by (unfold f; destruct (N.ltb_spec off (ctz64 ored)); lia).
  assert (Hwne : win <> []) by (apply (len_nonnil _ l); lia).
  assert (Hinw : forall c, in_win (mkS l sd mg nc t' win off f) c = (off <=? c) && (c <? off + 8)).
  { intros c. unfold in_win. cbn [window woff]. destruct win; [congruence|reflexivity]. }
  constructor; cbn [lgk table woff window fic]; auto.
  - right. lia.
  - intros r. destruct (Nat.lt_ge_cases (N.to_nat r) (length m)).
    + unfold nthN. rewrite Cw by auto. apply is_byte_land255.
    + rewrite nthN_oob by lia. apply is_byte_0.
  - intros r c Hr Hc. assert (Hc64 : c < 64) by lia.
    assert (Hj : (N.to_nat r < length m)%nat) by lia.
    assert (Hz : N.testbit ored c = false) by (apply ctz64_below; auto; lia).
    destruct (F c Hz) as [_ F2]. specialize (F2 _ Hj). rewrite P2_bit in F2 by auto.
    destruct (N.ltb_spec c off); [|lia]. rewrite Hwb in F2 by auto. rewrite N2Nat.id in F2.
    destruct (has hist r c); auto.
  - intros v Hv. apply D in Hv. rewrite Hit0 in Hv. destruct Hv as [[]|(j & c & Hj & Hb & ->)].
    pose proof (P2_bit_lt64 _ _ _ (Hrow j Hj) Ho Hb) as Hc. rewrite N.add_0_l. split.
    + apply rcp_lt; auto. lia.
    + rewrite rcp_col by auto. rewrite Hinw. rewrite P2_bit in Hb by auto.
      destruct (N.ltb_spec c off); [destruct (N.leb_spec off c); [lia|reflexivity]|].
      destruct (N.ltb_spec c (off + 8)); [discriminate|]. apply andb_false_r.
  - intros r c Hr Hc. assert (Hj : (N.to_nat r < length m)%nat) by lia.
    unfold bitF. rewrite Hinw. cbn [window woff table]. rewrite HP by auto. rewrite P2_bit by auto.
    rewrite <- Hbits by auto. unfold bit, nthN.
    destruct (N.leb_spec off c); destruct (N.ltb_spec c (off + 8)); cbn [andb].
    + rewrite Cw by auto. rewrite N.land_spec, N.shiftr_spec' . replace (c - off + off) with c by lia.
      change 255 with (2 ^ 8 - 1). rewrite ones_bit. destruct (N.ltb_spec (c - off) 8); [|lia]. now rewrite andb_true_r.
    + destruct (N.ltb_spec c off); [lia|]. now rewrite xorb_false_l.
    + destruct (N.ltb_spec c off); [|lia]. rewrite xorb_true_l. now rewrite negb_involutive.
    + lia.
Qed.

(** ** move_window *)
Lemma move_window_spec l s hist s' : Core l s hist ->
  ncoup s = N.of_nat (length (distinct hist)) -> 3 * 2 ^ l <= 32 * ncoup s ->
  move_window s = Some s' -> SInv l s' hist.
Proof.
  intros C Hcnt Hdense H. pose proof (pow2_pos l) as Hk.
  unfold move_window in H. rewrite (c_lgk _ _ _ C) in H.
  destruct (N.ltb_spec 56 (woff s + 1)) as [|H56]; [discriminate|].
  destruct (N.eqb_spec (woff s + 1) (determine_correct_offset l (ncoup s))) as [Hoff|]; [|discriminate].
  cbn [negb] in H. destruct (window s) as [|b0 w0] eqn:Ew; [discriminate|].
  destruct (build_bit_matrix s) as [m|] eqn:Eb; [|discriminate].
  destruct (rows_loop m 0 (woff s + 1) (t_clear (table s)) 0) as [[[win t'] ored]|] eqn:Erl; [|discriminate].
  inversion H; subst s'; clear H.
  destruct (bbm_bits l s hist m C Hcnt) as (Hlen & Hbits & Hhigh); auto; [intros E; lia|].
  destruct (t_clear_spec _ (c_tinv _ _ _ C)) as (Htc & Hic & _ & _).
  pose proof (rebuilt_core l hist m (woff s + 1) _ win t' ored (seed s) (merged s) (ncoup s)
                Hlen Hbits Hhigh (c_valid _ _ _ C) H56 Htc Hic Erl) as C'.
  split; auto. constructor; cbn [ncoup window woff]; auto.
  - intros E. destruct (c_win _ _ _ C') as [[_ Hz]|Hl]; cbn [window woff] in *; [lia|].
    apply len_nonnil in Hl. contradiction.
Qed.

(** ** update_windowed *)
Lemma core_table_change l s hist rc t' nc :
  Core l s hist -> rc < 2 ^ (6 + l) -> rc <> EMPTY -> TInv t' -> in_win s (N.land rc 63) = false ->
  (forall v, In v (t_items t') -> v = rc \/ In v (t_items (table s))) ->
  (forall r c, r < 2 ^ l -> c < 64 -> in_win s c = false ->
     xorb (c <? woff s) (mem (rcp r c) (t_items t')) =
     (rcp r c =? rc) || xorb (c <? woff s) (mem (rcp r c) (t_items (table s)))) ->
  Core l (mkS l (seed s) (merged s) nc t' (window s) (woff s) (fic s)) (rc :: hist).
Proof.
  intros C Hrc Hne Ht' Hnw Hsub Hx.
  set (s1 := mkS l (seed s) (merged s) nc t' (window s) (woff s) (fic s)).
  assert (Hiw : forall c, in_win s1 c = in_win s c) by reflexivity.
  apply (core_set_bit l s hist s1 rc); auto.
  - destruct (c_win _ _ _ C) as [[Hw _]|Hlen]; [left; auto|right]. split; auto. apply (len_nonnil _ l Hlen).
  - apply (c_bytes _ _ _ C).
  - intros v Hv. cbn [table s1] in Hv. rewrite Hiw. destruct (Hsub v Hv) as [->|Hin]; auto.
    apply (c_items _ _ _ C). exact Hin.
  - intros r c Hr Hc. unfold bitF. rewrite Hiw. cbn [window woff table s1].
    destruct (in_win s c) eqn:Ei; [|apply Hx; auto].
    destruct (N.eqb_spec (rcp r c) rc) as [E|]; auto. exfalso.
    rewrite <- E, rcp_col in Hnw by auto. congruence.
Qed.

Lemma in_win_dense s c : window s <> [] -> in_win s c = (woff s <=? c) && (c <? woff s + 8).
Proof. intros H. unfold in_win. destruct (window s); [congruence|reflexivity]. Qed.

Lemma step_windowed l s hist rc s' : SInv l s hist -> window s <> [] -> rc < 2 ^ (6 + l) -> rc <> EMPTY ->
  update_windowed s rc = Some s' -> SInv l s' (rc :: hist).
Proof.
  intros [C Cn] Hw Hrc Hne H. pose proof (pow2_pos l) as Hk.
  destruct (rc_parts l rc Hrc) as (Hdec & Hrow & Hcol).
  set (row := N.shiftr rc 6) in *. set (col := N.land rc 63) in *.
  assert (Hlenw : length (window s) = N.to_nat (2 ^ l)).
  { destruct (c_win _ _ _ C) as [[? _]|?]; [contradiction|auto]. }
  assert (Hhas : mem rc hist = bitF s row col).
  { rewrite <- (c_bits _ _ _ C) by auto. unfold row, col. now rewrite has_rc. }
  unfold update_windowed in H. rewrite (c_lgk _ _ _ C) in H. fold col row in H.
  destruct (N.ltb_spec 56 (woff s)); [discriminate|].
  destruct (N.ltb_spec (32 * ncoup s) (3 * 2 ^ l)); [discriminate|].
  destruct (N.leb_spec ((27 + 8 * woff s) * 2 ^ l) (8 * ncoup s)) as [|Hpre]; [discriminate|].
  (* the three zones *)
  match type of H with (match ?e with _ => _ end) = _ => destruct e as [[s1 nv]|] eqn:Ez; [|discriminate] end.
  assert (Hz : Core l s1 (rc :: hist) /\ nv = negb (mem rc hist) /\ ncoup s1 = ncoup s /\ woff s1 = woff s /\
               window s1 <> [] /\ lgk s1 = l).
  { destruct (N.ltb_spec col (woff s)) as [Hc1|Hc1].
    - (* before the window: inverted logic *)
      destruct (maybe_delete (table s) rc) as [[t' nv']|] eqn:Emd; [|discriminate].
      inversion Ez; subst s1 nv; clear Ez.
      destruct (maybe_delete_spec _ _ _ _ (c_tinv _ _ _ C) Hne Emd) as (Ht' & _ & Hnv & Hit).
      assert (Hnw : in_win s col = false).
      { rewrite in_win_dense by auto. destruct (N.leb_spec (woff s) col); [lia|reflexivity]. }
      assert (Hmem : mem rc hist = negb (mem rc (t_items (table s)))).
      { rewrite Hhas. unfold bitF. rewrite Hnw. destruct (N.ltb_spec col (woff s)); [|lia].
        rewrite <- Hdec. apply xorb_true_l. }
      split; [|split; [|repeat split; auto]].
      + apply core_table_change; auto.
        * intros v Hv. right. apply Hit in Hv. tauto.
        * intros r c Hr Hc Hi. rewrite (mem_del _ _ _ _ Hit).
          destruct (N.eqb_spec (rcp r c) rc) as [E|]; simpl; auto.
          rewrite Hdec in E. apply rcp_inj in E; auto. destruct E as [-> ->].
          destruct (N.ltb_spec col (woff s)); [reflexivity|lia].
      + rewrite Hmem, negb_involutive. destruct nv'.
        * symmetry. apply mem_In. apply Hnv. reflexivity.
        * symmetry. apply mem_false. intros Hin. apply Hnv in Hin. discriminate.
    - destruct (N.ltb_spec col (woff s + 8)) as [Hc2|Hc2].
      + (* inside the window *)
        assert (Hiw : in_win s col = true).
        { rewrite in_win_dense by auto. destruct (N.leb_spec (woff s) col); [|lia].
          destruct (N.ltb_spec col (woff s + 8)); [reflexivity|lia]. }
        assert (Hmem : mem rc hist = N.testbit (nthN (window s) row 0) (col - woff s)).
        { rewrite Hhas. unfold bitF. now rewrite Hiw. }
        set (old_bits := nthN (window s) row 0) in *.
        destruct (N.eqb_spec (N.lor old_bits (N.shiftl 1 (col - woff s))) old_bits) as [Esame|Ediff].
        * inversion Ez; subst s1 nv; clear Ez. apply lor_bit_same in Esame.
          split; [|split; [|repeat split; auto; apply (c_lgk _ _ _ C)]].
          -- apply (core_set_bit l s hist s rc); auto.
             ++ apply (c_lgk _ _ _ C).
             ++ apply (c_tinv _ _ _ C).
             ++ apply (c_bytes _ _ _ C).
             ++ apply (c_items _ _ _ C).
             ++ intros r c Hr Hc. destruct (N.eqb_spec (rcp r c) rc) as [E|]; auto. simpl.
                rewrite Hdec in E. apply rcp_inj in E; auto. destruct E as [-> ->].
                rewrite <- Hhas, Hmem. exact Esame.
          -- rewrite Hmem, Esame. reflexivity.
        * inversion Ez; subst s1 nv; clear Ez.
          assert (Hbit : N.testbit old_bits (col - woff s) = false).
          { destruct (N.testbit old_bits (col - woff s)) eqn:E; auto. exfalso. apply Ediff. now apply lor_bit_same. }
          set (nb := N.lor old_bits (N.shiftl 1 (col - woff s))).
          set (s1 := mkS l (seed s) (merged s) (ncoup s) (table s) (setN (window s) row nb) (woff s) (fic s)).
          assert (Hw1 : window s1 <> []).
          { cbn [window s1]. apply (len_nonnil _ l). rewrite setN_length. exact Hlenw. }
          split; [|split; [|repeat split; auto]].
          -- apply (core_set_bit l s hist s1 rc); auto.
             ++ apply (c_tinv _ _ _ C).
             ++ right. split; auto. cbn [window s1]. rewrite setN_length. exact Hlenw.
             ++ intros r. cbn [window s1]. destruct (N.eq_dec row r) as [<-|Hn].
                ** rewrite nthN_setN_eq by lia. apply is_byte_lor_bit; [apply (c_bytes _ _ _ C)|lia].
                ** rewrite nthN_setN_neq by auto. apply (c_bytes _ _ _ C).
             ++ intros v Hv. cbn [table s1] in Hv. destruct (c_items _ _ _ C v Hv) as [? Hi]. split; auto.
                rewrite in_win_dense in * by auto. exact Hi.
             ++ intros r c Hr Hc. unfold bitF. rewrite !in_win_dense by auto. cbn [window woff table s1].
                destruct ((woff s <=? c) && (c <? woff s + 8)) eqn:Ei.
                ** apply andb_true_iff in Ei. destruct Ei as [E1 E2]. apply N.leb_le in E1. apply N.ltb_lt in E2.
                   destruct (N.eq_dec row r) as [<-|Hn].
                   --- rewrite nthN_setN_eq by lia. unfold nb. rewrite N.lor_spec, bit1_spec. fold old_bits.
                       rewrite orb_comm. f_equal.
                       destruct (N.eqb_spec (col - woff s) (c - woff s)) as [E|E]; destruct (N.eqb_spec (rcp row c) rc) as [E3|E3]; auto; exfalso.
                       +++ apply E3. rewrite Hdec. f_equal. fold col. lia.
                       +++ rewrite Hdec in E3. apply rcp_inj in E3; auto. destruct E3 as [_ E3]. fold col in E3. lia.
                   --- rewrite nthN_setN_neq by auto.
                       destruct (N.eqb_spec (rcp r c) rc) as [E3|E3]; auto. exfalso.
                       rewrite Hdec in E3. apply rcp_inj in E3; auto. destruct E3 as [E3 _]. fold row in E3. congruence.
                ** destruct (N.eqb_spec (rcp r c) rc) as [E3|E3]; auto. exfalso.
                   rewrite Hdec in E3. apply rcp_inj in E3; auto. destruct E3 as [_ E3]. fold col in E3. subst c.
                   rewrite in_win_dense in Hiw by auto. congruence.
          -- rewrite Hmem, Hbit. reflexivity.
      + (* after the window: normal logic *)
        destruct (maybe_insert (table s) rc) as [[t' nv']|] eqn:Emi; [|discriminate].
        inversion Ez; subst s1 nv; clear Ez.
        destruct (maybe_insert_spec _ _ _ _ (c_tinv _ _ _ C) Hne Emi) as (Ht' & _ & Hnv & Hit).
        assert (Hnw : in_win s col = false).
        { rewrite in_win_dense by auto. destruct (N.ltb_spec col (woff s + 8)); [lia|]. apply andb_false_r. }
        assert (Hmem : mem rc hist = mem rc (t_items (table s))).
        { rewrite Hhas. unfold bitF. rewrite Hnw. destruct (N.ltb_spec col (woff s)); [lia|].
          rewrite <- Hdec. apply xorb_false_l. }
        split; [|split; [|repeat split; auto]].
        * apply core_table_change; auto.
          -- intros v Hv. apply Hit in Hv. exact Hv.
          -- intros r c Hr Hc Hi. rewrite (mem_add _ _ _ _ Hit).
             destruct (N.eqb_spec (rcp r c) rc) as [E|]; simpl; auto.
             rewrite Hdec in E. apply rcp_inj in E; auto. destruct E as [-> ->]. fold col.
             destruct (N.ltb_spec col (woff s)); [lia|reflexivity].
        * rewrite Hmem. destruct nv'.
          -- symmetry. apply negb_true_iff. apply mem_false. apply Hnv. reflexivity.
          -- symmetry. apply negb_false_iff. apply mem_In.
             destruct (mem rc (t_items (table s))) eqn:E; [now apply mem_In|].
             apply mem_false in E. apply Hnv in E. discriminate. }
  destruct Hz as (C1 & Hnv & Hn1 & Ho1 & Hw1 & Hl1).
  destruct nv.
  - assert (Hnin : mem rc hist = false) by (destruct (mem rc hist); [discriminate|reflexivity]).
    set (s2 := mkS (lgk s1) (seed s1) (merged s1) (ncoup s1 + 1) (table s1) (window s1) (woff s1) (fic s1)) in *.
    assert (C2 : Core l s2 (rc :: hist)) by (destruct C1; constructor; auto).
    assert (Hcnt : ncoup s2 = N.of_nat (length (distinct (rc :: hist)))).
    { apply (count_cons s hist s2 rc); [apply (n_count _ _ _ Cn)|]. rewrite Hnin. cbn [ncoup s2]. lia. }
    cbn [ncoup s2] in H.
    destruct (N.leb_spec ((27 + 8 * woff s) * 2 ^ l) (8 * (ncoup s1 + 1))) as [Hmv|Hmv].
    + destruct (move_window s2) as [s3|] eqn:Emw; [|discriminate].
      destruct ((woff s3 <? 1) || (56 <? woff s3)); [discriminate|].
      destruct (N.leb_spec ((27 + 8 * woff s3) * 2 ^ l) (8 * ncoup s3)); [discriminate|].
      inversion H; subst s'. apply (move_window_spec l s2); auto. cbn [ncoup s2]. lia.
    + inversion H; subst s'. split; auto. constructor; auto.
      * intros E. cbn [window s2] in E. contradiction.
      * intros _. cbn [ncoup s2]. lia.
      * cbn [woff ncoup s2]. rewrite Ho1, Hn1. symmetry.
        apply dco_step; [apply (n_off _ _ _ Cn)|apply (c_off56 _ _ _ C)|exact Hpre|rewrite <- Hn1; exact Hmv].
  - inversion H; subst s'. split; auto.
    assert (Hyes : mem rc hist = true) by (destruct (mem rc hist); [reflexivity|discriminate]).
    destruct Cn. constructor.
    + apply (count_cons s hist s1 rc); auto. rewrite Hyes. lia.
    + intros E. contradiction.
    + intros _. rewrite Hn1. auto.
    + rewrite Ho1, Hn1. auto.
Qed.

(** ** row_col_update and runs *)
Lemma step_rcu l s hist rc s' : SInv l s hist -> rc < 2 ^ (6 + l) -> rc <> EMPTY ->
  row_col_update s rc = Some s' -> SInv l s' (rc :: hist).
Proof.
  intros I Hrc Hne H. unfold row_col_update in H.
  destruct (N.ltb_spec (N.land rc 63) (fic s)) as [Hf|Hf].
  - inversion H; subst s'; clear H. destruct I as [C Cn].
    destruct (rc_parts l rc Hrc) as (Hdec & Hrow & Hcol).
    assert (Hyes : mem rc hist = true).
    { rewrite <- has_rc. apply (c_fic _ _ _ C); auto. }
    split.
    + apply (core_set_bit l s hist s rc); auto; try apply C.
      * destruct (c_win _ _ _ C) as [[? _]|Hl]; [left; auto|right; split; auto; apply (len_nonnil _ l Hl)].
      * intros r c Hr Hc. destruct (N.eqb_spec (rcp r c) rc) as [E|]; auto. simpl.
        rewrite <- (c_bits _ _ _ C) by auto. unfold has. rewrite E. exact Hyes.
    + destruct Cn. constructor; auto. apply (count_cons s hist s rc); auto. rewrite Hyes. lia.
  - destruct (window s) eqn:Ew.
    + apply (step_sparse l s hist rc s'); auto.
    + apply (step_windowed l s hist rc s'); auto. congruence.
Qed.

Lemma SInv_init l sd : SInv l (sk_new l sd) [].
Proof.
  pose proof (pow2_pos l). split; constructor; cbn [sk_new lgk table woff window fic ncoup]; auto.
  - apply TInv_new.
  - lia.
  - intros r. unfold nthN. destruct (N.to_nat r); apply is_byte_0.
  - intros r c _ Hc. lia.
  - lia.
  - intros v Hv. rewrite t_items_new in Hv. destruct Hv.
  - intros r c _ _. unfold bitF, in_win. cbn [sk_new window woff table]. rewrite t_items_new.
    destruct (N.ltb_spec c 0); [lia|]. reflexivity.
  - intros x [].
  - intros _. lia.
  - intros E. congruence.
  - symmetry. apply dco_zero.
Qed.

Definition valid_rcs (l : N) (rcs : list N) : Prop := forall x, In x rcs -> x < 2 ^ (6 + l) /\ x <> EMPTY.

Lemma run_inv_gen l rcs : forall s0 h0 s, SInv l s0 h0 -> valid_rcs l rcs ->
  fold_left (fun acc rc => do s <- acc; row_col_update s rc) rcs (Some s0) = Some s ->
  SInv l s (rev rcs ++ h0).
Proof.
  induction rcs as [|rc t IH]; intros s0 h0 s I Hv H.
  - simpl in H. inversion H; subst. exact I.
  - cbn [fold_left] in H. destruct (row_col_update s0 rc) as [s1|] eqn:E.
    + simpl rev. rewrite <- app_assoc. simpl. apply (IH s1); auto.
      * apply step_rcu with s0; auto; apply Hv; simpl; auto.
      * intros x Hx. apply Hv. simpl; auto.
    + exfalso. clear -H. induction t; simpl in H; [discriminate|auto].
Qed.

Lemma run_inv l sd rcs s : valid_rcs l rcs -> sk_run l sd rcs = Some s -> SInv l s (rev rcs).
Proof.
  intros Hv H. rewrite <- (app_nil_r (rev rcs)). apply (run_inv_gen l rcs (sk_new l sd)); auto. apply SInv_init.
Qed.

(** ** the L0 specification *)
Lemma set_coupon_length m rc : length (set_coupon m rc) = length m.
Proof. apply updN_length. Qed.

Lemma set_coupon_bit m rc r c : (N.to_nat r < length m)%nat -> c < 64 ->
  (N.to_nat (N.shiftr rc 6) < length m)%nat ->
  bit (set_coupon m rc) r c = (rcp r c =? rc) || bit m r c.
Proof.
  intros Hr Hc Hrow. unfold set_coupon, bit.
  destruct (N.eq_dec (N.shiftr rc 6) r) as [E|E].
  - rewrite E, nthN_updN_eq by auto. rewrite N.lor_spec, bit1_spec, orb_comm. f_equal.
    destruct (N.eqb_spec (N.land rc 63) c) as [E2|E2]; destruct (N.eqb_spec (rcp r c) rc) as [E3|E3]; auto; exfalso.
    + apply E3. symmetry. apply rcp_eq_iff; auto.
    + apply E2. symmetry in E3. apply (rcp_eq_iff rc r c Hc) in E3. tauto.
  - rewrite nthN_updN_neq by auto.
    destruct (N.eqb_spec (rcp r c) rc) as [E3|E3]; auto. exfalso. apply E.
    symmetry in E3. apply (rcp_eq_iff rc r c Hc) in E3. tauto.
Qed.

Lemma set_coupon_bit_high m rc r c : 64 <= c -> bit (set_coupon m rc) r c = bit m r c.
Proof.
  intros Hc. unfold set_coupon, bit. destruct (N.eq_dec (N.shiftr rc 6) r) as [E|E].
  - destruct (Nat.lt_ge_cases (N.to_nat r) (length m)).
    + rewrite E, nthN_updN_eq by auto. rewrite N.lor_spec, bit1_spec.
      pose proof (land63_lt rc). destruct (N.eqb_spec (N.land rc 63) c); [lia|apply orb_false_r].
    + rewrite E, nthN_updN_oob by auto. reflexivity.
  - rewrite nthN_updN_neq by auto. reflexivity.
Qed.

Lemma fold_set_coupon l rcs : forall m, length m = N.to_nat (2 ^ l) -> valid_rcs l rcs ->
  length (fold_left set_coupon rcs m) = N.to_nat (2 ^ l) /\
  (forall r c, r < 2 ^ l -> c < 64 -> bit (fold_left set_coupon rcs m) r c = mem (rcp r c) rcs || bit m r c) /\
  (forall r c, 64 <= c -> bit (fold_left set_coupon rcs m) r c = bit m r c).
Proof.
  induction rcs as [|rc t IH]; intros m Hl Hv.
  - simpl. split; auto.
  - cbn [fold_left]. destruct (IH (set_coupon m rc)) as (A & B & C).
    { rewrite set_coupon_length. exact Hl. }
    { intros x Hx. apply Hv. simpl; auto. }
    split; auto. split.
    + intros r c Hr Hc. rewrite B by auto. rewrite set_coupon_bit; auto; try lia.
      * rewrite mem_cons. rewrite orb_assoc. f_equal. apply orb_comm.
      * assert (N.shiftr rc 6 < 2 ^ l) by (apply row_lt; apply Hv; simpl; auto). lia.
    + intros r c Hc. rewrite C by auto. now apply set_coupon_bit_high.
Qed.

Lemma spec_matrix_bits l rcs : valid_rcs l rcs ->
  length (spec_matrix l rcs) = N.to_nat (2 ^ l) /\
  (forall r c, r < 2 ^ l -> c < 64 -> bit (spec_matrix l rcs) r c = mem (rcp r c) rcs) /\
  (forall r c, 64 <= c -> bit (spec_matrix l rcs) r c = false).
Proof.
  intros Hv. unfold spec_matrix. destruct (fold_set_coupon l rcs (repeat 0 (N.to_nat (2 ^ l)))) as (A & B & C); auto.
  { apply repeat_length. }
  assert (Hz : forall r c, bit (repeat 0 (N.to_nat (2 ^ l))) r c = false).
  { intros r c. unfold bit. destruct (Nat.lt_ge_cases (N.to_nat r) (N.to_nat (2 ^ l))).
    - rewrite nthN_repeat by auto. apply N.bits_0.
    - rewrite nthN_oob by (rewrite repeat_length; lia). apply N.bits_0. }
  split; auto. split.
  - intros r c Hr Hc. rewrite B by auto. rewrite Hz. apply orb_false_r.
  - intros r c Hc. rewrite C by auto. apply Hz.
Qed.

Lemma matrix_ext l (m m' : list N) : length m = N.to_nat (2 ^ l) -> length m' = N.to_nat (2 ^ l) ->
  (forall r c, r < 2 ^ l -> bit m r c = bit m' r c) -> m = m'.
Proof.
  intros H1 H2 Hb. apply (nth_ext m m' 0 0); [congruence|]. intros n Hn.
  apply N.bits_inj. intros c. specialize (Hb (N.of_nat n) c). unfold bit, nthN in Hb. rewrite Nat2N.id in Hb.
  apply Hb. lia.
Qed.

Lemma mem_rev x l : mem x (rev l) = mem x l.
Proof. apply mem_iff. symmetry. apply in_rev. Qed.

Theorem abs_is_spec l s hist m : SInv l s hist -> build_bit_matrix s = Some m -> valid_rcs l hist ->
  m = spec_matrix l hist.
Proof.
  intros I Hb Hv. destruct (bbm_bits_inv l s hist m I Hb) as (A & B & C).
  destruct (spec_matrix_bits l hist Hv) as (A' & B' & C').
  apply (matrix_ext l); auto. intros r c Hr. destruct (N.lt_ge_cases c 64).
  - rewrite B, B' by auto. reflexivity.
  - rewrite C, C' by auto. reflexivity.
Qed.

Lemma bbm_some l s hist : SInv l s hist -> exists m, build_bit_matrix s = Some m.
Proof.
  intros [C _]. unfold build_bit_matrix. pose proof (c_off56 _ _ _ C).
  destruct (N.ltb_spec 56 (woff s)); [lia|]. destruct (ncoup s =? 0); eauto.
Qed.

(** ** coupon count = popcount *)
Lemma distinct_In x l : In x (distinct l) <-> In x l.
Proof.
  induction l as [|y t IH]; simpl; [tauto|]. destruct (mem y t) eqn:E.
  - rewrite IH. split; auto. intros [<-|?]; auto. now apply mem_In.
  - simpl. rewrite IH. tauto.
Qed.

Lemma distinct_NoDup l : NoDup (distinct l).
Proof.
  induction l as [|y t IH]; simpl; [constructor|]. destruct (mem y t) eqn:E; auto.
  constructor; auto. rewrite distinct_In. now apply mem_false.
Qed.

Lemma distinct_len_ext l l' : (forall x, In x l <-> In x l') -> length (distinct l) = length (distinct l').
Proof.
  intros H. apply Permutation.Permutation_length. apply Permutation.NoDup_Permutation; try apply distinct_NoDup.
  intros x. rewrite !distinct_In. apply H.
Qed.

Lemma zero_rows (m : list N) : (forall r c, bit m r c = false) -> sum_popcount m = 0.
Proof.
  induction m as [|w t IH]; intros H; simpl; auto.
  assert (w = 0).
  { apply N.bits_inj_0. intros c. specialize (H 0 c). exact H. }
  subst w. rewrite IH; auto. intros r c. specialize (H (r + 1) c). unfold bit in *. now rewrite nthN_cons_succ in H.
Qed.

Lemma popcount_matrix l hist : forall m, length m = N.to_nat (2 ^ l) -> valid_rcs l hist ->
  (forall r c, r < 2 ^ l -> c < 64 -> bit m r c = mem (rcp r c) hist) ->
  (forall r c, 64 <= c -> bit m r c = false) ->
  sum_popcount m = N.of_nat (length (distinct hist)).
Proof.
  induction hist as [|x h IH]; intros m Hl Hv Hb Hh.
  - simpl. apply zero_rows. intros r c. destruct (N.lt_ge_cases c 64); [|auto].
    destruct (N.lt_ge_cases r (2 ^ l)); [now rewrite Hb|]. unfold bit. rewrite nthN_oob by lia. apply N.bits_0.
  - assert (Hvh : valid_rcs l h) by (intros y Hy; apply Hv; simpl; auto).
    simpl distinct. destruct (mem x h) eqn:E.
    + apply IH; auto. intros r c Hr Hc. rewrite Hb by auto. rewrite mem_cons.
      destruct (N.eqb_spec (rcp r c) x) as [->|]; auto.
    + destruct (Hv x) as [Hx _]; [simpl; auto|]. destruct (rc_parts l x Hx) as (Hdec & Hrow & Hcol).
      set (row := N.shiftr x 6) in *. set (col := N.land x 63) in *.
      set (m' := updN m row (fun w => N.clearbit w col)).
      assert (Hbm : N.testbit (nthN m row 0) col = true).
      { change (bit m row col = true). rewrite Hb by auto. rewrite <- Hdec. simpl. now rewrite N.eqb_refl. }
      assert (IH' : sum_popcount m' = N.of_nat (length (distinct h))).
      { apply IH; auto.
        - unfold m'. now rewrite updN_length.
        - intros r c Hr Hc. unfold m', bit. destruct (N.eq_dec row r) as [<-|Hn].
          + rewrite nthN_updN_eq by lia. rewrite N.clearbit_eqb. change (N.testbit (nthN m row 0) c) with (bit m row c).
            rewrite Hb by auto. rewrite mem_cons.
            destruct (N.eqb_spec col c) as [<-|Hn].
            * rewrite <- Hdec, E. rewrite N.eqb_refl. reflexivity.
            * destruct (N.eqb_spec (rcp row c) x) as [E3|]; [|simpl; apply andb_true_r].
              exfalso. apply Hn. symmetry. apply (rcp_inj row c row col Hc Hcol). rewrite E3. exact Hdec.
          + rewrite nthN_updN_neq by auto. change (N.testbit (nthN m r 0) c) with (bit m r c). rewrite Hb by auto.
            rewrite mem_cons. destruct (N.eqb_spec (rcp r c) x) as [E3|]; auto.
            exfalso. apply Hn. symmetry. apply (rcp_inj r c row col Hc Hcol). rewrite E3. exact Hdec.
        - intros r c Hc. unfold m', bit. destruct (N.eq_dec row r) as [<-|Hn].
          + rewrite nthN_updN_eq by lia. rewrite N.clearbit_eqb. change (N.testbit (nthN m row 0) c) with (bit m row c).
            rewrite Hh by auto. reflexivity.
          + rewrite nthN_updN_neq by auto. apply Hh. exact Hc. }
      pose proof (sum_popcount_updN m row (fun w => N.clearbit w col)) as Hs. fold m' in Hs.
      assert (Hp : popcount (nthN m row 0) = popcount (N.clearbit (nthN m row 0) col) + 1).
      { rewrite <- (popcount_setbit col) by (rewrite N.clearbit_eqb, N.eqb_refl; apply andb_false_r).
        f_equal. apply N.bits_inj. intros j. rewrite N.lor_spec, bit1_spec, N.clearbit_eqb.
        destruct (N.eqb_spec col j) as [<-|]; [rewrite Hbm; reflexivity|]. simpl. now rewrite andb_true_r, orb_false_r. }
      simpl length. specialize (Hs ltac:(lia)). lia.
Qed.

(** ** the u32_table refines a finite set (any sequence of inserts and deletes) *)
Inductive tab_op := TIns (x : N) | TDel (x : N).

Fixpoint tab_run (t : u32t) (ops : list tab_op) : option (u32t * list bool) :=
  match ops with
  | [] => Some (t, [])
  | TIns x :: r => do (t', b) <- maybe_insert t x; do (t'', bs) <- tab_run t' r; Some (t'', b :: bs)
  | TDel x :: r => do (t', b) <- maybe_delete t x; do (t'', bs) <- tab_run t' r; Some (t'', b :: bs)
  end.

Fixpoint set_run (S : list N) (ops : list tab_op) : list N * list bool :=
  match ops with
  | [] => (S, [])
  | TIns x :: r => let '(S', bs) := set_run (if mem x S then S else x :: S) r in (S', negb (mem x S) :: bs)
  | TDel x :: r => let '(S', bs) := set_run (filter (fun y => negb (y =? x)) S) r in (S', mem x S :: bs)
  end.

Definition op_arg (o : tab_op) : N := match o with TIns x => x | TDel x => x end.

Lemma tab_refines_gen ops : forall t S t' bs,
  TInv t -> (forall y, In y (t_items t) <-> In y S) ->
  (forall o, In o ops -> op_arg o <> EMPTY) ->
  tab_run t ops = Some (t', bs) ->
  TInv t' /\ (forall y, In y (t_items t') <-> In y (fst (set_run S ops))) /\ bs = snd (set_run S ops).
Proof.
  induction ops as [|o r IH]; intros t S t' bs Ht HS Hne H.
  - simpl in *. inversion H; subst. auto.
  - assert (Hne' : forall o', In o' r -> op_arg o' <> EMPTY) by (intros; apply Hne; simpl; auto).
    assert (Hx : op_arg o <> EMPTY) by (apply Hne; simpl; auto).
    assert (Hm : forall x, mem x S = mem x (t_items t)) by (intros x; apply mem_iff; symmetry; apply HS).
    destruct o as [x|x]; cbn [tab_run set_run] in *.
    + destruct (maybe_insert t x) as [[t1 b]|] eqn:E; [|discriminate].
      destruct (tab_run t1 r) as [[t2 bs2]|] eqn:E2; [|discriminate]. inversion H; subst t' bs; clear H.
      destruct (maybe_insert_spec _ _ _ _ Ht Hx E) as (Ht1 & _ & Hb & Hit).
      destruct (set_run (if mem x S then S else x :: S) r) as [S' bs'] eqn:Es.
      destruct (IH t1 (if mem x S then S else x :: S) t2 bs2 Ht1) as (A & B & C); auto.
      { intros y. rewrite Hit. destruct (mem x S) eqn:Em.
        - rewrite HS. split; [intros [->|?]; auto; now apply mem_In|auto].
        - simpl. rewrite HS. split; intros [?|?]; auto. }
      rewrite Es in B, C. simpl in *. split; auto. split; auto. subst bs2. f_equal.
      rewrite Hm. destruct b.
      * symmetry. apply negb_true_iff, mem_false. apply Hb. reflexivity.
      * symmetry. apply negb_false_iff. destruct (mem x (t_items t)) eqn:Em; auto.
        apply mem_false in Em. apply Hb in Em. discriminate.
    + destruct (maybe_delete t x) as [[t1 b]|] eqn:E; [|discriminate].
      destruct (tab_run t1 r) as [[t2 bs2]|] eqn:E2; [|discriminate]. inversion H; subst t' bs; clear H.
      destruct (maybe_delete_spec _ _ _ _ Ht Hx E) as (Ht1 & _ & Hb & Hit).
      destruct (set_run (filter (fun y => negb (y =? x)) S) r) as [S' bs'] eqn:Es.
      destruct (IH t1 (filter (fun y => negb (y =? x)) S) t2 bs2 Ht1) as (A & B & C); auto.
      { intros y. rewrite Hit, filter_In, HS. split; intros [H1 H2]; split; auto.
        - destruct (N.eqb_spec y x); [contradiction|reflexivity].
        - intros ->. rewrite N.eqb_refl in H2. discriminate. }
      rewrite Es in B, C. simpl in *. split; auto. split; auto. subst bs2. f_equal.
      rewrite Hm. destruct b.
      * symmetry. apply mem_In. apply Hb. reflexivity.
      * symmetry. apply mem_false. intros Hin. apply Hb in Hin. discriminate.
Qed.

Theorem tab_refines lg nvb ops t bs :
  (forall o, In o ops -> op_arg o <> EMPTY) ->
  tab_run (t_new lg nvb) ops = Some (t, bs) ->
  (forall y, In y (t_items t) <-> In y (fst (set_run [] ops))) /\ bs = snd (set_run [] ops) /\
  NoDup (t_items t) /\ t_num t = N.of_nat (length (t_items t)).
Proof.
  intros Hne H. destruct (tab_refines_gen ops (t_new lg nvb) [] t bs) as (A & B & C); auto.
  - apply TInv_new.
  - intros y. rewrite t_items_new. tauto.
  - split; auto. split; auto. destruct A as (_ & ? & ? & _). auto.
Qed.

(** ** the theorems about runs of the sketch *)
Section Runs.
  Variables (l sd : N) (rcs : list N) (s : sketch).
  Hypothesis Hv : valid_rcs l rcs.
  Hypothesis Hrun : sk_run l sd rcs = Some s.

  Lemma valid_rev : valid_rcs l (rev rcs).
  Proof. intros x Hx. apply Hv. now apply in_rev. Qed.

  Theorem run_matrix : exists m, build_bit_matrix s = Some m /\ m = spec_matrix l rcs.
  Proof.
    pose proof (run_inv l sd rcs s Hv Hrun) as I. destruct (bbm_some _ _ _ I) as [m Hm]. exists m. split; auto.
    rewrite (abs_is_spec l s (rev rcs) m I Hm valid_rev).
    destruct (spec_matrix_bits l (rev rcs) valid_rev) as (A & B & C).
    destruct (spec_matrix_bits l rcs Hv) as (A' & B' & C').
    apply (matrix_ext l); auto. intros r c Hr. destruct (N.lt_ge_cases c 64).
    - rewrite B, B' by auto. apply mem_rev.
    - rewrite C, C' by auto. reflexivity.
  Qed.

  Theorem run_count : ncoup s = N.of_nat (length (distinct rcs)).
  Proof.
    pose proof (run_inv l sd rcs s Hv Hrun) as [_ Cn]. rewrite (n_count _ _ _ Cn). f_equal.
    apply distinct_len_ext. intros x. symmetry. apply in_rev.
  Qed.

  Theorem run_popcount : ncoup s = sum_popcount (spec_matrix l rcs).
  Proof.
    rewrite run_count. symmetry. destruct (spec_matrix_bits l rcs Hv) as (A & B & C).
    apply (popcount_matrix l); auto.
  Qed.

  Theorem run_validate : validate s = Some true.
  Proof.
    unfold validate. destruct run_matrix as (m & -> & ->). rewrite <- run_popcount. now rewrite N.eqb_refl.
  Qed.

  Theorem run_offset : woff s = determine_correct_offset l (ncoup s) /\ woff s <= 56.
  Proof. pose proof (run_inv l sd rcs s Hv Hrun) as [C Cn]. split; [apply Cn|apply C]. Qed.

  Theorem run_fic_sound : forall r c, r < 2 ^ l -> c < fic s -> mem (rcp r c) rcs = true.
  Proof.
    pose proof (run_inv l sd rcs s Hv Hrun) as [C Cn]. intros r c Hr Hc.
    rewrite <- mem_rev. apply (c_fic _ _ _ C); auto.
  Qed.

  Theorem run_flavor : lgk s = l /\ (window s = [] <-> 32 * ncoup s < 3 * 2 ^ l) /\
                       (window s <> [] -> length (window s) = N.to_nat (2 ^ l)).
  Proof.
    pose proof (run_inv l sd rcs s Hv Hrun) as [C Cn]. split; [apply C|]. split.
    - split; [apply Cn|]. intros H. destruct (window s) eqn:E; auto.
      assert (Hd : window s <> []) by congruence. apply (n_dense _ _ _ Cn) in Hd. lia.
    - intros H. destruct (c_win _ _ _ C) as [[? _]|?]; [contradiction|auto].
  Qed.

  Theorem run_table_set : NoDup (t_items (table s)) /\ t_num (table s) = N.of_nat (length (t_items (table s))) /\
    forall r c, r < 2 ^ l -> c < 64 -> mem (rcp r c) rcs = bitF s r c.
  Proof.
    pose proof (run_inv l sd rcs s Hv Hrun) as [C Cn]. destruct (c_tinv _ _ _ C) as (_ & A & B & _).
    split; auto. split; auto. intros r c Hr Hc. rewrite <- mem_rev. apply (c_bits _ _ _ C); auto.
  Qed.
End Runs.

(* a duplicate or an already-set coupon never changes the abstract state; in particular the speed filter
   [col < first_interesting_column] never discards a novel coupon *)
Theorem fic_filter_sound l s hist rc : SInv l s hist -> rc < 2 ^ (6 + l) -> N.land rc 63 < fic s -> mem rc hist = true.
Proof.
  intros [C _] Hrc Hf. destruct (rc_parts l rc Hrc) as (Hdec & Hrow & Hcol).
  rewrite <- has_rc. apply (c_fic _ _ _ C); auto.
Qed.
