(* Properties_C11_theta.v — truncated or corrupted compact Theta images are rejected; what a reader accepts is
   bounded by the bytes it was given. Only statements; proofs live in ThetaCodecProofs2.v. The model is
   ThetaCodecDefs.v (extracted and compared with the C++ readers on every run); in the model a read outside the
   supplied bytes is [rd] returning None, which makes the reader reject. *)
From Coq Require Import NArith List Bool Lia Arith.
From DS Require Import Word BitPackLang BitPackSpec ThetaCodecDefs ThetaCodecProofs ThetaCodecProofs2.
Import ListNotations.
Local Open Scope N_scope.

(* every read is inside the supplied bytes *)
Theorem C11_theta_read_in_bounds : forall n off bytes v,
  rd n off bytes = Some v -> (off + n <= length bytes)%nat.
Proof. exact rd_some_len. Qed.

(* serial version 3, stream reader: every strict prefix is rejected, whatever seed hash is expected *)
Theorem C11_theta_v3_prefix_stream_rejected : forall s e n, wf s -> (n < length (enc_v3 s))%nat ->
  dec_stream e (firstn n (enc_v3 s)) = None.
Proof. exact v3_prefix_stream. Qed.

(* serial version 3, byte-buffer reader: every strict prefix is rejected, whatever seed hash is expected (the
   parser checks that the whole preamble is present before it reads the entry count, so the unused padding
   bytes 12..15 of a 16-byte preamble must be present too). *)
Theorem C11_theta_v3_prefix_bytes_rejected : forall s e n, wf s -> (n < length (enc_v3 s))%nat ->
  dec_bytes e (firstn n (enc_v3 s)) = None.
Proof. exact v3_prefix_bytes. Qed.

(* serial version 4 (compressed): every strict prefix is rejected by both readers *)
Theorem C11_theta_v4_prefix_rejected : forall s e n img,
  wf4 s -> suitable_for_compression s = true -> enc_v4 s = Some img -> (n < length img)%nat ->
  dec_bytes e (firstn n img) = None /\ dec_stream e (firstn n img) = None.
Proof. exact v4_prefix. Qed.

(* ARBITRARY bytes (corrupted images included), all four serial versions: whatever a reader accepts has at most
   8 entries per supplied byte (version 3: one entry per 8 bytes; version 4: at least one bit per entry) - the
   entry count field is checked against the remaining length before anything is allocated or read - and the
   stream reader never consumes more than it was given. *)
Theorem C11_theta_bytes_bounded : forall e bytes s,
  dec_bytes e bytes = Some s -> (length (k_entries s) <= 8 * length bytes)%nat.
Proof. exact dec_bytes_bounded. Qed.

Theorem C11_theta_stream_bounded : forall e bytes s used,
  dec_stream e bytes = Some (s, used) ->
  (length (k_entries s) <= 8 * length bytes)%nat /\ (used <= length bytes)%nat.
Proof. exact dec_stream_bounded. Qed.

(* non-vacuity *)
Definition C11_ex : csk := mk false true 37836 4611686018427387904 [1000; 70000; 4000000000000].
Definition C11_ex0 : csk := mk false true 37836 MAX_THETA [].
Example C11_ex_wf : wf C11_ex /\ wf C11_ex0.
Proof.
  unfold wf. cbn [C11_ex C11_ex0 mk k_seed_hash k_theta k_entries k_empty k_ordered].
  repeat split; try reflexivity; try discriminate; repeat (apply Forall_cons; [reflexivity|]); apply Forall_nil.
Qed.
Example C11_ex_prefixes :
  dec_bytes 37836 (enc_v3 C11_ex) = Some C11_ex /\
  dec_bytes 37836 (firstn 47 (enc_v3 C11_ex)) = None /\ dec_stream 37836 (firstn 47 (enc_v3 C11_ex)) = None /\
  dec_bytes 37836 (firstn 20 (enc_v3 C11_ex)) = None /\ dec_stream 37836 (firstn 9 (enc_v3 C11_ex)) = None /\
  length (enc_v3 C11_ex0) = 16%nat /\
  dec_bytes 37836 (enc_v3 C11_ex0) = Some C11_ex0 /\ dec_bytes 37836 (firstn 12 (enc_v3 C11_ex0)) = None /\
  dec_bytes 37836 (firstn 15 (enc_v3 C11_ex0)) = None /\ dec_bytes 37836 (firstn 11 (enc_v3 C11_ex0)) = None /\
  dec_stream 37836 (firstn 15 (enc_v3 C11_ex0)) = None /\
  match enc_v4 C11_ex with
  | Some img => dec_bytes 37836 img = Some C11_ex /\ dec_bytes 37836 (firstn 32 img) = None /\
                dec_stream 37836 (firstn 32 img) = None /\ dec_stream 37836 (firstn 17 img) = None
  | None => False
  end.
Proof. vm_compute. repeat split. Qed.
(* corrupted entry count (0xFFFFFFFF entries claimed in a 48-byte image): rejected *)
Example C11_ex_corrupted :
  let img := firstn 8 (enc_v3 C11_ex) ++ [255; 255; 255; 255] ++ skipn 12 (enc_v3 C11_ex) in
  length img = 48%nat /\ dec_bytes 37836 img = None /\ dec_stream 37836 img = None.
Proof. vm_compute. repeat split. Qed.

(* short buffers whose entry count is 0: the preamble (16 bytes) is incomplete, so they are rejected although
   no entry would be read (serial versions 3 and 2) *)
Example C11_ex_short_preamble :
  dec_bytes 7 [2; 3; 3; 0; 0; 10; 7; 0; 0; 0; 0; 0] = None /\
  dec_bytes 7 [2; 2; 3; 0; 0; 10; 7; 0; 0; 0; 0; 0] = None /\
  dec_bytes 7 [2; 3; 3; 0; 0; 10; 7; 0; 0; 0; 0; 0; 0; 0; 0; 0] = Some (mk false false 7 MAX_THETA []) /\
  dec_bytes 7 [2; 2; 3; 0; 0; 10; 7; 0; 0; 0; 0; 0; 0; 0; 0; 0] = Some (mk true true 7 MAX_THETA []).
Proof. vm_compute. repeat split. Qed.

Print Assumptions C11_theta_read_in_bounds.
Print Assumptions C11_theta_v3_prefix_stream_rejected.
Print Assumptions C11_theta_v3_prefix_bytes_rejected.
Print Assumptions C11_theta_v4_prefix_rejected.
Print Assumptions C11_theta_bytes_bounded.
Print Assumptions C11_theta_stream_bounded.
