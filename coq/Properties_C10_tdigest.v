(* Properties_C10_tdigest.v — the tdigest<double> image has the documented layout, and the two big-endian formats of the reference
   implementation that deserialize() accepts are read as documented.  Statements only; proofs in TDigestCodecProofs.v. *)
From Coq Require Import NArith List Bool.
From DS Require Import Word TDigestCodecDefs TDigestCodecProofs.
Import ListNotations.
Local Open Scope N_scope.

(* bytes 0..7: preamble longs (1 if empty or single value, else 2), serial version 1, sketch type 20, k (uint16, little endian),
   flags, two unused zero bytes *)
Theorem C10_td_preamble : forall s, c_k s < 65536 ->
  firstn 8 (enc s) = [pre_longs s; 1; 20; w8 (c_k s); w8 (N.shiftr (c_k s) 8); flags s; 0; 0] /\
  le_bytes_to_N [nth 3 (enc s) 0; nth 4 (enc s) 0] = c_k s /\
  (pre_longs s = if is_empty s || is_single s then 1 else 2).
Proof. exact layout_preamble. Qed.

(* flag bits: 0 IS_EMPTY, 1 IS_SINGLE_VALUE, 2 REVERSE_MERGE; nothing else is ever set *)
Theorem C10_td_flags : forall s,
  N.testbit (flags s) 0 = is_empty s /\ N.testbit (flags s) 1 = is_single s /\ N.testbit (flags s) 2 = c_rev s /\ flags s < 8.
Proof. exact flags_bits. Qed.

Theorem C10_td_empty : forall s, is_empty s = true -> length (enc s) = 8%nat.
Proof. exact layout_empty. Qed.

(* a single value: the value (min_) at byte 8, 16 bytes in all *)
Theorem C10_td_single : forall s, is_empty s = false -> is_single s = true -> skipn 8 (enc s) = u64 (c_min s) /\ length (enc s) = 16%nat.
Proof. exact layout_single. Qed.

(* more than one value: number of centroids at 8, number of buffered values at 12, min at 16, max at 24, centroid i (mean, weight)
   at 32 + 16 i, buffered value j at 32 + 16 * centroids + 8 j; all little endian *)
Theorem C10_td_multi : forall s, is_empty s = false -> is_single s = false ->
  skipn 8 (enc s) = u32 (N.of_nat (length (c_cents s))) ++ u32 (N.of_nat (length (c_buf s))) ++ u64 (c_min s) ++ u64 (c_max s) ++
                    flat_map enc_cent (c_cents s) ++ flat_map u64 (c_buf s) /\
  firstn 4 (skipn 8 (enc s)) = u32 (N.of_nat (length (c_cents s))) /\
  firstn 4 (skipn 12 (enc s)) = u32 (N.of_nat (length (c_buf s))) /\
  firstn 8 (skipn 16 (enc s)) = u64 (c_min s) /\
  firstn 8 (skipn 24 (enc s)) = u64 (c_max s) /\
  (forall i c, nth_error (c_cents s) i = Some c -> firstn 16 (skipn (32 + 16 * i) (enc s)) = u64 (fst c) ++ u64 (snd c)) /\
  (forall j v, nth_error (c_buf s) j = Some v -> firstn 8 (skipn (32 + 16 * length (c_cents s) + 8 * j) (enc s)) = u64 v).
Proof. exact layout_multi. Qed.

(* old images stay readable: the reference implementation's asBytes() form (type 1: doubles) ... *)
Theorem C10_td_compat_double : forall mn mx kd cs cs' k rest,
  mn < two64 -> mx < two64 -> kd < two64 -> N.of_nat (length cs) < two32 ->
  f64_to_N two16 kd = Some k -> 10 <= k -> Forall2 read_d cs cs' ->
  dec (enc_compat_d mn mx kd cs ++ rest) =
  Some ({| c_k := k; c_rev := false; c_min := mn; c_max := mx; c_cents := cs'; c_buf := [] |}, rest).
Proof. exact compat_d_read. Qed.

(* ... and its asSmallBytes() form (type 2: min / max doubles, k and the centroids floats, 4 unused bytes, 16-bit count) *)
Theorem C10_td_compat_float : forall mn mx kf unused cs cs' k rest,
  mn < two64 -> mx < two64 -> kf < two32 -> length unused = 4%nat -> N.of_nat (length cs) < 65536 ->
  f64_to_N two16 (f32_to_f64 kf) = Some k -> 10 <= k -> Forall2 read_f cs cs' ->
  dec (enc_compat_f mn mx kf unused cs ++ rest) =
  Some ({| c_k := k; c_rev := false; c_min := mn; c_max := mx; c_cents := cs'; c_buf := [] |}, rest).
Proof. exact compat_f_read. Qed.

(* non-vacuity: the two reference images used by the correspondence runs (min 1.0, max 3.0, k 100, centroids (1.0, w 1), (2.5, w 2)),
   and the conversions on some patterns: 100.0 -> 100, 2.75 -> 2, 1.0f -> 1.0, the smallest float subnormal, -0.0f *)
Example C10_ex_compat :
  dec ([0;0;0;1; 63;240;0;0;0;0;0;0; 64;8;0;0;0;0;0;0; 64;89;0;0;0;0;0;0; 0;0;0;2;
        63;240;0;0;0;0;0;0; 63;240;0;0;0;0;0;0; 64;0;0;0;0;0;0;0; 64;4;0;0;0;0;0;0]) =
  Some ({| c_k := 100; c_rev := false; c_min := 4607182418800017408; c_max := 4613937818241073152;
           c_cents := [(4607182418800017408, 1); (4612811918334230528, 2)]; c_buf := [] |}, []) /\
  dec ([0;0;0;2; 63;240;0;0;0;0;0;0; 64;8;0;0;0;0;0;0; 66;200;0;0; 7;7;7;7; 0;2;
        63;128;0;0; 63;128;0;0; 64;0;0;0; 64;32;0;0]) =
  Some ({| c_k := 100; c_rev := false; c_min := 4607182418800017408; c_max := 4613937818241073152;
           c_cents := [(4607182418800017408, 1); (4612811918334230528, 2)]; c_buf := [] |}, []) /\
  f64_to_N two16 4636737291354636288 = Some 100 /\ f64_to_N two64 4613374868287651840 = Some 2 /\
  f32_to_f64 1065353216 = 4607182418800017408 /\ f32_to_f64 1 = 3936146074321813504 /\ f32_to_f64 2147483648 = 9223372036854775808.
Proof. vm_compute. repeat split; reflexivity. Qed.

Print Assumptions C10_td_preamble.
Print Assumptions C10_td_flags.
Print Assumptions C10_td_empty.
Print Assumptions C10_td_single.
Print Assumptions C10_td_multi.
Print Assumptions C10_td_compat_double.
Print Assumptions C10_td_compat_float.
