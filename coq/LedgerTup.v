(* LedgerTup.v — model of the hand-managed entries_ array of theta_update_sketch_base
   (theta_update_sketch_base_impl.hpp), as used by update_tuple_sketch<Summary> (entries are
   pair<uint64_t, Summary>, so every occupied slot holds one live Summary).
   The set of retained keys is modelled exactly (hash values are an input: ANY hash function); the
   physical probing positions are NOT: slot indices are canonicalised to the compact prefix
   [0, num_entries) — positions are unobservable, nth_element leaves them unspecified after a rebuild —
   so the effect log records how many slots of which block are constructed/destroyed and with which
   sizes blocks are allocated and released.  Definitions only. *)
From Coq Require Import ZArith NArith List Bool Lia.
From DS Require Import LedgerCore.
Import ListNotations.
Local Open Scope N_scope.

Record tup := {
  t_lg_cur : N; t_lg_nom : N; t_rf : N;      (* lg_cur_size_, lg_nom_size_, lg of the resize factor *)
  t_theta : N;
  t_keys : list N;                            (* retained hashes, in canonical slot order *)
  t_blk : option N;                           (* entries_ (None = nullptr after being moved from) *)
  t_nxt : N
}.

Definition MAX_THETA : N := 9223372036854775807.
Definition MIN_LG_K : N := 5.
Definition t_num (s : tup) : N := N.of_nat (length (t_keys s)).
Definition t_size (s : tup) : N := 2 ^ t_lg_cur s.

(* theta_build_helper::starting_sub_multiple(lg_tgt, lg_min, lg_rf) *)
Definition starting_sub_multiple (lg_tgt lg_min lg_rf : N) : N :=
  if lg_tgt <=? lg_min then lg_min else if lg_rf =? 0 then lg_tgt else (lg_tgt - lg_min) mod lg_rf + lg_min.

(* get_capacity: floor(0.5 * 2^lg) below the nominal size, floor(15/16 * 2^lg) at lg_nom + 1 *)
Definition capacity (lg_cur lg_nom : N) : N :=
  if lg_cur <=? lg_nom then 2 ^ lg_cur / 2 else 15 * 2 ^ lg_cur / 16.

Definition new_tup (lg_k rf : N) : tup * list eff :=
  let lg := starting_sub_multiple (lg_k + 1) MIN_LG_K rf in
  ({| t_lg_cur := lg; t_lg_nom := lg_k; t_rf := rf; t_theta := MAX_THETA; t_keys := []; t_blk := Some 0; t_nxt := 1 |},
   [Alloc true 0 (2 ^ lg)]).

(* insertion sort, ascending *)
Fixpoint ins (x : N) (l : list N) : list N :=
  match l with [] => [x] | y :: t => if x <=? y then x :: l else y :: ins x t end.
Definition sortN (l : list N) : list N := fold_right ins [] l.

Definition resize (s : tup) (b : N) : tup * list eff :=
  let lg_new := N.min (t_lg_cur s + t_rf s) (t_lg_nom s + 1) in
  let b' := t_nxt s in
  ({| t_lg_cur := lg_new; t_lg_nom := t_lg_nom s; t_rf := t_rf s; t_theta := t_theta s; t_keys := t_keys s;
      t_blk := Some b'; t_nxt := b' + 1 |},
   [Alloc true b' (2 ^ lg_new); MovD b 0 b' 0 (t_num s); Dealloc b (t_size s)]).

(* rebuild: keep the 2^lg_nom smallest keys, theta := the next one *)
Definition rebuild (s : tup) (b : N) : tup * list eff :=
  let nominal := 2 ^ t_lg_nom s in
  let sorted := sortN (t_keys s) in
  let kept := firstn (N.to_nat nominal) sorted in
  let th := nth (N.to_nat nominal) sorted 0 in
  let b' := t_nxt s in
  ({| t_lg_cur := t_lg_cur s; t_lg_nom := t_lg_nom s; t_rf := t_rf s; t_theta := th; t_keys := kept;
      t_blk := Some b'; t_nxt := b' + 1 |},
   [Alloc true b' (t_size s); MovD b 0 b' 0 nominal; Dest b nominal (t_num s - nominal); Dealloc b (t_size s)]).

(* update(key, value) with hash h: screen, find, insert (+ resize / rebuild) *)
Definition tup_update (s : tup) (h : N) : option (tup * list eff) :=
  match t_blk s with
  | None => None
  | Some b =>
    if (t_theta s <=? h) || (h =? 0) then Some (s, [])
    else if existsb (N.eqb h) (t_keys s) then Some (s, [])
    else
      let s1 := {| t_lg_cur := t_lg_cur s; t_lg_nom := t_lg_nom s; t_rf := t_rf s; t_theta := t_theta s;
                   t_keys := t_keys s ++ [h]; t_blk := t_blk s; t_nxt := t_nxt s |} in
      let e1 := [Cons b (t_num s) 1] in
      if capacity (t_lg_cur s) (t_lg_nom s) <? t_num s1 then
        let '(s2, e2) := if t_lg_cur s <=? t_lg_nom s then resize s1 b else rebuild s1 b in
        Some (s2, e1 ++ e2)
      else Some (s1, e1)
  end.

Definition tup_trim (s : tup) : option (tup * list eff) :=
  match t_blk s with
  | None => None
  | Some b => if 2 ^ t_lg_nom s <? t_num s then Some (rebuild s b) else Some (s, [])
  end.

Definition tup_reset (s : tup) : option (tup * list eff) :=
  match t_blk s with
  | None => None
  | Some b =>
    let lg := starting_sub_multiple (t_lg_nom s + 1) MIN_LG_K (t_rf s) in
    let e1 := [Dest b 0 (t_num s)] in
    if lg =? t_lg_cur s then
      Some ({| t_lg_cur := t_lg_cur s; t_lg_nom := t_lg_nom s; t_rf := t_rf s; t_theta := MAX_THETA; t_keys := [];
               t_blk := Some b; t_nxt := t_nxt s |}, e1)
    else
      let b' := t_nxt s in
      Some ({| t_lg_cur := lg; t_lg_nom := t_lg_nom s; t_rf := t_rf s; t_theta := MAX_THETA; t_keys := [];
               t_blk := Some b'; t_nxt := b' + 1 |}, e1 ++ [Dealloc b (t_size s); Alloc true b' (2 ^ lg)])
  end.

Definition tup_copy (o : tup) : option (tup * list eff) :=
  match t_blk o with
  | None =>   (* copying a moved-from table: entries_ stays nullptr *)
    Some ({| t_lg_cur := t_lg_cur o; t_lg_nom := t_lg_nom o; t_rf := t_rf o; t_theta := t_theta o; t_keys := t_keys o;
             t_blk := None; t_nxt := 0 |}, [])
  | Some ob =>
    Some ({| t_lg_cur := t_lg_cur o; t_lg_nom := t_lg_nom o; t_rf := t_rf o; t_theta := t_theta o; t_keys := t_keys o;
             t_blk := Some 0; t_nxt := 1 |},
          [Alloc true 0 (t_size o); FromX ob 0 0 0 (t_num o)])
  end.

Definition tup_destroy (s : tup) : list eff :=
  match t_blk s with
  | None => []
  | Some b => [Dest b 0 (t_num s); Dealloc b (t_size s)]
  end.

Definition tup_moved_from (s : tup) : tup :=
  {| t_lg_cur := t_lg_cur s; t_lg_nom := t_lg_nom s; t_rf := t_rf s; t_theta := t_theta s; t_keys := [];
     t_blk := None; t_nxt := t_nxt s |}.
