(* VarOptHeavy.v — the heavy-item clause for union results (exact-arithmetic instance): every sample the union ever handed
   to its gadget is, slot for slot, still in H or no heavier than tau ("kept"), through update, the union round trip and all
   three get_result coercers; hence the result's tau is at least every input sketch's tau, and every input heavier than the
   result's tau sits in the result's H region with its exact weight. *)
From Coq Require Import ZArith List Bool QArith Lia Lra Psatz Permutation.
From DS Require Import RunnerLib VarOptDefs VarOptProofs VarOptTheorems VarOptUnion VarOptMarks VarOptTotal.
Import ListNotations.

Section QH.
  Variable Item : Type.
  Variable ditem : Item.
  Variable cu : Z -> Q.

  Notation vo := (vo Item Q).
  Notation vu := (vu Item Q).
  Notation slot := (slot Item Q).
  Notation sumw := (sumw Item).
  Notation pairs_of := (pairs_of Item).
  Notation Rest := (Rest Item ditem).
  Notation Est := (Est Item ditem).
  Notation Inv := (Inv Item ditem).
  Notation UInv := (UInv Item ditem).
  Notation G := (G Item ditem).
  Notation mk_ok := (mk_ok Item).
  Notation cntm := (cntm Item).
  Notation kept := (kept Item).
  Notation TI := (TI Item).
  Notation Qtau := (Qtau Item).
  Notation Qouter_tau := (Qouter_tau Item).
  Notation Qresult_gen := (Qresult_gen Item ditem cu).
  Notation Qunion_update := (Qunion_update Item ditem cu).
  Notation Qupd_all := (Qupd_all Item ditem cu).

  Definition slot_of (p : Item * Q * bool) : slot := mkslot (fst (fst p)) (snd (fst p)) (snd p).
  Definition sample_slots (sk : vo) : list slot := map slot_of (Qunion_samples Item sk).

  (* ---------------- kept is preserved by gadget updates ---------------- *)
  Lemma kept_step (g : vo) x w mk c g' c' : Rest g -> 0 < w ->
    update_body Item ditem Q 0 1 (-(1)) Qplus Qmult Qdiv Qltb Qle_bool Qeq_bool inject_Z cu g x w mk c = Some (g', c') ->
    (forall y, kept g y -> kept g' y) /\ kept g' (mkslot x w mk).
  Proof.
    intros HR Hw E. destruct (provR_trivial Item ditem g HR) as (inp & HP & _).
    destruct (update_body_spec Item ditem cu g x w mk c inp HR HP Hw) as (s' & c1 & E' & _ & _ & _ & _ & _ & _ & Hest & Hsl).
    rewrite E in E'. injection E' as <- <-. split; [|apply Hsl; now right].
    intros y [Hy|(Hr & Hb)]; [apply Hsl; now left|].
    assert (HE : Est g).
    { destruct HR as (_ & _ & _ & _ & [(HR0 & _)|HE]); [unfold rr in Hr; rewrite HR0 in Hr; cbn in Hr; lia|exact HE]. }
    destruct (Hest HE) as [(Hr' & _) T]. right. split; [exact Hr'|].
    apply (tau_trans (s_wt y) (vtot g) (vtot g') (qn (rr g)) (qn (rr g'))); [apply qn_pos; lia|apply qn_nonneg|exact Hb|exact T].
  Qed.

  Lemma upd_all_kept : forall l (g : vo) c gk W, GInv Item ditem g gk W -> spos Item l ->
    (forall y, kept g y -> kept (fst (fst (Qupd_all g l c))) y) /\
    (forall p, In p l -> kept (fst (fst (Qupd_all g l c))) (slot_of p)).
  Proof.
    induction l as [|[[x w] mk] t IH]; intros g c gk W HG Hpos.
    - unfold VarOptUnion.Qupd_all. cbn [upd_all fst]. split; [auto|intros p []].
    - apply Forall_cons_iff in Hpos. destruct Hpos as [Hw Ht]. cbn [fst snd] in Hw.
      destruct HG as (HR & Ek & Hsum).
      destruct (provR_trivial Item ditem g HR) as (inp & HP & _).
      destruct (update_body_spec Item ditem cu g x w mk c inp HR HP Hw) as (s1 & c1 & E & HR1 & _ & Hs1 & _ & Ek1 & _).
      assert (EU : update Item ditem Q 0 1 (-(1)) Qplus Qmult Qdiv Qltb Qle_bool Qeq_bool inject_Z Qbad cu g x w mk c = UOk Item Q s1 c1).
      { unfold update, Qbad. rewrite (Qltb_ge w 0) by lra.
        destruct (Qeq_bool w 0) eqn:E0; [apply Qeq_bool_iff in E0; lra|]. now rewrite E. }
      unfold VarOptUnion.Qupd_all in *. cbn [upd_all]. rewrite EU.
      destruct (kept_step g x w mk c s1 c1 HR Hw E) as [K1 K1n].
      destruct (IH s1 c1 gk (W + w) ltac:(split; [exact HR1|split; [congruence|rewrite Hs1, Hsum; lra]]) Ht) as [K2 K2n].
      split; [intros y Hy; apply K2, K1, Hy|].
      intros p [<-|Hp]; [apply K2; exact K1n|now apply K2n].
  Qed.

  (* the R samples all carry the weight tau (the last one total - (r - 1) tau, the same number) *)
  Lemma r_samples_weights : forall (R : list Item) tau tot cum, tot - cum == tau * qn (length R) ->
    forall p, In p (r_samples Item Q Qplus Qminus R tau tot cum) -> snd (fst p) == tau /\ snd p = true.
  Proof.
    induction R as [|x t IH]; intros tau tot cum E p Hp; [destruct Hp|].
    destruct t as [|y t'].
    - cbn [r_samples length] in *. change (qn 1) with 1 in E. destruct Hp as [<-|[]]. cbn [fst snd]. split; [lra|reflexivity].
    - change (r_samples Item Q Qplus Qminus (x :: y :: t') tau tot cum)
        with ((x, tau, true) :: r_samples Item Q Qplus Qminus (y :: t') tau tot (cum + tau)) in Hp.
      destruct Hp as [<-|Hp]; [cbn [fst snd]; split; [reflexivity|reflexivity]|].
      apply (IH tau tot (cum + tau)); [|exact Hp].
      change (length (x :: y :: t')) with (S (length (y :: t'))) in E. rewrite qn_S in E. lra.
  Qed.

  Lemma sample_slot_cases (sk : vo) k A y : Inv k sk A -> In y (sample_slots sk) ->
    0 < s_wt y /\
    ((s_mark y = false /\ In (s_item y, s_wt y) (pairs_of (vH sk))) \/
     (s_mark y = true /\ (1 <= rr sk)%nat /\ s_wt y == Qtau sk)).
  Proof.
    intros HI Hy. destruct (union_samples_spec Item ditem sk k A HI) as (Hpos & _).
    unfold sample_slots in Hy. apply in_map_iff in Hy. destruct Hy as (p & <- & Hp).
    unfold VarOptUnion.spos in Hpos. rewrite Forall_forall in Hpos. split; [exact (Hpos p Hp)|].
    unfold Qunion_samples, union_samples in Hp. apply in_app_or in Hp. destruct Hp as [Hp|Hp].
    - left. apply in_map_iff in Hp. destruct Hp as (z & <- & Hz). cbn. split; [reflexivity|].
      unfold VarOptProofs.pairs_of. apply in_map_iff. now exists z.
    - right. destruct HI as ((_ & _ & _ & _ & Hmode) & _).
      destruct Hmode as [(HR0 & _)|(Hr & _ & Htot & _)]; [rewrite HR0 in Hp; destruct Hp|].
      assert (Hq : 0 < qn (rr sk)) by (apply qn_pos; lia).
      assert (E : vtot sk - 0 == get_tau Item Q Qdiv inject_Z sk * qn (length (vR sk))) by (unfold get_tau, ofN; fold (rr sk) (qn (rr sk)); field; lra).
      destruct (r_samples_weights (vR sk) _ (vtot sk) 0 E p Hp) as [Ew Em]. destruct p as [[x w] mk]. cbn in *.
      split; [exact Em|]. split; [exact Hr|exact Ew].
  Qed.

  (* ---------------- the invariant of a union history ---------------- *)
  Fixpoint uslots (acc : list slot) (ops : list (uop Item)) : list slot :=
    match ops with
    | [] => acc
    | UUpdate _ sk _ :: t => uslots (acc ++ sample_slots sk) t
    | URoundTrip _ :: t => uslots acc t
    | UReset _ :: t => uslots [] t
    end.

  (* S = the samples handed to the gadget since the last reset: each is kept; marked H slots are no heavier than the outer tau *)
  Definition HInv (u : vu) (S : list slot) : Prop :=
    (forall y, In y S -> kept (ugad u) y) /\
    (forall y, In y (vH (ugad u)) -> s_mark y = true -> s_wt y <= Qouter_tau u) /\
    otau_ok Item u /\ (S = [] \/ (0 < un u)%Z).

  Lemma empty_HInv max_k : HInv (Quempty Item max_k) [].
  Proof. split; [intros y []|]. split; [intros y []|]. split; [now left|now left]. Qed.

  Lemma Inv_Est (sk : vo) k A : Inv k sk A -> (1 <= rr sk)%nat -> Est sk.
  Proof.
    intros ((_ & _ & _ & _ & [(HR0 & _)|HE]) & _) Hr; [unfold rr in Hr; rewrite HR0 in Hr; cbn in Hr; lia|exact HE].
  Qed.

  Lemma union_update_HInv (u : vu) n W (sk : vo) k A c S :
    UInv u n W -> Inv k sk A -> HInv u S -> HInv (fst (fst (Qunion_update u sk c))) (S ++ sample_slots sk).
  Proof.
    intros HU HI (HK & HMO & Hot & Hun).
    pose proof (inv_counts Item ditem k sk A HI) as (_ & _ & EnS & Hc & _).
    destruct (union_samples_spec Item ditem sk k A HI) as (Hpos & _).
    destruct HU as (HG & Hgad & En & Hgn).
    unfold VarOptUnion.Qunion_update, union_update, merge_items.
    destruct (Z.eqb_spec (vn sk) 0) as [E0|E0].
    - assert (Hr0 : rr sk = 0%nat) by lia. assert (Hh0 : hh sk = 0%nat) by lia.
      assert (Es : sample_slots sk = []).
      { unfold sample_slots, Qunion_samples, union_samples. unfold hh in Hh0. unfold rr in Hr0.
        destruct (vH sk); [|cbn in Hh0; lia]. destruct (vR sk); [|cbn in Hr0; lia]. reflexivity. }
      cbn [fst]. fold (Qresolve_tau Item u sk). rewrite (resolve_tau_warm Item u sk Hr0), Es, app_nil_r.
      split; [exact HK|]. split; [exact HMO|]. split; assumption.
    - pose proof (upd_all_keeps Item ditem cu (Qunion_samples Item sk) (ugad u) c (umaxk u) W HG Hpos) as [_ Isl].
      pose proof (upd_all_kept (Qunion_samples Item sk) (ugad u) c (umaxk u) W HG Hpos) as [K Kn].
      destruct (upd_all_spec Item ditem cu (Qunion_samples Item sk) (ugad u) c (umaxk u) W HG Hpos) as (g' & c' & Eg' & _).
      unfold VarOptUnion.Qupd_all, Qunion_samples in *. rewrite Eg' in *. cbn [fst] in Isl, K, Kn |- *.
      match goal with |- HInv (resolve_tau _ _ _ _ _ _ _ _ ?uu sk) _ => set (u1 := uu) end.
      fold (Qresolve_tau Item u1 sk). destruct (resolve_tau_fields Item u1 sk) as (Egd & Enn & _).
      assert (Hout : otau_ok Item (Qresolve_tau Item u1 sk) /\ Qouter_tau u <= Qouter_tau (Qresolve_tau Item u1 sk) /\
                     ((1 <= rr sk)%nat -> Qtau sk <= Qouter_tau (Qresolve_tau Item u1 sk))).
      { destruct (Nat.eq_dec (rr sk) 0) as [Hr0|Hr0].
        - rewrite (resolve_tau_warm Item u1 sk Hr0). split; [exact Hot|]. split; [apply Qle_refl|intros X; lia].
        - destruct (resolve_tau_spec Item ditem u1 sk Hot (Inv_Est sk k A HI ltac:(lia))) as (A1 & _ & A3 & A4 & _).
          split; [exact A1|]. split; [exact A4|intros _; exact A3]. }
      destruct Hout as (Hot' & Hmono & Hsk).
      unfold HInv. rewrite Egd, Enn. change (ugad u1) with g'. change (un u1) with (un u + vn sk)%Z.
      split.
      { intros y Hy. apply in_app_or in Hy. destruct Hy as [Hy|Hy]; [apply K, HK, Hy|].
        unfold sample_slots in Hy. apply in_map_iff in Hy. destruct Hy as (p & <- & Hp). now apply Kn. }
      split.
      { intros y Hy Hm. apply Isl in Hy. destruct Hy as [Hy|(x & w & mk & Hin & ->)].
        - eapply Qle_trans; [apply (HMO y Hy Hm)|exact Hmono].
        - assert (Hs : In (mkslot x w mk) (sample_slots sk)).
          { unfold sample_slots. apply in_map_iff. exists (x, w, mk). split; [reflexivity|exact Hin]. }
          destruct (sample_slot_cases sk k A _ HI Hs) as (_ & [(Hf & _)|(_ & Hr & Ew)]); [congruence|].
          rewrite Ew. now apply Hsk. }
      split; [exact Hot'|]. right.
      assert (Hg0 : (0 <= vn (ugad u))%Z).
      { destruct HG as ((_ & _ & _ & _ & [(_ & _ & Hn0 & _)|(_ & _ & _ & _ & _ & Hn0)]) & _); lia. }
      lia.
  Qed.

  Lemma kept_fields (s s' : vo) y : vH s' = vH s -> vR s' = vR s -> vtot s' == vtot s -> kept s y -> kept s' y.
  Proof.
    intros EH ER Et [Hy|(Hr & Hb)]; [left; now rewrite EH|right]. unfold rr in *. rewrite ER. split; [exact Hr|]. now rewrite Et.
  Qed.

  Lemma serde_HInv (u u' : vu) n W S : UInv u n W -> HInv u S -> Quserde Item u = Some u' -> HInv u' S.
  Proof.
    intros ((HR & _) & _) (HK & HMO & Hot & Hun) E. unfold Quserde, union_serde in E.
    destruct (Z.eqb_spec (un u) 0) as [E0|E0].
    - injection E as <-. destruct Hun as [->|X]; [apply empty_HInv|lia].
    - destruct (provR_trivial Item ditem _ HR) as (inp & HP & _).
      destruct (serde_spec Item ditem (ugad u) inp HR HP) as (g' & Eg & _ & _ & EH & ER & Et & _).
      unfold Qserde in Eg. rewrite Eg in E. injection E as <-.
      unfold HInv. cbn [ugad un]. split; [intros y Hy; apply (kept_fields (ugad u)); auto|].
      split; [intros y Hy Hm; rewrite EH in Hy; exact (HMO y Hy Hm)|]. split; [exact Hot|exact Hun].
  Qed.

  Lemma urun_HInv : forall ops (u : vu) n W c S, UInv u n W -> valid_uops Item ditem ops -> HInv u S ->
    HInv (fst (fst (urun Item ditem cu u ops c))) (uslots S ops).
  Proof.
    induction ops as [|o t IH]; intros u n W c S HU Hv HH; [exact HH|].
    apply Forall_cons_iff in Hv. destruct Hv as [Ho Hv]. cbn [urun uslots]. destruct o as [sk A| |]; cbn [ustep].
    - destruct Ho as (k & HI).
      pose proof (union_update_HInv u n W sk k A c S HU HI HH) as HH1.
      destruct (union_update_spec Item ditem cu u n W sk k A c HU HI) as (u1 & c1 & E1 & HU1 & _).
      rewrite E1 in *. cbn [fst] in HH1. apply (IH u1 _ _ c1 _ HU1 Hv HH1).
    - destruct (union_serde_spec Item ditem u n W HU) as (u1 & E1 & HU1 & _). rewrite E1.
      apply (IH u1 _ _ c _ HU1 Hv). exact (serde_HInv u u1 n W S HU HH E1).
    - assert (HU1 : UInv (union_reset Item Q 0 u) 0 0).
      { destruct HU as ((HR & Ek & _) & Hgad & _). destruct HR as (_ & _ & _ & Hk1 & _).
        unfold union_reset, reset. rewrite Hgad, Ek. apply uempty_UInv. now rewrite <- Ek. }
      apply (IH _ _ _ c _ HU1 Hv).
      destruct HU as ((_ & Ek & _) & Hgad & _). unfold union_reset, reset. rewrite Hgad, Ek. apply empty_HInv.
  Qed.

  (* ---------------- get_result: every coercer keeps the samples, and leaves no marked slot in H ---------------- *)
  Lemma unmark_eta (y : slot) : s_mark y = false -> mkslot (s_item y) (s_wt y) false = y.
  Proof. destruct y as [i w m]. cbn. now intros ->. Qed.

  Theorem get_result_kept a4 (u : vu) n W M T S c : UInv u n W -> TI u M T -> HInv u S ->
    exists res c', Qresult_gen a4 u c = Some (res, c') /\
      (forall y, In y S -> kept res y) /\ (forall y, In y (vH res) -> s_mark y = false).
  Proof.
    intros HU (Hiff & Hle & Heq & Hz & Hn & Hwarm & Hok) (HK & HMO & Hot & _). pose proof HU as ((HR & Ek & Hsum) & Hgad & En & Hgn).
    unfold VarOptUnion.Qresult_gen, get_result_gen, get_result_gen2. set (g := ugad u) in *.
    pose proof HR as (HM & Hmb & Hpos & Hk1 & Hmode).
    destruct (Nat.eqb_spec (vmarks g) 0) as [Ez|Ez].
    { (* simple copy *)
      eexists _, _. split; [reflexivity|]. split; [intros y Hy; exact (HK y Hy)|].
      unfold copy_as. cbn [vH]. apply (cntm_zero Item). rewrite <- (Hok Hgad). exact Ez. }
    destruct ((rr g =? 0)%nat && (0 <? vmarks g)%nat && (vmarks g =? uotd u)%nat &&
              negb (exists_unmarked_lighter Item Q Qltb g (a4 u)))%bool eqn:C.
    - (* mark-moving coercer *)
      apply andb_true_iff in C. destruct C as [C _]. apply andb_true_iff in C. destruct C as [C Cm].
      apply andb_true_iff in C. destruct C as [Cr _]. apply Nat.eqb_eq in Cr, Cm.
      pose proof (rr0_nil Item g Cr) as HR0. destruct (Hwarm HR0) as [Em Ems].
      assert (Eotn : uotn u == T) by (apply Heq; lia).
      unfold mark_moving_gen. fold g.
      set (tw := fold_left (fun a x => a + s_wt x) (filter (@s_mark Item Q) (vH g)) 0).
      assert (Etw : tw == uotn u).
      { subst tw. rewrite (fold_sum Item (filter (@s_mark Item Q) (vH g)) 0). unfold msum in Ems. rewrite Eotn, <- Ems. lra. }
      assert (Hchk : (Qltb Qeps10 (tw - uotn u) || Qltb (tw - uotn u) (- (1) * Qeps10))%bool = false).
      { apply orb_false_iff. split; apply Qltb_ge; unfold Qeps10; lra. }
      fold tw. rewrite Hchk. eexists _, _. split; [reflexivity|]. cbn [vH].
      set (H0 := map (fun x : slot => mkslot (s_item x) (s_wt x) false) (filter (fun x : slot => negb (s_mark x)) (vH g))).
      pose proof (Hconv_perm Item ditem H0) as PH.
      assert (Evt : vtot g == 0).
      { destruct Hmode as [(_ & _ & _ & Ht)|(Hr & _)]; [exact Ht|lia]. }
      assert (Hotd : (1 <= uotd u)%nat) by lia.
      split.
      + intros y Hy. destruct (HK y Hy) as [HyH|(Hr & _)]; [|lia].
        destruct (s_mark y) eqn:Emk.
        * (* a marked sample: it moved to R, and it is no heavier than the result's tau = outer tau *)
          right. unfold rr. cbn [vR vtot]. rewrite rev_length, app_length, map_length, HR0. cbn [length Nat.add].
          fold (cntm (vH g)). rewrite <- (Hok Hgad), Cm. split; [exact Hotd|].
          pose proof (HMO y HyH Emk) as Hb. unfold VarOptUnion.Qouter_tau, get_outer_tau, ofN in Hb.
          destruct (Nat.eqb_spec (uotd u) 0); [lia|]. fold (qn (uotd u)) in Hb.
          pose proof (qn_pos (uotd u) Hotd) as Hq.
          assert (E1 : uotn u / qn (uotd u) * qn (uotd u) == uotn u) by (field; lra).
          assert (s_wt y * qn (uotd u) <= uotn u / qn (uotd u) * qn (uotd u)) by (apply Qmult_le_compat_r; lra).
          lra.
        * left. apply (Permutation_in y PH). subst H0. apply in_map_iff. exists y. split; [now apply unmark_eta|].
          apply filter_In. split; [exact HyH|now rewrite Emk].
      + intros y Hy. apply (Permutation_in y (Permutation_sym PH)) in Hy. subst H0. apply in_map_iff in Hy.
        destruct Hy as (z & <- & _). reflexivity.
    - (* migrate by decreasing k *)
      assert (HGc : G (copy_as Item Q g false (un u))).
      { unfold copy_as. split; [exact HM|]. split; [exact Hmb|]. split; [exact Hpos|].
        destruct Hmode as [(HR0 & Hh & Hn' & Ht)|(Hr & Hhr & Htot & Hhp & HH & Hn')].
        - left. unfold hh in *. cbn [vR vtot vH vk vn]. repeat split; try assumption. lia.
        - right. unfold VarOptProofs.Est, hh, rr in *. cbn [vR vtot vH vk vn]. repeat split; try assumption. lia. }
      assert (Hokc : mk_ok (copy_as Item Q g false (un u))) by (intros Hg'; unfold copy_as; cbn [vmarks vH]; apply Hok; exact Hgad).
      assert (Hmt : exists res c', Qmigrate Item ditem cu (copy_as Item Q g false (un u)) c = Some (res, c')
                                    /\ (forall y, kept (copy_as Item Q g false (un u)) y -> kept res y)).
      { apply (migrate_total Item ditem cu _ c HGc Hokc).
        - unfold copy_as. cbn [vgad]. exact Hgad.
        - unfold copy_as. cbn [vmarks]. exact Ez.
        - unfold copy_as, hh. cbn [vR vH]. intros [HR0 H1]. exfalso.
          destruct (Hwarm HR0) as [Em _].
          assert (Ec : cntm (vH g) = vmarks g) by (symmetry; exact (Hok Hgad)).
          destruct (vH g) as [|y [|? ?]] eqn:EH; try discriminate.
          assert (Hy : s_mark y = true).
          { unfold VarOptMarks.cntm in Ec. cbn in Ec. destruct (s_mark y); [reflexivity|cbn in Ec; lia]. }
          assert (Em1 : vmarks g = 1%nat) by (unfold VarOptMarks.cntm in Ec; cbn in Ec; rewrite Hy in Ec; cbn in Ec; lia).
          assert (Ed : uotd u = 1%nat) by (assert (uotd u <> 0%nat) by (intros X; apply Hiff in X; lia); lia).
          assert (Cr : (rr g =? 0)%nat = true) by (unfold rr; now rewrite HR0).
          assert (Cl : exists_unmarked_lighter Item Q Qltb g (a4 u) = false).
          { unfold exists_unmarked_lighter. destruct (a4 u); [|reflexivity]. rewrite EH. cbn [existsb]. rewrite Hy. cbn [negb]. now rewrite andb_false_r. }
          rewrite Cr, Em1, Ed, Cl in C. cbn in C. discriminate. }
      destruct Hmt as (res & c' & Er & Hkr). fold (VarOptUnion.Qmigrate Item ditem cu (copy_as Item Q g false (un u)) c). rewrite Er.
      exists res, c'. split; [reflexivity|]. split; [intros y Hy; apply Hkr; exact (HK y Hy)|].
      destruct (migrate_keeps Item ditem cu _ c res c' HGc Er) as [_ U]. apply U; [exact Hokc|exact Hgad].
  Qed.

  (* ---------------- the heavy-item clause for every union history ---------------- *)
  (* the sketches given since the last reset, with their inputs *)
  Fixpoint uupds (acc : list (vo * list (Item * Q))) (ops : list (uop Item)) : list (vo * list (Item * Q)) :=
    match ops with
    | [] => acc
    | UUpdate _ sk A :: t => uupds (acc ++ [(sk, A)]) t
    | URoundTrip _ :: t => uupds acc t
    | UReset _ :: t => uupds [] t
    end.

  Lemma uupds_slots : forall ops accS accU,
    (forall sk A, In (sk, A) accU -> incl (sample_slots sk) accS) ->
    forall sk A, In (sk, A) (uupds accU ops) -> incl (sample_slots sk) (uslots accS ops).
  Proof.
    induction ops as [|o t IH]; intros accS accU H0 sk A Hin; [now apply (H0 sk A)|].
    destruct o as [sk' A'| |]; cbn [uupds uslots] in *.
    - apply (IH (accS ++ sample_slots sk') (accU ++ [(sk', A')])) with (A := A); [|exact Hin].
      intros s1 A1 H1. apply in_app_or in H1. destruct H1 as [H1|[H1|[]]].
      + apply incl_appl. now apply (H0 s1 A1).
      + injection H1 as <- <-. apply incl_appr, incl_refl.
    - now apply (IH accS accU H0 sk A).
    - apply (IH [] []) with (A := A); [intros ? ? []|exact Hin].
  Qed.

  Lemma uupds_valid : forall ops accU, (forall sk A, In (sk, A) accU -> exists k, Inv k sk A) -> valid_uops Item ditem ops ->
    forall sk A, In (sk, A) (uupds accU ops) -> exists k, Inv k sk A.
  Proof.
    induction ops as [|o t IH]; intros accU H0 Hv sk A Hin; [now apply H0|].
    apply Forall_cons_iff in Hv. destruct Hv as [Ho Hv]. destruct o as [sk' A'| |]; cbn [uupds] in *.
    - apply (IH (accU ++ [(sk', A')])); [|exact Hv|exact Hin].
      intros s1 A1 H1. apply in_app_or in H1. destruct H1 as [H1|[H1|[]]]; [now apply H0|injection H1 as <- <-; exact Ho].
    - now apply (IH accU H0 Hv).
    - apply (IH []); [intros ? ? []|exact Hv|exact Hin].
  Qed.

  Lemma uupds_inputs : forall ops accU accI,
    (forall p, In p accI -> exists sk A, In (sk, A) accU /\ In p A) ->
    forall p, In p (uinputs Item accI ops) -> exists sk A, In (sk, A) (uupds accU ops) /\ In p A.
  Proof.
    induction ops as [|o t IH]; intros accU accI H0 p Hp; [now apply H0|].
    destruct o as [sk' A'| |]; cbn [uupds uinputs] in *.
    - apply (IH (accU ++ [(sk', A')]) (accI ++ A')); [|exact Hp].
      intros q Hq. apply in_app_or in Hq. destruct Hq as [Hq|Hq].
      + destruct (H0 q Hq) as (s1 & A1 & I1 & I2). exists s1, A1. split; [apply in_or_app; now left|exact I2].
      + exists sk', A'. split; [apply in_or_app; right; now left|exact Hq].
    - now apply (IH accU accI H0).
    - apply (IH [] []); [intros ? []|exact Hp].
  Qed.

  Theorem union_history_heavy max_k ops c c2 a4 : (1 <= max_k)%nat -> valid_uops Item ditem ops ->
    exists res c3, Qresult_gen a4 (fst (fst (urun Item ditem cu (Quempty Item max_k) ops c))) c2 = Some (res, c3) /\
      (* the result's tau is at least the tau of every estimation-mode sketch given since the last reset *)
      (forall sk A, In (sk, A) (uupds [] ops) -> (1 <= rr sk)%nat -> (1 <= rr res)%nat /\ Qtau sk <= Qtau res) /\
      (* every input heavier than the result's tau is in the result's H region with its exact weight *)
      (forall x w, In (x, w) (uinputs Item [] ops) -> (rr res = 0%nat \/ Qtau res < w) -> In (x, w) (pairs_of (vH res))).
  Proof.
    intros Hk Hv.
    destruct (urun_spec Item ditem cu ops (Quempty Item max_k) 0 0 c (uempty_UInv Item ditem max_k Hk) Hv) as (u & c1 & E & HU & _).
    pose proof (urun_TI Item ditem cu ops (Quempty Item max_k) 0 0 c 0%nat 0 (uempty_UInv Item ditem max_k Hk) Hv (empty_TI Item max_k)) as HT.
    pose proof (urun_HInv ops (Quempty Item max_k) 0 0 c [] (uempty_UInv Item ditem max_k Hk) Hv (empty_HInv max_k)) as HH.
    rewrite E in *. cbn [fst] in HT, HH |- *.
    destruct (get_result_kept a4 u _ _ _ _ _ c2 HU HT HH) as (res & c3 & Er & HK & HUm).
    exists res, c3. split; [exact Er|].
    assert (Htau : forall sk A, In (sk, A) (uupds [] ops) -> (1 <= rr sk)%nat -> (1 <= rr res)%nat /\ Qtau sk <= Qtau res).
    { intros sk A Hin Hr.
      destruct (uupds_valid ops [] ltac:(intros ? ? []) Hv sk A Hin) as (k & HI).
      pose proof (uupds_slots ops [] [] ltac:(intros ? ? []) sk A Hin) as Hsl.
      (* a marked sample of sk *)
      assert (Hex : exists y, In y (sample_slots sk) /\ s_mark y = true /\ s_wt y == Qtau sk).
      { unfold rr in Hr. destruct (vR sk) as [|x t] eqn:ER; [cbn in Hr; lia|].
        assert (Hne : exists p, In p (r_samples Item Q Qplus Qminus (vR sk) (get_tau Item Q Qdiv inject_Z sk) (vtot sk) 0)).
        { rewrite ER. destruct t; cbn [r_samples]; eexists; now left. }
        destruct Hne as (p & Hp).
        assert (Hs : In (slot_of p) (sample_slots sk)).
        { unfold sample_slots, Qunion_samples, union_samples. apply in_map. apply in_or_app. now right. }
        destruct (sample_slot_cases sk k A _ HI Hs) as (_ & [(Hf & _)|(Hm & _ & Ew)]).
        - exfalso. pose proof (Inv_Est sk k A HI ltac:(unfold rr; rewrite ER; cbn; lia)) as (Hr' & _ & Htot & _).
          assert (Hq : 0 < qn (rr sk)) by (apply qn_pos; lia).
          assert (E0 : vtot sk - 0 == get_tau Item Q Qdiv inject_Z sk * qn (length (vR sk))) by (unfold get_tau, ofN; fold (rr sk) (qn (rr sk)); field; lra).
          destruct (r_samples_weights (vR sk) _ (vtot sk) 0 E0 p Hp) as [_ Em]. destruct p as [[? ?] ?]. cbn in *. congruence.
        - exists (slot_of p). split; [exact Hs|]. split; assumption. }
      destruct Hex as (y & Hy & Hm & Ew).
      destruct (HK y (Hsl y Hy)) as [HyH|(Hr' & Hb)]; [rewrite (HUm y HyH) in Hm; discriminate|].
      split; [exact Hr'|]. unfold VarOptTheorems.Qtau at 2. unfold get_tau, ofN. fold (qn (rr res)).
      apply Qle_shift_div_l; [apply qn_pos; lia|]. rewrite <- Ew. exact Hb. }
    split; [exact Htau|].
    intros x w Hin Hheavy.
    destruct (uupds_inputs ops [] [] ltac:(intros ? []) (x, w) Hin) as (sk & A & HinU & HinA).
    destruct (uupds_valid ops [] ltac:(intros ? ? []) Hv sk A HinU) as (k & HI).
    pose proof (uupds_slots ops [] [] ltac:(intros ? ? []) sk A HinU) as Hsl.
    destruct (inv_provenance Item ditem k sk A HI) as (LR & LD & P & _ & Hb).
    eapply Permutation_in in HinA; [|exact P]. apply in_app_or in HinA. destruct HinA as [HinH|HinL].
    - (* it was an H sample of its sketch: the unmarked slot (x, w) was handed to the gadget *)
      unfold VarOptProofs.pairs_of in HinH. apply in_map_iff in HinH. destruct HinH as (z & Ez & Hz).
      assert (Hs : In (mkslot x w false) (sample_slots sk)).
      { unfold sample_slots, Qunion_samples, union_samples. apply in_map_iff. exists (x, w, false). split; [reflexivity|].
        apply in_or_app. left. apply in_map_iff. exists z. split; [|exact Hz]. injection Ez as <- <-. reflexivity. }
      destruct (HK _ (Hsl _ Hs)) as [HyH|(Hr' & Hbd)].
      + unfold VarOptProofs.pairs_of. apply in_map_iff. exists (mkslot x w false). split; [reflexivity|exact HyH].
      + exfalso. cbn [s_wt] in Hbd. destruct Hheavy as [E0|Hlt]; [lia|].
        unfold VarOptTheorems.Qtau, get_tau, ofN in Hlt. fold (qn (rr res)) in Hlt.
        pose proof (qn_pos (rr res) ltac:(lia)) as Hq.
        assert (E1 : vtot res / qn (rr res) * qn (rr res) == vtot res) by (field; lra).
        assert (vtot res / qn (rr res) * qn (rr res) < w * qn (rr res)) by (apply Qmult_lt_compat_r; lra). lra.
    - (* it was light in its own sketch: w <= tau(sk) <= tau(res) *)
      exfalso. destruct (Hb _ HinL) as [Hr Hle]. cbn [snd] in Hle.
      destruct (Htau sk A HinU Hr) as [Hr' Ht]. destruct Hheavy as [E0|Hlt]; [lia|lra].
  Qed.
End QH.
