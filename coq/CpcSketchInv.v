(* CpcProofs.v — the CPC sketch model refines the coupon bit matrix (partial correctness: whenever the model
   returns [Some], i.e. whenever the C++ code neither throws nor runs into undefined behaviour). *)
From Coq Require Import ZArith NArith List Bool Lia.
From DS Require Import Word RunnerLib CpcDefs CpcTableProofs CpcBits.
Import ListNotations.
Local Open Scope N_scope.

Definition has (hist : list N) (r c : N) : bool := mem (rcp r c) hist.
Definition valid (l : N) (hist : list N) : Prop := forall x, In x hist -> x < 2 ^ (6 + l) /\ x <> EMPTY.
Definition bit (m : list N) (r c : N) : bool := N.testbit (nthN m r 0) c.

Definition in_win (s : sketch) (c : N) : bool :=
  match window s with [] => false | _ => (woff s <=? c) && (c <? woff s + 8) end.

(* the bit the representation assigns to (r, c): window bits inside the window, default pattern (ones before
   the window, zeros after) flipped by the surprising-value table outside *)
Definition bitF (s : sketch) (r c : N) : bool :=
  if in_win s c then N.testbit (nthN (window s) r 0) (c - woff s)
  else xorb (c <? woff s) (mem (rcp r c) (t_items (table s))).

Record Core (l : N) (s : sketch) (hist : list N) : Prop := {
  c_lgk : lgk s = l;
  c_tinv : TInv (table s);
  c_off56 : woff s <= 56;
  c_win : (window s = [] /\ woff s = 0) \/ length (window s) = N.to_nat (2 ^ l);
  c_bytes : forall r, is_byte (nthN (window s) r 0);
  c_fic : forall r c, r < 2 ^ l -> c < fic s -> has hist r c = true;
  c_ficle : fic s <= woff s;
  c_items : forall v, In v (t_items (table s)) -> v < 2 ^ (6 + l) /\ in_win s (N.land v 63) = false;
  c_bits : forall r c, r < 2 ^ l -> c < 64 -> has hist r c = bitF s r c;
  c_valid : valid l hist }.

Record Cnt (l : N) (s : sketch) (hist : list N) : Prop := {
  n_count : ncoup s = N.of_nat (length (distinct hist));
  n_sparse : window s = [] -> 32 * ncoup s < 3 * 2 ^ l;
  n_dense : window s <> [] -> 3 * 2 ^ l <= 32 * ncoup s;
  n_off : woff s = determine_correct_offset l (ncoup s) }.

Definition SInv (l : N) (s : sketch) (hist : list N) : Prop := Core l s hist /\ Cnt l s hist.

(** ** small facts *)
Lemma has_cons rc hist r c : has (rc :: hist) r c = (rcp r c =? rc) || has hist r c.
Proof. reflexivity. Qed.

Lemma distinct_nil hist : distinct hist = [] -> hist = [].
Proof.
  induction hist as [|x r IH]; auto. simpl. destruct (mem x r) eqn:E; [|discriminate].
  intros H. specialize (IH H). subst r. discriminate.
Qed.

Lemma distinct_cons_len rc hist :
  N.of_nat (length (distinct (rc :: hist))) = N.of_nat (length (distinct hist)) + (if mem rc hist then 0 else 1).
Proof. simpl. destruct (mem rc hist); simpl length; lia. Qed.

Lemma ones_bit n c : N.testbit (2 ^ n - 1) c = (c <? n).
Proof.
  replace (2 ^ n - 1) with (N.ones n) by (rewrite N.ones_equiv; lia).
  destruct (N.ltb_spec c n); [apply N.ones_spec_low|apply N.ones_spec_high]; auto.
Qed.

Lemma shiftl_bit b off c : N.testbit (N.shiftl b off) c = (off <=? c) && N.testbit b (c - off).
Proof.
  destruct (N.leb_spec off c); [apply N.shiftl_spec_high'|apply N.shiftl_spec_low]; auto.
Qed.

Lemma nth_repeat_lt {A} (x d : A) n : forall i, (i < n)%nat -> nth i (repeat x n) d = x.
Proof. induction n as [|n IH]; intros [|i] H; simpl; auto; try lia. apply IH. lia. Qed.

(** ** build_bit_matrix *)
Lemma xor_slot_length m v : length (xor_slot m v) = length m.
Proof. unfold xor_slot. destruct (v =? EMPTY); auto. apply updN_length. Qed.

Lemma xor_slot_bit m v r c : (N.to_nat r < length m)%nat -> c < 64 ->
  bit (xor_slot m v) r c = xorb (bit m r c) (negb (v =? EMPTY) && (v =? rcp r c)).
Proof.
  intros Hr Hc. unfold xor_slot, bit. destruct (v =? EMPTY); [now rewrite xorb_false_r|]. cbn [negb andb].
  destruct (N.eq_dec (N.shiftr v 6) r) as [E|E].
  - rewrite E, nthN_updN_eq by auto. rewrite N.lxor_spec, bit1_spec. f_equal.
    destruct (N.eqb_spec (N.land v 63) c) as [E2|E2]; destruct (N.eqb_spec v (rcp r c)) as [E3|E3]; auto; exfalso.
    + apply E3. apply rcp_eq_iff; auto.
    + apply E2. apply (rcp_eq_iff v r c Hc). exact E3.
  - rewrite nthN_updN_neq by auto.
    destruct (N.eqb_spec v (rcp r c)) as [E3|E3]; [|now rewrite xorb_false_r].
    exfalso. apply E. apply (rcp_eq_iff v r c Hc). exact E3.
Qed.

Lemma xor_slot_bit_high m v r c : 64 <= c -> bit (xor_slot m v) r c = bit m r c.
Proof.
  intros Hc. unfold xor_slot, bit. destruct (v =? EMPTY); auto.
  destruct (N.eq_dec (N.shiftr v 6) r) as [E|E].
  - destruct (Nat.lt_ge_cases (N.to_nat r) (length m)).
    + rewrite E, nthN_updN_eq by auto. rewrite N.lxor_spec, bit1_spec.
      pose proof (land63_lt v). destruct (N.eqb_spec (N.land v 63) c); [lia|apply xorb_false_r].
    + rewrite E. rewrite nthN_updN_oob by auto. reflexivity.
  - rewrite nthN_updN_neq by auto. reflexivity.
Qed.

Lemma fold_xor_length slots : forall m, length (fold_left xor_slot slots m) = length m.
Proof. induction slots as [|v t IH]; intros m; simpl; auto. rewrite IH. apply xor_slot_length. Qed.

Definition filt (l : list N) : list N := filter (fun v => negb (v =? EMPTY)) l.

Lemma fold_xor_bit slots : forall m r c, (N.to_nat r < length m)%nat -> c < 64 -> NoDup (filt slots) ->
  bit (fold_left xor_slot slots m) r c = xorb (bit m r c) (mem (rcp r c) (filt slots)).
Proof.
  induction slots as [|v t IH]; intros m r c Hr Hc Hnd; simpl; [now rewrite xorb_false_r|].
  unfold filt in *. simpl in Hnd |- *.
  destruct (N.eqb_spec v EMPTY) as [E|E]; simpl in Hnd |- *.
  - rewrite IH by (auto; rewrite xor_slot_length; auto). rewrite xor_slot_bit by auto.
    destruct (N.eqb_spec v EMPTY); [|contradiction]. simpl. now rewrite xorb_false_r.
  - inversion Hnd; subst. rewrite IH by (auto; rewrite xor_slot_length; auto). rewrite xor_slot_bit by auto.
    destruct (N.eqb_spec v EMPTY); [contradiction|]. simpl.
    rewrite (N.eqb_sym (rcp r c) v).
    destruct (N.eqb_spec v (rcp r c)) as [E2|E2]; simpl.
    + subst v. apply mem_false in H1. rewrite H1. now rewrite xorb_false_r.
    + now rewrite xorb_false_r.
Qed.

Lemma fold_xor_bit_high slots : forall m r c, 64 <= c -> bit (fold_left xor_slot slots m) r c = bit m r c.
Proof.
  induction slots as [|v t IH]; intros m r c Hc; simpl; auto. rewrite IH by auto. now apply xor_slot_bit_high.
Qed.

Lemma or_window_length win off : forall m, length (or_window m win off) = length m.
Proof. induction win as [|b w IH]; intros [|x m]; simpl; auto. Qed.

Lemma or_window_nth win off : forall m n, (n < length m)%nat -> length win = length m ->
  nth n (or_window m win off) 0 = N.lor (nth n m 0) (N.shiftl (nth n win 0) off).
Proof.
  induction win as [|b w IH]; intros [|x m] n Hn Hl; simpl in *; try lia.
  destruct n as [|n]; auto. apply IH; lia.
Qed.

Lemma is_byte_shift_high b off c : is_byte b -> off + 8 <= c -> N.testbit (N.shiftl b off) c = false.
Proof. intros H Hc. rewrite shiftl_bit. rewrite H by lia. apply andb_false_r. Qed.

Lemma bbm_bits l s hist m : Core l s hist -> ncoup s = N.of_nat (length (distinct hist)) ->
  (ncoup s = 0 -> woff s = 0) -> build_bit_matrix s = Some m ->
  length m = N.to_nat (2 ^ l) /\
  (forall r c, r < 2 ^ l -> c < 64 -> bit m r c = has hist r c) /\
  (forall r c, 64 <= c -> bit m r c = false).
Proof.
  intros C n_count0 Hz Hb. destruct C. unfold build_bit_matrix in Hb. rewrite c_lgk0 in Hb.
  destruct (N.ltb_spec 56 (woff s)); [discriminate|].
  destruct (N.eqb_spec (ncoup s) 0) as [E0|E0].
  - inversion Hb; subst m; clear Hb.
    assert (Hh : hist = []).
    { apply distinct_nil. rewrite E0 in n_count0. destruct (distinct hist); auto. simpl in n_count0. lia. }
    assert (Hw : woff s = 0) by auto.
    rewrite Hw. simpl (2 ^ 0 - 1). split; [apply repeat_length|]. subst hist. split.
    + intros r c Hr Hc. unfold bit. rewrite nthN_repeat by lia. rewrite N.bits_0. reflexivity.
    + intros r c Hc. unfold bit. destruct (Nat.lt_ge_cases (N.to_nat r) (N.to_nat (2 ^ l))).
      * rewrite nthN_repeat by lia. apply N.bits_0.
      * rewrite nthN_oob by (rewrite repeat_length; lia). apply N.bits_0.
  - inversion Hb; subst m; clear Hb.
    set (m0 := repeat (2 ^ woff s - 1) (N.to_nat (2 ^ l))).
    set (m1 := match window s with [] => m0 | _ :: _ => or_window m0 (window s) (woff s) end).
    assert (Hl1 : length m1 = N.to_nat (2 ^ l)).
    { unfold m1. destruct (window s); [|rewrite or_window_length]; apply repeat_length. }
    assert (Hm1 : forall r c, (N.to_nat r < N.to_nat (2 ^ l))%nat ->
              bit m1 r c = (c <? woff s) ||
                 (match window s with [] => false | _ => true end && N.testbit (N.shiftl (nthN (window s) r 0) (woff s)) c)).
    { intros r c Hr. unfold m1, bit. destruct (window s) as [|b0 w0] eqn:Ew.
      - unfold m0. rewrite nthN_repeat by auto. rewrite ones_bit. simpl. now rewrite orb_false_r.
      - destruct c_win0 as [[Hc _]|Hlen]; [discriminate|].
        unfold nthN at 1. rewrite or_window_nth by (unfold m0; rewrite repeat_length; auto).
        rewrite N.lor_spec. unfold m0. rewrite nth_repeat_lt by auto. rewrite ones_bit. reflexivity. }
    split; [rewrite fold_xor_length; exact Hl1|]. split.
    + intros r c Hr Hc. destruct c_tinv0 as (_ & Hnd & _).
      rewrite fold_xor_bit by (auto; rewrite Hl1; lia). rewrite Hm1 by lia.
      rewrite c_bits0 by auto. unfold bitF, in_win. change (filt (t_slots (table s))) with (t_items (table s)).
      destruct (window s) as [|b0 w0] eqn:Ew.
      * simpl. rewrite orb_false_r. reflexivity.
      * simpl andb. rewrite <- Ew in *. rewrite shiftl_bit.
        destruct (N.leb_spec (woff s) c); simpl.
        -- destruct (N.ltb_spec c (woff s)); [lia|]. simpl.
           destruct (N.ltb_spec c (woff s + 8)).
           ++ destruct (mem (rcp r c) (t_items (table s))) eqn:Em; [|now rewrite xorb_false_r].
              exfalso. apply mem_In in Em. destruct (c_items0 _ Em) as [_ Hin].
              rewrite rcp_col in Hin by auto. unfold in_win in Hin.
              destruct (window s); [discriminate|].
              destruct (N.leb_spec (woff s) c); [|lia]. destruct (N.ltb_spec c (woff s + 8)); [discriminate|lia].
           ++ rewrite (c_bytes0 r) by lia. reflexivity.
        -- destruct (N.ltb_spec c (woff s)); [|lia]. reflexivity.
    + intros r c Hc. rewrite fold_xor_bit_high by auto.
      destruct (Nat.lt_ge_cases (N.to_nat r) (N.to_nat (2 ^ l))).
      * rewrite Hm1 by auto. destruct (N.ltb_spec c (woff s)); [lia|]. simpl.
        destruct (window s); auto. simpl. apply is_byte_shift_high; [apply c_bytes0|lia].
      * unfold bit. rewrite nthN_oob by lia. apply N.bits_0.
Qed.

(** ** one more coupon: generic re-establishment of [Core] *)
Lemma in_win_same s s' c : woff s' = woff s ->
  ((window s' = [] /\ window s = []) \/ (window s' <> [] /\ window s <> [])) -> in_win s' c = in_win s c.
Proof.
  intros Ho Hw. unfold in_win. rewrite Ho. destruct Hw as [[-> ->]|[H1 H2]]; auto.
  destruct (window s'); [congruence|]. destruct (window s); [congruence|]. reflexivity.
Qed.

Lemma pow2_pos l : 0 < 2 ^ l.
Proof. apply N.neq_0_lt_0, N.pow_nonzero. lia. Qed.

Lemma len_nonnil (w : list N) l : length w = N.to_nat (2 ^ l) -> w <> [].
Proof. intros H E. subst w. simpl in H. pose proof (pow2_pos l). lia. Qed.

Lemma core_set_bit l s hist s' rc :
  Core l s hist -> rc < 2 ^ (6 + l) -> rc <> EMPTY ->
  lgk s' = l -> TInv (table s') -> woff s' = woff s -> fic s' = fic s ->
  ((window s' = [] /\ window s = []) \/ (length (window s') = N.to_nat (2 ^ l) /\ window s <> [])) ->
  (forall r, is_byte (nthN (window s') r 0)) ->
  (forall v, In v (t_items (table s')) -> v < 2 ^ (6 + l) /\ in_win s' (N.land v 63) = false) ->
  (forall r c, r < 2 ^ l -> c < 64 -> bitF s' r c = (rcp r c =? rc) || bitF s r c) ->
  Core l s' (rc :: hist).
Proof.
  intros C Hrc Hne Hl Ht Ho Hf Hw Hb Hi Hbits. destruct C. constructor; auto.
  - now rewrite Ho.
  - destruct Hw as [[H1 H2]|[H1 H2]]; [left|right]; auto. split; auto. rewrite Ho.
    destruct c_win0 as [[_ ?]|Hlen]; auto. apply len_nonnil in Hlen. contradiction.
  - intros r c Hr Hc. rewrite has_cons. rewrite Hf in Hc. rewrite c_fic0 by auto. apply orb_true_r.
  - now rewrite Hf, Ho.
  - intros r c Hr Hc. rewrite has_cons, Hbits by auto. now rewrite c_bits0.
  - intros x [<-|Hx]; auto.
Qed.

Lemma count_cons (s : sketch) hist (s' : sketch) rc :
  ncoup s = N.of_nat (length (distinct hist)) ->
  ncoup s' = ncoup s + (if mem rc hist then 0 else 1) ->
  ncoup s' = N.of_nat (length (distinct (rc :: hist))).
Proof. intros H1 H2. rewrite distinct_cons_len. lia. Qed.

(* the pair (row, col) of a valid rc *)
Lemma rc_parts l rc : rc < 2 ^ (6 + l) ->
  rc = rcp (N.shiftr rc 6) (N.land rc 63) /\ N.shiftr rc 6 < 2 ^ l /\ N.land rc 63 < 64.
Proof. intros H. split; [apply rcp_decode|]. split; [now apply row_lt|apply land63_lt]. Qed.

Lemma has_rc hist rc : has hist (N.shiftr rc 6) (N.land rc 63) = mem rc hist.
Proof. unfold has. now rewrite <- rcp_decode. Qed.

(** ** determine_correct_offset arithmetic *)
Lemma dco_small l c : 8 * c < 19 * 2 ^ l -> determine_correct_offset l c = 0.
Proof. intros H. unfold determine_correct_offset. destruct (N.ltb_spec (8 * c) (19 * 2 ^ l)); auto. lia. Qed.

Lemma dco_val l c : 19 * 2 ^ l <= 8 * c -> (8 * c - 19 * 2 ^ l) / (8 * 2 ^ l) < 256 ->
  determine_correct_offset l c = (8 * c - 19 * 2 ^ l) / (8 * 2 ^ l).
Proof.
  intros H Hq. unfold determine_correct_offset. destruct (N.ltb_spec (8 * c) (19 * 2 ^ l)); [lia|].
  rewrite N.shiftr_div_pow2. replace (2 ^ (l + 3)) with (8 * 2 ^ l) by (rewrite N.pow_add_r; simpl (2 ^ 3); lia).
  change 255 with (N.ones 8). rewrite N.land_ones. apply N.mod_small. exact Hq.
Qed.

Lemma dco_step l c o : o = determine_correct_offset l c -> o <= 56 ->
  8 * c < (27 + 8 * o) * 2 ^ l -> 8 * (c + 1) < (27 + 8 * o) * 2 ^ l ->
  determine_correct_offset l (c + 1) = o.
Proof.
  intros Ho H56 Hpre Hpost. pose proof (pow2_pos l) as Hk. set (k := 2 ^ l) in *.
  assert (Hk8 : 8 * k <> 0) by lia.
  assert (E1 : (27 + 8 * o) * k = 27 * k + 8 * (o * k)) by ring. rewrite E1 in Hpre, Hpost.
  assert (E2 : 8 * k * (o + 1) = 8 * (o * k) + 8 * k) by ring.
  destruct (N.lt_ge_cases (8 * (c + 1)) (19 * k)) as [Hs|Hs].
  - rewrite dco_small by auto. rewrite Ho. symmetry. apply dco_small. fold k. lia.
  - assert (Hq' : (8 * (c + 1) - 19 * k) / (8 * k) < o + 1).
    { apply N.div_lt_upper_bound; auto. rewrite E2. lia. }
    rewrite dco_val by (fold k; auto; lia).
    fold k. destruct (N.lt_ge_cases (8 * c) (19 * k)) as [Hc|Hc].
    + rewrite dco_small in Ho by auto. subst o.
      set (q' := (8 * (c + 1) - 19 * k) / (8 * k)) in *. clearbody q'. lia.
    + assert (Hq : (8 * c - 19 * k) / (8 * k) < o + 1).
      { apply N.div_lt_upper_bound; auto. rewrite E2. lia. }
      rewrite dco_val in Ho by (fold k; auto; lia). fold k in Ho.
      assert (Hm : (8 * c - 19 * k) / (8 * k) <= (8 * (c + 1) - 19 * k) / (8 * k)).
      { apply N.div_le_mono; auto. lia. }
      set (q' := (8 * (c + 1) - 19 * k) / (8 * k)) in *. clearbody q'.
      set (q := (8 * c - 19 * k) / (8 * k)) in *. clearbody q. lia.
Qed.

(** ** promote_sparse_to_windowed *)
Lemma fold_promote_none slots : fold_left promote_slot slots None = None.
Proof. induction slots; simpl; auto. Qed.

Lemma In_filt y l : In y (filt l) <-> In y l /\ y <> EMPTY.
Proof.
  unfold filt. rewrite filter_In. split; intros [H1 H2]; split; auto.
  - intros ->. discriminate.
  - destruct (N.eqb_spec y EMPTY); auto.
Qed.

Lemma promote_fold l slots : forall win nt win' nt',
  fold_left promote_slot slots (Some (win, nt)) = Some (win', nt') ->
  TInv nt -> length win = N.to_nat (2 ^ l) -> (forall r, is_byte (nthN win r 0)) ->
  (forall v, In v (filt slots) -> N.shiftr v 6 < 2 ^ l) ->
  TInv nt' /\ length win' = N.to_nat (2 ^ l) /\ (forall r, is_byte (nthN win' r 0)) /\
  (forall y, In y (t_items nt') <-> In y (t_items nt) \/ (In y (filt slots) /\ 8 <= N.land y 63)) /\
  (forall r c, r < 2 ^ l -> c < 8 ->
     N.testbit (nthN win' r 0) c = N.testbit (nthN win r 0) c || mem (rcp r c) (filt slots)).
Proof.
  induction slots as [|v t IH]; intros win nt win' nt' H Ht Hl Hb Hrow.
  - simpl in H. inversion H; subst. split; [|split; [|split; [|split]]]; auto.
    + intros y. split; auto. intros [?|[[] _]]; auto.
    + intros r c _ _. simpl. now rewrite orb_false_r.
  - cbn [fold_left] in H. unfold promote_slot at 2 in H.
    destruct (N.eqb_spec v EMPTY) as [E|E].
    + destruct (IH _ _ _ _ H Ht Hl Hb) as (A & B & C & D & F).
      { intros x Hx. apply Hrow. unfold filt in *. simpl. destruct (N.eqb_spec v EMPTY); [auto|contradiction]. }
      assert (Ef : filt (v :: t) = filt t) by (unfold filt; simpl; destruct (N.eqb_spec v EMPTY); [auto|contradiction]).
      rewrite Ef. split; [|split; [|split; [|split]]]; auto.
    + assert (Ef : filt (v :: t) = v :: filt t) by (unfold filt; simpl; destruct (N.eqb_spec v EMPTY); [contradiction|auto]).
      assert (Hvr : N.shiftr v 6 < 2 ^ l) by (apply Hrow; rewrite Ef; simpl; auto).
      destruct (N.ltb_spec (N.land v 63) 8) as [Hc8|Hc8].
      * destruct (IH _ _ _ _ H Ht) as (A & B & C & D & F).
        { rewrite updN_length. exact Hl. }
        { intros r. destruct (N.eq_dec (N.shiftr v 6) r) as [<-|Hne].
          - rewrite nthN_updN_eq by lia. apply is_byte_lor_bit; auto.
          - rewrite nthN_updN_neq by auto. apply Hb. }
        { intros x Hx. apply Hrow. rewrite Ef. simpl. auto. }
        rewrite Ef. split; [|split; [|split; [|split]]]; auto.
        -- intros y. split.
           ++ intros Hy. apply D in Hy. destruct Hy as [?|[? ?]]; auto. right. split; simpl; auto.
           ++ intros [?|[[<-|Hy] Hge]]; apply D; auto. lia.
        -- intros r c Hr Hc. rewrite F by auto. rewrite mem_cons.
           destruct (N.eq_dec (N.shiftr v 6) r) as [<-|Hne].
           ++ rewrite nthN_updN_eq by lia. rewrite N.lor_spec, bit1_spec.
              rewrite <- orb_assoc. f_equal. f_equal.
              destruct (N.eqb_spec (N.land v 63) c) as [E2|E2]; destruct (N.eqb_spec (rcp (N.shiftr v 6) c) v) as [E3|E3]; auto; exfalso.
              ** apply E3. subst c. symmetry. apply rcp_decode.
              ** apply E2. symmetry in E3. apply rcp_eq_iff in E3; [tauto|lia].
           ++ rewrite nthN_updN_neq by auto. f_equal.
              destruct (N.eqb_spec (rcp r c) v) as [E3|E3]; auto. exfalso. apply Hne.
              symmetry in E3. apply rcp_eq_iff in E3; [tauto|lia].
      * destruct (maybe_insert nt v) as [[nt1 nv]|] eqn:Emi; [|rewrite fold_promote_none in H; discriminate].
        destruct nv; [|rewrite fold_promote_none in H; discriminate].
        destruct (maybe_insert_spec _ _ _ _ Ht E Emi) as (Ht1 & _ & _ & Hit).
        destruct (IH _ _ _ _ H Ht1 Hl Hb) as (A & B & C & D & F).
        { intros x Hx. apply Hrow. rewrite Ef. simpl. auto. }
        rewrite Ef. split; [|split; [|split; [|split]]]; auto.
        -- intros y. split.
           ++ intros Hy. apply D in Hy. destruct Hy as [Hy|[? ?]].
              ** apply Hit in Hy. destruct Hy as [->|?]; auto. right. split; simpl; auto.
              ** right. split; simpl; auto.
           ++ intros [?|[[<-|Hy] Hge]]; apply D.
              ** left. apply Hit. auto.
              ** left. apply Hit. auto.
              ** right. auto.
        -- intros r c Hr Hc. rewrite F by auto. rewrite mem_cons. f_equal.
           destruct (N.eqb_spec (rcp r c) v) as [E3|E3]; auto. exfalso.
           symmetry in E3. apply rcp_eq_iff in E3; [|lia]. lia.
Qed.

Lemma mem_iff x l l' : (In x l <-> In x l') -> mem x l = mem x l'.
Proof.
  intros H. destruct (mem x l) eqn:E.
  - symmetry. apply mem_In. apply H. now apply mem_In.
  - symmetry. apply mem_false. intros Hin. apply H in Hin. apply mem_In in Hin. congruence.
Qed.

Lemma sparse_woff l s hist : Core l s hist -> window s = [] -> woff s = 0.
Proof.
  intros C Hw. destruct (c_win _ _ _ C) as [[_ ?]|Hlen]; auto.
  apply len_nonnil in Hlen. contradiction.
Qed.

Lemma in_win_sparse s c : window s = [] -> in_win s c = false.
Proof. intros H. unfold in_win. now rewrite H. Qed.

Lemma bitF_sparse l s hist r c : Core l s hist -> window s = [] ->
  bitF s r c = mem (rcp r c) (t_items (table s)).
Proof.
  intros C Hw. unfold bitF. rewrite in_win_sparse by auto. rewrite (sparse_woff _ _ _ C Hw).
  destruct (N.ltb_spec c 0); [lia|]. apply xorb_false_l.
Qed.

Lemma promote_spec l s hist s' : Core l s hist -> window s = [] -> promote s = Some s' ->
  Core l s' hist /\ window s' <> [] /\ ncoup s' = ncoup s /\ woff s' = woff s.
Proof.
  intros C Hw H. pose proof (sparse_woff _ _ _ C Hw) as Hw0. pose proof (bitF_sparse l s hist) as HbF.
  destruct C. unfold promote in H. rewrite c_lgk0 in H.
  destruct (negb _); [discriminate|]. destruct (negb (woff s =? 0)); [discriminate|].
  destruct (fold_left promote_slot _ _) as [[win nt]|] eqn:Ef; [|discriminate].
  inversion H; subst s'; clear H. cbn [window ncoup woff].
  apply (promote_fold l) in Ef.
  - destruct Ef as (A & B & Cb & D & F).
    split; [|split; [apply (len_nonnil _ l B)|split; reflexivity]].
    constructor; cbn [lgk table woff window fic]; auto.
    + intros v Hv. apply D in Hv. rewrite t_items_new in Hv. destruct Hv as [[]|[Hv Hge]].
      split; [apply c_items0; exact Hv|].
      unfold in_win. cbn [window woff]. destruct win; auto. rewrite Hw0.
      destruct (N.ltb_spec (N.land v 63) (0 + 8)); [lia|]. apply andb_false_r.
    + intros r c Hr Hc. rewrite c_bits0 by auto. rewrite HbF by (auto; constructor; auto).
      unfold bitF, in_win. cbn [window woff table]. rewrite Hw0.
      destruct win as [|b0 w0] eqn:Ewin; [simpl in B; pose proof (pow2_pos l); lia|]. rewrite <- Ewin in *.
      destruct (N.leb_spec 0 c); [|lia]. cbn [andb]. rewrite N.sub_0_r.
      destruct (N.ltb_spec c (0 + 8)).
      * rewrite F by (auto; lia).
        destruct (Nat.lt_ge_cases (N.to_nat r) (N.to_nat (2 ^ l))); [|lia].
        rewrite nthN_repeat by auto. rewrite N.bits_0. reflexivity.
      * destruct (N.ltb_spec c 0); [lia|]. rewrite xorb_false_l.
        apply mem_iff. rewrite D, t_items_new. split.
        -- intros Hy. right. split; [exact Hy|]. rewrite rcp_col by auto. lia.
        -- intros [[]|[? _]]; auto.
  - apply TInv_new.
  - apply repeat_length.
  - intros r. destruct (Nat.lt_ge_cases (N.to_nat r) (N.to_nat (2 ^ l))).
    + rewrite nthN_repeat by auto. apply is_byte_0.
    + rewrite nthN_oob by (rewrite repeat_length; lia). apply is_byte_0.
  - intros v Hv. apply row_lt. apply c_items0. exact Hv.
Qed.

Lemma mem_add x a l l' : (forall y, In y l' <-> y = a \/ In y l) -> mem x l' = (x =? a) || mem x l.
Proof.
  intros H. destruct (N.eqb_spec x a) as [->|Hne]; simpl.
  - apply mem_In. apply H. auto.
  - apply mem_iff. rewrite H. split; [intros [?|?]; [contradiction|auto]|auto].
Qed.

Lemma mem_del x a l l' : (forall y, In y l' <-> y <> a /\ In y l) -> mem x l' = negb (x =? a) && mem x l.
Proof.
  intros H. destruct (N.eqb_spec x a) as [->|Hne]; simpl.
  - apply mem_false. intros Hin. apply H in Hin. tauto.
  - apply mem_iff. rewrite H. tauto.
Qed.

Lemma mem_same x l l' : (forall y, In y l' <-> In y l) -> mem x l' = mem x l.
Proof. intros H. apply mem_iff. apply H. Qed.

Lemma valid_cons l rc hist : valid l hist -> rc < 2 ^ (6 + l) -> rc <> EMPTY -> valid l (rc :: hist).
Proof. intros H H1 H2 x [<-|Hx]; auto. Qed.

(** ** update_sparse *)
Lemma step_sparse l s hist rc s' : SInv l s hist -> window s = [] -> rc < 2 ^ (6 + l) -> rc <> EMPTY ->
  update_sparse s rc = Some s' -> SInv l s' (rc :: hist).
Proof.
  intros [C Cn] Hw Hrc Hne H.
  pose proof (sparse_woff _ _ _ C Hw) as Hw0.
  destruct (rc_parts l rc Hrc) as (Hdec & Hrow & Hcol).
  assert (Hmem : mem rc hist = mem rc (t_items (table s))).
  { rewrite <- has_rc. rewrite (c_bits _ _ _ C) by auto. rewrite (bitF_sparse l s hist) by auto. now rewrite <- Hdec. }
  pose proof (pow2_pos l) as Hk.
  unfold update_sparse in H. rewrite (c_lgk _ _ _ C) in H.
  destruct (N.leb_spec (3 * 2 ^ l) (32 * ncoup s)) as [|Hpre]; [discriminate|].
  destruct (maybe_insert (table s) rc) as [[t' nv]|] eqn:Emi; [|discriminate].
  destruct (maybe_insert_spec _ _ _ _ (c_tinv _ _ _ C) Hne Emi) as (Ht' & _ & Hnv & Hit).
  assert (HbF : forall s1, window s1 = [] -> woff s1 = 0 -> forall r c,
             bitF s1 r c = mem (rcp r c) (t_items (table s1))).
  { intros s1 H1 H2 r c. unfold bitF. rewrite in_win_sparse by auto. rewrite H2.
    destruct (N.ltb_spec c 0); [lia|]. apply xorb_false_l. }
  destruct nv.
  - (* novel *)
    assert (Hnin : mem rc hist = false).
    { rewrite Hmem. apply mem_false. apply Hnv. reflexivity. }
    set (s1 := mkS l (seed s) (merged s) (ncoup s + 1) t' (window s) (woff s) (fic s)) in *.
    assert (C1 : Core l s1 (rc :: hist)).
    { apply (core_set_bit l s hist s1 rc); auto; try reflexivity.
      - intros r. apply (c_bytes _ _ _ C).
      - intros v Hv. cbn [table s1] in Hv. apply Hit in Hv. split.
        + destruct Hv as [->|Hv]; auto. apply (c_items _ _ _ C). exact Hv.
        + apply in_win_sparse. exact Hw.
      - intros r c Hr Hc. rewrite (HbF s1), (HbF s) by auto. cbn [table s1]. apply mem_add. exact Hit. }
    assert (Hcnt : ncoup s1 = N.of_nat (length (distinct (rc :: hist)))).
    { apply (count_cons s hist s1 rc); [apply (n_count _ _ _ Cn)|]. rewrite Hnin. reflexivity. }
    assert (Hoff : woff s1 = determine_correct_offset l (ncoup s1)).
    { cbn [woff ncoup s1]. rewrite Hw0. symmetry. apply dco_small. lia. }
    destruct (N.leb_spec (3 * 2 ^ l) (32 * ncoup s1)) as [Hpost|Hpost].
    + destruct (promote_spec l s1 _ s' C1 Hw H) as (C2 & Hwn & Hn & Ho).
      split; auto. constructor.
      * rewrite Hn. exact Hcnt.
      * intros E. contradiction.
      * intros _. rewrite Hn. exact Hpost.
      * rewrite Ho, Hn. exact Hoff.
    + inversion H; subst s'. split; auto. constructor; auto.
      intros E. cbn [window s1] in E. contradiction.
  - (* already present *)
    assert (Hin : In rc (t_items (table s))).
    { destruct (mem rc (t_items (table s))) eqn:E; [now apply mem_In|].
      apply mem_false in E. apply Hnv in E. discriminate. }
    assert (Hyes : mem rc hist = true) by (rewrite Hmem; now apply mem_In).
    inversion H; subst s'; clear H.
    set (s1 := mkS l (seed s) (merged s) (ncoup s) t' (window s) (woff s) (fic s)) in *.
    assert (Hsame : forall y, In y (t_items t') <-> In y (t_items (table s))).
    { intros y. rewrite Hit. split; [intros [->|?]; auto|auto]. }
    split.
    + apply (core_set_bit l s hist s1 rc); auto; try reflexivity.
      * intros r. apply (c_bytes _ _ _ C).
      * intros v Hv. cbn [table s1] in Hv. apply Hsame in Hv. split.
        -- apply (c_items _ _ _ C). exact Hv.
        -- apply in_win_sparse. exact Hw.
      * intros r c Hr Hc. rewrite (HbF s1), (HbF s) by auto. cbn [table s1].
        rewrite (mem_same _ _ _ Hsame).
        destruct (N.eqb_spec (rcp r c) rc) as [->|]; auto. simpl. apply mem_In. exact Hin.
    + destruct Cn. constructor; auto.
      apply (count_cons s hist s1 rc); auto. rewrite Hyes. cbn [ncoup s1]. lia.
Qed.

Lemma dco_zero l : determine_correct_offset l 0 = 0.
Proof. apply dco_small. pose proof (pow2_pos l). lia. Qed.

Lemma bbm_bits_inv l s hist m : SInv l s hist -> build_bit_matrix s = Some m ->
  length m = N.to_nat (2 ^ l) /\
  (forall r c, r < 2 ^ l -> c < 64 -> bit m r c = has hist r c) /\
  (forall r c, 64 <= c -> bit m r c = false).
Proof.
  intros [C Cn]. apply bbm_bits; auto. apply Cn.
  intros E. rewrite (n_off _ _ _ Cn), E. apply dco_zero.
Qed.

(** ** the row loop of move_window / get_result_from_bit_matrix *)
Definition P2 (off w : N) : N := N.lxor (N.land w (N.lxor (N.shiftl 255 off) mask64)) (2 ^ off - 1).

Lemma P2_bit off w c : w < two64 -> off <= 56 ->
  N.testbit (P2 off w) c =
  if c <? off then negb (N.testbit w c) else if c <? off + 8 then false else N.testbit w c.
Proof.
  intros Hw Ho. unfold P2. rewrite N.lxor_spec, N.land_spec, N.lxor_spec, ones_bit, shiftl_bit.
  change mask64 with (2 ^ 64 - 1). rewrite ones_bit. change 255 with (2 ^ 8 - 1). rewrite ones_bit.
  destruct (N.ltb_spec c off).
  - destruct (N.leb_spec off c); [lia|]. destruct (N.ltb_spec c 64); [|lia]. simpl.
    rewrite andb_true_r. apply xorb_true_r.
  - destruct (N.leb_spec off c); [|lia]. simpl. rewrite xorb_false_r.
    destruct (N.ltb_spec c (off + 8)).
    + destruct (N.ltb_spec (c - off) 8); [|lia]. destruct (N.ltb_spec c 64); [|lia]. simpl. apply andb_false_r.
    + destruct (N.ltb_spec (c - off) 8); [lia|]. simpl.
      destruct (N.ltb_spec c 64); [apply andb_true_r|]. rewrite (lt64_bits w Hw) by auto. reflexivity.
Qed.

Lemma P2_lt off w : w < two64 -> off <= 56 -> P2 off w < two64.
Proof.
  intros Hw Ho. apply bits_lt64. intros j Hj. rewrite P2_bit by auto.
  destruct (N.ltb_spec j off); [lia|]. destruct (N.ltb_spec j (off + 8)); auto. now apply lt64_bits.
Qed.

Lemma insert_bits_spec row fuel : forall t p t', insert_bits t row p fuel = Some t' ->
  TInv t -> p < two64 -> (forall c, N.testbit p c = true -> rcp row c <> EMPTY) ->
  TInv t' /\ (forall y, In y (t_items t') <-> In y (t_items t) \/ exists c, N.testbit p c = true /\ y = rcp row c).
Proof.
  induction fuel as [|f IH]; intros t p t' H Ht Hp Hne.
  - simpl in H. destruct (N.eqb_spec p 0); [|discriminate]. inversion H; subst. split; auto.
    intros y. split; auto. intros [?|(c & Hc & _)]; auto. rewrite N.bits_0 in Hc. discriminate.
  - cbn [insert_bits] in H. destruct (N.eqb_spec p 0) as [E|E].
    + inversion H; subst. split; auto.
      intros y. split; auto. intros [?|(c & Hc & _)]; auto. rewrite N.bits_0 in Hc. discriminate.
    + destruct (ctz64_bit p Hp E) as [Hb Hlt]. set (col := ctz64 p) in *.
      change (N.lor (N.shiftl row 6) col) with (rcp row col) in H.
      destruct (maybe_insert t (rcp row col)) as [[t1 nv]|] eqn:Emi; [|discriminate].
      destruct nv; [|discriminate].
      destruct (maybe_insert_spec _ _ _ _ Ht (Hne _ Hb) Emi) as (Ht1 & _ & _ & Hit).
      assert (Hbits : forall c, N.testbit (N.lxor p (N.shiftl 1 col)) c = N.testbit p c && negb (col =? c)).
      { intros c. rewrite N.lxor_spec, bit1_spec. destruct (N.eqb_spec col c) as [<-|]; simpl.
        - rewrite Hb. reflexivity.
        - rewrite xorb_false_r. now rewrite andb_true_r. }
      apply IH in H; auto.
      * destruct H as [Ht' Hit']. split; auto. intros y. rewrite Hit'. rewrite Hit. split.
        -- intros [[->|?]|(c & Hc & ->)]; auto.
           ++ right. exists col. auto.
           ++ right. exists c. split; auto. rewrite Hbits in Hc. apply andb_true_iff in Hc. tauto.
        -- intros [?|(c & Hc & ->)]; auto. destruct (N.eq_dec col c) as [<-|Hn]; auto.
           right. exists c. split; auto. rewrite Hbits, Hc. destruct (N.eqb_spec col c); [contradiction|reflexivity].
      * apply bits_lt64. intros j Hj. rewrite Hbits. rewrite (lt64_bits p Hp) by auto. reflexivity.
      * intros c Hc. apply Hne. rewrite Hbits in Hc. apply andb_true_iff in Hc. tauto.
Qed.

