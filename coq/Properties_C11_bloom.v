(* Properties_C11_bloom.v — Bloom filter image: truncated or corrupted images (C11).  Statements only; proofs in
   BloomCodecProofs.v.  dec is the model of the four readers as they are after the reader repairs and
   fixes/11_bloom_header_validation.patch; the readers before that patch are in Regression_bloomcodec.v. *)
From Coq Require Import ZArith NArith List Bool Lia.
From DS Require Import Word RunnerLib BloomDefs BloomProofs BloomCodecDefs BloomCodecProofs.
Import ListNotations.
Local Open Scope N_scope.

(* EVERY strict prefix of EVERY well-formed image is rejected by EVERY reader (no padding case exists in this format) *)
Theorem C11_bloom_strict_prefix_rejected : forall r s n,
  wf s -> (n < length (enc s))%nat -> dec r (firstn n (enc s)) = None.
Proof. exact dec_prefix. Qed.

(* the readers are total on ARBITRARY bytes, and whatever they accept is a well-formed content (at least one hash, at
   least one word, at most the size a filter may have: usable, no division by zero, indices inside the array) that lies
   entirely inside the input *)
Theorem C11_bloom_total_and_safe : forall r d,
  dec r d = None \/
  exists s rest, dec r d = Some (s, rest) /\ wf s /\ rest = skipn (enc_size s) d /\ (enc_size s <= length d)%nat /\
                 (r = RWritable -> c_body s <> None).
Proof.
  intros r d. destruct (dec r d) as [[s rest]|] eqn:E; [right|now left].
  exists s, rest. split; [reflexivity|]. now apply dec_accepts.
Qed.

(* size-bounded content: a NON-empty accepted image carries its whole bit array (32 + 8 * longs <= |input|), so nothing
   beyond the input is read or allocated; an EMPTY image stands for a zeroed array of at most MAX_BITS bits (the declared
   exception: 24 bytes describe an empty filter of any admissible size) *)
Theorem C11_bloom_size_bounded : forall r d s rest,
  dec r d = Some (s, rest) ->
  match c_body s with
  | Some _ => 32 + 8 * c_nl s <= N.of_nat (length d)
  | None => N.shiftl (c_nl s) 6 <= MAX_BITS
  end.
Proof. exact dec_bounded. Qed.

(* non-vacuity: the 48-byte image of Properties_C09_bloom with every cut, and three corrupted headers *)
Example C11_bloom_nonvacuous :
  let img := enc (mkC 3 123 2 (Some (2, N.setbit (N.setbit 0 5) 77))) in
  forallb (fun n => match dec RBytes (firstn n img), dec RStream (firstn n img), dec RWrap (firstn n img), dec RWritable (firstn n img)
                    with None, None, None, None => true | _, _, _, _ => false end) (seq 0 48) = true /\
  dec RWrap (firstn 16 img ++ [0] ++ skipn 17 img) = None /\            (* 0 longs: refused (was: capacity 0, division by zero) *)
  dec RBytes (firstn 4 img ++ [0; 0] ++ skipn 6 img) = None /\          (* 0 hashes *)
  dec RStream (firstn 19 img ++ [128] ++ skipn 20 img) = None /\        (* 2^31 + 2 longs *)
  (exists s, dec RBytes (firstn 16 img ++ [1] ++ skipn 17 img) = Some (s, [0; 32; 0; 0; 0; 0; 0; 0]) /\ c_nl s = 1).   (* fewer longs: accepted, rest unread *)
Proof. vm_compute. repeat split; try reflexivity. eexists. split; reflexivity. Qed.

Print Assumptions C11_bloom_strict_prefix_rejected.
Print Assumptions C11_bloom_total_and_safe.
Print Assumptions C11_bloom_size_bounded.
