(* EbppsSerdeProofs.v — EBPPS over exact arithmetic: serialize + deserialize of the whole sketch is the identity
   on every sketch reachable by a history. *)
From Coq Require Import ZArith List Bool QArith Qround Lia Lqa Psatz.
From DS Require Import RunnerLib EbppsDefs EbppsProofs EbppsSketchProofs EbppsHistProofs EbppsEqualProofs EbppsMain.
Import ListNotations.
Local Open Scope Q_scope.

Section Serde.
  Variable Item : Type.
  Notation qsketch := (sketch QOps Item).
  Notation qcs := (cs QOps).

  Lemma h_n_nonneg (h : hist Item) : (0 <= h_n Item h)%Z.
  Proof. induction h as [k|h IH it w|h1 IH1 h2 IH2]; cbn [h_n]; try lia. destruct (accepted w); lia. Qed.

  Lemma h_W_zero (h : hist Item) : h_n Item h = 0%Z -> h_W Item h == 0.
  Proof.
    induction h as [k|h IH it w|h1 IH1 h2 IH2]; cbn [h_n h_W]; intro H.
    - reflexivity.
    - pose proof (h_n_nonneg h). destruct (accepted w); [lia|auto].
    - pose proof (h_n_nonneg h1). pose proof (h_n_nonneg h2).
      rewrite IH1, IH2 by lia. reflexivity.
  Qed.

  (* a history without accepted updates leaves the sketch exactly as constructed, and consumes no draw *)
  Lemma eval_n0 (h : hist Item) : h_n Item h = 0%Z -> forall s : qcs,
    eval Item h s = (sketch_empty QOps Item (h_k Item h), s).
  Proof.
    induction h as [k|h IH it w|h1 IH1 h2 IH2]; cbn [h_n h_k eval]; intros H s.
    - reflexivity.
    - pose proof (h_n_nonneg h). destruct (accepted w) eqn:Ea; [lia|].
      rewrite (IH H s). apply update_nonpos. now apply accepted_false.
    - pose proof (h_n_nonneg h1). pose proof (h_n_nonneg h2).
      rewrite (IH1 ltac:(lia) s), (IH2 ltac:(lia) s).
      rewrite (qeqb_compat _ _ 0 (h_W_zero h2 ltac:(lia))).
      reflexivity.
  Qed.

  Theorem sketch_roundtrip (h : hist Item) (s : qcs) : h_wf Item h -> cs_ok s ->
    sk_reread QOps Item (fst (eval Item h s)) = Some (fst (eval Item h s)).
  Proof.
    intros WF Hs. unfold sk_reread.
    destruct (main_all Item h s WF Hs) as (_ & _ & Ek & En & _).
    destruct (Z.eqb_spec (sk_n (fst (eval Item h s))) 0) as [Z0|NZ].
    - rewrite En in Z0. rewrite (eval_n0 h Z0 s). reflexivity.
    - rewrite (main_roundtrip Item h s WF Hs). destruct (fst (eval Item h s)); reflexivity.
  Qed.
End Serde.

Section Bounds.
  Variable Item : Type.
  Notation qcs := (cs QOps).

  (* a non-empty sketch has 1 <= c <= k *)
  Lemma main_c_bounds (h : hist Item) (s : qcs) : h_wf Item h -> cs_ok s -> 0 < h_W Item h ->
    1 <= sc (sk_smp (fst (eval Item h s))) /\ sc (sk_smp (fst (eval Item h s))) <= inject_Z (h_kk Item h).
  Proof.
    intros WF Hs HW. destruct (main_all Item h s WF Hs) as (I & _ & _ & _ & Ew & _).
    set (sk := fst (eval Item h s)) in *.
    assert (HW' : 0 < sk_cw sk) by (rewrite Ew; exact HW).
    destruct (c_closed_form Item _ _ sk I HW') as (A & B & C).
    destruct I as (K1 & K2 & _ & _ & M0 & MW & MP & _).
    split; [|exact A].
    destruct C as [C|C]; rewrite C.
    - change 1 with (inject_Z 1). rewrite <- Zle_Qle. lia.
    - specialize (MP HW'). apply Qle_shift_div_l; lra.
  Qed.

  (* no returned sample is larger than k *)
  Lemma main_result_le_k (h : hist Item) (s : qcs) : h_wf Item h -> cs_ok s -> 0 < h_W Item h ->
    let sk := fst (eval Item h s) in
    (length (fst (get_result QOps Item (sk_smp sk) (snd (eval Item h s)))) <= Z.to_nat (h_kk Item h))%nat.
  Proof.
    intros WF Hs HW. cbn zeta.
    destruct (main_c_bounds h s WF Hs HW) as [L U].
    destruct (main_result Item h s WF Hs) as [[E|E] _]; cbn zeta in E; rewrite E; apply Z2Nat.inj_le.
    - apply floor_nonneg; lra.
    - apply Qfloor_resp_le in L. change (Qfloor 1) with 1%Z in L.
      apply Qfloor_resp_le in U. rewrite Qfloor_Z in U. lia.
    - apply Qfloor_resp_le in U. rewrite Qfloor_Z in U. exact U.
    - apply Qceiling_resp_le in L. change (Qceiling 1) with 1%Z in L. lia.
    - apply Qceiling_resp_le in L. change (Qceiling 1) with 1%Z in L. apply Qceiling_resp_le in U. rewrite Qceiling_Z in U. lia.
    - apply Qceiling_resp_le in U. rewrite Qceiling_Z in U. exact U.
  Qed.
End Bounds.
