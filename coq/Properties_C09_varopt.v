(* Properties_C09_varopt.v — serialization round trip of var_opt_sketch<int64_t> and var_opt_union<int64_t> images.
   Only statements; proofs live in VarOptCodecProofs.v; the model is VarOptCodecDefs.v (both readers of each class,
   as repaired).  [wf] / [wf_un] describe every content the C++ objects can hold (the three modes empty / warm-up /
   sampling, plain and gadget sketches); coq/Properties_C16.v (C16_counts, C16_weight, C16_roundtrip) shows that the
   sketch histories keep the counts in that shape. *)
From Coq Require Import NArith List Bool Lia.
From DS Require Import Word ThetaCodecDefs VarOptCodecDefs VarOptCodecProofs.
Import ListNotations.
Local Open Scope N_scope.

(* deserialize(serialize s), stream form: the same content comes back, exactly the image is consumed (whatever follows
   it is left in the stream) *)
Theorem C09_varopt_sketch_stream : forall s rest, wf s -> dec_sk_stream (enc_sk s ++ rest) = Some (s, rest).
Proof. exact sk_roundtrip_stream. Qed.
(* bytes form: trailing bytes are ignored *)
Theorem C09_varopt_sketch_bytes : forall s rest, wf s -> dec_sk_bytes (enc_sk s ++ rest) = Some s.
Proof. exact sk_roundtrip_bytes. Qed.
(* hence the restored sketch re-serializes to the same image *)
Theorem C09_varopt_sketch_reserialize : forall s s' rest, wf s -> dec_sk_bytes (enc_sk s ++ rest) = Some s' -> enc_sk s' = enc_sk s.
Proof. intros s s' rest Hwf H. rewrite sk_roundtrip_bytes in H by assumption. now injection H as <-. Qed.
(* the image has exactly the advertised size *)
Theorem C09_varopt_sketch_size : forall s, wf s -> N.of_nat (length (enc_sk s)) = sk_size s.
Proof. exact sk_size_ok. Qed.
(* a header of h bytes: h reserved zero bytes followed by the same image, which reads back after skipping them *)
Theorem C09_varopt_sketch_header : forall h s, wf s ->
  enc_sk_header h s = repeat 0 h ++ enc_sk s /\ dec_sk_bytes (skipn h (enc_sk_header h s)) = Some s.
Proof.
  intros h s Hwf. split; [reflexivity|]. unfold enc_sk_header.
  rewrite (ThetaCodecProofs.skipn_app_exact (repeat 0 h) (enc_sk s) h (repeat_length _ _)).
  rewrite <- (app_nil_r (enc_sk s)). now apply sk_roundtrip_bytes.
Qed.
(* the two readers agree on ARBITRARY bytes (accept / reject and content) *)
Theorem C09_varopt_sketch_readers_agree : forall l,
  dec_sk_bytes l = match dec_sk_stream l with Some (s, _) => Some s | None => None end.
Proof. exact (sk_bytes_is_stream counts_ok). Qed.

(* the same for the union image (union state: n, outer tau numerator / denominator, max_k, the gadget with its marks) *)
Theorem C09_varopt_union_stream : forall u rest, wf_un u -> dec_un_stream (enc_un u ++ rest) = Some (u, rest).
Proof. exact un_roundtrip_stream. Qed.
Theorem C09_varopt_union_bytes : forall u rest, wf_un u -> dec_un_bytes (enc_un u ++ rest) = Some u.
Proof. exact un_roundtrip_bytes. Qed.
Theorem C09_varopt_union_size : forall u, wf_un u -> N.of_nat (length (enc_un u)) = un_size u.
Proof. exact un_size_ok. Qed.
Theorem C09_varopt_union_readers_agree : forall l,
  dec_un_bytes l = match dec_un_stream l with Some (u, _) => Some u | None => None end.
Proof. exact un_bytes_is_stream. Qed.

(* non-vacuity: a gadget in sampling mode (k = 3, h = 1 marked, r = 2) inside a union *)
Definition C09_ex_sk : vs :=
  mkvs 3 true 3 7 4620693217682128896 [4621819117588971520] [true] [18446744073709551615] [5; 6].
Definition C09_ex_un : vun := mkvun 9 4612811918334230528 2 3 C09_ex_sk.
Example C09_ex_wf : wf C09_ex_sk /\ wf_un C09_ex_un.
Proof.
  assert (W : wf C09_ex_sk).
  { unfold wf, b64, C09_ex_sk, hcount, rcount.
    cbn [s_rf s_gadget s_k s_n s_totr s_wts s_marks s_hitems s_ritems length N.of_nat Pos.of_succ_nat Pos.succ].
    change (2 =? 0) with false. cbv iota.
    repeat split; try reflexivity; try discriminate; repeat (apply Forall_cons; [reflexivity|]); apply Forall_nil. }
  split; [exact W|]. unfold wf_un, C09_ex_un. cbn [u_n u_numer u_denom u_maxk u_gadget].
  split; [discriminate|]. split; [discriminate|]. split; [reflexivity|]. split; [reflexivity|]. split; [reflexivity|].
  split; [exact W|]. intros X. discriminate X.
Qed.
Example C09_ex_roundtrip :
  length (enc_sk C09_ex_sk) = 65%nat /\ length (enc_un C09_ex_un) = 97%nat /\
  dec_sk_bytes (enc_sk C09_ex_sk) = Some C09_ex_sk /\ dec_un_stream (enc_un C09_ex_un ++ [1; 2]) = Some (C09_ex_un, [1; 2]).
Proof. vm_compute. repeat split. Qed.

Print Assumptions C09_varopt_sketch_stream.
Print Assumptions C09_varopt_sketch_bytes.
Print Assumptions C09_varopt_sketch_reserialize.
Print Assumptions C09_varopt_sketch_size.
Print Assumptions C09_varopt_sketch_header.
Print Assumptions C09_varopt_sketch_readers_agree.
Print Assumptions C09_varopt_union_stream.
Print Assumptions C09_varopt_union_bytes.
Print Assumptions C09_varopt_union_size.
Print Assumptions C09_varopt_union_readers_agree.
