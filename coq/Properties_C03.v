(* Properties_C03.v — HLL content is the per-slot max of coupons in every mode and register width.
   Only statements, closed by [exact]; proofs live in HllProofs / HllOpenAddr / HllAuxProofs / HllRegsProofs /
   HllSetProofs / Hll4Proofs / HllSketchProofs.  All statements are about the executable definitions of HllDefs.v
   that are extracted and run against the C++ ([sk_new], [sk_updates] = fold of [sk_update] (hll_sketch::coupon_update),
   [sk_copy_as], [sk_content] / [hll_regs] (the iterator read-out printed by the query op)).
   Quantification: every lg_k in 4..21, every target type, start_full_size or not, EVERY sequence of 32-bit coupons
   ([cvalid c := c < 2^32]; the coupon 0 is ignored by coupon_update and by the specification).
   Specification (HllDefs): [slot_max lgk C s] = max of the values of the coupons of C folded to slot s,
   [spec_regs lgk C] = the 2^lgk slot maxima, [sort_distinct] = sorted list of the distinct elements.
   NOT proved here: hipAccum / estimators / bounds (floating point; only compared on outputs by the oracle). *)
From Coq Require Import ZArith NArith List Bool Lia.
From DS Require Import Word Murmur3 RunnerLib HllDefs HllProofs HllAuxProofs HllSetProofs Hll4Proofs HllSketchProofs.
Import ListNotations.
Local Open Scope N_scope.

(* L0: the specification registers are the per-slot maxima: an upper bound that is attained (or 0) *)
Theorem C03_spec_is_slot_max : forall lgk C s, s < 2 ^ lgk ->
  getN (spec_regs lgk C) s = slot_max lgk C s /\
  (forall c, In c C -> c_slot lgk c = s -> c_val c <= slot_max lgk C s) /\
  (slot_max lgk C s = 0 \/ exists c, In c C /\ c_slot lgk c = s /\ c_val c = slot_max lgk C s).
Proof.
  intros lgk C s Hs. split; [now apply getN_spec_regs|]. split; [intros c; apply slot_max_ub|apply slot_max_attained].
Qed.

(* Main theorem.  For every type, lg_k, start_full_size flag and coupon sequence the run never throws, and
   - the mode (0 list, 1 set, 2 HLL) is [mode_of lgk full n], a function of the number n of distinct coupons only:
     list while n < 8, then (lg_k >= 8) set while n <= 3*2^(lg_k-5), then HLL; HLL from the start when full-size;
   - the logical content is [content_spec]: the sorted set of distinct coupons in list/set mode, the per-slot maxima
     [spec_regs lgk cs] in HLL mode (through the list -> set -> HLL promotions, the HLL_6 packing, the HLL_4 cur_min
     shifts and aux exceptions). *)
Theorem C03_content_spec : forall ty lgk full cs, 4 <= lgk -> lgk <= 21 -> Forall cvalid cs ->
  exists i, sk_run ty lgk full cs = Some i /\ sk_content i = content_spec lgk full cs /\
            sk_mode i = mode_of lgk full (ndistinct cs) /\ sk_lgk i = lgk /\ sk_ty i = ty.
Proof. exact sk_run_content. Qed.

(* order, duplicates and the target type are irrelevant: two runs over sequences with the same SET of coupons,
   in any two types, end in the same mode with the same content *)
Theorem C03_order_duplicates_type_independent : forall ty1 ty2 lgk full cs1 cs2,
  4 <= lgk -> lgk <= 21 -> Forall cvalid cs1 -> Forall cvalid cs2 -> same_set (nonzero cs1) (nonzero cs2) ->
  exists i1 i2, sk_run ty1 lgk full cs1 = Some i1 /\ sk_run ty2 lgk full cs2 = Some i2 /\
                sk_content i1 = sk_content i2 /\ sk_mode i1 = sk_mode i2.
Proof. exact sk_run_set_independent. Qed.

(* a sketch started full-size holds the same registers as one that went through the promotions *)
Theorem C03_full_size_agrees : forall ty1 ty2 lgk cs, 4 <= lgk -> lgk <= 21 -> Forall cvalid cs ->
  mode_of lgk false (ndistinct cs) = 2 ->
  exists i1 i2, sk_run ty1 lgk true cs = Some i1 /\ sk_run ty2 lgk false cs = Some i2 /\
                sk_content i1 = CRegs (spec_regs lgk cs) /\ sk_content i2 = CRegs (spec_regs lgk cs).
Proof. exact sk_run_full_size_agrees. Qed.

(* hll_sketch(const hll_sketch&, target_hll_type): the converted copy has the same content and mode, the new type,
   and keeps behaving like a sketch of the new type fed the whole stream *)
Theorem C03_copy_as_preserves_content : forall ty ty' lgk full cs cs2,
  4 <= lgk -> lgk <= 21 -> Forall cvalid cs -> Forall cvalid cs2 ->
  exists i i' i'', sk_run ty lgk full cs = Some i /\ sk_copy_as ty' i = Some i' /\
    sk_content i' = sk_content i /\ sk_mode i' = sk_mode i /\ sk_ty i' = ty' /\ sk_lgk i' = lgk /\
    sk_updates i' cs2 = Some i'' /\ sk_content i'' = content_spec lgk full (cs ++ cs2) /\
    sk_mode i'' = mode_of lgk full (ndistinct (cs ++ cs2)).
Proof. exact sk_copy_as_content. Qed.

(* HLL mode: the registers read through the iterator are the slot maxima; the estimator inputs kxq0, kxq1 and the
   zero count used by the composite estimator and the bounds are functions of the registers alone (hence equal for
   the three types and any presentation order); HLL_6/HLL_8 keep cur_min = 0 and no aux map; HLL_4 keeps
   cur_min = the smallest register, num_at_cur_min = the number of registers holding it, and the aux map holds
   exactly the pairs (slot, value) with value - cur_min >= 15 *)
Theorem C03_hll_mode_state : forall ty lgk full cs i,
  4 <= lgk -> lgk <= 21 -> Forall cvalid cs -> sk_run ty lgk full cs = Some i -> mode_of lgk full (ndistinct cs) = 2 ->
  exists h, i = IHll h /\ hll_regs h = Some (spec_regs lgk cs) /\
    h_kxq0 h = kxq0_of (spec_regs lgk cs) /\ h_kxq1 h = kxq1_of (spec_regs lgk cs) /\
    est_zeros h = count_eq 0 (spec_regs lgk cs) /\
    (ty <> T4 -> h_curmin h = 0 /\ h_numat h = count_eq 0 (spec_regs lgk cs) /\ h_aux h = None) /\
    (ty = T4 -> (forall s, s < 2 ^ lgk -> h_curmin h <= getN (spec_regs lgk cs) s) /\
                (exists s, s < 2 ^ lgk /\ getN (spec_regs lgk cs) s = h_curmin h) /\
                h_numat h = count_eq (h_curmin h) (spec_regs lgk cs) /\
                arep lgk (h_aux h) (exc lgk (h_curmin h) (spec_regs lgk cs))).
Proof. exact sk_run_hll. Qed.

(* one HLL_4 update on any array satisfying the representation invariant: never throws (no aux lookup fails, the
   "impossible case 2" and every throwing branch of shiftToBiggerCurMin are unreachable), computes the slot max *)
Theorem C03_hll4_update_step : forall h regs c, inv4 h regs -> cvalid c ->
  exists h', hll4_update h c = Some h' /\ inv4 h' (reg_max_upd (h_lgk h) regs c) /\ same_cfg h h' /\
             (0 < h_numat h -> 0 < h_numat h').
Proof. exact hll4_update_step. Qed.

(* the specification registers and the canonical coupon list depend on the coupon SET only *)
Theorem C03_spec_depends_on_set_only : forall lgk full A B, same_set (nonzero A) (nonzero B) ->
  content_spec lgk full A = content_spec lgk full B.
Proof. exact content_spec_set. Qed.

(* is_empty() is true exactly when no non-zero coupon was fed (coupons as produced by HllUtil::coupon carry a value >= 1),
   in every mode and type, for a full-size start too *)
Theorem C03_is_empty_correct : forall ty lgk full cs i, 4 <= lgk -> lgk <= 21 -> Forall cvalid cs -> valued cs ->
  sk_run ty lgk full cs = Some i -> (sk_is_empty i = true <-> nonzero cs = []).
Proof. exact sk_is_empty_spec. Qed.

(* ---------- non-vacuity ---------- *)
Definition all_cvalid (cs : list N) : bool := forallb (fun c => c <? 4294967296) cs.

(* lg_k = 4, HLL_4: every slot gets value 1 (cur_min shifts to 1), slot 3 gets 20 (an aux exception, 20 - 1 >= 15),
   duplicates; the same multiset reversed into an HLL_8 and an HLL_6 sketch gives the same registers *)
Example C03_nonvacuous_hll :
  let cs := map (fun s => pair_sv s 1) (seqN 16) ++ [pair_sv 3 20; pair_sv 3 20; pair_sv 5 2] in
  all_cvalid cs = true /\ mode_of 4 false (ndistinct cs) = 2 /\
  match sk_run T4 4 false cs, sk_run T8 4 false (rev cs), sk_run T6 4 true cs with
  | Some (IHll h4), Some (IHll h8), Some (IHll h6) =>
      hll_regs h4 = Some (spec_regs 4 cs) /\ hll_regs h8 = hll_regs h4 /\ hll_regs h6 = hll_regs h4 /\
      h_curmin h4 = 1 /\ h_numat h4 = 14 /\ aux_pairs h4 = [pair_sv 3 20] /\ getN (spec_regs 4 cs) 3 = 20 /\
      h_kxq0 h4 = h_kxq0 h8 /\ h_kxq0 h6 = h_kxq0 h8
  | _, _, _ => False
  end.
Proof. vm_compute. repeat split; reflexivity. Qed.

(* lg_k = 10: 30 distinct coupons with duplicates: set mode (8 <= 30 <= 96), content = the sorted distinct coupons;
   a converted copy keeps it *)
Example C03_nonvacuous_set :
  let cs := map (fun s => pair_sv (s * 37 + 5) (1 + s mod 7)) (seqN 30) ++ map (fun s => pair_sv (s * 37 + 5) (1 + s mod 7)) (seqN 9) in
  all_cvalid cs = true /\ mode_of 10 false (ndistinct cs) = 1 /\
  match sk_run T4 10 false cs with
  | Some i => sk_mode i = 1 /\ sk_content i = CCoupons (sort_distinct cs) /\
              match sk_copy_as T8 i with Some i' => sk_content i' = sk_content i /\ sk_ty i' = T8 | None => False end
  | None => False
  end.
Proof. vm_compute. repeat split; reflexivity. Qed.

Print Assumptions C03_spec_is_slot_max.
Print Assumptions C03_content_spec.
Print Assumptions C03_order_duplicates_type_independent.
Print Assumptions C03_full_size_agrees.
Print Assumptions C03_copy_as_preserves_content.
Print Assumptions C03_hll_mode_state.
Print Assumptions C03_hll4_update_step.
Print Assumptions C03_spec_depends_on_set_only.
Print Assumptions C03_is_empty_correct.
