(* Properties_C03.v — HLL content is the per-slot max of coupons in every mode and register width. *)
From Coq Require Import ZArith NArith List Bool Lia.
From DS Require Import Word Murmur3 RunnerLib HllDefs HllProofs.
Import ListNotations.
Local Open Scope N_scope.
