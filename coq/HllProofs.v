(* HllProofs.v — lemmas about the HLL model (work in progress). *)
From Coq Require Import ZArith NArith List Bool Lia.
From DS Require Import Word Murmur3 RunnerLib HllDefs.
Import ListNotations.
Local Open Scope N_scope.
