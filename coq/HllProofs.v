(* HllProofs.v — basics, the L0 specification, Hll8 and Hll6 register arrays.
   Main results: [fold_reg_max_spec] (folding coupons with max = per-slot max),
   [hll8_run_spec], [hll6_run_spec], and the shared estimator-input invariant [est_ok]. *)
From Coq Require Import ZArith NArith List Bool Lia Permutation.
From DS Require Import Word Murmur3 RunnerLib HllDefs.
Import ListNotations.
Local Open Scope N_scope.

(* ---------- arrays ---------- *)
Lemma setN_length l i v : length (setN l i v) = length l.
Proof. apply upd_nth_length. Qed.

Lemma lenN_setN l i v : lenN (setN l i v) = lenN l.
Proof. unfold lenN. now rewrite setN_length. Qed.

Lemma getN_setN_same l i v : i < lenN l -> getN (setN l i v) i = v.
Proof. unfold getN, setN, lenN. intros H. rewrite nth_upd_nth_eq; auto. lia. Qed.

Lemma getN_setN_other l i j v : i <> j -> getN (setN l i v) j = getN l j.
Proof. unfold getN, setN. intros H. apply nth_upd_nth_neq. lia. Qed.

Lemma getN_setN l i j v : i < lenN l ->
  getN (setN l i v) j = if i =? j then v else getN l j.
Proof.
  intros H. destruct (N.eqb_spec i j) as [->|Hne].
  - now apply getN_setN_same.
  - now apply getN_setN_other.
Qed.

Lemma getN_overflow l i : lenN l <= i -> getN l i = 0.
Proof. unfold getN, lenN. intros. apply nth_overflow. lia. Qed.

Lemma setN_overflow l i v : lenN l <= i -> setN l i v = l.
Proof.
  unfold setN, lenN. intros H. assert (Hn : (length l <= N.to_nat i)%nat) by lia. clear H.
  revert Hn. generalize (N.to_nat i). induction l as [|x t IH]; intros [|n] Hn; simpl in *; auto; try lia.
  f_equal. apply IH. lia.
Qed.

Lemma zerosN_length n : lenN (zerosN n) = n.
Proof. unfold lenN, zerosN. rewrite repeat_length. lia. Qed.

Lemma getN_zerosN n i : getN (zerosN n) i = 0.
Proof.
  unfold getN, zerosN. generalize (N.to_nat i) (N.to_nat n). intros a b. revert a.
  induction b; intros [|a]; simpl; auto.
Qed.

Lemma seqN_length n : lenN (seqN n) = n.
Proof. unfold lenN, seqN. rewrite map_length, seq_length. lia. Qed.

Lemma in_seqN n i : In i (seqN n) <-> i < n.
Proof.
  unfold seqN. rewrite in_map_iff. split.
  - intros (x & <- & Hx). apply in_seq in Hx. lia.
  - intros H. exists (N.to_nat i). split; [lia|]. apply in_seq. lia.
Qed.

Lemma getN_map_seqN (f : N -> N) n i : i < n -> getN (map f (seqN n)) i = f i.
Proof.
  intros H. unfold getN, seqN. rewrite map_map.
  rewrite nth_indep with (d' := f (N.of_nat 0)) by (rewrite map_length, seq_length; lia).
  rewrite (map_nth (fun x => f (N.of_nat x)) (seq 0 (N.to_nat n)) 0%nat).
  rewrite seq_nth by lia. simpl. f_equal. lia.
Qed.

Lemma list_ext_getN (a b : list N) : length a = length b ->
  (forall i, i < lenN a -> getN a i = getN b i) -> a = b.
Proof.
  revert b. induction a as [|x t IH]; intros [|y u] Hl H; simpl in *; try discriminate; auto.
  f_equal.
  - specialize (H 0). unfold getN, lenN in H. simpl in H. apply H. lia.
  - apply IH; [lia|]. intros i Hi. specialize (H (i + 1)). unfold getN, lenN in *.
    replace (N.to_nat (i + 1)) with (S (N.to_nat i)) in H by lia. cbn [nth] in H. apply H.
    change (length (x :: t)) with (S (length t)). lia.
Qed.

Lemma map_getN_seqN l : map (getN l) (seqN (lenN l)) = l.
Proof.
  apply list_ext_getN.
  - rewrite map_length. pose proof (seqN_length (lenN l)) as H. unfold lenN in *. lia.
  - intros i Hi. assert (Hi' : i < lenN l).
    { pose proof (seqN_length (lenN l)) as H. unfold lenN in *. rewrite map_length in Hi. lia. }
    now apply getN_map_seqN.
Qed.

(* ---------- coupons ---------- *)
Definition cvalid (c : N) : Prop := c < 4294967296.

Lemma c_slot_lt lgk c : c_slot lgk c < 2 ^ lgk.
Proof. unfold c_slot. rewrite N.land_ones. apply N.mod_lt. apply N.pow_nonzero. discriminate. Qed.

Lemma c_val_lt c : cvalid c -> c_val c < 64.
Proof.
  unfold cvalid, c_val. intros H. rewrite N.shiftr_div_pow2.
  apply N.div_lt_upper_bound; [discriminate|]. change (2 ^ 26 * 64) with 4294967296. exact H.
Qed.

(* ---------- L0: per-slot max ---------- *)
Lemma slot_max_nil lgk s : slot_max lgk [] s = 0.
Proof. reflexivity. Qed.

Lemma slot_max_cons lgk c C s :
  slot_max lgk (c :: C) s = if c_slot lgk c =? s then N.max (c_val c) (slot_max lgk C s) else slot_max lgk C s.
Proof. unfold slot_max. simpl. destruct (c_slot lgk c =? s); reflexivity. Qed.

(* the maximum is characterised by: an upper bound of the values in the slot, attained unless it is 0 *)
Lemma slot_max_ub lgk C s c : In c C -> c_slot lgk c = s -> c_val c <= slot_max lgk C s.
Proof.
  induction C as [|x t IH]; intros Hin Hs; [contradiction|].
  rewrite slot_max_cons. destruct Hin as [->|Hin].
  - rewrite Hs, N.eqb_refl. lia.
  - specialize (IH Hin Hs). destruct (c_slot lgk x =? s); lia.
Qed.

Lemma slot_max_attained lgk C s :
  slot_max lgk C s = 0 \/ exists c, In c C /\ c_slot lgk c = s /\ c_val c = slot_max lgk C s.
Proof.
  induction C as [|x t IH]; [now left|].
  rewrite slot_max_cons. destruct (N.eqb_spec (c_slot lgk x) s) as [Hs|Hs].
  - destruct (N.max_spec (c_val x) (slot_max lgk t s)) as [[Hlt ->]|[Hle ->]].
    + destruct IH as [H0|(c & Hc & Hcs & Hcv)]; [left; exact H0|].
      right. exists c. simpl. auto.
    + right. exists x. simpl. auto.
  - destruct IH as [H0|(c & Hc & Hcs & Hcv)]; [now left|]. right. exists c. simpl. auto.
Qed.

Definition same_set (A B : list N) : Prop := forall c, In c A <-> In c B.

(* the per-slot max depends only on the SET of coupons: order and duplicates are irrelevant *)
Lemma slot_max_same_set lgk A B s : same_set A B -> slot_max lgk A s = slot_max lgk B s.
Proof.
  intros H.
  assert (Hle : forall A B, same_set A B -> slot_max lgk A s <= slot_max lgk B s).
  { clear. intros A B H. destruct (slot_max_attained lgk A s) as [H0|(c & Hc & Hcs & Hcv)]; [lia|].
    rewrite <- Hcv. apply slot_max_ub; auto. now apply H. }
  apply N.le_antisymm; apply Hle; auto. intros c. symmetry. apply H.
Qed.

Lemma spec_regs_same_set lgk A B : same_set A B -> spec_regs lgk A = spec_regs lgk B.
Proof. intros H. unfold spec_regs. apply map_ext. intros s. now apply slot_max_same_set. Qed.

Lemma spec_regs_length lgk C : lenN (spec_regs lgk C) = 2 ^ lgk.
Proof. unfold spec_regs, lenN. rewrite map_length. apply seqN_length. Qed.

Lemma getN_spec_regs lgk C s : s < 2 ^ lgk -> getN (spec_regs lgk C) s = slot_max lgk C s.
Proof. intros. unfold spec_regs. now apply getN_map_seqN. Qed.

(* ---------- folding coupons with "max into the slot" computes the L0 registers ---------- *)
Lemma reg_max_upd_length lgk regs c : lenN (reg_max_upd lgk regs c) = lenN regs.
Proof. unfold reg_max_upd. destruct (_ <? _); auto. apply lenN_setN. Qed.

Lemma getN_reg_max_upd lgk regs c s : lenN regs = 2 ^ lgk ->
  getN (reg_max_upd lgk regs c) s = if c_slot lgk c =? s then N.max (getN regs s) (c_val c) else getN regs s.
Proof.
  intros Hl. unfold reg_max_upd. pose proof (c_slot_lt lgk c) as Hs.
  destruct (N.ltb_spec (getN regs (c_slot lgk c)) (c_val c)) as [Hlt|Hge].
  - rewrite getN_setN by lia. destruct (N.eqb_spec (c_slot lgk c) s) as [<-|]; auto. lia.
  - destruct (N.eqb_spec (c_slot lgk c) s) as [<-|]; auto. lia.
Qed.

Lemma fold_reg_max_length lgk C regs : lenN (fold_left (reg_max_upd lgk) C regs) = lenN regs.
Proof. revert regs. induction C as [|c t IH]; intros; simpl; auto. rewrite IH. apply reg_max_upd_length. Qed.

Lemma getN_fold_reg_max lgk C regs s : lenN regs = 2 ^ lgk ->
  getN (fold_left (reg_max_upd lgk) C regs) s = N.max (getN regs s) (slot_max lgk C s).
Proof.
  revert regs. induction C as [|c t IH]; intros regs Hl; simpl.
  - rewrite slot_max_nil. lia.
  - rewrite IH by (now rewrite reg_max_upd_length). rewrite getN_reg_max_upd by auto.
    rewrite slot_max_cons. destruct (c_slot lgk c =? s); lia.
Qed.

Theorem fold_reg_max_spec lgk C :
  fold_left (reg_max_upd lgk) C (zerosN (2 ^ lgk)) = spec_regs lgk C.
Proof.
  apply list_ext_getN.
  - pose proof (fold_reg_max_length lgk C (zerosN (2 ^ lgk))) as H1.
    pose proof (spec_regs_length lgk C) as H2. rewrite zerosN_length in H1. unfold lenN in *. lia.
  - intros s Hs. rewrite fold_reg_max_length, zerosN_length in Hs.
    rewrite getN_fold_reg_max by apply zerosN_length.
    rewrite getN_zerosN, getN_spec_regs by auto. lia.
Qed.

Lemma fold_reg_max_app lgk A B regs :
  fold_left (reg_max_upd lgk) (A ++ B) regs = fold_left (reg_max_upd lgk) B (fold_left (reg_max_upd lgk) A regs).
Proof. apply fold_left_app. Qed.

(* one more coupon on top of the spec registers *)
Lemma spec_regs_snoc lgk C c : reg_max_upd lgk (spec_regs lgk C) c = spec_regs lgk (C ++ [c]).
Proof.
  rewrite <- !fold_reg_max_spec. now rewrite fold_left_app.
Qed.

Lemma spec_regs_bound lgk C s : Forall cvalid C -> getN (spec_regs lgk C) s < 64.
Proof.
  intros HC. destruct (N.lt_ge_cases s (2 ^ lgk)) as [Hs|Hs].
  - rewrite getN_spec_regs by auto.
    destruct (slot_max_attained lgk C s) as [->|(c & Hc & _ & <-)]; [lia|].
    apply c_val_lt. rewrite Forall_forall in HC. now apply HC.
  - rewrite getN_overflow; [lia|]. now rewrite spec_regs_length.
Qed.

(* ---------- estimator inputs as functions of the registers ---------- *)
Definition kxq0_of (regs : list N) : Z := fold_right (fun v acc => if v <? 32 then (inv0 v + acc)%Z else acc) 0%Z regs.
Definition kxq1_of (regs : list N) : Z := fold_right (fun v acc => if v <? 32 then acc else (inv1 v + acc)%Z) 0%Z regs.
Definition count_eq (x : N) (regs : list N) : N := lenN (filter (N.eqb x) regs).

Lemma kxq_of_setN regs s v : s < lenN regs ->
  kxq0_of (setN regs s v) = (kxq0_of regs - (if (getN regs s <? 32)%N then inv0 (getN regs s) else 0)
                                        + (if (v <? 32)%N then inv0 v else 0))%Z /\
  kxq1_of (setN regs s v) = (kxq1_of regs - (if (getN regs s <? 32)%N then 0 else inv1 (getN regs s))
                                        + (if (v <? 32)%N then 0 else inv1 v))%Z.
Proof.
  unfold getN, setN, lenN. intros H. assert (Hn : (N.to_nat s < length regs)%nat) by lia. clear H.
  revert Hn. generalize (N.to_nat s). unfold kxq0_of, kxq1_of.
  induction regs as [|x t IH]; intros [|n] Hn; cbn [length fold_right nth upd_nth] in *; try lia.
  - destruct (x <? 32), (v <? 32); lia.
  - destruct (IH n ltac:(lia)) as [E0 E1]. rewrite E0, E1. destruct (x <? 32); lia.
Qed.

Lemma count_eq_setN x regs s v : s < lenN regs ->
  Z.of_N (count_eq x (setN regs s v)) =
  (Z.of_N (count_eq x regs) - (if (x =? getN regs s)%N then 1 else 0) + (if (x =? v)%N then 1 else 0))%Z.
Proof.
  unfold count_eq, getN, setN, lenN. intros H. assert (Hn : (N.to_nat s < length regs)%nat) by lia. clear H.
  revert Hn. generalize (N.to_nat s).
  induction regs as [|y t IH]; intros [|n] Hn; cbn [length filter nth upd_nth] in *; try lia.
  - destruct (x =? y), (x =? v); cbn [length]; lia.
  - specialize (IH n ltac:(lia)). destruct (x =? y); cbn [length]; lia.
Qed.

Lemma kxq0_of_zeros n : kxq0_of (zerosN n) = (Z.of_N n * 2147483648)%Z.
Proof.
  unfold zerosN. rewrite <- (N2Nat.id n) at 2. generalize (N.to_nat n). intros m.
  unfold kxq0_of in *. induction m; cbn [repeat fold_right]; [reflexivity|]. rewrite IHm.
  change (0 <? 32) with true. cbv iota. change (inv0 0) with 2147483648%Z. lia.
Qed.

Lemma kxq1_of_zeros n : kxq1_of (zerosN n) = 0%Z.
Proof.
  unfold zerosN, kxq1_of. generalize (N.to_nat n). intros m. induction m; cbn [repeat fold_right]; auto.
Qed.

Lemma count_eq_zeros n : count_eq 0 (zerosN n) = n.
Proof.
  unfold count_eq, zerosN, lenN. rewrite <- (N2Nat.id n) at 2. generalize (N.to_nat n). intros m.
  induction m; cbn [repeat filter length N.eqb]; [reflexivity|]. cbn [length]. lia.
Qed.

(* estimator inputs of an array whose registers are [regs]: what the composite estimator, the bounds and
   the HIP increments read.  For HLL_6/HLL_8 cur_min stays 0 and num_at_cur_min counts the zero registers. *)
Definition est_ok (h : hllarr) (regs : list N) : Prop :=
  h_kxq0 h = kxq0_of regs /\ h_kxq1 h = kxq1_of regs.

Ltac hsimp := cbn [h_lgk h_ty h_full h_ooo h_rebuild h_bytes h_curmin h_numat h_kxq0 h_kxq1 h_aux
                    h_with_data h_set_bytes h_set_numat h_set_aux h_set_flags kxq_upd] in *.

Lemma kxq_upd_est h regs s nv :
  est_ok h regs -> s < lenN regs ->
  est_ok (kxq_upd h (getN regs s) nv) (setN regs s nv).
Proof.
  intros [E0 E1] Hs. destruct (kxq_of_setN regs s nv Hs) as [F0 F1].
  unfold est_ok. hsimp. rewrite F0, F1, <- E0, <- E1. split; reflexivity.
Qed.

(* ---------- Hll8 ---------- *)
(* invariant of an HLL_6 / HLL_8 array whose logical registers are [regs] *)
Definition inv68 (h : hllarr) (regs : list N) : Prop :=
  lenN regs = 2 ^ h_lgk h /\ est_ok h regs /\ h_curmin h = 0 /\ h_numat h = count_eq 0 regs /\ h_aux h = None.

Definition same_cfg (h h' : hllarr) : Prop :=
  h_lgk h' = h_lgk h /\ h_ty h' = h_ty h /\ h_full h' = h_full h /\ h_ooo h' = h_ooo h /\ h_rebuild h' = h_rebuild h.

Lemma same_cfg_refl h : same_cfg h h.
Proof. repeat split. Qed.

Lemma same_cfg_trans a b c : same_cfg a b -> same_cfg b c -> same_cfg a c.
Proof. unfold same_cfg. intuition congruence. Qed.

Lemma numat_zero_step regs s nv na : s < lenN regs -> getN regs s < nv -> na = count_eq 0 regs ->
  (if getN regs s =? 0 then N.pred na else na) = count_eq 0 (setN regs s nv).
Proof.
  intros Hs Hlt ->. pose proof (count_eq_setN 0 regs s nv Hs) as Hc.
  destruct (N.eqb_spec (getN regs s) 0) as [E|E].
  - rewrite E in Hc. change (0 =? 0) with true in Hc. destruct (N.eqb_spec 0 nv); lia.
  - destruct (N.eqb_spec 0 (getN regs s)); [lia|]. destruct (N.eqb_spec 0 nv); lia.
Qed.

Lemma hll8_update_step h c :
  inv68 h (h_bytes h) ->
  h_bytes (hll8_update h c) = reg_max_upd (h_lgk h) (h_bytes h) c /\
  inv68 (hll8_update h c) (h_bytes (hll8_update h c)) /\ same_cfg h (hll8_update h c).
Proof.
  intros (Hl & He & Hcm & Hna & Hax).
  unfold hll8_update, reg_max_upd.
  pose proof (c_slot_lt (h_lgk h) c) as Hs.
  set (s := c_slot (h_lgk h) c) in *. set (nv := c_val c).
  destruct (N.ltb_spec (getN (h_bytes h) s) nv) as [Hlt|Hge];
    [|split; [reflexivity|split; [repeat split; auto; apply He|apply same_cfg_refl]]].
  assert (Hs' : s < lenN (h_bytes h)) by lia.
  pose proof (kxq_upd_est h (h_bytes h) s nv He Hs') as [E0 E1].
  unfold inv68, same_cfg, est_ok in *. hsimp.
  split; [reflexivity|]. split; [|repeat split].
  split; [now rewrite lenN_setN|]. split; [split; assumption|]. split; [exact Hcm|]. split; [|exact Hax].
  now apply numat_zero_step.
Qed.

(* ---------- Hll6: packed 6-bit values, two-byte read-modify-write ---------- *)
Ltac dlia := zify; Z.to_euclidean_division_equations; lia.

Definition bytes_ok (b : list N) : Prop := Forall (fun x => x < 256) b.

Lemma getN_bytes_ok b i : bytes_ok b -> getN b i < 256.
Proof.
  intros H. unfold getN. destruct (Nat.lt_ge_cases (N.to_nat i) (length b)) as [Hi|Hi].
  - unfold bytes_ok in H. rewrite Forall_forall in H. apply H. now apply nth_In.
  - rewrite nth_overflow by lia. lia.
Qed.

Lemma bytes_ok_setN b i v : bytes_ok b -> v < 256 -> bytes_ok (setN b i v).
Proof.
  unfold bytes_ok, setN. intros H Hv. revert H. generalize (N.to_nat i).
  induction b as [|x t IH]; intros n H; destruct n; simpl; auto; inversion H; subst; constructor; auto.
Qed.

Lemma bytes_ok_zeros n : bytes_ok (zerosN n).
Proof. unfold bytes_ok, zerosN. apply Forall_forall. intros x Hx. apply repeat_spec in Hx. subst. lia. Qed.

Lemma small_testbit_high x n t : x < 2 ^ n -> n <= t -> N.testbit x t = false.
Proof. intros Hx Ht. rewrite <- (N.mod_small x (2 ^ n)) by exact Hx. now apply N.mod_pow2_bits_high. Qed.

Lemma lt_pow2_of_bits x n : (forall t, n <= t -> N.testbit x t = false) -> x < 2 ^ n.
Proof.
  intros H. assert (E : x = x mod 2 ^ n).
  { apply N.bits_inj. intros t. destruct (N.lt_ge_cases t n) as [Ht|Ht].
    - now rewrite N.mod_pow2_bits_low.
    - rewrite N.mod_pow2_bits_high by exact Ht. now apply H. }
  rewrite E. apply N.mod_lt. apply N.pow_nonzero. discriminate.
Qed.

Lemma ones_testbit n t : N.testbit (N.ones n) t = (t <? n).
Proof.
  destruct (N.ltb_spec t n).
  - now apply N.ones_spec_low.
  - now apply N.ones_spec_high.
Qed.

(* the 16-bit little-endian window *)
Lemma window_bit lo hi t : lo < 256 -> N.testbit (N.lor (N.shiftl hi 8) lo) t =
  if t <? 8 then N.testbit lo t else N.testbit hi (t - 8).
Proof.
  intros Hlo. rewrite N.lor_spec. destruct (N.ltb_spec t 8) as [H|H].
  - now rewrite N.shiftl_spec_low.
  - rewrite N.shiftl_spec_high' by exact H.
    rewrite (small_testbit_high lo 8 t) by (auto; change (2 ^ 8) with 256; lia). apply orb_false_r.
Qed.

(* inserting a 6-bit field at bit [sh] *)
Lemma ins_bit cur v sh t :
  N.testbit (N.lor (N.ldiff cur (N.shiftl 63 sh)) (N.shiftl (N.land v 63) sh)) t =
  if (sh <=? t) && (t <? sh + 6) then N.testbit v (t - sh) else N.testbit cur t.
Proof.
  rewrite N.lor_spec, N.ldiff_spec. change 63 with (N.ones 6).
  destruct (N.leb_spec sh t) as [H|H].
  - rewrite !N.shiftl_spec_high' by exact H. rewrite N.land_spec, !ones_testbit.
    destruct (N.ltb_spec t (sh + 6)) as [H2|H2].
    + replace (t - sh <? 6) with true by (symmetry; apply N.ltb_lt; lia).
      cbn [andb negb]. now rewrite andb_false_r, andb_true_r.
    + replace (t - sh <? 6) with false by (symmetry; apply N.ltb_ge; lia).
      cbn [andb negb]. now rewrite andb_true_r, andb_false_r, orb_false_r.
  - rewrite !N.shiftl_spec_low by exact H. cbn [andb negb]. now rewrite andb_true_r, orb_false_r.
Qed.

Definition abit (b : list N) (n : N) : bool := N.testbit (getN b (n / 8)) (n mod 8).

Lemma window_abit b bi t : bytes_ok b -> t < 16 ->
  N.testbit (N.lor (N.shiftl (getN b (bi + 1)) 8) (getN b bi)) t = abit b (8 * bi + t).
Proof.
  intros Hb Ht. rewrite window_bit by now apply getN_bytes_ok. unfold abit.
  destruct (N.ltb_spec t 8) as [H|H].
  - replace ((8 * bi + t) / 8) with bi by dlia. replace ((8 * bi + t) mod 8) with t by dlia. reflexivity.
  - replace ((8 * bi + t) / 8) with (bi + 1) by dlia. replace ((8 * bi + t) mod 8) with (t - 8) by dlia. reflexivity.
Qed.

Lemma get6_bits b s j : bytes_ok b ->
  N.testbit (get6 b s) j = (j <? 6) && abit b (6 * s + j).
Proof.
  intros Hb. unfold get6. rewrite N.land_spec. change 63 with (N.ones 6). rewrite ones_testbit.
  destruct (N.ltb_spec j 6) as [Hj|Hj]; [|now rewrite andb_false_r].
  rewrite andb_true_r, N.shiftr_spec'. cbn [andb].
  rewrite N.shiftr_div_pow2. change (N.land (s * 6) 7) with (N.land (s * 6) (N.ones 3)). rewrite N.land_ones.
  change (2 ^ 3) with 8.
  rewrite window_abit by (auto; dlia). f_equal. dlia.
Qed.

Lemma get6_lt b s : get6 b s < 64.
Proof.
  unfold get6. change 63 with (N.ones 6). rewrite N.land_ones. apply N.mod_lt. discriminate.
Qed.

Lemma tb_255 t : N.testbit 255 t = (t <? 8).
Proof. change 255 with (N.ones 8). apply ones_testbit. Qed.

Lemma tb_ff00 t : N.testbit 65280 t = (8 <=? t) && (t <? 16).
Proof.
  change 65280 with (N.shiftl (N.ones 8) 8). destruct (N.leb_spec 8 t) as [H|H].
  - rewrite N.shiftl_spec_high' by exact H. rewrite ones_testbit. cbn [andb].
    destruct (N.ltb_spec (t - 8) 8), (N.ltb_spec t 16); auto; lia.
  - now rewrite N.shiftl_spec_low.
Qed.

Lemma put6_length b s v : lenN (put6 b s v) = lenN b.
Proof. unfold put6. now rewrite !lenN_setN. Qed.

Lemma put6_bytes_ok b s v : bytes_ok b -> bytes_ok (put6 b s v).
Proof.
  intros Hb. unfold put6. apply bytes_ok_setN; [apply bytes_ok_setN; auto|].
  - change 255 with (N.ones 8). rewrite N.land_ones. apply N.mod_lt. discriminate.
  - change 256 with (2 ^ 8). apply lt_pow2_of_bits. intros t Ht.
    rewrite N.shiftr_spec', N.land_spec, tb_ff00.
    replace (t + 8 <? 16) with false by (symmetry; apply N.ltb_ge; lia). now rewrite andb_false_r, andb_false_r.
Qed.

Lemma put6_bits b s v n : bytes_ok b -> (s * 6) / 8 + 1 < lenN b ->
  abit (put6 b s v) n = if (6 * s <=? n) && (n <? 6 * s + 6) then N.testbit v (n - 6 * s) else abit b n.
Proof.
  intros Hb Hlen. unfold put6, abit.
  rewrite N.shiftr_div_pow2. change (N.land (s * 6) 7) with (N.land (s * 6) (N.ones 3)). rewrite N.land_ones.
  change (2 ^ 3) with 8.
  set (bi := s * 6 / 8) in *. set (sh := (s * 6) mod 8).
  assert (E : s * 6 = 8 * bi + sh) by (subst bi sh; dlia).
  assert (Hsh : sh < 8) by (subst sh; dlia).
  set (cur := N.lor (N.shiftl (getN b (bi + 1)) 8) (getN b bi)).
  set (ins := N.lor (N.ldiff cur (N.shiftl 63 sh)) (N.shiftl (N.land v 63) sh)).
  rewrite getN_setN by (rewrite lenN_setN; lia).
  destruct (N.eqb_spec (bi + 1) (n / 8)) as [E1|E1].
  - (* high byte of the window *)
    rewrite N.shiftr_spec', N.land_spec, tb_ff00.
    replace (8 <=? n mod 8 + 8) with true by (symmetry; apply N.leb_le; dlia).
    replace (n mod 8 + 8 <? 16) with true by (symmetry; apply N.ltb_lt; dlia).
    cbn [andb]. rewrite andb_true_r. subst ins. rewrite ins_bit.
    replace ((sh <=? n mod 8 + 8) && (n mod 8 + 8 <? sh + 6)) with ((6 * s <=? n) && (n <? 6 * s + 6)).
    2:{ destruct (N.leb_spec (6 * s) n), (N.ltb_spec n (6 * s + 6)), (N.leb_spec sh (n mod 8 + 8)),
          (N.ltb_spec (n mod 8 + 8) (sh + 6)); cbn [andb]; auto; dlia. }
    destruct ((6 * s <=? n) && (n <? 6 * s + 6)) eqn:R.
    + f_equal. apply andb_true_iff in R. destruct R as [R1 R2]. apply N.leb_le in R1. apply N.ltb_lt in R2. dlia.
    + subst cur. rewrite window_abit by (auto; dlia). unfold abit. f_equal; [f_equal|]; dlia.
  - rewrite getN_setN by lia. destruct (N.eqb_spec bi (n / 8)) as [E2|E2].
    + (* low byte of the window *)
      rewrite N.land_spec, tb_255. replace (n mod 8 <? 8) with true by (symmetry; apply N.ltb_lt; dlia).
      rewrite andb_true_r. subst ins. rewrite ins_bit.
      replace ((sh <=? n mod 8) && (n mod 8 <? sh + 6)) with ((6 * s <=? n) && (n <? 6 * s + 6)).
      2:{ destruct (N.leb_spec (6 * s) n), (N.ltb_spec n (6 * s + 6)), (N.leb_spec sh (n mod 8)),
            (N.ltb_spec (n mod 8) (sh + 6)); cbn [andb]; auto; dlia. }
      destruct ((6 * s <=? n) && (n <? 6 * s + 6)) eqn:R.
      * f_equal. apply andb_true_iff in R. destruct R as [R1 R2]. apply N.leb_le in R1. apply N.ltb_lt in R2. dlia.
      * subst cur. rewrite window_abit by (auto; dlia). unfold abit. f_equal; [f_equal|]; dlia.
    + (* outside the window: not in the field *)
      replace ((6 * s <=? n) && (n <? 6 * s + 6)) with false; [reflexivity|].
      symmetry. apply andb_false_iff.
      destruct (N.leb_spec (6 * s) n); [|now left]. right. apply N.ltb_ge. dlia.
Qed.

Lemma get6_put6 b s s' v : bytes_ok b -> (s * 6) / 8 + 1 < lenN b -> v < 64 ->
  get6 (put6 b s v) s' = if s =? s' then v else get6 b s'.
Proof.
  intros Hb Hlen Hv. apply N.bits_inj. intros j.
  rewrite get6_bits by now apply put6_bytes_ok. rewrite put6_bits by auto.
  destruct (N.ltb_spec j 6) as [Hj|Hj]; cbn [andb].
  - destruct (N.eqb_spec s s') as [<-|Hne].
    + replace ((6 * s <=? 6 * s + j) && (6 * s + j <? 6 * s + 6)) with true.
      2:{ symmetry. apply andb_true_iff. split; [apply N.leb_le|apply N.ltb_lt]; lia. }
      f_equal. lia.
    + replace ((6 * s <=? 6 * s' + j) && (6 * s' + j <? 6 * s + 6)) with false.
      2:{ symmetry. apply andb_false_iff.
          destruct (N.leb_spec (6 * s) (6 * s' + j)); [|now left]. right. apply N.ltb_ge. lia. }
      rewrite get6_bits by auto. replace (j <? 6) with true by (symmetry; apply N.ltb_lt; lia). reflexivity.
  - destruct (N.eqb_spec s s') as [<-|Hne].
    + symmetry. apply (small_testbit_high v 6); auto.
    + symmetry. apply (small_testbit_high (get6 b s') 6); auto. apply get6_lt.
Qed.

(* the logical registers of a packed 6-bit array *)
Definition abs6 (lgk : N) (b : list N) : list N := map (get6 b) (seqN (2 ^ lgk)).

Lemma abs6_length lgk b : lenN (abs6 lgk b) = 2 ^ lgk.
Proof. unfold abs6, lenN. rewrite map_length. apply seqN_length. Qed.

Lemma getN_abs6 lgk b s : s < 2 ^ lgk -> getN (abs6 lgk b) s = get6 b s.
Proof. intros. unfold abs6. now apply getN_map_seqN. Qed.

Definition len6_ok (lgk : N) (b : list N) : Prop := 2 <= lgk /\ lenN b = arr_bytes T6 lgk.

Lemma len6_window lgk b s : len6_ok lgk b -> s < 2 ^ lgk -> (s * 6) / 8 + 1 < lenN b.
Proof.
  intros [Hk Hl] Hs. rewrite Hl. unfold arr_bytes. rewrite N.shiftr_div_pow2. change (2 ^ 2) with 4.
  replace lgk with (2 + (lgk - 2)) in * by lia. rewrite N.pow_add_r in *. change (2 ^ 2) with 4 in *.
  set (q := 2 ^ (lgk - 2)) in *. dlia.
Qed.

Lemma abs6_put6 lgk b s v : bytes_ok b -> len6_ok lgk b -> s < 2 ^ lgk -> v < 64 ->
  abs6 lgk (put6 b s v) = setN (abs6 lgk b) s v.
Proof.
  intros Hb Hl Hs Hv. apply list_ext_getN.
  - pose proof (abs6_length lgk (put6 b s v)) as H1. pose proof (abs6_length lgk b) as H2.
    rewrite setN_length. unfold lenN in *. lia.
  - intros i Hi. rewrite abs6_length in Hi. rewrite getN_abs6 by auto.
    rewrite getN_setN by (rewrite abs6_length; auto). rewrite getN_abs6 by auto.
    apply get6_put6; auto. eapply len6_window; eauto.
Qed.

Definition inv6 (h : hllarr) : Prop :=
  bytes_ok (h_bytes h) /\ len6_ok (h_lgk h) (h_bytes h) /\ inv68 h (abs6 (h_lgk h) (h_bytes h)).

Lemma hll6_update_step h c : cvalid c -> inv6 h ->
  abs6 (h_lgk h) (h_bytes (hll6_update h c)) = reg_max_upd (h_lgk h) (abs6 (h_lgk h) (h_bytes h)) c /\
  inv6 (hll6_update h c) /\ same_cfg h (hll6_update h c).
Proof.
  intros Hc (Hb & Hlen & Hl & He & Hcm & Hna & Hax).
  unfold hll6_update, reg_max_upd.
  pose proof (c_slot_lt (h_lgk h) c) as Hs. pose proof (c_val_lt c Hc) as Hv.
  set (s := c_slot (h_lgk h) c) in *. set (nv := c_val c) in *.
  rewrite getN_abs6 by auto.
  destruct (N.ltb_spec (get6 (h_bytes h) s) nv) as [Hlt|Hge].
  2:{ split; [reflexivity|]. split; [|apply same_cfg_refl].
      split; [exact Hb|]. split; [exact Hlen|]. unfold inv68. tauto. }
  set (regs := abs6 (h_lgk h) (h_bytes h)) in *.
  assert (Hs' : s < lenN regs) by lia.
  assert (Hg : getN regs s = get6 (h_bytes h) s) by (subst regs; now apply getN_abs6).
  pose proof (kxq_upd_est h regs s nv He Hs') as [E0 E1].
  pose proof (abs6_put6 (h_lgk h) (h_bytes h) s nv Hb Hlen Hs Hv) as Hput. fold regs in Hput.
  unfold inv6, inv68, same_cfg, est_ok in *. hsimp. rewrite Hg in *.
  split; [exact Hput|]. split; [|repeat split].
  split; [now apply put6_bytes_ok|]. split.
  { destruct Hlen as [A B]. split; [exact A|]. now rewrite put6_length. }
  rewrite Hput. split; [now rewrite lenN_setN|]. split; [split; assumption|]. split; [exact Hcm|]. split; [|exact Hax].
  rewrite <- Hg. apply numat_zero_step; auto. now rewrite Hg.
Qed.
