(* Properties_C09_thetawrap.v — serialization round trip / documented layout, Theta family: the wrapped compact sketch
   (wrap() over caller memory + the lazy const_iterator).  Statements only; proofs live in ThetaWrapLang.v, ThetaWrapParse.v,
   ThetaWrapProofs.v (and the codec files they build on).
   Model: coq/ThetaWrapDefs.v — compact_theta_sketch_parser::parse ([parse]: the view) and the iterator state machine as
   coded ([it_begin], [it_next], [it_deref], [it_at_end]; [iterate] = a range-for over the view; [wrap_all] = the view's
   getters + the iterated entries as a compact sketch value); every memory read fails outside the image.
   [wf] / [wf4] are the well-formedness predicates of the codec family (ThetaCodecProofs2.v): 16-bit seed hash, theta <= MAX,
   entries < 2^64, fewer than 2^32 entries, empty => no entries and theta MAX, at most one entry => flagged ordered;
   wf4 adds: entries strictly increasing and below 2^63 (what every ordered sketch satisfies). *)
From Coq Require Import NArith List Bool Lia Arith.
From DS Require Import Word BitPackLang BitPackProofs BitPackSpec ThetaCodecDefs ThetaCodecProofs ThetaCodecProofs2
  ThetaWrapDefs ThetaWrapLang ThetaWrapParse ThetaWrapProofs.
Import ListNotations.
Local Open Scope N_scope.

(* serialize(): for every well-formed sketch and WHATEVER follows the image in memory, wrapping the image and iterating
   yields exactly the entries of s in their stored order, and get_theta64 / is_empty / is_ordered / seed hash are those of s *)
Theorem C09_wrap_v3_roundtrip : forall s, wf s -> forall rest,
  wrap_all (k_seed_hash s) (enc_v3 s ++ rest) = Some s.
Proof. exact wrap_v3_roundtrip. Qed.

(* the compressed image (serial version 4): blocks of 8 deltas through the translated unpack routines, the tail of < 8
   entries bit by bit, deltas accumulated across the block boundaries *)
Theorem C09_wrap_v4_roundtrip : forall s, wf4 s -> suitable_for_compression s = true ->
  exists img, enc_v4 s = Some img /\ forall rest, wrap_all (k_seed_hash s) (img ++ rest) = Some s.
Proof. exact wrap_v4_roundtrip. Qed.

Theorem C09_wrap_serialize_compressed_roundtrip : forall s, wf s -> (suitable_for_compression s = true -> wf4 s) ->
  exists img, serialize_compressed s = Some img /\ forall rest, wrap_all (k_seed_hash s) (img ++ rest) = Some s.
Proof. exact wrap_serialize_compressed_roundtrip. Qed.

(* the iterator never needs a byte at or beyond the end of the image: the same results with nothing after it
   (a read outside [bytes] makes the model fail) *)
Theorem C09_wrap_in_bounds : forall s,
  (wf s -> wrap_all (k_seed_hash s) (enc_v3 s) = Some s) /\
  (wf4 s -> suitable_for_compression s = true -> exists img, enc_v4 s = Some img /\ wrap_all (k_seed_hash s) img = Some s).
Proof. intros s. split; [apply wrap_v3_in_bounds|apply wrap_v4_in_bounds]. Qed.

(* ANY image of serial version 1-4 that the eager decoder (deserialize) accepts is accepted by wrap, and the lazy view
   shows the same sketch: same entries in the same order, emptiness, seed hash, theta, count; the owning sketch only
   normalises the order flag for at most one entry. *)
Theorem C09_wrap_equals_eager_decoder : forall e bytes s,
  dec_bytes e bytes = Some s ->
  exists v, parse e bytes = Some v /\ iterate v bytes = Some (k_entries s) /\
    v_empty v = k_empty s /\ v_seed_hash v = k_seed_hash s /\ v_theta v = k_theta s /\
    N.to_nat (v_num v) = length (k_entries s) /\
    k_ordered s = (v_ordered v || (length (k_entries s) <=? 1)%nat).
Proof. exact wrap_eq_eager_gen. Qed.

(* the two iteration modes, for any view and any memory *)
Theorem C09_wrap_iterate_compressed : forall v bytes n ds,
  compressed v = true -> v_num v = N.of_nat n -> N.of_nat n < two32 -> (1 <= vb v)%nat ->
  unpack_all (S n) (vb v) n (skipn (v_start v) bytes) = Some ds ->
  iterate v bytes = Some (undeltas 0 ds).
Proof. intros v bytes n ds Hc Hn H32 Hb. exact (iterate_compressed v bytes Hc n Hn H32 Hb ds). Qed.

Theorem C09_wrap_iterate_uncompressed : forall v bytes ents, v_bits v = 64 ->
  rd_entries (N.to_nat (v_num v)) (skipn (v_start v) bytes) = Some ents ->
  (v_start v + 8 * N.to_nat (v_num v) <= length bytes)%nat ->
  iterate v bytes = Some ents.
Proof. exact iterate_uncompressed. Qed.

(* re-running one unpack_bits program on the whole image instead of a window of it, and on a fresh value buffer *)
Theorem C09_wrap_exec_transfer : forall i p, Forall (uses_only i) p -> forall v1 W v1' W', exec (v1, W) p = Some (v1', W') ->
  forall v2 L k, (forall j y, get W j = Some y -> get L (k + j) = Some y) -> get v2 i = get v1 i -> (i < length v2)%nat ->
  W' = W /\ (forall m, m <> i -> get v1' m = get v1 m) /\
  exists v2', exec (v2, L) (map (shift_s k) p) = Some (v2', L) /\ get v2' i = get v1' i /\
              (forall m, m <> i -> get v2' m = get v2 m) /\ length v2' = length v2.
Proof. exact exec_transfer. Qed.

(* non-vacuity: an estimation-mode sketch with 19 entries (two blocks and a tail of three; 41-bit deltas) and its images *)
Definition C09w_ex : csk :=
  mk false true 37836 4611686018427387904
     (map (fun i => 1000000000000 * i + i * i) [1; 2; 3; 4; 5; 6; 7; 8; 9; 10; 11; 12; 13; 14; 15; 16; 17; 18; 19]).

Example C09w_ex_wf : wf4 C09w_ex /\ suitable_for_compression C09w_ex = true /\ entry_bits C09w_ex = 40.
Proof.
  unfold wf4, wf. cbn [C09w_ex mk k_seed_hash k_theta k_entries k_empty k_ordered map incr].
  repeat split; try reflexivity; try discriminate; repeat (apply Forall_cons; [reflexivity|]); apply Forall_nil.
Qed.

Example C09w_ex_views :
  wrap_all 37836 (enc_v3 C09w_ex ++ [1; 2; 3]) = Some C09w_ex /\
  match enc_v4 C09w_ex with
  | Some img => length img = 112%nat /\ wrap_all 37836 img = Some C09w_ex /\ wrap_all 37836 (img ++ [9]) = Some C09w_ex /\
                wrap_all 37836 (firstn 111 img) = None            (* one byte short: refused *)
  | None => False
  end.
Proof. vm_compute. repeat split. Qed.

Print Assumptions C09_wrap_v3_roundtrip.
Print Assumptions C09_wrap_v4_roundtrip.
Print Assumptions C09_wrap_serialize_compressed_roundtrip.
Print Assumptions C09_wrap_in_bounds.
Print Assumptions C09_wrap_equals_eager_decoder.
Print Assumptions C09_wrap_iterate_compressed.
Print Assumptions C09_wrap_iterate_uncompressed.
Print Assumptions C09_wrap_exec_transfer.
