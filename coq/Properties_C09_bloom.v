(* Properties_C09_bloom.v — Bloom filter image: serialization round trip (C09).  Statements only; proofs in BloomCodecProofs.v.
   enc : content -> bytes is the writer (serialize, both forms), dec r : bytes -> option (content * unread rest) the reader r in
   {deserialize(bytes), deserialize(istream), wrap, writable_wrap} of BloomCodecDefs.v; these are the definitions that are
   extracted and compared with bloom_filter on every run (image bytes, verdicts and restored content). *)
From Coq Require Import ZArith NArith List Bool Lia.
From DS Require Import Word RunnerLib BloomDefs BloomProofs BloomCodecDefs BloomCodecProofs.
Import ListNotations.
Local Open Scope N_scope.

(* every reader restores exactly the content of every well-formed image; anything may follow the image and is left
   unread (a stream reader consumes exactly the image) *)
Theorem C09_bloom_round_trip : forall r s rest,
  wf s -> (r = RWritable -> c_body s <> None) -> dec r (enc s ++ rest) = Some (s, rest).
Proof. exact dec_enc. Qed.

(* declared exception (the API says so): an empty image cannot be wrapped for writing *)
Theorem C09_bloom_writable_wrap_of_empty_refused : forall s rest,
  wf s -> c_body s = None -> dec RWritable (enc s ++ rest) = None.
Proof. exact dec_writable_empty. Qed.

(* |enc s| = get_serialized_size_bytes: 24 bytes empty, 32 + 8 * longs otherwise *)
Theorem C09_bloom_size : forall s, length (enc s) = enc_size s.
Proof. exact enc_length. Qed.

(* serialize(h) = h zero bytes followed by the image *)
Theorem C09_bloom_header_form : forall h s,
  firstn h (enc_h h s) = repeat 0 h /\ skipn h (enc_h h s) = enc s /\ length (enc_h h s) = (h + enc_size s)%nat.
Proof. exact enc_h_form. Qed.

(* enc is the serialize() of the filter model of C15 (so the theorems of Properties_C15 about serialize are about enc) *)
Theorem C09_bloom_enc_is_serialize : forall f bits, f_cap f mod 64 = 0 -> enc (cimg_of f bits) = serialize f bits.
Proof. exact enc_is_serialize. Qed.

(* every filter object with a valid configuration and a sound cache has a well-formed image ... *)
Theorem C09_bloom_reachable_wf : forall f bits,
  cfg_ok f -> f_nh f <> 0 -> f_cap f <= MAX_BITS -> in_range bits (f_cap f) -> ser_cnt f < 2 ^ 64 -> wf (cimg_of f bits).
Proof. exact wf_cimg_of. Qed.

(* ... hence every reader restores it from serialize(), whatever follows *)
Theorem C09_bloom_deserialize_serialize : forall r f bits rest,
  cfg_ok f -> f_nh f <> 0 -> f_cap f <= MAX_BITS -> in_range bits (f_cap f) -> ser_cnt f < 2 ^ 64 ->
  (r = RWritable -> is_empty f = false) ->
  dec r (serialize f bits ++ rest) = Some (cimg_of f bits, rest).
Proof. exact dec_serialize. Qed.

(* re-serialization is identical: the filter restored from the image of f writes the image of f again
   (renorm = what is_empty() / is_dirty_ of the restored filter make of the stored count) *)
Theorem C09_bloom_reserialize_identical : forall f bits, enc (renorm (cimg_of f bits)) = enc (cimg_of f bits).
Proof. intros. now rewrite renorm_cimg_of. Qed.

(* non-vacuity: a 128-bit filter with 3 hashes, seed 123, count 2, bits 5 and 77 set; its 48-byte image; all four readers *)
Definition ex_img : cimg := mkC 3 123 2 (Some (2, N.setbit (N.setbit 0 5) 77)).
Example C09_bloom_nonvacuous :
  wf ex_img /\ length (enc ex_img) = 48%nat /\
  dec RBytes (enc ex_img ++ [7; 7]) = Some (ex_img, [7; 7]) /\ dec RStream (enc ex_img ++ [7]) = Some (ex_img, [7]) /\
  dec RWrap (enc ex_img) = Some (ex_img, []) /\ dec RWritable (enc ex_img) = Some (ex_img, []) /\
  dec RBytes (enc (mkC 3 123 2 None)) = Some (mkC 3 123 2 None, []) /\ dec RWritable (enc (mkC 3 123 2 None)) = None.
Proof.
  split.
  - unfold wf, ex_img. cbn [c_nh c_seed c_nl c_body]. repeat split; try discriminate; try reflexivity.
  - vm_compute. repeat split; reflexivity.
Qed.

Print Assumptions C09_bloom_round_trip.
Print Assumptions C09_bloom_writable_wrap_of_empty_refused.
Print Assumptions C09_bloom_size.
Print Assumptions C09_bloom_header_form.
Print Assumptions C09_bloom_enc_is_serialize.
Print Assumptions C09_bloom_reachable_wf.
Print Assumptions C09_bloom_deserialize_serialize.
Print Assumptions C09_bloom_reserialize_identical.
