(* ThetaCodecProofs.v — round-trip lemmas for the compact Theta codec model. *)
From Coq Require Import NArith ZArith List Bool Arith Lia.
From DS Require Import Word RunnerLib BitPackLang BitPackProofs BitPackSpec ThetaCodecDefs.
Import ListNotations.
Local Open Scope N_scope.

(* ---------- delta coding ---------- *)
Lemma two64_pos : two64 <> 0. Proof. discriminate. Qed.

Lemma add64_sub64 e p : e < two64 -> p < two64 -> add64 (sub64 e p) p = e.
Proof.
  intros He Hp. unfold add64, sub64. rewrite !w64_mod.
  rewrite (N.mod_small p two64) by assumption.
  rewrite N.add_mod_idemp_l by apply two64_pos.
  replace (e + two64 - p + p) with (e + 1 * two64) by lia.
  rewrite N.mod_add by apply two64_pos. now apply N.mod_small.
Qed.

Lemma undeltas_deltas l : forall p, p < two64 -> Forall (fun e => e < two64) l -> undeltas p (deltas p l) = l.
Proof.
  induction l as [|e r IH]; intros p Hp Hl; [reflexivity|].
  apply Forall_cons_iff in Hl. destruct Hl as [He Hr].
  cbn [deltas undeltas]. rewrite add64_sub64 by assumption. f_equal. now apply IH.
Qed.

Lemma deltas_length l : forall p, length (deltas p l) = length l.
Proof. induction l as [|e r IH]; intros p; simpl; auto. Qed.

(* ---------- all deltas fit in entry_bits ---------- *)
Lemma size_le_lor_l a b : N.size a <= N.size (N.lor a b).
Proof.
  destruct (N.eq_dec a 0) as [->|Ha]; [simpl; lia|].
  assert (N.lor a b <> 0) by (intros H; apply N.lor_eq_0_iff in H; tauto).
  rewrite !N.size_log2 by assumption. rewrite N.log2_lor. lia.
Qed.

Lemma size_fold_lor_acc l : forall acc, N.size acc <= N.size (fold_left N.lor l acc).
Proof.
  induction l as [|x r IH]; intros acc; simpl; [lia|].
  etransitivity; [apply size_le_lor_l|apply IH].
Qed.

Lemma size_in_fold_lor l : forall acc d, In d l -> N.size d <= N.size (fold_left N.lor l acc).
Proof.
  induction l as [|x r IH]; intros acc d Hin; [contradiction|]. simpl.
  destruct Hin as [->|Hin]; [|now apply IH].
  etransitivity; [|apply size_fold_lor_acc]. rewrite N.lor_comm. apply size_le_lor_l.
Qed.

Lemma lt_pow_size d : d < 2 ^ N.size d.
Proof. apply N.size_gt. Qed.

Lemma deltas_fit l : Forall (fun d => d < 2 ^ N.size (fold_left N.lor l 0)) l.
Proof.
  apply Forall_forall. intros d Hd. eapply N.lt_le_trans; [apply lt_pow_size|].
  apply N.pow_le_mono_r; [lia|]. now apply size_in_fold_lor.
Qed.

(* ---------- pack_all / unpack_all ---------- *)
Lemma nbytes_8 b : nbytes b 8 = b.
Proof. unfold nbytes. replace (8 * b + 7)%nat with (7 + b * 8)%nat by lia. rewrite Nat.div_add by lia. reflexivity. Qed.

Lemma firstn_app_exact {A} (x y : list A) n : length x = n -> firstn n (x ++ y) = x.
Proof. intros <-. rewrite firstn_app, Nat.sub_diag, firstn_all. simpl. apply app_nil_r. Qed.

Lemma skipn_app_exact {A} (x y : list A) n : length x = n -> skipn n (x ++ y) = y.
Proof. intros <-. rewrite skipn_app, Nat.sub_diag, skipn_all. reflexivity. Qed.

Lemma Forall_firstn {A} (P : A -> Prop) n l : Forall P l -> Forall P (firstn n l).
Proof.
  revert l; induction n as [|n IH]; intros [|x r] H; simpl; auto.
  apply Forall_cons_iff in H. destruct H. constructor; auto.
Qed.
Lemma Forall_skipn {A} (P : A -> Prop) n l : Forall P l -> Forall P (skipn n l).
Proof.
  revert l; induction n as [|n IH]; intros [|x r] H; simpl; auto.
  apply Forall_cons_iff in H. destruct H. auto.
Qed.

Theorem pack_unpack_all b : (1 <= b <= 63)%nat ->
  forall fuel vals, (length vals < fuel)%nat -> Forall (fun v => v < 2 ^ N.of_nat b) vals ->
  exists bytes, pack_all fuel b vals = Some bytes /\
    forall rest fuel', (length vals < fuel')%nat -> unpack_all fuel' b (length vals) (bytes ++ rest) = Some vals.
Proof.
  intros Hb. induction fuel as [|f IH]; intros vals Hlen Hv; [lia|].
  destruct vals as [|v0 vr].
  - exists []. split; [reflexivity|]. intros rest [|f'] Hf; [simpl in Hf; lia|]. reflexivity.
  - cbn [pack_all]. remember (v0 :: vr) as vals eqn:Ev.
    destruct (Nat.leb_spec 8 (length vals)) as [H8|H8].
    + (* a full block followed by the rest *)
      assert (Hl8 : length (firstn 8 vals) = 8%nat) by (rewrite firstn_length; lia).
      destruct (pack_vals_layout b 8 (firstn 8 vals) Hb ltac:(lia) Hl8 (Forall_firstn _ _ _ Hv))
        as [x [Hx [Hxl _]]]. rewrite nbytes_8 in Hxl.
      assert (Hls : (length (skipn 8 vals) < f)%nat) by (rewrite skipn_length; lia).
      destruct (IH (skipn 8 vals) Hls (Forall_skipn _ _ _ Hv)) as [y [Hy Hun]].
      exists (x ++ y). rewrite Hx, Hy. split; [reflexivity|].
      intros rest [|f'] Hf; [lia|]. cbn [unpack_all].
      destruct (Nat.eqb_spec (length vals) 0); [lia|].
      destruct (Nat.leb_spec 8 (length vals)); [|lia].
      rewrite <- app_assoc.
      destruct (Nat.ltb_spec (length (x ++ y ++ rest)) b) as [Hsh|_]; [rewrite app_length in Hsh; lia|].
      rewrite firstn_app_exact, skipn_app_exact by assumption.
      rewrite (unpack_pack_vals b 8 (firstn 8 vals) x Hb ltac:(lia) Hl8 (Forall_firstn _ _ _ Hv) Hx).
      replace (length vals - 8)%nat with (length (skipn 8 vals)) by (rewrite skipn_length; lia).
      rewrite Hun by (rewrite skipn_length; lia). now rewrite firstn_skipn.
    + (* the tail: fewer than 8 values, generic loop *)
      assert (Hc : (1 <= length vals <= 8)%nat) by (rewrite Ev in *; simpl in *; lia).
      clear Ev.
      destruct (pack_vals_layout b (length vals) vals Hb Hc eq_refl Hv) as [x [Hx [Hxl _]]].
      exists x. split; [exact Hx|].
      intros rest [|f'] Hf; [lia|]. cbn [unpack_all].
      destruct (Nat.eqb_spec (length vals) 0); [lia|].
      destruct (Nat.leb_spec 8 (length vals)); [lia|].
      destruct (Nat.ltb_spec (length (x ++ rest)) (nbytes b (length vals))) as [Hsh|_];
        [rewrite app_length in Hsh; lia|].
      rewrite firstn_app_exact by assumption.
      exact (unpack_pack_vals b (length vals) vals x Hb Hc eq_refl Hv Hx).
Qed.
