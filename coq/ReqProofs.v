(* ReqProofs.v — lemmas about the REQ model (ReqDefs.v): choice monad, sorted runs, one compaction,
   invariants of update and merge for every outcome of the coins, reachable states. *)
From Coq Require Import ZArith List Bool Lia Permutation Sorted.
From DS Require Import RunnerLib SortedView ReqDefs.
Import ListNotations.
Local Open Scope Z_scope.

Ltac splits := repeat match goal with |- _ /\ _ => split end.

(* ===================== choice monad ===================== *)
Inductive leaf {A} : M A -> A -> Prop :=
| leaf_ret a : leaf (Ret a) a
| leaf_flip k c a : leaf (k c) a -> leaf (Flip k) a.

Lemma leaf_ret_inv {A} (a b : A) : leaf (Ret a) b -> b = a.
Proof. inversion 1; auto. Qed.

Lemma leaf_flip_inv {A} (k : bool -> M A) b : leaf (Flip k) b -> exists c, leaf (k c) b.
Proof. inversion 1; subst; eauto. Qed.

Lemma leaf_bind {A B} (m : M A) (f : A -> M B) b :
  leaf (bind m f) b <-> exists a, leaf m a /\ leaf (f a) b.
Proof.
  split.
  - revert b; induction m as [a|k IH]; simpl; intros b H.
    + exists a; split; [constructor|assumption].
    + apply leaf_flip_inv in H as [c H]. apply IH in H as (a & H1 & H2).
      exists a; split; [econstructor; eassumption|assumption].
  - intros (a & H1 & H2). induction H1; simpl; auto. econstructor; eauto.
Qed.

(* every outcome the runner can produce from reported coins is a leaf *)
Lemma replay_leaf {A} (m : M A) : forall cs a r, replay m cs = Some (a, r) -> leaf m a.
Proof.
  induction m as [a0|k IH]; simpl; intros cs a r H.
  - inversion H; subst; constructor.
  - destruct cs as [|c cs]; [discriminate|]. econstructor. eapply IH; eauto.
Qed.

(* ===================== lists ===================== *)
Notation ssorted := (StronglySorted Z.le).

Definition cnt (p : Z -> bool) (l : list Z) : Z := count_if p l.

Lemma len_nil {A} : len (@nil A) = 0. Proof. reflexivity. Qed.
Lemma len_cons {A} (x : A) l : len (x :: l) = 1 + len l.
Proof. unfold len. simpl length. lia. Qed.
Lemma len_app {A} (a b : list A) : len (a ++ b) = len a + len b.
Proof. unfold len. rewrite app_length. lia. Qed.
Lemma len_nonneg {A} (l : list A) : 0 <= len l. Proof. unfold len; lia. Qed.
Lemma len_zero_nil {A} (l : list A) : len l = 0 -> l = [].
Proof. destruct l; [reflexivity|rewrite len_cons; pose proof (len_nonneg l); lia]. Qed.
Lemma len_pos_iff {A} (l : list A) : 0 < len l <-> l <> [].
Proof. unfold len. destruct l; simpl length; split; intro H; try congruence; try discriminate; lia. Qed.
Lemma len_perm {A} (a b : list A) : Permutation a b -> len a = len b.
Proof. intro H. unfold len. now rewrite (Permutation_length H). Qed.

Lemma cnt_nil p : cnt p [] = 0. Proof. reflexivity. Qed.
Lemma cnt_cons p x l : cnt p (x :: l) = (if p x then 1 else 0) + cnt p l.
Proof. unfold cnt, count_if. simpl. destruct (p x); [rewrite len_cons|]; lia. Qed.
Lemma cnt_app p a b : cnt p (a ++ b) = cnt p a + cnt p b.
Proof. induction a as [|x a IH]; [rewrite cnt_nil; simpl; lia|]. simpl app. rewrite !cnt_cons, IH. lia. Qed.
Lemma cnt_perm p a b : Permutation a b -> cnt p a = cnt p b.
Proof. induction 1; rewrite ?cnt_cons; lia. Qed.
Lemma cnt_nonneg p l : 0 <= cnt p l.
Proof. unfold cnt, count_if. apply len_nonneg. Qed.
Lemma cnt_true l : cnt (fun _ => true) l = len l.
Proof. induction l as [|x l IH]; [reflexivity|]. rewrite cnt_cons, len_cons, IH. lia. Qed.
Lemma cnt_le_len p l : cnt p l <= len l.
Proof. induction l as [|x l IH]; [reflexivity|]. rewrite cnt_cons, len_cons. destruct (p x); lia. Qed.
Lemma cnt_compl p l : cnt p l + cnt (fun y => negb (p y)) l = len l.
Proof. induction l as [|x l IH]; [reflexivity|]. rewrite !cnt_cons, len_cons. destruct (p x); cbn [negb]; lia. Qed.
Lemma cnt_mono p q l : (forall y, p y = true -> q y = true) -> cnt p l <= cnt q l.
Proof.
  intro H. induction l as [|x l IH]; [reflexivity|]. rewrite !cnt_cons.
  destruct (p x) eqn:E; [rewrite (H _ E); lia|destruct (q x); lia].
Qed.

Lemma evens_cons x r : evens (x :: r) = x :: odds r.
Proof. destruct r; reflexivity. Qed.
Lemma odds_cons x r : odds (x :: r) = evens r.
Proof. reflexivity. Qed.

Lemma evens_odds_perm : forall l, Permutation l (evens l ++ odds l).
Proof.
  induction l as [|x r IH]; [constructor|].
  rewrite evens_cons, odds_cons. simpl. apply perm_skip.
  etransitivity; [exact IH|]. apply Permutation_app_comm.
Qed.

Lemma cnt_evens_odds p l : cnt p (evens l) + cnt p (odds l) = cnt p l.
Proof. rewrite <- cnt_app. symmetry. apply cnt_perm, evens_odds_perm. Qed.

Lemma len_evens_odds : forall l, len (evens l) = (len l + 1) / 2 /\ len (odds l) = len l / 2.
Proof.
  induction l as [|x r [IH1 IH2]]; [split; reflexivity|].
  rewrite evens_cons, odds_cons, !len_cons, IH1, IH2. split.
  - replace (1 + len r + 1) with (len r + 1 * 2) by lia. rewrite Z.div_add by lia. lia.
  - f_equal. lia.
Qed.

Lemma len_halves_even l : Z.even (len l) = true -> len (evens l) = len l / 2 /\ len (odds l) = len l / 2.
Proof.
  intro E. destruct (len_evens_odds l) as [H1 H2]. split; auto. rewrite H1.
  apply Z.even_spec in E as [k E]. rewrite E.
  replace (2 * k + 1) with (1 + k * 2) by lia. rewrite Z.div_add by lia.
  replace (2 * k) with (k * 2) by lia. rewrite Z.div_mul by lia. reflexivity.
Qed.

Lemma Forall_evens_odds (P : Z -> Prop) : forall l, Forall P l -> Forall P (evens l) /\ Forall P (odds l).
Proof.
  induction l as [|x r IH]; intro H; [split; constructor|].
  inversion H; subst. destruct (IH H3). rewrite evens_cons, odds_cons. split; auto.
Qed.

Lemma sorted_evens_odds : forall l, ssorted l -> ssorted (evens l) /\ ssorted (odds l).
Proof.
  induction l as [|x r IH]; intro H; [split; constructor|].
  inversion H; subst. destruct (IH H2) as [He Ho]. rewrite evens_cons, odds_cons. split; auto.
  constructor; auto. now apply Forall_evens_odds.
Qed.

Lemma sorted_app_inv (a b : list Z) : ssorted (a ++ b) -> ssorted a /\ ssorted b.
Proof.
  induction a as [|x a IH]; simpl; intro H; [split; [constructor|assumption]|].
  inversion H; subst. destruct (IH H2). split; auto. constructor; auto.
  apply Forall_app in H3. tauto.
Qed.

Lemma sorted_firstn k (l : list Z) : ssorted l -> ssorted (firstn k l).
Proof. intro H. rewrite <- (firstn_skipn k l) in H. now apply sorted_app_inv in H. Qed.
Lemma sorted_skipn k (l : list Z) : ssorted l -> ssorted (skipn k l).
Proof. intro H. rewrite <- (firstn_skipn k l) in H. now apply sorted_app_inv in H. Qed.

(* insertion sort *)
Lemma insert_perm x : forall l, Permutation (insert x l) (x :: l).
Proof.
  induction l as [|y r IH]; simpl; auto.
  destruct (x <? y); auto. etransitivity; [apply perm_skip, IH|]. apply perm_swap.
Qed.

Lemma isort_perm : forall l, Permutation (isort l) l.
Proof.
  induction l as [|x r IH]; simpl; auto.
  etransitivity; [apply insert_perm|]. now apply perm_skip.
Qed.

Lemma insert_sorted x : forall l, ssorted l -> ssorted (insert x l).
Proof.
  induction l as [|y r IH]; intro H; simpl.
  - constructor; constructor.
  - inversion H; subst. destruct (Z.ltb_spec x y).
    + constructor; auto. constructor; [lia|]. eapply Forall_impl; [|eassumption]. simpl; intros; lia.
    + constructor; auto. eapply Permutation_Forall; [symmetry; apply insert_perm|]. constructor; auto.
Qed.

Lemma isort_sorted : forall l, ssorted (isort l).
Proof. induction l; simpl; [constructor|]. now apply insert_sorted. Qed.

Lemma sorted_perm_eq : forall a b, ssorted a -> ssorted b -> Permutation a b -> a = b.
Proof.
  induction a as [|x a IH]; intros b Ha Hb P.
  - apply Permutation_nil in P. now subst.
  - destruct b as [|y b]; [apply Permutation_sym, Permutation_nil in P; discriminate|].
    inversion Ha as [|? ? Ha' Fa]; inversion Hb as [|? ? Hb' Fb]; subst.
    assert (x = y).
    { assert (In x (y :: b)) as I1 by (eapply Permutation_in; [exact P|now left]).
      assert (In y (x :: a)) as I2 by (eapply Permutation_in; [symmetry; exact P|now left]).
      rewrite Forall_forall in Fa, Fb.
      destruct I1 as [->|I1]; auto. destruct I2 as [->|I2]; auto.
      specialize (Fa _ I2). specialize (Fb _ I1). lia. }
    subst y. f_equal. apply IH; auto. eapply Permutation_cons_inv; eauto.
Qed.

(* the merge of the code *)
Lemma smerge_nil_l b : smerge [] b = b.
Proof. destruct b; reflexivity. Qed.
Lemma smerge_nil_r a : smerge a [] = a.
Proof. destruct a; reflexivity. Qed.

Lemma smerge_perm : forall a b, Permutation (smerge a b) (a ++ b).
Proof.
  induction a as [|x a IHa]; intro b; [rewrite smerge_nil_l; reflexivity|].
  induction b as [|y b IHb]; [simpl; now rewrite app_nil_r|].
  simpl. destruct (y <? x).
  - etransitivity; [apply perm_skip, IHb|]. apply (Permutation_middle (x :: a) b y).
  - simpl. apply perm_skip. apply IHa.
Qed.

Lemma smerge_sorted : forall a b, ssorted a -> ssorted b -> ssorted (smerge a b).
Proof.
  induction a as [|x a IHa]; intros b Ha Hb; [now rewrite smerge_nil_l|].
  induction b as [|y b IHb]; [simpl; exact Ha|].
  simpl. inversion Ha as [|? ? Ha' Fa]; inversion Hb as [|? ? Hb' Fb]; subst.
  destruct (Z.ltb_spec y x).
  - constructor; [apply IHb; auto|].
    change ((fix inner (b0 : list Z) : list Z :=
               match b0 with [] => x :: a | y0 :: b' => if y0 <? x then y0 :: inner b' else x :: smerge a b0 end) b)
      with (smerge (x :: a) b).
    eapply Permutation_Forall; [symmetry; apply smerge_perm|].
    apply Forall_app; split; auto.
    constructor; [lia|]. eapply Forall_impl; [|exact Fa]. simpl; intros; lia.
  - constructor; [apply IHa; auto|].
    eapply Permutation_Forall; [symmetry; apply smerge_perm|].
    apply Forall_app; split; auto.
    constructor; [lia|]. eapply Forall_impl; [|exact Fb]. simpl; intros; lia.
Qed.

Lemma cnt_smerge p a b : cnt p (smerge a b) = cnt p a + cnt p b.
Proof. rewrite (cnt_perm p _ _ (smerge_perm a b)). apply cnt_app. Qed.
Lemma len_smerge a b : len (smerge a b) = len a + len b.
Proof. rewrite (len_perm _ _ (smerge_perm a b)). apply len_app. Qed.

(* ===================== one compactor ===================== *)
(* the section-size schedule never shrinks the nominal capacity: whenever ensure_enough_sections doubles the number
   of sections, twice the new section size is at least the old one (a fact about binary32 division by sqrtf(2),
   checked by computation for every section size the constructor can produce, see [good_new]) *)
Inductive good : f32 -> Z -> Prop :=
| good_intro raw sz :
    (4 <= nearest_even (f32_div raw sqrt2f) ->
     sz <= 2 * nearest_even (f32_div raw sqrt2f) /\ good (f32_div raw sqrt2f) (nearest_even (f32_div raw sqrt2f))) ->
    good raw sz.

Fixpoint goodb (fuel : nat) (raw : f32) (sz : Z) : bool :=
  match fuel with
  | O => false
  | S f => let r := f32_div raw sqrt2f in
           let ne := nearest_even r in
           if 4 <=? ne then (sz <=? 2 * ne) && goodb f r ne else true
  end.

Lemma goodb_sound : forall fuel raw sz, goodb fuel raw sz = true -> good raw sz.
Proof.
  induction fuel as [|f IH]; intros raw sz H; [discriminate|]. cbn [goodb] in H. constructor. intro G.
  apply Z.leb_le in G. rewrite G in H. apply andb_true_iff in H as [H1 H2]. apply Z.leb_le in H1. split; auto.
Qed.

Definition all_ks : list Z := map Z.of_nat (seq 4 252).       (* 4 .. 255 *)
Lemma good_all : forallb (fun k => goodb 64 (f32_of_Z k) k) all_ks = true.
Proof. vm_compute. reflexivity. Qed.

Lemma good_new k : 4 <= k <= 255 -> good (f32_of_Z k) k.
Proof.
  intro H. apply (goodb_sound 64). pose proof good_all as A. rewrite forallb_forall in A. apply A.
  unfold all_ks. apply in_map_iff. exists (Z.to_nat k). split; [lia|]. apply in_seq. lia.
Qed.

Definition par_ok (c : comp) : Prop := 4 <= ssz c /\ 3 <= nsec c /\ 0 <= cstate c /\ good (ssr c) (ssz c).
Definition comp_sorted (c : comp) : Prop := srt c = true -> ssorted (items c).

Lemma nitems_nonneg c : 0 <= nitems c. Proof. apply len_nonneg. Qed.

Lemma nom_cap_pos c : par_ok c -> 24 <= nom_cap c.
Proof. intros (A & B & _). unfold nom_cap. nia. Qed.

Lemma append_spec h c x :
  Permutation (items (append h c x)) (x :: items c) /\ nitems (append h c x) = nitems c + 1 /\
  lgw (append h c x) = lgw c /\ ssz (append h c x) = ssz c /\ nsec (append h c x) = nsec c /\
  cstate (append h c x) = cstate c /\ coin (append h c x) = coin c /\ ssr (append h c x) = ssr c /\
  (comp_sorted c -> comp_sorted (append h c x)).
Proof.
  unfold append, set_items, nitems; cbn [items lgw ssz nsec cstate coin ssr srt].
  assert (P : Permutation (if h then x :: items c else items c ++ [x]) (x :: items c)).
  { destruct h; [reflexivity|]. symmetry. apply Permutation_cons_append. }
  splits; auto.
  - rewrite (len_perm _ _ P), len_cons. lia.
  - intro S. unfold comp_sorted; cbn [srt items].
    destruct (Z.ltb_spec 1 (len (if h then x :: items c else items c ++ [x]))); [discriminate|].
    intros _. rewrite (len_perm _ _ P), len_cons in H.
    assert (E : items c = []) by (apply len_zero_nil; pose proof (len_nonneg (items c)); lia).
    rewrite E. destruct h; simpl; repeat constructor.
Qed.

Lemma csort_spec c :
  Permutation (items (csort c)) (items c) /\ srt (csort c) = true /\ (comp_sorted c -> ssorted (items (csort c))) /\
  lgw (csort c) = lgw c /\ ssz (csort c) = ssz c /\ nsec (csort c) = nsec c /\ cstate (csort c) = cstate c /\
  coin (csort c) = coin c /\ ssr (csort c) = ssr c /\ nitems (csort c) = nitems c.
Proof.
  unfold csort, nitems. destruct (srt c) eqn:E.
  - splits; auto.
  - unfold set_items; cbn [items lgw ssz nsec cstate coin ssr srt].
    splits; auto using isort_perm. + intros _. apply isort_sorted. + apply len_perm, isort_perm.
Qed.

Lemma ensure_sections_spec c : par_ok c ->
  let c' := fst (ensure_sections c) in
  items c' = items c /\ lgw c' = lgw c /\ srt c' = srt c /\ coin c' = coin c /\ cstate c' = cstate c /\ par_ok c'.
Proof.
  intros (A & B & C & G). unfold ensure_sections.
  destruct ((2 ^ (nsec c - 1) <=? cstate c) && (4 <=? nearest_even (f32_div (ssr c) sqrt2f))) eqn:E; cbn [fst].
  - apply andb_true_iff in E as [_ E]. apply Z.leb_le in E.
    cbn [items lgw srt coin cstate ssz nsec]. unfold par_ok; cbn [ssz nsec cstate ssr].
    inversion G as [? ? G1]; subst. destruct (G1 E) as (_ & G2). splits; auto; lia.
  - unfold par_ok. splits; auto.
Qed.

(* ensure_enough_sections never lowers the nominal capacity *)
Lemma ensure_sections_cap c : par_ok c -> nom_cap c <= nom_cap (fst (ensure_sections c)).
Proof.
  intros (A & B & C & G). unfold ensure_sections.
  destruct ((2 ^ (nsec c - 1) <=? cstate c) && (4 <=? nearest_even (f32_div (ssr c) sqrt2f))) eqn:E; cbn [fst]; [|lia].
  apply andb_true_iff in E as [_ E]. apply Z.leb_le in E. inversion G as [? ? G1]; subst. destruct (G1 E) as (G2 & _).
  unfold nom_cap; cbn [ssz nsec]. nia.
Qed.

Lemma ensure_loop_spec : forall fuel c, par_ok c ->
  let c' := ensure_loop fuel c in
  items c' = items c /\ lgw c' = lgw c /\ srt c' = srt c /\ coin c' = coin c /\ cstate c' = cstate c /\ par_ok c'.
Proof.
  induction fuel as [|f IH]; intros c P; cbn [ensure_loop]; cbv zeta; [splits; auto|].
  pose proof (ensure_sections_spec c P) as H. destruct (ensure_sections c) as [c1 g]. cbn [fst] in H.
  destruct H as (H1 & H2 & H3 & H4 & H5 & H6).
  destruct g; [|splits; auto].
  destruct (IH c1 H6) as (K1 & K2 & K3 & K4 & K5 & K6). splits; try congruence; auto.
Qed.

Lemma lor_nonneg a b : 0 <= a -> 0 <= b -> 0 <= Z.lor a b.
Proof. intros. now apply Z.lor_nonneg. Qed.

Lemma comp_merge_spec h c o : par_ok c -> 0 <= cstate o -> comp_sorted c -> comp_sorted o ->
  let c' := comp_merge h c o in
  Permutation (items c') (items c ++ items o) /\ lgw c' = lgw c /\ srt c' = true /\ ssorted (items c') /\
  par_ok c' /\ coin c' = coin c.
Proof.
  intros P So Sc Sso. unfold comp_merge.
  set (c1 := mkcomp (lgw c) (coin c) (srt c) (ssr c) (ssz c) (nsec c) (Z.lor (cstate c) (cstate o)) (items c)).
  assert (P1 : par_ok c1).
  { destruct P as (A & B & C & G). unfold par_ok, c1; cbn [ssz nsec cstate ssr]. splits; auto. now apply lor_nonneg. }
  destruct (ensure_loop_spec 64 c1 P1) as (E1 & E2 & E3 & E4 & E5 & E6).
  set (c2 := ensure_loop 64 c1) in *.
  destruct (csort_spec c2) as (F1 & F2 & F3 & F4 & F5 & F6 & F7 & F8 & F9 & F10).
  assert (S2 : ssorted (items (csort c2))).
  { apply F3. unfold comp_sorted. rewrite E1, E3. exact Sc. }
  set (oi := if srt o then items o else isort (items o)).
  assert (Po : Permutation oi (items o)) by (unfold oi; destruct (srt o); [reflexivity|apply isort_perm]).
  assert (Soi : ssorted oi) by (unfold oi; destruct (srt o) eqn:Eo; [now apply Sso|apply isort_sorted]).
  assert (Pc : Permutation (items (csort c2)) (items c)) by (rewrite F1, E1; reflexivity).
  unfold set_items; cbn [items lgw srt coin ssz nsec cstate].
  assert (PK : par_ok (csort c2)).
  { destruct E6 as (A & B & C & G). unfold par_ok. rewrite F5, F6, F7, F9. auto. }
  assert (LG : lgw (csort c2) = lgw c) by (rewrite F4, E2; reflexivity).
  assert (CO : coin (csort c2) = coin c) by (rewrite F8, E4; reflexivity).
  splits; auto.
  - destruct (items (csort c2)) as [|z zs] eqn:Ez.
    + apply Permutation_nil in Pc. rewrite Pc. simpl. exact Po.
    + rewrite <- Ez in *. destruct h.
      * rewrite smerge_perm, Po, Pc. apply Permutation_app_comm.
      * rewrite smerge_perm, Po, Pc. reflexivity.
  - destruct (items (csort c2)) as [|z zs] eqn:Ez; auto.
    rewrite <- Ez in *. destruct h; apply smerge_sorted; auto.
Qed.

(* ---------- the compaction range ---------- *)
Lemma tones_nonneg : forall fuel s, 0 <= tones fuel s.
Proof. induction fuel as [|f IH]; intro s; cbn [tones]; [lia|]. destruct (Z.odd s); [specialize (IH (s / 2))|]; lia. Qed.

Lemma range_ok h c : par_ok c -> nom_cap c <= nitems c ->
  let lo := fst (comp_range h c) in
  let hi := snd (comp_range h c) in
  0 <= lo /\ lo <= hi /\ hi <= nitems c /\ Z.even (hi - lo) = true /\ 2 <= hi - lo /\
  0 < nitems c - (hi - lo) /\ nitems c - (hi - lo) < nom_cap c /\ (h = true -> lo = 0) /\ (h = false -> hi = nitems c).
Proof.
  intros (A & B & C & _) N. unfold comp_range.
  pose proof (tones_nonneg 64 (cstate c)) as T.
  set (secs := Z.min (tones 64 (cstate c) + 1) (nsec c)).
  assert (S1 : 1 <= secs <= nsec c) by (unfold secs; lia).
  unfold nom_cap in *.
  replace (2 * nsec c * ssz c / 2) with (nsec c * ssz c) by (replace (2 * nsec c * ssz c) with (nsec c * ssz c * 2) by lia; now rewrite Z.div_mul by lia).
  set (a := nsec c * ssz c) in *.
  set (b := (nsec c - secs) * ssz c).
  assert (Hb : 0 <= b <= a - ssz c) by (unfold a, b; nia).
  assert (Ha : 2 * nsec c * ssz c = 2 * a) by (unfold a; lia). rewrite Ha in *.
  destruct (Z.odd (nitems c - (a + b))) eqn:O.
  - assert (E : Z.even (nitems c - (a + b + 1)) = true).
    { replace (nitems c - (a + b + 1)) with (nitems c - (a + b) - 1) by lia.
      rewrite Z.even_sub. rewrite <- Z.negb_odd, O. reflexivity. }
    assert (G : 2 <= nitems c - (a + b + 1)).
    { apply Z.even_spec in E as [k E]. lia. }
    destruct h; cbn [fst snd]; splits; rewrite ?Z.sub_0_r; try exact E; try lia; try (intro; discriminate).
  - assert (E : Z.even (nitems c - (a + b)) = true) by (rewrite <- Z.negb_odd, O; reflexivity).
    assert (G : 2 <= nitems c - (a + b)) by lia.
    destruct h; cbn [fst snd]; splits; rewrite ?Z.sub_0_r; try exact E; try lia; try (intro; discriminate).
Qed.

(* the run that is halved and what stays, as lists *)
Definition crange (h : bool) (c : comp) : list Z :=
  let lo := Z.to_nat (fst (comp_range h c)) in
  let hi := Z.to_nat (snd (comp_range h c)) in
  firstn (hi - lo)%nat (skipn lo (items c)).
Definition ckept (h : bool) (c : comp) : list Z :=
  let lo := Z.to_nat (fst (comp_range h c)) in
  let hi := Z.to_nat (snd (comp_range h c)) in
  if h then skipn hi (items c) else firstn lo (items c).

Lemma range_lists (h : bool) c : par_ok c -> nom_cap c <= nitems c ->
  (items c = if h then crange h c ++ ckept h c else ckept h c ++ crange h c) /\
  len (crange h c) = snd (comp_range h c) - fst (comp_range h c).
Proof.
  intros P N. destruct (range_ok h c P N) as (A & B & C & D & E & F & G & H0 & H1).
  unfold crange, ckept. set (lo := fst (comp_range h c)) in *. set (hi := snd (comp_range h c)) in *.
  unfold nitems, len in *.
  destruct h.
  - rewrite (H0 eq_refl). change (Z.to_nat 0) with 0%nat. rewrite Nat.sub_0_r. cbn [skipn].
    split; [now rewrite firstn_skipn|]. rewrite firstn_length. rewrite (H0 eq_refl) in *. lia.
  - rewrite (H1 eq_refl) in *. rewrite Nat2Z.id.
    assert (L : firstn (length (items c) - Z.to_nat lo) (skipn (Z.to_nat lo) (items c)) = skipn (Z.to_nat lo) (items c)).
    { apply firstn_all2. rewrite skipn_length. lia. }
    rewrite L. split; [now rewrite firstn_skipn|]. rewrite skipn_length. lia.
Qed.

Definition promoted (cn : bool) (r : list Z) : list Z := if cn then odds r else evens r.

Lemma compact_with_eq (h : bool) c nx cn :
  compact_with h c nx cn =
  let c1 := mkcomp (lgw c) cn (srt c) (ssr c) (ssz c) (nsec c) (cstate c + 1) (ckept h c) in
  let c2 := fst (ensure_sections c1) in
  ((c2, set_items nx (if h then smerge (promoted cn (crange h c)) (items nx) else smerge (items nx) (promoted cn (crange h c))) (srt nx)),
   (len (crange h c) / 2, nom_cap c2 - nom_cap c)).
Proof. reflexivity. Qed.

Record compact_post (h : bool) (c nx c' nx' : comp) (num delta : Z) : Prop := mkcp {
  cp_lg : lgw c' = lgw c /\ lgw nx' = lgw nx;
  cp_srt : srt c' = srt c /\ srt nx' = srt nx;
  cp_par : par_ok c' /\ ssz nx' = ssz nx /\ nsec nx' = nsec nx /\ cstate nx' = cstate nx;
  cp_n : nitems c' = nitems c - 2 * num /\ nitems nx' = nitems nx + num /\ 1 <= num;
  cp_delta : delta = nom_cap c' - nom_cap c;
  cp_sorted : ssorted (items c') /\ ssorted (items nx');
  cp_keep : 0 < nitems c' /\ nitems c' < nom_cap c /\ nitems c' < nom_cap c';
  cp_cnt : forall p, cnt p (items c') + cnt p (items nx') <= cnt p (items c) + cnt p (items nx)
}.

Lemma len_even_half {A} (l : list A) : Z.even (len l) = true -> len l = 2 * (len l / 2).
Proof. intro E. apply Z.even_spec in E as [k E]. rewrite E. replace (2 * k) with (k * 2) by lia. rewrite Z.div_mul; lia. Qed.

Lemma compact_with_spec h c nx cn : par_ok c -> nom_cap c <= nitems c -> ssorted (items c) -> ssorted (items nx) ->
  let r := compact_with h c nx cn in
  compact_post h c nx (fst (fst r)) (snd (fst r)) (fst (snd r)) (snd (snd r)).
Proof.
  intros P N Sc Sn. rewrite compact_with_eq. cbv zeta. cbn [fst snd].
  destruct (range_ok h c P N) as (A & B & C & D & E & F & G & H0 & H1).
  destruct (range_lists h c P N) as (L1 & L2).
  set (rg := crange h c) in *. set (kp := ckept h c) in *.
  assert (EV : Z.even (len rg) = true) by (rewrite L2; exact D).
  destruct (len_halves_even rg EV) as (LE & LO).
  assert (LP : len (promoted cn rg) = len rg / 2) by (unfold promoted; destruct cn; auto).
  assert (PERM : Permutation (items c) (kp ++ rg)).
  { rewrite L1. destruct h; [apply Permutation_app_comm|reflexivity]. }
  assert (SS : ssorted rg /\ ssorted kp).
  { rewrite L1 in Sc. destruct h; apply sorted_app_inv in Sc; tauto. }
  assert (NK : nitems c = len kp + len rg) by (unfold nitems; rewrite (len_perm _ _ PERM), len_app; reflexivity).
  set (c1 := mkcomp (lgw c) cn (srt c) (ssr c) (ssz c) (nsec c) (cstate c + 1) kp).
  assert (P1 : par_ok c1) by (destruct P as (X & Y & Z0 & G0); unfold par_ok, c1; cbn [ssz nsec cstate ssr]; splits; auto; lia).
  destruct (ensure_sections_spec c1 P1) as (E1 & E2 & E3 & E4 & E5 & E6).
  pose proof (ensure_sections_cap c1 P1) as ECAP.
  set (c2 := fst (ensure_sections c1)) in *.
  assert (SP : ssorted (promoted cn rg)).
  { unfold promoted. destruct (sorted_evens_odds rg (proj1 SS)). destruct cn; auto. }
  pose proof (len_even_half rg EV) as HALF.
  assert (NC2 : nitems c2 = len kp) by (unfold nitems; rewrite E1; reflexivity).
  constructor; unfold set_items; cbn [lgw srt ssz nsec cstate items].
  - split; [rewrite E2; reflexivity|reflexivity].
  - split; [rewrite E3; reflexivity|reflexivity].
  - splits; auto.
  - splits.
    + rewrite NC2. lia.
    + unfold nitems; cbn [items]. destruct h; rewrite len_smerge, LP; lia.
    + lia.
  - reflexivity.
  - rewrite E1. cbn [items c1]. split; [tauto|]. destruct h; apply smerge_sorted; auto.
  - rewrite NC2. unfold nom_cap in ECAP at 1; cbn [ssz nsec c1] in ECAP. fold (nom_cap c) in ECAP. lia.
  - intro p. rewrite E1; cbn [items c1]. rewrite (cnt_perm p _ _ PERM), cnt_app.
    assert (cnt p (promoted cn rg) <= cnt p rg).
    { pose proof (cnt_evens_odds p rg). pose proof (cnt_nonneg p (evens rg)). pose proof (cnt_nonneg p (odds rg)).
      unfold promoted; destruct cn; lia. }
    destruct h; rewrite cnt_smerge; lia.
Qed.

(* a fresh coin: the two outcomes add up to twice the run (the basis of unbiasedness) *)
Lemma compact_pair h c nx p : par_ok c -> nom_cap c <= nitems c ->
  let r0 := compact_with h c nx false in
  let r1 := compact_with h c nx true in
  items (fst (fst r0)) = items (fst (fst r1)) /\
  cnt p (items (fst (fst r0))) + cnt p (crange h c) = cnt p (items c) /\
  cnt p (items (snd (fst r0))) + cnt p (items (snd (fst r1))) = 2 * cnt p (items nx) + cnt p (crange h c).
Proof.
  intros P N. rewrite !compact_with_eq. cbv zeta. cbn [fst snd].
  destruct (range_lists h c P N) as (L1 & L2).
  set (c10 := mkcomp (lgw c) false (srt c) (ssr c) (ssz c) (nsec c) (cstate c + 1) (ckept h c)).
  set (c11 := mkcomp (lgw c) true (srt c) (ssr c) (ssz c) (nsec c) (cstate c + 1) (ckept h c)).
  assert (P0 : par_ok c10) by (destruct P as (X & Y & Z0 & G0); unfold par_ok, c10; cbn [ssz nsec cstate ssr]; splits; auto; lia).
  assert (P1 : par_ok c11) by (destruct P as (X & Y & Z0 & G0); unfold par_ok, c11; cbn [ssz nsec cstate ssr]; splits; auto; lia).
  destruct (ensure_sections_spec c10 P0) as (E0 & _). destruct (ensure_sections_spec c11 P1) as (E1 & _).
  rewrite E0, E1. cbn [items c10 c11]. unfold set_items; cbn [items].
  splits.
  - reflexivity.
  - rewrite L1 at 1. destruct h; rewrite cnt_app; lia.
  - pose proof (cnt_evens_odds p (crange h c)). unfold promoted. destruct h; rewrite !cnt_smerge; lia.
Qed.

(* ===================== the list of compactors ===================== *)
Definition Rc (p : Z -> bool) (c : comp) : Z := 2 ^ lgw c * cnt p (items c).
Definition Rs (p : Z -> bool) (cs : list comp) : Z := fold_right (fun c a => Rc p c + a) 0 cs.
Definition all_items (cs : list comp) : list Z := flat_map items cs.
Definition nonempty (c : comp) : Prop := items c <> [].

Fixpoint lgw_from (i : Z) (cs : list comp) : Prop :=
  match cs with
  | [] => True
  | c :: r => lgw c = i /\ lgw_from (i + 1) r
  end.

Lemma Rs_app p a b : Rs p (a ++ b) = Rs p a + Rs p b.
Proof. unfold Rs. induction a as [|c a IH]; cbn [app fold_right]; lia. Qed.
Lemma sum_items_app a b : sum_items (a ++ b) = sum_items a + sum_items b.
Proof. unfold sum_items. induction a as [|c a IH]; cbn [app fold_right]; lia. Qed.
Lemma sum_nom_app a b : sum_nom (a ++ b) = sum_nom a + sum_nom b.
Proof. unfold sum_nom. induction a as [|c a IH]; cbn [app fold_right]; lia. Qed.
Lemma all_items_app a b : all_items (a ++ b) = all_items a ++ all_items b.
Proof. apply flat_map_app. Qed.
Lemma Rs_cons p c r : Rs p (c :: r) = Rc p c + Rs p r. Proof. reflexivity. Qed.
Lemma sum_items_cons c r : sum_items (c :: r) = nitems c + sum_items r. Proof. reflexivity. Qed.
Lemma sum_nom_cons c r : sum_nom (c :: r) = nom_cap c + sum_nom r. Proof. reflexivity. Qed.
Lemma all_items_cons c r : all_items (c :: r) = items c ++ all_items r. Proof. reflexivity. Qed.

Lemma lgw_from_app : forall a b i, lgw_from i (a ++ b) <-> lgw_from i a /\ lgw_from (i + len a) b.
Proof.
  induction a as [|c a IH]; intros b i; cbn [app lgw_from].
  - rewrite len_nil, Z.add_0_r. tauto.
  - rewrite IH, len_cons. replace (i + 1 + len a) with (i + (1 + len a)) by lia. tauto.
Qed.

Lemma sum_items_len cs : sum_items cs = len (all_items cs).
Proof. induction cs as [|c r IH]; [reflexivity|]. rewrite sum_items_cons, all_items_cons, len_app, IH. reflexivity. Qed.

Lemma sum_items_nonneg cs : 0 <= sum_items cs.
Proof. rewrite sum_items_len. apply len_nonneg. Qed.

Lemma nth_split2 (l : list comp) h d : (S h < length l)%nat ->
  exists pre post, l = pre ++ nth h l d :: nth (S h) l d :: post /\ length pre = h.
Proof.
  revert h; induction l as [|x l IH]; intros h H; [simpl in H; lia|].
  destruct h as [|h].
  - destruct l as [|y l]; [simpl in H; lia|]. exists [], l. split; reflexivity.
  - destruct (IH h) as (pre & post & E & L); [simpl in H; lia|].
    exists (x :: pre), post. split; [|simpl; lia].
    change (nth (S h) (x :: l) d) with (nth h l d). change (nth (S (S h)) (x :: l) d) with (nth (S h) l d).
    simpl. f_equal. exact E.
Qed.

Lemma nth_split1 (l : list comp) h d : (h < length l)%nat ->
  exists pre post, l = pre ++ nth h l d :: post /\ length pre = h.
Proof.
  revert h; induction l as [|x l IH]; intros h H; [simpl in H; lia|].
  destruct h as [|h].
  - exists [], l. split; reflexivity.
  - destruct (IH h) as (pre & post & E & L); [simpl in H; lia|].
    exists (x :: pre), post. split; [|simpl; lia]. simpl. f_equal. exact E.
Qed.

Lemma upd_nth_at {A} (pre : list A) x post f : upd_nth (length pre) f (pre ++ x :: post) = pre ++ f x :: post.
Proof. induction pre as [|y pre IH]; simpl; [reflexivity|]. now rewrite IH. Qed.

Lemma upd_nth_at2 {A} (pre : list A) x y post f g :
  upd_nth (S (length pre)) g (upd_nth (length pre) f (pre ++ x :: y :: post)) = pre ++ f x :: g y :: post.
Proof.
  rewrite upd_nth_at. replace (pre ++ f x :: y :: post) with ((pre ++ [f x]) ++ y :: post) by (rewrite <- app_assoc; reflexivity).
  replace (S (length pre)) with (length (pre ++ [f x])) by (rewrite app_length; simpl; lia).
  rewrite upd_nth_at. rewrite <- app_assoc. reflexivity.
Qed.

Lemma pow2_pos l : 0 <= l -> 0 < 2 ^ l.
Proof. intro. apply Z.pow_pos_nonneg; lia. Qed.

(* ===================== the sketch ===================== *)
Record Inv (s : req) : Prop := mkInv {
  i_k : 4 <= rk s <= 255;
  i_ne : comps s <> [];
  i_lg : lgw_from 0 (comps s);
  i_ret : nret s = sum_items (comps s);
  i_nom : maxnom s = sum_nom (comps s);
  i_w : Rs (fun _ => true) (comps s) = rn s;
  i_srt0 : Forall comp_sorted (comps s);
  i_srt1 : Forall (fun c => srt c = true) (tl (comps s));
  i_par : Forall par_ok (comps s)
}.

(* what a step inside an operation may change *)
Record Keep (s s' : req) : Prop := mkKeep {
  k_n : rn s' = rn s;
  k_k : rk s' = rk s;
  k_h : hra s' = hra s;
  k_min : rmin s' = rmin s;
  k_max : rmax s' = rmax s;
  k_cnt : forall p, cnt p (all_items (comps s')) <= cnt p (all_items (comps s));
  k_len : (length (comps s) <= length (comps s'))%nat
}.

Lemma Keep_refl s : Keep s s.
Proof. constructor; auto. intro; lia. Qed.
Lemma Keep_trans a b c : Keep a b -> Keep b c -> Keep a c.
Proof.
  intros [A1 A2 A3 A4 A5 A6 A7] [B1 B2 B3 B4 B5 B6 B7]. constructor; try congruence; try lia.
  intro p. specialize (A6 p). specialize (B6 p). lia.
Qed.

Lemma new_comp_facts lg k c : 4 <= k <= 255 ->
  par_ok (new_comp lg k c) /\ items (new_comp lg k c) = [] /\ lgw (new_comp lg k c) = lg /\ srt (new_comp lg k c) = true.
Proof. intro H. unfold par_ok, new_comp; cbn [ssz nsec cstate items lgw srt ssr]. splits; auto; try lia. now apply good_new. Qed.

Lemma grow_with_spec s c0 : Inv s ->
  Inv (grow_with s c0) /\ Keep s (grow_with s c0) /\
  comps (grow_with s c0) = comps s ++ [new_comp (len (comps s)) (rk s) c0] /\
  all_items (comps (grow_with s c0)) = all_items (comps s).
Proof.
  intros [K NE LG RT NM W S0 S1 PA].
  destruct (new_comp_facts (len (comps s)) (rk s) c0 K) as (F1 & F2 & F3 & F4).
  set (nc := new_comp (len (comps s)) (rk s) c0) in *.
  assert (AI : all_items (comps s ++ [nc]) = all_items (comps s)).
  { rewrite all_items_app. cbn [all_items flat_map]. rewrite F2. now rewrite !app_nil_r. }
  unfold grow_with. fold nc. splits.
  - constructor; cbn [rk comps nret maxnom rn]; auto.
    + destruct (comps s); discriminate.
    + apply lgw_from_app. split; auto. cbn [lgw_from]. split; auto; try (rewrite F3; lia).
    + rewrite sum_items_app, RT. cbn [sum_items fold_right]. unfold nitems. rewrite F2. change (len (@nil Z)) with 0. lia.
    + rewrite Rs_app, W. cbn [Rs fold_right]. unfold Rc. rewrite F2, cnt_nil. lia.
    + apply Forall_app. split; auto. constructor; auto. intros _. rewrite F2. constructor.
    + destruct (comps s) as [|c r] eqn:E; [congruence|]. cbn [app tl] in *. apply Forall_app. split; auto.
    + apply Forall_app. split; auto.
  - constructor; cbn [rk comps nret maxnom rn hra rmin rmax]; auto.
    + intro p. rewrite AI. lia.
    + rewrite app_length. lia.
  - reflexivity.
  - cbn [comps]. exact AI.
Qed.

Lemma grow_leaf ic s s' : leaf (grow ic s) s' -> exists c0, s' = grow_with s c0.
Proof.
  unfold grow. destruct ic; intro H.
  - apply leaf_flip_inv in H as [c H]. apply leaf_ret_inv in H. eauto.
  - apply leaf_ret_inv in H. eauto.
Qed.

Lemma compact_leaf h c nx r : leaf (compact h c nx) r -> exists cn, r = compact_with h c nx cn.
Proof.
  unfold compact. destruct (Z.odd (cstate c)); intro H.
  - apply leaf_ret_inv in H. eauto.
  - apply leaf_flip_inv in H as [b H]. apply leaf_ret_inv in H. eauto.
Qed.

Lemma Forall_nth_in {A} (P : A -> Prop) l n d : Forall P l -> (n < length l)%nat -> P (nth n l d).
Proof. intros F H. rewrite Forall_forall in F. apply F. now apply nth_In. Qed.

(* sorting level 0 *)
Lemma sort0_spec s : Inv s ->
  let s1 := setc s 0%nat (csort (getc s 0%nat)) in
  Inv s1 /\ Keep s s1 /\ length (comps s1) = length (comps s) /\ srt (getc s1 0%nat) = true /\
  nom_cap (getc s1 0%nat) = nom_cap (getc s 0%nat) /\ nitems (getc s1 0%nat) = nitems (getc s 0%nat) /\
  (Forall nonempty (comps s) -> Forall nonempty (comps s1)).
Proof.
  intros [K NE LG RT NM W S0 S1 PA]. cbv zeta. unfold setc, set_comps, getc; cbn [comps].
  destruct (comps s) as [|c r] eqn:E; [congruence|]. cbn [upd_nth nth tl] in *.
  destruct (csort_spec c) as (F1 & F2 & F3 & F4 & F5 & F6 & F7 & F8 & F9 & F10).
  inversion S0 as [|? ? Sc Sr]; subst. inversion PA as [|? ? Pc Pr]; subst.
  splits; auto.
  - constructor; cbn [rk comps nret maxnom rn tl]; auto.
    + discriminate.
    + cbn [lgw_from] in *. rewrite F4. exact LG.
    + rewrite RT, !sum_items_cons, F10. reflexivity.
    + rewrite NM, !sum_nom_cons. unfold nom_cap. rewrite F5, F6. reflexivity.
    + rewrite <- W, !Rs_cons. unfold Rc. rewrite F4, (cnt_perm _ _ _ F1). reflexivity.
    + constructor; auto. intros _. now apply F3.
    + constructor; auto. destruct Pc as (A & B & C & G). unfold par_ok. rewrite F5, F6, F7, F9. auto.
  - constructor; cbn [rk comps nret maxnom rn hra rmin rmax]; rewrite ?E; auto.
    intro p. rewrite !all_items_cons, !cnt_app, (cnt_perm _ _ _ F1). lia.
  - unfold nom_cap. rewrite F5, F6. reflexivity.
  - intro H. inversion H; subst. constructor; auto. unfold nonempty in *. intro X. rewrite X in F1.
    apply Permutation_nil in F1. congruence.
Qed.

(* one compaction inside compress() *)
Lemma compact_step s2 h r : Inv s2 -> (S h < length (comps s2))%nat ->
  nom_cap (getc s2 h) <= nitems (getc s2 h) -> srt (getc s2 h) = true ->
  leaf (compact (hra s2) (getc s2 h) (getc s2 (S h))) r ->
  let cs := upd_nth (S h) (fun _ => snd (fst r)) (upd_nth h (fun _ => fst (fst r)) (comps s2)) in
  let s3 := mkreq (rk s2) (hra s2) (maxnom s2 + snd (snd r)) (nret s2 - fst (snd r)) (rn s2) cs (rmin s2) (rmax s2) in
  Inv s3 /\ Keep s2 s3 /\ length (comps s3) = length (comps s2) /\
  ((forall i, i <> S h -> (i < length (comps s2))%nat -> nonempty (nth i (comps s2) dummy)) -> Forall nonempty (comps s3)).
Proof.
  intros [K NE LG RT NM W S0 S1 PA] HL CAP SRT L. cbv zeta.
  apply compact_leaf in L as [cn ->].
  unfold getc in *.
  destruct (nth_split2 (comps s2) h dummy HL) as (pre & post & E & LP).
  set (c := nth h (comps s2) dummy) in *. set (nx := nth (S h) (comps s2) dummy) in *.
  rewrite E in LG, RT, NM, W, S0, PA.
  apply lgw_from_app in LG as (LG1 & LG2). cbn [lgw_from] in LG2. destruct LG2 as (LGc & LGn & LG3).
  apply Forall_app in S0 as (S0a & S0b). inversion S0b as [|? ? Sc S0c]; subst. inversion S0c as [|? ? Sn S0d]; subst.
  apply Forall_app in PA as (PAa & PAb). inversion PAb as [|? ? Pc PAc]; subst. inversion PAc as [|? ? Pn PAd]; subst.
  assert (SRTn : srt nx = true).
  { rewrite E in S1. destruct pre as [|x pre]; cbn [app tl] in S1.
    - inversion S1; subst; auto.
    - apply Forall_app in S1 as (_ & S1). inversion S1 as [|? ? _ S1']; subst. inversion S1'; subst; auto. }
  pose proof (compact_with_spec (hra s2) c nx cn Pc CAP (Sc SRT) (Sn SRTn)) as CP.
  set (r := compact_with (hra s2) c nx cn) in *.
  destruct CP as [[G1 G2] [G3 G4] (G5 & G6 & G7 & G8) (G9 & G10 & G11) G12 [G13 G14] (G15 & G16 & G18) G17].
  set (c' := fst (fst r)) in *. set (nx' := snd (fst r)) in *.
  assert (EC : upd_nth (S (length pre)) (fun _ => nx') (upd_nth (length pre) (fun _ => c') (comps s2)) = pre ++ c' :: nx' :: post).
  { rewrite E at 1. apply (upd_nth_at2 pre c nx post (fun _ => c') (fun _ => nx')). }
  rewrite EC.
  assert (LGE : 0 <= lgw c) by (rewrite LGc; pose proof (len_nonneg pre); lia).
  assert (PW : 2 ^ lgw nx = 2 * 2 ^ lgw c).
  { rewrite LGn, LGc. replace (0 + len pre + 1) with (Z.succ (0 + len pre)) by lia. rewrite Z.pow_succ_r; [reflexivity|]. pose proof (len_nonneg pre); lia. }
  splits.
  - constructor; cbn [rk comps nret maxnom rn]; auto.
    + destruct pre; discriminate.
    + apply lgw_from_app. split; auto. cbn [lgw_from]. rewrite G1, G2. auto.
    + rewrite RT, !sum_items_app, !sum_items_cons. lia.
    + rewrite NM, !sum_nom_app, !sum_nom_cons, G12. unfold nom_cap at 5 6. rewrite G6, G7. unfold nom_cap. lia.
    + rewrite <- W, !Rs_app, !Rs_cons. unfold Rc. rewrite !cnt_true, G1, G2. fold (nitems c') (nitems nx') (nitems c) (nitems nx).
      rewrite G9, G10, PW. lia.
    + apply Forall_app. split; auto. constructor; [intros _; exact G13|]. constructor; [intros _; exact G14|]. auto.
    + rewrite E in S1. destruct pre as [|x pre]; cbn [app tl] in *.
      * inversion S1; subst. constructor; [congruence|auto].
      * apply Forall_app in S1 as (S1a & S1b). apply Forall_app. split; auto.
        inversion S1b as [|? ? _ S1c]; subst. inversion S1c; subst.
        constructor; [congruence|]. constructor; [congruence|auto].
    + apply Forall_app. split; auto.
  - constructor; cbn [rk comps nret maxnom rn hra rmin rmax]; auto.
    + intro p. rewrite E. rewrite !all_items_app, !all_items_cons, !cnt_app. specialize (G17 p). lia.
    + rewrite E, !app_length. simpl. lia.
  - cbn [comps]. rewrite E. rewrite !app_length. reflexivity.
  - intro H. cbn [comps].
    assert (Hpre : Forall nonempty pre).
    { apply Forall_forall. intros x Hx. apply In_nth with (d := dummy) in Hx as (i & Hi & <-).
      assert (X := H i ltac:(lia) ltac:(rewrite E, app_length; lia)).
      rewrite E in X. rewrite app_nth1 in X by lia. exact X. }
    assert (Hpost : Forall nonempty post).
    { apply Forall_forall. intros x Hx. apply In_nth with (d := dummy) in Hx as (i & Hi & <-).
      assert (X := H (length pre + 2 + i)%nat ltac:(lia) ltac:(rewrite E, app_length; simpl; lia)).
      rewrite E in X. rewrite app_nth2 in X by lia.
      replace (length pre + 2 + i - length pre)%nat with (S (S i)) in X by lia. exact X. }
    apply Forall_app. split; auto. constructor; [|constructor; auto].
    + unfold nonempty. apply len_pos_iff. fold (nitems c'). lia.
    + unfold nonempty. apply len_pos_iff. fold (nitems nx'). pose proof (nitems_nonneg nx). lia.
Qed.

(* compress(), for every outcome of the coins *)
Lemma compress_loop_spec ic : forall fuel h s s', Inv s -> leaf (compress_loop ic fuel h s) s' ->
  Inv s' /\ Keep s s' /\ (Forall nonempty (comps s) -> Forall nonempty (comps s')).
Proof.
  induction fuel as [|f IH]; intros h s s' I L; cbn [compress_loop] in L.
  { apply leaf_ret_inv in L. subst. splits; auto using Keep_refl. }
  destruct (Nat.ltb_spec h (length (comps s))) as [HL|HL]; [|apply leaf_ret_inv in L; subst; splits; auto using Keep_refl].
  destruct (Z.leb_spec (nom_cap (getc s h)) (nitems (getc s h))) as [CAP|CAP]; [|eapply IH; eauto].
  (* level 0 is sorted first *)
  set (s1 := if (h =? 0)%nat then setc s 0%nat (csort (getc s 0%nat)) else s) in *.
  assert (H1 : Inv s1 /\ Keep s s1 /\ length (comps s1) = length (comps s) /\ srt (getc s1 h) = true /\
               nom_cap (getc s1 h) = nom_cap (getc s h) /\ nitems (getc s1 h) = nitems (getc s h) /\
               (Forall nonempty (comps s) -> Forall nonempty (comps s1))).
  { unfold s1. destruct h as [|h]; cbn [Nat.eqb].
    - apply sort0_spec; auto.
    - splits; auto using Keep_refl.
      destruct I as [_ NE _ _ _ _ _ S1 _]. unfold getc.
      destruct (comps s) as [|c0 r]; [congruence|]. cbn [tl nth length] in *.
      apply (Forall_nth_in (fun c => srt c = true) r h dummy S1). lia. }
  destruct H1 as (I1 & K1 & LEN1 & SRT1 & NC1 & NI1 & NE1).
  apply leaf_bind in L as (s2 & L2 & L). apply leaf_bind in L as (r & L3 & L).
  (* a level is added when h is the top *)
  assert (H2 : Inv s2 /\ Keep s1 s2 /\ (S h < length (comps s2))%nat /\ getc s2 h = getc s1 h /\
               (Forall nonempty (comps s1) -> forall i, i <> S h -> (i < length (comps s2))%nat -> nonempty (nth i (comps s2) dummy))).
  { destruct (Nat.leb_spec (length (comps s1)) (h + 1)) as [TOP|TOP].
    - apply grow_leaf in L2 as [c0 ->]. destruct (grow_with_spec s1 c0 I1) as (I2 & K2 & E2 & A2).
      splits; auto.
      + rewrite E2, app_length. simpl. lia.
      + unfold getc. rewrite E2, app_nth1 by lia. reflexivity.
      + intros NE i Hi Hl. rewrite E2 in *. rewrite app_length in Hl. simpl in Hl.
        rewrite app_nth1 by lia. apply Forall_nth_in; auto. lia.
    - apply leaf_ret_inv in L2. subst s2. splits; auto using Keep_refl; try lia.
      intros NE i _ Hl. apply Forall_nth_in; auto. }
  destruct H2 as (I2 & K2 & LEN2 & G2 & NE2).
  assert (CAP2 : nom_cap (getc s2 h) <= nitems (getc s2 h)) by (rewrite G2, NC1, NI1; exact CAP).
  assert (SRT2 : srt (getc s2 h) = true) by (rewrite G2; exact SRT1).
  destruct (compact_step s2 h r I2 LEN2 CAP2 SRT2 L3) as (I3 & K3 & LEN3 & NE3).
  destruct (IH _ _ _ I3 L) as (I4 & K4 & NE4).
  split; [exact I4|]. split.
  - eapply Keep_trans; [exact K1|]. eapply Keep_trans; [exact K2|]. eapply Keep_trans; [exact K3|exact K4].
  - intro NE. apply NE4, NE3, NE2, NE1, NE.
Qed.

Lemma compress_spec ic s s' : Inv s -> leaf (compress ic s) s' ->
  Inv s' /\ Keep s s' /\ (Forall nonempty (comps s) -> Forall nonempty (comps s')).
Proof. apply compress_loop_spec. Qed.

(* ===================== the sketch against the stream it has seen ===================== *)
Definition is_min (m : Z) (log : list Z) : Prop := In m log /\ forall y, In y log -> m <= y.
Definition is_max (m : Z) (log : list Z) : Prop := In m log /\ forall y, In y log -> y <= m.

Record Rel (s : req) (log : list Z) : Prop := mkRel {
  r_inv : Inv s;
  r_n : rn s = len log;                                           (* n = number of accepted items *)
  r_min : log <> [] -> is_min (rmin s) log;
  r_max : log <> [] -> is_max (rmax s) log;
  r_sub : forall p, cnt p (all_items (comps s)) <= cnt p log;     (* retained multiset within the inputs *)
  r_ne : 0 < rn s -> Forall nonempty (comps s);                   (* no empty compactor in a non-empty sketch *)
  r_one : rn s = 0 -> length (comps s) = 1%nat
}.

Lemma eff_k_ge k : 4 <= eff_k k <= 255.
Proof. unfold eff_k. pose proof (Z.mod_pos_bound (Z.land k (-2)) 256 ltac:(lia)). lia. Qed.

Lemma Rel_new ic k h s : leaf (req_new ic k h) s -> Rel s [].
Proof.
  intro L. unfold req_new in L. apply grow_leaf in L as [c0 ->].
  unfold grow_with; cbn [comps rk hra nret rn rmin rmax app]. change (len (@nil comp)) with 0.
  destruct (new_comp_facts 0 (eff_k k) c0 (eff_k_ge k)) as (F1 & F2 & F3 & F4).
  set (nc := new_comp 0 (eff_k k) c0) in *.
  constructor; cbn [comps rk hra nret rn rmin rmax maxnom]; try congruence; auto.
  - constructor; cbn [comps rk hra nret rn rmin rmax maxnom tl]; auto; try apply eff_k_ge; try discriminate;
      try (cbn [lgw_from]; auto; fail); try (constructor; auto; intros _; rewrite F2; constructor).
  - intro p. cbn [all_items flat_map]. rewrite F2. cbn [app]. rewrite cnt_nil. reflexivity.
  - lia.
Qed.

Lemma is_min_app_single m log x : (log <> [] -> is_min m log) ->
  is_min (if len log =? 0 then x else if x <? m then x else m) (log ++ [x]).
Proof.
  intro H. destruct (Z.eqb_spec (len log) 0) as [E|E].
  - apply len_zero_nil in E. subst log. simpl. split; [now left|]. intros y [<-|[]]. lia.
  - assert (NE : log <> []) by (intro; subst; now apply E). destruct (H NE) as [H1 H2].
    destruct (Z.ltb_spec x m); split.
    + apply in_or_app. right. now left.
    + intros y Hy. apply in_app_or in Hy as [Hy|[<-|[]]]; [specialize (H2 y Hy)|]; lia.
    + apply in_or_app. now left.
    + intros y Hy. apply in_app_or in Hy as [Hy|[<-|[]]]; [specialize (H2 y Hy)|]; lia.
Qed.

Lemma is_max_app_single m log x : (log <> [] -> is_max m log) ->
  is_max (if len log =? 0 then x else if m <? x then x else m) (log ++ [x]).
Proof.
  intro H. destruct (Z.eqb_spec (len log) 0) as [E|E].
  - apply len_zero_nil in E. subst log. simpl. split; [now left|]. intros y [<-|[]]. lia.
  - assert (NE : log <> []) by (intro; subst; now apply E). destruct (H NE) as [H1 H2].
    destruct (Z.ltb_spec m x); split.
    + apply in_or_app. right. now left.
    + intros y Hy. apply in_app_or in Hy as [Hy|[<-|[]]]; [specialize (H2 y Hy)|]; lia.
    + apply in_or_app. now left.
    + intros y Hy. apply in_app_or in Hy as [Hy|[<-|[]]]; [specialize (H2 y Hy)|]; lia.
Qed.

Lemma is_min_app m1 l1 m2 l2 : l2 <> [] -> (l1 <> [] -> is_min m1 l1) -> is_min m2 l2 ->
  is_min (if len l1 =? 0 then m2 else if m2 <? m1 then m2 else m1) (l1 ++ l2).
Proof.
  intros NE2 H1 [A2 B2]. destruct (Z.eqb_spec (len l1) 0) as [E|E].
  - apply len_zero_nil in E. subst l1. simpl. split; auto.
  - assert (NE : l1 <> []) by (intro; subst; now apply E). destruct (H1 NE) as [A1 B1].
    destruct (Z.ltb_spec m2 m1); split.
    + apply in_or_app. now right.
    + intros y Hy. apply in_app_or in Hy as [Hy|Hy]; [specialize (B1 y Hy)|specialize (B2 y Hy)]; lia.
    + apply in_or_app. now left.
    + intros y Hy. apply in_app_or in Hy as [Hy|Hy]; [specialize (B1 y Hy)|specialize (B2 y Hy)]; lia.
Qed.

Lemma is_max_app m1 l1 m2 l2 : l2 <> [] -> (l1 <> [] -> is_max m1 l1) -> is_max m2 l2 ->
  is_max (if len l1 =? 0 then m2 else if m1 <? m2 then m2 else m1) (l1 ++ l2).
Proof.
  intros NE2 H1 [A2 B2]. destruct (Z.eqb_spec (len l1) 0) as [E|E].
  - apply len_zero_nil in E. subst l1. simpl. split; auto.
  - assert (NE : l1 <> []) by (intro; subst; now apply E). destruct (H1 NE) as [A1 B1].
    destruct (Z.ltb_spec m1 m2); split.
    + apply in_or_app. now right.
    + intros y Hy. apply in_app_or in Hy as [Hy|Hy]; [specialize (B1 y Hy)|specialize (B2 y Hy)]; lia.
    + apply in_or_app. now left.
    + intros y Hy. apply in_app_or in Hy as [Hy|Hy]; [specialize (B1 y Hy)|specialize (B2 y Hy)]; lia.
Qed.

Lemma upd_minmax_fields s lo hi :
  comps (upd_minmax s lo hi) = comps s /\ rn (upd_minmax s lo hi) = rn s /\ rk (upd_minmax s lo hi) = rk s /\
  hra (upd_minmax s lo hi) = hra s /\ nret (upd_minmax s lo hi) = nret s /\ maxnom (upd_minmax s lo hi) = maxnom s.
Proof. unfold upd_minmax. destruct (rn s =? 0); cbn [comps rn rk hra nret maxnom]; splits; reflexivity. Qed.

Lemma Inv_fields s s' : comps s' = comps s -> rn s' = rn s -> rk s' = rk s -> nret s' = nret s -> maxnom s' = maxnom s ->
  Inv s -> Inv s'.
Proof. intros A B C D E [K NE LG RT NM W S0 S1 PA]. constructor; rewrite ?A, ?B, ?C, ?D, ?E; auto. Qed.

Lemma update_full ic s log x s' : Rel s log -> leaf (update ic s x) s' ->
  Rel s' (log ++ [x]) /\ hra s' = hra s /\ rk s' = rk s.
Proof.
  intros [I N Mi Ma Su NEs ONE] L. unfold update in L.
  destruct (upd_minmax_fields s x x) as (E1 & E2 & E3 & E4 & E5 & E6).
  set (s1 := upd_minmax s x x) in *.
  set (s2 := mkreq (rk s1) (hra s1) (maxnom s1) (nret s1 + 1) (rn s1 + 1)
                   (upd_nth 0 (fun c => append (hra s1) c x) (comps s1)) (rmin s1) (rmax s1)) in *.
  assert (MIN : is_min (rmin s1) (log ++ [x])).
  { pose proof (is_min_app_single (rmin s) log x Mi) as H. rewrite <- N in H.
    unfold s1, upd_minmax. destruct (rn s =? 0); exact H. }
  assert (MAX : is_max (rmax s1) (log ++ [x])).
  { pose proof (is_max_app_single (rmax s) log x Ma) as H. rewrite <- N in H.
    unfold s1, upd_minmax. destruct (rn s =? 0); exact H. }
  destruct I as [K NE LG RT NM W S0 S1 PA].
  destruct (comps s) as [|c0 r] eqn:EC; [congruence|].
  destruct (append_spec (hra s1) c0 x) as (A1 & A2 & A3 & A4 & A5 & A6 & A7 & A8 & A9).
  set (c0' := append (hra s1) c0 x) in *.
  assert (EC2 : comps s2 = c0' :: r) by (unfold s2; cbn [comps]; rewrite E1; reflexivity).
  inversion S0 as [|? ? Sc Sr]; subst. inversion PA as [|? ? Pc Pr]; subst.
  cbn [lgw_from tl] in *. destruct LG as (LG0 & LG1).
  assert (I2 : Inv s2).
  { constructor; rewrite ?EC2; unfold s2; cbn [rk nret maxnom rn tl]; auto.
    - rewrite E3. exact K.
    - discriminate.
    - cbn [lgw_from]. rewrite A3. auto.
    - rewrite E5, RT, !sum_items_cons, A2. lia.
    - rewrite E6, NM, !sum_nom_cons. unfold nom_cap. rewrite A4, A5. reflexivity.
    - rewrite E2, <- W, !Rs_cons. unfold Rc. rewrite !cnt_true, A3, LG0. fold (nitems c0') (nitems c0). rewrite A2.
      change (2 ^ 0) with 1. lia. }
  assert (SUB2 : forall p, cnt p (all_items (comps s2)) <= cnt p (log ++ [x])).
  { intro p. rewrite EC2, all_items_cons, !cnt_app, (cnt_perm _ _ _ A1), !cnt_cons, cnt_nil.
    specialize (Su p). rewrite all_items_cons, cnt_app in Su. lia. }
  assert (NE2 : Forall nonempty (comps s2)).
  { rewrite EC2. constructor.
    - unfold nonempty. apply len_pos_iff. fold (nitems c0'). pose proof (nitems_nonneg c0). lia.
    - destruct (Z.eqb_spec (rn s) 0) as [Z0|Z0].
      + specialize (ONE Z0). cbn [length] in ONE. destruct r; [constructor|simpl in ONE; lia].
      + assert (P : 0 < rn s) by (pose proof (len_nonneg log); lia). specialize (NEs P). inversion NEs; auto. }
  assert (N2 : rn s2 = len (log ++ [x])) by (unfold s2; cbn [rn]; rewrite E2, N, len_app, len_cons, len_nil; lia).
  assert (R2 : Rel s2 (log ++ [x])).
  { constructor; auto.
    intro H. rewrite N2, len_app, len_cons, len_nil in H. pose proof (len_nonneg log). lia. }
  assert (HK : hra s2 = hra s /\ rk s2 = rk s) by (unfold s2; cbn [hra rk]; split; assumption).
  destruct (nret s2 =? maxnom s2).
  - destruct (compress_spec ic s2 s' I2 L) as (I3 & [K1 K2 K3 K4 K5 K6 K7] & NE3).
    split; [|split; [rewrite K3|rewrite K2]; apply HK].
    constructor; auto.
    + congruence.
    + intros _. rewrite K4. exact MIN.
    + intros _. rewrite K5. exact MAX.
    + intro p. specialize (K6 p). specialize (SUB2 p). lia.
    + intro H. rewrite K1, N2, len_app, len_cons, len_nil in H. pose proof (len_nonneg log). lia.
  - apply leaf_ret_inv in L. subst s'. split; [exact R2|exact HK].
Qed.

Theorem update_Rel ic s log x s' : Rel s log -> leaf (update ic s x) s' -> Rel s' (log ++ [x]).
Proof. intros R L. exact (proj1 (update_full ic s log x s' R L)). Qed.

(* ---------- merge ---------- *)
Lemma Forall_skipn {A} (P : A -> Prop) n l : Forall P l -> Forall P (skipn n l).
Proof. intro H. rewrite <- (firstn_skipn n l) in H. apply Forall_app in H. tauto. Qed.

Lemma merge_comps_spec h : forall a b i,
  Forall par_ok a -> Forall comp_sorted a -> Forall par_ok b -> Forall comp_sorted b ->
  lgw_from i a -> lgw_from i b ->
  let r := merge_comps h a b in
  length r = length a /\ lgw_from i r /\ Forall par_ok r /\ Forall comp_sorted r /\
  (forall p, Rs p r = Rs p a + Rs p (firstn (length a) b)) /\
  (forall p, cnt p (all_items r) = cnt p (all_items a) + cnt p (all_items (firstn (length a) b))) /\
  (Forall (fun c => srt c = true) a -> Forall (fun c => srt c = true) r) /\
  (b <> [] -> a <> [] -> srt (hd dummy r) = true) /\
  (Forall nonempty b -> Forall nonempty (skipn (length b) a) -> Forall nonempty r).
Proof.
  induction a as [|c a IH]; intros b i Pa Sa Pb Sb La Lb; cbv zeta.
  { cbn [merge_comps firstn length]. splits; auto; try congruence; intro; reflexivity. }
  destruct b as [|o b].
  { change (merge_comps h (c :: a) []) with (c :: a). rewrite firstn_nil.
    splits; auto; try congruence; try (intro p; cbn [Rs all_items flat_map fold_right]; rewrite ?cnt_nil; lia). }
  change (merge_comps h (c :: a) (o :: b)) with (comp_merge h c o :: merge_comps h a b). cbn [firstn length].
  inversion Pa as [|? ? Pc Pa']; subst. inversion Sa as [|? ? Sc Sa']; subst.
  inversion Pb as [|? ? Po Pb']; subst. inversion Sb as [|? ? So Sb']; subst.
  cbn [lgw_from] in La, Lb. destruct La as (La0 & La1). destruct Lb as (Lb0 & Lb1).
  destruct (comp_merge_spec h c o Pc (proj1 (proj2 (proj2 Po))) Sc So) as (M1 & M2 & M3 & M4 & M5 & M6).
  destruct (IH b (i + 1) Pa' Sa' Pb' Sb' La1 Lb1) as (R1 & R2 & R3 & R4 & R5 & R6 & R7 & R8 & R9).
  set (m := comp_merge h c o) in *. set (r := merge_comps h a b) in *.
  splits.
  - cbn [length]. now rewrite R1.
  - cbn [lgw_from]. split; [congruence|exact R2].
  - constructor; auto.
  - constructor; auto. intros _. exact M4.
  - intro p. rewrite !Rs_cons, R5. unfold Rc. rewrite M2, (cnt_perm _ _ _ M1), cnt_app. rewrite Lb0, <- La0. lia.
  - intro p. rewrite !all_items_cons, !cnt_app, R6, (cnt_perm _ _ _ M1), cnt_app. lia.
  - intro H. inversion H; subst. constructor; auto.
  - intros _ _. exact M3.
  - intros Hb Ha. inversion Hb as [|? ? Ho Hb']; subst. cbn [length skipn] in Ha. constructor; auto.
    unfold nonempty in *. intro X. rewrite X in M1. apply Permutation_nil in M1. apply app_eq_nil in M1. tauto.
Qed.

Lemma grow_to_spec ic : forall fuel s n s', Inv s -> (n <= length (comps s) + fuel)%nat -> leaf (grow_to ic fuel s n) s' ->
  Inv s' /\ Keep s s' /\ length (comps s') = Nat.max (length (comps s)) n /\
  all_items (comps s') = all_items (comps s) /\ (exists ext, comps s' = comps s ++ ext).
Proof.
  induction fuel as [|f IH]; intros s n s' I H L; cbn [grow_to] in L.
  - apply leaf_ret_inv in L. subst. splits; auto using Keep_refl; [lia|]. exists []. now rewrite app_nil_r.
  - destruct (Nat.ltb_spec (length (comps s)) n) as [LT|GE].
    + apply leaf_bind in L as (s1 & L1 & L). apply grow_leaf in L1 as [c0 ->].
      destruct (grow_with_spec s c0 I) as (I1 & K1 & E1 & A1).
      assert (H1 : (n <= length (comps (grow_with s c0)) + f)%nat) by (rewrite E1, app_length; simpl; lia).
      destruct (IH _ _ _ I1 H1 L) as (I2 & K2 & L2 & A2 & (ext & X2)).
      splits; auto.
      * eapply Keep_trans; eauto.
      * rewrite L2, E1, app_length. simpl. lia.
      * congruence.
      * exists ([new_comp (len (comps s)) (rk s) c0] ++ ext). rewrite X2, E1, <- app_assoc. reflexivity.
    + apply leaf_ret_inv in L. subst. splits; auto using Keep_refl; [lia|]. exists []. now rewrite app_nil_r.
Qed.

Lemma merge_full ic s l1 o l2 s' : Rel s l1 -> Rel o l2 -> leaf (merge ic s o) s' ->
  Rel s' (l1 ++ l2) /\ hra s' = hra s /\ rk s' = rk s.
Proof.
  intros [I N Mi Ma Su NEs ONE] [Io No Mio Mao Suo NEo ONEo] L. unfold merge in L.
  destruct (Z.eqb_spec (rn o) 0) as [Z0|Z0].
  { apply leaf_ret_inv in L. subst s'. rewrite Z0 in No. symmetry in No. apply len_zero_nil in No. subst l2.
    rewrite app_nil_r. split; [constructor; auto|split; reflexivity]. }
  assert (NE2 : l2 <> []) by (intro; subst; apply Z0; rewrite No; reflexivity).
  assert (POSo : 0 < rn o) by (pose proof (len_nonneg l2); lia).
  destruct (upd_minmax_fields s (rmin o) (rmax o)) as (E1 & E2 & E3 & E4 & E5 & E6).
  set (s1 := upd_minmax s (rmin o) (rmax o)) in *.
  assert (MIN : is_min (rmin s1) (l1 ++ l2)).
  { pose proof (is_min_app (rmin s) l1 (rmin o) l2 NE2 Mi (Mio NE2)) as H. rewrite <- N in H.
    unfold s1, upd_minmax. destruct (rn s =? 0); exact H. }
  assert (MAX : is_max (rmax s1) (l1 ++ l2)).
  { pose proof (is_max_app (rmax s) l1 (rmax o) l2 NE2 Ma (Mao NE2)) as H. rewrite <- N in H.
    unfold s1, upd_minmax. destruct (rn s =? 0); exact H. }
  assert (I1 : Inv s1) by (apply (Inv_fields s s1); auto).
  apply leaf_bind in L as (s2 & L2 & L).
  destruct (grow_to_spec ic _ _ _ _ I1 (Nat.le_add_l _ _) L2) as (I2 & [K1 K2 K3 K4 K5 K6 K7] & LEN2 & AI2 & (ext & EXT)).
  set (cs := merge_comps (hra s2) (comps s2) (comps o)) in *.
  set (s3 := mkreq (rk s2) (hra s2) (sum_nom cs) (sum_items cs) (rn s2 + rn o) cs (rmin s2) (rmax s2)) in *.
  destruct I2 as [Kk NEc LG RT NM W S0 S1 PA]. destruct Io as [Kko NEco LGo RTo NMo Wo S0o S1o PAo].
  destruct (merge_comps_spec (hra s2) (comps s2) (comps o) 0 PA S0 PAo S0o LG LGo) as (R1 & R2 & R3 & R4 & R5 & R6 & R7 & R8 & R9).
  fold cs in R1, R2, R3, R4, R5, R6, R7, R8, R9.
  assert (LE : (length (comps o) <= length (comps s2))%nat) by lia.
  assert (FN : firstn (length (comps s2)) (comps o) = comps o) by (apply firstn_all2; exact LE).
  rewrite FN in R5, R6.
  assert (NEcs : cs <> []) by (intro X; rewrite X in R1; destruct (comps s2); [congruence|discriminate]).
  assert (I3 : Inv s3).
  { constructor; unfold s3; cbn [rk nret maxnom rn comps]; auto.
    - rewrite R5, W, Wo. reflexivity.
    - destruct cs as [|m r] eqn:Ecs; [congruence|]. cbn [tl].
      destruct (comps s2) as [|c2 r2] eqn:E2c; [congruence|]. cbn [tl] in S1.
      destruct (comps o) as [|o0 ro] eqn:Eoc; [congruence|].
      unfold cs in Ecs. cbn [merge_comps] in Ecs. inversion Ecs; subst.
      destruct (merge_comps_spec (hra s2) r2 ro 1) as (_ & _ & _ & _ & _ & _ & Q & _); auto.
      + now inversion PA. + now inversion S0. + now inversion PAo. + now inversion S0o.
      + cbn [lgw_from] in LG. tauto. + cbn [lgw_from] in LGo. tauto. }
  assert (SUB3 : forall p, cnt p (all_items cs) <= cnt p (l1 ++ l2)).
  { intro p. rewrite R6, AI2, E1, cnt_app. specialize (Su p). specialize (Suo p). lia. }
  assert (NE3 : Forall nonempty cs).
  { apply R9; [now apply NEo|].
    destruct (Nat.eq_dec (length (comps s2)) (length (comps o))) as [EQ|NEQ].
    - rewrite <- EQ, skipn_all. constructor.
    - assert (LS : length (comps s2) = length (comps s1)) by lia.
      assert (X : ext = []).
      { rewrite EXT, app_length in LS. destruct ext; [reflexivity|simpl in LS; lia]. }
      rewrite EXT, X, app_nil_r, E1. apply Forall_skipn.
      destruct (Z.eqb_spec (rn s) 0) as [Zs|Zs].
      + specialize (ONE Zs). rewrite E1 in LS, LEN2. destruct (comps o); [congruence|]. simpl in *. lia.
      + apply NEs. pose proof (len_nonneg l1). lia. }
  assert (N3 : rn s3 = len (l1 ++ l2)) by (unfold s3; cbn [rn]; rewrite K1, E2, N, No, len_app; reflexivity).
  assert (POS3 : 0 < rn s3) by (rewrite N3, len_app; pose proof (len_nonneg l1); lia).
  assert (R3' : Rel s3 (l1 ++ l2)).
  { constructor; auto.
    - intros _. unfold s3; cbn [rmin]. rewrite K4. exact MIN.
    - intros _. unfold s3; cbn [rmax]. rewrite K5. exact MAX.
    - intro H. lia. }
  assert (HK : hra s3 = hra s /\ rk s3 = rk s) by (unfold s3; cbn [hra rk]; split; congruence).
  destruct (maxnom s3 <=? nret s3).
  - destruct (compress_spec ic s3 s' I3 L) as (I4 & [J1 J2 J3 J4 J5 J6 J7] & NE4).
    split; [|split; [rewrite J3|rewrite J2]; apply HK].
    constructor; auto.
    + congruence.
    + intros _. rewrite J4. unfold s3; cbn [rmin]. rewrite K4. exact MIN.
    + intros _. rewrite J5. unfold s3; cbn [rmax]. rewrite K5. exact MAX.
    + intro p. specialize (J6 p). specialize (SUB3 p). unfold s3 in J6; cbn [comps] in J6. lia.
    + intro H. lia.
  - apply leaf_ret_inv in L. subst s'. split; [exact R3'|exact HK].
Qed.

Theorem merge_Rel ic s l1 o l2 s' : Rel s l1 -> Rel o l2 -> leaf (merge ic s o) s' -> Rel s' (l1 ++ l2).
Proof. intros R1 R2 L. exact (proj1 (merge_full ic s l1 o l2 s' R1 R2 L)). Qed.

(* ===================== reachable states ===================== *)
(* every state that some sequence of updates and merges (of reachable sketches of the same mode, any k) can produce
   under some outcome of the coin flips, together with the list of items it has been given.  ic: whether the
   compactor constructor draws its first coin (true = the repaired code; the invariants hold for both) *)
Inductive reach (ic : bool) : req -> list Z -> Prop :=
| reach_new k h s : 0 <= k <= 65535 -> leaf (req_new ic k h) s -> reach ic s []
| reach_update s log x s' : reach ic s log -> leaf (update ic s x) s' -> reach ic s' (log ++ [x])
| reach_merge s l1 o l2 s' : reach ic s l1 -> reach ic o l2 -> hra s = hra o -> leaf (merge ic s o) s' -> reach ic s' (l1 ++ l2)
| reach_sort s log : reach ic s log -> reach ic (sort_level_zero s) log.      (* side effect of a query *)

Lemma sort_level_zero_Rel s log : Rel s log -> Rel (sort_level_zero s) log.
Proof.
  intros [I N Mi Ma Su NEs ONE].
  assert (E : sort_level_zero s = setc s 0%nat (csort (getc s 0%nat))).
  { unfold sort_level_zero, setc, getc. f_equal. destruct I as [_ NE _ _ _ _ _ _ _].
    destruct (comps s); [congruence|reflexivity]. }
  rewrite E. destruct (sort0_spec s I) as (I1 & [K1 K2 K3 K4 K5 K6 K7] & L1 & _ & _ & _ & NE1).
  constructor.
  - exact I1.
  - congruence.
  - intro H. rewrite K4. auto.
  - intro H. rewrite K5. auto.
  - intro p. specialize (K6 p). specialize (Su p). lia.
  - intro H. apply NE1, NEs. congruence.
  - intro H. rewrite L1. apply ONE. congruence.
Qed.

Theorem reach_Rel ic s log : reach ic s log -> Rel s log.
Proof.
  induction 1.
  - eapply Rel_new; eauto.
  - eapply update_Rel; eauto.
  - eapply merge_Rel; eauto.
  - now apply sort_level_zero_Rel.
Qed.
