(* KllTop.v — two more invariants of reachable KLL sketches (model KllDefs.v), needed for the single-item image:
   the top level of a sketch with at least two levels is never empty (so n = 1 forces a single level holding one item),
   and min_k = k as long as the sketch has a single level. *)
From Coq Require Import ZArith List Bool Lia Permutation Sorted.
From DS Require Import RunnerLib SortedView KllDefs KllProofs KllSpace KllView.
Import ListNotations.
Local Open Scope Z_scope.

Definition TopOK (lv : list (list Z)) : Prop := (2 <= length lv)%nat -> last lv [] <> [].

Lemma last_cons2 {A} (x : A) l d : l <> [] -> last (x :: l) d = last l d.
Proof. destruct l; [congruence|reflexivity]. Qed.

Lemma TopOK_tl raw rest : TopOK (raw :: rest) -> TopOK rest.
Proof. intros H L. rewrite <- (last_cons2 raw rest []) by (destruct rest; simpl in *; [lia|discriminate]). apply H. simpl. lia. Qed.

Lemma TopOK_cons raw X : (2 <= length X)%nat -> TopOK X -> TopOK (raw :: X).
Proof. intros L H _. rewrite last_cons2 by (destruct X; simpl in *; [lia|discriminate]). now apply H. Qed.

Lemma len_pos_nonempty {A} (l : list A) : 0 < len l -> l <> [].
Proof. destruct l; [unfold len; simpl; lia|discriminate]. Qed.

Lemma nonempty_len_pos {A} (l : list A) : l <> [] -> 0 < len l.
Proof. destruct l; [congruence|rewrite len_cons; pose proof (len_nonneg l); lia]. Qed.

(* what goes up is not empty when the compacted level holds at least 8 items or the level above is not empty *)
Lemma up_nonempty so raw above c : 8 <= len raw \/ above <> [] -> snd (compact_level so raw above c) <> [].
Proof.
  intro H. pose proof (compact_lengths so raw above c) as L. destruct (compact_level so raw above c) as [lo up].
  cbn [snd]. destruct L as [_ L]. apply len_pos_nonempty. unfold len. rewrite L, Nat2Z.inj_add, len_div2.
  destruct H as [H|H].
  - assert (4 <= len raw / 2) by (apply Z.div_le_lower_bound; lia). unfold len in *. lia.
  - apply nonempty_len_pos in H. assert (0 <= len raw / 2) by (apply Z.div_pos; [apply len_nonneg|lia]). unfold len in *. lia.
Qed.

Lemma compact_at_top so c : forall h lv, TopOK lv -> (h < length lv)%nat -> 8 <= len (nth h lv []) ->
  TopOK (compact_at h so c lv) /\ (2 <= length (compact_at h so c lv))%nat.
Proof.
  induction h as [|h IH]; intros [|raw rest] T Hh H8; simpl in Hh; try lia.
  - rewrite compact_at_0. cbn [nth] in H8. split; [|simpl; lia]. intros _.
    destruct rest as [|above r]; cbn [hd tl].
    + cbn [last]. apply up_nonempty. now left.
    + destruct r as [|x r'].
      * cbn [last]. apply up_nonempty. right. apply (T ltac:(simpl; lia)).
      * change (last (fst (compact_level so raw above c) :: snd (compact_level so raw above c) :: x :: r') [])
          with (last (x :: r') []).
        change (last (x :: r') []) with (last (raw :: above :: x :: r') []). apply T. simpl. lia.
  - rewrite compact_at_S. cbn [nth] in H8. destruct (IH rest (TopOK_tl _ _ T) ltac:(lia) H8) as [T' L'].
    split; [now apply TopOK_cons|cbn [length]; lia].
Qed.

(* ---------- update ---------- *)
Record Extra (s : kll) : Prop := mkExtra {
  e_top : TopOK (levels s);
  e_mk : length (levels s) = 1%nat -> min_k s = kk s
}.

Lemma compress_upd_extra s s' : Inv s -> Extra s -> leaf (compress_upd s) s' ->
  Extra s' /\ (length (levels s) <= length (levels s'))%nat.
Proof.
  intros I [T M] L. unfold compress_upd in L.
  destruct (find_level (kk s) (length (levels s)) 0 (levels s)) as [h|] eqn:E.
  - apply leaf_flip_inv in L as [c L]. apply leaf_ret_inv in L. subst s'.
    apply find_level_some in E as [Hh Hc]. rewrite Nat.sub_0_r in Hc. simpl in Hh.
    pose proof (level_capacity_ge (kk s) (length (levels s)) h).
    destruct (compact_at_top ((h =? 0)%nat && negb (l0s s)) c h (levels s) T ltac:(lia) ltac:(lia)) as [T' L'].
    unfold set_levels. split.
    + constructor; cbn [levels min_k kk]; [exact T'|intro E1; lia].
    + cbn [levels]. rewrite compact_at_length by lia. destruct (S h =? length (levels s))%nat; lia.
  - apply leaf_ret_inv in L. subst s'. split; [split; assumption|lia].
Qed.

Lemma push0_extra s x : levels s <> [] -> Extra s -> Extra (push0 s x) /\ length (levels (push0 s x)) = length (levels s).
Proof.
  intros NE [T M]. unfold push0. cbn [levels min_k kk]. destruct (levels s) as [|l0 r] eqn:E; [congruence|].
  split; [split|reflexivity].
  - intro L. destruct r as [|l1 r']; [simpl in L; lia|]. change (last ((x :: l0) :: l1 :: r') []) with (last (l0 :: l1 :: r') []). now apply T.
  - exact M.
Qed.

Lemma internal_update_extra s x s' : Inv s -> Extra s -> leaf (internal_update s x) s' ->
  Extra s' /\ (length (levels s) <= length (levels s'))%nat.
Proof.
  intros I X L. unfold internal_update in L. apply leaf_bind in L as (s1 & L1 & L2). apply leaf_ret_inv in L2. subst s'.
  assert (Y : Inv s1 /\ Extra s1 /\ (length (levels s) <= length (levels s1))%nat).
  { destruct (free s =? 0).
    - destruct (compress_upd_spec s s1 I L1) as (I1 & _). destruct (compress_upd_extra s s1 I X L1). auto.
    - apply leaf_ret_inv in L1. subst s1. auto. }
  destruct Y as (I1 & X1 & Le). destruct (push0_extra s1 x (i_ne s1 I1) X1) as [X2 E]. split; [exact X2|lia].
Qed.

Lemma upd_minmax_extra s lo hi : Extra s -> Extra (upd_minmax s lo hi).
Proof.
  intros [T M]. destruct (levels_upd_minmax s lo hi) as (E1 & E2 & E3 & E4 & E5 & E6).
  split; [now rewrite E1|rewrite E1, E4, E6; exact M].
Qed.

Lemma add_l0_extra : forall items s s', Inv s -> Extra s -> leaf (add_l0 s items) s' ->
  Extra s' /\ (length (levels s) <= length (levels s'))%nat.
Proof.
  induction items as [|x r IH]; intros s s' I X L; simpl in L.
  - apply leaf_ret_inv in L. subst s'. auto.
  - apply leaf_bind in L as (s1 & L1 & L2).
    destruct (internal_update_spec s x s1 I L1) as (I1 & _). destruct (internal_update_extra s x s1 I X L1) as [X1 Le1].
    destruct (IH s1 s' I1 X1 L2) as [X2 Le2]. split; [exact X2|lia].
Qed.

(* ---------- merge ---------- *)
Lemma zip_levels_last : forall a b, last a [] <> [] \/ a = [] -> last b [] <> [] \/ b = [] -> a <> [] \/ b <> [] ->
  last (zip_levels a b) [] <> [].
Proof.
  induction a as [|x a IH]; intros b Ha Hb NE.
  - rewrite (match b return zip_levels [] b = b with [] => eq_refl | _ => eq_refl end). destruct Hb as [Hb|Hb]; [exact Hb|]. destruct NE; congruence.
  - destruct b as [|y b].
    + cbn [zip_levels]. destruct Ha as [Ha|Ha]; [exact Ha|discriminate].
    + cbn [zip_levels]. destruct a as [|x2 a'], b as [|y2 b'].
      * cbn [zip_levels last]. destruct Ha as [Ha|Ha]; [|discriminate]. cbn [last] in Ha.
        apply len_pos_nonempty. unfold len. rewrite merge_sorted_length. apply nonempty_len_pos in Ha. unfold len in Ha. lia.
      * rewrite last_cons2 by discriminate. apply (IH (y2 :: b')); [now right| |now right].
        destruct Hb as [Hb|Hb]; [left; exact Hb|discriminate].
      * rewrite last_cons2 by (destruct a'; discriminate). apply (IH []); [|now right|now left].
        destruct Ha as [Ha|Ha]; [left; exact Ha|discriminate].
      * rewrite last_cons2 by discriminate. apply (IH (y2 :: b')); [| |now left].
        -- destruct Ha as [Ha|Ha]; [left; exact Ha|discriminate].
        -- destruct Hb as [Hb|Hb]; [left; exact Hb|discriminate].
Qed.

Lemma gc_top k s0 : forall fuel cur nl cn tgt ins r, leaf (gc fuel k s0 cur nl cn tgt ins) r ->
  ins <> [] -> last ins [] <> [] ->
  last (fst r) [] <> [] /\ (length ins <= length (fst r))%nat.
Proof.
  induction fuel as [|f IH]; intros cur nl cn tgt ins r L NE T; cbn [gc] in L.
  { apply leaf_ret_inv in L. subst r. auto. }
  destruct ins as [|raw rest]; [congruence|].
  destruct ((cn <? tgt) || (len raw <? level_capacity k nl cur)) eqn:C.
  - destruct (S cur =? nl)%nat.
    + apply leaf_ret_inv in L. subst r. auto.
    + apply leaf_bind in L as (r' & L1 & L2). apply leaf_ret_inv in L2. subst r. unfold cons_fst. cbn [fst].
      destruct rest as [|x rest'].
      * assert (E : fst r' = []).
        { destruct f; cbn [gc] in L1; apply leaf_ret_inv in L1; now subst r'. }
        rewrite E. cbn [last length] in *. auto.
      * rewrite (last_cons2 raw (x :: rest')) in T by discriminate.
        destruct (IH _ _ _ _ _ _ L1 ltac:(discriminate) T) as [T' Le].
        assert (N' : fst r' <> []) by (destruct (fst r'); [simpl in Le; lia|discriminate]).
        rewrite last_cons2 by exact N'. split; [exact T'|simpl in *; lia].
  - apply orb_false_iff in C as [_ C]. apply Z.ltb_ge in C. pose proof (level_capacity_ge k nl cur) as C8.
    apply leaf_flip_inv in L as [c L]. apply leaf_bind in L as (r' & L1 & L2). apply leaf_ret_inv in L2. subst r.
    unfold cons_fst. cbn [fst].
    set (so := ((cur =? 0)%nat && negb s0)) in *.
    assert (T1 : last (snd (compact_level so raw (hd [] rest) c) :: tl rest) [] <> []).
    { destruct rest as [|above r2]; cbn [hd tl].
      - cbn [last]. apply up_nonempty. left. lia.
      - destruct r2 as [|x r3].
        + cbn [last]. apply up_nonempty. right. exact T.
        + rewrite last_cons2 by discriminate. exact T. }
    destruct (IH _ _ _ _ _ _ L1 ltac:(discriminate) T1) as [T' Le].
    assert (N' : fst r' <> []) by (destruct (fst r'); [simpl in Le; lia|discriminate]).
    rewrite last_cons2 by exact N'. split; [exact T'|].
    cbn [length] in *. destruct rest; cbn [tl length] in *; lia.
Qed.

Lemma TopOK_last_or lv : TopOK lv -> lv <> [] -> last (tl lv) [] <> [] \/ tl lv = [].
Proof.
  intros T NE. destruct lv as [|l0 r]; [congruence|]. cbn [tl]. destruct r as [|l1 r']; [now right|left].
  rewrite <- (last_cons2 l0 (l1 :: r') []) by discriminate. apply T. simpl. lia.
Qed.

Lemma merge_higher_extra s o s' : Inv s -> Inv o -> Extra s -> Extra o -> (2 <= length (levels o))%nat ->
  leaf (merge_higher s o) s' ->
  TopOK (levels s') /\ (2 <= length (levels s'))%nat.
Proof.
  intros I Io [T _] [To _] L2 L. unfold merge_higher in L. apply leaf_bind in L as (r & L1 & Lr). apply leaf_ret_inv in Lr. subst s'.
  unfold set_levels. cbn [levels].
  set (work := hd [] (levels s) :: zip_levels (tl (levels s)) (tl (levels o))) in *.
  assert (Z : zip_levels (tl (levels s)) (tl (levels o)) <> []).
  { destruct (levels o) as [|o0 [|o1 ro]]; simpl in L2; try lia. cbn [tl]. destruct (tl (levels s)); discriminate. }
  assert (TW : last work [] <> []).
  { unfold work. rewrite last_cons2 by exact Z. apply zip_levels_last.
    - apply TopOK_last_or; [exact T|apply (i_ne s I)].
    - apply TopOK_last_or; [exact To|apply (i_ne o Io)].
    - right. destruct (levels o) as [|o0 [|o1 ro]]; simpl in L2; try lia. discriminate. }
  destruct (gc_top _ _ _ _ _ _ _ _ _ L1 ltac:(discriminate) TW) as [T' Le].
  assert (LW : (2 <= length work)%nat).
  { unfold work. cbn [length]. destruct (zip_levels (tl (levels s)) (tl (levels o))); [congruence|simpl; lia]. }
  split; [intros _; exact T'|lia].
Qed.

Lemma merge_extra s o s' : Inv s -> Inv o -> Extra s -> Extra o -> leaf (merge s o) s' -> Extra s'.
Proof.
  intros I Io X Xo L. unfold merge in L. destruct (nn o =? 0).
  { apply leaf_ret_inv in L. now subst s'. }
  apply leaf_bind in L as (s2 & L1 & L). apply leaf_bind in L as (s3 & L2 & L3). apply leaf_ret_inv in L3.
  pose proof (Inv_upd_minmax s (mn o) (mx o) I) as I1. pose proof (upd_minmax_extra s (mn o) (mx o) X) as X1.
  destruct (levels_upd_minmax s (mn o) (mx o)) as (E1 & E2 & E3 & E4 & E5 & E6).
  destruct (add_l0_spec _ _ _ I1 L1) as (I2 & (M1 & M2 & M3 & M4) & _).
  destruct (add_l0_extra _ _ _ I1 X1 L1) as [X2 Le2]. rewrite E1 in Le2.
  destruct (2 <=? length (levels o))%nat eqn:C.
  - apply Nat.leb_le in C. destruct (merge_higher_extra s2 o s3 I2 Io X2 Xo C L2) as [T3 L3'].
    subst s'. split; cbn [levels min_k kk]; [exact T3|intro; lia].
  - apply leaf_ret_inv in L2. subst s3 s'. destruct X2 as [T2 MK2]. split; cbn [levels min_k kk]; [exact T2|exact MK2].
Qed.

Lemma sort_level_zero_extra s : Extra s -> Extra (sort_level_zero s).
Proof.
  intros [T M]. unfold sort_level_zero. destruct (l0s s); [split; assumption|].
  split; cbn [levels min_k kk].
  - destruct (levels s) as [|l0 r]; [exact T|]. intro L. destruct r as [|l1 r']; [simpl in L; lia|].
    change (last (isort l0 :: l1 :: r') []) with (last (l0 :: l1 :: r') []). now apply T.
  - destruct (levels s) as [|l0 r]; [exact M|]. exact M.
Qed.

Theorem reach_extra s log : reach s log -> Extra s.
Proof.
  induction 1 as [k Hk|s log x s' R IH L|s l1 o l2 s' R1 IH1 R2 IH2 L|s log R IH].
  - constructor; [intro H; cbn in H; lia|reflexivity].
  - unfold update in L. pose proof (r_inv _ _ (reach_Rel _ _ R)) as I.
    apply (internal_update_extra _ x s' (Inv_upd_minmax s x x I) (upd_minmax_extra s x x IH) L).
  - eapply merge_extra; [| | | |exact L]; auto; eapply r_inv, reach_Rel; eauto.
  - now apply sort_level_zero_extra.
Qed.

(* a reachable sketch with n = 1 is a single level holding one item, which is also its min and max; min_k = k *)
Theorem reach_single_shape s log : reach s log -> nn s = 1 ->
  exists v, levels s = [[v]] /\ mn s = v /\ mx s = v /\ min_k s = kk s.
Proof.
  intros R N1. pose proof (reach_Rel _ _ R) as [I N Mi Ma Su]. destruct (reach_extra _ _ R) as [T MK].
  pose proof (i_w s I) as W. pose proof (i_ne s I) as NE. rewrite N1 in W.
  assert (L1 : length (levels s) = 1%nat).
  { destruct (levels s) as [|l0 [|l1 r]] eqn:E; [congruence|reflexivity|exfalso].
    assert (TT : last (l0 :: l1 :: r) [] <> []) by (apply T; simpl; lia).
    (* the last level has weight at least 2 *)
    assert (G : forall lv w, 0 < w -> last lv [] <> [] -> w <= wsum w lv).
    { induction lv as [|a lv' IHl]; intros w Hw Hl; [cbn in Hl; congruence|].
      unfold wsum in *. cbn [Rlv]. rewrite cnt_true. destruct lv' as [|b lv''].
      - cbn [last] in Hl. apply nonempty_len_pos in Hl. cbn [Rlv]. nia.
      - rewrite last_cons2 in Hl by discriminate. specialize (IHl (2 * w) ltac:(lia) Hl). pose proof (len_nonneg a). nia. }
    unfold wsum in W. cbn [Rlv] in W. rewrite cnt_true in W.
    rewrite last_cons2 in TT by discriminate. specialize (G (l1 :: r) 2 ltac:(lia) TT). unfold wsum in G.
    cbn [Rlv] in G. change (2 * 1) with 2 in *. pose proof (len_nonneg l0). lia. }
  destruct (levels s) as [|l0 [|l1 r]] eqn:E; try discriminate.
  unfold wsum in W. cbn [Rlv] in W. rewrite cnt_true in W.
  destruct l0 as [|v [|v2 l0']]; [change (len (@nil Z)) with 0 in W; lia| |rewrite !len_cons in W; pose proof (len_nonneg l0'); lia].
  exists v. split; [reflexivity|].
  assert (LG : exists y, log = [y]).
  { rewrite N1 in N. destruct log as [|y [|y2 lg]]; [change (len (@nil Z)) with 0 in N; lia|eauto|rewrite !len_cons in N; pose proof (len_nonneg lg); lia]. }
  destruct LG as [y ->].
  assert (y = v).
  { specialize (Su (fun z => z =? v)). cbn [concat app] in Su. rewrite !cnt_cons, !cnt_nil, Z.eqb_refl in Su.
    destruct (Z.eqb_spec y v); [assumption|lia]. }
  subst y. destruct (Mi ltac:(discriminate)) as [[A|[]] _]. destruct (Ma ltac:(discriminate)) as [[B|[]] _].
  repeat split; auto.
Qed.
