(* Properties_C09_cpc.v — the serialized image of cpc_sketch round-trips through both readers. Only statements; proofs
   live in CpcImageProofs.v (image level) and CpcImageProofs2.v (reachable sketches). The model is CpcImageDefs.v
   (extracted through CpcImageRun.v and compared with cpc_sketch::serialize / deserialize of the C++ on every run); it
   describes the readers as repaired by fixes/11_cpc_*.patch (the old readers: Regression_cpccodec.v).
   [image_wf] is what every image written by serialize() satisfies (theorem C09_cpc_sketch_image_wf): byte / u16 / u32 /
   u64 field widths, preamble_ints = get_preamble_ints(...), lg_k in 4..26, empty iff no table and no window flag,
   fields that are not written hold what the readers put there, word counts = list lengths, and the counts pass the
   validation of the repaired readers.  [SInv l s hist] is THE invariant of reachable sketches (CpcSketchInv.v; every
   sk_run result satisfies it: CpcProofs.run_inv).  kxp / hip_est_accum are 64-bit patterns taken from the object. *)
From Coq Require Import NArith List Bool Lia Arith.
From DS Require Import Word Murmur3 RunnerLib CpcDefs CpcCodecDefs CpcFlavorDefs CpcTableProofs CpcSketchInv CpcProofs.
From DS Require Import CpcImageDefs CpcImageProofs CpcImageProofs2 CpcImageClosed.
Import ListNotations.
Local Open Scope N_scope.

(** * image level *)

(* bytes reader: exactly the image *)
Theorem C09_cpc_image_roundtrip_bytes : forall i, image_wf i -> dec_image_bytes (enc_image i) = Some i.
Proof. exact image_rt_bytes. Qed.

(* stream reader: the image, and exactly the image is consumed *)
Theorem C09_cpc_image_roundtrip_stream : forall i rest, image_wf i ->
  dec_image_stream (enc_image i ++ rest) = Some (i, rest).
Proof. exact image_rt_stream. Qed.

(* the size serialize(header_size_bytes) computes before it writes is the length of what it writes *)
Theorem C09_cpc_image_size : forall i, image_wf i ->
  lenN (enc_image i) = 4 * (i_pre i + lenN (i_tab i) + lenN (i_win i)).
Proof. exact image_size_ok. Qed.

(* re-serialization of what was read is the same image, byte for byte *)
Theorem C09_cpc_image_reserialize_bytes : forall i i', image_wf i ->
  dec_image_bytes (enc_image i) = Some i' -> enc_image i' = enc_image i.
Proof. exact image_reserialize_bytes. Qed.

Theorem C09_cpc_image_reserialize_stream : forall i i' rest rest', image_wf i ->
  dec_image_stream (enc_image i ++ rest) = Some (i', rest') -> enc_image i' = enc_image i /\ rest' = rest.
Proof. exact image_reserialize_stream. Qed.

(** * reachable sketches *)

(* the image of every reachable sketch is well-formed; side conditions: the surprising-value table holds at most
   3/4 * 2^(6+lg_k) pairs (the load limit of u32_table at its largest size; CpcFlavorProofs.fits_all derives it from
   SInv outside the SLIDING flavor) and at most 2^26 pairs (automatic for lg_k <= 20) *)
Theorem C09_cpc_sketch_image_wf : forall l s hist kxp hip i,
  SInv l s hist -> 4 <= l <= 26 -> kxp < two64 -> hip < two64 ->
  4 * t_num (table s) <= 3 * 2 ^ (6 + l) -> t_num (table s) <= 2 ^ 26 ->
  image_of_sketch s kxp hip = Some i -> image_wf i.
Proof. exact image_of_sketch_wf. Qed.

(* deserialize(serialize(s)), both readers.  Premise [uncompress_sketch c l (ncoup s) = Some (t', window s)] is the
   conclusion of the flavor round trip of the compressor (CpcFlavorProofs.flavor_codec_rt, which also gives TInv t' and
   the equality of the pair sets used in C09_cpc_restored_matrix).  The restored sketch has the same lg_k, seed, merged
   flag, coupon count, window, offset, first interesting column; kxp / hip bit patterns are the original ones when the
   image carries them (not merged, not empty), else 2^lg_k and 0 as both readers set them; the stream reader consumes
   exactly the image; the bytes reader refuses the image followed by anything *)
Theorem C09_cpc_sketch_roundtrip : forall l s hist kxp hip c i t',
  SInv l s hist -> 4 <= l <= 26 -> kxp < two64 -> hip < two64 ->
  4 * t_num (table s) <= 3 * 2 ^ (6 + l) -> t_num (table s) <= 2 ^ 26 ->
  compress_sketch s = Some c -> image_of_sketch s kxp hip = Some i ->
  uncompress_sketch c l (ncoup s) = Some (t', window s) ->
  let s' := mkS l (seed s) (merged s) (ncoup s) t' (window s) (woff s) (fic s) in
  let kxp' := if negb (merged s) && negb (ncoup s =? 0) then kxp else kxp_empty l in
  let hip' := if negb (merged s) && negb (ncoup s =? 0) then hip else 0 in
  dec_bytes (seed s) (enc_image i) = Some (s', kxp', hip') /\
  (forall rest, dec_stream (seed s) (enc_image i ++ rest) = Some (s', kxp', hip', rest)) /\
  (forall rest, rest <> [] -> dec_bytes (seed s) (enc_image i ++ rest) = None).
Proof. exact sketch_roundtrip. Qed.

(* a restored sketch (same scalar fields and window, a valid table with the same set of pairs) satisfies the invariant
   with the same history: it is the same coupon bit matrix, hence indistinguishable and fully functional *)
(* THE closed round trip: for every reachable sketch (any flavor), deserialize(serialize s) through BOTH readers returns a
   sketch with the same fields, window, offset and table set, representing the same coupon history and bit matrix; the
   stream reader consumes exactly the image, the bytes reader refuses trailing bytes. No premise about the compressor is
   left (CpcFlavorProofs.flavor_codec_rt); the two table bounds exclude only SLIDING sketches with > 48K surprising values *)
Theorem C09_cpc_serialize_deserialize : forall l s hist kxp hip b,
  SInv l s hist -> 4 <= l <= 26 -> kxp < two64 -> hip < two64 ->
  4 * t_num (table s) <= 3 * 2 ^ (6 + l) -> t_num (table s) <= 2 ^ 26 ->
  enc s kxp hip = Some b ->
  exists t',
    let s' := mkS l (seed s) (merged s) (ncoup s) t' (window s) (woff s) (fic s) in
    let kxp' := if negb (merged s) && negb (ncoup s =? 0) then kxp else kxp_empty l in
    let hip' := if negb (merged s) && negb (ncoup s =? 0) then hip else 0 in
    dec_bytes (seed s) b = Some (s', kxp', hip') /\
    (forall rest, dec_stream (seed s) (b ++ rest) = Some (s', kxp', hip', rest)) /\
    (forall rest, rest <> [] -> dec_bytes (seed s) (b ++ rest) = None) /\
    (forall y, In y (t_items t') <-> In y (t_items (table s))) /\
    SInv l s' hist /\ build_bit_matrix s' = Some (spec_matrix l hist) /\ build_bit_matrix s = Some (spec_matrix l hist).
Proof. exact serialize_deserialize_closed. Qed.

Theorem C09_cpc_restored_matrix : forall l s hist t', SInv l s hist -> TInv t' ->
  (forall y, In y (t_items t') <-> In y (t_items (table s))) ->
  let s' := mkS l (seed s) (merged s) (ncoup s) t' (window s) (woff s) (fic s) in
  SInv l s' hist /\ build_bit_matrix s' = Some (spec_matrix l hist) /\ build_bit_matrix s = Some (spec_matrix l hist).
Proof. exact restored_matrix. Qed.

(* the advertised size of the image of a reachable sketch *)
Theorem C09_cpc_sketch_image_size : forall l s hist kxp hip i,
  SInv l s hist -> 4 <= l <= 26 -> kxp < two64 -> hip < two64 ->
  4 * t_num (table s) <= 3 * 2 ^ (6 + l) -> t_num (table s) <= 2 ^ 26 ->
  image_of_sketch s kxp hip = Some i ->
  lenN (enc_image i) = 4 * (i_pre i + lenN (i_tab i) + lenN (i_win i)).
Proof. exact sketch_image_size. Qed.

(* serialize(header_size_bytes) = h zero bytes followed by the image *)
Theorem C09_cpc_header_form : forall h s kxp hip b, enc s kxp hip = Some b ->
  enc_header h s kxp hip = Some (repeat 0 (N.to_nat h) ++ b).
Proof. exact enc_header_form. Qed.

(** * non-vacuity *)
(* a SPARSE image: lg_k 10, one coupon, HIP registers *)
Definition C09_ex : image :=
  mkI 8 1 16 10 0 14 37836 1 1 4652218415073722368 4607182418800017408 [] [2].
Example C09_ex_wf : image_wf C09_ex.
Proof.
  constructor; cbn; try reflexivity; try (intros; discriminate); try (intros; reflexivity);
    try (repeat constructor; fail); try (intros H; discriminate H).
Qed.
Example C09_ex_image :
  enc_image C09_ex = [8; 1; 16; 10; 0; 14; 204; 147;  1; 0; 0; 0;  1; 0; 0; 0;
                      0; 0; 0; 0; 0; 0; 144; 64;  0; 0; 0; 0; 0; 0; 240; 63;  2; 0; 0; 0] /\
  dec_image_bytes (enc_image C09_ex) = Some C09_ex /\
  dec_image_stream (enc_image C09_ex ++ [165; 165]) = Some (C09_ex, [165; 165]) /\
  dec_image_bytes (enc_image C09_ex ++ [165]) = None /\
  (exists s, dec_bytes 9001 (enc_image C09_ex) = Some (s, 4652218415073722368, 4607182418800017408) /\
             lgk s = 10 /\ ncoup s = 1 /\ t_items (table s) = [0]) /\
  dec_bytes 9002 (enc_image C09_ex) = None.
Proof. vm_compute. repeat split. eexists. repeat split. Qed.

(* reachable sketches of three classes (lg_k 4: sparse with 1 coupon, pinned without and with surprising values): the
   premises of C09_cpc_sketch_roundtrip hold (SInv by CpcProofs.run_inv) and its conclusion is recomputed *)
Definition C09_runs : list (list N) :=
  [ [5]; [0; 64; 128; 192; 256; 320; 384; 448; 1]; [0; 64; 128; 192; 256; 320; 384; 448; 9; 75] ].
Definition C09_run_ok (rcs : list N) : Prop :=
  match sk_run 4 9001 rcs with
  | Some s =>
      match compress_sketch s, image_of_sketch s 1 2 with
      | Some c, Some i =>
          match uncompress_sketch c 4 (ncoup s) with
          | Some (t', w) =>
              w = window s /\ 4 * t_num (table s) <= 3 * 2 ^ (6 + 4) /\
              dec_bytes 9001 (enc_image i) = Some (mkS 4 9001 false (ncoup s) t' (window s) (woff s) (fic s), 1, 2) /\
              sortN (t_items t') = sortN (t_items (table s)) /\ lenN (enc_image i) = 4 * (i_pre i + lenN (i_tab i) + lenN (i_win i))
          | None => False
          end
      | _, _ => False
      end
  | None => False
  end.
Example C09_ex_runs : Forall C09_run_ok C09_runs /\ Forall (valid_rcs 4) C09_runs.
Proof.
  split.
  - unfold C09_runs. apply Forall_cons; [|apply Forall_cons; [|apply Forall_cons; [|apply Forall_nil]]];
      vm_compute; repeat split; discriminate.
  - assert (G : forall r, (forallb (fun x => (x <? 2 ^ 10) && negb (x =? EMPTY)) r = true) -> valid_rcs 4 r).
    { intros r Hr x Hx. rewrite forallb_forall in Hr. specialize (Hr x Hx). apply andb_true_iff in Hr as [H1 H2].
      apply N.ltb_lt in H1. apply negb_true_iff, N.eqb_neq in H2. split; assumption. }
    unfold C09_runs. apply Forall_cons; [|apply Forall_cons; [|apply Forall_cons; [|apply Forall_nil]]]; apply G; reflexivity.
Qed.
Example C09_ex_runs_inv : forall rcs s, In rcs C09_runs -> sk_run 4 9001 rcs = Some s -> SInv 4 s (rev rcs).
Proof.
  intros rcs s Hin Hs. destruct C09_ex_runs as [_ Hv]. rewrite Forall_forall in Hv. exact (run_inv 4 9001 rcs s (Hv rcs Hin) Hs).
Qed.

Print Assumptions C09_cpc_image_roundtrip_bytes.
Print Assumptions C09_cpc_image_roundtrip_stream.
Print Assumptions C09_cpc_image_size.
Print Assumptions C09_cpc_image_reserialize_bytes.
Print Assumptions C09_cpc_image_reserialize_stream.
Print Assumptions C09_cpc_sketch_image_wf.
Print Assumptions C09_cpc_sketch_roundtrip.
Print Assumptions C09_cpc_serialize_deserialize.
Print Assumptions C09_cpc_restored_matrix.
Print Assumptions C09_cpc_sketch_image_size.
Print Assumptions C09_cpc_header_form.
