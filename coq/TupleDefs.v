(* TupleDefs.v — executable model of the Tuple sketches (no proofs here).
   tuple/include/tuple_sketch_impl.hpp      update_tuple_sketch (update = create()+update() on first sight, update()
                                            on repeat; the table is the Theta table of ThetaDefs.v with payload S),
                                            compact_tuple_sketch (copy with ordering, construction from a Theta sketch,
                                            filter)
   theta/include/theta_union_base_impl.hpp, theta_intersection_base_impl.hpp, theta_set_difference_base_impl.hpp
                                            as instantiated by tuple_union / tuple_intersection / tuple_a_not_b
                                            (internal_policy adapters: the policy combines the summaries of matching keys)
   tuple/include/array_tuple_*.hpp          array-of-doubles = the instance whose policies add column-wise.
   The shared set-operation code is modelled AS REPAIRED by fixes/02_intersection_empty_order.patch and
   fixes/02_union_empty_theta.patch (property C02; the old behaviour is documented in coq/ThetaSetDefs.v / Regression_thetaset.v).
   Everything up to [End SetOps] is polymorphic in the summary type S, the update type U and the policies
   ([create], [upd], [comb]: no algebraic assumption); std::nth_element is the abstract [sel] of ThetaDefs.v. *)
From Coq Require Import ZArith NArith List Bool.
From DS Require Import Word Murmur3 RunnerLib OpenAddr KSmallest Canon ThetaDefs.
Import ListNotations.
Local Open Scope N_scope.

(* ------------------------------------------------------------------------------------------ *)
(** * update_tuple_sketch *)
Section UpdatePolicy.
  Variables S U : Type.
  Variable create : S.                   (* policy_.create() *)
  Variable upd : S -> U -> S.            (* policy_.update(summary, value) *)

  (* the payload function handed to the Theta table: new key => create() then update(); known key => update() *)
  Definition tup_f (u : U) (o : option S) : S :=
    upd (match o with Some v => v | None => create end) u.

  Definition tup_op (h64 : N) (u : U) : op S := OpUpdate h64 (tup_f u).

  (* histories of a tuple sketch: (64-bit hash of the key, value) updates, trim, reset *)
  Inductive top := TUpdate (h64 : N) (u : U) | TTrim | TReset.
  Definition op_of_top (t : top) : op S :=
    match t with TUpdate h u => tup_op h u | TTrim => OpTrim | TReset => OpReset end.

  (* L0: the values offered with 63-bit hash [h] since the last reset, in arrival order *)
  Fixpoint offered_with (h : N) (ts : list top) (acc : list U) : list U :=
    match ts with
    | [] => acc
    | TUpdate h64 u :: r => offered_with h r (if h64 / 2 =? h then acc ++ [u] else acc)
    | TTrim :: r => offered_with h r acc
    | TReset :: r => offered_with h r []
    end.

  Definition fold_policy (us : list U) : S := fold_left upd us create.
End UpdatePolicy.
Arguments TUpdate {U}. Arguments TTrim {U}. Arguments TReset {U}.

(* ------------------------------------------------------------------------------------------ *)
(** * compact forms, filter, set operations *)
Section SetOps.
  Variable S : Type.
  Variable sel : nat -> list (N * S) -> list (N * S).
  Variable comb : S -> S -> S.           (* union / intersection policy: comb internal incoming *)

  Notation compact := (compact S).
  Notation sketch := (sketch S).

  (* the constructor compact_tuple_sketch(is_empty, is_ordered, seed_hash, theta, entries) *)
  Definition mk_cs (e o : bool) (th : N) (ents : list (N * S)) : compact :=
    mk_compact S th e (o || (length ents <=? 1)%nat) ents.

  Definition c_est (c : compact) : bool := (c_theta c <? max_theta) && negb (c_empty c).

  (* how a set operation sees an update sketch through the tuple_sketch interface *)
  Definition view_u (s : sketch) : compact := compact_of S s false.

  (* compact_tuple_sketch::filter(sketch, predicate) *)
  Definition filter_c (p : S -> bool) (c : compact) : compact :=
    let ents := filter (fun e => p (snd e)) (c_entries c) in
    mk_cs (negb (c_est c) && (length ents =? 0)%nat) (c_ordered c) (c_theta c) ents.

  (* compact_tuple_sketch(const theta_sketch&, const Summary&, bool ordered) *)
  Definition of_theta (t : ThetaDefs.compact unit) (v : S) (ordered : bool) : compact :=
    let ents := map (fun e => (fst e, v)) (c_entries t) in
    mk_compact S (c_theta t) (c_empty t) (c_ordered t || ordered)
      (if ordered && negb (c_ordered t) then msort fst ents else ents).

  Fixpoint lookup (h : N) (l : list (N * S)) : option S :=
    match l with
    | [] => None
    | (k, v) :: r => if k =? h then Some v else lookup h r
    end.

  (* ---- union (theta_union_base) ---- *)
  Record union_st := mk_union { u_tab : sketch; u_theta : N }.

  Definition union_new (lgn r th0 : N) : union_st := mk_union (new_sketch S lgn r th0) th0.

  (* new key: the incoming entry is stored (copied or moved); known key: policy(internal, incoming) *)
  Definition comb_f (v : S) (o : option S) : S := match o with Some cur => comb cur v | None => v end.

  Fixpoint union_scan (ordered : bool) (ut : N) (t : sketch) (l : list (N * S)) : sketch :=
    match l with
    | [] => t
    | (h, v) :: r =>
        if (h <? ut) && (h <? theta t) then union_scan ordered ut (update S sel t h (comb_f v)) r
        else if ordered then t                                   (* early stop *)
        else union_scan ordered ut t r
    end.

  Definition union_update (u : union_st) (c : compact) : union_st :=
    if c_empty c then u else
    let ut := N.min (u_theta u) (c_theta c) in
    let t := union_scan (c_ordered c) ut (set_nonempty S (u_tab u)) (c_entries c) in
    mk_union t (N.min ut (theta t)).

  Definition union_result (u : union_st) (ordered : bool) : compact :=
    let t := u_tab u in
    if is_empty t then mk_cs true true max_theta [] else      (* repaired code: fixes/02_union_empty_theta.patch *)
    let th := N.min (u_theta u) (theta t) in
    let ents := if theta t <=? u_theta u then entries S t
                else filter (fun e => fst e <? th) (entries S t) in
    let k := knom S t in
    let '(th', ents') :=
      if (k <? length ents)%nat then
        let l' := sel k ents in
        match nth_error l' k with
        | Some p => (fst p, firstn k l')
        | None => (th, ents)
        end
      else (th, ents) in
    mk_cs false ordered th' (if ordered then msort fst ents' else ents').

  Definition union_reset (u : union_st) : union_st :=
    let t := reset S (u_tab u) in mk_union t (theta t).

  (* ---- intersection (theta_intersection_base); the table is kept as the list of its entries ---- *)
  Record inter_st := mk_inter { i_valid : bool; i_empty : bool; i_theta : N; i_ents : list (N * S) }.

  Definition inter_new : inter_st := mk_inter false false max_theta [].

  Fixpoint inter_scan (ordered : bool) (th : N) (ents l : list (N * S)) : list (N * S) :=
    match l with
    | [] => []
    | (h, v) :: r =>
        if h <? th then
          match lookup h ents with
          | Some cur => (h, comb cur v) :: inter_scan ordered th ents r     (* the COMBINED summary is kept *)
          | None => inter_scan ordered th ents r
          end
        else if ordered then []                                            (* early stop *)
        else inter_scan ordered th ents r
    end.

  Definition inter_update (st : inter_st) (c : compact) : inter_st :=
    if i_empty st then st else
    let e := c_empty c in
    let th := if e then max_theta else N.min (i_theta st) (c_theta c) in
    if i_valid st && (length (i_ents st) =? 0)%nat then mk_inter true e th []
    else if (length (c_entries c) =? 0)%nat then mk_inter true e th []
    else if negb (i_valid st) then mk_inter true e th (c_entries c)         (* first update: copy or move *)
    else
      match inter_scan (c_ordered c) th (i_ents st) (c_entries c) with
      | [] => mk_inter true e th []                (* repaired code (fixes/02_intersection_empty_order.patch): not latched *)
      | m => mk_inter true e th m
      end.

  Definition inter_result (st : inter_st) (ordered : bool) : option compact :=
    if i_valid st then
      Some (mk_cs (i_empty st || ((length (i_ents st) =? 0)%nat && (i_theta st =? max_theta))) ordered (i_theta st)
                  (if ordered then msort fst (i_ents st) else i_ents st))
    else None.

  (* ---- A-not-B (theta_set_difference_base::compute) ---- *)
  Fixpoint set_diff (a : list (N * S)) : list (N * S) -> list (N * S) :=
    fix aux (b : list (N * S)) : list (N * S) :=
      match a, b with
      | [], _ => []
      | _, [] => a
      | x :: a', y :: b' =>
          if fst x <? fst y then x :: set_diff a' b
          else if fst y <? fst x then aux b'
          else set_diff a' b'
      end.

  (* the entries a loop "if key < theta ... else if ordered break" visits with key < theta *)
  Fixpoint scan_lt (ordered : bool) (th : N) (l : list (N * S)) : list (N * S) :=
    match l with
    | [] => []
    | e :: r => if fst e <? th then e :: scan_lt ordered th r
                else if ordered then [] else scan_lt ordered th r
    end.

  Definition a_not_b (a b : compact) (ordered : bool) : compact :=
    if c_empty a || ((0 <? length (c_entries a))%nat && c_empty b) then compact_of_compact S a ordered else
    let th := N.min (c_theta a) (c_theta b) in
    let ents :=
      if (length (c_entries b) =? 0)%nat then filter (fun e => fst e <? th) (c_entries a)
      else if c_ordered a && c_ordered b then
        filter (fun e => fst e <? th) (set_diff (c_entries a) (c_entries b))
      else
        let bl := scan_lt (c_ordered b) th (c_entries b) in
        filter (fun e => match lookup (fst e) bl with Some _ => false | None => true end)
               (scan_lt (c_ordered a) th (c_entries a)) in
    let e := c_empty a || ((length ents =? 0)%nat && (th =? max_theta)) in
    mk_cs e (c_ordered a || ordered) th
          (if ordered && negb (c_ordered a) then msort fst ents else ents).
End SetOps.

Arguments u_tab {S}. Arguments u_theta {S}. Arguments mk_union {S}.
Arguments i_valid {S}. Arguments i_empty {S}. Arguments i_theta {S}. Arguments i_ents {S}. Arguments mk_inter {S}.

(* ------------------------------------------------------------------------------------------ *)
(** * the instances run against the code and the line protocol
   Summary = list Z for both flavours, selected by [pol]:
     pol = 0  "log" summary (instrumented, non-commutative): create = [-7]; update appends the value;
              union policy  a ++ [-8] ++ b ; intersection policy a ++ [-9] ++ b
     pol = n  array of n doubles (integral values): create = n zeros; update / union / intersection add column-wise
     pol = -1 arithmetic summary (int64_t) with the default policies: Summary() = 0, +=  — a one-column array *)
Local Open Scope Z_scope.

Definition sm := list Z.

Fixpoint zip_add (a b : list Z) : list Z :=
  match a, b with
  | x :: a', y :: b' => (x + y) :: zip_add a' b'
  | _, _ => a
  end.

Definition arity (pol : Z) : Z := if pol =? 0 then 1 else Z.abs pol.
Definition p_create (pol : Z) : sm := if pol =? 0 then [-7] else repeat 0 (zn (Z.abs pol)).
Definition p_upd (pol : Z) (s : sm) (v : list Z) : sm := if pol =? 0 then s ++ v else zip_add s v.
Definition p_comb (pol : Z) (sep : Z) (a b : sm) : sm := if pol =? 0 then a ++ sep :: b else zip_add a b.
Definition sep_union : Z := -8.
Definition sep_inter : Z := -9.

Definition sum_list (l : list Z) : Z := fold_left Z.add l 0.
Definition p_pred (kind arg : Z) (s : sm) : bool :=
  if kind =? 0 then (sum_list s) mod 3 =? arg else arg <=? nz (length s).

Inductive reg :=
| RU (pol : Z) (seed : N) (s : sketch sm)                 (* update_tuple_sketch / update_array_tuple_sketch *)
| RC (pol : Z) (sh : N) (c : compact sm)                  (* compact forms; sh = seed hash *)
| RT (seed : N) (s : sketch unit)                         (* update_theta_sketch (operand only) *)
| RUn (pol : Z) (seed : N) (u : union_st sm)
| RIn (pol : Z) (seed : N) (i : inter_st sm).

Definition ssel := @sel_sort sm.

(* operand view: policy, seed hash, content *)
Definition view (g : reg) : option (Z * N * compact sm) :=
  match g with
  | RU pol seed s => Some (pol, compute_seed_hash seed, view_u sm s)
  | RC pol sh c => Some (pol, sh, c)
  | _ => None
  end.

Definition enc_entry (e : N * sm) : line := Nz (fst e) :: nz (length (snd e)) :: snd e.
Definition head_c (c : compact sm) : line :=
  [Nz (c_theta c); bz (c_empty c); bz (c_ordered c); nz (length (c_entries c))].
Definition dump_c (c : compact sm) : line :=
  head_c c ++ flat_map enc_entry (msort fst (c_entries c)).
Definition head_u (s : sketch sm) : line :=
  [Nz (get_theta64 sm s); bz (is_empty s); bz (is_ordered sm s); Nz (num s)].

Definition builder_ok (lgk rfz pbits : Z) : bool :=
  (5 <=? lgk) && (lgk <=? 26) && (0 <=? rfz) && (rfz <=? 3) && (0 <=? pbits) && p_accepted (zN pbits).

Definition st := list (Z * reg).

Definition set_dump (s : st) (r2 : Z) (pol : Z) (sh : N) (c : compact sm) : st * outline :=
  (reg_set s r2 (RC pol sh c), (dump_c c, [])).

Definition drop_if (mv : Z) (s : st) (r : Z) : st := if mv =? 0 then s else reg_del s r.

Definition step (s : st) (o e : line) : st * outline :=
  match o with
  | 1 :: r :: pol :: lgk :: rfz :: pbits :: seed :: _ =>      (* update tuple sketch builder *)
      if builder_ok lgk rfz pbits && (-1 <=? pol) && (pol <=? 255) then
        let th0 := starting_theta (zN pbits) in
        let k := new_sketch sm (zN lgk) (zN rfz) th0 in
        (reg_set s r (RU pol (z_to_u64 seed) k), (head_u k, [Nz th0; Nz (2 ^ zN lgk)]))
      else (s, (refused, []))
  | 2 :: r :: mv :: nv :: rest =>                             (* update(key, value): value tokens, then kind + key args *)
      match reg_get s r with
      | Some (RU pol seed k) =>
          let vals := firstn (zn nv) rest in
          match skipn (zn nv) rest with
          | kind :: args =>
              if negb (nz (length vals) =? arity pol) then (s, (refused, [])) else
              match canon_input kind args with
              | None => (s, (head_u k, []))
              | Some bytes =>
                  let h := (hash64 seed bytes / 2)%N in
                  let k' := update sm ssel k h (tup_f sm (list Z) (p_create pol) (p_upd pol) vals) in
                  (reg_set s r (RU pol seed k'), (head_u k', [Nz h]))
              end
          | [] => (s, (refused, []))
          end
      | _ => (s, (refused, []))
      end
  | 3 :: r :: _ =>
      match reg_get s r with
      | Some (RU pol seed k) => let k' := trim sm ssel k in (reg_set s r (RU pol seed k'), (head_u k', []))
      | _ => (s, (refused, []))
      end
  | 4 :: r :: _ =>
      match reg_get s r with
      | Some (RU pol seed k) => let k' := reset sm k in (reg_set s r (RU pol seed k'), (head_u k', []))
      | _ => (s, (refused, []))
      end
  | 5 :: r :: r2 :: ord :: _ =>                               (* r2 := compact form of r (ordered?) *)
      match reg_get s r with
      | Some (RU pol seed k) => set_dump s r2 pol (compute_seed_hash seed) (compact_of sm k (negb (ord =? 0)))
      | Some (RC pol sh c) => set_dump s r2 pol sh (compact_of_compact sm c (negb (ord =? 0)))
      | _ => (s, (refused, []))
      end
  | 6 :: r :: r2 :: _ =>                                      (* r2 := copy of r *)
      match reg_get s r with
      | Some (RU pol seed k) => (reg_set s r2 (RU pol seed k), (dump_c (view_u sm k), []))
      | Some (RC pol sh c) => (reg_set s r2 (RC pol sh c), (dump_c c, []))
      | _ => (s, (refused, []))
      end
  | 36 :: r :: r2 :: ord :: path :: seed :: _ =>              (* r2 := deserialize(serialize(compact(r, ordered))), bytes or stream
                                                                 path (ignored): the same sketch, if the seed hash is accepted *)
      match reg_get s r with
      | Some g => match view g with
                  | Some (pol, sh, c0) =>
                      let c := compact_of_compact sm c0 (negb (ord =? 0)) in
                      let checked := if 0 <? pol then negb (length (c_entries c) =? 0)%nat else negb (c_empty c) in
                      if checked && negb (sh =? compute_seed_hash (z_to_u64 seed))%N then (s, (refused, []))
                      else set_dump s r2 pol sh c
                  | None => (s, (refused, []))
                  end
      | None => (s, (refused, []))
      end
  | 7 :: r :: _ =>                                            (* query: head and the sorted (key, summary) pairs *)
      match reg_get s r with
      | Some g => match view g with
                  | Some (_, _, c) => (s, (dump_c c, []))
                  | None => (s, (refused, []))
                  end
      | None => (s, (refused, []))
      end
  | 8 :: r :: lgk :: rfz :: pbits :: seed :: _ =>             (* update_theta_sketch builder *)
      if builder_ok lgk rfz pbits then
        let th0 := starting_theta (zN pbits) in
        (reg_set s r (RT (z_to_u64 seed) (new_sketch unit (zN lgk) (zN rfz) th0)), (ok, []))
      else (s, (refused, []))
  | 9 :: r :: kind :: args =>                                 (* theta update *)
      match reg_get s r with
      | Some (RT seed k) =>
          match canon_input kind args with
          | None => (s, (ok, []))
          | Some bytes =>
              let h := (hash64 seed bytes / 2)%N in
              (reg_set s r (RT seed (update unit sel_sort k h unit_upd)), (ok, [Nz h]))
          end
      | _ => (s, (refused, []))
      end
  | 10 :: r :: r2 :: ord :: cord :: pol :: v =>               (* r2 := compact_tuple_sketch(theta sketch r [compacted
                                                                 with cord: 0 = as is, 1 = unordered, 2 = ordered], v, ord) *)
      match reg_get s r with
      | Some (RT seed k) =>
          if negb (nz (length v) =? arity pol) then (s, (refused, [])) else
          let t := if cord =? 0 then compact_of unit k false else compact_of unit k (cord =? 2) in
          set_dump s r2 pol (compute_seed_hash seed) (of_theta sm t v (negb (ord =? 0)))
      | _ => (s, (refused, []))
      end
  | 11 :: r :: r2 :: pk :: pa :: _ =>                         (* r2 := filter(r, predicate) *)
      match reg_get s r with
      | Some g => match view g with
                  | Some (pol, sh, c) => set_dump s r2 pol sh (filter_c sm (p_pred pk pa) c)
                  | None => (s, (refused, []))
                  end
      | None => (s, (refused, []))
      end
  | 12 :: r :: pol :: lgk :: rfz :: pbits :: seed :: _ =>     (* union builder *)
      if builder_ok lgk rfz pbits && (-1 <=? pol) && (pol <=? 255) then
        let th0 := starting_theta (zN pbits) in
        (reg_set s r (RUn pol (z_to_u64 seed) (union_new sm (zN lgk) (zN rfz) th0)), (ok, [Nz th0; Nz (2 ^ zN lgk)]))
      else (s, (refused, []))
  | 13 :: r :: r2 :: mv :: _ =>                               (* union.update(sketch r2) *)
      match reg_get s r, reg_get s r2 with
      | Some (RUn pol seed u), Some g =>
          match view g with
          | Some (pol2, sh, c) =>
              if negb (pol2 =? pol) then (s, (refused, [])) else
              if c_empty c then (drop_if mv s r2, (ok, [])) else
              if negb (sh =? compute_seed_hash seed)%N then (s, (refused, [])) else
              let u' := union_update sm ssel (p_comb pol sep_union) u c in
              (drop_if mv (reg_set s r (RUn pol seed u')) r2, (ok, []))
          | None => (s, (refused, []))
          end
      | _, _ => (s, (refused, []))
      end
  | 14 :: r :: r2 :: ord :: _ =>                              (* r2 := union.get_result(ordered) *)
      match reg_get s r with
      | Some (RUn pol seed u) =>
          set_dump s r2 pol (compute_seed_hash seed) (union_result sm ssel u (negb (ord =? 0)))
      | _ => (s, (refused, []))
      end
  | 15 :: r :: _ =>
      match reg_get s r with
      | Some (RUn pol seed u) => (reg_set s r (RUn pol seed (union_reset sm u)), (ok, []))
      | _ => (s, (refused, []))
      end
  | 16 :: r :: pol :: seed :: _ =>                            (* intersection *)
      if (-1 <=? pol) && (pol <=? 255) then (reg_set s r (RIn pol (z_to_u64 seed) (inter_new sm)), (ok, []))
      else (s, (refused, []))
  | 17 :: r :: r2 :: mv :: _ =>                               (* intersection.update(sketch r2) *)
      match reg_get s r, reg_get s r2 with
      | Some (RIn pol seed i), Some g =>
          match view g with
          | Some (pol2, sh, c) =>
              if negb (pol2 =? pol) then (s, (refused, [])) else
              if i_empty i then (drop_if mv s r2, ([1; bz (i_valid i)], [])) else
              if negb (c_empty c) && negb (sh =? compute_seed_hash seed)%N then (s, (refused, [])) else
              let i' := inter_update sm (p_comb pol sep_inter) i c in
              (drop_if mv (reg_set s r (RIn pol seed i')) r2, ([1; bz (i_valid i')], []))
          | None => (s, (refused, []))
          end
      | _, _ => (s, (refused, []))
      end
  | 18 :: r :: r2 :: ord :: _ =>                              (* r2 := intersection.get_result(ordered) *)
      match reg_get s r with
      | Some (RIn pol seed i) =>
          match inter_result sm i (negb (ord =? 0)) with
          | Some c => set_dump s r2 pol (compute_seed_hash seed) c
          | None => (s, (refused, []))
          end
      | _ => (s, (refused, []))
      end
  | 19 :: ra :: rb :: r2 :: ord :: seed :: mv :: _ =>         (* r2 := a_not_b(seed).compute(a, b, ordered) *)
      match reg_get s ra, reg_get s rb with
      | Some ga, Some gb =>
          match view ga, view gb with
          | Some (pol, sha, a), Some (polb, shb, b) =>
              if negb (polb =? pol) then (s, (refused, [])) else
              let sh := compute_seed_hash (z_to_u64 seed) in
              let early := c_empty a || ((0 <? length (c_entries a))%nat && c_empty b) in
              if negb early && (negb (sha =? sh)%N || negb (shb =? sh)%N) then (s, (refused, [])) else
              let c := a_not_b sm a b (negb (ord =? 0)) in
              let s1 := drop_if mv s ra in
              (reg_set s1 r2 (RC pol (if early then sha else sh) c), (dump_c c, []))
          | _, _ => (s, (refused, []))
          end
      | _, _ => (s, (refused, []))
      end
  | _ => (s, ([-2], []))
  end.

Definition run (ops : list opline) : list outline := run_case step [] ops.
