(* Regression_cqcodec.v — the byte reader of the classic quantiles sketch BEFORE fixes/11_cq_v1_unused_long.patch:
   quantiles_sketch::deserialize(const void*, size_t) read the "unused long" of a serial-version-1 image with
   copy_from_mem without checking that 8 bytes remain (and went on with end_ptr - ptr negative, i.e. a huge size_t
   capacity).  [old_overrun] says: every check the unrepaired reader performs before that read passes, the image is of
   serial version 1 and fewer than 8 bytes are left.  The repaired reader (CqCodecDefs.cq_dec) rejects such input. *)
From Coq Require Import ZArith List Bool Lia.
From DS Require Import RunnerLib SortedView CqDefs CqProofs CqView CqCodecDefs CqCodecProofs.
Import ListNotations.
Local Open Scope Z_scope.

Definition old_overrun (kind : Z) (bytes : list Z) : bool :=
  match bytes with
  | pre :: sv :: fam :: flags :: k0 :: k1 :: _ :: _ :: rest =>
      check_k (k0 + 256 * k1) && ((sv =? 1) || (sv =? 2) || (sv =? 3)) && (fam =? 8) && header_valid pre flags sv &&
      negb (bit flags 2) &&
      match take 8 rest with
      | Some (_, r1) =>
          match take_items kind 2 r1 with
          | Some ([_; _], r2) => (sv =? 1) && (length r2 <? 8)%nat
          | _ => false
          end
      | None => false
      end
  | _ => false
  end.

(* a serial-version-1 image written from the documented layout: k = 4, n = 3, items 5 1 9 as doubles *)
Definition v1_image : list Z := cq_enc_doc 1 1 0 (le 8 8) [] (mkcq 4 3 0 [5; 1; 9] [] 1 9 false).

Theorem cq_v1_unused_long_unchecked_refuted :
  exists img m, (m < length img)%nat /\ (exists s, cq_dec 1 img = Some (s, []) /\ cn s = 3) /\
                old_overrun 1 (firstn m img) = true /\ cq_dec 1 (firstn m img) = None.
Proof.
  exists v1_image, 34%nat. split; [vm_compute; lia|]. split.
  - eexists. split; [vm_compute; reflexivity|reflexivity].
  - split; vm_compute; reflexivity.
Qed.

Print Assumptions cq_v1_unused_long_unchecked_refuted.
