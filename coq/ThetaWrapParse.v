(* ThetaWrapParse.v — wrapped_compact_theta_sketch, first half of the agreement with the eager decoder:
   (1) whenever ThetaCodecDefs.dec_bytes accepts an image, compact_theta_sketch_parser::parse (ThetaWrapDefs.parse)
       accepts it too, with the same fields, and the view tells where the entries are (parse_of_dec_all);
   (2) for 64-bit entries (serial versions 1-3) the lazy iterator enumerates exactly rd_entries (iterate_uncompressed). *)
From Coq Require Import NArith ZArith List Bool Arith Lia.
From DS Require Import Word Murmur3 RunnerLib BitPackLang BitPackSpec ThetaCodecDefs ThetaCodecProofs ThetaCodecProofs2 ThetaWrapDefs.
Import ListNotations.
Local Open Scope N_scope.

(* what the eager decoder would do with the entries, given the view *)
Definition eager_entries (v : view) (bytes : list N) : option (list N) :=
  if v_bits v =? 64 then rd_entries (N.to_nat (v_num v)) (skipn (v_start v) bytes)
  else match unpack_all (S (N.to_nat (v_num v))) (N.to_nat (v_bits v)) (N.to_nat (v_num v)) (skipn (v_start v) bytes) with
       | Some ds => Some (undeltas 0 ds) | None => None end.

Lemma rd_skip' n (a l : list N) off : rd n (length a + off) (a ++ l) = rd n off l.
Proof.
  unfold rd. rewrite app_length.
  replace (length a + off + n <=? length a + length l)%nat with (off + n <=? length l)%nat.
  2:{ destruct (Nat.leb_spec (off + n) (length l)), (Nat.leb_spec (length a + off + n) (length a + length l)); lia || reflexivity. }
  rewrite skipn_app. rewrite skipn_all2 by lia. replace (length a + off - length a)%nat with off by lia. reflexivity.
Qed.

Lemma rd_skipn n k off (l : list N) : (k <= length l)%nat -> rd n off (skipn k l) = rd n (k + off) l.
Proof.
  intros H. rewrite <- (firstn_skipn k l) at 2.
  rewrite <- (rd_skip' n (firstn k l) (skipn k l) off).
  rewrite firstn_length, Nat.min_l by assumption. reflexivity.
Qed.

Lemma rd_entries_S m l e r : rd 8 0 l = Some e -> rd_entries m (skipn 8 l) = Some r -> rd_entries (S m) l = Some (e :: r).
Proof. intros H1 H2. cbn [rd_entries]. now rewrite H1, H2. Qed.

Lemma rd_entries_S_inv m l ents : rd_entries (S m) l = Some ents ->
  exists e r, ents = e :: r /\ rd 8 0 l = Some e /\ rd_entries m (skipn 8 l) = Some r.
Proof.
  cbn [rd_entries]. destruct (rd 8 0 l) as [e|]; [|discriminate].
  destruct (rd_entries m (skipn 8 l)) as [r|]; [|discriminate].
  intros H; injection H as <-. eauto.
Qed.

Lemma bad_width_false b : bad_width b = false -> 1 <= b <= 63.
Proof.
  unfold bad_width. intros H. apply orb_false_iff in H. destruct H as [H1 H2].
  apply N.eqb_neq in H1. apply N.ltb_ge in H2. lia.
Qed.

Ltac note E :=
  try (pose proof (rd_some_len _ _ _ _ E));
  try (let A := fresh "A" in let B := fresh "B" in
       pose proof (rd_entries_some _ _ _ E) as [A B]; rewrite skipn_length in B).

Ltac step H :=
  lazymatch type of H with
  | (if ?c then _ else _) = Some _ =>
      let E := fresh "C" in destruct c eqn:E; try discriminate H
  | bind (if ?c then _ else _) _ = Some _ =>
      let E := fresh "C" in destruct c eqn:E
  | bind ?o _ = Some _ =>
      let E := fresh "E" in let x := fresh "x" in
      destruct o as [x|] eqn:E; cbn [bind] in H |- *; [note E|discriminate H]
  end.

Ltac gd :=
  match goal with
  | |- context [(?a <? ?b)%nat] => destruct (Nat.ltb_spec a b); [exfalso; lia|]
  | |- context [N.ltb ?a ?b] => destruct (N.ltb_spec a b); [exfalso; lia|]
  end.

Theorem parse_of_dec_all : forall e bytes s,
  dec_bytes e bytes = Some s ->
  exists v, parse e bytes = Some v /\
    v_empty v = k_empty s /\ v_seed_hash v = k_seed_hash s /\ v_theta v = k_theta s /\
    k_ordered s = (v_ordered v || (length (k_entries s) <=? 1)%nat) /\
    eager_entries v bytes = Some (k_entries s) /\ N.to_nat (v_num v) = length (k_entries s) /\
    (v_bits v = 64 \/ (1 <= v_bits v <= 63 /\ v_empty v = false)) /\
    (v_start v + (if (v_bits v =? 64)%N then 8 * N.to_nat (v_num v) else 0) <= length bytes)%nat.
Proof.
  intros e bytes s H. unfold dec_bytes in H. unfold parse. cbv zeta in H |- *.
  unfold too_many in H.
  repeat step H.
  all: injection H as <-.
  all: cbv iota in *.
  all: repeat match goal with C : (_ <? _)%nat = false |- _ => apply Nat.ltb_ge in C end.
  all: repeat gd.
  all: eexists; (split; [reflexivity|]).
  all: unfold mk; cbn [k_empty k_ordered k_seed_hash k_theta k_entries v_empty v_ordered v_seed_hash v_theta v_num v_start v_bits].
  all: try match goal with
       | W : bad_width ?b = false, U : unpack_all _ _ _ _ = Some _ |- _ =>
           destruct (bad_width_false _ W) as [W1 W2];
           unfold eager_entries; cbn [v_bits v_num v_start];
           destruct (N.eqb_spec b 64) as [W3|_]; [exfalso; lia|];
           rewrite U, undeltas_length, (unpack_all_length _ _ _ _ _ U);
           repeat split; try reflexivity; try lia; right; repeat split; assumption
       end.
  all: unfold eager_entries; cbn [v_bits v_num v_start];
       change (64 =? 64) with true; cbv iota;
       change (N.to_nat 0) with 0%nat; change (N.to_nat 1) with 1%nat.
  all: repeat split; try reflexivity; try (left; reflexivity); try lia; try assumption.
  all: apply rd_entries_S; [rewrite rd_skipn by lia; assumption | reflexivity].
Qed.

(* kept for the files that still pass a size side condition (it is no longer needed: the eager decoder now checks that the
   preamble is present before reading the entry count, like the parser) *)
Theorem parse_of_dec_gen : forall e bytes s,
  (length bytes < 12 \/ 16 <= length bytes \/ 1 <= length (k_entries s))%nat ->
  dec_bytes e bytes = Some s ->
  exists v, parse e bytes = Some v /\
    v_empty v = k_empty s /\ v_seed_hash v = k_seed_hash s /\ v_theta v = k_theta s /\
    k_ordered s = (v_ordered v || (length (k_entries s) <=? 1)%nat) /\
    eager_entries v bytes = Some (k_entries s) /\ N.to_nat (v_num v) = length (k_entries s) /\
    (v_bits v = 64 \/ (1 <= v_bits v <= 63 /\ v_empty v = false)) /\
    (v_start v + (if (v_bits v =? 64)%N then 8 * N.to_nat (v_num v) else 0) <= length bytes)%nat.
Proof. intros e bytes s _. apply parse_of_dec_all. Qed.

Lemma skipn_skipn' {A} a : forall b (l : list A), skipn a (skipn b l) = skipn (b + a) l.
Proof.
  intros b. induction b as [|b IH]; intros l; [reflexivity|].
  destruct l as [|x l]; [now rewrite !skipn_nil|]. cbn [skipn Nat.add]. apply IH.
Qed.

Lemma iter_loop_S f v bytes it : iter_loop (S f) v bytes it =
  if it_at_end v it then Some []
  else match it_deref v bytes it with
       | None => None
       | Some e => match it_next v bytes it with
                   | None => None
                   | Some it' => match iter_loop f v bytes it' with Some r => Some (e :: r) | None => None end
                   end
       end.
Proof. reflexivity. Qed.

Lemma iter_loop_uncompressed v bytes : v_bits v = 64 ->
  (v_start v + 8 * N.to_nat (v_num v) <= length bytes)%nat ->
  forall m k it ents, it_ptr it = (v_start v + 8 * k)%nat -> (k + m = N.to_nat (v_num v))%nat ->
  rd_entries m (skipn (v_start v + 8 * k) bytes) = Some ents ->
  iter_loop (S m) v bytes it = Some ents.
Proof.
  intros Hb Hlen.
  assert (Hc : compressed v = false) by (unfold compressed; rewrite Hb; reflexivity).
  induction m as [|m IH]; intros k it ents Hp Hk Hr.
  - cbn [rd_entries] in Hr. injection Hr as <-. rewrite iter_loop_S.
    unfold it_at_end. rewrite Hc. cbn [negb]. rewrite Hp.
    replace k with (N.to_nat (v_num v)) by lia. now rewrite Nat.eqb_refl.
  - apply rd_entries_S_inv in Hr. destruct Hr as (e & r & -> & He & Hr).
    rewrite iter_loop_S. unfold it_at_end, it_deref, it_next. rewrite Hc. cbn [negb]. rewrite Hp.
    destruct (Nat.eqb_spec (v_start v + 8 * k) (v_start v + 8 * N.to_nat (v_num v))) as [Q|_]; [exfalso; lia|].
    rewrite rd_skipn in He by lia. rewrite Nat.add_0_r in He. rewrite He.
    rewrite skipn_skipn' in Hr.
    rewrite (IH (S k) _ r); [reflexivity| cbn [it_ptr]; lia | lia |].
    replace (v_start v + 8 * S k)%nat with (v_start v + 8 * k + 8)%nat by lia. exact Hr.
Qed.

Theorem iterate_uncompressed : forall v bytes ents, v_bits v = 64 ->
  rd_entries (N.to_nat (v_num v)) (skipn (v_start v) bytes) = Some ents ->
  (v_start v + 8 * N.to_nat (v_num v) <= length bytes)%nat ->
  iterate v bytes = Some ents.
Proof.
  intros v bytes ents Hb Hr Hlen. unfold iterate, it_begin.
  assert (Hc : compressed v = false) by (unfold compressed; rewrite Hb; reflexivity).
  rewrite Hc. cbn [negb].
  apply (iter_loop_uncompressed v bytes Hb Hlen _ 0%nat); [cbn [it_ptr]; lia | lia |].
  now rewrite Nat.mul_0_r, Nat.add_0_r.
Qed.
