(* LedgerFi.v — slot-precise model of reverse_purge_hash_map (fi/include/reverse_purge_hash_map_impl.hpp):
   keys_ / values_ / states_ triple, linear probing with drift states, back-shifting hash_delete, resize, purge,
   as driven by frequent_items_sketch::update / merge.  keys_[i] holds a constructed key exactly when
   states_[i] > 0.  The hash of a key is an input (ANY hash function).  Definitions only. *)
From Coq Require Import ZArith NArith List Bool Lia.
From DS Require Import LedgerCore.
Import ListNotations.
Local Open Scope N_scope.

Record slot := { s_st : N; s_key : Z; s_hash : N; s_val : N }.     (* s_st = 0: empty *)
Definition empty_slot : slot := {| s_st := 0; s_key := 0%Z; s_hash := 0; s_val := 0 |}.
Definition active (s : slot) : bool := 0 <? s_st s.

Record fim := {
  f_lg_cur : N; f_lg_max : N;
  f_num : N;                         (* num_active_ *)
  f_slots : list slot;               (* length 2^lg_cur (empty when moved from) *)
  f_blk : option (N * N * N);        (* keys_, values_, states_ (None = nullptr after being moved from) *)
  f_nxt : N
}.

Definition f_size (s : fim) : N := 2 ^ f_lg_cur s.
Definition f_capacity (s : fim) : N := 3 * 2 ^ f_lg_cur s / 4.           (* (1 << lg) * 0.75 *)
Definition LG_MIN : N := 3.
Definition DRIFT_LIMIT : N := 1024.

Definition sget (l : list slot) (i : N) : slot := nth (N.to_nat i) l empty_slot.
Fixpoint set_nth {A} (i : nat) (x : A) (l : list A) : list A :=
  match l with [] => [] | y :: t => match i with O => x :: t | S i' => y :: set_nth i' x t end end.
Definition sset (l : list slot) (i : N) (x : slot) : list slot := set_nth (N.to_nat i) x l.

Definition new_fim (lg_max lg_start : N) : option (fim * list eff) :=
  let lg_cur := N.max lg_start LG_MIN in
  let lg_mx := N.max lg_max LG_MIN in
  if lg_max <? lg_start then None      (* invalid_argument thrown AFTER the map member was built and destroyed again *)
  else
    Some ({| f_lg_cur := lg_cur; f_lg_max := lg_mx; f_num := 0; f_slots := repeat empty_slot (N.to_nat (2 ^ lg_cur));
             f_blk := Some (0, 1, 2); f_nxt := 3 |},
          [Alloc true 0 (2 ^ lg_cur); Alloc false 1 (2 ^ lg_cur); Alloc false 2 (2 ^ lg_cur)]).

Inductive probe_res := PFound (i : N) | PEmpty (i drift : N) | PFail.

(* the search loop of internal_adjust_or_insert *)
Fixpoint probe (fuel : nat) (slots : list slot) (mask : N) (key : Z) (idx drift : N) : probe_res :=
  match fuel with
  | O => PFail
  | S f =>
    let s := sget slots idx in
    if active s then
      if Z.eqb (s_key s) key then PFound idx
      else if DRIFT_LIMIT <=? drift + 1 then PFail
      else probe f slots mask key (N.land (idx + 1) mask) (drift + 1)
    else PEmpty idx drift
  end.

Inductive ins_res := IAdjusted (s : fim) | IInserted (s : fim) (idx : N) | IThrow.

Definition with_slots (s : fim) (sl : list slot) (num : N) : fim :=
  {| f_lg_cur := f_lg_cur s; f_lg_max := f_lg_max s; f_num := num; f_slots := sl; f_blk := f_blk s; f_nxt := f_nxt s |}.

Definition internal_adjust_or_insert (s : fim) (key : Z) (h : N) (v : N) : ins_res :=
  let mask := f_size s - 1 in
  match probe (N.to_nat (f_size s) + 1) (f_slots s) mask key (N.land h mask) 1 with
  | PFail => IThrow
  | PFound i =>
      let x := sget (f_slots s) i in
      IAdjusted (with_slots s (sset (f_slots s) i {| s_st := s_st x; s_key := s_key x; s_hash := s_hash x; s_val := s_val x + v |}) (f_num s))
  | PEmpty i drift =>
      if f_capacity s <? f_num s then IThrow
      else IInserted (with_slots s (sset (f_slots s) i {| s_st := drift; s_key := key; s_hash := h; s_val := v |}) (f_num s + 1)) i
  end.

(* hash_delete(delete_index): destroy, then shift followers back; [kb] = block of keys_ *)
Fixpoint delete_loop (fuel : nat) (kb : N) (sl : list slot) (mask : N) (d probe drift : N) (acc : list eff)
  : list slot * list eff :=
  match fuel with
  | O => (sl, acc)
  | S f =>
    let p := sget sl probe in
    if active p then
      if drift <? s_st p then
        let sl1 := sset sl d {| s_st := s_st p - drift; s_key := s_key p; s_hash := s_hash p; s_val := s_val p |} in
        let sl2 := sset sl1 probe empty_slot in
        delete_loop f kb sl2 mask probe (N.land (probe + 1) mask) 1 (acc ++ [MovD kb probe kb d 1])
      else delete_loop f kb sl mask d (N.land (probe + 1) mask) (drift + 1) acc
    else (sl, acc)
  end.

Definition hash_delete (kb : N) (sl : list slot) (size : N) (d : N) : list slot * list eff :=
  let mask := size - 1 in
  delete_loop (N.to_nat size) kb (sset sl d empty_slot) mask d (N.land (d + 1) mask) 1 [Dest kb d 1].

(* one step of the two scans of subtract_and_keep_positive_only at index [probe] *)
Definition purge_at (kb size amount probe : N) (st : list slot * N * list eff) : list slot * N * list eff :=
  let '(sl, num, acc) := st in
  let p := sget sl probe in
  if active p then
    if s_val p <=? amount then
      let '(sl', e) := hash_delete kb sl size probe in (sl', num - 1, acc ++ e)
    else (sset sl probe {| s_st := s_st p; s_key := s_key p; s_hash := s_hash p; s_val := s_val p - amount |}, num, acc)
  else st.

(* indices hi-1, hi-2, ..., lo *)
Fixpoint down_from (cnt : nat) (lo : N) : list N :=
  match cnt with O => [] | S c => (lo + N.of_nat c) :: down_from c lo end.

(* first inactive index scanning down from size-1 (fuel exhausted: 0) *)
Fixpoint first_empty_down (fuel : nat) (sl : list slot) (i : N) : N :=
  match fuel with
  | O => i
  | S f => if active (sget sl i) then first_empty_down f sl (i - 1) else i
  end.

Definition subtract_and_keep (kb : N) (sl : list slot) (size num amount : N) : list slot * N * list eff :=
  let first_probe := first_empty_down (N.to_nat size) sl (size - 1) in
  let st1 := fold_left (fun st i => purge_at kb size amount i st) (down_from (N.to_nat first_probe) 0) (sl, num, []) in
  fold_left (fun st i => purge_at kb size amount i st) (down_from (N.to_nat (size - first_probe)) first_probe) st1.

Fixpoint insN (x : N) (l : list N) : list N :=
  match l with [] => [x] | y :: t => if x <=? y then x :: l else y :: insN x t end.
Definition sortN (l : list N) : list N := fold_right insN [] l.

(* purge: median of the first min(1024, num_active) active values, in slot order *)
Definition purge (s : fim) (kb : N) : fim * list eff :=
  let limit := N.min 1024 (f_num s) in
  let samples := firstn (N.to_nat limit) (map s_val (filter active (f_slots s))) in
  let median := nth (N.to_nat (limit / 2)) (sortN samples) 0 in
  let sb := f_nxt s in
  let '(sl, num, e) := subtract_and_keep kb (f_slots s) (f_size s) (f_num s) median in
  ({| f_lg_cur := f_lg_cur s; f_lg_max := f_lg_max s; f_num := num; f_slots := sl; f_blk := f_blk s; f_nxt := sb + 1 |},
   [Alloc false sb limit; Dealloc sb limit] ++ e).

(* resize(lg_cur + 1): re-insert every active old entry, in slot order *)
Fixpoint reinsert (old : list slot) (i : N) (okb nkb : N) (s : fim) (acc : list eff) : option (fim * list eff) :=
  match old with
  | [] => Some (s, acc)
  | x :: t =>
    if active x then
      match internal_adjust_or_insert s (s_key x) (s_hash x) (s_val x) with
      | IInserted s1 idx => reinsert t (i + 1) okb nkb s1 (acc ++ [MovD okb i nkb idx 1])
      | _ => None
      end
    else reinsert t (i + 1) okb nkb s acc
  end.

Definition resize (s : fim) : option (fim * list eff) :=
  match f_blk s with
  | None => None
  | Some (kb, vb, sb) =>
    let lg := f_lg_cur s + 1 in
    let nk := f_nxt s in
    let s0 := {| f_lg_cur := lg; f_lg_max := f_lg_max s; f_num := 0; f_slots := repeat empty_slot (N.to_nat (2 ^ lg));
                 f_blk := Some (nk, nk + 1, nk + 2); f_nxt := nk + 3 |} in
    match reinsert (f_slots s) 0 kb nk s0 [Alloc true nk (2 ^ lg); Alloc false (nk + 1) (2 ^ lg); Alloc false (nk + 2) (2 ^ lg)] with
    | None => None
    | Some (s1, e) => Some (s1, e ++ [Dealloc kb (f_size s); Dealloc vb (f_size s); Dealloc sb (f_size s)])
    end
  end.

Inductive fres := FDone (s : fim) (e : list eff) | FThrow | FAbort.

(* adjust_or_insert + resize_or_purge_if_needed; [src] says where the new key is constructed from:
   None = the caller's argument (Cons), Some (ob, i) = slot i of the other map's keys_ (FromX) *)
Definition adjust_or_insert (s : fim) (key : Z) (h v : N) (src : option (N * N)) : fres :=
  match f_blk s with
  | None => FThrow
  | Some (kb, _, _) =>
    match internal_adjust_or_insert s key h v with
    | IThrow => FThrow
    | IAdjusted s1 => FDone s1 []
    | IInserted s1 idx =>
      let e1 := match src with None => [Cons kb idx 1] | Some (ob, i) => [FromX ob i kb idx 1] end in
      if f_capacity s1 <? f_num s1 then
        if f_lg_cur s1 <? f_lg_max s1 then
          match resize s1 with Some (s2, e2) => FDone s2 (e1 ++ e2) | None => FAbort end
        else
          let '(s2, e2) := purge s1 kb in
          if f_capacity s2 <? f_num s2 then FAbort else FDone s2 (e1 ++ e2)
      else FDone s1 e1
    end
  end.

(* frequent_items_sketch::update(item, weight) *)
Definition fim_update (s : fim) (key : Z) (h w : N) : fres :=
  if w =? 0 then FDone s [] else adjust_or_insert s key h w None.

(* the map iterator: starts at the first active slot, then walks with the odd stride
   floor(2^lg * 0.6180339887498949) | 1 until num_active_ entries have been produced *)
Definition iter_stride (lg : N) : N := N.lor (2 ^ lg * 6180339887498949 / 10000000000000000) 1.

Fixpoint first_active (sl : list slot) (i : N) : N :=
  match sl with [] => i | x :: t => if active x then i else first_active t (i + 1) end.

Fixpoint next_active (fuel : nat) (sl : list slot) (mask stride idx : N) : N :=
  match fuel with
  | O => idx
  | S f => let j := N.land (idx + stride) mask in if active (sget sl j) then j else next_active f sl mask stride j
  end.

Fixpoint iter_from (cnt : nat) (sl : list slot) (size mask stride idx : N) : list N :=
  match cnt with
  | O => []
  | S c => idx :: (match c with O => [] | _ => iter_from c sl size mask stride (next_active (N.to_nat size) sl mask stride idx) end)
  end.

Definition iter_order (s : fim) : list N :=
  iter_from (N.to_nat (f_num s)) (f_slots s) (f_size s) (f_size s - 1) (iter_stride (f_lg_cur s)) (first_active (f_slots s) 0).

(* merge: update with every active entry of the other map, in iterator order *)
Fixpoint merge_loop (idxs : list N) (osl : list slot) (okb : N) (s : fim) (acc : list eff) : fim * list eff * bool * bool :=
  match idxs with
  | [] => (s, acc, true, false)
  | i :: t =>
    let x := sget osl i in
    if negb (active x) then (s, acc, false, true)     (* the iterator only yields active slots: model guard (Abort) *)
    else
    match adjust_or_insert s (s_key x) (s_hash x) (s_val x) (Some (okb, i)) with
    | FDone s1 e => merge_loop t osl okb s1 (acc ++ e)
    | FThrow => (s, acc, false, false)
    | FAbort => (s, acc, false, true)
    end
  end.

Definition fim_merge (s o : fim) : fim * list eff * bool * bool :=
  if f_num o =? 0 then (s, [], true, false) else
  match f_blk o with
  | None => (s, [], false, false)
  | Some (okb, _, _) => merge_loop (iter_order o) (f_slots o) okb s []
  end.

Definition fim_copy (o : fim) : option (fim * list eff) :=
  match f_blk o with
  | None => None
  | Some (okb, _, _) =>
    let sz := f_size o in
    let es := flat_map (fun p => if active (snd p) then [FromX okb (fst p) 0 (fst p) 1] else [])
                       (combine (map N.of_nat (seq 0 (length (f_slots o)))) (f_slots o)) in
    Some ({| f_lg_cur := f_lg_cur o; f_lg_max := f_lg_max o; f_num := f_num o; f_slots := f_slots o;
             f_blk := Some (0, 1, 2); f_nxt := 3 |},
          [Alloc true 0 sz; Alloc false 1 sz; Alloc false 2 sz] ++ es)
  end.

Definition fim_destroy (s : fim) : list eff :=
  match f_blk s with
  | None => []
  | Some (kb, vb, sb) =>
    flat_map (fun p => if active (snd p) then [Dest kb (fst p) 1] else [])
             (combine (map N.of_nat (seq 0 (length (f_slots s)))) (f_slots s))
    ++ [Dealloc kb (f_size s); Dealloc vb (f_size s); Dealloc sb (f_size s)]
  end.

(* the move constructor swaps nullptr into the source and zeroes its num_active_ *)
Definition fim_moved_from (s : fim) : fim :=
  {| f_lg_cur := f_lg_cur s; f_lg_max := f_lg_max s; f_num := 0; f_slots := []; f_blk := None; f_nxt := f_nxt s |}.
