(* EbppsMain.v — the statements of Properties_C18.v, assembled from the invariant proofs. *)
From Coq Require Import ZArith List Bool QArith Qround Lia Lqa Psatz.
From DS Require Import RunnerLib EbppsDefs EbppsProofs EbppsSketchProofs EbppsHistProofs EbppsEqualProofs.
Import ListNotations.
Local Open Scope Q_scope.

Section Main.
  Variable Item : Type.
  Notation qsketch := (sketch QOps Item).
  Notation qcs := (cs QOps).
  Notation from_input h := (fun x => In x (h_items Item h)).

  Lemma main_all h (s : qcs) : h_wf Item h -> cs_ok s ->
    let sk := fst (eval Item h s) in
    Inv Item (from_input h) (h_kk Item h) sk /\ cs_ok (snd (eval Item h s)) /\
    sk_k sk = h_k Item h /\ sk_n sk = h_n Item h /\ sk_cw sk == h_W Item h /\ sk_wmax sk == h_wmax Item h.
  Proof.
    intros WF Hs. destruct (eval Item h s) as [sk s'] eqn:E. cbn [fst snd].
    exact (eval_spec Item h WF s sk s' E Hs).
  Qed.

  Lemma main_n h (s : qcs) : h_wf Item h -> cs_ok s -> sk_n (fst (eval Item h s)) = h_n Item h.
  Proof. intros WF Hs. apply (main_all h s WF Hs). Qed.

  Lemma main_W h (s : qcs) : h_wf Item h -> cs_ok s -> sk_cw (fst (eval Item h s)) == h_W Item h.
  Proof. intros WF Hs. apply (main_all h s WF Hs). Qed.

  Lemma main_wmax h (s : qcs) : h_wf Item h -> cs_ok s -> sk_wmax (fst (eval Item h s)) == h_wmax Item h.
  Proof. intros WF Hs. apply (main_all h s WF Hs). Qed.

  Lemma main_k h (s : qcs) : h_wf Item h -> cs_ok s -> sk_k (fst (eval Item h s)) = h_k Item h.
  Proof. intros WF Hs. apply (main_all h s WF Hs). Qed.

  Lemma main_c_rho h (s : qcs) : h_wf Item h -> cs_ok s ->
    let sk := fst (eval Item h s) in sc (sk_smp sk) == sk_rho sk * sk_cw sk.
  Proof. intros WF Hs. destruct (main_all h s WF Hs) as (I & _). apply I. Qed.

  Lemma main_c h (s : qcs) : h_wf Item h -> cs_ok s -> 0 < h_W Item h ->
    sc (sk_smp (fst (eval Item h s))) == qminb (inject_Z (h_kk Item h)) (h_W Item h / h_wmax Item h).
  Proof.
    intros WF Hs HW. destruct (main_all h s WF Hs) as (I & _ & _ & _ & Ew & Em).
    set (sk := fst (eval Item h s)) in *.
    assert (HW' : 0 < sk_cw sk) by (rewrite Ew; exact HW).
    rewrite (is_min_qminb _ _ _ (c_closed_form Item _ _ sk I HW')).
    apply qminb_compat; [reflexivity|]. rewrite Ew, Em. reflexivity.
  Qed.

  Lemma kk_after_update (h : hist Item) it w : accepted w = true ->
    h_kk Item (HUpd Item h it w) = h_k Item (HUpd Item h it w).
  Proof. intro H. cbn [h_kk h_k]. now rewrite H. Qed.

  Lemma kk_after_merge (h1 h2 : hist Item) : 0 < h_W Item h1 -> 0 < h_W Item h2 ->
    h_kk Item (HMerge Item h1 h2) = h_k Item (HMerge Item h1 h2) /\
    h_k Item (HMerge Item h1 h2) = Z.min (h_k Item h1) (h_k Item h2).
  Proof.
    intros H1 H2. cbn [h_kk h_k].
    destruct (qeqb_spec (h_W Item h2) 0) as [E|_]; [lra|].
    destruct (qeqb_spec (h_W Item h1) 0) as [E|_]; [lra|]. auto.
  Qed.

  Lemma kk_fold_upd ups : forall h : hist Item, h_kk Item h = h_k Item h ->
    let h' := fold_left (fun h u => HUpd Item h (fst u) (snd u)) ups h in
    h_kk Item h' = h_k Item h /\ h_k Item h' = h_k Item h.
  Proof.
    induction ups as [|[it w] ups IH]; intros h E; cbn [fold_left fst snd].
    - auto.
    - assert (E' : h_kk Item (HUpd Item h it w) = h_k Item (HUpd Item h it w)).
      { cbn [h_kk h_k]. destruct (accepted w); auto. }
      destruct (IH _ E') as [A B]. cbn [h_k] in A, B. auto.
  Qed.

  Lemma kk_stream k ups : h_kk Item (hist_of Item k ups) = k /\ h_k Item (hist_of Item k ups) = k.
  Proof. unfold hist_of. apply (kk_fold_upd ups (HNew Item k)). reflexivity. Qed.

  Lemma wf_fold_upd ups : forall h : hist Item, h_wf Item h ->
    h_wf Item (fold_left (fun h u => HUpd Item h (fst u) (snd u)) ups h).
  Proof. induction ups as [|[it w] ups IH]; intros h H; cbn [fold_left]; auto. Qed.

  Lemma main_stream_c k ups (s : qcs) : (1 <= k)%Z -> cs_ok s -> 0 < h_W Item (hist_of Item k ups) ->
    sc (sk_smp (fst (run_updates QOps Item (sketch_empty QOps Item k) ups s))) ==
    qminb (inject_Z k) (h_W Item (hist_of Item k ups) / h_wmax Item (hist_of Item k ups)).
  Proof.
    intros Hk Hs HW. rewrite <- eval_hist_of.
    assert (WF : h_wf Item (hist_of Item k ups)) by (apply wf_fold_upd; exact Hk).
    rewrite (main_c _ s WF Hs HW). destruct (kk_stream k ups) as [E _]. rewrite E. reflexivity.
  Qed.

  Lemma main_shape h (s : qcs) : h_wf Item h -> cs_ok s ->
    let sm := sk_smp (fst (eval Item h s)) in
    length (sdata sm) = Z.to_nat (Qfloor (sc sm)) /\ (spart sm = None <-> sc sm == inject_Z (Qfloor (sc sm))).
  Proof. intros WF Hs. destruct (main_all h s WF Hs) as (I & _). destruct I as (_&_&_&_&_&_&_&_&_&_& SH &_). apply SH. Qed.

  Lemma main_stored_from_input h (s : qcs) : h_wf Item h -> cs_ok s ->
    let sm := sk_smp (fst (eval Item h s)) in
    Forall (from_input h) (sdata sm) /\ (forall p, spart sm = Some p -> In p (h_items Item h)).
  Proof. intros WF Hs. destruct (main_all h s WF Hs) as (I & _). destruct I as (_&_&_&_&_&_&_&_&_&_&_& AP). exact AP. Qed.

  Definition floor_or_ceil (c : Q) (n : nat) : Prop := n = Z.to_nat (Qfloor c) \/ n = Z.to_nat (Qceiling c).

  Lemma size_ok_floor_or_ceil c n : size_ok c n -> floor_or_ceil c n.
  Proof. intros [H|[_ H]]; [left|right]; exact H. Qed.

  Lemma main_result h (s : qcs) : h_wf Item h -> cs_ok s ->
    let sk := fst (eval Item h s) in
    let res := fst (get_result QOps Item (sk_smp sk) (snd (eval Item h s))) in
    floor_or_ceil (sc (sk_smp sk)) (length res) /\ Forall (from_input h) res.
  Proof.
    intros WF Hs. destruct (main_all h s WF Hs) as (I & Hs' & _).
    destruct I as (_&_&_&_&_&_&_&_&_&_& SH & AP). cbn zeta.
    destruct (get_result QOps Item (sk_smp (fst (eval Item h s))) (snd (eval Item h s))) as [res s2] eqn:E.
    apply get_result_spec with (P := from_input h) in E; auto. cbn [fst].
    destruct E as (A & B & _). split; auto. now apply size_ok_floor_or_ceil.
  Qed.

  Lemma main_iterate h (s : qcs) : h_wf Item h -> cs_ok s ->
    let sk := fst (eval Item h s) in
    let res := fst (iterate QOps Item (sk_smp sk) (snd (eval Item h s))) in
    floor_or_ceil (sc (sk_smp sk)) (length res) /\ Forall (from_input h) res.
  Proof.
    intros WF Hs. destruct (main_all h s WF Hs) as (I & Hs' & _).
    destruct I as (_&_&_&_&_&_&_&_&_&_& SH & AP). cbn zeta.
    destruct (iterate QOps Item (sk_smp (fst (eval Item h s))) (snd (eval Item h s))) as [res s2] eqn:E.
    apply iterate_spec with (P := from_input h) in E; auto. cbn [fst].
    destruct E as (A & B). split; auto. now apply size_ok_floor_or_ceil.
  Qed.

  (* the partial item is returned exactly when the draw falls below frac(c) *)
  Lemma main_result_exact h (s : qcs) : h_wf Item h -> cs_ok s ->
    let sm := sk_smp (fst (eval Item h s)) in
    let res := fst (get_result QOps Item sm (snd (eval Item h s))) in
    res = sdata sm \/ exists p, spart sm = Some p /\ res = sdata sm ++ [p].
  Proof.
    intros WF Hs. destruct (main_all h s WF Hs) as (I & Hs' & _).
    destruct I as (_&_&_&_&_&_&_&_&_&_& SH & AP). cbn zeta.
    destruct (get_result QOps Item (sk_smp (fst (eval Item h s))) (snd (eval Item h s))) as [res s2] eqn:E.
    apply get_result_spec with (P := from_input h) in E; auto. cbn [fst]. apply E.
  Qed.

  (* merge of the sketches of two histories *)
  Lemma main_merge h1 h2 (s : qcs) : h_wf Item h1 -> h_wf Item h2 -> cs_ok s ->
    let a := fst (eval Item h1 s) in
    let b := fst (eval Item h2 (snd (eval Item h1 s))) in
    let r := fst (eval Item (HMerge Item h1 h2) s) in
    sk_n r = (sk_n a + sk_n b)%Z /\ sk_cw r == sk_cw a + sk_cw b /\
    (0 < sk_cw b -> sk_k r = Z.min (sk_k a) (sk_k b)) /\
    (sk_cw b == 0 -> r = a) /\
    (0 < sk_cw a -> 0 < sk_cw b ->
       sc (sk_smp r) == qminb (inject_Z (Z.min (sk_k a) (sk_k b))) ((sk_cw a + sk_cw b) / qmaxb (sk_wmax a) (sk_wmax b))).
  Proof.
    intros WF1 WF2 Hs.
    destruct (main_all h1 s WF1 Hs) as (Ia & Hs1 & Eka & Ena & Ewa & Ema).
    destruct (main_all h2 _ WF2 Hs1) as (Ib & Hs2 & Ekb & Enb & Ewb & Emb).
    assert (WF : h_wf Item (HMerge Item h1 h2)) by (split; auto).
    destruct (main_all _ s WF Hs) as (Ir & Hsr & Ekr & Enr & Ewr & Emr).
    pose proof (main_c _ s WF Hs) as Ec.
    cbn [eval] in *. cbn zeta.
    destruct (eval Item h1 s) as [a s1]. cbn [fst snd] in *.
    destruct (eval Item h2 s1) as [b s2]. cbn [fst snd] in *.
    cbn [h_n h_W h_k h_kk h_wmax] in *.
    splits.
    - rewrite Enr, Ena, Enb. reflexivity.
    - rewrite Ewr, Ewa, Ewb. reflexivity.
    - intro Hb. rewrite Ekr, Eka, Ekb. destruct (qeqb_spec (h_W Item h2) 0) as [E|_]; [lra|reflexivity].
    - intro Hb. unfold merge, merge_gen. qs. destruct (qeqb_spec (sk_cw b) 0) as [_|E]; [reflexivity|exfalso; apply E; exact Hb].
    - intros Ha Hb.
      destruct (qeqb_spec (h_W Item h2) 0) as [E|_]; [lra|].
      destruct (qeqb_spec (h_W Item h1) 0) as [E|_]; [lra|].
      rewrite Ec by lra. apply qminb_compat.
      + rewrite Eka, Ekb. reflexivity.
      + rewrite Ewa, Ewb. rewrite (qmaxb_compat _ _ _ _ Ema Emb). reflexivity.
  Qed.

  (* serialize + deserialize returns the same sample *)
  Lemma main_roundtrip h (s : qcs) : h_wf Item h -> cs_ok s ->
    let sm := sk_smp (fst (eval Item h s)) in reread QOps Item sm = Some sm.
  Proof.
    intros WF Hs. destruct (main_all h s WF Hs) as (I & _).
    destruct I as (_&_&_&_&_&_&_&_&_&_& SH & _). now apply reread_id.
  Qed.
End Main.
