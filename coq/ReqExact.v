(* ReqExact.v — the part of level 0 that is never compacted: nsec * section_size items at the accurate end of level 0
   (k * INIT_NUM_SECTIONS = 3k at the start, never less later).  Consequence: for every predicate p that is closed
   toward the accurate end ("<= x" / "< x" in LRA mode, ">= x" / "> x" in HRA mode), if fewer than m retained level-0
   items satisfy p (m <= 3 * the smallest k of all sketches merged in), then NO item satisfying p was ever compacted:
   the estimate of p is the true count.  This is the claim behind req_sketch::is_exact_rank. *)
From Coq Require Import ZArith List Bool Lia Permutation Sorted.
From DS Require Import RunnerLib SortedView ReqDefs ReqProofs ReqView ReqSpace ReqFlips.
Import ListNotations.
Local Open Scope Z_scope.

Definition closed (h : bool) (p : Z -> bool) : Prop :=
  forall a b, p b = true -> (if h then b <= a else a <= b) -> p a = true.

Definition prot (c : comp) : Z := nsec c * ssz c.          (* nom_capacity / 2 *)

Lemma nom_cap_prot c : nom_cap c = 2 * prot c.
Proof. unfold nom_cap, prot. lia. Qed.

(* ---------- lists ---------- *)
Lemma cnt_lt_len_ex p : forall l, cnt p l < len l -> exists x, In x l /\ p x = false.
Proof.
  induction l as [|y l IH]; intro H; [rewrite cnt_nil in H; change (len (@nil Z)) with 0 in H; lia|].
  rewrite cnt_cons, len_cons in H. destruct (p y) eqn:E.
  - destruct IH as (x & I & Px); [lia|]. exists x. split; [now right|assumption].
  - exists y. split; [now left|assumption].
Qed.

Lemma cnt_all_false p : forall l, (forall x, In x l -> p x = false) -> cnt p l = 0.
Proof.
  induction l as [|y l IH]; intro H; [reflexivity|]. rewrite cnt_cons, (H y) by now left. rewrite IH; [lia|].
  intros x I. apply H. now right.
Qed.

Lemma sorted_app_le : forall a b, ssorted (a ++ b) -> forall x y, In x a -> In y b -> x <= y.
Proof.
  induction a as [|z a IH]; intros b S x y Ix Iy; [destruct Ix|]. cbn [app] in S. inversion S as [|? ? S' F]; subst.
  destruct Ix as [<-|Ix].
  - rewrite Forall_forall in F. apply F. apply in_or_app. now right.
  - eapply IH; eauto.
Qed.

(* ---------- one compaction keeps everything closed toward the accurate end ---------- *)
Lemma range_keep_ge h c : par_ok c -> nom_cap c <= nitems c ->
  prot c <= nitems c - (snd (comp_range h c) - fst (comp_range h c)).
Proof.
  intros (A & B & C & _) N. unfold comp_range, prot.
  pose proof (tones_nonneg 64 (cstate c)) as T.
  set (secs := Z.min (tones 64 (cstate c) + 1) (nsec c)).
  assert (S1 : 1 <= secs <= nsec c) by (unfold secs; lia).
  unfold nom_cap in *.
  replace (2 * nsec c * ssz c / 2) with (nsec c * ssz c) by (replace (2 * nsec c * ssz c) with (nsec c * ssz c * 2) by lia; now rewrite Z.div_mul by lia).
  set (a := nsec c * ssz c) in *. set (b := (nsec c - secs) * ssz c).
  assert (Hb : 0 <= b) by (unfold b; nia).
  destruct (Z.odd (nitems c - (a + b))); destruct h; cbn [fst snd]; lia.
Qed.

Lemma compact_closed h c nx cn p m : par_ok c -> nom_cap c <= nitems c -> ssorted (items c) -> closed h p -> m <= prot c ->
  let c' := fst (fst (compact_with h c nx cn)) in
  prot c <= prot c' /\ (cnt p (items c') < m -> cnt p (items c) = cnt p (items c')).
Proof.
  intros P N S CL M. rewrite compact_with_eq. cbv zeta. cbn [fst].
  set (c1 := mkcomp (lgw c) cn (srt c) (ssr c) (ssz c) (nsec c) (cstate c + 1) (ckept h c)).
  assert (P1 : par_ok c1) by (destruct P as (X & Y & Z0 & G0); unfold par_ok, c1; cbn [ssz nsec cstate ssr]; splits; auto; lia).
  destruct (ensure_sections_spec c1 P1) as (E1 & _). pose proof (ensure_sections_cap c1 P1) as ECAP.
  rewrite !nom_cap_prot in ECAP.
  assert (PC1 : prot c1 = prot c) by reflexivity. split; [lia|].
  rewrite E1. cbn [items c1]. intro LT.
  destruct (range_lists h c P N) as (L1 & L2). pose proof (range_keep_ge h c P N) as KG.
  assert (LK : len (ckept h c) = nitems c - len (crange h c)).
  { unfold nitems. rewrite L1 at 1. destruct h; rewrite len_app; lia. }
  destruct (cnt_lt_len_ex p (ckept h c)) as (k0 & Ik & Pk); [rewrite LK, L2; lia|].
  assert (Z0 : cnt p (crange h c) = 0).
  { apply cnt_all_false. intros r Ir. destruct (p r) eqn:E; [|reflexivity].
    rewrite L1 in S. destruct h.
    - pose proof (sorted_app_le _ _ S r k0 Ir Ik). rewrite (CL k0 r E) in Pk by assumption. discriminate.
    - pose proof (sorted_app_le _ _ S k0 r Ik Ir). rewrite (CL k0 r E) in Pk by assumption. discriminate. }
  rewrite L1 at 1. destruct h; rewrite cnt_app; lia.
Qed.

Lemma ensure_loop_cap : forall fuel c, par_ok c -> nom_cap c <= nom_cap (ensure_loop fuel c).
Proof.
  induction fuel as [|f IH]; intros c P; cbn [ensure_loop]; [lia|].
  pose proof (ensure_sections_spec c P) as H. pose proof (ensure_sections_cap c P) as C.
  destruct (ensure_sections c) as [c1 g]. cbn [fst] in *. destruct H as (_ & _ & _ & _ & _ & P1).
  destruct g; [|lia]. specialize (IH c1 P1). lia.
Qed.

Lemma comp_merge_prot h c o : par_ok c -> 0 <= cstate o -> prot c <= prot (comp_merge h c o).
Proof.
  intros P So. destruct (comp_merge_fields h c o) as (_ & _ & A3 & A4 & _). unfold prot at 2. rewrite A3, A4.
  unfold merge_pre.
  set (c1 := mkcomp (lgw c) (coin c) (srt c) (ssr c) (ssz c) (nsec c) (Z.lor (cstate c) (cstate o)) (items c)).
  assert (P1 : par_ok c1).
  { destruct P as (A & B & C & G). unfold par_ok, c1; cbn [ssz nsec cstate ssr]. splits; auto. now apply Z.lor_nonneg. }
  pose proof (ensure_loop_cap 64 c1 P1) as E. rewrite !nom_cap_prot in E.
  destruct (csort_spec (ensure_loop 64 c1)) as (_ & _ & _ & _ & F5 & F6 & _). rewrite F5, F6.
  unfold prot in E. cbn [nsec ssz c1] in E. unfold prot. lia.
Qed.

(* ---------- the invariant ---------- *)
Record Prot (m : Z) (s : req) (log : list Z) : Prop := mkProt {
  pr_m : m <= prot (getc s 0%nat);
  pr_ex : forall p, closed (hra s) p -> cnt p (items (getc s 0%nat)) < m ->
          cnt p log = cnt p (items (getc s 0%nat)) /\ cnt p (all_items (comps s)) = cnt p (items (getc s 0%nat))
}.

Lemma all_items_hd s : Inv s -> forall p, cnt p (all_items (comps s)) = cnt p (items (getc s 0%nat)) + cnt p (all_items (tl (comps s))).
Proof.
  intros [_ NE _ _ _ _ _ _ _] p. unfold getc. destruct (comps s) as [|c r]; [congruence|]. cbn [nth tl]. now rewrite all_items_cons, cnt_app.
Qed.

(* compress() preserves the invariant *)
Lemma compress_loop_prot ic m log : forall fuel h s s', Inv s -> Prot m s log -> leaf (compress_loop ic fuel h s) s' -> Prot m s' log.
Proof.
  induction fuel as [|f IH]; intros h s s' I PR L; cbn [compress_loop] in L.
  { apply leaf_ret_inv in L. now subst. }
  destruct (Nat.ltb_spec h (length (comps s))) as [HL|HL]; [|apply leaf_ret_inv in L; now subst].
  destruct (Z.leb_spec (nom_cap (getc s h)) (nitems (getc s h))) as [CAP|CAP]; [|eapply IH; eauto].
  set (s1 := if (h =? 0)%nat then setc s 0%nat (csort (getc s 0%nat)) else s) in *.
  assert (H1 : Inv s1 /\ Prot m s1 log /\ length (comps s1) = length (comps s) /\ srt (getc s1 h) = true /\
               nom_cap (getc s1 h) = nom_cap (getc s h) /\ nitems (getc s1 h) = nitems (getc s h)).
  { unfold s1. destruct h as [|h]; cbn [Nat.eqb].
    - destruct (sort0_spec s I) as (A & [K1 K2 K3 K4 K5 K6 K7] & B & C & D & E & _). splits; auto.
      assert (G0 : getc (setc s 0%nat (csort (getc s 0%nat))) 0%nat = csort (getc s 0%nat)).
      { destruct I as [_ NE _ _ _ _ _ _ _]. unfold setc, set_comps, getc; cbn [comps]. destruct (comps s); [congruence|reflexivity]. }
      destruct (csort_spec (getc s 0%nat)) as (F1 & _ & _ & _ & F5 & F6 & _).
      destruct PR as [PM PE]. constructor.
      + rewrite G0. unfold prot in *. now rewrite F5, F6.
      + intros p CL LT. rewrite G0 in *. rewrite (cnt_perm _ _ _ F1) in *. rewrite K3 in CL. destruct (PE p CL LT) as (X & Y).
        split; auto. pose proof (K6 p). pose proof (all_items_hd _ A p) as Z1. rewrite G0, (cnt_perm _ _ _ F1) in Z1.
        pose proof (cnt_nonneg p (all_items (tl (comps (setc s 0%nat (csort (getc s 0%nat))))))). lia.
    - splits; auto. apply srt_above; auto. lia. }
  destruct H1 as (I1 & PR1 & LEN1 & SRT1 & NC1 & NI1).
  apply leaf_bind in L as (s2 & L2 & L). apply leaf_bind in L as (r & L3 & L).
  assert (H2 : Inv s2 /\ Prot m s2 log /\ (S h < length (comps s2))%nat /\ getc s2 h = getc s1 h).
  { destruct (Nat.leb_spec (length (comps s1)) (h + 1)) as [TOP|TOP].
    - apply grow_leaf in L2 as [c0 ->]. destruct (grow_with_spec s1 c0 I1) as (I2 & [K1 K2 K3 K4 K5 K6 K7] & E2 & A2).
      assert (G0 : forall i, (i < length (comps s1))%nat -> getc (grow_with s1 c0) i = getc s1 i).
      { intros i Hi. unfold getc. rewrite E2, app_nth1 by lia. reflexivity. }
      splits; auto.
      + destruct PR1 as [PM PE]. constructor.
        * rewrite G0 by lia. exact PM.
        * intros p CL LT. rewrite G0 in * by lia. rewrite K3 in CL. rewrite A2. auto.
      + rewrite E2, app_length. simpl. lia.
      + apply G0. lia.
    - apply leaf_ret_inv in L2. subst s2. splits; auto. lia. }
  destruct H2 as (I2 & PR2 & LEN2 & G2).
  assert (CAP2 : nom_cap (getc s2 h) <= nitems (getc s2 h)) by (rewrite G2, NC1, NI1; exact CAP).
  assert (SRT2 : srt (getc s2 h) = true) by (rewrite G2; exact SRT1).
  destruct (compact_step s2 h r I2 LEN2 CAP2 SRT2 L3) as (I3 & [K1 K2 K3 K4 K5 K6 K7] & LEN3 & _).
  destruct (compact_step_space s2 h r I2 LEN2 CAP2 SRT2 L3) as (_ & PRE3 & _).
  eapply IH; [exact I3| |exact L].
  (* the invariant after this compaction *)
  set (s3 := mkreq (rk s2) (hra s2) (maxnom s2 + snd (snd r)) (nret s2 - fst (snd r)) (rn s2)
                   (upd_nth (S h) (fun _ => snd (fst r)) (upd_nth h (fun _ => fst (fst r)) (comps s2))) (rmin s2) (rmax s2)) in *.
  destruct PR2 as [PM PE].
  destruct h as [|h].
  - (* level 0 is compacted *)
    apply compact_leaf in L3 as [cn ->].
    assert (G3 : getc s3 0%nat = fst (fst (compact_with (hra s2) (getc s2 0%nat) (getc s2 1%nat) cn))).
    { unfold s3. generalize (compact_with (hra s2) (getc s2 0%nat) (getc s2 1%nat) cn). intro r0.
      unfold getc; cbn [comps]. clear - LEN2. destruct (comps s2) as [|a [|b r1]]; cbn [length] in LEN2; try lia. reflexivity. }
    assert (P0 : par_ok (getc s2 0%nat)) by (apply (Forall_nth_in par_ok (comps s2) 0%nat dummy (i_par s2 I2)); lia).
    assert (S0 : ssorted (items (getc s2 0%nat))) by (apply sorted_at; auto; lia).
    constructor.
    + rewrite G3. destruct (compact_closed (hra s2) (getc s2 0%nat) (getc s2 1%nat) cn (fun _ => true) m P0 CAP2 S0) as (X & _); auto.
      * intros a b _ _. reflexivity.
      * lia.
    + intros p CL LT. rewrite G3 in *. cbn [hra s3] in CL.
      destruct (compact_closed (hra s2) (getc s2 0%nat) (getc s2 1%nat) cn p m P0 CAP2 S0 CL PM) as (_ & X).
      specialize (X LT). rewrite <- X in *. destruct (PE p CL LT) as (Y1 & Y2). split; auto.
      pose proof (K6 p) as Q. pose proof (all_items_hd s3 I3 p) as Z1. rewrite G3, <- X in Z1.
      pose proof (cnt_nonneg p (all_items (tl (comps s3)))). lia.
  - (* a higher level is compacted: level 0 is untouched *)
    assert (G3 : getc s3 0%nat = getc s2 0%nat) by (unfold getc, s3; cbn [comps]; apply PRE3; lia).
    constructor.
    + rewrite G3. exact PM.
    + intros p CL LT. rewrite G3 in *. cbn [hra s3] in CL. destruct (PE p CL LT) as (Y1 & Y2). split; auto.
      pose proof (K6 p) as Q. pose proof (all_items_hd s3 I3 p) as Z1. rewrite G3 in Z1.
      pose proof (cnt_nonneg p (all_items (tl (comps s3)))). lia.
Qed.

Lemma compress_prot ic m log s s' : Inv s -> Prot m s log -> leaf (compress ic s) s' -> Prot m s' log.
Proof. apply compress_loop_prot. Qed.

Lemma Prot_weaken m m' s log : m' <= m -> Prot m s log -> Prot m' s log.
Proof. intros H [A B]. constructor; [lia|]. intros p CL LT. apply B; auto. lia. Qed.

(* ---------- update ---------- *)
Lemma update_prot ic m s log x s' : Rel s log -> Prot m s log -> leaf (update ic s x) s' -> Prot m s' (log ++ [x]).
Proof.
  intros R PR L. pose proof (r_inv s log R) as I. rewrite update_eq in L.
  assert (P2 : Prot m (upd_state s x) (log ++ [x])).
  { destruct PR as [PM PE]. destruct (upd_minmax_fields s x x) as (E1 & E2 & E3 & E4 & E5 & E6).
    destruct I as [K NE LG RT NM W S0 S1 PA].
    unfold upd_state. cbv zeta. unfold getc in PM, PE |- *. cbn [comps hra]. rewrite E1, E4.
    destruct (comps s) as [|c0 r] eqn:EC; [congruence|]. cbn [upd_nth nth] in PM, PE |- *.
    destruct (append_spec (hra s) c0 x) as (A1 & A2 & A3 & A4 & A5 & _).
    constructor; unfold getc; cbn [comps nth hra].
    - unfold prot in *. now rewrite A4, A5.
    - intros p CL LT. rewrite (cnt_perm _ _ _ A1), cnt_cons in *.
      assert (LT0 : cnt p (items c0) < m) by (destruct (p x); lia).
      destruct (PE p CL LT0) as (X & Y). rewrite cnt_app, cnt_cons, cnt_nil.
      rewrite all_items_cons, cnt_app in *. rewrite (cnt_perm _ _ _ A1), cnt_cons. split; lia. }
  destruct (nret (upd_state s x) =? maxnom (upd_state s x)).
  - exact (compress_prot ic m _ _ _ (upd_state_Inv s x I) P2 L).
  - apply leaf_ret_inv in L. now subst.
Qed.

(* ---------- merge ---------- *)
Lemma merge_prot ic m s l1 o l2 s' : Rel s l1 -> Rel o l2 -> hra s = hra o -> Prot m s l1 -> Prot m o l2 ->
  leaf (merge ic s o) s' -> Prot m s' (l1 ++ l2).
Proof.
  intros R Ro HH PR PRo L. pose proof (r_inv s l1 R) as I. pose proof (r_inv o l2 Ro) as Io. unfold merge in L.
  destruct (Z.eqb_spec (rn o) 0) as [Z0|Z0].
  { apply leaf_ret_inv in L. subst s'. pose proof (r_n o l2 Ro) as No. rewrite Z0 in No. symmetry in No.
    apply len_zero_nil in No. subst l2. now rewrite app_nil_r. }
  destruct (upd_minmax_fields s (rmin o) (rmax o)) as (E1 & E2 & E3 & E4 & E5 & E6).
  set (s1 := upd_minmax s (rmin o) (rmax o)) in *.
  assert (I1 : Inv s1) by (apply (Inv_fields s s1); auto).
  apply leaf_bind in L as (s2 & L2 & L).
  destruct (grow_to_spec ic _ _ _ _ I1 (Nat.le_add_l _ _) L2) as (I2 & [K1 K2 K3 K4 K5 K6 K7] & LEN2 & AI2 & (ext & EXT)).
  fold (merged_state s2 o) in L.
  assert (LE : (length (comps o) <= length (comps s2))%nat) by lia.
  pose proof (merged_state_Inv s2 o I2 Io LE) as I3.
  assert (P3 : Prot m (merged_state s2 o) (l1 ++ l2)).
  { destruct PR as [PM PE]. destruct PRo as [PMo PEo].
    destruct I2 as [Kk NEc LG RT NM W S0 S1 PA]. destruct Io as [Kko NEco LGo RTo NMo Wo S0o S1o PAo].
    destruct (merge_comps_spec (hra s2) (comps s2) (comps o) 0 PA S0 PAo S0o LG LGo) as (_ & _ & _ & _ & _ & R6 & _).
    rewrite (firstn_all2 (comps o) LE) in R6.
    assert (G2 : getc s2 0%nat = getc s 0%nat).
    { unfold getc. rewrite EXT, E1. pose proof (i_ne s I) as NEs. destruct (comps s) as [|c r]; [congruence|reflexivity]. }
    unfold merged_state, getc in *. cbv zeta. cbn [comps hra].
    destruct (comps s2) as [|c2 r2] eqn:EC2; [congruence|]. destruct (comps o) as [|o0 ro] eqn:ECo; [congruence|].
    change (merge_comps (hra s2) (c2 :: r2) (o0 :: ro)) with (comp_merge (hra s2) c2 o0 :: merge_comps (hra s2) r2 ro) in *.
    cbn [nth] in *.
    pose proof (Forall_inv PA) as Pc2. pose proof (Forall_inv PAo) as Po0. pose proof (Forall_inv S0) as Sc2. pose proof (Forall_inv S0o) as So0.
    destruct (comp_merge_spec (hra s2) c2 o0 Pc2 (proj1 (proj2 (proj2 Po0))) Sc2 So0) as (M1 & _).
    pose proof (comp_merge_prot (hra s2) c2 o0 Pc2 (proj1 (proj2 (proj2 Po0)))) as MP.
    constructor; unfold getc; cbn [comps nth hra].
    - rewrite <- G2 in PM. lia.
    - intros p CL LT. rewrite (cnt_perm _ _ _ M1), cnt_app in *.
      pose proof (cnt_nonneg p (items c2)). pose proof (cnt_nonneg p (items o0)).
      rewrite K3, E4 in CL.
      destruct (PE p CL) as (X1 & X2); [rewrite <- G2; lia|]. rewrite <- G2 in X1, X2.
      destruct (PEo p) as (Y1 & Y2); [rewrite <- HH; exact CL|lia|].
      rewrite (R6 p), cnt_app. rewrite AI2, E1. split; lia. }
  destruct (maxnom (merged_state s2 o) <=? nret (merged_state s2 o)).
  - exact (compress_prot ic m _ _ _ I3 P3 L).
  - apply leaf_ret_inv in L. now subst.
Qed.

(* ---------- reachable states whose sketches all have 3 * k >= m ---------- *)
Inductive reachm (ic : bool) (m : Z) : req -> list Z -> Prop :=
| reachm_new k h s : 0 <= k <= 65535 -> m <= 3 * eff_k k -> leaf (req_new ic k h) s -> reachm ic m s []
| reachm_update s log x s' : reachm ic m s log -> leaf (update ic s x) s' -> reachm ic m s' (log ++ [x])
| reachm_merge s l1 o l2 s' : reachm ic m s l1 -> reachm ic m o l2 -> hra s = hra o -> leaf (merge ic s o) s' -> reachm ic m s' (l1 ++ l2)
| reachm_sort s log : reachm ic m s log -> reachm ic m (sort_level_zero s) log.

Lemma reachm_reach ic m s log : reachm ic m s log -> reach ic s log.
Proof. induction 1; [eapply reach_new|eapply reach_update|eapply reach_merge|eapply reach_sort]; eauto. Qed.

Theorem reachm_Prot ic m s log : reachm ic m s log -> Prot m s log.
Proof.
  induction 1 as [k h s HK HM L|s log x s' R IH L|s l1 o l2 s' R1 IH1 R2 IH2 HH L|s log R IH].
  - unfold req_new in L. apply grow_leaf in L as [c0 ->].
    constructor; unfold grow_with, getc; cbn [comps app nth].
    + unfold prot; cbn [nsec ssz new_comp rk]. lia.
    + intros p _ _. cbn [items new_comp all_items flat_map app]. split; reflexivity.
  - eapply update_prot; eauto. apply (reach_Rel ic). now apply (reachm_reach ic m).
  - eapply merge_prot; eauto; apply (reach_Rel ic); now apply (reachm_reach ic m).
  - pose proof (reach_Rel ic s log (reachm_reach ic m s log R)) as Q. pose proof (r_inv s log Q) as I.
    assert (E : sort_level_zero s = setc s 0%nat (csort (getc s 0%nat))).
    { unfold sort_level_zero, setc, getc. f_equal. pose proof (i_ne s I) as NEs. destruct (comps s); [congruence|reflexivity]. }
    rewrite E. destruct (sort0_spec s I) as (A & [K1 K2 K3 K4 K5 K6 K7] & _).
    assert (G0 : getc (setc s 0%nat (csort (getc s 0%nat))) 0%nat = csort (getc s 0%nat)).
    { unfold setc, set_comps, getc; cbn [comps]. pose proof (i_ne s I) as NEs. destruct (comps s); [congruence|reflexivity]. }
    destruct (csort_spec (getc s 0%nat)) as (F1 & _ & _ & _ & F5 & F6 & _).
    destruct IH as [PM PE]. constructor.
    + rewrite G0. unfold prot in *. now rewrite F5, F6.
    + intros p CL LT. rewrite G0 in *. rewrite (cnt_perm _ _ _ F1) in *. rewrite K3 in CL. destruct (PE p CL LT) as (X & Y).
      split; auto. pose proof (K6 p). pose proof (all_items_hd _ A p) as Z1. rewrite G0, (cnt_perm _ _ _ F1) in Z1.
      pose proof (cnt_nonneg p (all_items (tl (comps (setc s 0%nat (csort (getc s 0%nat))))))). lia.
Qed.

(* the claim behind is_exact_rank, strict: if the estimate of a predicate closed toward the accurate end is below m, it
   is the true count *)
Theorem exact_band ic m s log p : reachm ic m s log -> closed (hra s) p -> Rs p (comps s) < m -> Rs p (comps s) = cnt p log.
Proof.
  intros R CL LT. pose proof (reachm_Prot ic m s log R) as [PM PE].
  pose proof (reach_Rel ic s log (reachm_reach ic m s log R)) as Q. pose proof (r_inv s log Q) as I.
  destruct I as [_ NE LG _ _ _ _ _ _]. unfold getc in *.
  destruct (comps s) as [|c0 r] eqn:EC; [congruence|]. cbn [nth] in *. cbn [lgw_from] in LG. destruct LG as (LG0 & _).
  rewrite Rs_cons in *. unfold Rc at 1 in LT. unfold Rc at 1. rewrite LG0 in *. change (2 ^ 0) with 1 in *.
  pose proof (Rs_nonneg p r) as NN.
  destruct (PE p CL) as (X & Y); [lia|].
  rewrite all_items_cons, cnt_app in Y.
  assert (Z0 : cnt p (all_items r) = 0) by lia.
  assert (RZ : Rs p r = 0).
  { clear - Z0. induction r as [|c r IH]; [reflexivity|]. rewrite all_items_cons, cnt_app in Z0.
    pose proof (cnt_nonneg p (items c)). pose proof (cnt_nonneg p (all_items r)).
    rewrite Rs_cons. unfold Rc. rewrite IH by lia. replace (cnt p (items c)) with 0 by lia. lia. }
  lia.
Qed.

Lemma Rs_compl p cs : Rs p cs + Rs (fun y => negb (p y)) cs = Rs (fun _ => true) cs.
Proof.
  induction cs as [|c r IH]; [reflexivity|]. rewrite !Rs_cons. unfold Rc. pose proof (cnt_compl p (items c)). rewrite cnt_true. nia.
Qed.

(* in rank terms: m = 3 * (smallest k of the sketches involved).  LRA: an estimated rank numerator below m is the true
   rank; HRA: the same for the estimated number of items ABOVE the query point (n - rank numerator) *)
Theorem exact_band_rank ic m s log : reachm ic m s log -> forall x incl,
  (hra s = false -> qrank s x incl < m -> qrank s x incl = cnt (below x incl) log) /\
  (hra s = true -> rn s - qrank s x incl < m -> qrank s x incl = cnt (below x incl) log).
Proof.
  intros R x incl. pose proof (reach_Rel ic s log (reachm_reach ic m s log R)) as Q.
  rewrite (P_rank_is_estimator s log Q). split; intros H LT.
  - apply (exact_band ic m s log _ R); auto. rewrite H. intros a b. unfold below, SortedView.below.
    destruct incl; rewrite ?negb_true_iff, ?Z.ltb_lt, ?Z.ltb_ge; lia.
  - pose proof (Rs_compl (below x incl) (comps s)) as C. rewrite (i_w s (r_inv s log Q)) in C.
    assert (E : Rs (fun y => negb (below x incl y)) (comps s) = cnt (fun y => negb (below x incl y)) log).
    { apply (exact_band ic m s log _ R); [|lia]. rewrite H. intros a b. unfold below, SortedView.below.
      destruct incl; rewrite ?negb_involutive, ?negb_true_iff, ?Z.ltb_lt, ?Z.ltb_ge; lia. }
    pose proof (cnt_compl (below x incl) log). pose proof (r_n s log Q). lia.
Qed.
