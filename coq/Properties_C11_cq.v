(* Properties_C11_cq.v — C11 for the classic quantiles sketch: truncated or corrupted images.
   cq_dec is a total function on arbitrary byte lists and describes both readers (the byte reader as repaired by
   fixes/11_cq_v1_unused_long.patch; the unrepaired one: Regression_cqcodec.cq_v1_unused_long_unchecked_refuted).
   Statements only; proofs in CqCodecProofs.v. *)
From Coq Require Import ZArith List Bool Lia Permutation Sorted.
From DS Require Import RunnerLib SortedView CqDefs CqProofs CqView CqCodecDefs CqCodecProofs Regression_cqcodec.
Import ListNotations.
Local Open Scope Z_scope.

(* every strict prefix of the image of a sketch is rejected (the image has no padding) *)
Theorem C11_cq_strict_prefix_rejected : forall kind s log m, reach s log -> (0 < cn s -> Fits kind s) ->
  (m < length (cq_enc kind s))%nat -> cq_dec kind (firstn m (cq_enc kind s)) = None.
Proof. intros kind s log m R F H. apply dec_prefix; [exact (r_inv s log (reach_Rel s log R))|exact F|exact H]. Qed.

(* fewer than 8 bytes are never accepted *)
Theorem C11_cq_short_rejected : forall kind bytes, (length bytes < 8)%nat -> cq_dec kind bytes = None.
Proof. exact dec_short. Qed.

(* ARBITRARY bytes: whatever is accepted consumed exactly image_len bytes (a function of the first 16 bytes), all of
   them inside the input, and holds no more items than the input has room for *)
Theorem C11_cq_accepted_is_inside_input : forall kind bytes s rest, cq_dec kind bytes = Some (s, rest) ->
  exists p, bytes = p ++ rest /\ length p = image_len bytes /\
    (8 * (length (cbb s) + length (concat (clv s))) <= image_len bytes)%nat /\
    length (clv s) = levels_needed (ck s) (cn s).
Proof. exact dec_len. Qed.

(* no unbounded allocation: retained items <= |bytes| / 8, at most 63 levels (each reserving k <= 2^15 items), k valid *)
Theorem C11_cq_accepted_is_bounded : forall kind bytes s rest, Forall is_byte bytes -> cq_dec kind bytes = Some (s, rest) ->
  (8 * (length (cbb s) + length (concat (clv s))) <= length bytes)%nat /\ (length (clv s) <= 63)%nat /\
  (length rest <= length bytes)%nat /\ valid_k (ck s).
Proof. exact dec_bounded. Qed.

(* corrupted preamble bytes: wrong family, unknown serial version, k not a power of two, or a (preamble_longs, version,
   empty, compact) combination outside the table are rejected whatever follows *)
Theorem C11_cq_bad_header_rejected : forall kind pre sv fam flags k0 k1 u0 u1 rest,
  fam <> 8 \/ ~ (sv = 1 \/ sv = 2 \/ sv = 3) \/ check_k (k0 + 256 * k1) = false \/ header_valid pre flags sv = false ->
  cq_dec kind (pre :: sv :: fam :: flags :: k0 :: k1 :: u0 :: u1 :: rest) = None.
Proof.
  intros kind pre sv fam flags k0 k1 u0 u1 rest H. unfold cq_dec.
  destruct (check_k (k0 + 256 * k1)) eqn:CK; [|reflexivity]. cbn [negb].
  destruct ((sv =? 1) || (sv =? 2) || (sv =? 3)) eqn:SV; [|reflexivity]. cbn [negb].
  destruct (Z.eqb_spec fam 8) as [F8|F8]; [|reflexivity]. cbn [negb].
  destruct (header_valid pre flags sv) eqn:HV; [|reflexivity]. exfalso.
  destruct H as [H|[H|[H|H]]]; try congruence. apply H.
  rewrite !orb_true_iff, !Z.eqb_eq in SV. tauto.
Qed.

(* the unrepaired byte reader overran its buffer on a strict prefix of a valid serial-version-1 image *)
Theorem C11_cq_v1_unused_long_unchecked_refuted :
  exists img m, (m < length img)%nat /\ (exists s, cq_dec 1 img = Some (s, []) /\ cn s = 3) /\
                old_overrun 1 (firstn m img) = true /\ cq_dec 1 (firstn m img) = None.
Proof. exact cq_v1_unused_long_unchecked_refuted. Qed.

(* non-vacuity: the 56-byte image of an estimating sketch; its 55-byte prefix; a corrupted family byte *)
Example C11_cq_nonvacuous :
  let img := cq_enc 0 (mkcq 2 9 2 [7] [[]; [1; 5]] 1 9 false) in
  length img = 56%nat /\ (exists s, cq_dec 0 img = Some (s, [])) /\ cq_dec 0 (firstn 55 img) = None /\
  cq_dec 0 (firstn 2 img ++ 7 :: skipn 3 img) = None.
Proof. cbv zeta. split; [reflexivity|]. split; [eexists; vm_compute; reflexivity|]. split; vm_compute; reflexivity. Qed.

Print Assumptions C11_cq_strict_prefix_rejected.
Print Assumptions C11_cq_short_rejected.
Print Assumptions C11_cq_accepted_is_inside_input.
Print Assumptions C11_cq_accepted_is_bounded.
Print Assumptions C11_cq_bad_header_rejected.
Print Assumptions C11_cq_v1_unused_long_unchecked_refuted.
