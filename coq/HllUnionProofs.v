(* HllUnionProofs.v — the union (REPAIRED variant) for all histories.
   [union_run_ok]: after any sequence of sketch inputs (any mode / type / lg_k, by const& or &&), raw coupons, estimate
   calls, get_result calls and resets, the gadget's lg_k is lg* and its content is that of one sketch of lg_k = lg* that
   saw every coupon offered since the last reset.  Corollaries: order independence, independence of interleaved queries
   and of the value category, nothing is lost, get_result(HLL_8). *)
From Coq Require Import ZArith NArith List Bool Lia Permutation.
From DS Require Import Word RunnerLib HllDefs HllProofs HllOpenAddr HllUnionDefs HllUnionBase HllUnionCoupon.
Import ListNotations.
Local Open Scope N_scope.

(* ---------- what is assumed of an input sketch that represents the coupons C (the C03 invariant of hll_sketch) ---------- *)
Record hll_in_ok (C : list N) (h : hllarr) : Prop := {
  hi_lo : 4 <= h_lgk h;
  hi_hi : h_lgk h <= 21;
  hi_regs : hll_regs h = Some (spec_regs (h_lgk h) C);
  hi_ne : sk_is_empty (IHll h) = false -> C <> [];
  hi_t8 : h_ty h = T8 -> lenN (h_bytes h) = 2 ^ h_lgk h /\ h_numat h <= 2 ^ h_lgk h }.

Definition src_ok (C : list N) (i : impl) : Prop :=
  Forall cok C /\
  match i with
  | IList l => list_ok (l_lgk l) C l
  | ISet s => set_ok (s_lgk s) C s
  | IHll h => hll_in_ok C h
  end.

(* ---------- the gadget invariant ---------- *)
Definition ginv (lgmax lg : N) (C : list N) (g : impl) : Prop :=
  Forall cok C /\ 4 <= lg /\ lg <= lgmax /\ lgmax <= 21 /\ cmode_ok lg C g /\
  (is_hll g = false -> lg = lgmax) /\ (is_hll g = true -> C <> []).

Lemma ghll_flags lg C h a b : ghll lg C h -> ghll lg C (h_set_flags h a b).
Proof. intros [[Ht Hl] Hk Hr Hn He]. split; auto. split; auto. Qed.

(* ---------- coupon-mode facts ---------- *)
Lemma nil_of_no_elements (l : list N) : (forall x, ~ In x l) -> l = [].
Proof. destruct l as [|x t]; [reflexivity|]. intros H. exfalso. apply (H x). now left. Qed.

Lemma cmode_coupons lg C g : Forall cok C -> cmode_ok lg C g -> is_hll g = false ->
  same_set (impl_coupons g) C /\ (sk_is_empty g = true <-> C = []).
Proof.
  intros HC Hok Hm. destruct g as [l|s|h]; [| |discriminate]; cbn [cmode_ok impl_coupons sk_is_empty] in *.
  - destruct Hok as [Hl _]. destruct (list_ok_coupons _ _ _ HC Hl) as (HS & _ & He). split; [exact HS|].
    rewrite He. destruct C; split; congruence.
  - destruct Hok as [Hs _]. split; [apply (so_set _ _ _ Hs)|].
    rewrite (so_cnt _ _ _ Hs). pose proof (so_set _ _ _ Hs) as HS. split.
    + intros E. apply N.eqb_eq in E. destruct (nonzero (s_arr s)) as [|x t] eqn:En; [|unfold lenN in E; cbn [length] in E; lia].
      now apply same_set_nil.
    + intros ->. assert (En : nonzero (s_arr s) = []) by (apply nil_of_no_elements; intros x Hx; now apply HS in Hx).
      now rewrite En.
Qed.

Lemma ginv_hll_not_empty lgmax lg C h : ginv lgmax lg C (IHll h) -> sk_is_empty (IHll h) = false.
Proof. intros (_ & _ & _ & _ & Hok & _). now apply ghll_not_empty with lg C. Qed.

Lemma ginv_empty lgmax lg C g : ginv lgmax lg C g -> sk_is_empty g = true -> C = [] /\ is_hll g = false /\ lg = lgmax.
Proof.
  intros Hg He. destruct g as [l|s|h].
  - destruct Hg as (HC & _ & _ & _ & Hok & Hm & _). split; [|split; [reflexivity|now apply Hm]].
    now apply (cmode_coupons lg C (IList l) HC Hok eq_refl).
  - destruct Hg as (HC & _ & _ & _ & Hok & Hm & _). split; [|split; [reflexivity|now apply Hm]].
    now apply (cmode_coupons lg C (ISet s) HC Hok eq_refl).
  - rewrite (ginv_hll_not_empty _ _ _ _ Hg) in He. discriminate.
Qed.

Lemma impl_update_hll_mono i c i' : impl_update i c = Some i' -> is_hll i = true -> is_hll i' = true.
Proof.
  destruct i as [l|s|h]; cbn [is_hll]; try discriminate. cbn [impl_update].
  destruct (hll_update h c); [|discriminate]. now intros [= <-].
Qed.

Lemma impl_updates_hll_mono cs : forall i i', ofold impl_update cs i = Some i' -> is_hll i = true -> is_hll i' = true.
Proof.
  induction cs as [|c t IH]; intros i i' H Hm; cbn [ofold] in H.
  - now inversion H; subst.
  - destruct (impl_update i c) as [i1|] eqn:E; [|discriminate]. eapply IH; eauto. eapply impl_update_hll_mono; eauto.
Qed.

(* feeding coupons to the gadget keeps the invariant *)
Lemma ginv_updates lgmax lg C g cs : ginv lgmax lg C g -> Forall cok cs -> cs <> [] ->
  exists g', ofold impl_update cs g = Some g' /\ ginv lgmax lg (C ++ cs) g'.
Proof.
  intros (HC & H4 & Hle & H21 & Hok & Hm & Hne) Hcs Hnn.
  destruct (impl_updates_ok lg cs C g HC Hcs Hok) as (g' & E & Hok').
  exists g'. split; [exact E|]. split; [apply Forall_app; auto|]. repeat (split; [assumption|]).
  split.
  - intros Hm'. apply Hm. destruct (is_hll g) eqn:Eg; [|reflexivity].
    rewrite (impl_updates_hll_mono cs g g' E Eg) in Hm'. discriminate.
  - intros _ En. apply app_eq_nil in En. tauto.
Qed.

(* ---------- coupons_from: the (slot, value) coupons of a register array reproduce the array ---------- *)
Lemma slot_max_coupons_from lg vs : forall i j, slot_max lg (coupons_from i vs) j = slot_max lg (pairs_from i vs) j.
Proof.
  induction vs as [|v t IH]; intros i j; cbn [coupons_from pairs_from]; [reflexivity|].
  destruct (N.eqb_spec v 0) as [->|Hv].
  - rewrite slot_max_cons, pair_val, IH. destruct (_ =? j); [|reflexivity]. lia.
  - now rewrite !slot_max_cons, IH.
Qed.

Lemma spec_regs_coupons_from s C : s <= 26 -> spec_regs s (coupons_from 0 (spec_regs s C)) = spec_regs s C.
Proof.
  intros Hs. unfold spec_regs at 1 3. apply map_ext. intros j.
  rewrite slot_max_coupons_from. apply slot_max_pairs; lia.
Qed.

Lemma coupons_from_nonempty vs : forall i x, In x vs -> x <> 0 -> coupons_from i vs <> [].
Proof.
  induction vs as [|v t IH]; intros i x Hin Hx; [contradiction|]. cbn [coupons_from].
  destruct (N.eqb_spec v 0) as [Ev|Ev]; [|discriminate].
  destruct Hin as [->|Hin]; [contradiction|]. eapply IH; eauto.
Qed.

(* ---------- copyAs(HLL_8) ---------- *)
Lemma copy_as8_ok s C h : hll_regs h = Some (spec_regs s C) -> h_lgk h = s -> s <= 26 -> C <> [] -> Forall cok C ->
  (h_ty h = T8 -> h_rebuild h = false -> ghll s C h) ->
  exists d, hll_copy_as T8 h = Some d /\ ghll s C d.
Proof.
  intros Hr Hk Hs Hne HC Hdirect. unfold hll_copy_as.
  destruct (tgt_eqb T8 (h_ty h) && negb (h_rebuild h)) eqn:Econd.
  - apply andb_true_iff in Econd. destruct Econd as [Et Ef]. exists h. split; [reflexivity|].
    apply Hdirect; [destruct (h_ty h); try discriminate; reflexivity|now destruct (h_rebuild h)].
  - unfold hll_convert, hll_coupons. rewrite Hr.
    set (cs := coupons_from 0 (spec_regs s C)).
    set (h0 := h_set_flags (hll_new (h_lgk h) T8 (h_full h)) (h_ooo h) false).
    assert (Hl0 : lenN (h_bytes h0) = 2 ^ h_lgk h0) by (subst h0; cbn [hll_new h_set_flags h_bytes h_lgk arr_bytes]; apply zerosN_length).
    rewrite ofold_hll8 by (auto; reflexivity).
    eexists. split; [reflexivity|].
    destruct (merge_list_facts cs h0 Hl0) as (Eb & Ek & Et & Ef & Eo & Er & Ec & En).
    assert (Hbytes : h_bytes (merge_list h0 cs) = spec_regs s C).
    { rewrite Eb. subst h0 cs. cbn [hll_new h_set_flags h_bytes h_lgk arr_bytes]. rewrite Hk, fold_reg_max_spec.
      now apply spec_regs_coupons_from. }
    destruct C as [|c0 C0]; [congruence|]. inversion HC as [|? ? Hc0 _]; subst.
    destruct (nonzero_reg (h_lgk h) (c0 :: C0) c0 Hc0 (or_introl eq_refl)) as (x & Hx & Hnz).
    pose proof (coupons_from_nonempty _ 0 x Hx Hnz) as Hcs. fold cs in Hcs.
    assert (Hpos : 0 < lenN cs) by (destruct cs; [congruence|unfold lenN; cbn [length]; lia]).
    assert (Hpow : 0 < 2 ^ h_lgk h) by (apply N.neq_0_lt_0, N.pow_nonzero; discriminate).
    split; cbn [h_set_numat h_with_data h_lgk h_ty h_bytes h_numat h_curmin].
    + unfold regs8. cbn [h_set_numat h_with_data h_lgk h_ty h_bytes]. split; [now rewrite Et|].
      rewrite Hbytes, Ek. subst h0. cbn [hll_new h_set_flags h_lgk]. apply spec_regs_length.
    + rewrite Ek. reflexivity.
    + exact Hbytes.
    + lia.
    + right. lia.
Qed.

Lemma in_ok_t8_ghll C h : hll_in_ok C h -> sk_is_empty (IHll h) = false -> h_ty h = T8 -> ghll (h_lgk h) C h.
Proof.
  intros [H4 H21 Hr Hne H8] He Ht. destruct (H8 Ht) as [Hl Hn].
  assert (R8 : regs8 h) by (split; assumption).
  split; auto.
  - rewrite (hll_regs_8 h R8) in Hr. now inversion Hr.
  - cbn [sk_is_empty] in He. destruct (N.eqb_spec (h_curmin h) 0) as [E|E]; [|now left].
    right. cbn [andb] in He. apply N.eqb_neq in He. lia.
Qed.

(* ---------- copy_or_downsample (repaired) ---------- *)
Lemma cod_down s C h tgt : hll_regs h = Some (spec_regs s C) -> h_lgk h = s -> tgt < s -> s <= 26 -> C <> [] -> Forall cok C ->
  exists d, copy_or_downsample repaired h tgt = Some d /\ ghll tgt C d.
Proof.
  intros Hr Hk Hlt Hs Hne HC. unfold copy_or_downsample. rewrite Hk.
  destruct (N.leb_spec s tgt); [lia|].
  unfold merge_hll. rewrite Hr. cbn [hll_new h_lgk h_bytes arr_bytes]. rewrite Hk.
  destruct (N.eqb_spec tgt s); [lia|].
  rewrite downsample_spec by lia. cbn [v_rebuild repaired].
  set (t := h_set_flags _ _ true).
  assert (R8 : regs8 t) by (split; [reflexivity|apply spec_regs_length]).
  destruct (check_rebuild_facts t R8) as (t' & Ec & Eb & Ek & Et & Ef & Eo & Hn & Hfl & _ & Hnz).
  { subst t. cbn. lia. }
  rewrite Ec. eexists. split; [reflexivity|].
  destruct C as [|c0 C0]; [congruence|]. inversion HC as [|? ? Hc0 _]; subst.
  destruct (nonzero_reg tgt (c0 :: C0) c0 Hc0 (or_introl eq_refl)) as (x & Hx & Hxz).
  apply ghll_flags. split.
  - split; [rewrite Et; reflexivity|]. rewrite Eb, Ek. apply R8.
  - rewrite Ek. reflexivity.
  - rewrite Eb. reflexivity.
  - exact Hn.
  - apply Hnz; [reflexivity|]. exists x. split; [exact Hx|exact Hxz].
Qed.

Lemma cod_ok C h tgt : hll_in_ok C h -> sk_is_empty (IHll h) = false -> Forall cok C -> 4 <= tgt ->
  exists d, copy_or_downsample repaired h tgt = Some d /\ ghll (N.min (h_lgk h) tgt) C d.
Proof.
  intros Hin He HC H4. pose proof (hi_ne _ _ Hin He) as Hne.
  destruct (N.le_gt_cases (h_lgk h) tgt) as [Hle|Hgt].
  - rewrite N.min_l by exact Hle. unfold copy_or_downsample. destruct (N.leb_spec (h_lgk h) tgt); [|lia].
    apply copy_as8_ok; auto.
    + apply (hi_regs _ _ Hin).
    + pose proof (hi_hi _ _ Hin). lia.
    + intros Ht _. now apply in_ok_t8_ghll.
  - rewrite N.min_r by lia. apply cod_down with (h_lgk h); auto.
    + apply (hi_regs _ _ Hin).
    + pose proof (hi_hi _ _ Hin). lia.
Qed.

(* ---------- mergeHll into the gadget ---------- *)
Lemma merge_hll_ok lg C d s Cs hs : ghll lg C d -> hll_regs hs = Some (spec_regs s Cs) -> h_lgk hs = s -> lg <= s -> s <= 26 ->
  exists d', merge_hll d hs = Some d' /\ ghll lg (C ++ Cs) d'.
Proof.
  intros [[Ht Hl] Hk Hr Hn He] Hrs Hks Hle Hs. unfold merge_hll. rewrite Hrs, Hk, Hks, Hr.
  eexists. split; [reflexivity|]. apply ghll_flags.
  assert (Hb : (if lg =? s then zipmax (spec_regs lg C) (spec_regs s Cs)
               else merge_down (N.ones lg) (spec_regs lg C) 0 (spec_regs s Cs)) = spec_regs lg (C ++ Cs)).
  { destruct (N.eqb_spec lg s) as [->|Hne]; [apply zipmax_spec|now apply downsample_merge_spec]. }
  rewrite Hb. split; cbn [h_set_bytes h_with_data h_lgk h_ty h_bytes h_numat h_curmin]; auto.
  split; [exact Ht|]. cbn [h_set_bytes h_with_data h_lgk h_ty h_bytes]. rewrite Hk. apply spec_regs_length.
Qed.

(* ---------- one sketch input ---------- *)
Definition lg_after (lg : N) (src : impl) : N := if is_hll src then N.min lg (sk_lgk src) else lg.

Lemma src_nonempty Cs src : src_ok Cs src -> sk_is_empty src = false -> Cs <> [].
Proof.
  intros [HC Hs] He. destruct src as [l|s|h].
  - intros ->. destruct (list_ok_coupons _ _ _ HC Hs) as (_ & _ & E). cbn [sk_is_empty] in He. congruence.
  - intros ->. assert (Hok : cmode_ok (s_lgk s) [] (ISet {| s_lgk := s_lgk s; s_ty := T8; s_ooo := s_ooo s; s_lg := s_lg s; s_cnt := s_cnt s; s_arr := s_arr s |})).
    { cbn [cmode_ok]. split; [|reflexivity]. destruct Hs. split; auto. }
    destruct (cmode_coupons _ _ _ HC Hok eq_refl) as (_ & _ & Hemp). cbn [sk_is_empty s_cnt] in *. rewrite Hemp in He; [discriminate|reflexivity].
  - now apply (hi_ne _ _ Hs).
Qed.

Lemma src_coupons Cs src : src_ok Cs src -> is_hll src = false ->
  same_set (impl_coupons src) Cs /\ Forall cok (impl_coupons src).
Proof.
  intros [HC Hs] Hm.
  assert (HS : same_set (impl_coupons src) Cs).
  { destruct src as [l|s|h]; [| |discriminate]; cbn [impl_coupons].
    - now destruct (list_ok_coupons _ _ _ HC Hs).
    - apply (so_set _ _ _ Hs). }
  split; [exact HS|]. now apply Forall_same_set with Cs.
Qed.

Lemma union_impl_ok lgmax lg C g src Cs :
  ginv lgmax lg C g -> src_ok Cs src -> sk_is_empty src = false ->
  exists g', union_impl repaired g src lgmax = Some g' /\ ginv lgmax (lg_after lg src) (C ++ Cs) g'.
Proof.
  intros Hg Hsrc Hne. pose proof (src_nonempty _ _ Hsrc Hne) as HCs.
  pose proof Hg as (HC & H4 & Hle & H21 & Hok & Hm & Hnn). pose proof Hsrc as [HCsok Hs].
  assert (HCC : Forall cok (C ++ Cs)) by (apply Forall_app; auto).
  assert (HCCne : C ++ Cs <> []) by (intros E; apply app_eq_nil in E; tauto).
  destruct (is_hll src) eqn:Esrc.
  - (* src is HLL *)
    destruct src as [l|s|hs]; try discriminate. cbn [union_impl lg_after is_hll sk_lgk].
    pose proof (hi_regs _ _ Hs) as Hrs. pose proof (hi_hi _ _ Hs) as Hs21. pose proof (hi_lo _ _ Hs) as Hs4.
    destruct (sk_is_empty g) eqn:Eg; cbn [negb].
    + (* gadget empty: replaced by the (down-sampled) copy *)
      destruct (ginv_empty _ _ _ _ Hg Eg) as (-> & _ & ->).
      destruct (cod_ok Cs hs lgmax Hs Hne HCsok ltac:(lia)) as (d & Ed & Hd). rewrite Ed.
      eexists. split; [reflexivity|]. cbn [app]. rewrite N.min_comm.
      split; [exact HCsok|]. split; [lia|]. split; [lia|]. split; [exact H21|]. split; [exact Hd|]. split; [discriminate|auto].
    + destruct g as [l|s|hg].
      * (* swap: list gadget merged into the copy of the source *)
        specialize (Hm eq_refl). subst lg.
        destruct (cod_ok Cs hs lgmax Hs Hne HCsok ltac:(lia)) as (d & Ed & Hd). rewrite Ed.
        eexists. split; [reflexivity|]. rewrite N.min_comm.
        split; [exact HCC|]. split; [lia|]. split; [lia|]. split; [exact H21|]. split; [|split; [discriminate|auto]].
        cbn [cmode_ok]. destruct (cmode_coupons _ _ _ HC Hok eq_refl) as (HS & _).
        apply ghll_same_set with (Cs ++ impl_coupons (IList l)); [|now apply ghll_merge_list].
        intros x. rewrite !in_app_iff, (HS x). tauto.
      * specialize (Hm eq_refl). subst lg.
        destruct (cod_ok Cs hs lgmax Hs Hne HCsok ltac:(lia)) as (d & Ed & Hd). rewrite Ed.
        eexists. split; [reflexivity|]. rewrite N.min_comm.
        split; [exact HCC|]. split; [lia|]. split; [lia|]. split; [exact H21|]. split; [|split; [discriminate|auto]].
        cbn [cmode_ok]. destruct (cmode_coupons _ _ _ HC Hok eq_refl) as (HS & _).
        apply ghll_same_set with (Cs ++ impl_coupons (ISet s)); [|now apply ghll_merge_list].
        intros x. rewrite !in_app_iff, (HS x). tauto.
      * (* gadget is HLL *)
        cbn [cmode_ok] in Hok. specialize (Hnn eq_refl).
        pose proof (gh_lgk _ _ _ Hok) as Hkg. rewrite Hkg.
        destruct (N.ltb_spec (h_lgk hs) lg) as [Hlt|Hge].
        -- destruct (cod_down lg C hg (h_lgk hs)) as (d & Ed & Hd); auto; try lia.
           { rewrite (hll_regs_8 _ (gh_8 _ _ _ Hok)). f_equal. apply (gh_regs _ _ _ Hok). }
           rewrite Ed.
           destruct (merge_hll_ok (h_lgk hs) C d (h_lgk hs) Cs hs Hd Hrs eq_refl) as (d' & Em & Hd'); try lia.
           rewrite Em. eexists. split; [reflexivity|]. rewrite N.min_r by lia.
           split; [exact HCC|]. split; [lia|]. split; [lia|]. split; [exact H21|].
           split; [now apply ghll_flags|]. split; [discriminate|auto].
        -- destruct (merge_hll_ok lg C hg (h_lgk hs) Cs hs Hok Hrs eq_refl) as (d' & Em & Hd'); try lia.
           rewrite Em. eexists. split; [reflexivity|]. rewrite N.min_l by lia.
           split; [exact HCC|]. split; [lia|]. split; [lia|]. split; [exact H21|].
           split; [now apply ghll_flags|]. split; [discriminate|auto].
  - (* src is LIST or SET *)
    destruct (src_coupons _ _ Hsrc Esrc) as (HSs & Hcks).
    assert (Hbranch : union_impl repaired g src lgmax =
                      if sk_is_empty g && (sk_lgk src =? sk_lgk g) then sk_copy_as T8 src else ofold impl_update (impl_coupons src) g).
    { destruct src; try discriminate; reflexivity. }
    rewrite Hbranch. unfold lg_after. rewrite Esrc.
    destruct (sk_is_empty g && (sk_lgk src =? sk_lgk g)) eqn:Econd.
    + (* the empty gadget is replaced by a copy of the source *)
      apply andb_true_iff in Econd. destruct Econd as [Eg Ek]. apply N.eqb_eq in Ek.
      destruct (ginv_empty _ _ _ _ Hg Eg) as (-> & Emode & ->). cbn [app].
      assert (Hgk : sk_lgk g = lgmax).
      { destruct g as [l|s|h]; [| |discriminate]; cbn [cmode_ok sk_lgk] in *; [apply (lo_lgk _ _ _ (proj1 Hok))|apply (so_lgk _ _ _ (proj1 Hok))]. }
      destruct src as [l|s|h]; [| |discriminate]; cbn [sk_copy_as sk_lgk] in *.
      * eexists. split; [reflexivity|].
        split; [exact HCsok|]. split; [lia|]. split; [lia|]. split; [exact H21|]. split; [|split; [auto|discriminate]].
        cbn [cmode_ok l_ty]. split; [|reflexivity]. rewrite <- Hgk, <- Ek. destruct Hs as [Hk Harr]. split; [reflexivity|exact Harr].
      * eexists. split; [reflexivity|].
        split; [exact HCsok|]. split; [lia|]. split; [lia|]. split; [exact H21|]. split; [|split; [auto|discriminate]].
        cbn [cmode_ok s_ty]. split; [|reflexivity]. rewrite <- Hgk, <- Ek. destruct Hs. split; auto.
    + (* the source's coupons go through the gadget's coupon update *)
      assert (Hcne : impl_coupons src <> []).
      { intros E. apply HCs. apply same_set_nil. rewrite <- E. exact HSs. }
      destruct (ginv_updates lgmax lg C g (impl_coupons src) Hg Hcks Hcne) as (g' & E & Hg'). rewrite E.
      exists g'. split; [reflexivity|].
      destruct Hg' as (_ & _ & _ & _ & Hok' & Hm' & Hnn').
      split; [exact HCC|]. split; [lia|]. split; [lia|]. split; [exact H21|]. split; [|split; [exact Hm'|auto]].
      apply cmode_same_set with (C ++ impl_coupons src); [|exact Hok'].
      apply same_set_app; [apply same_set_refl|exact HSs].
Qed.

(* ---------- one step of a history ---------- *)
Inductive hop :=
| HSk (rvalue : bool) (src : impl) (C : list N)   (* a sketch that represents the coupons C *)
| HCp (c : N)
| HEst
| HRes (ty : tgt)
| HReset.

Definition hop_ok (o : hop) : Prop :=
  match o with
  | HSk _ src C => src_ok C src
  | HCp c => cok c
  | _ => True
  end.

Definition op_of (o : hop) : uop :=
  match o with
  | HSk rv s _ => USketch rv s
  | HCp c => UCoupon c
  | HEst => UEstimate
  | HRes ty => UResult ty
  | HReset => UReset
  end.

(* the specification state: the coupons offered and lg* since the last reset *)
Definition eff_step (lgmax : N) (st : list N * N) (o : hop) : list N * N :=
  match o with
  | HSk _ src Cs => if sk_is_empty src then st else (fst st ++ Cs, lg_after (snd st) src)
  | HCp c => (fst st ++ [c], snd st)
  | HReset => ([], lgmax)
  | _ => st
  end.

Definition eff_from (lgmax : N) (st : list N * N) (ops : list hop) : list N * N := fold_left (eff_step lgmax) ops st.
Definition eff (lgmax : N) (ops : list hop) : list N * N := eff_from lgmax ([], lgmax) ops.

Lemma ginv_new lgmax : 4 <= lgmax -> lgmax <= 21 -> ginv lgmax lgmax [] (u_gadget (u_new lgmax)).
Proof.
  intros H4 H21. split; [constructor|]. split; [exact H4|]. split; [lia|]. split; [exact H21|].
  cbn [u_new u_gadget sk_new]. split; [|split; [auto|discriminate]].
  cbn [cmode_ok]. split; [apply list_ok_new|reflexivity].
Qed.

Lemma step_ok lgmax lg C g o : ginv lgmax lg C g -> hop_ok o ->
  exists g', u_step repaired {| u_lgmax := lgmax; u_gadget := g |} (op_of o) = Some {| u_lgmax := lgmax; u_gadget := g' |} /\
             ginv lgmax (snd (eff_step lgmax (C, lg) o)) (fst (eff_step lgmax (C, lg) o)) g'.
Proof.
  intros Hg Ho. destruct o as [rv src Cs|c| |ty|]; cbn [op_of u_step eff_step fst snd hop_ok] in *.
  - (* sketch *)
    assert (Hlv : exists g', u_update_lv repaired {| u_lgmax := lgmax; u_gadget := g |} src = Some {| u_lgmax := lgmax; u_gadget := g' |} /\
                  ginv lgmax (snd (if sk_is_empty src then (C, lg) else (C ++ Cs, lg_after lg src)))
                             (fst (if sk_is_empty src then (C, lg) else (C ++ Cs, lg_after lg src))) g').
    { unfold u_update_lv. destruct (sk_is_empty src) eqn:Ee; [exists g; auto|]. cbn [u_gadget u_lgmax fst snd].
      destruct (union_impl_ok lgmax lg C g src Cs Hg Ho Ee) as (g' & E & Hg'). rewrite E. exists g'. auto. }
    destruct rv; [|exact Hlv].
    unfold u_update_rv. destruct (sk_is_empty src) eqn:Ee; [exists g; auto|]. cbn [u_gadget u_lgmax fst snd].
    destruct (sk_is_empty g && tgt_eqb (sk_ty src) T8 && (sk_lgk src <=? lgmax) && (is_hll src || (sk_lgk src =? lgmax))) eqn:Esw.
    + (* the shortcut: the gadget becomes the source; union_impl then sees the swapped-out empty gadget *)
      apply andb_true_iff in Esw. destruct Esw as [Esw E4]. apply andb_true_iff in Esw. destruct Esw as [Esw E3].
      apply andb_true_iff in Esw. destruct Esw as [Eg E2]. apply N.leb_le in E3.
      destruct (ginv_empty _ _ _ _ Hg Eg) as (-> & Emode & ->).
      pose proof Hg as (HC & H4 & Hle & H21 & Hok & _).
      destruct (cmode_coupons _ _ _ HC Hok Emode) as (HS & _).
      assert (Hnil : impl_coupons g = []) by (apply nil_of_no_elements; intros x Hx; now apply HS in Hx).
      assert (Hu : union_impl repaired src g lgmax = Some src).
      { destruct g as [l|s|h]; [| |discriminate]; cbn [union_impl]; rewrite Ee; cbn [andb]; rewrite Hnil; reflexivity. }
      rewrite Hu. exists src. split; [reflexivity|]. cbn [app].
      pose proof (src_nonempty _ _ Ho Ee) as HCs. destruct Ho as [HCsok Hs].
      unfold lg_after. destruct src as [l|s|h]; cbn [is_hll sk_lgk sk_ty orb] in *.
      * apply N.eqb_eq in E4. split; [exact HCsok|]. split; [lia|]. split; [lia|]. split; [exact H21|]. split; [|split; [auto|discriminate]].
        cbn [cmode_ok]. split; [now rewrite <- E4|]. destruct (l_ty l); try discriminate; reflexivity.
      * apply N.eqb_eq in E4. split; [exact HCsok|]. split; [lia|]. split; [lia|]. split; [exact H21|]. split; [|split; [auto|discriminate]].
        cbn [cmode_ok]. split; [now rewrite <- E4|]. destruct (s_ty s); try discriminate; reflexivity.
      * rewrite N.min_r by exact E3. pose proof (hi_lo _ _ Hs).
        split; [exact HCsok|]. split; [lia|]. split; [lia|]. split; [exact H21|]. split; [|split; [discriminate|auto]].
        cbn [cmode_ok]. apply in_ok_t8_ghll; auto. destruct (h_ty h); try discriminate; reflexivity.
    + destruct (union_impl_ok lgmax lg C g src Cs Hg Ho Ee) as (g' & E & Hg'). rewrite E. exists g'. auto.
  - (* raw coupon *)
    unfold u_coupon. cbn [u_gadget u_lgmax]. rewrite sk_update_impl by now apply cok_nz.
    destruct (ginv_updates lgmax lg C g [c] Hg) as (g' & E & Hg'); [now constructor|discriminate|].
    cbn [ofold] in E. destruct (impl_update g c) as [g1|]; [|discriminate]. inversion E; subst. exists g'. auto.
  - (* estimate accessor *)
    unfold u_estimate. cbn [u_gadget]. destruct g as [l|s|h]; try (eexists; split; [reflexivity|exact Hg]).
    destruct Hg as (HC & H4 & Hle & H21 & Hok & Hm & Hnn). cbn [cmode_ok] in Hok. specialize (Hnn eq_refl).
    destruct Hok as [R8 Hk Hr Hn He].
    destruct (check_rebuild_facts h R8) as (h' & Ec & Eb & Ek & Et & Ef & Eo & Hn' & Hfl & Hsame & Hnz); [now rewrite Hk|].
    rewrite Ec. exists (IHll h'). split; [reflexivity|].
    split; [exact HC|]. split; [exact H4|]. split; [exact Hle|]. split; [exact H21|]. split; [|split; [exact Hm|auto]].
    cbn [cmode_ok]. destruct (h_rebuild h) eqn:Erb.
    + destruct R8 as [Ht Hl]. split.
      * split; [congruence|]. now rewrite Eb, Ek.
      * congruence.
      * congruence.
      * now rewrite <- Hk.
      * rewrite <- Hk. apply Hnz; [reflexivity|].
        destruct C as [|c0 C0]; [congruence|]. inversion HC as [|? ? Hc0 _]; subst.
        destruct (nonzero_reg (h_lgk h) (c0 :: C0) c0 Hc0 (or_introl eq_refl)) as (x & Hx & Hxz).
        exists x. rewrite Hr. auto.
    + rewrite (Hsame eq_refl). split; auto.
  - eexists. split; [reflexivity|exact Hg].
  - (* reset *)
    eexists. split; [reflexivity|]. cbn [u_reset v_reset_max repaired u_lgmax u_set u_gadget].
    destruct Hg as (_ & H4 & Hle & H21 & _). apply (ginv_new lgmax); lia.
Qed.

Theorem run_ok lgmax : forall ops lg C g, ginv lgmax lg C g -> Forall hop_ok ops ->
  exists g', u_run repaired {| u_lgmax := lgmax; u_gadget := g |} (map op_of ops) = Some {| u_lgmax := lgmax; u_gadget := g' |} /\
             ginv lgmax (snd (eff_from lgmax (C, lg) ops)) (fst (eff_from lgmax (C, lg) ops)) g'.
Proof.
  unfold u_run, eff_from. induction ops as [|o t IH]; intros lg C g Hg Hops; cbn [map ofold fold_left].
  - exists g. auto.
  - inversion Hops as [|? ? Ho Ht]; subst.
    destruct (step_ok lgmax lg C g o Hg Ho) as (g1 & E & Hg1). rewrite E.
    destruct (eff_step lgmax (C, lg) o) as [C1 lg1] eqn:Es. cbn [fst snd] in Hg1.
    apply IH; auto.
Qed.

(* ---------- what the invariant says about the observable result ---------- *)
(* register-level content of a sketch at its own lg_k *)
Definition sk_regs (i : impl) : option (list N) :=
  match i with
  | IHll h => hll_regs h
  | _ => Some (spec_regs (sk_lgk i) (impl_coupons i))
  end.

Record result_ok (lg : N) (C : list N) (g : impl) : Prop := {
  ro_lgk : sk_lgk g = lg;
  ro_regs : sk_regs g = Some (spec_regs lg C);
  ro_empty : sk_is_empty g = true <-> C = [];
  ro_coupons : is_hll g = false -> same_set (impl_coupons g) C }.

Lemma ginv_result lgmax lg C g : ginv lgmax lg C g -> result_ok lg C g.
Proof.
  intros Hg. pose proof Hg as (HC & H4 & Hle & H21 & Hok & Hm & Hnn).
  destruct (is_hll g) eqn:Em.
  - destruct g as [l|s|h]; try discriminate. cbn [cmode_ok] in Hok. split; cbn [sk_lgk sk_regs].
    + apply (gh_lgk _ _ _ Hok).
    + rewrite (hll_regs_8 _ (gh_8 _ _ _ Hok)). f_equal. apply (gh_regs _ _ _ Hok).
    + rewrite (ghll_not_empty _ _ _ Hok). split; [discriminate|]. intros E. now apply Hnn in E.
    + discriminate.
  - destruct (cmode_coupons _ _ _ HC Hok Em) as (HS & He).
    assert (Hk : sk_lgk g = lg).
    { destruct g as [l|s|h]; [| |discriminate]; cbn [cmode_ok sk_lgk] in *; [apply (lo_lgk _ _ _ (proj1 Hok))|apply (so_lgk _ _ _ (proj1 Hok))]. }
    split; auto.
    destruct g as [l|s|h]; [| |discriminate]; cbn [sk_regs]; rewrite Hk; f_equal; now apply spec_regs_same_set.
Qed.

Theorem union_run_ok lgmax ops : 4 <= lgmax -> lgmax <= 21 -> Forall hop_ok ops ->
  exists u, u_run repaired (u_new lgmax) (map op_of ops) = Some u /\ u_lgmax u = lgmax /\
            result_ok (snd (eff lgmax ops)) (fst (eff lgmax ops)) (u_gadget u).
Proof.
  intros H4 H21 Hops.
  destruct (run_ok lgmax ops lgmax [] (u_gadget (u_new lgmax)) (ginv_new lgmax H4 H21) Hops) as (g' & E & Hg').
  eexists. split; [exact E|]. split; [reflexivity|]. cbn [u_gadget]. eapply ginv_result. exact Hg'.
Qed.

(* get_result(HLL_8) of a reachable union: defined, same lg_k, same registers, same emptiness *)
Lemma result8_ok lgmax lg C g : ginv lgmax lg C g ->
  exists r, sk_copy_as T8 g = Some r /\ sk_lgk r = lg /\ sk_regs r = Some (spec_regs lg C) /\ (sk_is_empty r = true <-> C = []).
Proof.
  intros Hg. pose proof (ginv_result _ _ _ _ Hg) as [Rk Rr Re Rc]. pose proof Hg as (HC & H4 & Hle & H21 & Hok & Hm & Hnn).
  destruct g as [l|s|h]; cbn [sk_copy_as].
  - eexists. split; [reflexivity|]. repeat split; try apply Re; auto.
  - eexists. split; [reflexivity|]. repeat split; try apply Re; auto.
  - cbn [cmode_ok] in Hok. specialize (Hnn eq_refl).
    assert (Hrg : hll_regs h = Some (spec_regs lg C)).
    { rewrite (hll_regs_8 _ (gh_8 _ _ _ Hok)). f_equal. apply (gh_regs _ _ _ Hok). }
    destruct (copy_as8_ok lg C h Hrg (gh_lgk _ _ _ Hok) ltac:(lia) Hnn HC (fun _ _ => Hok)) as (d & Ed & Hd).
    + rewrite Ed. eexists. split; [reflexivity|]. cbn [sk_lgk sk_regs]. split; [apply (gh_lgk _ _ _ Hd)|]. split.
      * rewrite (hll_regs_8 _ (gh_8 _ _ _ Hd)). f_equal. apply (gh_regs _ _ _ Hd).
      * rewrite (ghll_not_empty _ _ _ Hd). split; [discriminate|]. intros E. now apply Hnn in E.
Qed.
