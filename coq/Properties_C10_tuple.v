(* Properties_C10_tuple.v — Tuple sketch images follow the documented layout (statements; proofs in TupleCodecProofs.v).
   compact_tuple_sketch: preamble longs | serial version 3 | family 9 | sketch type 1 | unused | flags | seed hash (u16)
   | [entry count u32, unused u32] | [theta u64] | (key u64, summary)*; ArrayOfDoublesCompactSketch: 1 | version 1 |
   family 9 | type 3 | flags | num values | seed hash | theta | [count u32, unused u32 | keys | value rows]. *)
From Coq Require Import NArith ZArith List Bool Arith Lia.
From DS Require Import Word RunnerLib TupleCodecDefs TupleCodecProofs.
Import ListNotations.
Local Open Scope N_scope.

(* bytes 0..7 *)
Theorem C10_tuple_preamble : forall sw s, firstn 8 (enc_t sw s) = [t_pre s; 3; 9; 1; 0; t_flags s] ++ u16 (t_sh s).
Proof. exact tuple_preamble. Qed.

(* preamble longs: 3 in estimation mode, 1 for an empty or single-entry sketch, else 2 *)
Theorem C10_tuple_preamble_longs : forall s,
  t_pre s = if (t_theta s <? MAXT) && negb (t_empty s) then 3 else if t_empty s || (t_n s =? 1) then 1 else 2.
Proof. reflexivity. Qed.

(* flags: bit 0 (big endian) clear, bit 1 (read only) and bit 3 (compact) set, bit 2 = empty, bit 4 = ordered *)
Theorem C10_tuple_flags : forall s,
  N.testbit (t_flags s) 0 = false /\ N.testbit (t_flags s) 1 = true /\ N.testbit (t_flags s) 2 = t_empty s /\
  N.testbit (t_flags s) 3 = true /\ N.testbit (t_flags s) 4 = t_ordered s /\ t_flags s < 32.
Proof. exact tuple_flag_bits. Qed.

(* bytes 8..15: the entry count and 4 unused bytes, when there is more than one preamble long *)
Theorem C10_tuple_count_field : forall sw s, (1 <? t_pre s) = true ->
  firstn 8 (skipn 8 (enc_t sw s)) = u32 (t_n s) ++ [0; 0; 0; 0].
Proof. exact tuple_count_field. Qed.

(* bytes 16..23: theta, in estimation mode *)
Theorem C10_tuple_theta_field : forall sw s, t_est s = true -> firstn 8 (skipn 16 (enc_t sw s)) = u64 (t_theta s).
Proof. exact tuple_theta_field. Qed.

(* the entries start right after the preamble longs: key (u64) then the summary, entry by entry *)
Theorem C10_tuple_entries_offset : forall sw s,
  skipn (N.to_nat (8 * t_pre s)) (enc_t sw s) = flat_map (enc_entry sw) (t_ents s).
Proof. exact tuple_entries_offset. Qed.

(* legacy images: serial version 1 and / or sketch type 5 with the same layout are read to the same sketch *)
Theorem C10_tuple_legacy_read : forall ver typ sw s rest, (ver = 3 \/ ver = 1) -> (typ = 1 \/ typ = 5) -> wf_t sw s ->
  firstn 4 (enc_tv ver typ sw s) = [t_pre s; ver; 9; typ] /\
  skipn 4 (enc_tv ver typ sw s) = skipn 4 (enc_t sw s) /\
  dec_t sw (t_sh s) (enc_tv ver typ sw s ++ rest) = Some (s, rest).
Proof. intros ver typ sw s rest Hv Ht H. split; [reflexivity|]. split; [reflexivity|]. now apply tuple_roundtrip. Qed.

(* ---- array of doubles ---- *)
Theorem C10_array_preamble : forall s,
  firstn 16 (enc_a s) = [1; 1; 9; 3; a_flags s; a_nv s] ++ u16 (a_sh s) ++ u64 (a_theta s).
Proof. exact array_preamble. Qed.

(* flags: bit 2 = empty, bit 3 = has entries, bit 4 = ordered *)
Theorem C10_array_flags : forall s, N.testbit (a_flags s) 2 = a_empty s /\ N.testbit (a_flags s) 3 = (0 <? a_n s) /\
  N.testbit (a_flags s) 4 = a_ordered s /\ a_flags s < 32.
Proof. exact array_flag_bits. Qed.

Theorem C10_array_without_entries : forall s, (0 <? a_n s) = false -> length (enc_a s) = 16%nat.
Proof. intros s H. unfold enc_a. rewrite H. reflexivity. Qed.

Theorem C10_array_count_field : forall s, (0 <? a_n s) = true -> firstn 8 (skipn 16 (enc_a s)) = u32 (a_n s) ++ [0; 0; 0; 0].
Proof. exact array_count_field. Qed.

(* all keys first (from byte 24), then all rows of values (from byte 24 + 8 n) *)
Theorem C10_array_keys_then_rows : forall s, (0 <? a_n s) = true ->
  skipn 24 (enc_a s) = flat_map (fun e => u64 (fst e)) (a_ents s) ++ flat_map (fun e => flat_map u64 (snd e)) (a_ents s) /\
  skipn (24 + 8 * length (a_ents s)) (enc_a s) = flat_map (fun e => flat_map u64 (snd e)) (a_ents s).
Proof. intros s H. split; [now apply array_keys_offset|now apply array_rows_offset]. Qed.

Print Assumptions C10_tuple_preamble.
Print Assumptions C10_tuple_preamble_longs.
Print Assumptions C10_tuple_flags.
Print Assumptions C10_tuple_count_field.
Print Assumptions C10_tuple_theta_field.
Print Assumptions C10_tuple_entries_offset.
Print Assumptions C10_tuple_legacy_read.
Print Assumptions C10_array_preamble.
Print Assumptions C10_array_flags.
Print Assumptions C10_array_without_entries.
Print Assumptions C10_array_count_field.
Print Assumptions C10_array_keys_then_rows.
