(* Regression_C09_kll.v — deserialize AS CODED before the repair fixes/09_kll_empty_flag.patch returned a fresh
   kll_sketch(k) for an empty image and dropped the IS_LEVEL_ZERO_SORTED flag that serialize() had written, so the
   restored sketch did not re-serialize to the same image (finding kll_empty_sorted_flag_not_restored):
   kll_sketch<int64_t> s(8); s.get_sorted_view(); serialize -> 02 01 0f 03 08 00 08 00; deserialize; serialize -> .. 01 .. *)
From Coq Require Import ZArith List Bool Lia.
From DS Require Import RunnerLib SortedView KllDefs KllProofs KllCodecDefs.
Import ListNotations.
Local Open Scope Z_scope.

(* the decoder as it was coded: an empty image gives kll_sketch(k) *)
Definition kll_dec_as_coded (kind : Z) (bytes : list Z) : option kll :=
  match kll_dec kind bytes with
  | Some s => if nn s =? 0 then Some (kll_new (kk s)) else Some s
  | None => None
  end.

Definition witness9 : kll := sort_level_zero (kll_new 8).     (* what get_sorted_view() leaves behind on an empty sketch *)

Theorem C09_kll_empty_flag_as_coded_refuted : exists s log, reach s log /\
  option_map (kll_enc 0) (kll_dec_as_coded 0 (kll_enc 0 s)) <> Some (kll_enc 0 s).
Proof.
  exists witness9, []. split.
  - apply reach_sort, reach_new. lia.
  - vm_compute. discriminate.
Qed.

Example witness9_images :
  kll_enc 0 witness9 = [2; 1; 15; 3; 8; 0; 8; 0] /\
  option_map (kll_enc 0) (kll_dec_as_coded 0 (kll_enc 0 witness9)) = Some [2; 1; 15; 1; 8; 0; 8; 0] /\
  option_map (kll_enc 0) (kll_dec 0 (kll_enc 0 witness9)) = Some [2; 1; 15; 3; 8; 0; 8; 0].
Proof. vm_compute. repeat split; reflexivity. Qed.

Print Assumptions C09_kll_empty_flag_as_coded_refuted.
