(* KllCodecProofs.v — the KLL image decodes to the sketch it was written from (KllCodecDefs.v). *)
From Coq Require Import ZArith List Bool Lia Permutation Sorted.
From DS Require Import RunnerLib SortedView KllDefs KllProofs KllSpace KllView KllTop KllCodecDefs.
Import ListNotations.
Local Open Scope Z_scope.

(* ===================== little endian ===================== *)
Lemma le_length n : forall x, length (le n x) = n.
Proof. induction n as [|n IH]; intro x; simpl; auto. Qed.

Lemma from_le_le n : forall x, 0 <= x < 256 ^ Z.of_nat n -> from_le (le n x) = x.
Proof.
  induction n as [|n IH]; intros x H.
  - simpl in *. lia.
  - rewrite Nat2Z.inj_succ, Z.pow_succ_r in H by lia. cbn [le from_le]. rewrite IH.
    + pose proof (Z.div_mod x 256 ltac:(lia)). lia.
    + split; [apply Z.div_pos; lia|apply Z.div_lt_upper_bound; lia].
Qed.

Lemma from_le_le_mod n : forall x, from_le (le n x) = x mod 256 ^ Z.of_nat n.
Proof.
  induction n as [|n IH]; intro x.
  - simpl. now rewrite Z.mod_1_r.
  - cbn [le from_le]. rewrite IH, Nat2Z.inj_succ, Z.pow_succ_r by lia.
    rewrite (Z.mul_comm 256), Z.rem_mul_r by lia. lia.
Qed.

Lemma take_app n (a b : list Z) : length a = n -> take n (a ++ b) = Some (a, b).
Proof.
  intro H. unfold take. rewrite app_length. replace (n <=? length a + length b)%nat with true by (symmetry; apply Nat.leb_le; lia).
  subst n. now rewrite firstn_app, Nat.sub_diag, firstn_all, skipn_app, Nat.sub_diag, skipn_all, app_nil_r.
Qed.

(* ===================== items ===================== *)
Definition item_ok (kind v : Z) : Prop := if kind =? 1 then Z.abs v < 2 ^ 53 else - 2 ^ 63 <= v < 2 ^ 63.

Lemma i64_roundtrip v : - 2 ^ 63 <= v < 2 ^ 63 -> dec_i64 (enc_i64 v) = v.
Proof.
  intro H. unfold dec_i64, enc_i64. rewrite from_le_le_mod. change (256 ^ Z.of_nat 8) with (2 ^ 64).
  destruct (Z.ltb_spec (v mod 2 ^ 64) (2 ^ 63)) as [L|G].
  - destruct (Z.lt_ge_cases v 0) as [N|P].
    + rewrite <- (Z.mod_add v 1 (2 ^ 64)) in L by lia. rewrite Z.mod_small in L; lia.
    + rewrite Z.mod_small; lia.
  - destruct (Z.lt_ge_cases v 0) as [N|P].
    + rewrite <- (Z.mod_add v 1 (2 ^ 64)) by lia. rewrite Z.mod_small; lia.
    + rewrite Z.mod_small in G; lia.
Qed.

(* binary64 pattern of an integer and back *)
Lemma dbl_int_bits v : v <> 0 -> Z.abs v < 2 ^ 53 -> dbl_int (dbl_bits v) = Some v /\ 0 <= dbl_bits v < 2 ^ 64.
Proof.
  intros NZ H. unfold dbl_bits. destruct (Z.eqb_spec v 0) as [|_]; [contradiction|].
  set (a := Z.abs v). assert (Ha : 1 <= a < 2 ^ 53) by (unfold a; lia).
  set (e := Z.log2 a). destruct (Z.log2_spec a ltac:(lia)) as [L1 L2]. fold e in L1, L2.
  assert (He : 0 <= e <= 52).
  { split; [apply Z.log2_nonneg|]. assert (e < 53); [|lia]. apply (Z.pow_lt_mono_r_iff 2); lia. }
  set (P := 2 ^ (52 - e)).
  assert (HP : 2 ^ e * P = 2 ^ 52). { unfold P. rewrite <- Z.pow_add_r by lia. f_equal. lia. }
  assert (P1 : 1 <= P) by (unfold P; pose proof (Z.pow_pos_nonneg 2 (52 - e)); lia).
  set (man := a * P - 2 ^ 52).
  assert (Hm : 0 <= man < 2 ^ 52). { unfold man. rewrite Z.pow_succ_r in L2 by lia. nia. }
  set (sg := if v <? 0 then 1 else 0).
  assert (ES : (if v <? 0 then 2 ^ 63 else 0) = sg * 2 ^ 63) by (unfold sg; destruct (v <? 0); lia).
  rewrite ES. set (U := sg * 2 ^ 63 + (e + 1023) * 2 ^ 52 + man).
  assert (Hsg : 0 <= sg <= 1) by (unfold sg; destruct (v <? 0); lia).
  assert (F1 : (U =? 0) = false) by (apply Z.eqb_neq; unfold U; nia).
  assert (F2 : U / 2 ^ 63 = sg).
  { symmetry. apply (Z.div_unique U (2 ^ 63) sg ((e + 1023) * 2 ^ 52 + man)); [nia|unfold U; lia]. }
  assert (F3 : U mod 2 ^ 63 = (e + 1023) * 2 ^ 52 + man).
  { symmetry. apply (Z.mod_unique U (2 ^ 63) sg); [nia|unfold U; lia]. }
  assert (F4 : ((e + 1023) * 2 ^ 52 + man) / 2 ^ 52 = e + 1023).
  { symmetry. apply (Z.div_unique _ (2 ^ 52) (e + 1023) man); lia. }
  assert (F5 : U mod 2 ^ 52 = man).
  { symmetry. apply (Z.mod_unique U (2 ^ 52) (sg * 2048 + e + 1023)); [lia|unfold U; lia]. }
  split; [|unfold U; nia].
  unfold dbl_int. rewrite F1. cbv zeta. rewrite F2, F3, F4, F5.
  replace (e + 1023 - 1023) with e by lia.
  replace ((e <? 0) || (52 <? e)) with false by (symmetry; apply orb_false_iff; split; apply Z.ltb_ge; lia).
  fold P. replace (2 ^ 52 + man) with (a * P) by (unfold man; lia).
  rewrite Z.mod_mul, Z.div_mul by lia. cbn [Z.eqb].
  f_equal. unfold sg, a. destruct (Z.ltb_spec v 0); simpl Z.eqb; cbv iota; lia.
Qed.

Lemma item_roundtrip kind v : item_ok kind v -> length (item_enc kind v) = 8%nat /\ item_dec kind (item_enc kind v) = Some v.
Proof.
  unfold item_ok, item_enc, item_dec. destruct (kind =? 1).
  - intro H. split; [apply le_length|]. destruct (Z.eq_dec v 0) as [->|NZ]; [reflexivity|].
    destruct (dbl_int_bits v NZ H) as [A B]. rewrite from_le_le by (change (256 ^ Z.of_nat 8) with (2 ^ 64); exact B). exact A.
  - intro H. split; [apply le_length|]. now rewrite i64_roundtrip.
Qed.

Lemma take_items_enc kind : forall vs rest, Forall (item_ok kind) vs ->
  take_items kind (length vs) (flat_map (item_enc kind) vs ++ rest) = Some (vs, rest).
Proof.
  induction vs as [|v vs IH]; intros rest H; [reflexivity|].
  inversion H; subst. destruct (item_roundtrip kind v H2) as [L D].
  cbn [length flat_map take_items]. rewrite <- app_assoc, (take_app 8 _ _ L), D, IH by assumption. reflexivity.
Qed.

Lemma take_u32s_enc : forall offs rest, Forall (fun x => 0 <= x < 2 ^ 32) offs ->
  take_u32s (length offs) (flat_map (le 4) offs ++ rest) = Some (offs, rest).
Proof.
  induction offs as [|x offs IH]; intros rest H; [reflexivity|].
  inversion H; subst. cbn [length flat_map take_u32s]. rewrite <- app_assoc, (take_app 4 _ _ (le_length 4 x)), IH by assumption.
  rewrite from_le_le by (change (256 ^ Z.of_nat 4) with (2 ^ 32); assumption). reflexivity.
Qed.

(* ===================== level offsets ===================== *)
Lemma offsets_length cp lv : length (offsets cp lv) = length lv.
Proof. induction lv; simpl; auto. Qed.

Lemma diffs_offsets cp : forall lv, diffs (offsets cp lv) cp = map len lv.
Proof.
  induction lv as [|l r IH]; [reflexivity|]. cbn [offsets diffs map]. rewrite IH. f_equal.
  destruct r as [|l2 r2]; cbn [offsets]; rewrite !retained_cons; cbn [retained fold_right]; lia.
Qed.

Lemma firstn_app_exact {A} (l r : list A) : firstn (length l) (l ++ r) = l.
Proof. induction l; simpl; [now destruct r|now f_equal]. Qed.
Lemma skipn_app_exact {A} (l r : list A) : skipn (length l) (l ++ r) = r.
Proof. induction l; simpl; auto. Qed.

Lemma split_levels_concat : forall lv, split_levels (map len lv) (concat lv) = lv.
Proof.
  induction lv as [|l r IH]; [reflexivity|]. cbn [map split_levels concat].
  assert (E : Z.to_nat (len l) = length l) by (unfold len; apply Nat2Z.id). rewrite !E.
  now rewrite firstn_app_exact, skipn_app_exact, IH.
Qed.

Lemma offsets_range cp : forall lv, retained lv <= cp -> Forall (fun x => 0 <= x <= cp) (offsets cp lv).
Proof.
  induction lv as [|l r IH]; intro H; [constructor|]. cbn [offsets]. pose proof (retained_nonneg (l :: r)).
  constructor; [lia|]. apply IH. rewrite retained_cons in H. pose proof (len_nonneg l). lia.
Qed.

(* ===================== round trip ===================== *)
(* the values fit the fields of the image (the implementation's integer widths; overflow is not modelled) *)
Record Fits (kind : Z) (s : kll) : Prop := mkFits {
  f_k : 8 <= kk s <= 65535;
  f_mk : 0 <= min_k s < 65536;
  f_n : 0 <= nn s < 2 ^ 64;
  f_nl : (length (levels s) < 256)%nat;
  f_cap : cap s < 2 ^ 32;
  f_items : Forall (item_ok kind) (concat (levels s));
  f_mm : item_ok kind (mn s) /\ item_ok kind (mx s)
}.

Lemma k_bytes k : 0 <= k < 65536 -> k mod 256 + 256 * (k / 256 mod 256) = k.
Proof. intro H. rewrite (Z.mod_small (k / 256)) by (split; [apply Z.div_pos; lia|apply Z.div_lt_upper_bound; lia]).
  pose proof (Z.div_mod k 256 ltac:(lia)). lia. Qed.

Lemma forallb_len_nonneg (lv : list (list Z)) : forallb (fun d => 0 <=? d) (map len lv) = true.
Proof. induction lv as [|l r IH]; [reflexivity|]. cbn [map forallb]. rewrite IH, andb_true_r. apply Z.leb_le, len_nonneg. Qed.

Lemma hd_offsets cp lv : lv <> [] -> hd 0 (offsets cp lv) = cp - retained lv.
Proof. destruct lv; [congruence|reflexivity]. Qed.

Theorem dec_enc_full kind s : Inv s -> Space s -> Fits kind s -> 2 <= nn s -> kll_dec kind (kll_enc kind s) = Some s.
Proof.
  intros I Sp [Fk Fmk Fn Fnl Fcap Fit [Fmn Fmx]] N2.
  pose proof (i_ne s I) as NE. pose proof (i_cap s I) as CAP. unfold Space, num_retained in Sp.
  unfold kll_enc.
  replace (nn s =? 0) with false by (symmetry; apply Z.eqb_neq; lia).
  replace (nn s =? 1) with false by (symmetry; apply Z.eqb_neq; lia).
  cbn [orb]. rewrite <- !app_assoc.
  set (A := le 8 (nn s)). set (B := le 2 (min_k s)).
  set (C := flat_map (le 4) (offsets (cap s) (levels s))).
  set (F := flat_map (item_enc kind) (concat (levels s))).
  set (R := A ++ B ++ [len (levels s); 0] ++ C ++ item_enc kind (mn s) ++ item_enc kind (mx s) ++ F).
  assert (LR : (12 <= length R)%nat) by (unfold R, A, B; rewrite !app_length, !le_length; simpl; lia).
  assert (FL : flags_of s = if l0s s then 2 else 0).
  { unfold flags_of. replace (nn s =? 0) with false by (symmetry; apply Z.eqb_neq; lia).
    replace (nn s =? 1) with false by (symmetry; apply Z.eqb_neq; lia). destruct (l0s s); reflexivity. }
  cbn [le app]. unfold kll_dec. rewrite (k_bytes (kk s)) by lia. rewrite FL.
  assert (B0 : bit (if l0s s then 2 else 0) 0 = false) by (destruct (l0s s); reflexivity).
  assert (B1 : bit (if l0s s then 2 else 0) 1 = l0s s) by (destruct (l0s s); reflexivity).
  assert (B2 : bit (if l0s s then 2 else 0) 2 = false) by (destruct (l0s s); reflexivity).
  rewrite B0, B1, B2. cbn [orb negb Z.eqb Pos.eqb].
  replace (len (5 :: 1 :: 15 :: (if l0s s then 2 else 0) :: kk s mod 256 :: kk s / 256 mod 256 :: 8 :: 0 :: R) <? 5 * 4) with false
    by (symmetry; apply Z.ltb_ge; unfold len; cbn [length]; lia).
  unfold R at 1. rewrite (take_app 8 A _ (le_length 8 _)), (take_app 2 B _ (le_length 2 _)). cbn [app].
  replace (len (levels s) =? 0) with false
    by (symmetry; apply Z.eqb_neq; unfold len; destruct (levels s); [congruence|simpl; lia]).
  assert (NL : Z.to_nat (len (levels s)) = length (offsets (cap s) (levels s))) by (rewrite offsets_length; unfold len; apply Nat2Z.id).
  rewrite NL. unfold C. rewrite take_u32s_enc.
  2:{ eapply Forall_impl; [|apply (offsets_range (cap s) (levels s) Sp)]. cbv beta. intros; lia. }
  rewrite offsets_length, <- CAP, diffs_offsets, forallb_len_nonneg, hd_offsets by assumption. cbn [negb orb].
  replace (cap s - retained (levels s) <? 0) with false by (symmetry; apply Z.ltb_ge; lia).
  replace (item_enc kind (mn s) ++ item_enc kind (mx s) ++ F) with (flat_map (item_enc kind) [mn s; mx s] ++ F)
    by (cbn [flat_map]; rewrite <- !app_assoc; reflexivity).
  assert (T2 : take_items kind 2 (flat_map (item_enc kind) [mn s; mx s] ++ F) = Some ([mn s; mx s], F))
    by (apply (take_items_enc kind [mn s; mx s] F); repeat constructor; assumption).
  rewrite T2.
  replace (Z.to_nat (cap s - (cap s - retained (levels s)))) with (length (concat (levels s)))
    by (rewrite retained_concat; unfold len; lia).
  unfold F. rewrite <- (app_nil_r (flat_map (item_enc kind) (concat (levels s)))), take_items_enc by assumption.
  rewrite split_levels_concat. unfold A, B. rewrite !from_le_le.
  - destruct s; reflexivity.
  - change (256 ^ Z.of_nat 8) with (2 ^ 64). lia.
  - change (256 ^ Z.of_nat 2) with 65536. lia.
Qed.

Theorem dec_enc_empty kind s : 8 <= kk s <= 65535 -> nn s = 0 ->
  kll_dec kind (kll_enc kind s) = Some (mkkll (kk s) (kk s) 0 (kk s) [[]] (l0s s) 0 0).
Proof.
  intros Fk N0. unfold kll_enc. rewrite N0. cbn [Z.eqb orb le app]. unfold kll_dec. rewrite (k_bytes (kk s)) by lia.
  assert (FL : flags_of s = if l0s s then 3 else 1) by (unfold flags_of; rewrite N0; destruct (l0s s); reflexivity).
  rewrite FL. assert (B0 : bit (if l0s s then 3 else 1) 0 = true) by (destruct (l0s s); reflexivity).
  assert (B1 : bit (if l0s s then 3 else 1) 1 = l0s s) by (destruct (l0s s); reflexivity).
  rewrite B0, B1. cbn [orb negb Z.eqb Pos.eqb].
  replace (len [2; 1; 15; if l0s s then 3 else 1; kk s mod 256; kk s / 256 mod 256; 8; 0] <? 2 * 4) with false by reflexivity.
  replace ((8 <=? kk s) && (kk s <=? 65535)) with true by (symmetry; apply andb_true_iff; split; apply Z.leb_le; lia).
  reflexivity.
Qed.

(* every reachable empty sketch is a fresh sketch, possibly with level zero flagged sorted *)
Lemma reach_empty_shape s log : reach s log -> nn s = 0 ->
  8 <= kk s <= 65535 /\ s = mkkll (kk s) (kk s) 0 (kk s) [[]] (l0s s) 0 0.
Proof.
  induction 1 as [k Hk|s log x s' R IH L|s l1 o l2 s' R1 IH1 R2 IH2 L|s log R IH]; intro N0.
  - split; [exact Hk|reflexivity].
  - exfalso. pose proof (r_n _ _ (reach_Rel _ _ (reach_update _ _ _ _ R L))) as E.
    rewrite len_app, len_cons, len_nil in E. pose proof (len_nonneg log). lia.
  - pose proof (r_n _ _ (reach_Rel _ _ (reach_merge _ _ _ _ _ R1 R2 L))) as E. rewrite len_app in E.
    pose proof (r_n _ _ (reach_Rel _ _ R1)) as E1. pose proof (r_n _ _ (reach_Rel _ _ R2)) as E2.
    pose proof (len_nonneg l1). pose proof (len_nonneg l2).
    assert (No : nn o = 0) by lia. unfold merge in L. rewrite No in L. cbn [Z.eqb] in L. apply leaf_ret_inv in L. subst s'.
    apply IH1. lia.
  - assert (N : nn s = 0) by (unfold sort_level_zero in N0; destruct (l0s s); exact N0).
    destruct (IH N) as [Hk E]. split; [unfold sort_level_zero; destruct (l0s s); exact Hk|].
    rewrite E. unfold sort_level_zero. cbn [l0s]. destruct (l0s s); reflexivity.
Qed.

Theorem reach_roundtrip_empty kind s log : reach s log -> nn s = 0 -> kll_dec kind (kll_enc kind s) = Some s.
Proof.
  intros R N0. destruct (reach_empty_shape s log R N0) as [Hk E]. rewrite (dec_enc_empty kind s Hk N0). now rewrite <- E.
Qed.

Theorem dec_enc_single kind s v : 8 <= kk s <= 65535 -> nn s = 1 -> levels s = [[v]] -> item_ok kind v ->
  cap s = total_capacity (kk s) 1 ->
  kll_dec kind (kll_enc kind s) = Some (mkkll (kk s) (kk s) 1 (cap s) [[v]] (l0s s) v v).
Proof.
  intros Fk N1 LV OK CAP. unfold kll_enc. rewrite N1, LV. cbn [Z.eqb Pos.eqb orb le app concat flat_map]. unfold kll_dec.
  rewrite (k_bytes (kk s)) by lia.
  assert (FL : flags_of s = if l0s s then 6 else 4) by (unfold flags_of; rewrite N1; destruct (l0s s); reflexivity).
  rewrite FL.
  assert (B0 : bit (if l0s s then 6 else 4) 0 = false) by (destruct (l0s s); reflexivity).
  assert (B1 : bit (if l0s s then 6 else 4) 1 = l0s s) by (destruct (l0s s); reflexivity).
  assert (B2 : bit (if l0s s then 6 else 4) 2 = true) by (destruct (l0s s); reflexivity).
  rewrite B0, B1, B2. cbn [orb negb Z.eqb Pos.eqb]. rewrite !app_nil_r.
  destruct (item_roundtrip kind v OK) as [L D].
  replace (len (2 :: 2 :: 15 :: (if l0s s then 6 else 4) :: kk s mod 256 :: kk s / 256 mod 256 :: 8 :: 0 :: item_enc kind v) <? 2 * 4)
    with false by (symmetry; apply Z.ltb_ge; unfold len; cbn [length]; lia).
  pose proof (take_items_enc kind [v] [] ltac:(repeat constructor; exact OK)) as T1.
  cbn [length flat_map] in T1. rewrite !app_nil_r in T1. rewrite T1, CAP. reflexivity.
Qed.

(* the image of every reachable sketch with at least two items decodes to exactly that sketch
   (hence re-serializes to the same bytes and behaves identically from then on) *)
Theorem reach_roundtrip kind s log : reach s log -> Fits kind s -> 2 <= nn s -> kll_dec kind (kll_enc kind s) = Some s.
Proof. intros R F N. apply dec_enc_full; auto. - eapply r_inv, reach_Rel; eauto. - eapply reach_Space; eauto. Qed.

(* the advertised size (get_serialized_size_bytes for arithmetic items) *)
Lemma flat_map_len8 kind (l : list Z) : length (flat_map (item_enc kind) l) = (8 * length l)%nat.
Proof.
  induction l as [|x l IH]; [reflexivity|]. cbn [flat_map length]. rewrite app_length, IH.
  unfold item_enc, enc_i64. destruct (kind =? 1); rewrite le_length; lia.
Qed.

Theorem enc_size kind s : len (kll_enc kind s) =
  if nn s =? 0 then 8 else if nn s =? 1 then 8 + 8 * num_retained s
  else 20 + 4 * len (levels s) + 8 * (num_retained s + 2).
Proof.
  unfold kll_enc, num_retained. rewrite retained_concat.
  destruct (nn s =? 0); [reflexivity|]. destruct (nn s =? 1); cbn [orb]; unfold len; rewrite !app_length; cbn [length app].
  - rewrite !le_length, flat_map_len8. lia.
  - rewrite ?app_length, !le_length, flat_map_len8. cbn [length].
    assert (E : length (flat_map (le 4) (offsets (cap s) (levels s))) = (4 * length (levels s))%nat).
    { rewrite <- (offsets_length (cap s) (levels s)). induction (offsets (cap s) (levels s)) as [|x l IH]; [reflexivity|].
      cbn [flat_map length]. rewrite app_length, le_length, IH. lia. }
    rewrite E. unfold item_enc, enc_i64. destruct (kind =? 1); rewrite !le_length; lia.
Qed.

(* single item (serial version 2): a reachable sketch with n = 1 is one level holding one item (KllTop.reach_single_shape) *)
Theorem reach_roundtrip_single kind s log : reach s log -> Fits kind s -> nn s = 1 -> kll_dec kind (kll_enc kind s) = Some s.
Proof.
  intros R [Fk Fmk Fn Fnl Fcap Fit [Fmn Fmx]] N1.
  destruct (reach_single_shape s log R N1) as (v & LV & Mn & Mx & MK).
  pose proof (i_cap s (r_inv _ _ (reach_Rel _ _ R))) as CAP. rewrite LV in CAP. cbn [length] in CAP.
  rewrite (dec_enc_single kind s v Fk N1 LV) by (try assumption; rewrite <- Mn; exact Fmn).
  f_equal. destruct s; cbn in *; subst; reflexivity.
Qed.

(* every reachable sketch, whatever its size *)
Theorem reach_roundtrip_all kind s log : reach s log -> Fits kind s -> kll_dec kind (kll_enc kind s) = Some s.
Proof.
  intros R F. pose proof (r_n _ _ (reach_Rel _ _ R)) as N. pose proof (len_nonneg log).
  destruct (Z.eq_dec (nn s) 0) as [N0|N0]; [now apply (reach_roundtrip_empty kind s log)|].
  destruct (Z.eq_dec (nn s) 1) as [N1|N1]; [now apply (reach_roundtrip_single kind s log)|].
  apply (reach_roundtrip kind s log); auto. lia.
Qed.
