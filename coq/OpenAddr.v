(* OpenAddr.v — generic open addressing over a table of [sz] slots with an arbitrary probe
   sequence [probe key 0, probe key 1, ...] that is injective on [0, sz) (Part 1 shows that
   i, i+s, i+2s, ... mod 2^n is such a sequence for every odd stride s).
   Slots are [option (key * payload)]; [None] is the empty slot (key 0 in the C++ tables).
   Main results:  find_present / find_absent (with >= 1 empty slot, [find] returns the key's slot iff
   the key is stored, else the first empty slot of its probe sequence; the fuel [sz] — the code's
   "came back to loop_index" — is never exhausted), insert_preserves, update_preserves, rehash_spec. *)
From Coq Require Import NArith ZArith List Lia Bool Permutation Znumtheory Zpow_facts Arith.
Import ListNotations.

(* ------------------------------------------------------------------------------------------ *)
(** * 1. Probe injectivity for odd strides modulo 2^n *)

Section ProbeArith.
Local Open Scope Z_scope.

Lemma odd_rel_prime_pow2 s n : 0 <= n -> Z.odd s = true -> rel_prime s (2 ^ n).
Proof.
  intros Hn Hs. apply rel_prime_Zpower_r; [lia|]. apply rel_prime_sym.
  apply prime_rel_prime; [exact prime_2|]. intros [q Hq]. subst s.
  rewrite Z.odd_mul in Hs. cbn in Hs. rewrite Bool.andb_false_r in Hs. discriminate.
Qed.

Lemma probe_inj_Z h s n j1 j2 : 0 <= n -> Z.odd s = true -> 0 <= j1 < 2^n -> 0 <= j2 < 2^n ->
  (h + j1 * s) mod 2^n = (h + j2 * s) mod 2^n -> j1 = j2.
Proof.
  intros Hn Hs H1 H2 Heq. assert (Hp : 0 < 2^n) by (apply Z.pow_pos_nonneg; lia).
  assert (Hdiv : (2^n | (j1 - j2) * s)).
  { apply Z.mod_divide; [lia|]. replace ((j1 - j2) * s) with ((h + j1 * s) - (h + j2 * s)) by ring.
    rewrite Zminus_mod, Heq, Z.sub_diag. apply Z.mod_0_l. lia. }
  rewrite Z.mul_comm in Hdiv. apply Gauss in Hdiv; [|apply rel_prime_sym, odd_rel_prime_pow2; auto].
  destruct Hdiv as [q Hq]. assert (q = 0) by nia. subst q. lia.
Qed.
End ProbeArith.

(* slot visited at step j when starting at [home] with stride [stride] in a table of 2^lg slots *)
Definition probe_idx (lg home stride : N) (j : nat) : nat :=
  N.to_nat ((home + N.of_nat j * stride) mod 2 ^ lg)%N.

Lemma pow2_N_pos lg : (0 < 2 ^ lg)%N.
Proof. apply N.neq_0_lt_0, N.pow_nonzero. discriminate. Qed.

Lemma probe_idx_lt lg home stride j : (probe_idx lg home stride j < N.to_nat (2 ^ lg))%nat.
Proof.
  unfold probe_idx. pose proof (pow2_N_pos lg).
  assert ((home + N.of_nat j * stride) mod 2 ^ lg < 2 ^ lg)%N by (apply N.mod_lt; lia). lia.
Qed.

Lemma N_odd_Z s : N.odd s = true -> Z.odd (Z.of_N s) = true.
Proof. destruct s as [|[p|p|]]; simpl; auto. Qed.

Lemma probe_idx_inj lg home stride j1 j2 : N.odd stride = true ->
  (j1 < N.to_nat (2 ^ lg))%nat -> (j2 < N.to_nat (2 ^ lg))%nat ->
  probe_idx lg home stride j1 = probe_idx lg home stride j2 -> j1 = j2.
Proof.
  intros Hs H1 H2 Heq. unfold probe_idx in Heq. apply N2Nat.inj in Heq.
  apply (f_equal Z.of_N) in Heq.
  rewrite !N2Z.inj_mod, !N2Z.inj_add, !N2Z.inj_mul, !N2Z.inj_pow, !nat_N_Z in Heq.
  assert (E : Z.of_nat j1 = Z.of_nat j2).
  { apply (probe_inj_Z (Z.of_N home) (Z.of_N stride) (Z.of_N lg)); auto using N_odd_Z; lia. }
  lia.
Qed.

(* ------------------------------------------------------------------------------------------ *)
(** * 2. Tables *)

Section Table.
  Variable V : Type.                       (* payload attached to a key *)
  Definition slot : Type := option (N * V).
  Definition table : Type := list slot.

  Definition getk (t : table) (i : nat) : option N :=
    match nth i t None with Some (k, _) => Some k | None => None end.

  Fixpoint set_nth (i : nat) (x : slot) (t : table) : table :=
    match t with
    | [] => []
    | y :: r => match i with O => x :: r | S i' => y :: set_nth i' x r end
    end.

  (* the stored entries, in slot order *)
  Definition occupied (t : table) : list (N * V) :=
    flat_map (fun s : slot => match s with Some e => [e] | None => [] end) t.

  (* ---- list facts ---- *)
  Lemma set_nth_length i x t : length (set_nth i x t) = length t.
  Proof. revert i; induction t as [|y r IH]; intros [|i]; simpl; auto. Qed.

  Lemma nth_set_nth_eq i x t : (i < length t)%nat -> nth i (set_nth i x t) None = x.
  Proof. revert i; induction t as [|y r IH]; intros [|i] H; simpl in *; try lia; auto. apply IH; lia. Qed.

  Lemma nth_set_nth_neq i i' x t : i <> i' -> nth i' (set_nth i x t) None = nth i' t None.
  Proof. revert i i'; induction t as [|y r IH]; intros [|i] [|i'] H; simpl; auto; try congruence. Qed.

  Lemma getk_set_nth_eq i k v t : (i < length t)%nat -> getk (set_nth i (Some (k, v)) t) i = Some k.
  Proof. intros H. unfold getk. now rewrite nth_set_nth_eq. Qed.

  Lemma getk_set_nth_neq i i' x t : i <> i' -> getk (set_nth i x t) i' = getk t i'.
  Proof. intros H. unfold getk. now rewrite nth_set_nth_neq. Qed.

  Lemma occupied_app a b : occupied (a ++ b) = occupied a ++ occupied b.
  Proof. unfold occupied. apply flat_map_app. Qed.

  Lemma occupied_repeat_None n : occupied (repeat None n) = [].
  Proof. induction n; simpl; auto. Qed.

  Lemma occupied_length_le t : (length (occupied t) <= length t)%nat.
  Proof. induction t as [|[e|] r IH]; simpl; lia. Qed.

  (* writing into an empty slot adds exactly that entry *)
  Lemma occupied_set_nth_empty i e t : (i < length t)%nat -> nth i t None = None ->
    Permutation (occupied (set_nth i (Some e) t)) (e :: occupied t).
  Proof.
    revert i; induction t as [|y r IH]; intros [|i] Hl Hn; simpl in *; try lia.
    - subst y. simpl. apply Permutation_refl.
    - destruct y as [e'|]; simpl.
      + eapply perm_trans; [apply perm_skip, IH; auto; lia|]. apply perm_swap.
      + apply IH; auto; lia.
  Qed.

  (* overwriting an occupied slot replaces that entry in place *)
  Lemma occupied_set_nth_full i e e0 t : nth i t None = Some e0 ->
    exists a b, occupied t = a ++ e0 :: b /\ occupied (set_nth i (Some e) t) = a ++ e :: b.
  Proof.
    revert i; induction t as [|y r IH]; intros [|i] Hn; simpl in *; try discriminate.
    - subst y. exists [], (occupied r). simpl. auto.
    - destruct (IH _ Hn) as (a & b & H1 & H2). destruct y as [e'|]; simpl.
      + exists (e' :: a), b. simpl. now rewrite H1, H2.
      + exists a, b. auto.
  Qed.

  Lemma in_occupied_iff e t : In e (occupied t) <-> exists i, (i < length t)%nat /\ nth i t None = Some e.
  Proof.
    induction t as [|y r IH]; simpl.
    - split; [tauto|]. intros (i & H & _). lia.
    - rewrite in_app_iff, IH. split.
      + intros [H|(i & Hi & Hn)].
        * destruct y as [e'|]; simpl in H; [|tauto]. destruct H as [->|[]]. exists 0%nat. split; [lia|auto].
        * exists (S i). split; [lia|auto].
      + intros ([|i] & Hi & Hn).
        * subst y. left. simpl. auto.
        * right. exists i. split; [lia|auto].
  Qed.

  Lemma in_keys_iff k t : In k (map fst (occupied t)) <-> exists i, (i < length t)%nat /\ getk t i = Some k.
  Proof.
    rewrite in_map_iff. split.
    - intros ([k' v] & Hk & Hin). simpl in Hk. subst k'. apply in_occupied_iff in Hin.
      destruct Hin as (i & Hi & Hn). exists i. split; auto. unfold getk. now rewrite Hn.
    - intros (i & Hi & Hg). unfold getk in Hg. destruct (nth i t None) as [[k' v]|] eqn:E; [|discriminate].
      inversion Hg; subst k'. exists (k, v). split; auto. apply in_occupied_iff. eauto.
  Qed.

  (* fewer entries than slots: some slot is empty *)
  Lemma exists_empty t : (length (occupied t) < length t)%nat -> exists e, (e < length t)%nat /\ nth e t None = None.
  Proof.
    induction t as [|y r IH]; simpl; [lia|]. intros H. destruct y as [e'|]; simpl in H.
    - destruct IH as (e & He & Hn); [lia|]. exists (S e). split; [lia|auto].
    - exists 0%nat. split; [lia|auto].
  Qed.

  Variable sz : nat.
  Variable probe : N -> nat -> nat.

  (* the search loop of the C++ tables: stop at an empty slot (not found) or at the key (found);
     [fuel] bounds the number of slots visited; [None] = "key not found and no empty slots" *)
  Fixpoint find_from (t : table) (key : N) (j fuel : nat) : option (nat * bool) :=
    match fuel with
    | O => None
    | S f =>
      let i := probe key j in
      match nth i t None with
      | None => Some (i, false)
      | Some (k, _) => if N.eqb k key then Some (i, true) else find_from t key (S j) f
      end
    end.

  Definition find (t : table) (key : N) : option (nat * bool) := find_from t key 0 sz.

  (* store an entry at the slot [find] designates (as resize/rebuild do: the flag is not looked at) *)
  Definition put (t : table) (e : N * V) : table :=
    match find t (fst e) with
    | Some (i, _) => set_nth i (Some e) t
    | None => t
    end.

  Definition rehash (l : list (N * V)) : table := fold_left put l (repeat None sz).

  (* ---- the probing invariant ---- *)
  Hypothesis probe_lt : forall k j, (probe k j < sz)%nat.
  Hypothesis probe_inj : forall k j1 j2, (j1 < sz)%nat -> (j2 < sz)%nat -> probe k j1 = probe k j2 -> j1 = j2.

  (* slots probe key 0 .. probe key (j-1) are all occupied by other keys *)
  Definition path_busy (t : table) (key : N) (j : nat) : Prop :=
    forall j', (j' < j)%nat -> exists k', getk t (probe key j') = Some k' /\ k' <> key.

  (* every stored key is reachable from its home without crossing an empty slot *)
  Definition ProbeInv (t : table) : Prop :=
    length t = sz /\
    forall i k, (i < sz)%nat -> getk t i = Some k ->
      exists j, (j < sz)%nat /\ probe k j = i /\ path_busy t k j.

  Lemma ProbeInv_empty : ProbeInv (repeat None sz).
  Proof.
    split; [apply repeat_length|]. intros i k Hi Hg. exfalso. unfold getk in Hg.
    rewrite nth_repeat in Hg. discriminate.
  Qed.

  Lemma find_from_hit t key j0 fuel j :
    (j0 <= j)%nat -> (j < j0 + fuel)%nat ->
    (forall j', (j0 <= j' < j)%nat -> exists k', getk t (probe key j') = Some k' /\ k' <> key) ->
    forall b, (match nth (probe key j) t None with
               | None => b = false
               | Some (k, _) => k = key /\ b = true end) ->
    find_from t key j0 fuel = Some (probe key j, b).
  Proof.
    revert j0. induction fuel as [|f IH]; intros j0 Hle Hlt Hbusy b Hend; [lia|].
    simpl. destruct (Nat.eq_dec j0 j) as [->|Hne].
    - destruct (nth (probe key j) t None) as [[k v]|]; [|now subst b].
      destruct Hend as [-> ->]. now rewrite N.eqb_refl.
    - destruct (Hbusy j0) as (k' & Hg & Hk'); [lia|]. unfold getk in Hg.
      destruct (nth (probe key j0) t None) as [[k v]|]; [|discriminate]. inversion Hg; subst k'.
      destruct (N.eqb_spec k key); [contradiction|]. apply IH; auto; try lia.
      intros j' Hj'. apply Hbusy. lia.
  Qed.

  (* a stored key is found, in its own slot *)
  Theorem find_present t i k : ProbeInv t -> (i < sz)%nat -> getk t i = Some k -> find t k = Some (i, true).
  Proof.
    intros [Hlen Hinv] Hi Hg. destruct (Hinv i k Hi Hg) as (j & Hj & Hp & Hbusy).
    unfold find. rewrite <- Hp. apply find_from_hit; try lia.
    - intros j' Hj'. apply Hbusy. lia.
    - rewrite Hp. unfold getk in Hg. destruct (nth i t None) as [[k' v]|]; [|discriminate].
      inversion Hg. auto.
  Qed.

  (* stored keys are pairwise distinct (as slots) *)
  Corollary ProbeInv_slot_unique t i1 i2 k : ProbeInv t -> (i1 < sz)%nat -> (i2 < sz)%nat ->
    getk t i1 = Some k -> getk t i2 = Some k -> i1 = i2.
  Proof.
    intros H H1 H2 G1 G2. pose proof (find_present t i1 k H H1 G1) as F1.
    pose proof (find_present t i2 k H H2 G2) as F2. congruence.
  Qed.

  (* least witness below a bound, for a decidable predicate *)
  Lemma bounded_dec (P : nat -> Prop) (Pdec : forall j, {P j} + {~ P j}) n :
    {exists j, (j < n)%nat /\ P j} + {forall j, (j < n)%nat -> ~ P j}.
  Proof.
    induction n as [|n [IH|IH]].
    - right. intros; lia.
    - left. destruct IH as (j & Hj & HP). exists j; split; [lia|auto].
    - destruct (Pdec n) as [Pn|NPn].
      + left. exists n. split; [lia|auto].
      + right. intros j Hj. destruct (Nat.eq_dec j n); [subst; auto|apply IH; lia].
  Qed.

  Lemma least_witness (P : nat -> Prop) (Pdec : forall j, {P j} + {~ P j}) n :
    (exists j, (j < n)%nat /\ P j) -> exists j, (j < n)%nat /\ P j /\ forall j', (j' < j)%nat -> ~ P j'.
  Proof.
    induction n as [|n IH]; intros (j & Hj & HP); [lia|].
    destruct (bounded_dec P Pdec n) as [Hex|Hno].
    - destruct (IH Hex) as (j0 & Hj0 & HP0 & Hmin). exists j0. split; [lia|auto].
    - assert (j = n) by (destruct (Nat.eq_dec j n); auto; exfalso; apply (Hno j); auto; lia).
      subst j. exists n. split; [lia|]. split; auto.
  Qed.

  Lemma NoDup_map_inj_in {A B} (f : A -> B) (l : list A) :
    (forall x y, In x l -> In y l -> f x = f y -> x = y) -> NoDup l -> NoDup (map f l).
  Proof.
    induction l as [|a r IH]; intros Hinj Hnd; simpl; [constructor|].
    inversion Hnd; subst. constructor.
    - rewrite in_map_iff. intros (y & Hy & Hin). assert (y = a) by (apply Hinj; simpl; auto). subst y. contradiction.
    - apply IH; auto. intros x y Hx Hy. apply Hinj; simpl; auto.
  Qed.

  (* pigeonhole: the probe sequence of any key visits every slot within sz steps *)
  Lemma probe_surj key e : (e < sz)%nat -> exists j, (j < sz)%nat /\ probe key j = e.
  Proof.
    intros He.
    assert (Hnd : NoDup (map (probe key) (seq 0 sz))).
    { apply NoDup_map_inj_in; [|apply seq_NoDup]. intros x y Hx Hy. rewrite in_seq in Hx, Hy.
      apply probe_inj; lia. }
    assert (Hincl : incl (seq 0 sz) (map (probe key) (seq 0 sz))).
    { apply NoDup_length_incl; auto.
      - rewrite map_length. lia.
      - intros x Hx. rewrite in_map_iff in Hx. destruct Hx as (j & <- & _). rewrite in_seq.
        pose proof (probe_lt key j). lia. }
    assert (Hin : In e (seq 0 sz)) by (rewrite in_seq; lia).
    apply Hincl in Hin. rewrite in_map_iff in Hin. destruct Hin as (j & Hj & Hjin).
    rewrite in_seq in Hjin. exists j. split; [lia|auto].
  Qed.

  (* an absent key is reported absent, at the first empty slot of its probe sequence; the fuel is
     not exhausted (the "no empty slots" exception is unreachable) as soon as one slot is empty *)
  Theorem find_absent t key : ProbeInv t ->
    (exists e, (e < sz)%nat /\ nth e t None = None) ->
    (forall i, (i < sz)%nat -> getk t i <> Some key) ->
    exists j, (j < sz)%nat /\ find t key = Some (probe key j, false) /\
              nth (probe key j) t None = None /\ path_busy t key j.
  Proof.
    intros [Hlen Hinv] (e & He & Hemp) Habs.
    destruct (probe_surj key e He) as (j0 & Hj0 & Hp0).
    destruct (least_witness (fun j => nth (probe key j) t None = None)) with (n := sz)
      as (j & Hj & Hnone & Hmin).
    { intros j. destruct (nth (probe key j) t None); [right; discriminate|left; reflexivity]. }
    { exists j0. rewrite Hp0. auto. }
    assert (Hbusy : path_busy t key j).
    { intros j' Hj'. specialize (Hmin j' Hj'). unfold getk.
      destruct (nth (probe key j') t None) as [[k' v]|] eqn:E; [|contradiction].
      exists k'. split; auto. intros ->. apply (Habs (probe key j')); [apply probe_lt|].
      unfold getk. now rewrite E. }
    exists j. repeat split; auto.
    unfold find. apply find_from_hit; try lia.
    - intros j' Hj'. apply Hbusy. lia.
    - now rewrite Hnone.
  Qed.

  Lemma path_busy_transfer t t' k j :
    path_busy t k j -> (forall i k', getk t i = Some k' -> getk t' i = Some k') -> path_busy t' k j.
  Proof. intros Hb Hsame j' Hj'. destruct (Hb j' Hj') as (k' & Hg & Hne). exists k'. split; auto. Qed.

  (* writing a new key into the slot designated by [find] keeps the invariant *)
  Theorem insert_preserves t key v j : ProbeInv t -> (j < sz)%nat ->
    nth (probe key j) t None = None -> path_busy t key j ->
    ProbeInv (set_nth (probe key j) (Some (key, v)) t).
  Proof.
    intros [Hlen Hinv] Hj Hnone Hbusy. set (i := probe key j) in *.
    assert (Hi : (i < length t)%nat) by (rewrite Hlen; apply probe_lt).
    assert (Hsame : forall i' k', getk t i' = Some k' -> getk (set_nth i (Some (key, v)) t) i' = Some k').
    { intros i' k' Hg. destruct (Nat.eq_dec i i') as [<-|Hne].
      - unfold getk in Hg. rewrite Hnone in Hg. discriminate.
      - now rewrite getk_set_nth_neq. }
    split; [now rewrite set_nth_length|]. intros i' k Hi' Hg.
    destruct (Nat.eq_dec i i') as [<-|Hne].
    - rewrite getk_set_nth_eq in Hg by auto. inversion Hg; subst k.
      exists j. split; auto. split; auto. eapply path_busy_transfer; eauto.
    - rewrite getk_set_nth_neq in Hg by auto. destruct (Hinv i' k Hi' Hg) as (j1 & Hj1 & Hp1 & Hb1).
      exists j1. split; auto. split; auto. eapply path_busy_transfer; eauto.
  Qed.

  (* the invariant only depends on the keys: replacing payloads keeps it *)
  Theorem update_preserves t t' : length t' = length t -> (forall i, getk t' i = getk t i) ->
    ProbeInv t -> ProbeInv t'.
  Proof.
    intros Hl Hsame [Hlen Hinv]. split; [congruence|]. intros i k Hi Hg. rewrite Hsame in Hg.
    destruct (Hinv i k Hi Hg) as (j & Hj & Hp & Hb). exists j. split; auto. split; auto.
    eapply path_busy_transfer; eauto. intros i' k' Hg'. now rewrite Hsame.
  Qed.

  Lemma absent_slots t key : length t = sz -> ~ In key (map fst (occupied t)) ->
    forall i, (i < sz)%nat -> getk t i <> Some key.
  Proof. intros Hlen Hnin i Hi Hg. apply Hnin. apply in_keys_iff. exists i. split; [lia|auto]. Qed.

  (* [put] of an absent key into a table that is not full *)
  Theorem put_spec t e : ProbeInv t -> (length (occupied t) < sz)%nat ->
    ~ In (fst e) (map fst (occupied t)) ->
    ProbeInv (put t e) /\ Permutation (occupied (put t e)) (e :: occupied t).
  Proof.
    intros Hinv Hfew Hnin. pose proof Hinv as [Hlen _].
    destruct (find_absent t (fst e) Hinv) as (j & Hj & Hfind & Hnone & Hbusy).
    - rewrite <- Hlen in Hfew. destruct (exists_empty t Hfew) as (x & Hx & Hn). exists x. split; [lia|auto].
    - apply absent_slots; auto.
    - unfold put. rewrite Hfind. destruct e as [k v]. simpl in *. split.
      + apply insert_preserves; auto.
      + apply occupied_set_nth_empty; auto. pose proof (probe_lt k j) as Hp. rewrite <- Hlen in Hp. exact Hp.
  Qed.

  Lemma fold_put_spec l : forall t, ProbeInv t -> (length (occupied t) + length l < sz)%nat ->
    NoDup (map fst (occupied t) ++ map fst l) ->
    ProbeInv (fold_left put l t) /\ Permutation (occupied (fold_left put l t)) (occupied t ++ l).
  Proof.
    induction l as [|e r IH]; intros t Hinv Hlen Hnd; simpl.
    - rewrite app_nil_r. split; auto.
    - simpl in Hlen. assert (Hnin : ~ In (fst e) (map fst (occupied t))).
      { intros Hin. apply NoDup_remove_2 in Hnd. apply Hnd. apply in_or_app. auto. }
      destruct (put_spec t e Hinv) as [Hinv' Hperm]; auto; try lia.
      destruct (IH (put t e)) as [Hinv'' Hperm'']; auto.
      + apply Permutation_length in Hperm. simpl in Hperm. lia.
      + eapply Permutation_NoDup; [|exact Hnd]. symmetry.
        eapply perm_trans; [apply Permutation_app_tail, Permutation_map, Hperm|]. simpl. apply Permutation_middle.
      + split; auto. eapply perm_trans; [exact Hperm''|].
        eapply perm_trans; [apply Permutation_app_tail; exact Hperm|]. simpl. apply Permutation_middle.
  Qed.

  (* rebuilding a table from a duplicate-free list that leaves one slot free stores exactly that list *)
  Theorem rehash_spec l : NoDup (map fst l) -> (length l < sz)%nat ->
    ProbeInv (rehash l) /\ Permutation (occupied (rehash l)) l.
  Proof.
    intros Hnd Hlen. unfold rehash.
    destruct (fold_put_spec l (repeat None sz)) as [H1 H2].
    - apply ProbeInv_empty.
    - rewrite occupied_repeat_None. simpl. lia.
    - rewrite occupied_repeat_None. simpl. auto.
    - rewrite occupied_repeat_None in H2. simpl in H2. auto.
  Qed.
End Table.

Arguments getk {V}. Arguments set_nth {V}. Arguments occupied {V}. Arguments find_from {V}.
Arguments find {V}. Arguments put {V}. Arguments rehash {V}. Arguments ProbeInv {V}. Arguments path_busy {V}.
