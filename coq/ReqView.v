(* ReqView.v — iterator, get_rank, sorted view, CDF/PMF, quantiles and exactness of the REQ model. *)
From Coq Require Import ZArith List Bool Lia Permutation Sorted QArith.
From DS Require Import RunnerLib SortedView ReqDefs ReqProofs.
Import ListNotations.
Local Open Scope Z_scope.

(* ---------- Z with < is a strict weak order ---------- *)
Lemma rq_lt_irrefl : forall a, Z.ltb a a = false.
Proof. intro. apply Z.ltb_irrefl. Qed.
Lemma rq_lt_trans : forall a b c, Z.ltb a b = true -> Z.ltb b c = true -> Z.ltb a c = true.
Proof. intros a b c. rewrite !Z.ltb_lt. lia. Qed.
Lemma rq_le_trans : forall a b c, Z.ltb b a = false -> Z.ltb c b = false -> Z.ltb c a = false.
Proof. intros a b c. rewrite !Z.ltb_ge. lia. Qed.
Definition rq_swo : strict_weak Z.ltb := mk_strict_weak Z Z.ltb rq_lt_irrefl rq_lt_trans rq_le_trans.

Notation zsorted_e := (sorted_e Z Z.ltb).
Notation zsorted_t := (sorted_t Z Z.ltb).

Lemma ssorted_sorted_t l : ssorted l <-> zsorted_t l.
Proof.
  unfold sorted_t. split; induction 1; constructor; auto.
  - eapply Forall_impl; [|eassumption]. unfold le. intros b Hb. apply Z.ltb_ge. exact Hb.
  - eapply Forall_impl; [|eassumption]. unfold le. intros b Hb. apply Z.ltb_ge in Hb. exact Hb.
Qed.

(* ---------- the iterator ---------- *)
Definition iter_all (cs : list comp) : list (Z * Z) :=
  flat_map (fun c => map (fun x => (x, 2 ^ lgw c)) (items c)) cs.
Definition sum_weights (l : list (Z * Z)) : Z := fold_right (fun e a => snd e + a) 0 l.

Lemma sum_weights_app a b : sum_weights (a ++ b) = sum_weights a + sum_weights b.
Proof. unfold sum_weights. induction a as [|e a IH]; cbn [app fold_right]; lia. Qed.
Lemma sum_weights_const (l : list Z) w : sum_weights (map (fun x => (x, w)) l) = w * len l.
Proof.
  induction l as [|x l IH]; [cbn [map sum_weights fold_right]; change (len (@nil Z)) with 0; lia|].
  rewrite len_cons. cbn [map]. unfold sum_weights in *. cbn [fold_right snd]. rewrite IH. lia.
Qed.

Lemma iter_all_cons c r : iter_all (c :: r) = map (fun x => (x, 2 ^ lgw c)) (items c) ++ iter_all r.
Proof. reflexivity. Qed.

Lemma iter_all_len cs : len (iter_all cs) = sum_items cs.
Proof.
  induction cs as [|c r IH]; [reflexivity|]. rewrite iter_all_cons, len_app, IH, sum_items_cons.
  unfold nitems, len. rewrite map_length. reflexivity.
Qed.

Lemma iter_all_sum cs : sum_weights (iter_all cs) = Rs (fun _ => true) cs.
Proof.
  induction cs as [|c r IH]; [reflexivity|]. rewrite iter_all_cons, sum_weights_app, IH, Rs_cons, sum_weights_const.
  unfold Rc. rewrite cnt_true. reflexivity.
Qed.

Lemma iter_all_items cs : map fst (iter_all cs) = all_items cs.
Proof.
  induction cs as [|c r IH]; [reflexivity|]. rewrite iter_all_cons, map_app, IH, all_items_cons. f_equal.
  rewrite map_map. simpl. apply map_id.
Qed.

Lemma iter_all_in cs x w : In (x, w) (iter_all cs) <-> exists c, In c cs /\ In x (items c) /\ w = 2 ^ lgw c.
Proof.
  unfold iter_all. rewrite in_flat_map. split.
  - intros (c & Hc & H). apply in_map_iff in H as (y & E & Hy). inversion E; subst. eauto.
  - intros (c & Hc & Hx & ->). exists c. split; auto. apply in_map_iff. eauto.
Qed.

Lemma iter_levels_nonempty cs : Forall nonempty cs -> iter_levels cs = Some (iter_all cs).
Proof.
  induction 1 as [|c r Hc Hr IH]; [reflexivity|]. cbn [iter_levels]. unfold nonempty in Hc.
  destruct (items c) eqn:E; [congruence|]. rewrite IH, iter_all_cons, E. reflexivity.
Qed.

Lemma skip_empty_nonempty cs : Forall nonempty cs -> skip_empty cs = cs.
Proof. destruct 1 as [|c r Hc Hr]; [reflexivity|]. cbn [skip_empty]. unfold nonempty in Hc. destruct (items c); [congruence|reflexivity]. Qed.

(* the iterator (with the repaired constructor) lists every retained item with the weight of its compactor *)
Theorem iterate_spec s log : Rel s log -> iterate s = Some (iter_all (comps s)).
Proof.
  intros [I N Mi Ma Su NEs ONE]. unfold iterate.
  destruct (Z.eqb_spec (rn s) 0) as [Z0|Z0].
  - specialize (ONE Z0). destruct I as [_ _ LG _ _ W _ _ _].
    destruct (comps s) as [|c [|c1 r]]; try discriminate. cbn [lgw_from] in LG. destruct LG as (LG & _).
    rewrite Rs_cons in W. unfold Rc in W. cbn [Rs fold_right] in W. rewrite cnt_true, LG in W. change (2 ^ 0) with 1 in W.
    assert (E : items c = []) by (apply len_zero_nil; lia).
    cbn [skip_empty]. rewrite E. cbn [iter_levels iter_all flat_map]. rewrite E. reflexivity.
  - assert (P : 0 < rn s) by (pose proof (len_nonneg log); lia). specialize (NEs P).
    rewrite skip_empty_nonempty by assumption. now apply iter_levels_nonempty.
Qed.

(* ---------- get_rank ---------- *)
Definition below := SortedView.below Z Z.ltb.

Lemma cnt_ext p q l : (forall y, p y = q y) -> cnt p l = cnt q l.
Proof. intro H. induction l as [|x l IH]; [reflexivity|]. rewrite !cnt_cons, IH, H. reflexivity. Qed.

Lemma pos_scan_cnt (p : Z -> bool) : forall l, ssorted l -> (forall a b, p a = true -> a <= b -> p b = true) ->
  pos_scan p l = cnt (fun y => negb (p y)) l.
Proof.
  induction l as [|x l IH]; intros S U; [reflexivity|]. cbn [pos_scan]. rewrite cnt_cons.
  inversion S as [|? ? S' F]; subst. destruct (p x) eqn:E; cbn [negb].
  - assert (Z0 : cnt (fun y => negb (p y)) l = 0).
    { clear IH S S'. induction l as [|y l IHl]; [reflexivity|]. inversion F; subst. rewrite cnt_cons.
      rewrite (U x y E) by assumption. cbn [negb]. rewrite IHl; auto. }
    lia.
  - rewrite IH; auto.
Qed.

Lemma comp_weight_R c x incl : ssorted (items c) -> comp_weight c x incl = Rc (below x incl) c.
Proof.
  intro S. unfold comp_weight, Rc. rewrite Z.mul_comm. f_equal.
  destruct incl.
  - rewrite pos_scan_cnt; auto.
    intros a b Ha Hb. apply Z.ltb_lt in Ha. apply Z.ltb_lt. lia.
  - rewrite pos_scan_cnt; auto.
    + unfold below, SortedView.below. apply cnt_ext. intro y. now rewrite negb_involutive.
    + intros a b Ha Hb. apply negb_true_iff, Z.ltb_ge in Ha. apply negb_true_iff, Z.ltb_ge. lia.
Qed.

Lemma rank_w_R cs x incl : Forall (fun c => ssorted (items c)) cs ->
  fold_right (fun c a => comp_weight c x incl + a) 0 cs = Rs (below x incl) cs.
Proof. induction 1 as [|c r Hc Hr IH]; [reflexivity|]. cbn [fold_right]. rewrite IH, Rs_cons, comp_weight_R; auto. Qed.

(* ---------- sorted view ---------- *)
Definition all_sorted (cs : list comp) : Prop := Forall (fun c => ssorted (items c)) cs.

Lemma add_comps_perm : forall cs es, Permutation (add_comps es cs) (es ++ iter_all cs).
Proof.
  induction cs as [|c r IH]; intro es; cbn [add_comps]; [now rewrite app_nil_r|].
  rewrite IH, (sv_add_perm Z Z.ltb), iter_all_cons, app_assoc. reflexivity.
Qed.

Lemma add_comps_sorted : forall cs es, zsorted_e es -> all_sorted cs -> zsorted_e (add_comps es cs).
Proof.
  induction cs as [|c r IH]; intros es He Hs; cbn [add_comps]; auto.
  inversion Hs; subst. apply IH; auto.
  apply (sv_add_sorted Z Z.ltb rq_swo); auto. now apply ssorted_sorted_t.
Qed.

Definition view_entries (s : req) : list (entry Z) := add_comps [] (comps s).

Lemma view_entries_perm s : Permutation (view_entries s) (iter_all (comps s)).
Proof. unfold view_entries. now rewrite add_comps_perm. Qed.

Lemma view_entries_sorted s : all_sorted (comps s) -> zsorted_e (view_entries s).
Proof. intro H. apply add_comps_sorted; auto. constructor. Qed.

Lemma sv_total_sum_weights es : sv_total Z es = sum_weights es.
Proof. reflexivity. Qed.

Lemma view_total s : v_total (sorted_view s) = Rs (fun _ => true) (comps s).
Proof.
  unfold sorted_view. cbn [v_total sv_finish]. fold (view_entries s).
  rewrite (sv_total_perm Z _ _ (view_entries_perm s)), sv_total_sum_weights. apply iter_all_sum.
Qed.

Lemma iter_all_nonneg cs : weights_nonneg Z (iter_all cs).
Proof.
  unfold weights_nonneg. induction cs as [|c r IH]; [constructor|]. rewrite iter_all_cons. apply Forall_app. split; auto.
  rewrite Forall_map. apply Forall_forall. intros x _. cbn [snd]. apply Z.pow_nonneg. lia.
Qed.

Lemma view_weights_nonneg s : weights_nonneg Z (view_entries s).
Proof. unfold weights_nonneg. eapply Permutation_Forall; [symmetry; apply view_entries_perm|]. apply iter_all_nonneg. Qed.

Lemma svwsum_iter_all p : forall cs, SortedView.wsum Z p (iter_all cs) = Rs p cs.
Proof.
  induction cs as [|c r IH]; [reflexivity|]. rewrite iter_all_cons, (wsum_app Z), IH, Rs_cons. f_equal.
  unfold Rc. induction (items c) as [|x l IHl]; [rewrite cnt_nil; cbn; lia|].
  rewrite cnt_cons. cbn [map SortedView.wsum fold_right fst snd]. unfold SortedView.wsum in IHl. rewrite IHl.
  destruct (p x); lia.
Qed.

Theorem view_rank_is_R s x incl : all_sorted (comps s) ->
  rank_num Z Z.ltb (sorted_view s) x incl = Rs (below x incl) (comps s).
Proof.
  intro H. unfold sorted_view. fold (view_entries s).
  rewrite (rank_num_spec Z Z.ltb rq_swo) by now apply view_entries_sorted.
  rewrite (wsum_perm Z _ _ _ (view_entries_perm s)). apply svwsum_iter_all.
Qed.

Lemma view_items s : Permutation (map fst (v_entries (sorted_view s))) (all_items (comps s)).
Proof.
  unfold sorted_view. cbn [v_entries sv_finish]. rewrite (sv_cum_items Z). fold (view_entries s).
  rewrite <- iter_all_items. apply Permutation_map, view_entries_perm.
Qed.

(* ---------- queries are answered on the sketch with level 0 sorted ---------- *)
Definition qstate (s : req) : req := sort_level_zero s.
Definition qview (s : req) : view Z := sorted_view (qstate s).
Definition qrank (s : req) (x : Z) (incl : bool) : Z := rank_w (qstate s) x incl.     (* numerator of get_rank *)

Lemma q_Rel s log : Rel s log -> Rel (qstate s) log.
Proof. apply sort_level_zero_Rel. Qed.

Lemma q_all_sorted s log : Rel s log -> all_sorted (comps (qstate s)).
Proof.
  intros [I _ _ _ _ _ _]. destruct I as [_ NE _ _ _ _ S0 S1 _]. unfold qstate, sort_level_zero, set_comps; cbn [comps].
  destruct (comps s) as [|c r]; [congruence|]. cbn [upd_nth tl] in *. inversion S0 as [|? ? Sc Sr]; subst.
  destruct (csort_spec c) as (_ & _ & F3 & _). constructor; [now apply F3|].
  clear - Sr S1. induction r as [|c1 r IH]; [constructor|]. inversion Sr; subst. inversion S1; subst. constructor; auto.
Qed.

Lemma q_Rs p s : Inv s -> Rs p (comps (qstate s)) = Rs p (comps s).
Proof.
  intros [_ NE _ _ _ _ _ _ _]. unfold qstate, sort_level_zero, set_comps; cbn [comps].
  destruct (comps s) as [|c r]; [congruence|]. cbn [upd_nth]. rewrite !Rs_cons. f_equal.
  destruct (csort_spec c) as (F1 & _ & _ & F4 & _). unfold Rc. now rewrite F4, (cnt_perm _ _ _ F1).
Qed.

Lemma q_all_items s : Inv s -> Permutation (all_items (comps (qstate s))) (all_items (comps s)).
Proof.
  intros [_ NE _ _ _ _ _ _ _]. unfold qstate, sort_level_zero, set_comps; cbn [comps].
  destruct (comps s) as [|c r]; [congruence|]. cbn [upd_nth]. rewrite !all_items_cons.
  apply Permutation_app_tail. apply csort_spec.
Qed.

Lemma q_entries_sorted s log : Rel s log -> zsorted_e (view_entries (qstate s)).
Proof. intro R. apply view_entries_sorted. eapply q_all_sorted; eauto. Qed.

(* get_rank (sum over the compactors) = the level-weighted count of retained items below x *)
Theorem P_rank_is_estimator s log : Rel s log -> forall x incl, qrank s x incl = Rs (below x incl) (comps s).
Proof.
  intros R x incl. unfold qrank, rank_w. rewrite rank_w_R by (eapply q_all_sorted; eauto).
  apply q_Rs. apply R.
Qed.

(* CDF (sorted view) and get_rank (compactors) agree *)
Theorem P_view_rank_is_rank s log : Rel s log -> forall x incl, rank_num Z Z.ltb (qview s) x incl = qrank s x incl.
Proof.
  intros R x incl. unfold qview. rewrite view_rank_is_R by (eapply q_all_sorted; eauto).
  rewrite (P_rank_is_estimator s log R). apply q_Rs. apply R.
Qed.

Lemma Rs_mono p q cs : (forall y, p y = true -> q y = true) -> Rs p cs <= Rs q cs.
Proof.
  intro H. induction cs as [|c r IH]; [reflexivity|]. rewrite !Rs_cons. unfold Rc.
  pose proof (cnt_mono p q (items c) H). pose proof (Z.pow_nonneg 2 (lgw c) ltac:(lia)). nia.
Qed.

Lemma Rs_nonneg p cs : 0 <= Rs p cs.
Proof.
  induction cs as [|c r IH]; [reflexivity|]. rewrite Rs_cons. unfold Rc.
  pose proof (cnt_nonneg p (items c)). pose proof (Z.pow_nonneg 2 (lgw c) ltac:(lia)). nia.
Qed.

Theorem P_rank_monotone s log : Rel s log -> forall x y incl, x <= y -> qrank s x incl <= qrank s y incl.
Proof.
  intros R x y incl L. rewrite !(P_rank_is_estimator s log R). apply Rs_mono. intro z.
  unfold below, SortedView.below. destruct incl; rewrite ?negb_true_iff, ?Z.ltb_lt, ?Z.ltb_ge; lia.
Qed.

Theorem P_rank_incl_ge_excl s log : Rel s log -> forall x, qrank s x false <= qrank s x true.
Proof.
  intros R x. rewrite !(P_rank_is_estimator s log R). apply Rs_mono. intro z.
  unfold below, SortedView.below. rewrite ?negb_true_iff, ?Z.ltb_lt, ?Z.ltb_ge; lia.
Qed.

Theorem P_rank_bounds s log : Rel s log -> forall x incl, 0 <= qrank s x incl <= rn s.
Proof.
  intros R x incl. rewrite (P_rank_is_estimator s log R). split; [apply Rs_nonneg|].
  rewrite <- (i_w s (r_inv s log R)). apply Rs_mono. auto.
Qed.

Lemma q_entries_nonempty s log : Rel s log -> 0 < rn s -> view_entries (qstate s) <> [].
Proof.
  intros R P E. pose proof (r_inv s log R) as I.
  pose proof (view_total (qstate s)) as V. unfold sorted_view in V. fold (view_entries (qstate s)) in V. rewrite E in V.
  change (v_total (sv_finish Z [])) with 0 in V. rewrite q_Rs in V by assumption. rewrite (i_w s I) in V. lia.
Qed.

(* sorted view: ordered, total weight n, last cumulative weight n, a rearrangement of the retained items *)
Theorem P_view_spec s log : Rel s log -> forall d,
  zsorted_t (map fst (v_entries (qview s))) /\ v_total (qview s) = rn s /\
  (0 < rn s -> snd (last (v_entries (qview s)) d) = rn s) /\
  Permutation (map fst (v_entries (qview s))) (all_items (comps s)).
Proof.
  intros R d. pose proof (q_Rel s log R) as Rq. pose proof (r_inv s log R) as I.
  assert (T : v_total (qview s) = rn s).
  { unfold qview. rewrite view_total, q_Rs by assumption. apply (i_w s I). }
  splits.
  - unfold qview, sorted_view. apply (view_sorted Z Z.ltb). eapply q_entries_sorted; eauto.
  - exact T.
  - intro P. rewrite <- T. unfold qview, sorted_view. apply (view_last_is_total Z).
    fold (view_entries (qstate s)). eapply q_entries_nonempty; eauto.
  - unfold qview. rewrite view_items. now apply q_all_items.
Qed.

Theorem P_quantile_monotone s log : Rel s log -> forall w1 w2 incl q1 q2, w1 <= w2 ->
  quantile_w Z (qview s) w1 incl = Some q1 -> quantile_w Z (qview s) w2 incl = Some q2 -> q1 <= q2.
Proof.
  intros R w1 w2 incl q1 q2 Hw H1 H2.
  pose proof (quantile_monotone Z Z.ltb rq_swo (qview s) w1 w2 incl q1 q2) as H.
  unfold le in H. apply Z.ltb_ge. apply H; auto.
  unfold qview, sorted_view. cbn [v_entries sv_finish]. apply (sv_cum_sorted Z Z.ltb). eapply q_entries_sorted; eauto.
Qed.

Theorem P_quantile_incl_le_excl s log : Rel s log -> forall w q1 q2,
  quantile_w Z (qview s) w true = Some q1 -> quantile_w Z (qview s) w false = Some q2 -> q1 <= q2.
Proof.
  intros R w q1 q2 H1 H2.
  pose proof (quantile_incl_le_excl Z Z.ltb rq_swo (qview s) w q1 q2) as H.
  unfold le in H. apply Z.ltb_ge. apply H; auto.
  unfold qview, sorted_view. cbn [v_entries sv_finish]. apply (sv_cum_sorted Z Z.ltb). eapply q_entries_sorted; eauto.
Qed.

Theorem P_quantile_in_retained s log : Rel s log -> forall w incl q,
  quantile_w Z (qview s) w incl = Some q -> In q (all_items (comps s)).
Proof.
  intros R w incl q H. apply (quantile_in_view Z) in H.
  eapply Permutation_in; [|exact H]. apply (P_view_spec s log R (0, 0)).
Qed.

Theorem P_quantile_answers s log : Rel s log -> forall w incl, 0 < rn s -> exists q, quantile_w Z (qview s) w incl = Some q.
Proof.
  intros R w incl P. apply (quantile_nonempty_answers Z). intro E.
  apply (q_entries_nonempty s log R P). unfold qview, sorted_view in E. cbn [v_entries sv_finish] in E.
  fold (view_entries (qstate s)) in E. destruct (view_entries (qstate s)) as [|[a b] r]; [reflexivity|]. cbn in E. discriminate.
Qed.

Theorem P_cdf s log : Rel s log -> forall sp incl c, cdf_num Z Z.ltb (qview s) sp incl = Some c ->
  c = map (fun x => qrank s x incl) sp ++ [rn s] /\ StronglySorted Z.le (0 :: c).
Proof.
  intros R sp incl c H. destruct (P_view_spec s log R (0, 0)) as (_ & T & _ & _). split.
  - apply (cdf_is_rank Z Z.ltb) in H. rewrite T in H. rewrite H. f_equal. apply map_ext. intro x. apply (P_view_rank_is_rank s log R).
  - unfold qview, sorted_view in H |- *. eapply (cdf_monotone Z Z.ltb rq_swo); [| |exact H].
    + eapply q_entries_sorted; eauto.
    + apply view_weights_nonneg.
Qed.

Theorem P_pmf s log : Rel s log -> forall sp incl p, 0 < rn s -> pmf_num Z Z.ltb (qview s) sp incl = Some p ->
  Forall (fun z => 0 <= z) p /\
  (fold_right Qplus (inject_Z 0) (map (fun z => inject_Z z / inject_Z (rn s)) p) == inject_Z 1)%Q.
Proof.
  intros R sp incl p P H. destruct (P_view_spec s log R (0, 0)) as (_ & T & _ & _). split.
  - unfold qview, sorted_view in H. eapply (pmf_nonneg Z Z.ltb rq_swo); [| |exact H].
    + eapply q_entries_sorted; eauto.
    + apply view_weights_nonneg.
  - rewrite <- T. apply (pmf_sums_to_one Z Z.ltb) with (sp := sp) (incl := incl); auto. rewrite T. exact P.
Qed.

(* ---------- exactness while nothing has been compacted ---------- *)
Lemma cnt_eq_perm : forall a b, (forall p, cnt p a = cnt p b) -> Permutation a b.
Proof.
  induction a as [|x a IH]; intros b H.
  - specialize (H (fun _ => true)). rewrite !cnt_true in H. change (len (@nil Z)) with 0 in H.
    symmetry in H. apply len_zero_nil in H. subst. constructor.
  - assert (I : In x b).
    { specialize (H (Z.eqb x)). rewrite cnt_cons, Z.eqb_refl in H. pose proof (cnt_nonneg (Z.eqb x) a).
      assert (0 < cnt (Z.eqb x) b) by lia. clear - H1. induction b as [|y b IHb]; [rewrite cnt_nil in H1; lia|].
      rewrite cnt_cons in H1. destruct (Z.eqb_spec x y); [subst; now left|right; apply IHb; lia]. }
    apply in_split in I as (b1 & b2 & ->). etransitivity; [|apply Permutation_middle]. apply perm_skip. apply IH.
    intro p. specialize (H p). rewrite cnt_cons, !cnt_app, cnt_cons in H. rewrite cnt_app. lia.
Qed.

Lemma exact_items s log : Rel s log -> length (comps s) = 1%nat ->
  exists c, comps (qstate s) = [c] /\ lgw c = 0 /\ items c = isort log.
Proof.
  intros R L1. pose proof (q_all_sorted s log R) as AS. destruct R as [I N _ _ Su _ _].
  destruct I as [_ _ LG _ _ W _ _ _].
  unfold qstate, sort_level_zero, set_comps in *; cbn [comps] in *.
  destruct (comps s) as [|c [|c1 r]]; try discriminate. cbn [upd_nth] in *.
  destruct (csort_spec c) as (F1 & _ & _ & F4 & _). cbn [lgw_from] in LG. destruct LG as (LG & _).
  exists (csort c). splits; auto; [congruence|].
  rewrite Rs_cons in W. unfold Rc in W. cbn [Rs fold_right] in W. rewrite cnt_true, LG in W. change (2 ^ 0) with 1 in W.
  assert (C : forall p, cnt p (items c) = cnt p log).
  { intro p. pose proof (Su p) as A. pose proof (Su (fun y => negb (p y))) as B.
    cbn [all_items flat_map] in A, B. rewrite app_nil_r in A, B.
    pose proof (cnt_compl p (items c)). pose proof (cnt_compl p log). lia. }
  apply sorted_perm_eq.
  - inversion AS; subst; auto.
  - apply isort_sorted.
  - rewrite F1. rewrite isort_perm. now apply cnt_eq_perm.
Qed.

Theorem P_exact_rank s log : Rel s log -> length (comps s) = 1%nat -> forall x incl,
  qrank s x incl = cnt (below x incl) log.
Proof.
  intros R L1 x incl. destruct (exact_items s log R L1) as (c & E & LG & IT).
  unfold qrank, rank_w. rewrite E. cbn [fold_right]. rewrite comp_weight_R by (rewrite IT; apply isort_sorted).
  unfold Rc. rewrite LG, IT, (cnt_perm _ _ _ (isort_perm log)). change (2 ^ 0) with 1. lia.
Qed.

Lemma exact_view s log : Rel s log -> length (comps s) = 1%nat ->
  qview s = sv_finish Z (map (fun y => (y, 1)) (isort log)).
Proof.
  intros R L1. destruct (exact_items s log R L1) as (c & E & LG & IT).
  unfold qview, sorted_view. rewrite E. cbn [add_comps]. unfold sv_add. cbn [sv_merge]. rewrite LG, IT. change (2 ^ 0) with 1.
  destruct (map (fun x : Z => (x, 1)) (isort log)); reflexivity.
Qed.

Theorem P_exact_quantile_incl s log : Rel s log -> length (comps s) = 1%nat -> forall w d, 1 <= w <= len log ->
  quantile_w Z (qview s) w true = Some (nth (Z.to_nat (w - 1)) (isort log) d).
Proof.
  intros R L1 w d H. rewrite (exact_view s log R L1). apply (exact_quantile_incl Z).
  rewrite (Permutation_length (isort_perm log)). unfold len in H. exact H.
Qed.

Theorem P_exact_quantile_excl s log : Rel s log -> length (comps s) = 1%nat -> forall w d, 0 <= w < len log ->
  quantile_w Z (qview s) w false = Some (nth (Z.to_nat w) (isort log) d).
Proof.
  intros R L1 w d H. rewrite (exact_view s log R L1). apply (exact_quantile_excl Z).
  rewrite (Permutation_length (isort_perm log)). unfold len in H. exact H.
Qed.
