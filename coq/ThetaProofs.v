(* ThetaProofs.v — proofs about the Theta update sketch model (ThetaDefs.v).
   Part A: an abstract, relational model L1 (a duplicate-free collection of entries + theta + the table-size
           counter; every internal choice — where an entry lands, what nth_element does beyond its
           postcondition — is left open) satisfies the specification L0 (the set of hashes seen since the
           last reset) for every history: [ainv_step].
   Part B: the concrete model L2 (open-addressing table with stride probing, resize, rebuild) refines L1:
           [refine_step], using OpenAddr (find/insert/rehash) and KSmallest (nth_element postcondition).
   Part C: every reachable L2 state satisfies the table invariant and the L0 invariant: [run_inv];
           consequences used by Properties_C01.v. *)
From Coq Require Import ZArith NArith List Bool Lia Permutation Sorted Arith.
From DS Require Import Word RunnerLib OpenAddr KSmallest Canon ThetaDefs.
Import ListNotations.
Local Open Scope N_scope.

(* ---- small list facts ---- *)
Lemma perm_in_iff {A} (x : A) {l l'} : Permutation l l' -> (In x l <-> In x l').
Proof. intros H. split; apply Permutation_in; auto. now symmetry. Qed.

Lemma NoDup_app_l {A} (l1 l2 : list A) : NoDup (l1 ++ l2) -> NoDup l1.
Proof.
  induction l1 as [|a r IH]; simpl; intros H; [constructor|]. inversion H; subst. constructor; auto.
  intros Hin. apply H2. apply in_or_app. auto.
Qed.

Lemma NoDup_map_filter {A B} (f : A -> B) (g : A -> bool) l : NoDup (map f l) -> NoDup (map f (filter g l)).
Proof.
  induction l as [|a r IH]; simpl; intros H; [constructor|]. inversion H; subst.
  destruct (g a); simpl; auto. constructor; auto. intros Hin. apply H2.
  rewrite in_map_iff in *. destruct Hin as (x & Hx & Hf). apply filter_In in Hf. exists x. tauto.
Qed.

Lemma in_keys_filter_lt {S} (t : N) (l : list (N * S)) h :
  In h (map fst (filter (fun e => fst e <? t) l)) <-> In h (map fst l) /\ h < t.
Proof.
  rewrite !in_map_iff. split.
  - intros (e & He & Hin). apply filter_In in Hin. destruct Hin as [Hin Hlt]. apply N.ltb_lt in Hlt.
    subst h. split; eauto.
  - intros [(e & He & Hin) Hlt]. exists e. split; auto. apply filter_In. split; auto. apply N.ltb_lt. now rewrite He.
Qed.

(* ========================================================================================== *)
(** * Part A — L1 (abstract, relational) satisfies L0 *)

Section L1.
  Variable S : Type.
  Variables lgn r th0 : N.          (* configuration: lg_nom, resize factor, starting theta *)

  Record astate := mkA { a_lgc : N; a_theta : N; a_empty : bool; a_ents : list (N * S) }.

  Definition akeys (a : astate) : list N := map fst (a_ents a).
  Definition kN : N := 2 ^ lgn.
  Definition knat : nat := N.to_nat kN.

  (* what rebuild may do: any result of nth_element at k (postcondition only), theta := the pivot key,
     keep the entries in front of the pivot, in any order *)
  Definition rebuild_rel (ents : list (N * S)) (theta' : N) (ents' : list (N * S)) : Prop :=
    exists pre p post, Permutation (pre ++ p :: post) ents /\ length pre = knat /\
      Forall (fun a => fst a <= fst p) pre /\ Forall (fun a => fst p <= fst a) post /\
      theta' = fst p /\ Permutation ents' pre.

  Definition upd_payload (h : N) (f : option S -> S) (e : N * S) : N * S :=
    if fst e =? h then (h, f (Some (snd e))) else e.

  Definition alen (l : list (N * S)) : N := N.of_nat (length l).

  Inductive a_step : astate -> op S -> astate -> Prop :=
  | AS_screened a h64 f h : h = h64 / 2 -> (a_theta a <= h \/ h = 0) ->
      a_step a (OpUpdate h64 f) (mkA (a_lgc a) (a_theta a) false (a_ents a))
  | AS_present a h64 f h ents' : h = h64 / 2 -> 0 < h < a_theta a -> In h (akeys a) ->
      Permutation ents' (map (upd_payload h f) (a_ents a)) ->
      a_step a (OpUpdate h64 f) (mkA (a_lgc a) (a_theta a) false ents')
  | AS_insert_fits a h64 f h ents' : h = h64 / 2 -> 0 < h < a_theta a -> ~ In h (akeys a) ->
      Permutation ents' ((h, f None) :: a_ents a) -> alen ents' <= capacity (a_lgc a) lgn ->
      a_step a (OpUpdate h64 f) (mkA (a_lgc a) (a_theta a) false ents')
  | AS_insert_resize a h64 f h ents' : h = h64 / 2 -> 0 < h < a_theta a -> ~ In h (akeys a) ->
      Permutation ents' ((h, f None) :: a_ents a) -> capacity (a_lgc a) lgn < alen ents' -> a_lgc a <= lgn ->
      a_step a (OpUpdate h64 f) (mkA (N.min (a_lgc a + r) (lgn + 1)) (a_theta a) false ents')
  | AS_insert_rebuild a h64 f h ents1 theta' ents' : h = h64 / 2 -> 0 < h < a_theta a -> ~ In h (akeys a) ->
      Permutation ents1 ((h, f None) :: a_ents a) -> capacity (a_lgc a) lgn < alen ents1 -> lgn < a_lgc a ->
      kN < alen ents1 -> rebuild_rel ents1 theta' ents' ->
      a_step a (OpUpdate h64 f) (mkA (a_lgc a) theta' false ents')
  | AS_trim_keep a : alen (a_ents a) <= kN -> a_step a OpTrim a
  | AS_trim_rebuild a theta' ents' : kN < alen (a_ents a) -> rebuild_rel (a_ents a) theta' ents' ->
      a_step a OpTrim (mkA (a_lgc a) theta' (a_empty a) ents')
  | AS_reset a : a_step a OpReset (mkA (start_lg lgn r) th0 true []).

  (* L0: the hashes offered since the last reset *)
  Definition seen_step (seen : list N) (o : op S) : list N :=
    match o with
    | OpUpdate h64 _ => (h64 / 2) :: seen
    | OpTrim => seen
    | OpReset => []
    end.
  Definition seen_of (ops : list (op S)) : list N := fold_left seen_step ops [].

  (* the sketch is the hash-threshold sample of [seen] *)
  Record AInv (a : astate) (seen : list N) : Prop := {
    ai_nodup : NoDup (akeys a);
    ai_set : forall h, In h (akeys a) <-> In h seen /\ 0 < h < a_theta a;
    ai_le : a_theta a <= th0;
    ai_src : a_theta a = th0 \/ In (a_theta a) seen;
    ai_k : a_theta a < th0 -> kN <= alen (a_ents a);
    ai_empty : a_empty a = true <-> seen = [];
    ai_pos : a_theta a < th0 -> 0 < a_theta a
  }.

  Lemma ainv_init : AInv (mkA (start_lg lgn r) th0 true []) [].
  Proof.
    constructor; simpl; try tauto; try lia; try constructor; try (intros h; tauto).
  Qed.

  Lemma rebuild_rel_spec ents theta' ents' : NoDup (map fst ents) -> rebuild_rel ents theta' ents' ->
    In theta' (map fst ents) /\ Permutation ents' (filter (fun e => fst e <? theta') ents) /\ length ents' = knat.
  Proof.
    intros Hnd (pre & p & post & Hperm & Hlen & Hpre & Hpost & -> & Hents').
    destruct (nth_post_filter (N * S) fst ents (pre ++ p :: post) pre p post Hnd Hperm eq_refl Hpre Hpost)
      as (Hf & Hin & _).
    split; [now apply in_map|]. split.
    - eapply perm_trans; eauto.
    - rewrite (Permutation_length Hents'). exact Hlen.
  Qed.

  Lemma ainv_rebuild lgc lgc' theta e ents seen theta' ents' :
    AInv (mkA lgc theta e ents) seen -> rebuild_rel ents theta' ents' ->
    AInv (mkA lgc' theta' e ents') seen /\ theta' < theta.
  Proof.
    intros [Hnd Hset Hle Hsrc Hk Hemp Hpos] Hrb. unfold akeys in *. simpl in *.
    destruct (rebuild_rel_spec ents theta' ents' Hnd Hrb) as (Hin & Hperm & Hlen).
    assert (Hlt : theta' < theta) by (apply Hset in Hin; lia).
    split; [|exact Hlt]. constructor; unfold akeys; simpl.
    - eapply Permutation_NoDup; [symmetry; apply Permutation_map, Hperm|]. now apply NoDup_map_filter.
    - intros h. rewrite (perm_in_iff h (Permutation_map fst Hperm)).
      rewrite in_keys_filter_lt, Hset. split; [intros [[? ?] ?]|intros [? ?]]; repeat split; auto; lia.
    - lia.
    - right. apply Hset in Hin. tauto.
    - intros _. unfold alen. rewrite Hlen. unfold knat. lia.
    - exact Hemp.
    - intros _. apply Hset in Hin. lia.
  Qed.

  Lemma ainv_insert lgc lgc' theta e ents seen h v ents' :
    AInv (mkA lgc theta e ents) seen -> 0 < h < theta -> ~ In h (map fst ents) ->
    Permutation ents' ((h, v) :: ents) ->
    AInv (mkA lgc' theta false ents') (h :: seen).
  Proof.
    intros [Hnd Hset Hle Hsrc Hk Hemp Hpos] Hh Hnin Hperm. unfold akeys in *. simpl in *.
    assert (Hkeys : Permutation (map fst ents') (h :: map fst ents)) by (apply (Permutation_map fst) in Hperm; exact Hperm).
    constructor; unfold akeys; simpl.
    - eapply Permutation_NoDup; [symmetry; exact Hkeys|]. constructor; auto.
    - intros x. rewrite (perm_in_iff x Hkeys). simpl. rewrite Hset. split.
      + intros [<-|[? ?]]; auto.
      + intros [[<-|?] ?]; auto.
    - exact Hle.
    - destruct Hsrc; auto.
    - intros Hlt. specialize (Hk Hlt). unfold alen in *. rewrite (Permutation_length Hperm). simpl. lia.
    - split; discriminate.
    - exact Hpos.
  Qed.

  Lemma fst_upd_payload h f e : fst (upd_payload h f e) = fst e.
  Proof. unfold upd_payload. destruct (N.eqb_spec (fst e) h); simpl; auto. Qed.

  (* L1 satisfies L0, one step *)
  Theorem ainv_step a o a' seen : AInv a seen -> a_step a o a' -> AInv a' (seen_step seen o).
  Proof.
    intros Hinv Hstep.
    destruct Hstep as [a h64 f h Hh Hscr | a h64 f h ents' Hh Hrange Hin Hperm
                      | a h64 f h ents' Hh Hrange Hnin Hperm Hcap | a h64 f h ents' Hh Hrange Hnin Hperm Hcap Hlg
                      | a h64 f h ents1 theta' ents' Hh Hrange Hnin Hperm Hcap Hlg Hkn Hrb
                      | a Hle | a theta' ents' Hkn Hrb | a]; simpl.
    - (* screened *)
      subst h. destruct Hinv as [Hnd Hset Hle Hsrc Hk Hemp Hpos]. constructor; unfold akeys in *; simpl in *; auto.
      + intros x. rewrite Hset. split; [intros [? ?]; auto|]. intros [[<-|?] ?]; auto. lia.
      + destruct Hsrc; auto.
      + split; discriminate.
    - (* present *)
      subst h. destruct Hinv as [Hnd Hset Hle Hsrc Hk Hemp Hpos]. unfold akeys in *. simpl in *.
      assert (Hkeys : Permutation (map fst ents') (map fst (a_ents a))).
      { eapply perm_trans; [apply Permutation_map; exact Hperm|]. rewrite map_map.
        erewrite map_ext; [reflexivity|]. intros e. apply fst_upd_payload. }
      constructor; unfold akeys; simpl.
      + eapply Permutation_NoDup; [symmetry; exact Hkeys|auto].
      + intros x. rewrite (perm_in_iff x Hkeys), Hset. split; [intros [? ?]; auto|].
        intros [[<-|?] ?]; auto. apply Hset in Hin. tauto.
      + exact Hle.
      + destruct Hsrc; auto.
      + intros Hlt. specialize (Hk Hlt). unfold alen in *. apply Permutation_length in Hperm.
        rewrite map_length in Hperm. lia.
      + split; discriminate.
      + exact Hpos.
    - (* insert, fits *)
      subst h. destruct a as [lgc theta e ents]. simpl in *. eapply ainv_insert; eauto.
    - (* insert, resize *)
      subst h. destruct a as [lgc theta e ents]. simpl in *. eapply ainv_insert; eauto.
    - (* insert, rebuild *)
      subst h. destruct a as [lgc theta e ents]. simpl in *.
      assert (Hi : AInv (mkA lgc theta false ents1) (h64 / 2 :: seen)) by (eapply ainv_insert; eauto).
      eapply ainv_rebuild in Hi; [|eauto]. apply Hi.
    - exact Hinv.
    - destruct a as [lgc theta e ents]. simpl in *. eapply ainv_rebuild in Hinv; [|eauto]. apply Hinv.
    - apply ainv_init.
  Qed.

  (* theta never increases, except by reset *)
  Theorem a_theta_monotone a o a' seen : AInv a seen -> a_step a o a' -> o <> OpReset -> a_theta a' <= a_theta a.
  Proof.
    intros Hinv Hstep Hne.
    destruct Hstep as [a h64 f h Hh Hscr | a h64 f h ents' Hh Hrange Hin Hperm
                      | a h64 f h ents' Hh Hrange Hnin Hperm Hcap | a h64 f h ents' Hh Hrange Hnin Hperm Hcap Hlg
                      | a h64 f h ents1 theta' ents' Hh Hrange Hnin Hperm Hcap Hlg Hkn Hrb
                      | a Hle | a theta' ents' Hkn Hrb | a]; simpl; try lia; try congruence.
    - subst h. destruct a as [lgc theta e ents]. simpl in *.
      assert (Hi : AInv (mkA lgc theta false ents1) (h64 / 2 :: seen)) by (eapply ainv_insert; eauto).
      eapply (ainv_rebuild lgc lgc) in Hi; [|eauto]. lia.
    - destruct a as [lgc theta e ents]. simpl in *. eapply (ainv_rebuild lgc lgc) in Hinv; [|eauto]. lia.
  Qed.

  (* histories at L1 *)
  Inductive a_reach : list (op S) -> astate -> Prop :=
  | AR_nil : a_reach [] (mkA (start_lg lgn r) th0 true [])
  | AR_snoc ops o a a' : a_reach ops a -> a_step a o a' -> a_reach (ops ++ [o]) a'.

  Lemma seen_of_snoc ops o : seen_of (ops ++ [o]) = seen_step (seen_of ops) o.
  Proof. unfold seen_of. now rewrite fold_left_app. Qed.

  (* L1 satisfies L0 for every history and every resolution of the internal choices *)
  Theorem a_reach_inv ops a : a_reach ops a -> AInv a (seen_of ops).
  Proof.
    induction 1.
    - apply ainv_init.
    - rewrite seen_of_snoc. eapply ainv_step; eauto.
  Qed.
End L1.

Arguments mkA {S}. Arguments a_lgc {S}. Arguments a_theta {S}. Arguments a_empty {S}. Arguments a_ents {S}.
Arguments akeys {S}. Arguments seen_step {S}. Arguments seen_of {S}. Arguments alen {S}.

(* ========================================================================================== *)
(** * Part B — L2 (open-addressing table) refines L1 *)

(* the probe sequence of the Theta table meets the hypotheses of OpenAddr *)
Lemma tprobe_lt lg k j : (tprobe lg k j < tsize lg)%nat.
Proof. apply probe_idx_lt. Qed.

Lemma stride_odd lg k : N.odd (stride lg k) = true.
Proof.
  unfold stride. replace (2 * ((k / 2 ^ lg) mod 128) + 1) with (1 + 2 * ((k / 2 ^ lg) mod 128)) by lia.
  now rewrite N.odd_add_mul_2.
Qed.

Lemma tprobe_inj lg k j1 j2 : (j1 < tsize lg)%nat -> (j2 < tsize lg)%nat -> tprobe lg k j1 = tprobe lg k j2 -> j1 = j2.
Proof. apply probe_idx_inj, stride_odd. Qed.

Lemma pow2_split a b : b <= a -> 2 ^ a = 2 ^ b * 2 ^ (a - b).
Proof. intros H. rewrite <- N.pow_add_r. f_equal. lia. Qed.

Section CapArith.
  Variables lgn r : N.
  Hypothesis lgn_ge : 5 <= lgn.
  Ltac Zify.zify_post_hook ::= Z.div_mod_to_equations.

  Definition LgInv (lgc : N) : Prop := 5 <= lgc <= lgn + 1 /\ (r = 0 -> lgc = lgn + 1).

  Lemma cap_lt_size lgc : 5 <= lgc -> capacity lgc lgn < 2 ^ lgc.
  Proof.
    intros H. unfold capacity. rewrite (pow2_split lgc 5) by lia. change (2 ^ 5) with 32.
    pose proof (pow2_N_pos (lgc - 5)). set (q := 2 ^ (lgc - 5)) in *. destruct (lgc <=? lgn); lia.
  Qed.

  Lemma cap_small_lt_k lgc : lgc <= lgn -> capacity lgc lgn < 2 ^ lgn.
  Proof.
    intros H. unfold capacity. apply N.leb_le in H. rewrite H. apply N.leb_le in H.
    pose proof (N.pow_le_mono_r 2 lgc lgn). pose proof (pow2_N_pos lgc). lia.
  Qed.

  Lemma cap_full : 2 ^ lgn <= capacity (lgn + 1) lgn /\ 2 ^ lgn < 2 ^ (lgn + 1).
  Proof.
    unfold capacity. assert (E : (lgn + 1 <=? lgn) = false) by (apply N.leb_gt; lia). rewrite E.
    rewrite N.add_1_r, N.pow_succ_r'. rewrite (pow2_split lgn 5) by lia. change (2 ^ 5) with 32.
    pose proof (pow2_N_pos (lgn - 5)). set (q := 2 ^ (lgn - 5)) in *. lia.
  Qed.

  Lemma resize_ok lgc : LgInv lgc -> lgc <= lgn ->
    LgInv (N.min (lgc + r) (lgn + 1)) /\ capacity lgc lgn + 1 <= capacity (N.min (lgc + r) (lgn + 1)) lgn.
  Proof.
    intros [[H5 Hle] Hr0] Hsmall. assert (Hr : r <> 0) by (intros E; specialize (Hr0 E); lia).
    set (lg' := N.min (lgc + r) (lgn + 1)). assert (Hlg' : lgc + 1 <= lg' <= lgn + 1) by (unfold lg'; lia).
    split; [unfold LgInv; lia|].
    assert (Hmono : 2 ^ (lgc + 1) <= 2 ^ lg') by (apply N.pow_le_mono_r; lia).
    rewrite N.add_1_r, N.pow_succ_r' in Hmono.
    unfold capacity. apply N.leb_le in Hsmall. rewrite Hsmall.
    rewrite (pow2_split lgc 5) in * by lia. change (2 ^ 5) with 32 in *.
    pose proof (pow2_N_pos (lgc - 5)). set (q := 2 ^ (lgc - 5)) in *. set (Y := 2 ^ lg') in *.
    destruct (lg' <=? lgn); lia.
  Qed.
  Ltac Zify.zify_post_hook ::= idtac.
End CapArith.

Section L2.
  Variable S : Type.
  Variable sel : nat -> list (N * S) -> list (N * S).
  (* the only thing assumed of nth_element: its postcondition *)
  Hypothesis sel_ok : forall k l, (k < length l)%nat -> nth_post fst k l (sel k l).
  Variables lgn r th0 : N.
  Hypothesis lgn_ge : 5 <= lgn.

  Definition abs (s : sketch S) : astate S := mkA (lg_cur s) (theta s) (is_empty s) (entries S s).

  (* invariant of the concrete table *)
  Record TInv (s : sketch S) : Prop := {
    ti_lgn : lg_nom s = lgn;
    ti_rf : rf s = r;
    ti_th0 : theta0 s = th0;
    ti_probe : ProbeInv (tsize (lg_cur s)) (tprobe (lg_cur s)) (slots s);
    ti_num : num s = N.of_nat (length (entries S s));
    ti_cap : num s <= capacity (lg_cur s) lgn;
    ti_lg : LgInv lgn r (lg_cur s)
  }.

  Lemma trehash_spec lg l : NoDup (map fst l) -> (length l < tsize lg)%nat ->
    ProbeInv (tsize lg) (tprobe lg) (trehash S lg l) /\ Permutation (occupied (trehash S lg l)) l.
  Proof. apply rehash_spec; [apply tprobe_lt|apply tprobe_inj]. Qed.

  Lemma tsize_pos_lt (n : N) lg : n < 2 ^ lg -> (N.to_nat n < tsize lg)%nat.
  Proof. unfold tsize. lia. Qed.

  Lemma tinv_new : TInv (new_sketch S lgn r th0) /\ abs (new_sketch S lgn r th0) = mkA (start_lg lgn r) th0 true [].
  Proof.
    unfold new_sketch, abs, entries. simpl. rewrite occupied_repeat_None. split; [|reflexivity].
    assert (Hlg : LgInv lgn r (start_lg lgn r)).
    { unfold LgInv, start_lg. destruct (N.leb_spec (lgn + 1) 5); [lia|].
      destruct (N.eqb_spec r 0) as [->|Hr]; [lia|].
      pose proof (N.mod_le (lgn + 1 - 5) r Hr) as H1. pose proof (N.mod_lt (lgn + 1 - 5) r Hr) as H2. set (m := (lgn + 1 - 5) mod r) in *. lia. }
    constructor; simpl; auto.
    - apply ProbeInv_empty.
    - unfold entries. simpl. now rewrite occupied_repeat_None.
    - lia.
  Qed.

  (* rebuild, called with more than k entries in the full-size table *)
  Lemma refine_rebuild s :
    lg_nom s = lgn -> rf s = r -> theta0 s = th0 -> lg_cur s = lgn + 1 ->
    num s = N.of_nat (length (entries S s)) -> 2 ^ lgn < num s -> NoDup (keys S s) ->
    let s' := rebuild S sel s in
    rebuild_rel S lgn (entries S s) (theta s') (entries S s') /\ TInv s' /\
    lg_cur s' = lg_cur s /\ is_empty s' = is_empty s.
  Proof.
    intros Hlgn Hrf Hth0 Hlgc Hnum Hk Hnd. unfold rebuild.
    assert (Hkn : knom S s = N.to_nat (2 ^ lgn)) by (unfold knom; now rewrite Hlgn).
    assert (Hlt : (knom S s < length (entries S s))%nat) by (rewrite Hkn; lia).
    destruct (sel_ok _ _ Hlt) as (Hperm & pre & p & post & Heq & Hlen & Hpre & Hpost).
    unfold entries in *. set (l' := sel (knom S s) (occupied (slots s))) in *.
    destruct (split_at _ l' pre p post Heq) as [Hnth Hfirst]. rewrite Hlen in Hnth, Hfirst.
    rewrite Hnth, Hfirst. simpl.
    assert (Hndl' : NoDup (map fst l')) by (eapply Permutation_NoDup; [symmetry; apply Permutation_map, Hperm|exact Hnd]).
    assert (Hndpre : NoDup (map fst pre)).
    { rewrite Heq, map_app in Hndl'. now apply NoDup_app_l in Hndl'. }
    destruct (cap_full lgn lgn_ge) as [Hcapk Hksz].
    destruct (trehash_spec (lg_cur s) pre Hndpre) as [Hpi Hocc].
    { rewrite Hlen, Hkn, Hlgc. apply tsize_pos_lt. exact Hksz. }
    split; [|split; [|split; reflexivity]].
    - exists pre, p, post. rewrite <- Heq. repeat split; auto. rewrite Hlen, Hkn. reflexivity.
    - constructor; simpl; auto.
      + unfold entries. simpl. rewrite (Permutation_length Hocc), Hlen, Hkn, Hlgn. lia.
      + rewrite Hlgc, Hlgn. exact Hcapk.
      + rewrite Hlgc. unfold LgInv. lia.
  Qed.

  Ltac proj := cbn [lg_cur lg_nom rf theta0 theta is_empty num slots set_nonempty with_table abs entries keys
                    a_lgc a_theta a_empty a_ents akeys] in *.

  Lemma map_upd_id h f (l : list (N * S)) : (forall e, In e l -> fst e <> h) -> map (upd_payload S h f) l = l.
  Proof.
    induction l as [|a l IH]; simpl; intros H; auto. rewrite IH by auto. f_equal.
    unfold upd_payload. destruct (N.eqb_spec (fst a) h); auto. exfalso. apply (H a); auto.
  Qed.

  Lemma nodup_middle_notin (a b : list (N * S)) e : NoDup (map fst (a ++ e :: b)) ->
    forall x, In x (a ++ b) -> fst x <> fst e.
  Proof.
    rewrite map_app. simpl. intros H x Hx E. apply NoDup_remove_2 in H. apply H.
    rewrite <- map_app, <- E. now apply in_map.
  Qed.

End L2.
