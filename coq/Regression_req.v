(* Regression_req.v — the two REQ defects repaired by fixes/07_req_empty_iterator.patch and fixes/08_req_unset_coin.patch,
   kept as theorems about the code AS IT WAS:

   1. (C07) req_sketch::const_iterator's constructor started at compactors_[0].begin() without looking whether that
      compactor is empty: iterating an EMPTY sketch dereferences begin() == end() and walks off the buffer
      ([iterate_old] = None, "undefined") although the sketch retains nothing and begin() should equal end().
   2. (C08) req_compactor's constructor set coin_ = false.  A compaction with an odd state_ uses !coin_; after
      merge() has OR-ed an odd state_ into a compactor that never compacted, that coin is the constant "true":
      the compaction always promotes the odd positions and the rank estimate is biased — the sum of the estimate over
      ALL outcomes of the fresh coins differs from 2^m * true rank ([hist false]); with the constructor drawing the
      initial coin the same history is exactly unbiased ([hist true]). *)
From Coq Require Import ZArith List Bool Lia.
From DS Require Import RunnerLib SortedView ReqDefs ReqProofs ReqView.
Import ListNotations.
Local Open Scope Z_scope.

(* ---------- 1. the iterator as originally coded ---------- *)
Definition iterate_old (s : req) : option (list (Z * Z)) := iter_levels (comps s).

Definition empty_sketch : req := grow_with (mkreq (eff_k 12) false 0 0 0 [] 0 0) false.

Lemma empty_sketch_reach : reach true empty_sketch [].
Proof.
  apply (reach_new true 12 false); [lia|]. unfold req_new, grow. apply (leaf_flip _ false). constructor.
Qed.

Theorem C07_req_empty_iterator_refuted :
  exists s log, reach true s log /\ rn s = 0 /\ iterate_old s = None /\ iterate s = Some [].
Proof. exists empty_sketch, []. split; [exact empty_sketch_reach|]. vm_compute. auto. Qed.

(* ---------- 2. the unset coin ---------- *)
(* sum of f over all outcomes of the fresh coins; number of coins along the all-false path; all paths equally long *)
Fixpoint msum {A} (f : A -> Z) (m : M A) : Z :=
  match m with
  | Ret a => f a
  | Flip k => msum f (k false) + msum f (k true)
  end.
Fixpoint mdepth {A} (m : M A) : nat :=
  match m with
  | Ret _ => O
  | Flip k => S (mdepth (k false))
  end.
Fixpoint muniform {A} (m : M A) : bool :=
  match m with
  | Ret _ => true
  | Flip k => muniform (k false) && muniform (k true) && Nat.eqb (mdepth (k false)) (mdepth (k true))
  end.

Fixpoint updates (ic : bool) (s : req) (xs : list Z) : M req :=
  match xs with
  | [] => Ret s
  | x :: r => bind (update ic s x) (fun s' => updates ic s' r)
  end.

Definition stream (base : Z) (n : nat) : list Z := map (fun i => base + Z.of_nat i) (seq 0 n).

(* b(k=4, LRA): 24 updates (one compaction, state_ of level 0 becomes 1); a(k=4, LRA) new; a.merge(b); 26 updates of a
   (compaction of a's level 0 with the odd state_ inherited from b) *)
Definition hist (ic : bool) : M req :=
  bind (req_new ic 4 false) (fun b =>
  bind (updates ic b (stream 0 24)) (fun b =>
  bind (req_new ic 4 false) (fun a =>
  bind (merge ic a b) (fun a =>
  updates ic a (stream 100 26))))).
Definition hist_log : list Z := stream 0 24 ++ stream 100 26.

Lemma updates_reach ic : forall xs s log s', reach ic s log -> leaf (updates ic s xs) s' -> reach ic s' (log ++ xs).
Proof.
  induction xs as [|x r IH]; intros s log s' R L; cbn [updates] in L.
  - apply leaf_ret_inv in L. subst. now rewrite app_nil_r.
  - apply leaf_bind in L as (s1 & L1 & L).
    replace (log ++ x :: r) with ((log ++ [x]) ++ r) by (rewrite <- app_assoc; reflexivity).
    eapply IH; [|exact L]. eapply reach_update; eauto.
Qed.

Lemma req_new_hra ic k h s : leaf (req_new ic k h) s -> hra s = h.
Proof. intro L. unfold req_new in L. apply grow_leaf in L as [c ->]. reflexivity. Qed.

Lemma updates_hra ic : forall xs s log s', reach ic s log -> leaf (updates ic s xs) s' -> hra s' = hra s.
Proof.
  induction xs as [|x r IH]; intros s log s' R L; cbn [updates] in L.
  - apply leaf_ret_inv in L. now subst.
  - apply leaf_bind in L as (s1 & L1 & L).
    destruct (update_full ic s log x s1 (reach_Rel ic s log R) L1) as (_ & H & _).
    rewrite (IH s1 (log ++ [x]) s'); auto. eapply reach_update; eauto.
Qed.

(* every outcome of the history is a reachable state that has been given hist_log *)
Lemma hist_reach ic s : leaf (hist ic) s -> reach ic s hist_log.
Proof.
  intro L. unfold hist in L.
  apply leaf_bind in L as (b0 & L0 & L). apply leaf_bind in L as (b & L1 & L).
  apply leaf_bind in L as (a0 & L2 & L). apply leaf_bind in L as (a & L3 & L).
  assert (Rb0 : reach ic b0 []) by (eapply reach_new; [|exact L0]; lia).
  assert (Ra0 : reach ic a0 []) by (eapply reach_new; [|exact L2]; lia).
  pose proof (updates_reach ic _ _ _ _ Rb0 L1) as Rb. cbn [app] in Rb.
  assert (Hb : hra b = false).
  { rewrite (updates_hra ic _ _ _ _ Rb0 L1). eapply req_new_hra; eauto. }
  assert (Ha : hra a0 = false) by (eapply req_new_hra; eauto).
  assert (Ra : reach ic a ([] ++ stream 0 24)) by (eapply reach_merge; eauto; congruence).
  cbn [app] in Ra. exact (updates_reach ic _ _ _ _ Ra L).
Qed.

(* the rank estimate of 16 (inclusive; 17 of the 50 items are <= 16) summed over all outcomes of the coins *)
Definition est16 (s : req) : Z := qrank s 16 true.

Lemma hist_old_values : muniform (hist false) = true /\ mdepth (hist false) = 1%nat /\ msum est16 (hist false) = 32 /\
  cnt (below 16 true) hist_log = 17.
Proof. vm_compute. auto. Qed.

Lemma hist_new_values : muniform (hist true) = true /\ mdepth (hist true) = 5%nat /\ msum est16 (hist true) = 2 ^ 5 * 17.
Proof. vm_compute. auto. Qed.

(* "the estimated rank summed over all outcomes of the fair coin flips equals 2^m * the true rank" fails for the
   compactor constructor as it was coded (coin_ = false) ... *)
Theorem C08_req_unset_coin_refuted :
  (forall s, leaf (hist false) s -> reach false s hist_log) /\
  msum est16 (hist false) <> 2 ^ Z.of_nat (mdepth (hist false)) * cnt (below 16 true) hist_log.
Proof.
  split; [apply hist_reach|]. destruct hist_old_values as (_ & D & S & C). rewrite D, S, C. vm_compute. discriminate.
Qed.

(* ... and holds on the same history once the constructor draws the coin *)
Example C08_req_repaired_history_unbiased :
  msum est16 (hist true) = 2 ^ Z.of_nat (mdepth (hist true)) * cnt (below 16 true) hist_log.
Proof. destruct hist_new_values as (_ & D & S). destruct hist_old_values as (_ & _ & _ & C). rewrite D, S, C. reflexivity. Qed.

(* ---------- a concrete reachable estimating sketch (non-vacuity of the C07 theorems) ---------- *)
Definition witness : option req :=
  match replay (hist true) [0; 1; 0; 1; 1] with
  | Some (s, _) => Some s
  | None => None
  end.

Lemma witness_reach s : witness = Some s -> reach true s hist_log.
Proof.
  unfold witness. destruct (replay (hist true) [0; 1; 0; 1; 1]) as [[s' r]|] eqn:E; [|discriminate].
  intros [= <-]. apply hist_reach. eapply replay_leaf; eauto.
Qed.

Lemma witness_values : exists s, witness = Some s /\ rn s = 50 /\ nret s = 33 /\ length (comps s) = 2%nat /\
  option_map (fun l => (len l, sum_weights l)) (iterate s) = Some (33, 50) /\ qrank s 16 true = 18.
Proof. vm_compute. eexists. repeat split; reflexivity. Qed.

Print Assumptions C07_req_empty_iterator_refuted.
Print Assumptions C08_req_unset_coin_refuted.
