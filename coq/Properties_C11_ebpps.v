(* Properties_C11_ebpps.v — truncated or corrupted EBPPS images: every strict prefix of an image is rejected by both
   readers; whatever a reader accepts from ARBITRARY bytes lies inside the bytes it was given (the decoders are total
   Coq functions: every byte string is either rejected or decoded), with the one documented exception that an image with
   the EMPTY flag makes the constructor reserve k items.  Only statements; proofs live in EbppsCodecProofs.v.  The model
   is EbppsCodecDefs.v (the readers as repaired by fixes/11_ebpps_c_range.patch + 11_ebpps_stream_state.patch + 11_ebpps_zero_c_image.patch; the unrepaired readers are in
   Regression_ebppscodec.v); a read outside the supplied bytes is [rd] returning None, which makes the reader reject. *)
From Coq Require Import NArith List Bool Lia Arith.
From DS Require Import Word ThetaCodecDefs EbppsCodecDefs EbppsCodecProofs.
Import ListNotations.
Local Open Scope N_scope.

(* every strict prefix of the image of a well-formed sketch is rejected: bytes reader ... *)
Theorem C11_ebpps_prefix_bytes : forall s n, wf s -> (n < length (enc s))%nat -> dec_bytes (firstn n (enc s)) = None.
Proof. exact prefix_bytes. Qed.

(* ... and stream reader (a stream that ends there) *)
Theorem C11_ebpps_prefix_stream : forall s n, wf s -> (n < length (enc s))%nat -> dec_stream (firstn n (enc s)) = None.
Proof. exact prefix_stream. Qed.

(* totality on ARBITRARY bytes: each reader either rejects or yields a sketch *)
Theorem C11_ebpps_total : forall bytes,
  (dec_bytes bytes = None \/ exists s, dec_bytes bytes = Some s) /\
  (dec_stream bytes = None \/ exists s used, dec_stream bytes = Some (s, used)).
Proof.
  intros bytes. split.
  - destruct (dec_bytes bytes) as [s|]; [right; eauto|left; reflexivity].
  - destruct (dec_stream bytes) as [[s u]|]; [right; eauto|left; reflexivity].
Qed.

(* ARBITRARY bytes, bytes reader: an accepted image has k in range, and either is an empty sketch or all its content
   (48 bytes of fields, 8 per full item, 8 for the partial item) lies inside the supplied bytes, with exactly floor(C)
   items for a C that is a non-negative double below 2^32, and a partial item iff C has a fractional part *)
Theorem C11_ebpps_bytes_accept_bounded : forall bytes s, dec_bytes bytes = Some s ->
  (1 <= e_k s /\ e_k s <= MAX_K) /\ (8 <= length bytes)%nat /\
  (s = empty_sk (e_k s) \/
   ((content_bytes s <= length bytes)%nat /\ length (e_data s) = N.to_nat (c_floor (e_c s)) /\
    c_negative (e_c s) = false /\ c_below_2_32 (e_c s) = true /\
    (match e_part s with Some _ => c_has_frac (e_c s) = true | None => c_has_frac (e_c s) = false end))).
Proof. exact bytes_accept_bounded. Qed.

(* ARBITRARY bytes, stream reader: the same, and it never consumes more than it was given (8 bytes for an empty image,
   exactly the content otherwise) *)
Theorem C11_ebpps_stream_accept_bounded : forall bytes s used, dec_stream bytes = Some (s, used) ->
  (1 <= e_k s /\ e_k s <= MAX_K) /\ (used <= length bytes)%nat /\
  ((s = empty_sk (e_k s) /\ used = 8%nat) \/
   (used = content_bytes s /\ length (e_data s) = N.to_nat (c_floor (e_c s)) /\
    c_negative (e_c s) = false /\ c_below_2_32 (e_c s) = true /\
    (match e_part s with Some _ => c_has_frac (e_c s) = true | None => c_has_frac (e_c s) = false end))).
Proof. exact stream_accept_bounded. Qed.

(* the sample reader alone, ARBITRARY bytes: fewer bytes than C announces are rejected *)
Theorem C11_ebpps_sample_short : forall flp b,
  (forall c, rd 8 0 b = Some c -> N.of_nat (length b) < sample_need c) -> dec_sample flp b = None.
Proof. exact dec_sample_short. Qed.

(* non-vacuity: the 72-byte image of Properties_C10_ebpps.C10_ex cut at 71, 48, 40, 8 and 0 bytes; an 8-byte empty image cut at 7 *)
Definition C11_ex : esk :=
  {| e_k := 4; e_n := 3; e_cw := 4613937818241073152; e_wmax := 4607182418800017408; e_rho := 4607182418800017408;
     e_c := 4612811918334230528; e_data := [7; 18446744073709551615]; e_part := Some 5 |}.
Example C11_ebpps_nonvacuous :
  length (enc C11_ex) = 72%nat /\
  map (fun n => dec_bytes (firstn n (enc C11_ex))) [71; 64; 48; 40; 8; 0]%nat = [None; None; None; None; None; None] /\
  map (fun n => dec_stream (firstn n (enc C11_ex))) [71; 64; 48; 40; 8; 0]%nat = [None; None; None; None; None; None] /\
  dec_stream (firstn 7 (enc (empty_sk 9))) = None /\ dec_bytes (firstn 7 (enc (empty_sk 9))) = None /\
  dec_bytes (enc C11_ex) = Some C11_ex.
Proof. vm_compute. repeat split. Qed.

Print Assumptions C11_ebpps_prefix_bytes.
Print Assumptions C11_ebpps_prefix_stream.
Print Assumptions C11_ebpps_total.
Print Assumptions C11_ebpps_bytes_accept_bounded.
Print Assumptions C11_ebpps_stream_accept_bounded.
Print Assumptions C11_ebpps_sample_short.
