(* Properties_C11_ebpps.v — being filled in *)
From Coq Require Import NArith List.
From DS Require Import EbppsCodecDefs.
Theorem C11_ebpps_stub : sk_empty (empty_sk 3) = true.
Proof. reflexivity. Qed.
Print Assumptions C11_ebpps_stub.
