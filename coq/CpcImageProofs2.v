(* CpcImageProofs2.v — Part 4 of the proofs about the cpc image model: the image serialize() writes for a reachable sketch
   (SInv, CpcSketchInv.v) is well-formed and passes the count validation of the repaired readers; the compressed pairs
   pass the range checks of the repaired uncompress; deserialize(serialize(s)) through both readers, with the flavor
   round trip of the compressor (CpcFlavorProofs.flavor_codec_rt) as a premise. *)
From Coq Require Import NArith ZArith List Bool Arith Lia Permutation.
From DS.gen Require Import CpcTablesGen.
From DS Require Import Word Murmur3 RunnerLib CpcDefs CpcCodecTables CpcCodecDefs CpcFlavorDefs.
From DS Require Import CpcTableProofs CpcBits CpcSketchInv CpcProofs CpcUnionProofs CpcCodecProofs.
From DS Require Import CpcImageDefs CpcImageProofs.
Import ListNotations.
Local Open Scope N_scope.

(** * Part 4: the image of a reachable sketch *)

Lemma lenN_same {A} (l : list A) : CpcCodecProofs.lenN l = CpcImageDefs.lenN l.
Proof. reflexivity. Qed.

Lemma rcp_lt r c l : r < 2 ^ l -> c < 64 -> rcp r c < 2 ^ (6 + l).
Proof.
  intros Hr Hc. unfold rcp. apply lor_lt_pow2.
  - rewrite N.shiftl_mul_pow2, N.pow_add_r, (N.mul_comm (2 ^ 6)). apply N.mul_lt_mono_pos_r; [reflexivity|exact Hr].
  - eapply N.lt_le_trans; [exact Hc|]. change 64 with (2 ^ 6). apply N.pow_le_mono_r; [discriminate|lia].
Qed.

Lemma insert_sorted_In x : forall l y, In y (insert_sorted x l) <-> y = x \/ In y l.
Proof.
  induction l as [|a r IH]; intros y; cbn [insert_sorted].
  - cbn. intuition.
  - destruct (x <=? a); cbn [In]; [intuition|]. rewrite IH. intuition.
Qed.

Lemma sortN_In : forall l y, In y (sortN l) <-> In y l.
Proof.
  induction l as [|a r IH]; intros y; cbn [sortN fold_right]; [reflexivity|].
  fold (sortN r). rewrite insert_sorted_In, IH. cbn [In]. intuition.
Qed.

Lemma insert_sorted_len x : forall l, length (insert_sorted x l) = S (length l).
Proof. induction l as [|a r IH]; cbn [insert_sorted]; [reflexivity|]. destruct (x <=? a); cbn [length]; [reflexivity|now rewrite IH]. Qed.

Lemma sortN_len : forall l, length (sortN l) = length l.
Proof. induction l as [|a r IH]; cbn [sortN fold_right length]; [reflexivity|]. fold (sortN r). now rewrite insert_sorted_len, IH. Qed.

Lemma window_pairs_lt : forall win row p, In p (window_pairs win row) -> p < 64 * (row + CpcImageDefs.lenN win).
Proof.
  induction win as [|b r IH]; intros row p H; cbn [window_pairs] in H; [contradiction|].
  unfold CpcImageDefs.lenN in *. cbn [length]. rewrite Nat2N.inj_succ.
  apply in_app_or in H as [H|H].
  - apply in_map_iff in H as (c & <- & Hc). apply filter_In in Hc as [Hc _].
    assert (c < 8) by (cbn in Hc; intuition subst; reflexivity).
    rewrite (N.lor_comm). rewrite N.shiftl_mul_pow2. rewrite lor_shift_add by (change (2 ^ 6) with 64; lia).
    change (2 ^ 6) with 64. lia.
  - apply IH in H. lia.
Qed.

Lemma perm_enc_lt56 ph c : nth c (nth ph column_permutations_for_encoding []) 0 < 56.
Proof.
  assert (H : forallb (forallb (fun x => x <? 56)) column_permutations_for_encoding = true) by (vm_compute; reflexivity).
  rewrite forallb_forall in H.
  destruct (Nat.lt_ge_cases ph (length column_permutations_for_encoding)) as [Hp|Hp].
  - specialize (H _ (nth_In _ [] Hp)). rewrite forallb_forall in H.
    destruct (Nat.lt_ge_cases c (length (nth ph column_permutations_for_encoding []))) as [Hc|Hc].
    + apply N.ltb_lt. apply H. apply nth_In. exact Hc.
    + rewrite nth_overflow by exact Hc. reflexivity.
  - rewrite (nth_overflow _ _ Hp). destruct c; reflexivity.
Qed.

Lemma perm_enc_lt ph c : nth c (nth ph column_permutations_for_encoding []) 0 < 64.
Proof. pose proof (perm_enc_lt56 ph c). lia. Qed.

(* the compressor itself checks that the pairs are strictly increasing (its two throws) *)
Lemma compress_pairs_loop_increasing nbb : forall pairs pr pc st st',
  Forall (fun p => p < 2 ^ 32) pairs -> pc <= 64 ->
  compress_pairs_loop pairs nbb pr pc st = Some st' -> increasing_from (64 * pr + pc) pairs.
Proof.
  induction pairs as [|p r IH]; intros pr pc st st' Hf Hpc H; cbn [compress_pairs_loop increasing_from] in *; [exact I|].
  inversion Hf as [|? ? Hp Hr]; subst. rewrite (w32_id p Hp) in H.
  set (row := N.shiftr p 6) in *. set (col := N.land p 63) in *.
  assert (Hcol : col < 64) by apply land63_lt.
  assert (Hpe : p = 64 * row + col).
  { unfold row, col. rewrite N.shiftr_div_pow2. change 63 with (N.ones 6). rewrite N.land_ones. change (2 ^ 6) with 64.
    apply N.div_mod. discriminate. }
  destruct (row <? pr) eqn:E1; [discriminate|]. apply N.ltb_ge in E1.
  destruct (col <? (if row =? pr then pc else 0)) eqn:E2; [discriminate|]. apply N.ltb_ge in E2.
  match type of H with match ?w with Some _ => _ | None => _ end = _ => destruct w as [st2|] eqn:Ew; [|discriminate] end.
  rewrite (w8_id (col + 1)) in H by lia.
  split; [|split; [exact Hp|]].
  - destruct (N.eqb_spec row pr) as [->|Hne]; lia.
  - replace (p + 1) with (64 * row + (col + 1)) by lia. eapply IH; [exact Hr|lia|exact H].
Qed.

Lemma compress_pairs_increasing nbb pairs ws : Forall (fun p => p < 2 ^ 32) pairs ->
  compress_pairs pairs nbb = Some ws -> increasing_from 0 pairs.
Proof.
  intros Hf H. unfold compress_pairs in H.
  destruct (compress_pairs_loop pairs nbb 0 0 wstate0) as [st|] eqn:E; [|discriminate].
  apply (compress_pairs_loop_increasing nbb pairs 0 0 _ _ Hf ltac:(lia) E).
Qed.

(* the words of a compressed table: 32-bit, and no more than the compressor's buffer, which is the bound the repaired
   readers check (table_words_bound) *)
Lemma table_words_ok l pairs ws : l <= 26 -> CpcImageDefs.lenN pairs <= 2 ^ 26 ->
  Forall (fun p => p < 2 ^ (6 + l)) pairs ->
  compress_surprising_values pairs l = Some ws ->
  Forall (fun w => w < two32) ws /\
  exists b, table_words_bound l (CpcImageDefs.lenN pairs) = Some b /\ CpcImageDefs.lenN ws <= b /\ pairs <> [] /\
            CpcImageDefs.lenN pairs <= 16 * CpcImageDefs.lenN ws.
Proof.
  intros Hl Hn Hf H. unfold compress_surprising_values in H. cbv zeta in H.
  change (2 ^ 26) with 67108864 in Hn. unfold CpcImageDefs.lenN in *.
  rewrite (w32_id (N.of_nat (length pairs))) in H by (change (2 ^ 32) with 4294967296; lia).
  destruct (surprising_values_base_bits (N.of_nat (length pairs)) l) as [nbb|] eqn:Eb; [|discriminate].
  assert (Hnbb : nbb <= 30).
  { eapply (base_bits_bound (N.of_nat (length pairs)) l); [lia|change (2 ^ 31) with 2147483648; lia|exact Eb]. }
  assert (Hne : pairs <> []).
  { intros ->. cbn in Eb. unfold surprising_values_base_bits, golomb_choose_number_of_base_bits in Eb. cbv zeta in Eb.
    change (0 <? 1) with true in Eb. destruct (w32 (w32 (N.shiftl 1 l) + 0) <? 1); discriminate. }
  assert (Hf32 : Forall (fun p => p < 2 ^ 32) pairs).
  { eapply Forall_impl; [|exact Hf]. cbv beta. intros p Hp. eapply N.lt_le_trans; [exact Hp|].
    apply N.pow_le_mono_r; [discriminate|lia]. }
  pose proof (compress_pairs_increasing nbb pairs ws Hf32 H) as Hinc.
  destruct (compress_pairs_spec nbb pairs ltac:(lia) Hinc) as (ws' & H1 & _ & Hw32 & Hl1 & Hl2).
  cbv zeta in Hl1, Hl2. rewrite H in H1. injection H1 as <-.
  split; [exact Hw32|].
  assert (Hk : 2 ^ l <= 2 ^ 26) by (apply N.pow_le_mono_r; [discriminate|lia]). change (2 ^ 26) with 67108864 in Hk.
  unfold table_words_bound. rewrite N.shiftl_1_l. rewrite (w32_id (2 ^ l)) by (change (2 ^ 32) with 4294967296; lia).
  destruct (N.eqb_spec (N.of_nat (length pairs)) 0) as [E0|E0].
  { destruct pairs; [contradiction|cbn [length] in E0; lia]. }
  rewrite Eb. eexists. split; [reflexivity|].
  assert (Hlow : N.of_nat (length pairs) <= 16 * N.of_nat (length ws)).
  { pose proof (enc_bits_pairs_le nbb pairs 0 0 ltac:(lia) Hinc) as [Hlo _].
    fold (CpcCodecProofs.lenN pairs) in *. fold (CpcCodecProofs.lenN ws) in *.
    assert (CpcCodecProofs.lenN pairs * 2 <= CpcCodecProofs.lenN pairs * (2 + nbb)) by (apply N.mul_le_mono_l; lia).
    lia. }
  split; [|split; [exact Hne|exact Hlow]].
  (* as in CpcCodecProofs.pairs_codec_len, from the monotonicity the compressor checked *)
  set (k := 2 ^ l) in *.
  assert (Hrows : Forall (fun p => N.shiftr p 6 <= k) pairs).
  { eapply Forall_impl; [|exact Hf]. cbv beta. intros p Hp. apply N.lt_le_incl. apply row_lt. exact Hp. }
  pose proof (enc_bits_pairs_le nbb pairs 0 0 ltac:(lia) Hinc) as [_ Hb].
  pose proof (sum_hi_le nbb k pairs 0 0 ltac:(lia) Hinc ltac:(lia) Hrows) as Hh. rewrite N.add_0_r in Hh.
  assert (Hh' : sum_hi nbb 0 pairs <= N.shiftr k nbb).
  { rewrite N.shiftr_div_pow2. apply N.div_le_lower_bound; [apply pow2_nz|exact Hh]. }
  assert (Hsh : N.shiftr k nbb <= k) by (rewrite N.shiftr_div_pow2; apply N.div_le_upper_bound; [apply pow2_nz|pose proof (CpcCodecProofs.pow2_pos nbb); nia]).
  fold (CpcCodecProofs.lenN pairs) in *. fold (CpcCodecProofs.lenN ws). set (n := CpcCodecProofs.lenN pairs) in *.
  pose proof (pair_padding_le nbb) as [Hpad _].
  assert (Hn43 : n * (13 + nbb) <= 67108864 * 43) by (apply N.mul_le_mono; lia).
  assert (Hnn : n * (13 + nbb) = 12 * n + n * (1 + nbb)) by ring.
  unfold safe_length_for_compressed_pair_buf. fold (pair_padding nbb).
  rewrite (w32_id (n * (1 + nbb))) by (change (2 ^ 32) with 4294967296; lia).
  rewrite (w32_id (n * (1 + nbb) + N.shiftr k nbb)) by (change (2 ^ 32) with 4294967296; lia).
  rewrite (w32_id (12 * n)) by (change (2 ^ 32) with 4294967296; lia).
  rewrite w64_id by (change (2 ^ 64) with 18446744073709551616; lia).
  destruct (divide_up_32 (12 * n + (n * (1 + nbb) + N.shiftr k nbb) + pair_padding nbb)) as (r & Hr & Hr1 & Hr2).
  { change (2 ^ 64) with 18446744073709551616. lia. }
  rewrite Hr. lia.
Qed.

(* in sparse mode the table holds exactly the coupons *)
Lemma sparse_items_count l s hist : SInv l s hist -> window s = [] ->
  CpcImageDefs.lenN (t_items (table s)) = ncoup s.
Proof.
  intros [C Cn] Hw. rewrite (n_count _ _ _ Cn). unfold CpcImageDefs.lenN. f_equal.
  apply Permutation_length. apply NoDup_Permutation.
  - apply (c_tinv _ _ _ C).
  - apply distinct_NoDup.
  - intros x. rewrite distinct_In. split; intros Hx.
    + destruct (c_items _ _ _ C x Hx) as [Hlt _]. destruct (rc_parts l x Hlt) as (Hd & Hr & Hc).
      pose proof (c_bits _ _ _ C _ _ Hr Hc) as Hb. rewrite (bitF_sparse l s hist _ _ C Hw), <- Hd in Hb.
      rewrite has_rc in Hb. apply mem_In. rewrite Hb. apply mem_In. exact Hx.
    + destruct (c_valid _ _ _ C x Hx) as [Hlt _]. destruct (rc_parts l x Hlt) as (Hd & Hr & Hc).
      pose proof (c_bits _ _ _ C _ _ Hr Hc) as Hb. rewrite (bitF_sparse l s hist _ _ C Hw), <- Hd in Hb.
      rewrite has_rc in Hb. apply mem_In. rewrite <- Hb. apply mem_In. exact Hx.
Qed.

Lemma is_byte_lt b : is_byte b -> b < 256.
Proof.
  intros H. destruct (N.eq_dec b 0) as [->|Hz]; [reflexivity|].
  change 256 with (2 ^ 8). apply N.log2_lt_pow2; [lia|].
  destruct (N.lt_ge_cases (N.log2 b) 8) as [Hlt|Hge]; [exact Hlt|].
  pose proof (N.bit_log2 b Hz) as Hb. rewrite (H _ Hge) in Hb. discriminate.
Qed.

Lemma window_bytes l s hist : Core l s hist -> Forall (fun b => b < 256) (window s).
Proof.
  intros C. apply Forall_forall. intros b Hb. destruct (In_nth _ _ 0 Hb) as (n & Hn & <-).
  pose proof (c_bytes _ _ _ C (N.of_nat n)) as H. unfold nthN in H. rewrite Nat2N.id in H. apply is_byte_lt. exact H.
Qed.

(* the compressed window: 32-bit words, no more than the compressor's buffer = the bound the repaired readers check *)
Lemma window_words_ok l s hist c : Core l s hist -> 4 <= l <= 26 -> window s <> [] ->
  let ws := compress_sliding_window (window s) l c in
  Forall (fun w => w < two32) ws /\ CpcImageDefs.lenN ws <= safe_length_for_compressed_window_buf (2 ^ l) /\ ws <> [] /\
  2 ^ l <= 32 * CpcImageDefs.lenN ws.
Proof.
  intros C Hl Hw ws. pose proof (window_bytes l s hist C) as Hb.
  destruct (c_win _ _ _ C) as [[Hnil _]|Hlen]; [contradiction|].
  assert (HlenN : N.of_nat (length (window s)) = 2 ^ l) by (rewrite Hlen; apply N2Nat.id).
  split; [|split; [|split]].
  - destruct (pseudo_phase_some l c ltac:(lia)) as (ph & H1 & H2 & H3).
    unfold ws, compress_sliding_window. rewrite H2.
    destruct (compress_bytes_spec (nth (N.to_nat ph) encoding_tables_for_high_entropy_byte []) (window s)
                (byte_enc_ok (N.to_nat ph) ltac:(change 22%nat with (N.to_nat 22); lia)) Hb) as (_ & _ & Hw32 & _).
    exact Hw32.
  - apply (sliding_window_len l c (window s) Hl HlenN Hb).
  - destruct (pseudo_phase_some l c ltac:(lia)) as (ph & H1 & H2 & H3).
    unfold ws, compress_sliding_window. rewrite H2.
    destruct (compress_bytes_spec (nth (N.to_nat ph) encoding_tables_for_high_entropy_byte []) (window s)
                (byte_enc_ok (N.to_nat ph) ltac:(change 22%nat with (N.to_nat 22); lia)) Hb) as (_ & _ & _ & Hlo & _).
    cbv zeta in Hlo. intros E. rewrite E in Hlo. change (CpcCodecProofs.lenN (@nil N)) with 0 in Hlo. lia.
  - destruct (pseudo_phase_some l c ltac:(lia)) as (ph & H1 & H2 & H3).
    unfold ws, compress_sliding_window. rewrite H2.
    assert (Hok : enc_ok (nth (N.to_nat ph) encoding_tables_for_high_entropy_byte []))
      by (apply byte_enc_ok; change 22%nat with (N.to_nat 22); lia).
    destruct (compress_bytes_spec _ (window s) Hok Hb) as (_ & _ & _ & Hlo & _). cbv zeta in Hlo.
    pose proof (enc_bits_byte_le _ Hok (window s) Hb) as [Hge _].
    unfold CpcCodecProofs.lenN in *. unfold CpcImageDefs.lenN. rewrite <- HlenN. lia.
Qed.

Lemma flavor_empty l c : determine_flavor l c = FL_EMPTY <-> c = 0.
Proof.
  unfold determine_flavor. cbv zeta. destruct (N.eqb_spec c 0) as [->|Hc]; [intuition|].
  split; [|contradiction]. unfold FL_EMPTY, FL_SPARSE, FL_HYBRID, FL_PINNED, FL_SLIDING.
  destruct (32 * c <? 3 * 2 ^ l), (2 * c <? 2 ^ l), (8 * c <? 27 * 2 ^ l); discriminate.
Qed.

Lemma flavor_range l c : determine_flavor l c <= 4.
Proof.
  unfold determine_flavor. cbv zeta. unfold FL_EMPTY, FL_SPARSE, FL_HYBRID, FL_PINNED, FL_SLIDING.
  destruct (c =? 0), (32 * c <? 3 * 2 ^ l), (2 * c <? 2 ^ l), (8 * c <? 27 * 2 ^ l); lia.
Qed.

Record cfacts (l : N) (s : sketch) (c : cstate) : Prop := {
  cf_win_none : sketch_has_window s = false -> c_window c = [];
  cf_win_some : sketch_has_window s = true ->
                window s <> [] /\ c_window c = compress_sliding_window (window s) l (ncoup s);
  cf_tab_none : sketch_has_table s = false -> c_table c = [] /\ c_num_entries c = 0;
  cf_tab_some : sketch_has_table s = true -> exists pairs,
      c_num_entries c = CpcImageDefs.lenN pairs /\ compress_surprising_values pairs l = Some (c_table c) /\
      Forall (fun p => p < 2 ^ (6 + l)) pairs /\
      (sketch_has_window s = false -> CpcImageDefs.lenN pairs = ncoup s) /\
      (sketch_has_window s = true -> CpcImageDefs.lenN pairs = CpcImageDefs.lenN (t_items (table s))) /\
      (determine_flavor l (ncoup s) = FL_SLIDING -> Forall (fun p => N.land p 63 < 56) pairs) }.

Lemma items_lt l s hist : Core l s hist -> forall x, In x (t_items (table s)) -> x < 2 ^ (6 + l).
Proof. intros C x Hx. apply (c_items _ _ _ C x Hx). Qed.

Lemma compress_spec l s hist c : SInv l s hist -> 4 <= l <= 26 -> compress_sketch s = Some c -> cfacts l s c.
Proof.
  intros Hinv Hl H. pose proof Hinv as [C Cn]. pose proof (c_lgk _ _ _ C) as Hlg.
  unfold compress_sketch in H. rewrite Hlg in H. cbv zeta in H.
  pose proof (flavor_range l (ncoup s)) as Hfr.
  set (fl := determine_flavor l (ncoup s)) in *.
  assert (Hht : sketch_has_table s = (fl =? FL_SPARSE) || (fl =? FL_HYBRID) ||
                 (((fl =? FL_PINNED) || (fl =? FL_SLIDING)) && match t_items (table s) with [] => false | _ => true end))
    by (unfold sketch_has_table; rewrite Hlg; reflexivity).
  assert (Hhw : sketch_has_window s = (fl =? FL_PINNED) || (fl =? FL_SLIDING))
    by (unfold sketch_has_window; rewrite Hlg; reflexivity).
  destruct (N.eqb_spec fl FL_EMPTY) as [E0|E0].
  { inversion H; subst c. rewrite E0 in Hht, Hhw; cbn in Hht, Hhw. constructor; rewrite ?Hht, ?Hhw; cbn [c_window c_table c_num_entries]; try discriminate; auto. }
  destruct (N.eqb_spec fl FL_SPARSE) as [E1|E1].
  { destruct (window s) eqn:Ew; [|discriminate].
    destruct (compress_surprising_values (sortN (t_items (table s))) l) as [w|] eqn:Ec; [|discriminate].
    inversion H; subst c. rewrite E1 in Hht, Hhw; cbn in Hht, Hhw. constructor; rewrite ?Hht, ?Hhw; cbn [c_window c_table c_num_entries]; try discriminate; auto.
    intros _. exists (sortN (t_items (table s))). repeat split; auto.
    - apply Forall_forall. intros p Hp. apply (items_lt l s hist C p). apply sortN_In. exact Hp.
    - intros _. unfold CpcImageDefs.lenN. rewrite sortN_len. apply (sparse_items_count l s hist Hinv Ew).
    - discriminate.
    - intros X. fold fl in X. rewrite E1 in X. discriminate. }
  destruct (N.eqb_spec fl FL_HYBRID) as [E2|E2].
  { destruct (window s) as [|b0 wr] eqn:Ew; [discriminate|].
    destruct (woff s =? 0); cbn [negb] in H; [|discriminate].
    set (pairs := sortN (t_items (table s) ++ window_pairs (b0 :: wr) 0)) in *.
    destruct (N.eqb_spec (N.of_nat (length pairs)) (ncoup s)) as [En|En]; cbn [negb] in H; [|discriminate].
    destruct (compress_surprising_values pairs l) as [w|] eqn:Ec; [|discriminate].
    inversion H; subst c. rewrite E2 in Hht, Hhw; cbn in Hht, Hhw. constructor; rewrite ?Hht, ?Hhw; cbn [c_window c_table c_num_entries]; try discriminate; auto.
    intros _. exists pairs. repeat split; auto; try discriminate;
      try (intros X; fold fl in X; rewrite E2 in X; discriminate).
    apply Forall_forall. intros p Hp. unfold pairs in Hp. apply (proj1 (sortN_In _ _)) in Hp. apply in_app_or in Hp as [Hp|Hp]; [apply (items_lt l s hist C p Hp)|].
    apply window_pairs_lt in Hp. rewrite <- Ew in Hp.
    destruct (c_win _ _ _ C) as [[Hnil _]|Hlen]; [rewrite Ew in Hnil; discriminate|].
    unfold CpcImageDefs.lenN in Hp. rewrite Hlen, N2Nat.id in Hp. rewrite N.pow_add_r. change (2 ^ 6) with 64. lia. }
  assert (Hwin : fl = FL_PINNED \/ fl = FL_SLIDING).
  { unfold FL_EMPTY, FL_SPARSE, FL_HYBRID, FL_PINNED, FL_SLIDING in *. lia. }
  assert (Hw : window s <> []).
  { intros Ew. pose proof (n_sparse _ _ _ Cn Ew) as Hs. unfold fl, determine_flavor in E0, E1. cbv zeta in E0, E1.
    destruct (ncoup s =? 0); [apply E0; reflexivity|]. destruct (N.ltb_spec (32 * ncoup s) (3 * 2 ^ l)); [apply E1; reflexivity|lia]. }
  destruct (N.eqb_spec fl FL_PINNED) as [E3|E3].
  { destruct (t_items (table s)) as [|i0 ir] eqn:Ei.
    - inversion H; subst c. rewrite E3 in Hht, Hhw; cbn in Hht, Hhw. constructor; rewrite ?Hht, ?Hhw; cbn [c_window c_table c_num_entries]; try discriminate; auto.
    - destruct (existsb (fun p => N.land p 63 <? 8) (i0 :: ir)) eqn:Eex; [discriminate|].
      set (pairs := sortN (map (fun p => p - 8) (i0 :: ir))) in *.
      destruct (compress_surprising_values pairs l) as [w|] eqn:Ec; [|discriminate].
      inversion H; subst c. rewrite E3 in Hht, Hhw; cbn in Hht, Hhw. constructor; rewrite ?Hht, ?Hhw; cbn [c_window c_table c_num_entries]; try discriminate; auto.
      intros _. exists pairs. repeat split; auto; try discriminate;
        try (intros X; fold fl in X; rewrite E3 in X; discriminate).
      + apply Forall_forall. intros p Hp. unfold pairs in Hp. apply (proj1 (sortN_In _ _)) in Hp. apply in_map_iff in Hp as (q & <- & Hq).
        rewrite <- Ei in Hq. pose proof (items_lt l s hist C q Hq). lia.
      + intros _. unfold CpcImageDefs.lenN, pairs. rewrite sortN_len, map_length, Ei. reflexivity. }
  assert (E4 : fl = FL_SLIDING) by tauto.
  destruct (t_items (table s)) as [|i0 ir] eqn:Ei.
  - inversion H; subst c. rewrite E4 in Hht, Hhw; cbn in Hht, Hhw. constructor; rewrite ?Hht, ?Hhw; cbn [c_window c_table c_num_entries]; try discriminate; auto.
  - destruct (16 <=? determine_pseudo_phase l (ncoup s)); [discriminate|].
    destruct (56 <? woff s); [discriminate|].
    match type of H with (if existsb ?f ?L then _ else _) = _ => destruct (existsb f L); [discriminate|] end.
    match type of H with context [sortN (map ?tr (i0 :: ir))] => set (pairs := sortN (map tr (i0 :: ir))) in * end.
    destruct (compress_surprising_values pairs l) as [w|] eqn:Ec; [|discriminate].
    inversion H; subst c. rewrite E4 in Hht, Hhw; cbn in Hht, Hhw. constructor; rewrite ?Hht, ?Hhw; cbn [c_window c_table c_num_entries]; try discriminate; auto.
    intros _. exists pairs. repeat split; auto; try discriminate.
    + apply Forall_forall. intros p Hp. unfold pairs in Hp. apply (proj1 (sortN_In _ _)) in Hp. apply in_map_iff in Hp as (q & <- & Hq).
      rewrite <- Ei in Hq. pose proof (items_lt l s hist C q Hq) as Hq'.
      apply rcp_lt; [apply row_lt; exact Hq'|apply perm_enc_lt].
    + intros _. unfold CpcImageDefs.lenN, pairs. rewrite sortN_len, map_length, Ei. reflexivity.
    + intros _. apply Forall_forall. intros p Hp. unfold pairs in Hp. apply (proj1 (sortN_In _ _)) in Hp.
      apply in_map_iff in Hp as (q & <- & Hq). fold (rcp (N.shiftr q 6) (nth (N.to_nat (N.land (N.land q 63 + 56 - woff s) 63))
        (nth (N.to_nat (determine_pseudo_phase l (ncoup s))) column_permutations_for_encoding []) 0)).
      rewrite rcp_col by apply perm_enc_lt. apply perm_enc_lt56.
Qed.

Lemma w16_lt x : w16 x < 65536.
Proof. unfold w16. change 65535 with (N.ones 16). rewrite N.land_ones. apply N.mod_lt. discriminate. Qed.
Lemma w32_lt x : w32 x < 2 ^ 32.
Proof. rewrite w32_mod. apply N.mod_lt. discriminate. Qed.

Lemma kxp_empty_lt l : l <= 26 -> kxp_empty l < two64.
Proof.
  intros H. unfold kxp_empty. rewrite N.shiftl_mul_pow2. unfold two64. change 18446744073709551616 with (4096 * 2 ^ 52).
  apply N.mul_lt_mono_pos_r; [reflexivity|lia].
Qed.

Lemma safe_window_lt k : safe_length_for_compressed_window_buf k < two32.
Proof.
  unfold safe_length_for_compressed_window_buf. cbv zeta. set (b := w32 (w32 (12 * k) + 11)).
  pose proof (w32_lt (w32 (12 * k) + 11)) as Hb. fold b in Hb. change (2 ^ 32) with 4294967296 in Hb.
  destruct (divide_up_32 b) as (r & Hr & Hr1 & Hr2); [change (2 ^ 64) with 18446744073709551616; lia|].
  rewrite Hr. unfold two32. lia.
Qed.

Lemma safe_pair_lt k n b : safe_length_for_compressed_pair_buf k n b < two32.
Proof.
  unfold safe_length_for_compressed_pair_buf. cbv zeta.
  set (y := w32 (w32 (n * (1 + b)) + N.shiftr k b)). set (x := w32 (12 * n)).
  set (p := if 10 <? b then 0 else 10 - b).
  pose proof (w32_lt (w32 (n * (1 + b)) + N.shiftr k b)) as Hy. fold y in Hy.
  pose proof (w32_lt (12 * n)) as Hx. fold x in Hx. change (2 ^ 32) with 4294967296 in *.
  assert (Hp : p <= 10) by (unfold p; destruct (10 <? b); lia).
  rewrite w64_id by (change (2 ^ 64) with 18446744073709551616; lia).
  destruct (divide_up_32 (x + y + p)) as (r & Hr & Hr1 & Hr2); [change (2 ^ 64) with 18446744073709551616; lia|].
  rewrite Hr. unfold two32. lia.
Qed.

Lemma table_words_bound_lt l tne b : table_words_bound l tne = Some b -> b < two32.
Proof.
  unfold table_words_bound. cbv zeta.
  destruct (if tne =? 0 then Some 0 else surprising_values_base_bits tne l) as [nbb|]; [|discriminate].
  intros E. inversion E. apply safe_pair_lt.
Qed.

Lemma table_words_bound_0 l : exists b, table_words_bound l 0 = Some b.
Proof. unfold table_words_bound. cbv zeta. change (0 =? 0) with true. cbv iota. eexists. reflexivity. Qed.

Lemma no_window_small l c : (determine_flavor l c =? FL_PINNED) || (determine_flavor l c =? FL_SLIDING) = false ->
  2 * c < 2 ^ l \/ c = 0.
Proof.
  unfold determine_flavor. cbv zeta. unfold FL_EMPTY, FL_SPARSE, FL_HYBRID, FL_PINNED, FL_SLIDING.
  destruct (N.eqb_spec c 0) as [->|Hc]; [auto|].
  destruct (N.ltb_spec (32 * c) (3 * 2 ^ l)); [intros _; left; lia|].
  destruct (N.ltb_spec (2 * c) (2 ^ l)); [intros _; left; lia|].
  destruct (8 * c <? 27 * 2 ^ l); cbn; discriminate.
Qed.

Lemma nonempty_flags l s : lgk s = l -> (ncoup s =? 0) = negb (sketch_has_table s || sketch_has_window s).
Proof.
  intros Hlg. unfold sketch_has_table, sketch_has_window. rewrite Hlg. cbv zeta.
  pose proof (flavor_empty l (ncoup s)) as He. pose proof (flavor_range l (ncoup s)) as Hr.
  set (fl := determine_flavor l (ncoup s)) in *.
  destruct (N.eqb_spec (ncoup s) 0) as [E|E].
  - apply He in E. rewrite E. reflexivity.
  - assert (fl <> FL_EMPTY) by (intros X; apply E, He, X).
    unfold FL_EMPTY, FL_SPARSE, FL_HYBRID, FL_PINNED, FL_SLIDING in *.
    assert (Hc : fl = 1 \/ fl = 2 \/ fl = 3 \/ fl = 4) by lia.
    destruct Hc as [Hc|[Hc|[Hc|Hc]]]; rewrite Hc; cbn; try reflexivity; destruct (t_items (table s)); reflexivity.
Qed.

(** ** C09: the image serialize() writes for a reachable sketch is well-formed — in particular it passes the count
    validation of the repaired readers *)
Theorem image_of_sketch_wf l s hist kxp hip i :
  SInv l s hist -> 4 <= l <= 26 -> kxp < two64 -> hip < two64 ->
  4 * t_num (table s) <= 3 * 2 ^ (6 + l) -> t_num (table s) <= 2 ^ 26 ->
  image_of_sketch s kxp hip = Some i -> image_wf i.
Proof.
  intros Hinv Hl Hkxp Hhip Hfit H26 H. pose proof Hinv as [C Cn]. pose proof (c_lgk _ _ _ C) as Hlg.
  unfold image_of_sketch in H. destruct (compress_sketch s) as [c|] eqn:Ec; [|discriminate].
  pose proof (compress_spec l s hist c Hinv Hl Ec) as F.
  pose proof (nonempty_flags l s Hlg) as Hne.
  assert (Hnum : t_num (table s) = CpcImageDefs.lenN (t_items (table s))) by apply (c_tinv _ _ _ C).
  rewrite Hnum in Hfit, H26.
  assert (Hnc32 : ncoup s < two32).
  { rewrite (n_count _ _ _ Cn). apply (distinct_bound l hist (c_valid _ _ _ C)). lia. }
  assert (Hnc64 : ncoup s <= 64 * 2 ^ l).
  { rewrite (n_count _ _ _ Cn). change 64 with (2 ^ 6). rewrite <- N.pow_add_r.
    apply nodup_bound; [apply distinct_NoDup|]. intros x Hx. apply (proj1 (distinct_In _ _)) in Hx. apply (c_valid _ _ _ C x Hx). }
  assert (Hk : 2 ^ l <= 2 ^ 26) by (apply N.pow_le_mono_r; [discriminate|lia]). change (2 ^ 26) with 67108864 in *.
  assert (Hsmall : sketch_has_window s = false -> 2 * ncoup s < 2 ^ l \/ ncoup s = 0).
  { unfold sketch_has_window. rewrite Hlg. apply no_window_small. }
  pose proof Hsmall as Hsmall0. clear Hsmall.
  cbv zeta in H. set (hh := negb (merged s)) in *.
  remember (sketch_has_table s) as ht eqn:Eht. remember (sketch_has_window s) as hw eqn:Ehw. symmetry in Eht, Ehw.
  assert (Hsmall : hw = false -> 2 * ncoup s < 2 ^ l \/ ncoup s = 0) by (intros X; apply Hsmall0; congruence).
  destruct (flags_byte_bits hh ht hw) as (B1 & B2 & B3 & _ & _ & B6).
  (* the facts about the compressed state, case by case *)
  assert (Hwin : Forall (fun w => w < two32) (c_window c) /\
                 CpcImageDefs.lenN (c_window c) <= safe_length_for_compressed_window_buf (2 ^ l) /\
                 (hw = false -> c_window c = []) /\
                 (CpcImageDefs.lenN (c_window c) = 0 \/ 2 ^ l <= 32 * CpcImageDefs.lenN (c_window c))).
  { destruct hw eqn:Ew.
    - destruct (cf_win_some _ _ _ F Ehw) as [Hwne ->].
      destruct (window_words_ok l s hist (ncoup s) C Hl Hwne) as (W1 & W2 & _ & W4).
      split; [exact W1|]. split; [exact W2|]. split; [discriminate|right; exact W4].
    - rewrite (cf_win_none _ _ _ F Ehw). split; [constructor|]. split; [apply N.le_0_l|]. split; [reflexivity|left; reflexivity]. }
  set (tne := if ncoup s =? 0 then 0 else if hw then c_num_entries c else ncoup s) in *.
  assert (Htab : Forall (fun w => w < two32) (c_table c) /\ tne < two32 /\ 4 * tne <= 192 * 2 ^ l /\
                 (exists b, table_words_bound l tne = Some b /\ CpcImageDefs.lenN (c_table c) <= b) /\
                 (ht = false -> c_table c = [] /\ tne = 0) /\ (hw = false -> tne = ncoup s) /\
                 tne <= 16 * CpcImageDefs.lenN (c_table c)).
  { destruct ht eqn:Et.
    - destruct (cf_tab_some _ _ _ F Eht) as (pairs & P1 & P2 & P3 & P4 & P5 & _).
      assert (Hnz : (ncoup s =? 0) = false) by (rewrite Hne; reflexivity).
      assert (Htne : tne = CpcImageDefs.lenN pairs /\ CpcImageDefs.lenN pairs <= 67108864 /\ 4 * CpcImageDefs.lenN pairs <= 192 * 2 ^ l).
      { unfold tne. rewrite Hnz. destruct hw eqn:Ew.
        - rewrite P1, (P5 Ehw). replace (192 * 2 ^ l) with (3 * 2 ^ (6 + l)) by (rewrite N.pow_add_r; change (2 ^ 6) with 64; lia).
          auto.
        - rewrite (P4 Ehw). destruct (Hsmall eq_refl) as [Hs|Hs]; [|apply N.eqb_neq in Hnz; contradiction].
          repeat split; lia. }
      destruct Htne as (T1 & T2 & T3).
      destruct (table_words_ok l pairs (c_table c) ltac:(lia) ltac:(change (2 ^ 26) with 67108864; exact T2) P3 P2)
        as (W1 & b & W2 & W3 & _ & W5).
      rewrite T1. repeat split; auto; try discriminate.
      + unfold two32. lia.
      + exists b. auto.
      + intros Ew. rewrite <- T1. unfold tne. rewrite Hnz, Ew. reflexivity.
    - destruct (cf_tab_none _ _ _ F Eht) as [T1 T2]. rewrite T1.
      assert (Htne : tne = 0).
      { unfold tne. destruct (ncoup s =? 0) eqn:Enz; [reflexivity|]. destruct hw eqn:Ew; [exact T2|].
        cbn in Hne. congruence. }
      rewrite Htne. repeat split; auto; try constructor; try reflexivity; try apply N.le_0_l.
      + destruct (table_words_bound_0 l) as (b & Hb). exists b. split; [exact Hb|apply N.le_0_l].
      + intros Ew. unfold tne in Htne. destruct (ncoup s =? 0) eqn:Enz; [apply N.eqb_eq in Enz; congruence|].
        rewrite Ew in Hne. cbn in Hne. discriminate. }
  destruct Hwin as (Ww & Wl & Wn & Wlow). destruct Htab as (Tw & Tt & T4 & (b & Tb & Tl) & Tn & Tnw & Tlow).
  inversion H; subst i; clear H.
  constructor; unfold ihh, iht, ihw;
    cbn [i_pre i_ser i_fam i_lgk i_fic i_flags i_sh i_nc i_tne i_kxp i_hip i_win i_tab]; rewrite ?B1, ?B2, ?B3, ?Hlg.
  - reflexivity.
  - reflexivity.
  - reflexivity.
  - unfold lgk_ok. apply andb_true_iff. split; apply N.leb_le; lia.
  - pose proof (c_ficle _ _ _ C). pose proof (c_off56 _ _ _ C). lia.
  - lia.
  - apply w16_lt.
  - exact Hnc32.
  - exact Hne.
  - exact Tt.
  - exact Tnw.
  - intros Et _. apply Tn. exact Et.
  - destruct (hh && negb (ncoup s =? 0)); [exact Hkxp|apply kxp_empty_lt; lia].
  - destruct (hh && negb (ncoup s =? 0)); [exact Hhip|reflexivity].
  - intros E. rewrite E. auto.
  - exact Wn.
  - intros Et. apply Tn. exact Et.
  - exact Ww.
  - exact Tw.
  - eapply N.le_lt_trans; [exact Wl|apply safe_window_lt].
  - eapply N.le_lt_trans; [exact Tl|]. eapply table_words_bound_lt. exact Tb.
  - unfold counts_ok. cbv zeta. rewrite Tb.
    replace (ncoup s <=? 64 * 2 ^ l) with true by (symmetry; apply N.leb_le; assumption).
    replace (4 * tne <=? 192 * 2 ^ l) with true by (symmetry; apply N.leb_le; assumption).
    replace (CpcImageDefs.lenN (c_window c) <=? safe_length_for_compressed_window_buf (2 ^ l)) with true
      by (symmetry; apply N.leb_le; assumption).
    replace (CpcImageDefs.lenN (c_table c) <=? b) with true by (symmetry; apply N.leb_le; assumption).
    replace (tne <=? 16 * CpcImageDefs.lenN (c_table c)) with true by (symmetry; apply N.leb_le; assumption).
    cbn [andb]. rewrite andb_true_r. apply orb_true_iff.
    destruct Wlow as [Wz|Wz]; [left; apply N.eqb_eq; exact Wz|right; apply N.leb_le; exact Wz].
Qed.

(* CpcCodecProofs.pairs_codec_rt with the monotonicity the compressor checked itself instead of sortedness *)
Lemma pairs_rt_inc nbb pairs words : nbb <= 30 -> increasing_from 0 pairs ->
  compress_pairs pairs nbb = Some words -> N.of_nat (length words) < 2 ^ 32 ->
  uncompress_pairs (N.of_nat (length pairs)) nbb words = Some pairs.
Proof.
  intros Hnbb Hinc Hc Hlen.
  destruct (compress_pairs_spec nbb pairs ltac:(lia) Hinc) as (ws & H1 & HV & Hw32 & Hl1 & Hl2).
  cbv zeta in HV, Hl1, Hl2. rewrite Hc in H1. injection H1 as <-.
  destruct (uncompress_pairs_loop_spec words nbb Hnbb Hw32 Hlen pairs 0 0 rstate0 0 ltac:(lia) Hinc (rinv0 words))
    as (st' & Hl' & Hr').
  - rewrite N.pow_0_r, N.div_1_r. exact HV.
  - lia.
  - unfold uncompress_pairs. rewrite Nat2N.id, Hl'. destruct st' as [[bb nb] idx].
    destruct Hr' as (_ & _ & _ & Hi). fold (CpcCodecProofs.lenN words).
    replace (CpcCodecProofs.lenN words <? idx) with false by (symmetry; apply N.ltb_ge; exact Hi). reflexivity.
Qed.

Lemma surprising_rt_inc l pairs ws : l <= 26 -> CpcImageDefs.lenN pairs <= 2 ^ 26 ->
  Forall (fun p => p < 2 ^ (6 + l)) pairs ->
  compress_surprising_values pairs l = Some ws ->
  uncompress_surprising_values ws (CpcImageDefs.lenN pairs) l = Some pairs.
Proof.
  intros Hl Hn Hf H.
  destruct (table_words_ok l pairs ws Hl Hn Hf H) as (_ & b & Hb & Hlen & _ & _).
  pose proof (table_words_bound_lt _ _ _ Hb) as Hb32.
  unfold compress_surprising_values in H. cbv zeta in H. unfold uncompress_surprising_values.
  change (2 ^ 26) with 67108864 in Hn. unfold CpcImageDefs.lenN in *.
  rewrite (w32_id (N.of_nat (length pairs))) in H by (change (2 ^ 32) with 4294967296; lia).
  destruct (surprising_values_base_bits (N.of_nat (length pairs)) l) as [nbb|] eqn:Eb; [|discriminate].
  assert (Hnbb : nbb <= 30).
  { eapply (base_bits_bound (N.of_nat (length pairs)) l); [lia|change (2 ^ 31) with 2147483648; lia|exact Eb]. }
  assert (Hf32 : Forall (fun p => p < 2 ^ 32) pairs).
  { eapply Forall_impl; [|exact Hf]. cbv beta. intros p Hp. eapply N.lt_le_trans; [exact Hp|].
    apply N.pow_le_mono_r; [discriminate|lia]. }
  apply pairs_rt_inc; auto.
  - eapply compress_pairs_increasing; eauto.
  - unfold two32 in Hb32. change (2 ^ 32) with 4294967296. lia.
Qed.

(* the pairs the writer compresses pass the range checks of the repaired uncompress *)
Lemma image_pairs_in_range l s hist c : SInv l s hist -> 4 <= l <= 26 ->
  CpcImageDefs.lenN (t_items (table s)) <= 2 ^ 26 ->
  compress_sketch s = Some c -> pairs_in_range c l (ncoup s) = true.
Proof.
  intros Hinv Hl H26 Ec. pose proof Hinv as [C Cn]. pose proof (c_lgk _ _ _ C) as Hlg.
  pose proof (compress_spec l s hist c Hinv Hl Ec) as F.
  unfold pairs_in_range. cbv zeta. set (fl := determine_flavor l (ncoup s)).
  assert (Hht : sketch_has_table s = (fl =? FL_SPARSE) || (fl =? FL_HYBRID) ||
                 (((fl =? FL_PINNED) || (fl =? FL_SLIDING)) && match t_items (table s) with [] => false | _ => true end))
    by (unfold sketch_has_table; rewrite Hlg; reflexivity).
  assert (Hhw : sketch_has_window s = (fl =? FL_PINNED) || (fl =? FL_SLIDING))
    by (unfold sketch_has_window; rewrite Hlg; reflexivity).
  assert (Hk : 2 ^ l <= 2 ^ 26) by (apply N.pow_le_mono_r; [discriminate|lia]). change (2 ^ 26) with 67108864 in *.
  destruct (N.eqb_spec fl FL_HYBRID) as [E2|E2].
  - rewrite E2 in Hht, Hhw. cbn in Hht, Hhw.
    destruct (cf_tab_some _ _ _ F Hht) as (pairs & P1 & P2 & P3 & P4 & _ & _).
    assert (Hn : CpcImageDefs.lenN pairs <= 67108864).
    { rewrite (P4 Hhw). pose proof (no_window_small l (ncoup s)) as Hs. fold fl in Hs. rewrite E2 in Hs.
      destruct (Hs eq_refl); lia. }
    rewrite P1. rewrite (surprising_rt_inc l pairs (c_table c) ltac:(lia) ltac:(change (2 ^ 26) with 67108864; exact Hn) P3 P2).
    apply forallb_forall. intros p Hp. rewrite Forall_forall in P3. specialize (P3 p Hp).
    apply orb_true_iff. right. apply N.ltb_lt. apply row_lt. exact P3.
  - destruct (N.eqb_spec fl FL_SLIDING) as [E4|E4]; cbn [andb]; [|reflexivity].
    destruct (N.eqb_spec (c_num_entries c) 0) as [Ez|Ez]; cbn [negb]; [reflexivity|].
    rewrite E4 in Hht, Hhw. cbn in Hht, Hhw.
    destruct (sketch_has_table s) eqn:Et.
    + destruct (cf_tab_some _ _ _ F Et) as (pairs & P1 & P2 & P3 & _ & P5 & P6).
      assert (Hn : CpcImageDefs.lenN pairs <= 67108864) by (rewrite (P5 Hhw); exact H26).
      rewrite P1. rewrite (surprising_rt_inc l pairs (c_table c) ltac:(lia) ltac:(change (2 ^ 26) with 67108864; exact Hn) P3 P2).
      apply forallb_forall. intros p Hp. specialize (P6 E4). rewrite Forall_forall in P6. apply N.ltb_lt. apply P6. exact Hp.
    + destruct (cf_tab_none _ _ _ F Et) as [_ T2]. contradiction.
Qed.

(* the compressed state inside the image is the compressor's *)
Lemma image_cstate l s hist kxp hip i c : SInv l s hist -> 4 <= l <= 26 ->
  compress_sketch s = Some c -> image_of_sketch s kxp hip = Some i ->
  cstate_of_image i = c /\ i_lgk i = l /\ i_nc i = ncoup s /\ i_fic i = fic s /\ i_sh i = compute_seed_hash (seed s) /\
  i_ser i = 1 /\ i_fam i = 16 /\ ihh i = negb (merged s) /\ iht i = sketch_has_table s /\ ihw i = sketch_has_window s /\
  i_pre i = preamble_ints (ncoup s) (negb (merged s)) (sketch_has_table s) (sketch_has_window s) /\
  i_flags i = flags_byte (negb (merged s)) (sketch_has_table s) (sketch_has_window s) /\
  i_kxp i = (if negb (merged s) && negb (ncoup s =? 0) then kxp else kxp_empty l) /\
  i_hip i = (if negb (merged s) && negb (ncoup s =? 0) then hip else 0).
Proof.
  intros Hinv Hl Ec H. pose proof Hinv as [C Cn]. pose proof (c_lgk _ _ _ C) as Hlg.
  pose proof (compress_spec l s hist c Hinv Hl Ec) as F. pose proof (nonempty_flags l s Hlg) as Hne.
  unfold image_of_sketch in H. rewrite Ec in H. cbv zeta in H. inversion H; subst i; clear H.
  destruct (flags_byte_bits (negb (merged s)) (sketch_has_table s) (sketch_has_window s)) as (B1 & B2 & B3 & _).
  unfold cstate_of_image, ihh, iht, ihw. cbn [i_pre i_ser i_fam i_lgk i_fic i_flags i_sh i_nc i_tne i_kxp i_hip i_win i_tab].
  rewrite Hlg. repeat split; auto.
  destruct c as [ne tb wn]. f_equal. cbn [c_num_entries c_table c_window] in *.
  destruct (sketch_has_table s) eqn:Et.
  - destruct (cf_tab_some _ _ _ F Et) as (pairs & P1 & _ & _ & P4 & _). cbn [c_num_entries] in P1.
    replace (ncoup s =? 0) with false by (rewrite Hne; reflexivity).
    destruct (sketch_has_window s) eqn:Ew; [reflexivity|]. rewrite P1. symmetry. apply P4. reflexivity.
  - destruct (cf_tab_none _ _ _ F Et) as [_ T2]. cbn [c_num_entries] in T2.
    destruct (ncoup s =? 0); [auto|]. destruct (sketch_has_window s); [reflexivity|]. cbn in Hne. discriminate.
Qed.

(** ** C09 end to end: deserialize(serialize(s)) for every reachable sketch, through both readers.
    The flavor round trip of the compressor (theorem flavor_codec_rt of CpcFlavorProofs.v) enters as the premise [Hu]. *)
Theorem sketch_roundtrip l s hist kxp hip c i t' :
  SInv l s hist -> 4 <= l <= 26 -> kxp < two64 -> hip < two64 ->
  4 * t_num (table s) <= 3 * 2 ^ (6 + l) -> t_num (table s) <= 2 ^ 26 ->
  compress_sketch s = Some c -> image_of_sketch s kxp hip = Some i ->
  uncompress_sketch c l (ncoup s) = Some (t', window s) ->
  let s' := mkS l (seed s) (merged s) (ncoup s) t' (window s) (woff s) (fic s) in
  let kxp' := if negb (merged s) && negb (ncoup s =? 0) then kxp else kxp_empty l in
  let hip' := if negb (merged s) && negb (ncoup s =? 0) then hip else 0 in
  dec_bytes (seed s) (enc_image i) = Some (s', kxp', hip') /\
  (forall rest, dec_stream (seed s) (enc_image i ++ rest) = Some (s', kxp', hip', rest)) /\
  (forall rest, rest <> [] -> dec_bytes (seed s) (enc_image i ++ rest) = None).
Proof.
  intros Hinv Hl Hk Hh Hfit H26 Ec Hi Hu s' kxp' hip'. pose proof Hinv as [C Cn].
  pose proof (image_of_sketch_wf l s hist kxp hip i Hinv Hl Hk Hh Hfit H26 Hi) as W.
  destruct (image_cstate l s hist kxp hip i c Hinv Hl Ec Hi)
    as (I1 & I2 & I3 & I4 & I5 & I6 & I7 & I8 & I9 & I10 & I11 & I12 & I13 & I14).
  assert (Hnum : t_num (table s) = CpcImageDefs.lenN (t_items (table s))) by apply (c_tinv _ _ _ C).
  assert (Hsk : sketch_of_image (seed s) i = Some (s', kxp', hip')).
  { unfold sketch_of_image, image_checks. cbv zeta. fold (ihh i) (iht i) (ihw i).
    rewrite I11, I6, I7, I5, I3, I8, I9, I10, !N.eqb_refl. cbn [andb negb].
    unfold uncompress_checked. rewrite I1, I2.
    rewrite (image_pairs_in_range l s hist c Hinv Hl ltac:(rewrite <- Hnum; exact H26) Ec). rewrite Hu.
    unfold s', kxp', hip'. rewrite negb_involutive, I4, I13, I14, <- (n_off _ _ _ Cn). reflexivity. }
  repeat split.
  - unfold dec_bytes. rewrite (image_rt_bytes i W). exact Hsk.
  - intros rest. unfold dec_stream. rewrite (image_rt_stream i rest W). rewrite Hsk. reflexivity.
  - intros rest Hr. unfold dec_bytes. rewrite (image_trailing_bytes i rest W Hr). reflexivity.
Qed.

(* the advertised size and the header form, at the level of the sketch *)
Theorem sketch_image_size l s hist kxp hip i :
  SInv l s hist -> 4 <= l <= 26 -> kxp < two64 -> hip < two64 ->
  4 * t_num (table s) <= 3 * 2 ^ (6 + l) -> t_num (table s) <= 2 ^ 26 ->
  image_of_sketch s kxp hip = Some i ->
  CpcImageDefs.lenN (enc_image i) = 4 * (i_pre i + CpcImageDefs.lenN (i_tab i) + CpcImageDefs.lenN (i_win i)).
Proof.
  intros Hinv Hl Hk Hh Hfit H26 Hi. apply image_size_ok. apply (image_of_sketch_wf l s hist kxp hip i); assumption.
Qed.

Theorem enc_header_form h s kxp hip b : enc s kxp hip = Some b ->
  enc_header h s kxp hip = Some (repeat 0 (N.to_nat h) ++ b).
Proof. intros H. unfold enc_header. rewrite H. reflexivity. Qed.
(* the invariant, hence the coupon bit matrix, only depends on the SET of pairs in the table: the sketch restored from
   an image (same scalar fields and window, a table with the same pairs) is the same matrix *)
Theorem restored_matrix l s hist t' : SInv l s hist -> TInv t' ->
  (forall y, In y (t_items t') <-> In y (t_items (table s))) ->
  let s' := mkS l (seed s) (merged s) (ncoup s) t' (window s) (woff s) (fic s) in
  SInv l s' hist /\ build_bit_matrix s' = Some (spec_matrix l hist) /\ build_bit_matrix s = Some (spec_matrix l hist).
Proof.
  intros Hinv Ht Hin s'. pose proof Hinv as [C Cn].
  assert (HS : SInv l s' hist).
  { split; constructor; cbn [s' lgk ncoup table window woff fic]; try apply C; try apply Cn; auto.
    - intros v Hv. apply Hin in Hv. destruct (c_items _ _ _ C v Hv) as [H1 H2]. split; auto.
    - intros r c Hr Hc. rewrite (c_bits _ _ _ C) by auto. unfold bitF, in_win, s'. cbn [window woff table].
      rewrite (mem_ext (rcp r c) (t_items t') (t_items (table s))) by exact Hin. reflexivity. }
  split; [exact HS|].
  destruct (bbm_some l s' hist HS) as [m' Hm']. destruct (bbm_some l s hist Hinv) as [m Hm].
  rewrite Hm', Hm. rewrite (abs_is_spec l s' hist m' HS Hm' (c_valid _ _ _ C)).
  rewrite (abs_is_spec l s hist m Hinv Hm (c_valid _ _ _ C)). auto.
Qed.
(* the class of the image by flavor (cpc_compressor::compress) *)
Theorem sketch_class s :
  let fl := determine_flavor (lgk s) (ncoup s) in
  (fl = FL_EMPTY -> sketch_has_table s = false /\ sketch_has_window s = false) /\
  (fl = FL_SPARSE \/ fl = FL_HYBRID -> sketch_has_table s = true /\ sketch_has_window s = false) /\
  (fl = FL_PINNED \/ fl = FL_SLIDING ->
     sketch_has_window s = true /\ (sketch_has_table s = true <-> t_items (table s) <> [])).
Proof.
  unfold sketch_has_table, sketch_has_window. cbv zeta. set (fl := determine_flavor (lgk s) (ncoup s)).
  split; [|split].
  - intros H. rewrite H. split; reflexivity.
  - intros [H|H]; rewrite H; split; reflexivity.
  - intros H. split; [destruct H as [H|H]; rewrite H; reflexivity|].
    assert (E : (fl =? FL_SPARSE) || (fl =? FL_HYBRID) = false) by (destruct H as [H|H]; rewrite H; reflexivity).
    assert (E' : (fl =? FL_PINNED) || (fl =? FL_SLIDING) = true) by (destruct H as [H|H]; rewrite H; reflexivity).
    rewrite E, E'. cbn [orb andb]. destruct (t_items (table s)); split; intros X; try discriminate; try reflexivity; contradiction.
Qed.

(* the header fields of the image of a reachable sketch *)
Theorem sketch_image_fields l s hist kxp hip i : SInv l s hist -> 4 <= l <= 26 ->
  image_of_sketch s kxp hip = Some i ->
  i_pre i = preamble_ints (ncoup s) (negb (merged s)) (sketch_has_table s) (sketch_has_window s) /\
  i_ser i = 1 /\ i_fam i = 16 /\ i_lgk i = l /\ i_fic i = fic s /\
  i_flags i = flags_byte (negb (merged s)) (sketch_has_table s) (sketch_has_window s) /\
  i_sh i = compute_seed_hash (seed s) /\ i_nc i = ncoup s /\
  ihh i = negb (merged s) /\ iht i = sketch_has_table s /\ ihw i = sketch_has_window s.
Proof.
  intros Hinv Hl Hi. unfold image_of_sketch in Hi. destruct (compress_sketch s) as [c|] eqn:Ec; [|discriminate].
  assert (Hi' : image_of_sketch s kxp hip = Some i) by (unfold image_of_sketch; rewrite Ec; exact Hi).
  destruct (image_cstate l s hist kxp hip i c Hinv Hl Ec Hi')
    as (I1 & I2 & I3 & I4 & I5 & I6 & I7 & I8 & I9 & I10 & I11 & I12 & I13 & I14).
  repeat split; assumption.
Qed.
(** ** C11 at the level of sketches *)

(* every strict prefix of the image of a reachable sketch is refused by both readers, whatever the seed *)
Theorem sketch_prefix_rejected l s hist kxp hip i sd n :
  SInv l s hist -> 4 <= l <= 26 -> kxp < two64 -> hip < two64 ->
  4 * t_num (table s) <= 3 * 2 ^ (6 + l) -> t_num (table s) <= 2 ^ 26 ->
  image_of_sketch s kxp hip = Some i -> (n < length (enc_image i))%nat ->
  dec_bytes sd (firstn n (enc_image i)) = None /\ dec_stream sd (firstn n (enc_image i)) = None.
Proof.
  intros Hinv Hl Hk Hh Hfit H26 Hi Hn.
  pose proof (image_of_sketch_wf l s hist kxp hip i Hinv Hl Hk Hh Hfit H26 Hi) as W.
  unfold dec_bytes, dec_stream. rewrite (image_prefix_bytes i n W Hn), (image_prefix_stream i n W Hn). auto.
Qed.

(* ARBITRARY bytes, bytes reader: what an accepted image guarantees *)
Theorem dec_bytes_accepts sd bytes s kxp hip : dec_bytes sd bytes = Some (s, kxp, hip) ->
  exists i, dec_image_bytes bytes = Some i /\
    4 <= lgk s <= 26 /\ lgk s = i_lgk i /\ ncoup s = i_nc i /\
    i_ser i = 1 /\ i_fam i = 16 /\ i_sh i = compute_seed_hash sd /\
    i_pre i = preamble_ints (i_nc i) (ihh i) (iht i) (ihw i) /\
    8 + 4 * (CpcImageDefs.lenN (i_win i) + CpcImageDefs.lenN (i_tab i)) <= CpcImageDefs.lenN bytes /\
    (ncoup s <> 0 -> ncoup s <= 64 * 2 ^ lgk s /\ 4 * i_tne i <= 192 * 2 ^ lgk s /\
                     i_tne i <= 16 * CpcImageDefs.lenN (i_tab i) /\
                     (CpcImageDefs.lenN (i_win i) = 0 \/ 2 ^ lgk s <= 32 * CpcImageDefs.lenN (i_win i))).
Proof.
  unfold dec_bytes. destruct (dec_image_bytes bytes) as [i|] eqn:Ei; [|discriminate]. intros H.
  destruct (sketch_of_image_accepts sd i s kxp hip H) as (A1 & A2 & A3 & A4 & A5 & A6 & A7 & A8 & _).
  destruct (dec_image_bytes_accepts bytes i Ei) as (B1 & B2 & B3 & B4 & B5).
  exists i. rewrite A5, A8. repeat match goal with |- _ /\ _ => split end; try assumption; try lia; try reflexivity.
  intros Hn. destruct (iht i || ihw i) eqn:Ef; [|destruct (B5 eq_refl) as (X & _); contradiction].
  destruct (counts_ok_spec _ _ _ _ _ (B4 eq_refl)) as (C1 & C2 & _ & _ & C5 & C6). repeat split; assumption.
Qed.

(* ARBITRARY bytes, stream reader: never more than the bytes supplied; the counts are bounded by lg_k alone *)
Theorem dec_stream_accepts sd bytes s kxp hip rest : dec_stream sd bytes = Some (s, kxp, hip, rest) ->
  exists i, dec_image_stream bytes = Some (i, rest) /\
    4 <= lgk s <= 26 /\ lgk s = i_lgk i /\ ncoup s = i_nc i /\
    i_ser i = 1 /\ i_fam i = 16 /\ i_sh i = compute_seed_hash sd /\
    i_pre i = preamble_ints (i_nc i) (ihh i) (iht i) (ihw i) /\
    8 + 4 * (CpcImageDefs.lenN (i_win i) + CpcImageDefs.lenN (i_tab i)) + CpcImageDefs.lenN rest <= CpcImageDefs.lenN bytes /\
    CpcImageDefs.lenN (i_win i) <= safe_length_for_compressed_window_buf (2 ^ lgk s).
Proof.
  unfold dec_stream. destruct (dec_image_stream bytes) as [[i r]|] eqn:Ei; [|discriminate].
  destruct (sketch_of_image sd i) as [[[s0 k0] h0]|] eqn:Es; [|discriminate]. intros H. inversion H; subst.
  destruct (sketch_of_image_accepts sd i s kxp hip Es) as (A1 & A2 & A3 & A4 & A5 & A6 & A7 & A8 & _).
  destruct (dec_image_stream_accepts bytes i rest Ei) as (B1 & B2 & B4 & B5).
  exists i. rewrite A5, A8. repeat match goal with |- _ /\ _ => split end; try assumption; try lia; try reflexivity.
  destruct (iht i || ihw i) eqn:Ef.
  - destruct (counts_ok_spec _ _ _ _ _ (B4 eq_refl)) as (_ & _ & C3 & _). exact C3.
  - destruct (B5 eq_refl) as (_ & -> & _). apply N.le_0_l.
Qed.
