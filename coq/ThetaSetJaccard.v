(* ThetaSetJaccard.v — Jaccard similarity, exactly_equal and the ratio bounds in exact mode.
   For two well-formed exact-mode inputs (not empty, theta = MAX) with the object's seed: the union built inside
   jaccard (sized by ceiling_power_of_2(count_a + count_b), clamped to lg_k 5..26) is never trimmed
   ([compute_union_exact], from union_spec), the intersection of A, B and that union is A n B (inter_spec), and the
   three returned doubles are one and the same quotient |A n B| / |A u B| ([jaccard_exact]: as a pair of naturals, or the
   constant 1.0 in the identical-sets shortcut where the two counts are equal); exactly_equal answers true iff the key
   sets are equal ([exactly_equal_exact]); the ratio bounds in the f == 1.0 branch are all count_b / count_a
   ([ratio_bounds_exact]). *)
From Coq Require Import ZArith NArith List Bool Lia Permutation Sorted Arith.
From DS Require Import Word RunnerLib OpenAddr KSmallest Canon ThetaDefs ThetaProofs ThetaRefine ThetaFacts ThetaSetDefs ThetaSetWf ThetaSetUnion ThetaSetInter.
Import ListNotations.
Local Open Scope N_scope.

(* ---- sizing of the union inside jaccard ---- *)
Lemma jaccard_lgk_ok na nb : na + nb <= 2 ^ 26 -> 5 <= jaccard_lgk na nb /\ na + nb <= 2 ^ jaccard_lgk na nb.
Proof.
  intros Hle. unfold jaccard_lgk, ceil_pow2_32.
  assert (Hmod : (na + nb) mod 2 ^ 32 = na + nb).
  { apply N.mod_small. assert ((2:N) ^ 26 < 2 ^ 32) by (apply N.pow_lt_mono_r; lia). lia. }
  rewrite Hmod. set (n := na + nb) in *.
  destruct (N.eqb_spec n 0) as [E|Hne].
  - rewrite E. change (N.log2 0) with 0. split; [lia|]. replace (N.min (N.max 0 5) 26) with 5 by lia. lia.
  - assert (Hup : N.log2_up n <= 26).
    { apply N.log2_up_le_pow2; lia. }
    assert (Hn : n <= 2 ^ N.log2_up n).
    { destruct (N.eq_dec n 1) as [->|H1]; [simpl; lia|]. apply N.log2_up_spec. lia. }
    assert (Hsmall : 2 ^ N.log2_up n mod 2 ^ 32 = 2 ^ N.log2_up n).
    { apply N.mod_small. apply N.pow_lt_mono_r; lia. }
    rewrite Hsmall, N.log2_pow2 by lia. set (x := N.log2_up n) in *. split; [lia|].
    replace (N.min (N.max x 5) 26) with (N.max x 5) by lia.
    etransitivity; [exact Hn|]. apply N.pow_le_mono_r; lia.
Qed.

(* ---- counting with duplicate-free lists ---- *)
Lemma len_same (l1 l2 : list N) : NoDup l1 -> NoDup l2 -> (forall h, In h l1 <-> In h l2) -> length l1 = length l2.
Proof. intros H1 H2 H. apply Permutation_length, NoDup_Permutation; auto. Qed.

Lemma len_union (ku ka kb : list N) : NoDup ku -> (forall h, In h ku <-> In h ka \/ In h kb) ->
  length ku = length (nodup N.eq_dec (ka ++ kb)).
Proof.
  intros Hnd H. apply len_same; auto using NoDup_nodup. intros h. rewrite nodup_In, in_app_iff. apply H.
Qed.

Lemma len_inter (ki ka kb : list N) : NoDup ki -> NoDup ka -> (forall h, In h ki <-> In h ka /\ In h kb) ->
  length ki = length (filter (fun h => mem h kb) ka).
Proof.
  intros Hi Ha H. apply len_same; auto using NoDup_filter'. intros h. rewrite filter_In, mem_In. apply H.
Qed.

Lemma incl_len_eq (l1 l2 : list N) : NoDup l1 -> NoDup l2 -> incl l1 l2 -> length l2 = length l1 -> incl l2 l1.
Proof. intros H1 H2 Hi Hl. apply NoDup_length_incl; auto. lia. Qed.

Section Jaccard.
  Variable S : Type.
  Variable sel : nat -> list (N * S) -> list (N * S).
  Hypothesis sel_ok : forall k l, (k < length l)%nat -> nth_post fst k l (sel k l).
  Variable comb : S -> S -> S.
  Notation input := (input S).

  (* exact mode: not empty, theta = MAX (nothing was sampled out) *)
  Definition exact_mode (i : input) : Prop := in_empty i = false /\ in_theta i = max_theta.

  Lemma in_num_keys (i : input) : in_num i = N.of_nat (length (in_keys i)).
  Proof. unfold in_num, in_keys. now rewrite map_length. Qed.

  Lemma union_result_flag (u : union_st S) o : in_ordered (union_result S sel u o) = true ->
    o = true \/ (length (in_entries (union_result S sel u o)) <= 1)%nat.
  Proof.
    unfold union_result, union_result_gen. destruct (is_empty (u_table u)); unfold mk_result; cbn [in_ordered in_entries].
    - intros _. right. simpl. lia.
    - intros H. apply orb_true_iff in H. destruct H as [H|H]; auto. right. now apply Nat.leb_le.
  Qed.

  Lemma f_is_one_max : f_is_one max_theta = true.
  Proof. reflexivity. Qed.

  (* the union computed inside jaccard / exactly_equal for two exact-mode inputs: never trimmed *)
  Lemma compute_union_exact sh (a b : input) : wf a -> wf b -> exact_mode a -> exact_mode b ->
    in_seed_hash a = sh -> in_seed_hash b = sh -> in_num a + in_num b <= 2 ^ 26 ->
    exists u, compute_union S sel comb sh a b = Some u /\ in_theta u = max_theta /\ in_empty u = false /\
      in_seed_hash u = sh /\ wf u /\ (forall h, In h (in_keys u) <-> In h (in_keys a) \/ In h (in_keys b)).
  Proof.
    intros Hwa Hwb [Hea Hta] [Heb Htb] Hsa Hsb Hsum.
    destruct (jaccard_lgk_ok _ _ Hsum) as [Hlg Hcap]. set (lgk := jaccard_lgk (in_num a) (in_num b)) in *.
    destruct (union_spec S sel sel_ok comb lgk 3 max_theta sh Hlg [a; b]) as (u & Hf & Hres).
    { constructor; [exact Hwa|constructor; [exact Hwb|constructor]]. }
    { constructor; [right; exact Hsa|constructor; [right; exact Hsb|constructor]]. }
    unfold compute_union. fold lgk. unfold union_fold in Hf. cbn [fold_left] in Hf.
    destruct (union_update S sel comb (union_new S lgk 3 max_theta sh) a) as [u1|]; [|discriminate].
    rewrite Hf. eexists. split; [reflexivity|].
    destruct (Hres false) as (Hspec & Hnd & Hrange & Hshu & _). cbv zeta in Hspec, Hnd, Hrange, Hshu.
    set (res := union_result S sel u false) in *.
    (* evaluate the specification *)
    assert (Hkeys : all_keys S [a; b] = in_keys a ++ in_keys b).
    { unfold all_keys. simpl. now rewrite app_nil_r. }
    assert (Hmin : min_theta S max_theta [a; b] = max_theta).
    { unfold min_theta. simpl. rewrite Hea, Heb, Hta, Htb. lia. }
    set (V := keys_below max_theta (in_keys a ++ in_keys b)).
    assert (HinV : forall h, In h V <-> In h (in_keys a) \/ In h (in_keys b)).
    { intros h. unfold V. rewrite in_keys_below, in_app_iff. split; [tauto|]. intros H. split; auto.
      destruct H as [H|H]; [apply (wf_range _ _ Hwa) in H; rewrite Hta in H|apply (wf_range _ _ Hwb) in H; rewrite Htb in H]; lia. }
    assert (HlenV : (length V <= N.to_nat (2 ^ lgk))%nat).
    { assert (Hl : (length V <= length (in_keys a ++ in_keys b))%nat).
      { apply NoDup_incl_length; [apply keys_below_nodup|]. intros h Hh. apply HinV in Hh. now apply in_app_iff. }
      rewrite app_length in Hl. rewrite !in_num_keys in Hcap. lia. }
    unfold spec_union in Hspec. rewrite Hkeys, Hmin in Hspec. fold V in Hspec.
    replace (N.to_nat (2 ^ lgk) <? length V)%nat with false in Hspec by (symmetry; apply Nat.ltb_ge; lia).
    cbn [forallb] in Hspec. rewrite Hea in Hspec. cbn [andb] in Hspec.
    assert (Hth : in_theta res = max_theta) by congruence.
    assert (Hem : in_empty res = false) by congruence.
    assert (Hks : sortN (in_keys res) = V) by congruence.
    assert (Hmem : forall h, In h (in_keys res) <-> In h (in_keys a) \/ In h (in_keys b)).
    { intros h. rewrite <- HinV, <- Hks. symmetry. apply (perm_in_iff h (sortN_perm _)). }
    split; [exact Hth|]. split; [exact Hem|]. split; [exact Hshu|]. split; [|exact Hmem].
    constructor.
    - exact Hnd.
    - exact Hrange.
    - intros Ho. apply union_result_flag in Ho. destruct Ho as [Ho|Ho]; [discriminate|]. fold res in Ho.
      destruct (in_entries res) as [|x [|y l]]; simpl in Ho; try lia; repeat constructor.
    - rewrite Hem. discriminate.
  Qed.

  (* the returned double denotes the quotient i / u: either (double)i / (double)u with u > 0, or the constant 1.0
     returned for identical sets, where i = u *)
  Definition jquot (v : jval) (i u : N) : Prop :=
    (v = JFrac i u /\ 0 < u /\ i <= u) \/ (v = JConst d_one /\ i = u).

  Lemma exact_counts (a b u : input) : wf a -> wf b -> wf u ->
    (forall h, In h (in_keys u) <-> In h (in_keys a) \/ In h (in_keys b)) ->
    in_num u = snd (spec_jaccard S a b) /\
    (in_num a <= in_num u) /\ (in_num b <= in_num u) /\
    (in_num u = in_num a -> in_num u = in_num b -> fst (spec_jaccard S a b) = in_num u /\ spec_equal S a b = true) /\
    (spec_equal S a b = true -> in_num u = in_num a /\ in_num u = in_num b).
  Proof.
    intros Hwa Hwb Hwu Hku. pose proof (wf_nodup _ _ Hwa) as Hna. pose proof (wf_nodup _ _ Hwb) as Hnb.
    pose proof (wf_nodup _ _ Hwu) as Hnu. rewrite !in_num_keys. unfold spec_jaccard, spec_equal. cbn [fst snd].
    set (ka := in_keys a) in *. set (kb := in_keys b) in *. set (ku := in_keys u) in *.
    assert (Hia : incl ka ku) by (intros h Hh; apply Hku; auto).
    assert (Hib : incl kb ku) by (intros h Hh; apply Hku; auto).
    pose proof (NoDup_incl_length Hna Hia) as Hla. pose proof (NoDup_incl_length Hnb Hib) as Hlb.
    split; [f_equal; now apply len_union|]. split; [lia|]. split; [lia|]. split.
    - intros E1 E2. assert (Hua : incl ku ka) by (apply incl_len_eq; auto; lia).
      assert (Hub : incl ku kb) by (apply incl_len_eq; auto; lia).
      split.
      + rewrite (filter_all_true (fun h => mem h kb) ka); [lia|]. apply Forall_forall. intros h Hh. apply mem_In. auto.
      + apply andb_true_iff. split; apply forallb_forall; intros h Hh; apply mem_In; auto.
    - intros E. apply andb_true_iff in E. destruct E as [E1 E2]. rewrite forallb_forall in E1, E2.
      assert (Hab : incl ka kb) by (intros h Hh; apply mem_In, E1, Hh).
      assert (Hba : incl kb ka) by (intros h Hh; apply mem_In, E2, Hh).
      assert (Hua : incl ku ka) by (intros h Hh; apply Hku in Hh; destruct Hh; auto).
      assert (Hub : incl ku kb) by (intros h Hh; apply Hku in Hh; destruct Hh; auto).
      pose proof (NoDup_incl_length Hnu Hua). pose proof (NoDup_incl_length Hnu Hub). lia.
  Qed.

  Lemma identical_exact (a b u : input) : in_theta a = max_theta -> in_theta b = max_theta -> in_theta u = max_theta ->
    identical_sets S a b u = (in_num u =? in_num a) && (in_num u =? in_num b).
  Proof. intros Ha Hb Hu. unfold identical_sets. rewrite Ha, Hb, Hu, N.eqb_refl. now rewrite !andb_true_r. Qed.

  (* exactly_equal in exact mode: true iff the two key sets are equal *)
  Theorem exactly_equal_exact sh (a b : input) : wf a -> wf b -> exact_mode a -> exact_mode b ->
    in_seed_hash a = sh -> in_seed_hash b = sh -> in_num a + in_num b <= 2 ^ 26 ->
    exactly_equal S sel comb sh false a b = Some (spec_equal S a b).
  Proof.
    intros Hwa Hwb Hxa Hxb Hsa Hsb Hsum.
    destruct (compute_union_exact sh a b Hwa Hwb Hxa Hxb Hsa Hsb Hsum) as (u & Hcu & Htu & Heu & Hshu & Hwu & Hku).
    destruct Hxa as [Hea Hta]. destruct Hxb as [Heb Htb].
    unfold exactly_equal. rewrite Hea, Heb. cbn [andb orb]. rewrite Hcu. f_equal.
    rewrite (identical_exact a b u Hta Htb Htu).
    destruct (exact_counts a b u Hwa Hwb Hwu Hku) as (_ & _ & _ & H1 & H2).
    destruct (spec_equal S a b) eqn:Eq.
    - destruct (H2 eq_refl) as [E1 E2]. apply andb_true_iff. split; apply N.eqb_eq; auto.
    - destruct (N.eqb_spec (in_num u) (in_num a)) as [E1|]; auto.
      destruct (N.eqb_spec (in_num u) (in_num b)) as [E2|]; auto.
      destruct (H1 E1 E2) as [_ Hc]. congruence.
  Qed.

  (* jaccard in exact mode: all three returned values are the quotient |A n B| / |A u B| *)
  Theorem jaccard_exact sh (a b : input) : wf a -> wf b -> exact_mode a -> exact_mode b ->
    in_seed_hash a = sh -> in_seed_hash b = sh -> in_num a + in_num b <= 2 ^ 26 ->
    exists v, jaccard S sel comb sh false a b = Some (v, v, v) /\
              jquot v (fst (spec_jaccard S a b)) (snd (spec_jaccard S a b)).
  Proof.
    intros Hwa Hwb Hxa Hxb Hsa Hsb Hsum.
    destruct (compute_union_exact sh a b Hwa Hwb Hxa Hxb Hsa Hsb Hsum) as (u & Hcu & Htu & Heu & Hshu & Hwu & Hku).
    destruct Hxa as [Hea Hta]. destruct Hxb as [Heb Htb].
    destruct (exact_counts a b u Hwa Hwb Hwu Hku) as (Hnu & Hau & Hbu & Hid & _).
    unfold jaccard. rewrite Hea, Heb. cbn [andb orb]. rewrite Hcu.
    rewrite (identical_exact a b u Hta Htb Htu).
    destruct ((in_num u =? in_num a) && (in_num u =? in_num b)) eqn:Eid.
    - (* identical sets: {1, 1, 1} *)
      apply andb_true_iff in Eid. destruct Eid as [E1 E2]. apply N.eqb_eq in E1, E2.
      exists (JConst d_one). split; [reflexivity|]. right. split; auto. destruct (Hid E1 E2) as [Hi _]. now rewrite Hi, Hnu.
    - (* intersection of A, B and the union *)
      destruct (inter_spec S sel comb sh [a; b; u]) as (x & Hf & _ & Hres).
      { discriminate. }
      { constructor; [exact Hwa|constructor; [exact Hwb|constructor; [exact Hwu|constructor]]]. }
      { unfold theta_ok. constructor; [rewrite Hta; lia|constructor; [rewrite Htb; lia|constructor; [rewrite Htu; lia|constructor]]]. }
      { constructor; [right; exact Hsa|constructor; [right; exact Hsb|constructor; [right; exact Hshu|constructor]]]. }
      unfold inter_fold in Hf. cbn [fold_left] in Hf.
      destruct (inter_update S sel comb (inter_new S sh) a) as [x1|]; [|discriminate].
      destruct (inter_update S sel comb x1 b) as [x2|]; [|discriminate].
      rewrite Hf. destruct (Hres false) as (res & Hr & Hspec & Hndr & _). rewrite Hr.
      (* evaluate the specification of the intersection *)
      assert (Hex : existsb in_empty [a; b; u] = false) by (cbn [existsb]; now rewrite Hea, Heb, Heu).
      assert (Hmin : min_theta S max_theta [a; b; u] = max_theta).
      { unfold min_theta. cbn [fold_left]. rewrite Hea, Heb, Heu, Hta, Htb, Htu. lia. }
      unfold spec_inter in Hspec. rewrite Hex, Hmin in Hspec.
      set (ks := keys_below max_theta (filter (fun h => forallb (fun i : input => mem h (in_keys i)) [b; u]) (in_keys a))) in *.
      assert (Htr : in_theta res = max_theta) by congruence.
      assert (Hkr : sortN (in_keys res) = ks) by congruence.
      assert (Hinks : forall h, In h ks <-> In h (in_keys a) /\ In h (in_keys b)).
      { intros h. unfold ks. rewrite in_keys_below, filter_In. cbn [forallb]. rewrite !andb_true_iff, !mem_In. split.
        - tauto.
        - intros [Ha Hb]. split; [|apply (wf_range _ _ Hwa) in Ha; rewrite Hta in Ha; lia].
          split; auto. split; auto. split; auto. apply Hku. auto. }
      assert (Hnr : in_num res = fst (spec_jaccard S a b)).
      { rewrite in_num_keys. unfold spec_jaccard. cbn [fst]. f_equal.
        rewrite <- (Permutation_length (sortN_perm (in_keys res))), Hkr.
        apply len_inter; [apply keys_below_nodup|apply (wf_nodup _ _ Hwa)|exact Hinks]. }
      assert (Hle : in_num res <= in_num u).
      { rewrite !in_num_keys. assert (Hl : (length (in_keys res) <= length (in_keys u))%nat); [|lia].
        apply NoDup_incl_length; auto. intros h Hh. apply Hku. left.
        apply (perm_in_iff h (sortN_perm _)) in Hh. rewrite Hkr in Hh. apply Hinks in Hh. tauto. }
      assert (Hpos : in_num u <> 0).
      { intros E0. rewrite E0 in *. assert (in_num a = 0) by lia. assert (in_num b = 0) by lia.
        replace (in_num a) with 0 in Eid by lia. replace (in_num b) with 0 in Eid by lia. discriminate. }
      exists (JFrac (in_num res) (in_num u)). split.
      + unfold ratio_bounds, ratio_bound, ratio_estimate, count_a_of. rewrite Htu, Htr, N.ltb_irrefl, N.eqb_refl.
        apply N.eqb_neq in Hpos. rewrite Hpos.
        replace (in_num u <? in_num res) with false by (symmetry; apply N.ltb_ge; exact Hle).
        change (max_theta =? 0) with false. rewrite f_is_one_max. reflexivity.
      + left. rewrite <- Hnr, <- Hnu. split; [reflexivity|split; [lia|exact Hle]].
  Qed.

  (* bounds_on_ratios_in_theta_sketched_sets in the f == 1.0 branch: lower bound = estimate = upper bound =
     (number of B's entries) / (number of A's entries below B's theta) *)
  Theorem ratio_bounds_exact (A B : input) : wf A -> in_theta B <= in_theta A -> f_is_one (in_theta B) = true ->
    let '(cb, ca) := spec_ratio S A B in
    0 < ca -> cb <= ca ->
    ratio_bounds S A B = Some (JFrac cb ca, JFrac cb ca, JFrac cb ca).
  Proof.
    intros HwA Hle Hf. unfold spec_ratio. intros Hpos Hba.
    assert (Hca : count_a_of S A B = N.of_nat (length (filter (fun h => h <? in_theta B) (in_keys A)))).
    { unfold count_a_of. destruct (N.eqb_spec (in_theta A) (in_theta B)) as [E|_].
      - rewrite in_num_keys. f_equal. symmetry. f_equal. apply filter_all_true. apply Forall_forall. intros h Hh.
        apply (wf_range _ _ HwA) in Hh. apply N.ltb_lt. lia.
      - f_equal. unfold in_keys. rewrite <- (map_fst_filter (fun h => h <? in_theta B)). now rewrite map_length. }
    unfold ratio_bounds, ratio_bound, ratio_estimate. rewrite Hca.
    replace (in_theta A <? in_theta B) with false by (symmetry; apply N.ltb_ge; exact Hle).
    set (ca := N.of_nat (length (filter (fun h => h <? in_theta B) (in_keys A)))) in *.
    replace (ca =? 0) with false by (symmetry; apply N.eqb_neq; lia).
    replace (ca <? in_num B) with false by (symmetry; apply N.ltb_ge; exact Hba).
    assert (Hnz : (in_theta B =? 0) = false).
    { apply N.eqb_neq. intros E. rewrite E in Hf. discriminate. }
    rewrite Hnz, Hf. reflexivity.
  Qed.
End Jaccard.

Arguments exact_mode {S}.
