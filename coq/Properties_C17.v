(* Properties_C17.v — t-digest: weight conservation, exact extremes, sorted centroids, singleton extremes,
   rank / quantile / CDF / PMF range, monotonicity and coherence, dead tail branches.  Statements only; proofs live in
   TDigestProofs.v (invariants), TDigestQuantile.v, TDigestRank.v, TDigestCdf.v; the defects as found: Regression_tdigest.v.
   [reachable Ops s vs]: s is obtained by ANY history of new / update / merge (of any two reachable digests) / compress /
   get_rank / get_quantile / get_CDF / get_PMF / serialize / deserialize; vs is the ghost list of accepted (non-NaN) values,
   merged digests included. *)
From Coq Require Import ZArith List Bool QArith Lia Sorting.Sorted.
From DS Require Import RunnerLib TDigestDefs TDigestProofs TDigestQuantile TDigestRank TDigestCdf.
Import ListNotations.

(* ---- for ANY number structure (binary64 with NaN and infinities included) ---- *)
Theorem C17_weight : forall (Ops : numops) s vs, reachable Ops s vs ->
  td_total Ops s = Z.of_nat (length vs).
Proof. intros Ops s vs H. exact (proj2 (weight_conservation Ops s vs H)). Qed.

Theorem C17_centroids_weight : forall (Ops : numops) s vs, reachable Ops s vs ->
  t_cw Ops s = sumw Ops (t_cents Ops s).
Proof. intros Ops s vs H. exact (proj1 (weight_conservation Ops s vs H)). Qed.

(* get_rank outside [min, max] and the clamp of the interpolation hold by the shape of the code alone, hence for binary64 too *)
Theorem C17_rank_outside_any : forall (Ops : numops) s v, td_is_empty Ops s = false -> nisnan Ops v = false ->
  (nltb Ops v (t_min Ops s) = true -> snd (td_rank Ops s v) = Some (n0 Ops)) /\
  (nltb Ops v (t_min Ops s) = false -> nltb Ops (t_max Ops s) v = true -> snd (td_rank Ops s v) = Some (n1 Ops)).
Proof. exact reach_rank_outside_any. Qed.

Theorem C17_weighted_average_clamped_any : forall (Ops : numops) x1 w1 x2 w2,
  let r := weighted_average Ops x1 w1 x2 w2 in
  r = nmin Ops x1 x2 \/ r = nmax Ops x1 x2 \/
  (nltb Ops r (nmin Ops x1 x2) = false /\ nltb Ops (nmax Ops x1 x2) r = false).
Proof. exact reach_weighted_average_clamped_any. Qed.

(* ---- exact rationals; ln is an arbitrary function, pinf / ninf bound the streamed values ---- *)
Section Exact.
  Variable ln : Q -> Q.
  Variables pinf ninf : Q.
  Notation QO := (qops ln pinf ninf).

  Theorem C17_is_empty : forall s vs, reachable QO s vs -> bounded pinf ninf vs ->
    (td_is_empty QO s = true <-> vs = []).
  Proof. intros s vs H B. exact (i_empty _ _ _ _ _ (reach_inv ln pinf ninf s vs H B)). Qed.

  (* min_ / max_ are attained by an accepted value and bound all of them *)
  Theorem C17_min_max_exact : forall s vs, reachable QO s vs -> bounded pinf ninf vs -> vs <> [] ->
    is_min (t_min QO s) vs /\ is_max (t_max QO s) vs.
  Proof.
    intros s vs H B Hne. pose proof (reach_inv ln pinf ninf s vs H B) as I.
    split; [exact (i_gmin _ _ _ _ _ I Hne)|exact (i_gmax _ _ _ _ _ I Hne)].
  Qed.

  (* centroid means are non-decreasing, all weights positive *)
  Theorem C17_sorted : forall s vs, reachable QO s vs -> bounded pinf ninf vs ->
    StronglySorted (mle ln pinf ninf) (t_cents QO s) /\ Forall (fun c => (1 <= c_w QO c)%Z) (t_cents QO s).
  Proof.
    intros s vs H B. pose proof (i_c _ _ _ _ _ (reach_inv ln pinf ninf s vs H B)) as C.
    split; [exact (ci_sorted _ _ _ _ C)|exact (ci_pos _ _ _ _ C)].
  Qed.

  (* the first and the last centroid always have weight 1 ... *)
  Theorem C17_extremes_singletons : forall s vs, reachable QO s vs -> bounded pinf ninf vs ->
    (forall f t, t_cents QO s = f :: t -> c_w QO f = 1%Z) /\
    (forall la t, t_cents QO s = t ++ [la] -> c_w QO la = 1%Z).
  Proof.
    intros s vs H B. pose proof (i_c _ _ _ _ _ (reach_inv ln pinf ninf s vs H B)) as C.
    split; [exact (ci_first _ _ _ _ C)|exact (ci_last _ _ _ _ C)].
  Qed.

  (* ... and once the buffer is flushed (as get_rank / get_quantile see the digest) they hold exactly min and max *)
  Theorem C17_extremes_are_min_max : forall s vs, reachable QO s vs -> bounded pinf ninf vs -> vs <> [] ->
    let s' := td_compress QO s in
    t_buf QO s' = [] /\
    (exists f t, t_cents QO s' = f :: t /\ c_mean QO f == t_min QO s' /\ c_w QO f = 1%Z) /\
    (exists la t, t_cents QO s' = t ++ [la] /\ c_mean QO la == t_max QO s' /\ c_w QO la = 1%Z).
  Proof. exact (reach_extremes_are_min_max ln pinf ninf). Qed.
  (* get_quantile (interpolation as repaired by fixes/17_quantile_weights.patch and 17_weighted_average_clamp.patch; the code
     as found is refuted in Regression_tdigest.v): always within [min, max], non-decreasing in the rank, and
     quantile(0) = min, quantile(1) = max — for every reachable digest, any normaliser, exact arithmetic *)
  Theorem C17_quantile_range : forall s vs r q, reachable QO s vs -> bounded pinf ninf vs ->
    snd (td_quantile QO s r) = Some q -> t_min QO s <= q /\ q <= t_max QO s.
  Proof. intros s vs r q H B. exact (td_quantile_range ln pinf ninf s vs r q (reach_inv ln pinf ninf s vs H B)). Qed.

  Theorem C17_quantile_monotone : forall s vs r1 r2 q1 q2, reachable QO s vs -> bounded pinf ninf vs -> r1 <= r2 ->
    snd (td_quantile QO s r1) = Some q1 -> snd (td_quantile QO s r2) = Some q2 -> q1 <= q2.
  Proof. intros s vs r1 r2 q1 q2 H B. exact (td_quantile_mono ln pinf ninf s vs r1 r2 q1 q2 (reach_inv ln pinf ninf s vs H B)). Qed.

  Theorem C17_quantile_ends : forall s vs, reachable QO s vs -> bounded pinf ninf vs -> vs <> [] ->
    exists q0 q1, snd (td_quantile QO s 0) = Some q0 /\ snd (td_quantile QO s 1) = Some q1 /\
                  q0 == t_min QO s /\ q1 == t_max QO s.
  Proof. intros s vs H B. exact (td_quantile_ends ln pinf ninf s vs (reach_inv ln pinf ninf s vs H B)). Qed.
  (* get_rank: within [0,1], 0 below min and 1 above max, non-decreasing in the value *)
  Theorem C17_rank_range : forall s vs v r, reachable QO s vs -> bounded pinf ninf vs ->
    snd (td_rank QO s v) = Some r ->
    0 <= r /\ r <= 1 /\ (v < t_min QO s -> r == 0) /\ (t_max QO s < v -> r == 1).
  Proof. intros s vs v r H B. exact (td_rank_range ln pinf ninf s vs v r (reach_inv ln pinf ninf s vs H B)). Qed.

  Theorem C17_rank_monotone : forall s vs v1 v2 r1 r2, reachable QO s vs -> bounded pinf ninf vs -> v1 <= v2 ->
    snd (td_rank QO s v1) = Some r1 -> snd (td_rank QO s v2) = Some r2 -> r1 <= r2.
  Proof. intros s vs v1 v2 r1 r2 H B. exact (td_rank_mono ln pinf ninf s vs v1 v2 r1 r2 (reach_inv ln pinf ninf s vs H B)). Qed.

  (* get_CDF = get_rank at every split point (on the same digest, flushed or not) followed by 1;
     get_PMF = first differences of get_CDF, summing to 1 *)
  Theorem C17_cdf_is_rank : forall s vs l out, reachable QO s vs -> bounded pinf ninf vs ->
    snd (td_cdf QO s l) = Some out ->
    exists rs, out = rs ++ [1] /\ Forall2 (fun v r => snd (td_rank QO s v) = Some r) l rs.
  Proof. intros s vs l out H B. exact (td_cdf_spec ln pinf ninf s vs l out (reach_inv ln pinf ninf s vs H B)). Qed.

  Theorem C17_pmf_is_cdf_differences : forall s vs l p, reachable QO s vs -> bounded pinf ninf vs ->
    snd (td_pmf QO s l) = Some p ->
    exists c0 ct, snd (td_cdf QO s l) = Some (c0 :: ct) /\ p = c0 :: diffs QO c0 ct /\ qsum p == 1.
  Proof. intros s vs l p H B. exact (td_pmf_spec ln pinf ninf s vs l p (reach_inv ln pinf ninf s vs H B)). Qed.

  (* the tail formulas of get_rank and get_quantile (written for a first / last centroid of weight > 1, the left one of
     get_rank lacking the division by the total weight) cannot execute on a reachable digest: for min <= v <= max neither
     tail test of get_rank fires, and the guards "first weight > 1" / "last weight > 1" of get_quantile are false *)
  Theorem C17_tail_branches_unreachable : forall s vs, reachable QO s vs -> bounded pinf ninf vs -> vs <> [] ->
    let s' := td_compress QO s in
    (forall v, t_min QO s <= v -> v <= t_max QO s ->
       nltb QO v (c_mean QO (cnth QO (t_cents QO s') 0)) = false /\
       nltb QO (c_mean QO (last_c QO (t_cents QO s') (dflt QO))) v = false) /\
    nltb QO (n1 QO) (nofZ QO (c_w QO (cnth QO (t_cents QO s') 0))) = false /\
    nltb QO (n1 QO) (nofZ QO (c_w QO (last_c QO (t_cents QO s') (dflt QO)))) = false.
  Proof. exact (reach_tail_branches_unreachable ln pinf ninf). Qed.
  (* the statement after the interpolation loop of get_quantile (it averages the WEIGHT of the last centroid with max_) cannot
     execute either: between the answers "min" (weight < 1) and "max" (weight > total - 1) the loop always finds its segment *)
  Theorem C17_quantile_fallthrough_unreachable : forall s vs r, reachable QO s vs -> bounded pinf ninf vs -> vs <> [] ->
    let s' := td_compress QO s in
    (2 <= length (t_cents QO s'))%nat ->
    1 <= r * inject_Z (t_cw QO s') -> r * inject_Z (t_cw QO s') <= inject_Z (t_cw QO s') - 1 ->
    q_loop QO (t_cents QO s') (r * inject_Z (t_cw QO s')) (wsf0 ln pinf ninf (t_cents QO s')) <> None.
  Proof. exact (reach_quantile_fallthrough_unreachable ln pinf ninf). Qed.
  (* merging is one of the history steps of [reachable]; spelled out: a merge of two reachable digests represents the
     concatenation of their streams — weight adds up, min / max are the exact extremes of both streams *)
  Corollary C17_merge : forall s vs o vo, reachable QO s vs -> reachable QO o vo -> bounded pinf ninf (vs ++ vo) -> vs ++ vo <> [] ->
    td_total QO (td_merge QO s o) = (Z.of_nat (length vs) + Z.of_nat (length vo))%Z /\
    is_min (t_min QO (td_merge QO s o)) (vs ++ vo) /\ is_max (t_max QO (td_merge QO s o)) (vs ++ vo).
  Proof. exact (reach_merge ln pinf ninf). Qed.
  (* get_PMF is non-negative (so get_CDF is non-decreasing along the split points and within [0,1]) *)
  Theorem C17_pmf_nonnegative : forall s vs l p, reachable QO s vs -> bounded pinf ninf vs ->
    snd (td_pmf QO s l) = Some p -> Forall (fun x => 0 <= x) p.
  Proof. intros s vs l p H B. exact (td_pmf_nonneg ln pinf ninf s vs l p (reach_inv ln pinf ninf s vs H B)). Qed.

  (* every centroid mean and every buffered value lies within [min, max] *)
  Theorem C17_means_within : forall s vs, reachable QO s vs -> bounded pinf ninf vs ->
    Forall (fun c => t_min QO s <= c_mean QO c /\ c_mean QO c <= t_max QO s) (t_cents QO s) /\
    Forall (fun v => t_min QO s <= v /\ v <= t_max QO s) (t_buf QO s).
  Proof. intros s vs H B. exact (means_within ln pinf ninf s vs (reach_inv ln pinf ninf s vs H B)). Qed.
End Exact.

(* ---- non-vacuity: a concrete history over Q (k = 10, normaliser 2k/24, i.e. ln = 0): 30 updates, then compress ---- *)
Definition ex_ops := qops (fun _ => 0) 1000 (-1000).
Definition ex_new : td ex_ops := @Build_td ex_ops 10 false 1000 (-1000) [] 0 [].
Example ex_new_is_new : td_new ex_ops 10 = Some ex_new.
Proof. reflexivity. Qed.
Definition ex_vals (n : nat) : list Q := map (fun i => inject_Z (Z.of_nat ((i * 37) mod 101))) (seq 0 n).
Definition ex_digest : td ex_ops := td_compress ex_ops (fold_left (td_update ex_ops) (ex_vals 30) ex_new).

Lemma ex_reach_aux : forall vs s acc, reachable ex_ops s acc ->
  reachable ex_ops (fold_left (td_update ex_ops) vs s) (acc ++ vs).
Proof.
  induction vs as [|v vs IH]; intros s acc H; simpl.
  - rewrite app_nil_r. exact H.
  - pose proof (IH (td_update ex_ops s v) (acc ++ [v]) (R_update ex_ops s acc v H)) as X.
    rewrite <- app_assoc in X. exact X.
Qed.
Example ex_reachable : reachable ex_ops ex_digest (ex_vals 30).
Proof. apply R_compress. apply (ex_reach_aux (ex_vals 30) ex_new []). exact (R_new ex_ops 10 ex_new ex_new_is_new). Qed.
Example ex_bounded : bounded 1000 (-1000) (ex_vals 30).
Proof. repeat constructor; discriminate. Qed.

Example C17_nonvacuous :
  td_total ex_ops ex_digest = 30%Z /\ Qeq_bool (t_min ex_ops ex_digest) 0 = true /\ Qeq_bool (t_max ex_ops ex_digest) 97 = true /\
  length (t_cents ex_ops ex_digest) = 10%nat /\
  map (c_w ex_ops) (t_cents ex_ops ex_digest) = [1; 1; 2; 4; 7; 7; 4; 2; 1; 1]%Z.
Proof. vm_compute. repeat split; reflexivity. Qed.

(* the quantile theorems are not vacuous: on the example digest get_quantile answers, strictly increases between ranks 0.25 and
   0.30 (both fall between the centroids of weight 4 and 7, where the code as found DEcreased) and hits min and max *)
Example C17_quantile_nonvacuous :
  match snd (td_quantile ex_ops ex_digest (25 # 100)), snd (td_quantile ex_ops ex_digest (30 # 100)),
        snd (td_quantile ex_ops ex_digest 0), snd (td_quantile ex_ops ex_digest 1) with
  | Some a, Some b, Some c, Some d => Qle_bool b a = false /\ Qeq_bool c 0 = true /\ Qeq_bool d 97 = true
  | _, _, _, _ => False
  end.
Proof. vm_compute. repeat split; reflexivity. Qed.

(* rank / CDF / PMF theorems are not vacuous: on the example digest get_rank answers 0 below min, 1 above max, strictly inside
   (0,1) and strictly increasing between; get_CDF and get_PMF answer *)
Example C17_rank_nonvacuous :
  match snd (td_rank ex_ops ex_digest (-1)), snd (td_rank ex_ops ex_digest 8), snd (td_rank ex_ops ex_digest 10),
        snd (td_rank ex_ops ex_digest 98), snd (td_cdf ex_ops ex_digest [8; 10]), snd (td_pmf ex_ops ex_digest [8; 10]) with
  | Some a, Some b, Some c, Some d, Some [c1; c2; c3], Some [p1; p2; p3] =>
      Qeq_bool a 0 = true /\ Qle_bool b 0 = false /\ Qle_bool c b = false /\ Qle_bool 1 c = false /\ Qeq_bool d 1 = true /\
      Qeq_bool c1 b = true /\ Qeq_bool c2 c = true /\ Qeq_bool (p1 + p2 + p3) 1 = true
  | _, _, _, _, _, _ => False
  end.
Proof. vm_compute. repeat split; reflexivity. Qed.

Print Assumptions C17_weight.
Print Assumptions C17_centroids_weight.
Print Assumptions C17_is_empty.
Print Assumptions C17_min_max_exact.
Print Assumptions C17_sorted.
Print Assumptions C17_extremes_singletons.
Print Assumptions C17_extremes_are_min_max.
Print Assumptions C17_quantile_range.
Print Assumptions C17_quantile_monotone.
Print Assumptions C17_quantile_ends.
Print Assumptions C17_rank_range.
Print Assumptions C17_rank_monotone.
Print Assumptions C17_cdf_is_rank.
Print Assumptions C17_pmf_is_cdf_differences.
Print Assumptions C17_tail_branches_unreachable.
Print Assumptions C17_quantile_fallthrough_unreachable.
Print Assumptions C17_merge.
Print Assumptions C17_rank_outside_any.
Print Assumptions C17_weighted_average_clamped_any.
Print Assumptions C17_pmf_nonnegative.
Print Assumptions C17_means_within.
