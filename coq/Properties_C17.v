(* Properties_C17.v — t-digest: weight conservation, exact extremes, sorted centroids, singleton extremes,
   rank / quantile range and monotonicity.  Statements only; proofs live in TDigestProofs.v.
   [reachable Ops s vs]: s is obtained by ANY history of new / update / merge (of any two reachable digests) / compress /
   get_rank / get_quantile / get_CDF / get_PMF / serialize / deserialize; vs is the ghost list of accepted (non-NaN) values,
   merged digests included. *)
From Coq Require Import ZArith List Bool QArith Lia Sorting.Sorted.
From DS Require Import RunnerLib TDigestDefs TDigestProofs TDigestQuantile.
Import ListNotations.

(* ---- for ANY number structure (binary64 with NaN and infinities included) ---- *)
Theorem C17_weight : forall (Ops : numops) s vs, reachable Ops s vs ->
  td_total Ops s = Z.of_nat (length vs).
Proof. intros Ops s vs H. exact (proj2 (weight_conservation Ops s vs H)). Qed.

Theorem C17_centroids_weight : forall (Ops : numops) s vs, reachable Ops s vs ->
  t_cw Ops s = sumw Ops (t_cents Ops s).
Proof. intros Ops s vs H. exact (proj1 (weight_conservation Ops s vs H)). Qed.

(* ---- exact rationals; ln is an arbitrary function, pinf / ninf bound the streamed values ---- *)
Section Exact.
  Variable ln : Q -> Q.
  Variables pinf ninf : Q.
  Notation QO := (qops ln pinf ninf).

  Theorem C17_is_empty : forall s vs, reachable QO s vs -> bounded pinf ninf vs ->
    (td_is_empty QO s = true <-> vs = []).
  Proof. intros s vs H B. exact (i_empty _ _ _ _ _ (reach_inv ln pinf ninf s vs H B)). Qed.

  (* min_ / max_ are attained by an accepted value and bound all of them *)
  Theorem C17_min_max_exact : forall s vs, reachable QO s vs -> bounded pinf ninf vs -> vs <> [] ->
    is_min (t_min QO s) vs /\ is_max (t_max QO s) vs.
  Proof.
    intros s vs H B Hne. pose proof (reach_inv ln pinf ninf s vs H B) as I.
    split; [exact (i_gmin _ _ _ _ _ I Hne)|exact (i_gmax _ _ _ _ _ I Hne)].
  Qed.

  (* centroid means are non-decreasing, all weights positive *)
  Theorem C17_sorted : forall s vs, reachable QO s vs -> bounded pinf ninf vs ->
    StronglySorted (mle ln pinf ninf) (t_cents QO s) /\ Forall (fun c => (1 <= c_w QO c)%Z) (t_cents QO s).
  Proof.
    intros s vs H B. pose proof (i_c _ _ _ _ _ (reach_inv ln pinf ninf s vs H B)) as C.
    split; [exact (ci_sorted _ _ _ _ C)|exact (ci_pos _ _ _ _ C)].
  Qed.

  (* the first and the last centroid always have weight 1 ... *)
  Theorem C17_extremes_singletons : forall s vs, reachable QO s vs -> bounded pinf ninf vs ->
    (forall f t, t_cents QO s = f :: t -> c_w QO f = 1%Z) /\
    (forall la t, t_cents QO s = t ++ [la] -> c_w QO la = 1%Z).
  Proof.
    intros s vs H B. pose proof (i_c _ _ _ _ _ (reach_inv ln pinf ninf s vs H B)) as C.
    split; [exact (ci_first _ _ _ _ C)|exact (ci_last _ _ _ _ C)].
  Qed.

  (* ... and once the buffer is flushed (as get_rank / get_quantile see the digest) they hold exactly min and max *)
  Theorem C17_extremes_are_min_max : forall s vs, reachable QO s vs -> bounded pinf ninf vs -> vs <> [] ->
    let s' := td_compress QO s in
    t_buf QO s' = [] /\
    (exists f t, t_cents QO s' = f :: t /\ c_mean QO f == t_min QO s' /\ c_w QO f = 1%Z) /\
    (exists la t, t_cents QO s' = t ++ [la] /\ c_mean QO la == t_max QO s' /\ c_w QO la = 1%Z).
  Proof.
    intros s vs H B Hne s'. pose proof (reach_inv ln pinf ninf s vs H B) as I.
    assert (E : td_is_empty QO s = false).
    { destruct (td_is_empty QO s) eqn:E; auto. apply (i_empty _ _ _ _ _ I) in E. contradiction. }
    destruct (compress_Good ln pinf ninf s vs I E) as [C _ (f & t & Ef & Mf) (la & t2 & El & Ml)]. fold s' in C, Ef, Mf, El, Ml.
    split; [apply compress_buf|]. split.
    - exists f, t. repeat split; auto. exact (ci_first _ _ _ _ C f t Ef).
    - exists la, t2. repeat split; auto. exact (ci_last _ _ _ _ C la t2 El).
  Qed.
  (* get_quantile (interpolation as repaired by fixes/17_quantile_weights.patch and 17_weighted_average_clamp.patch; the code
     as found is refuted in Regression_tdigest.v): always within [min, max], non-decreasing in the rank, and
     quantile(0) = min, quantile(1) = max — for every reachable digest, any normaliser, exact arithmetic *)
  Theorem C17_quantile_range : forall s vs r q, reachable QO s vs -> bounded pinf ninf vs ->
    snd (td_quantile QO s r) = Some q -> t_min QO s <= q /\ q <= t_max QO s.
  Proof. intros s vs r q H B. exact (td_quantile_range ln pinf ninf s vs r q (reach_inv ln pinf ninf s vs H B)). Qed.

  Theorem C17_quantile_monotone : forall s vs r1 r2 q1 q2, reachable QO s vs -> bounded pinf ninf vs -> r1 <= r2 ->
    snd (td_quantile QO s r1) = Some q1 -> snd (td_quantile QO s r2) = Some q2 -> q1 <= q2.
  Proof. intros s vs r1 r2 q1 q2 H B. exact (td_quantile_mono ln pinf ninf s vs r1 r2 q1 q2 (reach_inv ln pinf ninf s vs H B)). Qed.

  Theorem C17_quantile_ends : forall s vs, reachable QO s vs -> bounded pinf ninf vs -> vs <> [] ->
    exists q0 q1, snd (td_quantile QO s 0) = Some q0 /\ snd (td_quantile QO s 1) = Some q1 /\
                  q0 == t_min QO s /\ q1 == t_max QO s.
  Proof. intros s vs H B. exact (td_quantile_ends ln pinf ninf s vs (reach_inv ln pinf ninf s vs H B)). Qed.
End Exact.

(* ---- non-vacuity: a concrete history over Q (k = 10, normaliser 2k/24, i.e. ln = 0): 30 updates, then compress ---- *)
Definition ex_ops := qops (fun _ => 0) 1000 (-1000).
Definition ex_new : td ex_ops := @Build_td ex_ops 10 false 1000 (-1000) [] 0 [].
Example ex_new_is_new : td_new ex_ops 10 = Some ex_new.
Proof. reflexivity. Qed.
Definition ex_vals (n : nat) : list Q := map (fun i => inject_Z (Z.of_nat ((i * 37) mod 101))) (seq 0 n).
Definition ex_digest : td ex_ops := td_compress ex_ops (fold_left (td_update ex_ops) (ex_vals 30) ex_new).

Lemma ex_reach_aux : forall vs s acc, reachable ex_ops s acc ->
  reachable ex_ops (fold_left (td_update ex_ops) vs s) (acc ++ vs).
Proof.
  induction vs as [|v vs IH]; intros s acc H; simpl.
  - rewrite app_nil_r. exact H.
  - pose proof (IH (td_update ex_ops s v) (acc ++ [v]) (R_update ex_ops s acc v H)) as X.
    rewrite <- app_assoc in X. exact X.
Qed.
Example ex_reachable : reachable ex_ops ex_digest (ex_vals 30).
Proof. apply R_compress. apply (ex_reach_aux (ex_vals 30) ex_new []). exact (R_new ex_ops 10 ex_new ex_new_is_new). Qed.
Example ex_bounded : bounded 1000 (-1000) (ex_vals 30).
Proof. repeat constructor; discriminate. Qed.

Example C17_nonvacuous :
  td_total ex_ops ex_digest = 30%Z /\ Qeq_bool (t_min ex_ops ex_digest) 0 = true /\ Qeq_bool (t_max ex_ops ex_digest) 97 = true /\
  length (t_cents ex_ops ex_digest) = 10%nat /\
  map (c_w ex_ops) (t_cents ex_ops ex_digest) = [1; 1; 2; 4; 7; 7; 4; 2; 1; 1]%Z.
Proof. vm_compute. repeat split; reflexivity. Qed.

(* the quantile theorems are not vacuous: on the example digest get_quantile answers, strictly increases between ranks 0.25 and
   0.30 (both fall between the centroids of weight 4 and 7, where the code as found DEcreased) and hits min and max *)
Example C17_quantile_nonvacuous :
  match snd (td_quantile ex_ops ex_digest (25 # 100)), snd (td_quantile ex_ops ex_digest (30 # 100)),
        snd (td_quantile ex_ops ex_digest 0), snd (td_quantile ex_ops ex_digest 1) with
  | Some a, Some b, Some c, Some d => Qle_bool b a = false /\ Qeq_bool c 0 = true /\ Qeq_bool d 97 = true
  | _, _, _, _ => False
  end.
Proof. vm_compute. repeat split; reflexivity. Qed.

Print Assumptions C17_weight.
Print Assumptions C17_centroids_weight.
Print Assumptions C17_is_empty.
Print Assumptions C17_min_max_exact.
Print Assumptions C17_sorted.
Print Assumptions C17_extremes_singletons.
Print Assumptions C17_extremes_are_min_max.
Print Assumptions C17_quantile_range.
Print Assumptions C17_quantile_monotone.
Print Assumptions C17_quantile_ends.
