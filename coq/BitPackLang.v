(* BitPackLang.v — the little straight-line language into which translators/gen_bitpacking.py
   translates the routines pack_bits_<b> / unpack_bits_<b> of theta/include/bit_packing.hpp,
   with (1) a concrete semantics that makes C's integer promotions explicit (a uint8_t operand is
   promoted to a 32-bit signed int; a left shift of an int that reaches bit 31 is undefined and makes
   the program fail; uint64_t arithmetic wraps; reads of bytes/values that were never written fail;
   writes outside the block fail), (2) a symbolic semantics that tracks, for every bit of every
   intermediate word, which input bit it is (or constant 0), and (3) the soundness theorem relating
   the two for every valuation of the input bits. No proofs about particular programs here. *)
From Coq Require Import NArith List Bool Lia Arith.
Import ListNotations.
Local Open Scope N_scope.

Inductive ty := U8 | I32 | U64.
Definition width (t : ty) : nat := match t with U8 => 8 | I32 => 32 | U64 => 64 end%nat.
Arguments width : simpl never.
Definition promote (t : ty) : ty := match t with U8 => I32 | _ => t end.

Inductive bexp :=
| Val (i : nat)                (* values[i]  : uint64_t *)
| Byte (j : nat)               (* *(ptr + j) : uint8_t *)
| Shl (e : bexp) (n : nat)
| Shr (e : bexp) (n : nat)
| And (e : bexp) (m : N)       (* e & literal *)
| Cast (t : ty) (e : bexp).    (* static_cast<t>(e) *)

Inductive stmt :=
| SetByte (j : nat) (e : bexp) | OrByte (j : nat) (e : bexp)
| SetVal (i : nat) (e : bexp)  | OrVal (i : nat) (e : bexp).

Fixpoint type_of (e : bexp) : ty :=
  match e with
  | Val _ => U64
  | Byte _ => U8
  | Shl e _ | Shr e _ | And e _ => promote (type_of e)
  | Cast t _ => t
  end.

Definition get {A} (l : list (option A)) (i : nat) : option A := nth i l None.
Fixpoint set {A} (l : list (option A)) (i : nat) (v : A) : option (list (option A)) :=
  match l, i with
  | [], _ => None                                   (* write outside the block *)
  | _ :: t, O => Some (Some v :: t)
  | x :: t, S i' => match set t i' v with Some t' => Some (x :: t') | None => None end
  end.

Definition i32bits : nat := 31.
Definition two31 : N := 2 ^ N.of_nat i32bits.
Arguments i32bits : simpl never.

(* ---------------- concrete semantics ---------------- *)
Definition cstate : Type := list (option N) * list (option N).   (* values, bytes *)

Fixpoint eval (s : cstate) (e : bexp) : option N :=
  match e with
  | Val i => get (fst s) i
  | Byte j => get (snd s) j
  | Shl e n =>
      match eval s e with
      | Some v =>
          match promote (type_of e) with
          | I32 => if (n <? 32)%nat && (v * 2 ^ N.of_nat n <? two31) then Some (v * 2 ^ N.of_nat n) else None
          | U64 => if (n <? 64)%nat then Some ((v * 2 ^ N.of_nat n) mod 2 ^ N.of_nat (width U64)) else None
          | U8 => None
          end
      | None => None
      end
  | Shr e n =>
      match eval s e with
      | Some v => if (n <? width (promote (type_of e)))%nat then Some (v / 2 ^ N.of_nat n) else None
      | None => None
      end
  | And e m =>
      match eval s e with
      | Some v => if m <? two31 then Some (N.land v m) else None
      | None => None
      end
  | Cast t e =>
      match eval s e with
      | Some v => match t with I32 => None | _ => Some (v mod 2 ^ N.of_nat (width t)) end
      | None => None
      end
  end.

Definition exec1 (s : cstate) (st : stmt) : option cstate :=
  match st with
  | SetByte j e =>
      match eval s e with
      | Some v => match set (snd s) j (v mod 2 ^ N.of_nat (width U8)) with Some b => Some (fst s, b) | None => None end
      | None => None
      end
  | OrByte j e =>
      match get (snd s) j, eval s e with
      | Some old, Some v => match set (snd s) j (N.lor old v mod 2 ^ N.of_nat (width U8)) with Some b => Some (fst s, b) | None => None end
      | _, _ => None
      end
  | SetVal i e =>
      match eval s e with
      | Some v => match set (fst s) i (v mod 2 ^ N.of_nat (width U64)) with Some b => Some (b, snd s) | None => None end
      | None => None
      end
  | OrVal i e =>
      match get (fst s) i, eval s e with
      | Some old, Some v => match set (fst s) i (N.lor old v mod 2 ^ N.of_nat (width U64)) with Some b => Some (b, snd s) | None => None end
      | _, _ => None
      end
  end.

Fixpoint exec (s : cstate) (p : list stmt) : option cstate :=
  match p with
  | [] => Some s
  | st :: r => match exec1 s st with Some s' => exec s' r | None => None end
  end.

(* ---------------- symbolic semantics ---------------- *)
Inductive src := SV (i k : nat) | SB (j k : nat).     (* bit k of values[i] / of byte j *)
Definition src_eqb (a b : src) : bool :=
  match a, b with
  | SV i k, SV i' k' => Nat.eqb i i' && Nat.eqb k k'
  | SB i k, SB i' k' => Nat.eqb i i' && Nat.eqb k k'
  | _, _ => false
  end.
Definition sbit := option src.                          (* None = constant 0 *)
Definition sword := list sbit.                          (* least significant bit first *)
Definition sstate : Type := list (option sword) * list (option sword).

Definition is_none (b : sbit) : bool := match b with None => true | Some _ => false end.

Fixpoint smask (w : sword) (m : N) : sword :=
  match w with
  | [] => []
  | b :: r => (if N.odd m then b else None) :: smask r (N.div2 m)
  end.

Fixpoint sor (a b : sword) : option sword :=
  match a, b with
  | [], _ => Some b
  | _, [] => Some a
  | x :: ra, y :: rb =>
      match sor ra rb with
      | None => None
      | Some r =>
          match x, y with
          | None, _ => Some (y :: r)
          | _, None => Some (x :: r)
          | Some sx, Some sy => if src_eqb sx sy then Some (x :: r) else None
          end
      end
  end.

Fixpoint seval (s : sstate) (e : bexp) : option sword :=
  match e with
  | Val i => get (fst s) i
  | Byte j => get (snd s) j
  | Shl e n =>
      match seval s e with
      | Some w =>
          let sh := repeat None n ++ w in
          match promote (type_of e) with
          | I32 => if (n <? 32)%nat && forallb is_none (skipn i32bits sh) then Some sh else None
          | U64 => if (n <? 64)%nat then Some (firstn (width U64) sh) else None
          | U8 => None
          end
      | None => None
      end
  | Shr e n =>
      match seval s e with
      | Some w => if (n <? width (promote (type_of e)))%nat then Some (skipn n w) else None
      | None => None
      end
  | And e m =>
      match seval s e with
      | Some w => if m <? two31 then Some (smask w m) else None
      | None => None
      end
  | Cast t e =>
      match seval s e with
      | Some w => match t with I32 => None | _ => Some (firstn (width t) w) end
      | None => None
      end
  end.

Definition sexec1 (s : sstate) (st : stmt) : option sstate :=
  match st with
  | SetByte j e =>
      match seval s e with
      | Some w => match set (snd s) j (firstn (width U8) w) with Some b => Some (fst s, b) | None => None end
      | None => None
      end
  | OrByte j e =>
      match get (snd s) j, seval s e with
      | Some old, Some w =>
          match sor old w with
          | Some o => match set (snd s) j (firstn (width U8) o) with Some b => Some (fst s, b) | None => None end
          | None => None
          end
      | _, _ => None
      end
  | SetVal i e =>
      match seval s e with
      | Some w => match set (fst s) i (firstn (width U64) w) with Some b => Some (b, snd s) | None => None end
      | None => None
      end
  | OrVal i e =>
      match get (fst s) i, seval s e with
      | Some old, Some w =>
          match sor old w with
          | Some o => match set (fst s) i (firstn (width U64) o) with Some b => Some (b, snd s) | None => None end
          | None => None
          end
      | _, _ => None
      end
  end.

Fixpoint sexec (s : sstate) (p : list stmt) : option sstate :=
  match p with
  | [] => Some s
  | st :: r => match sexec1 s st with Some s' => sexec s' r | None => None end
  end.

(* ---------------- denotation of symbolic words ---------------- *)
Section Denote.
  Variable rho : src -> bool.
  Definition bitv (b : sbit) : bool := match b with Some s => rho s | None => false end.
  Fixpoint dw (w : sword) : N :=
    match w with
    | [] => 0
    | b :: r => N.b2n (bitv b) + 2 * dw r
    end.
  Definition dopt (o : option sword) : option N := option_map dw o.
  Definition dstate (s : sstate) : cstate := (map dopt (fst s), map dopt (snd s)).
End Denote.
