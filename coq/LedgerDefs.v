(* LedgerDefs.v — the C19 machine: registers holding objects of the three modelled families (KLL items_,
   theta/tuple entries_, frequent-items keys_/values_/states_), each with its own effect ledger.  Every
   lifecycle operation of the line protocol (construct, update, copy, move, copy-/move-assign, merge by
   reference / by move, reset, trim, destroy, destroy all) is executed by the family model, which emits an
   effect log; the log is judged by the ledger (LedgerCore.apply_all); what the harness observes at rest
   (live items, slots of live item buffers, hygiene flag) is computed FROM THE LEDGER.  Definitions only. *)
From Coq Require Import ZArith NArith List Bool Lia.
From DS Require Import RunnerLib LedgerCore LedgerKll LedgerTup LedgerFi LedgerReq LedgerVo LedgerHll.
Import ListNotations.
Local Open Scope Z_scope.

Inductive ost := OK (s : kll) | OT (s : tup) | OF (s : fim) | OQ (s : req) | OV (s : vo) | OH (s : hsk).
Record obj := { o_st : ost; o_led : ledger }.

Definition kind_of (o : obj) : Z := match o_st o with OK _ => 0 | OT _ => 1 | OF _ => 2 | OQ _ => 3 | OV _ => 4 | OH s => if h_union s then 15 else 7 end.

(* a REQ sketch keeps one ledger per compactor inside its state; the object's ledger is their concatenation *)
Definition mkq (s : req) : obj := {| o_st := OQ s; o_led := q_ledger s |}.

Definition retained (o : obj) : N :=
  match o_st o with OK s => k_retained s | OT s => t_num s | OF s => f_num s | OQ s => q_retained s | OV s => v_retained s | OH _ => 0%N end.
Definition extras (o : obj) : N :=
  match o_st o with OK s => k_extras s | OQ s => q_extras s | _ => 0%N end.

(* run an effect log against a ledger: (ledger, rejected?) *)
Definition judge (X L : ledger) (es : list eff) : ledger * bool :=
  match apply_all X L es with Some L' => (L', false) | None => (L, true) end.

Definition is_nil {A} (l : list A) : bool := match l with [] => true | _ => false end.

(* ---- per-object operations: result = (object', hygiene flag) or None (refused, nothing changed) ---- *)
Definition obj_copy (o : obj) : option (obj * bool) :=
  match o_st o with
  | OQ s => let '(s', bad) := req_copy s in Some (mkq s', bad)
  | _ =>
  let r := match o_st o with
           | OK s => match kll_copy s with Some (s', e) => Some (OK s', e) | None => None end
           | OT s => match tup_copy s with Some (s', e) => Some (OT s', e) | None => None end
           | OF s => match fim_copy s with Some (s', e) => Some (OF s', e) | None => None end
           | OV s => match vo_copy s with Some (s', e) => Some (OV s', e) | None => None end
           | OH s => let '(s', e) := hll_copy s in Some (OH s', e)
           | OQ _ => None
           end in
  match r with
  | None => None
  | Some (st', e) => let '(L, bad) := judge (o_led o) [] e in Some ({| o_st := st'; o_led := L |}, bad)
  end
  end.

(* destructor: flag also when a block survives the destructor (leak) *)
Definition obj_destroy (o : obj) : bool :=
  match o_st o with
  | OQ s => req_destroy s
  | _ =>
  let e := match o_st o with OK s => kll_destroy s | OT s => tup_destroy s | OF s => fim_destroy s | OV s => vo_destroy s | OH s => hll_destroy s | OQ _ => [] end in
  let '(L, bad) := judge [] (o_led o) e in
  bad || negb (is_nil L)
  end.

Definition obj_moved_from (o : obj) : obj :=
  {| o_st := match o_st o with OK s => OK (kll_moved_from s) | OT s => OT (tup_moved_from s) | OF s => OF (fim_moved_from s)
                             | OQ s => OQ (req_moved_from s) | OV s => OV (vo_moved_from s)
                             | OH s => OH (hll_moved_from s) end;
     o_led := [] |}.

Inductive ures := UDone (o : obj) (bad : bool) | URefused (o : obj) (bad : bool).

Definition obj_update (o : obj) (v w : Z) (e : line) : ures :=
  match o_st o with
  | OK s =>
      match kll_update s with
      | Some (s', es) => let '(L, bad) := judge [] (o_led o) es in UDone {| o_st := OK s'; o_led := L |} bad
      | None => URefused o false
      end
  | OT s =>
      match e with
      | h :: _ =>
        match tup_update s (zN h) with
        | Some (s', es) => let '(L, bad) := judge [] (o_led o) es in UDone {| o_st := OT s'; o_led := L |} bad
        | None => URefused o false
        end
      | [] => URefused o false
      end
  | OF s =>
      match e with
      | h :: _ =>
        match fim_update s v (zN h) (zN w) with
        | FDone s' es => let '(L, bad) := judge [] (o_led o) es in UDone {| o_st := OF s'; o_led := L |} bad
        | FThrow => URefused o false
        | FAbort => URefused o true
        end
      | [] => URefused o false
      end
  | OQ s =>
      match req_update s with
      | Some (s', bad) => UDone (mkq s') bad
      | None => URefused o true
      end
  | OV s =>
      match vo_update s (map zN e) with
      | Some (s', es) => let '(L, bad) := judge [] (o_led o) es in UDone {| o_st := OV s'; o_led := L |} bad
      | None => URefused o false
      end
  | OH s =>
      match e with
      | m :: k :: t :: c :: a :: _ =>
          let '(s', es) := hll_reshape s (map zN [m; k; t; c; a]) in
          let '(L, bad) := judge [] (o_led o) es in UDone {| o_st := OH s'; o_led := L |} bad
      | _ => URefused o false
      end
  end.

(* merge of [s] into [r] (by reference or by move) *)
Definition obj_merge (r s : obj) (e : line) : option ures :=
  match o_st r, o_st s with
  | OK a, OK b =>
      let '(a', es, oc) := kll_merge a b in
      let '(L, bad) := judge (o_led s) (o_led r) es in
      let o' := {| o_st := OK a'; o_led := L |} in
      Some (match oc with Done => UDone o' bad | Thrown => URefused o' bad | Abort => URefused o' true end)
  | OF a, OF b =>
      let '(a', es, ok, abort) := fim_merge a b in
      let '(L, bad) := judge (o_led s) (o_led r) es in
      let o' := {| o_st := OF a'; o_led := L |} in
      Some (if ok then UDone o' bad else URefused o' (bad || abort))
  | OH a, OH b =>     (* hll_union::update(sketch): the gadget takes the shape the environment reports *)
      if h_union a && negb (h_union b) then
        match e with
        | m :: k :: t :: c :: x :: _ =>
            let '(a', es) := hll_reshape a (map zN [m; k; t; c; x]) in
            let '(L, bad) := judge (o_led s) (o_led r) es in Some (UDone {| o_st := OH a'; o_led := L |} bad)
        | _ => None
        end
      else None
  | OQ a, OQ b =>
      match req_merge a b with
      | Some (a', bad) => Some (UDone (mkq a') bad)
      | None => if Bool.eqb (q_hra a) (q_hra b) then Some (URefused r true) else None
      end
  | _, _ => None
  end.

Definition obj_reset (o : obj) (e : line) : option (obj * bool) :=
  match o_st o with
  | OH s => match e with
            | m :: k :: t :: c :: a :: _ =>
                let '(s', es) := hll_reshape s (map zN [m; k; t; c; a]) in
                let '(L, bad) := judge [] (o_led o) es in Some ({| o_st := OH s'; o_led := L |}, bad)
            | _ => None end
  | OV s => match vo_reset s with
            | Some (s', es) => let '(L, bad) := judge [] (o_led o) es in Some ({| o_st := OV s'; o_led := L |}, bad)
            | None => None end
  | OT s => match tup_reset s with
            | Some (s', es) => let '(L, bad) := judge [] (o_led o) es in Some ({| o_st := OT s'; o_led := L |}, bad)
            | None => None end
  | _ => None
  end.
Definition obj_trim (o : obj) : option (obj * bool) :=
  match o_st o with
  | OT s => match tup_trim s with
            | Some (s', es) => let '(L, bad) := judge [] (o_led o) es in Some ({| o_st := OT s'; o_led := L |}, bad)
            | None => None end
  | _ => None
  end.

Definition obj_new (kind p1 p2 : Z) : option (obj * bool) :=
  let r := match kind with
           | 0 => if (p1 <? 8) || (65535 <? p1) || (p2 <? 0) || (255 <? p2) then None else let '(s, e) := new_kll (zN p1) in Some (OK s, e)
           | 1 => if (p1 <? 5) || (26 <? p1) || (p2 <? 0) || (3 <? p2) then None
                  else let '(s, e) := new_tup (zN p1) (zN p2) in Some (OT s, e)
           | 2 => if (p1 <? 0) || (p2 <? 0) || (12 <? p1) || (12 <? p2) then None
                  else match new_fim (zN p1) (zN p2) with Some (s, e) => Some (OF s, e) | None => None end
           | 4 => if (p1 <? 1) || (65535 <? p1) || (p2 <? 0) || (3 <? p2) then None
                  else let '(s, e) := new_vo (zN p1) (zN p2) in Some (OV s, e)
           | _ => None
           end in
  match r with
  | None => None
  | Some (st, e) => let '(L, bad) := judge [] [] e in Some ({| o_st := st; o_led := L |}, bad)
  end.

(* HLL sketch / union: six sizeof values, then the shape of the fresh impl *)
Definition obj_new_hll (union : bool) (p1 p2 : Z) (e : line) : option (obj * bool) :=
  if (p1 <? 4) || (21 <? p1) || (p2 <? 0) || (2 <? p2) then None else
  match e with
  | s0 :: s1 :: s2 :: s3 :: s4 :: s5 :: m :: k :: t :: c :: a :: _ =>
      let '(s, es) := hll_build union (map zN [s0; s1; s2; s3; s4; s5]) (map zN [m; k; t; c; a]) in
      let '(L, bad) := judge [] [] es in Some ({| o_st := OH s; o_led := L |}, bad)
  | _ => None
  end.

(* hll_union::get_result(type): a fresh sketch with the shape the environment reports *)
Definition obj_result (u : obj) (e : line) : option (obj * bool) :=
  match o_st u, e with
  | OH s, m :: k :: t :: c :: a :: _ =>
      if h_union s then
        let '(s', es) := hll_build false (h_tab s) (map zN [m; k; t; c; a]) in
        let '(L, bad) := judge (o_led u) [] es in Some ({| o_st := OH s'; o_led := L |}, bad)
      else None
  | _, _ => None
  end.

(* REQ: the table of section sizes comes with the environment line *)
Definition obj_new_req (p1 p2 : Z) (e : line) : option (obj * bool) :=
  if (p1 <? 4) || (255 <? p1) || Z.odd p1 || (p2 <? 0) || (1 <? p2) then None
  else let '(s, bad) := new_req (zN p1) (p2 =? 1) (map zN e) in Some (mkq s, bad).

(* copy assignment r = s as coded everywhere: copy(s); swap(r, copy); the old r dies with the temporary *)
Definition obj_copy_assign (r s : obj) : option (obj * bool) :=
  if negb (kind_of r =? kind_of s) then None else
  match obj_copy s with
  | None => None
  | Some (c, bad1) => Some (c, bad1 || obj_destroy r)
  end.

(* ---- machine ---- *)
Definition regs := list (Z * obj).

Definition live_items (rs : regs) : N :=
  fold_right (fun p acc => (live_slots (o_led (snd p)) + extras (snd p) + acc)%N) 0%N rs.
Definition total_item_slots (rs : regs) : N :=
  fold_right (fun p acc => (item_slots (o_led (snd p)) + acc)%N) 0%N rs.
Definition total_slots (rs : regs) : N :=
  fold_right (fun p acc => (all_slots (o_led (snd p)) + acc)%N) 0%N rs.

Definition rline (status : Z) (ret : N) (rs : regs) (bad : bool) : outline :=
  ([status; Nz ret; Nz (live_items rs); Nz (total_item_slots rs); bz bad], []).
Definition done (rs : regs) (r : Z) (bad : bool) : regs * outline :=
  (rs, rline 1 (match reg_get rs r with Some o => retained o | None => 0%N end) rs bad).
Definition refuse (rs : regs) (bad : bool) : regs * outline := (rs, rline (-1) 0 rs bad).

(* what happens to the moved-from register [s] after a move: destroyed (mode 0) or assigned from [c] *)
Definition follow_up (rs : regs) (s mode c : Z) (bad : bool) : option (regs * bool) :=
  match reg_get rs s with
  | None => None
  | Some os =>
    if mode =? 0 then Some (reg_del rs s, bad || obj_destroy os)
    else match reg_get rs c with
         | None => None
         | Some oc => match obj_copy_assign os oc with
                      | Some (o', b2) => Some (reg_set rs s o', bad || b2)
                      | None => None
                      end
         end
  end.

(* validity of the follow-up, decided before anything is touched *)
Definition follow_ok (rs : regs) (s mode c : Z) : bool :=
  if mode =? 0 then true
  else if c =? s then false
  else match reg_get rs s, reg_get rs c with
       | Some os, Some oc => kind_of os =? kind_of oc
       | _, _ => false
       end.

Definition destroy_all (rs : regs) : bool := existsb (fun p => obj_destroy (snd p)) rs.

Definition arg (l : line) (i : nat) : Z := nth i l 0.

Definition op_new (rs : regs) (a1 a2 a3 a4 : Z) (e : line) : regs * outline :=   (* new r kind p1 p2 *)
      match reg_get rs a1 with
      | Some _ => refuse rs false
      | None => match (if a2 =? 3 then obj_new_req a3 a4 e else if a2 =? 7 then obj_new_hll false a3 a4 e
                       else if a2 =? 15 then obj_new_hll true a3 0 e else obj_new a2 a3 a4) with
                | Some (ob, bad) => done (reg_set rs a1 ob) a1 bad
                | None => refuse rs false
                end
      end.

Definition op_update (rs : regs) (a1 a2 a3 a4 : Z) (e : line) : regs * outline :=   (* update r v w mv *)
      match reg_get rs a1 with
      | None => refuse rs false
      | Some ob => match obj_update ob a2 a3 e with
                   | UDone ob' bad => done (reg_set rs a1 ob') a1 bad
                   | URefused ob' bad => refuse (reg_set rs a1 ob') bad
                   end
      end.

Definition op_copy (rs : regs) (a1 a2 a3 a4 : Z) (e : line) : regs * outline :=   (* r := copy of s *)
      match reg_get rs a1, reg_get rs a2 with
      | None, Some os => match obj_copy os with
                         | Some (c, bad) => done (reg_set rs a1 c) a1 bad
                         | None => refuse rs false
                         end
      | _, _ => refuse rs false
      end.

Definition op_move (rs : regs) (a1 a2 a3 a4 : Z) (e : line) : regs * outline :=   (* r := move(s); follow-up on s *)
      match reg_get rs a1, reg_get rs a2 with
      | None, Some os =>
          if follow_ok rs a2 a3 a4 then
            let rs1 := reg_set (reg_set rs a1 os) a2 (obj_moved_from os) in
            match follow_up rs1 a2 a3 a4 false with
            | Some (rs2, bad) => done rs2 a1 bad
            | None => refuse rs false
            end
          else refuse rs false
      | _, _ => refuse rs false
      end.

Definition op_assign (rs : regs) (a1 a2 a3 a4 : Z) (e : line) : regs * outline :=   (* r = s *)
      match reg_get rs a1, reg_get rs a2 with
      | Some orr, Some os => match obj_copy_assign orr os with
                             | Some (o', bad) => done (reg_set rs a1 o') a1 bad
                             | None => refuse rs false
                             end
      | _, _ => refuse rs false
      end.

Definition op_move_assign (rs : regs) (a1 a2 a3 a4 : Z) (e : line) : regs * outline :=   (* r = move(s) (swap); follow-up on s *)
      match reg_get rs a1, reg_get rs a2 with
      | Some orr, Some os =>
          if a1 =? a2 then done rs a1 false
          else if negb (kind_of orr =? kind_of os) then refuse rs false
          else if follow_ok rs a2 a3 a4 then
            let rs1 := reg_set (reg_set rs a1 os) a2 orr in
            match follow_up rs1 a2 a3 a4 false with
            | Some (rs2, bad) => done rs2 a1 bad
            | None => refuse rs false
            end
          else refuse rs false
      | _, _ => refuse rs false
      end.

Definition op_merge (rs : regs) (a1 a2 a3 a4 : Z) (e : line) : regs * outline :=   (* r.merge(s) *)
      match reg_get rs a1, reg_get rs a2 with
      | Some orr, Some os =>
          if a1 =? a2 then refuse rs false else
          match obj_merge orr os e with
          | Some (UDone o' bad) => done (reg_set rs a1 o') a1 bad
          | Some (URefused o' bad) => refuse (reg_set rs a1 o') bad
          | None => refuse rs false
          end
      | _, _ => refuse rs false
      end.

Definition op_merge_move (rs : regs) (a1 a2 a3 a4 : Z) (e : line) : regs * outline :=   (* r.merge(move(s)); follow-up on s *)
      match reg_get rs a1, reg_get rs a2 with
      | Some orr, Some os =>
          if a1 =? a2 then refuse rs false else
          if follow_ok rs a2 a3 a4 then
            match obj_merge orr os e with
            | Some (UDone o' bad) =>
                match follow_up (reg_set rs a1 o') a2 a3 a4 bad with
                | Some (rs2, bad2) => done rs2 a1 bad2
                | None => refuse rs false
                end
            | Some (URefused o' bad) => refuse (reg_set rs a1 o') bad
            | None => refuse rs false
            end
          else refuse rs false
      | _, _ => refuse rs false
      end.

Definition op_reset (rs : regs) (a1 a2 a3 a4 : Z) (e : line) : regs * outline :=
      match reg_get rs a1 with
      | Some ob => match obj_reset ob e with Some (o', bad) => done (reg_set rs a1 o') a1 bad | None => refuse rs false end
      | None => refuse rs false
      end.

Definition op_destroy (rs : regs) (a1 a2 a3 a4 : Z) (e : line) : regs * outline :=
      match reg_get rs a1 with
      | Some ob => let bad := obj_destroy ob in let rs' := reg_del rs a1 in (rs', rline 1 0 rs' bad)
      | None => refuse rs false
      end.

Definition op_query_copy (rs : regs) (a1 a2 a3 a4 : Z) (e : line) : regs * outline :=  (* { T tmp(r); tmp.query(); } *)
      match reg_get rs a1 with
      | Some ob => match obj_copy ob with
                   | Some (c, bad) => done rs a1 (bad || obj_destroy c)
                   | None => refuse rs false
                   end
      | None => refuse rs false
      end.

Definition op_trim (rs : regs) (a1 a2 a3 a4 : Z) (e : line) : regs * outline :=
      match reg_get rs a1 with
      | Some ob => match obj_trim ob with Some (o', bad) => done (reg_set rs a1 o') a1 bad | None => refuse rs false end
      | None => refuse rs false
      end.

Definition op_chain (rs : regs) (a1 a2 a3 a4 : Z) (e : line) : regs * outline :=  (* a = b = c *)
      match reg_get rs a1, reg_get rs a2, reg_get rs a3 with
      | Some oa, Some ob, Some oc =>
          if negb (kind_of oa =? kind_of ob) || negb (kind_of ob =? kind_of oc) then refuse rs false else
          match obj_copy_assign ob oc with
          | Some (ob', bad1) =>
              let rs1 := reg_set rs a2 ob' in
              match reg_get rs1 a1 with
              | Some oa1 => match obj_copy_assign oa1 ob' with
                            | Some (oa', bad2) => done (reg_set rs1 a1 oa') a1 (bad1 || bad2)
                            | None => refuse rs false
                            end
              | None => refuse rs false
              end
          | None => refuse rs false
          end
      | _, _, _ => refuse rs false
      end.

Definition op_destroy_all (rs : regs) (a1 a2 a3 a4 : Z) (e : line) : regs * outline :=  (* destroy every register: live items, item slots, all slots, live blocks, flag — all 0 when balanced *)
      let bad := destroy_all rs in
      ([], ([0; 0; 0; 0; bz bad], [])).

Definition op_result (rs : regs) (a1 a2 a3 a4 : Z) (e : line) : regs * outline :=
  match reg_get rs a1, reg_get rs a2 with
  | None, Some ou => match obj_result ou e with
                     | Some (ob, bad) => done (reg_set rs a1 ob) a1 bad
                     | None => refuse rs false
                     end
  | _, _ => refuse rs false
  end.

Definition step (rs : regs) (o e : line) : regs * outline :=
  let c := arg o 0 in let a1 := arg o 1 in let a2 := arg o 2 in let a3 := arg o 3 in let a4 := arg o 4 in
  if c =? 1 then op_new rs a1 a2 a3 a4 e else
  if c =? 2 then op_update rs a1 a2 a3 a4 e else
  if c =? 3 then op_copy rs a1 a2 a3 a4 e else
  if c =? 4 then op_move rs a1 a2 a3 a4 e else
  if c =? 5 then op_assign rs a1 a2 a3 a4 e else
  if c =? 6 then op_move_assign rs a1 a2 a3 a4 e else
  if c =? 7 then op_merge rs a1 a2 a3 a4 e else
  if c =? 8 then op_merge_move rs a1 a2 a3 a4 e else
  if c =? 9 then op_reset rs a1 a2 a3 a4 e else
  if c =? 10 then op_destroy rs a1 a2 a3 a4 e else
  if c =? 11 then op_query_copy rs a1 a2 a3 a4 e else
  if c =? 12 then op_trim rs a1 a2 a3 a4 e else
  if c =? 13 then op_chain rs a1 a2 a3 a4 e else
  if c =? 18 then op_result rs a1 a2 a3 a4 e else
  if c =? 99 then op_destroy_all rs a1 a2 a3 a4 e else
  refuse rs false.

Definition run (ops : list opline) : list outline := run_case step [] ops.
