(* Regression_hllcodec.v — the readers BEFORE fixes/11_hll_reader_bounds.patch, kept as theorems about the old behaviour.
   [dec_list_old] is [HllCodecDefs.dec_list] without the check "count = number of coupons present" (and without the lg_k check). *)
From Coq Require Import ZArith NArith List Bool Lia.
From DS Require Import Word RunnerLib HllDefs HllCodecDefs.
Import ListNotations.
Local Open Scope N_scope.

Definition dec_list_old (stream : bool) (bs : list N) : option (dstate * list N) :=
  match take 8 bs with
  | None => None
  | Some (h, r) =>
      if negb (hdr_ok 2 h) then None else
      if negb (N.land (getN h 7) 3 =? 0) then None else
      match ty_of_code (N.land (N.shiftr (getN h 7) 2) 3) with
      | None => None
      | Some ty =>
          let lgk := getN h 3 in
          let f := getN h 5 in
          let compact := flag f 8 in let ooo := flag f 16 in let empty := flag f 4 in
          let cnt := getN h 6 in
          if 8 <? cnt then None else
          let in_image := if compact then cnt else 8 in
          let need := if stream && empty && compact then 0 else in_image in
          match take (4 * need) r with
          | None => None
          | Some (cb, r') =>
              let cps := rd32s cb in
              let arr := if stream then pad_to 8 cps else (if empty then zerosN 8 else pad_to 8 (firstn (N.to_nat cnt) cps)) in
              Some ({| d_impl := IList {| l_lgk := lgk; l_ty := ty; l_ooo := ooo; l_cnt := cnt; l_arr := arr |};
                       d_hip := 0; d_k0 := 0; d_k1 := 0 |}, r')
          end
      end
  end.

(* the old stream reader accepted a list whose count is smaller than the number of coupons it holds: serialize_compact then
   sizes the buffer from the count (8 + 4*1 bytes) and writes every coupon present (three) - the heap overflow of the replay;
   the repaired decoder refuses the same image *)
Theorem old_list_reader_accepts_inconsistent_count_refuted :
  exists bs d r l, dec_list_old true bs = Some (d, r) /\ d_impl d = IList l /\
    l_cnt l < lenN (nonzero (l_arr l)) /\ enc_size true (IList l) < lenN (enc true 0 (IList l)) /\ dec_stream bs = None.
Proof.
  exists ([2; 1; 7; 10; 3; 0; 1; 8] ++ le32 201326597 ++ le32 67108870 ++ le32 134217735 ++ zerosN 20).
  eexists. eexists. eexists. vm_compute. repeat split; reflexivity.
Qed.

(* ... and a list sketch with lg_k 200, on which any later promotion shifts by 200 *)
Theorem old_list_reader_accepts_any_lgk_refuted :
  exists bs d r l, dec_list_old false bs = Some (d, r) /\ d_impl d = IList l /\ l_lgk l = 200 /\ dec_bytes bs = None.
Proof.
  exists [2; 1; 7; 200; 3; 12; 0; 8]. eexists. eexists. eexists. vm_compute. repeat split; reflexivity.
Qed.

Print Assumptions old_list_reader_accepts_inconsistent_count_refuted.
Print Assumptions old_list_reader_accepts_any_lgk_refuted.
