(* Regression_varoptcodec.v — the count check of var_opt_sketch::validate_and_get_target_size BEFORE
   fixes/11_varopt_hr_sum_wrap.patch: h + r was added in uint32 arithmetic, so a full-mode image whose h + r equals k
   only modulo 2^32 was accepted and its h weights / items were copied into arrays of k + 1 slots. *)
From Coq Require Import NArith List Bool Lia.
From DS Require Import Word ThetaCodecDefs VarOptCodecDefs VarOptCodecProofs.
Import ListNotations.
Local Open Scope N_scope.

(* k = 1, n = 2, h = 3, r = 2^32 - 2, total_wt_r = 1.0, three weights 1.0, three items: 80 bytes *)
Definition wrap_image : list N :=
  [196; 2; 13; 0] ++ u32 1 ++ u64 2 ++ u32 3 ++ u32 4294967294 ++ u64 4607182418800017408 ++
  flat_map u64 [4607182418800017408; 4607182418800017408; 4607182418800017408] ++ flat_map u64 [0; 1; 2].

(* the property: what a reader accepts (or has copied when it gives up on the R items) fits the k + 1 slots it allocates *)
Definition weights_fit (cok : N -> N -> N -> N -> N -> bool) : Prop :=
  forall pre k n h r, cok pre k n h r = true -> h <= k.

(* old check: refuted by h = 3, k = 1 *)
Theorem hr_sum_wrap_old_refuted : ~ weights_fit counts_ok_old.
Proof.
  intros P. specialize (P 4 1 2 3 4294967294). assert (E : counts_ok_old 4 1 2 3 4294967294 = true) by reflexivity.
  specialize (P E). vm_compute in P. apply P. reflexivity.
Qed.
(* ... and the old stream reader does read the three weights and items of the 80-byte image before it fails on the R items;
   with an image that also carries 2^32 - 2 items it would accept; the repaired reader rejects at the count check *)
Example hr_sum_wrap_repaired_rejects :
  length wrap_image = 80%nat /\ dec_sk_stream wrap_image = None /\ dec_sk_bytes wrap_image = None /\
  counts_ok 4 1 2 3 4294967294 = false /\ counts_ok_old 4 1 2 3 4294967294 = true.
Proof. vm_compute. repeat split. Qed.
(* repaired check: holds *)
Theorem hr_sum_repaired : weights_fit counts_ok.
Proof.
  intros pre k n h r H. unfold counts_ok in H. destruct (N.leb_spec n k).
  - apply andb_true_iff in H. destruct H as [H _]. apply andb_true_iff in H. destruct H as [_ H]. apply N.eqb_eq in H. lia.
  - apply andb_true_iff in H. destruct H as [_ H]. apply N.eqb_eq in H. lia.
Qed.

Print Assumptions hr_sum_wrap_old_refuted.
Print Assumptions hr_sum_repaired.
