(* CountMinProofs.v — lemmas about the count-min model, for arbitrary row hash functions. *)
From Coq Require Import ZArith NArith List Bool Lia Arith.
From DS Require Import Word RunnerLib CountMinDefs.
Import ListNotations.
Local Open Scope Z_scope.

Section Proofs.
  Variable Item : Type.
  Variable eqb : Item -> Item -> bool.
  Hypothesis eqb_spec : forall a b, eqb a b = true <-> a = b.
  Variable nh nb : nat.
  Variable loc : nat -> Item -> nat.
  Hypothesis loc_lt : forall r x, (loc r x < nb)%nat.

  Notation cm_update := (cm_update Item loc).
  Notation cm_estimate := (cm_estimate Item loc).
  Notation cm_run := (cm_run Item nh nb loc).
  Notation upd_rows := (upd_rows Item loc).
  Notation row_vals := (row_vals Item loc).

  (* weighted sum of the updates whose item satisfies P *)
  Fixpoint wsum (P : Item -> bool) (ops : list (Item * Z)) : Z :=
    match ops with
    | [] => 0
    | (x, w) :: t => (if P x then w else 0) + wsum P t
    end.

  Definition true_w (ops : list (Item * Z)) (x : Item) : Z := wsum (fun y => eqb y x) ops.
  Definition abs_total (ops : list (Item * Z)) : Z := fold_right (fun xw a => Z.abs (snd xw) + a) 0 ops.
  Definition nonneg (ops : list (Item * Z)) : Prop := Forall (fun xw => 0 <= snd xw) ops.

  Definition shape (s : cm) : Prop :=
    length (cells s) = nh /\ Forall (fun row => length row = nb) (cells s).

  Definition cell (s : cm) (r c : nat) : Z := nth c (nth r (cells s) []) 0.

  Lemma wsum_app P a b : wsum P (a ++ b) = wsum P a + wsum P b.
  Proof. induction a as [|[x w] t IH]; simpl; [lia|]. rewrite IH. lia. Qed.

  Lemma wsum_mono P Q ops :
    nonneg ops -> (forall x, P x = true -> Q x = true) -> wsum P ops <= wsum Q ops.
  Proof.
    intros Hn Himp. induction ops as [|[x w] t IH]; simpl; [lia|].
    inversion Hn as [|? ? Hw Ht]; subst. simpl in Hw. specialize (IH Ht).
    destruct (P x) eqn:HP.
    - rewrite (Himp _ HP). lia.
    - destruct (Q x); lia.
  Qed.

  Lemma wsum_true_total ops : nonneg ops -> wsum (fun _ => true) ops = abs_total ops.
  Proof.
    intros Hn. induction ops as [|[x w] t IH]; simpl; [reflexivity|].
    inversion Hn as [|? ? Hw Ht]; subst. simpl in Hw. rewrite (IH Ht). lia.
  Qed.

  Lemma shape_empty : shape (cm_empty nh nb).
  Proof.
    split; simpl.
    - apply repeat_length.
    - apply Forall_forall. intros row Hin. apply repeat_spec in Hin. subst. apply repeat_length.
  Qed.

  Lemma upd_rows_length r rows x w : length (upd_rows r rows x w) = length rows.
  Proof. revert r; induction rows as [|row t IH]; intros r; simpl; auto. Qed.

  Lemma upd_rows_nth r0 rows x w r :
    (r < length rows)%nat ->
    nth r (upd_rows r0 rows x w) [] = upd_nth (loc (r0 + r) x) (fun c => c + w) (nth r rows []).
  Proof.
    revert r0 r; induction rows as [|row t IH]; intros r0 r Hr; simpl in *; [lia|].
    destruct r as [|r].
    - now rewrite Nat.add_0_r.
    - rewrite IH by lia. now rewrite Nat.add_succ_r.
  Qed.

  Lemma shape_update s xw : shape s -> shape (cm_update s xw).
  Proof.
    destruct xw as [x w]. intros [Hl Hr]. split; simpl.
    - now rewrite upd_rows_length.
    - clear Hl. generalize 0%nat. induction (cells s) as [|row t IH]; intros r0; simpl; constructor.
      + rewrite upd_nth_length. now inversion Hr.
      + apply IH. now inversion Hr.
  Qed.

  Lemma cell_update s x w r c :
    shape s -> (r < nh)%nat -> (c < nb)%nat ->
    cell (cm_update s (x, w)) r c = cell s r c + (if Nat.eqb (loc r x) c then w else 0).
  Proof.
    intros [Hl Hr] Hrn Hcn. unfold cell; simpl.
    rewrite upd_rows_nth by lia. simpl.
    assert (Hrow : length (nth r (cells s) []) = nb).
    { rewrite Forall_forall in Hr. apply Hr. apply nth_In. lia. }
    destruct (Nat.eqb_spec (loc r x) c) as [->|Hne].
    - rewrite nth_upd_nth_eq by lia. reflexivity.
    - rewrite nth_upd_nth_neq by assumption. lia.
  Qed.

  Lemma shape_fold ops s : shape s -> shape (fold_left cm_update ops s).
  Proof. revert s; induction ops as [|o t IH]; intros s H; simpl; auto using shape_update. Qed.

  Lemma cell_fold ops s r c :
    shape s -> (r < nh)%nat -> (c < nb)%nat ->
    cell (fold_left cm_update ops s) r c = cell s r c + wsum (fun y => Nat.eqb (loc r y) c) ops.
  Proof.
    revert s; induction ops as [|[x w] t IH]; intros s Hs Hr Hc; cbn [fold_left wsum]; [lia|].
    rewrite IH by auto using shape_update. rewrite cell_update by assumption. lia.
  Qed.

  Lemma nth_repeat_any {A} (a d : A) m n : nth n (repeat a m) d = a \/ nth n (repeat a m) d = d.
  Proof. revert n; induction m as [|m IH]; intros [|n]; simpl; auto. Qed.

  Lemma cell_empty r c : cell (cm_empty nh nb) r c = 0.
  Proof.
    unfold cell; simpl.
    destruct (nth_repeat_any (repeat 0 nb) [] nh r) as [-> | ->].
    - apply nth_repeat.
    - destruct c; reflexivity.
  Qed.

  (* the exact content of every cell after any update sequence *)
  Theorem cell_run ops r c :
    (r < nh)%nat -> (c < nb)%nat ->
    cell (cm_run ops) r c = wsum (fun y => Nat.eqb (loc r y) c) ops.
  Proof.
    intros Hr Hc. unfold cm_run, CountMinDefs.cm_run.
    rewrite cell_fold by auto using shape_empty. now rewrite cell_empty.
  Qed.

  Lemma total_fold ops s : total (fold_left cm_update ops s) = total s + abs_total ops.
  Proof.
    revert s; induction ops as [|[x w] t IH]; intros s; cbn [fold_left]; [unfold abs_total; simpl; lia|].
    rewrite IH. unfold abs_total. simpl. lia.
  Qed.

  Theorem total_run ops : total (cm_run ops) = abs_total ops.
  Proof. unfold cm_run, CountMinDefs.cm_run. now rewrite total_fold. Qed.

  (* estimate = minimum over rows *)
  Lemma row_vals_spec r0 rows x :
    row_vals r0 rows x = map (fun i => nth (loc (r0 + i) x) (nth i rows []) 0) (seq 0 (length rows)).
  Proof.
    revert r0; induction rows as [|row t IH]; intros r0; simpl; [reflexivity|].
    rewrite Nat.add_0_r. f_equal. rewrite IH. rewrite <- seq_shift, map_map.
    apply map_ext. intros i. now rewrite Nat.add_succ_r.
  Qed.

  Lemma fold_min_le l a : fold_left Z.min l a <= a.
  Proof. revert a; induction l as [|b t IH]; intros a; simpl; [lia|]. specialize (IH (Z.min a b)). lia. Qed.

  Lemma fold_min_le_in l a x : In x l -> fold_left Z.min l a <= x.
  Proof.
    revert a; induction l as [|b t IH]; intros a Hin; simpl; [contradiction|].
    destruct Hin as [->|Hin]; [|now apply IH].
    pose proof (fold_min_le t (Z.min a x)). lia.
  Qed.

  Lemma fold_min_ge l a m : m <= a -> (forall x, In x l -> m <= x) -> m <= fold_left Z.min l a.
  Proof.
    revert a; induction l as [|b t IH]; intros a Ha Hall; simpl; [assumption|].
    apply IH; [|intros; apply Hall; now right]. specialize (Hall b (or_introl eq_refl)). lia.
  Qed.

  Lemma min_list_le l x : In x l -> min_list l <= x.
  Proof.
    destruct l as [|a t]; [contradiction|]. simpl. intros [->|Hin].
    - apply fold_min_le.
    - now apply fold_min_le_in.
  Qed.

  Lemma min_list_ge l m : l <> [] -> (forall x, In x l -> m <= x) -> m <= min_list l.
  Proof.
    destruct l as [|a t]; [congruence|]. intros _ Hall. simpl.
    apply fold_min_ge; [apply Hall; now left|]. intros x Hx. apply Hall. now right.
  Qed.

  Lemma estimate_spec s x :
    shape s ->
    cm_estimate s x = min_list (map (fun r => cell s r (loc r x)) (seq 0 nh)).
  Proof.
    intros [Hl _]. unfold cm_estimate, CountMinDefs.cm_estimate. rewrite row_vals_spec, Hl. reflexivity.
  Qed.

  Theorem estimate_ge_true ops x :
    (0 < nh)%nat -> nonneg ops -> true_w ops x <= cm_estimate (cm_run ops) x.
  Proof.
    intros Hnh Hn. rewrite estimate_spec by (apply shape_fold, shape_empty).
    apply min_list_ge.
    - destruct nh; [lia|]. simpl. discriminate.
    - intros v Hv. apply in_map_iff in Hv. destruct Hv as [r [<- Hr]]. apply in_seq in Hr.
      rewrite cell_run by (auto; lia). unfold true_w. apply wsum_mono; [assumption|].
      intros y Hy. apply eqb_spec in Hy. subst. apply Nat.eqb_refl.
  Qed.

  Theorem estimate_le_total ops x :
    (0 < nh)%nat -> nonneg ops -> cm_estimate (cm_run ops) x <= total (cm_run ops).
  Proof.
    intros Hnh Hn. rewrite estimate_spec by (apply shape_fold, shape_empty).
    etransitivity.
    - apply min_list_le with (x := cell (cm_run ops) 0 (loc 0%nat x)).
      apply in_map_iff. exists 0%nat. split; [reflexivity|]. apply in_seq. lia.
    - rewrite cell_run by (auto; lia). rewrite total_run, <- wsum_true_total by assumption.
      apply wsum_mono; auto.
  Qed.

  (* ---- merge ---- *)
  Lemma add_row_upd (a b : list Z) n w :
    map (fun q => fst q + snd q) (combine a (upd_nth n (fun c => c + w) b)) =
    upd_nth n (fun c => c + w) (map (fun q => fst q + snd q) (combine a b)).
  Proof.
    revert b n; induction a as [|x t IH]; intros [|y u] [|n]; simpl; auto.
    - f_equal. lia.
    - f_equal. apply IH.
  Qed.

  Lemma add_rows_upd a b r x w :
    add_rows a (upd_rows r b x w) = upd_rows r (add_rows a b) x w.
  Proof.
    unfold add_rows. revert b r; induction a as [|ra ta IH]; intros [|rb tb] r; simpl; auto.
    f_equal; [apply add_row_upd | apply IH].
  Qed.

  Lemma merge_update a b xw :
    cm_merge a (cm_update b xw) = cm_update (cm_merge a b) xw.
  Proof.
    destruct xw as [x w]. unfold cm_merge; simpl. f_equal; [apply add_rows_upd | lia].
  Qed.

  Lemma merge_fold ops a b :
    cm_merge a (fold_left cm_update ops b) = fold_left cm_update ops (cm_merge a b).
  Proof.
    revert b; induction ops as [|o t IH]; intros b; simpl; [reflexivity|].
    rewrite IH. now rewrite merge_update.
  Qed.

  Lemma add_row_zero (a : list Z) : map (fun q => fst q + snd q) (combine a (repeat 0 (length a))) = a.
  Proof. induction a as [|x t IH]; simpl; [reflexivity|]. rewrite IH. f_equal. lia. Qed.

  Lemma merge_empty a : shape a -> cm_merge a (cm_empty nh nb) = a.
  Proof.
    intros [Hl Hr]. destruct a as [ca ta]. unfold cm_merge; simpl in *. f_equal; [|lia].
    subst nh. unfold add_rows. induction ca as [|row t IH]; simpl; [reflexivity|].
    apply Forall_cons_iff in Hr. destruct Hr as [Hrow Ht]. rewrite IH by assumption. f_equal.
    rewrite <- Hrow. apply add_row_zero.
  Qed.

  (* merging two sketches = one sketch fed the concatenated streams: cells and total *)
  Theorem merge_linear opsa opsb :
    cm_merge (cm_run opsa) (cm_run opsb) = cm_run (opsa ++ opsb).
  Proof.
    unfold cm_run, CountMinDefs.cm_run. rewrite merge_fold, fold_left_app.
    rewrite merge_empty by (apply shape_fold, shape_empty). reflexivity.
  Qed.
End Proofs.
