(* FiCodecDefs.v — executable model of the frequent-items sketch image (fi/include/frequent_items_sketch_impl.hpp):
   writer serialize() (bytes and stream write the same image; serialize(header_size) puts header_size zero bytes in
   front), readers deserialize(bytes, size) and deserialize(istream).  The sketch state and the writer are those of
   FiDefs.v (sk, sk_serialize: the model that C12 proves things about and runs against the code).  Layout (little endian):
     byte 0 preamble longs (1 empty / 4) | 1 serial version = 1 | 2 family id = 10 | 3 lg_max_map_size | 4 lg_cur_map_size
     5 flags (bits 0 and 2 = empty) | 6..7 unused
     then, unless empty: 8..11 number of counters | 12..15 unused | 16..23 total weight (W) | 24..31 offset (W)
     32.. the counters, 8 bytes each, iterator order | then the items in the same order through the serde
     (uint64_t: 8 bytes each; std::string: u32 length + bytes).
   Both readers: preamble longs must match the empty flag, serial version 1, family 10, 3 <= lg_cur <= lg_max; a fresh
   sketch (lg_max, lg_cur) is built; the counters are re-inserted with update() in image order (a zero weight is
   ignored, a negative one — W = int64_t of the string sketch — is refused, equal items are added up, too many items
   resize / purge the map), then total weight and offset are taken from the image.  Bytes after the image are ignored
   (bytes) / not consumed (stream).  Every read outside the supplied bytes is a rejection: deserialize(bytes) tests the
   size before each block; deserialize(istream) is modelled as REPAIRED by fixes/11_fi_stream_reader_checks.patch (stream
   state tested after the preamble and after the counts; the serdes and the final test cover the rest) — the unrepaired
   stream reader used never-read values (Regression note in Properties_C11_fi.v).  Both readers therefore have the same
   verdict and content: one function fi_dec, with the number of bytes consumed for the stream reader.
   Not modelled: the allocation of the 2^lg_cur hash table (sized by the image's lg_cur byte by design), wrap-around of W,
   lg sizes >= 32.  No proofs here. *)
From Coq Require Import ZArith NArith List Bool.
From DS Require Import Word Murmur3 RunnerLib FiDefs.
Import ListNotations.
Local Open Scope Z_scope.

(* W is int64_t for the string sketch (kind 2): two's complement *)
Definition sgn64 (kind v : Z) : Z := if (kind =? 2) && (9223372036854775808 <=? v) then v - 18446744073709551616 else v.

Definition fi_enc (kind : Z) (s : sk) : list Z := sk_serialize kind s.
(* serialize(header_size_bytes) *)
Definition fi_enc_hdr (h : nat) (kind : Z) (s : sk) : list Z := repeat 0 h ++ fi_enc kind s.

(* get_serialized_size_bytes(): 8 if empty, else 32 + 8 * counters + sum of size_of_item *)
Definition item_size (kind : Z) (x : item) : Z := if kind =? 2 then 4 + nz (length x) else 8.
Definition fi_size (kind : Z) (s : sk) : Z :=
  let m := sk_map _ s in
  if nact _ m =? 0 then 8
  else 32 + 8 * nact _ m + fold_right (fun c acc => item_size kind (ck _ c) + acc) 0 (entries item m).

Definition hdr_ok (pl sv fam lgmax lgcur : Z) (empty : bool) : bool :=
  (pl =? (if empty then 1 else 4)) && (sv =? 1) && (fam =? 10) && (lgcur <=? lgmax) && (3 <=? lgcur).

(* FiDefs.de_items with the string length tested against the remaining bytes BEFORE it is used (as serde<std::string> does);
   same function (FiCodecProofs.de_items_g_eq), but no unary number is built from an unchecked field *)
Fixpoint de_items_g (kind : Z) (n : nat) (l : list Z) : option (list item * list Z) :=
  match n with
  | O => Some ([], l)
  | S k =>
      if kind =? 2 then
        match split_at 4 l with
        | None => None
        | Some (lb, r) =>
            if Z.of_nat (length r) <? le_dec lb then None else
            match split_at (Z.to_nat (le_dec lb)) r with
            | None => None
            | Some (x, r2) => match de_items_g kind k r2 with
                              | None => None
                              | Some (xs, r3) => Some (x :: xs, r3)
                              end
            end
        end
      else
        match split_at 8 l with
        | None => None
        | Some (b, r) => match de_items_g kind k r with
                         | None => None
                         | Some (xs, r3) => Some ([le_dec b] :: xs, r3)
                         end
        end
  end.

(* what follows the first preamble long of a non-empty image; s0 = the fresh sketch, total = length of all supplied bytes *)
Definition fi_dec_body (kind : Z) (s0 : sk) (total : nat) (rest : list Z) : option (sk * nat) :=
  match split_at 4 rest with None => None | Some (nb, r1) =>
  match split_at 4 r1 with None => None | Some (_, r2) =>
  match split_at 8 r2 with None => None | Some (tb, r3) =>
  match split_at 8 r3 with None => None | Some (ob, r4) =>
  (* ensure_minimum_memory(size, 32 + 8 * num_items) / the stream runs dry: the count is tested before it is used *)
  if Z.of_nat (length r4) <? 8 * le_dec nb then None else
  let n := Z.to_nat (le_dec nb) in
  match de_weights n r4 with None => None | Some (ws, r5) =>
  match de_items_g kind n r5 with None => None | Some (xs, r6) =>
    let ws' := map (sgn64 kind) ws in
    if existsb (fun w => w <? 0) ws' then None else
    let s1 := fold_left (fun s xw => upd kind s (fst xw) (snd xw)) (combine xs ws') s0 in
    Some ({| sk_tot := sgn64 kind (le_dec tb); sk_off := sgn64 kind (le_dec ob); sk_map := sk_map _ s1 |},
          (total - length r6)%nat)
  end end end end end end.

Definition fi_dec (kind : Z) (bs : list Z) : option (sk * nat) :=
  match bs with
  | pl :: sv :: fam :: lgmax :: lgcur :: flags :: _ :: _ :: rest =>
      let empty := negb (Z.land flags 5 =? 0) in
      if negb (hdr_ok pl sv fam lgmax lgcur empty) then None else
      let s0 := sk_new item (zN lgmax) (zN lgcur) in
      if empty then Some (s0, 8%nat) else fi_dec_body kind s0 (length bs) rest
  | _ => None
  end.

Definition fi_dec_bytes (kind : Z) (bs : list Z) : option sk := option_map fst (fi_dec kind bs).
Definition fi_dec_stream (kind : Z) (bs : list Z) : option (sk * nat) := fi_dec kind bs.

(* ---- line protocol (harness/drv_ficodec.cpp) ----
   1 r kind lg_max lg_start { w len item.. }  build by updates; R = image bytes
   5 r path cut pos val ntrail              mangled image of r through reader path 0 (bytes) / 1 (stream)
   6 r path { w len item.. }                read the image back, same updates on the original and the restored sketch; R = both
   7 r path                                 read the image back, serialize the restored sketch; R = 1, 32 preamble bytes, sorted counters
   3 kind byte.. / 4 kind byte..            explicit image through the bytes / stream reader
   decoded sketch: 1 [used] lg_max lg_cur total offset n, then per counter sorted by item: len item.. w *)
Fixpoint parse_updates (fuel : nat) (t : line) : list (item * Z) :=
  match fuel with
  | O => []
  | S f => match t with
           | w :: len :: rest => (firstn (Z.to_nat len) rest, w) :: parse_updates f (skipn (Z.to_nat len) rest)
           | _ => []
           end
  end.

Definition apply_updates (kind : Z) (s : sk) (t : line) : sk :=
  fold_left (fun s xw => upd kind s (fst xw) (snd xw)) (parse_updates (length t) t) s.

Definition show (s : sk) : line :=
  let m := sk_map _ s in
  [Nz (lgm _ m); Nz (lgc _ m); sk_tot _ s; sk_off _ s; nact _ m] ++
  flat_map (fun c => enc_item (ck _ c) ++ [cv _ c]) (rows_by_item (entries item m)).

Definition mangle (img : list Z) (cut pos val ntrail : Z) : list Z :=
  let a := if cut <? 0 then img else firstn (Z.to_nat cut) img in
  let b := if pos <? 0 then a else upd_nth (Z.to_nat pos) (fun _ => val) a in
  b ++ repeat 165 (Z.to_nat ntrail).

Definition show_dec (kind path : Z) (bytes : list Z) : line :=
  match fi_dec kind bytes with
  | Some (s, used) => 1 :: (if path =? 0 then [] else [nz used]) ++ show s
  | None => refused
  end.

Definition cregs := list (Z * (Z * sk)).

Definition step (st : cregs) (o e : line) : cregs * outline :=
  match o with
  | opc :: r :: rest =>
      if opc =? 1 then
        match rest with
        | kind :: lgmax :: lgstart :: ups =>
            if (lgmax <? lgstart) || negb ((kind =? 0) || (kind =? 2)) then (st, (refused, [])) else
            let s := apply_updates kind (sk_new item (zN lgmax) (zN lgstart)) ups in
            (reg_set st r (kind, s), (fi_enc kind s, []))
        | _ => (st, (refused, []))
        end
      else if opc =? 5 then
        match reg_get st r, rest with
        | Some (kind, s), path :: cut :: pos :: val :: ntrail :: _ =>
            (st, (show_dec kind path (mangle (fi_enc kind s) cut pos val ntrail), []))
        | _, _ => (st, (refused, []))
        end
      else if opc =? 6 then
        match reg_get st r, rest with
        | Some (kind, s), path :: ups =>
            match fi_dec kind (fi_enc kind s) with
            | Some (s', _) => (st, (1 :: show (apply_updates kind s ups) ++ [-7] ++ show (apply_updates kind s' ups), []))
            | None => (st, (refused, []))
            end
        | _, _ => (st, (refused, []))
        end
      else if opc =? 7 then
        match reg_get st r with
        | Some (kind, s) =>
            match fi_dec kind (fi_enc kind s) with
            | Some (s', _) => (st, (1 :: firstn 32 (fi_enc kind s') ++ skipn 5 (show s'), []))
            | None => (st, (refused, []))
            end
        | None => (st, (refused, []))
        end
      else if opc =? 3 then (st, (show_dec r 0 rest, []))
      else if opc =? 4 then (st, (show_dec r 1 rest, []))
      else (st, ([-2], []))
  | _ => (st, ([-2], []))
  end.

Definition run (ops : list opline) : list outline := run_case step [] ops.
