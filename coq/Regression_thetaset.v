(* Regression_thetaset.v — the Theta set operations BEFORE the two repairs of property C02.
   (1) intersection BEFORE fixes/02_intersection_empty_order.patch.
   theta_intersection_base::update set table_.is_empty_ when an update found no match while theta was still MAX
   ("empty in exact mode"); from then on `if (table_.is_empty_) return;` ignored every later input, so an
   estimation-mode input arriving afterwards no longer lowered theta: the result was {theta = MAX, empty} although
   the minimum input theta is smaller, and feeding the same inputs in another order gave {theta = min, not empty}.
   The old behaviour is [inter_update_gen true] / [inter_result_gen true] of ThetaSetDefs.v; the repaired code
   ([inter_update], [inter_result], emptiness derived in get_result) satisfies intersection_perm for all inputs
   (Properties_C02.v).
   (2) union BEFORE fixes/02_union_empty_theta.patch: get_result() of a union that saw only empty inputs returned
   union_theta_, i.e. the starting theta of a union built with p < 1: an EMPTY sketch with theta < MAX_THETA.  The
   serialized forms of an empty sketch do not carry theta, so the wrapped/deserialized form of that very result reports
   MAX_THETA: operations fed with it gave different results depending on the physical form ([union_result_gen true]). *)
From Coq Require Import ZArith NArith List Bool Lia Permutation Sorted.
From DS Require Import Word RunnerLib OpenAddr KSmallest Canon ThetaDefs ThetaFacts ThetaSetDefs ThetaSetWf ThetaSetUnion.
Import ListNotations.
Local Open Scope N_scope.

Definition inter_fold_old (x0 : inter_st unit) (ins : list tinput) : option (inter_st unit) :=
  fold_left (fun ox i => match ox with Some x => inter_update_gen unit sel_sort comb_unit true x i | None => None end)
            ins (Some x0).
Definition inter_fold_new (x0 : inter_st unit) (ins : list tinput) : option (inter_st unit) :=
  fold_left (fun ox i => match ox with Some x => inter_update unit sel_sort comb_unit x i | None => None end)
            ins (Some x0).

Definition obs_old (ins : list tinput) : option (N * bool * list N) :=
  match inter_fold_old (inter_new unit 0) ins with
  | Some x => match inter_result_gen unit true x true with
              | Some r => Some (in_theta r, in_empty r, sortN (in_keys r))
              | None => None
              end
  | None => None
  end.
Definition obs_new (ins : list tinput) : option (N * bool * list N) :=
  match inter_fold_new (inter_new unit 0) ins with
  | Some x => match inter_result unit x true with
              | Some r => Some (in_theta r, in_empty r, sortN (in_keys r))
              | None => None
              end
  | None => None
  end.

(* two disjoint exact-mode sketches and one estimation-mode sketch *)
Definition wA : tinput := mk_input unit max_theta false true 0 [(10, tt)].
Definition wB : tinput := mk_input unit max_theta false true 0 [(20, tt)].
Definition wC : tinput := mk_input unit 100 false true 0 [(5, tt)].

Lemma wf_single th h : 0 < h < th -> wf (mk_input unit th false true 0 [(h, tt)]).
Proof.
  intros Hh. constructor; unfold in_keys; cbn [in_entries in_theta in_ordered in_empty map fst].
  - repeat constructor. intros [].
  - intros x [<-|[]]. exact Hh.
  - intros _. repeat constructor.
  - discriminate.
Qed.

Lemma witnesses_wf : Forall wf [wA; wB; wC].
Proof. constructor; [|constructor; [|constructor; [|constructor]]]; apply wf_single; unfold max_theta; lia. Qed.

(* the property "the result does not depend on the order in which inputs are presented" fails for the old code *)
Theorem intersection_perm_old_refuted :
  exists ins ins' : list tinput, Permutation ins ins' /\ Forall wf ins /\ Forall (seed_ok 0) ins /\
    ~ (obs_old ins = obs_old ins').
Proof.
  exists [wA; wB; wC], [wC; wA; wB]. split; [|split; [exact witnesses_wf|split]].
  - apply Permutation_sym. change [wC; wA; wB] with ([wC] ++ [wA; wB]). change [wA; wB; wC] with ([wA; wB] ++ [wC]).
    apply Permutation_app_comm.
  - repeat constructor; right; reflexivity.
  - vm_compute. discriminate.
Qed.

(* ... and the old result's theta is not the minimum input theta *)
Theorem intersection_theta_old_refuted :
  exists ins : list tinput, Forall wf ins /\ Forall (seed_ok 0) ins /\
    ~ (obs_old ins = Some (spec_inter unit ins)).
Proof.
  exists [wA; wB; wC]. split; [exact witnesses_wf|split].
  - repeat constructor; right; reflexivity.
  - vm_compute. discriminate.
Qed.

(* the repaired code on the same inputs: both orders give the set expression *)
Example intersection_repaired_on_witness :
  obs_new [wA; wB; wC] = Some (spec_inter unit [wA; wB; wC]) /\
  obs_new [wC; wA; wB] = obs_new [wA; wB; wC] /\ obs_new [wA; wB; wC] = Some (100, false, []).
Proof. vm_compute. repeat split; reflexivity. Qed.

(* ---- (2) the empty union of a p < 1 union object ---- *)
Definition empty_input : tinput := mk_input unit max_theta true true 0 [].

Lemma empty_input_wf : wf empty_input.
Proof.
  constructor; unfold in_keys; cbn [in_entries in_theta in_ordered in_empty map].
  - constructor.
  - intros h [].
  - intros _. constructor.
  - intros _. split; reflexivity.
Qed.

(* "an empty result has theta = MAX" (the documented empty form; what every other source of sketches guarantees and what
   [wf] demands of an input) fails for the old get_result: a union with p = 0.5 fed one empty sketch *)
Theorem union_empty_theta_old_refuted :
  exists (th0 : N) (ins : list tinput), Forall wf ins /\ Forall (seed_ok 0) ins /\
    exists u, union_fold unit sel_sort comb_unit (union_new unit 5 0 th0 0) ins = Some u /\
      ~ (in_empty (union_result_gen unit sel_sort true u true) = true ->
         in_theta (union_result_gen unit sel_sort true u true) = max_theta).
Proof.
  exists (2 ^ 62), [empty_input]. split; [constructor; [exact empty_input_wf|constructor]|].
  split; [constructor; [left; reflexivity|constructor]|].
  eexists. split; [vm_compute; reflexivity|]. vm_compute. intros H. specialize (H eq_refl). discriminate.
Qed.

(* ... and so the result depended on the physical form of an operand: A-not-B with the old empty union result U as B
   (theta 2^62, as stored) vs. its serialized form (theta MAX), A = a non-empty sketch without entries and theta 2^62 + 5 *)
Theorem a_not_b_form_old_refuted :
  exists (a u u_wrapped : tinput), in_empty u = true /\ in_entries u = [] /\
    u_wrapped = mk_input unit max_theta true true 0 [] /\
    (exists x, union_fold unit sel_sort comb_unit (union_new unit 5 0 (2 ^ 62) 0) [empty_input] = Some x /\
               u = union_result_gen unit sel_sort true x false) /\
    ~ (option_map (@in_theta unit) (a_not_b unit 0 a u false) = option_map (@in_theta unit) (a_not_b unit 0 a u_wrapped false)).
Proof.
  exists (mk_input unit (2 ^ 62 + 5) false true 0 []).
  exists (union_result_gen unit sel_sort true (union_new unit 5 0 (2 ^ 62) 0) false).
  eexists. split; [vm_compute; reflexivity|]. split; [vm_compute; reflexivity|]. split; [reflexivity|]. split.
  - exists (union_new unit 5 0 (2 ^ 62) 0). split; [vm_compute; reflexivity|reflexivity].
  - vm_compute. discriminate.
Qed.

(* the repaired code: MAX_THETA *)
Example union_empty_repaired :
  option_map (fun u => (in_theta (union_result unit sel_sort u true), in_empty (union_result unit sel_sort u true)))
             (union_fold unit sel_sort comb_unit (union_new unit 5 0 (2 ^ 62) 0) [empty_input]) = Some (max_theta, true).
Proof. vm_compute. reflexivity. Qed.

Print Assumptions intersection_perm_old_refuted.
Print Assumptions intersection_theta_old_refuted.
Print Assumptions union_empty_theta_old_refuted.
Print Assumptions a_not_b_form_old_refuted.
