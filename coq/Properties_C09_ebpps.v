(* Properties_C09_ebpps.v — being filled in *)
From Coq Require Import NArith List.
From DS Require Import EbppsCodecDefs.
Theorem C09_ebpps_stub : sk_empty (empty_sk 3) = true.
Proof. reflexivity. Qed.
Print Assumptions C09_ebpps_stub.
