(* Properties_C09_ebpps.v — the EBPPS sketch image round-trips: both readers give back exactly the content that was
   written (hence an observationally identical sketch that re-serializes to the same bytes), trailing bytes are not
   consumed, the image has exactly the advertised size, a header of h bytes is h zero bytes followed by the same image.
   Only statements; proofs live in EbppsCodecProofs.v.  The model is EbppsCodecDefs.v (doubles as 64-bit patterns).
   [wf] is the content of every sketch the code can hold in a consistent state: k in 1..2^31-2; an empty sketch is
   exactly ebpps_sketch(k); otherwise 64-bit patterns, floor(C) full items and a partial item iff C has a fractional
   part -- the shape proved for every history over exact arithmetic in Properties_C18.v (C18_shape). *)
From Coq Require Import NArith List Bool Lia Arith.
From DS Require Import Word ThetaCodecDefs EbppsCodecDefs EbppsCodecProofs.
Import ListNotations.
Local Open Scope N_scope.

(* deserialize(bytes): the image, followed by anything, is read back as the same content *)
Theorem C09_ebpps_roundtrip_bytes : forall s, wf s -> forall rest, dec_bytes (enc s ++ rest) = Some s.
Proof. exact roundtrip_bytes. Qed.

(* deserialize(istream): the same, and the reader consumes exactly the image *)
Theorem C09_ebpps_roundtrip_stream : forall s, wf s -> forall rest,
  dec_stream (enc s ++ rest) = Some (s, length (enc s)).
Proof. exact roundtrip_stream. Qed.

(* hence the restored sketch re-serializes to the same image, byte for byte *)
Theorem C09_ebpps_reserialize_identical : forall s, wf s -> forall rest s',
  dec_bytes (enc s ++ rest) = Some s' -> enc s' = enc s.
Proof. intros s W rest s' H. rewrite (roundtrip_bytes s W rest) in H. now injection H as <-. Qed.

(* the image has exactly the advertised size *)
Theorem C09_ebpps_size : forall s, wf s -> N.of_nat (length (enc s)) = serialized_size s.
Proof. exact enc_size. Qed.

(* serialize(h): h zero bytes, then the same image *)
Theorem C09_ebpps_header_form : forall h s,
  firstn h (enc_hdr h s) = repeat 0 h /\ skipn h (enc_hdr h s) = enc s /\ length (enc_hdr h s) = (h + length (enc s))%nat.
Proof. exact enc_hdr_form. Qed.

(* non-vacuity: k = 4, n = 3, W = 3.0, w_max = 1.0, rho = 1.0, C = 2.5: two full items (one of them -1) and a partial item;
   an empty sketch; a sketch with one partial item only (C = 1 - 2^-53) *)
Definition C09_ex : esk :=
  {| e_k := 4; e_n := 3; e_cw := 4613937818241073152; e_wmax := 4607182418800017408; e_rho := 4607182418800017408;
     e_c := 4612811918334230528; e_data := [7; 18446744073709551615]; e_part := Some 5 |}.
Definition C09_ex_partial_only : esk :=
  {| e_k := 1; e_n := 1; e_cw := 4632092954238156800; e_wmax := 4632092954238156800; e_rho := 4581421828931458171;
     e_c := 4607182418800017407; e_data := []; e_part := Some 9 |}.

Ltac wf_tac ex := unfold wf; change (sk_empty ex) with false; cbv iota; unfold wf_sample, lt64;
  cbn [e_k e_n e_cw e_wmax e_rho e_c e_data e_part ex]; repeat split; try discriminate; repeat constructor.
Lemma C09_ex_wf : wf C09_ex.
Proof. wf_tac C09_ex. Qed.
Lemma C09_ex_partial_only_wf : wf C09_ex_partial_only.
Proof. wf_tac C09_ex_partial_only. Qed.
Lemma C09_ex_empty_wf : wf (empty_sk 7).
Proof. unfold wf. change (sk_empty (empty_sk 7)) with true. cbv iota. repeat split; discriminate. Qed.

Example C09_ebpps_nonvacuous :
  length (enc C09_ex) = 72%nat /\ dec_bytes (enc C09_ex ++ [1; 2; 3]) = Some C09_ex /\
  dec_stream (enc C09_ex ++ [1; 2; 3]) = Some (C09_ex, 72%nat) /\
  enc (empty_sk 7) = [1; 1; 19; 4; 7; 0; 0; 0] /\ dec_stream (enc (empty_sk 7)) = Some (empty_sk 7, 8%nat) /\
  length (enc C09_ex_partial_only) = 56%nat /\ dec_bytes (enc C09_ex_partial_only) = Some C09_ex_partial_only.
Proof. vm_compute. repeat split. Qed.

Print Assumptions C09_ebpps_roundtrip_bytes.
Print Assumptions C09_ebpps_roundtrip_stream.
Print Assumptions C09_ebpps_reserialize_identical.
Print Assumptions C09_ebpps_size.
Print Assumptions C09_ebpps_header_form.
