(* KllSpace.v — the space bound of general_compress: however much data is passed in, the levels it returns
   hold at most final_capacity = compute_total_capacity(k, m, final_num_levels) items.  Hence every reachable
   sketch retains at most compute_total_capacity items (levels_[0] never underflows). *)
From Coq Require Import ZArith List Bool Lia Permutation Sorted.
From DS Require Import RunnerLib SortedView KllDefs KllProofs.
Import ListNotations.
Local Open Scope Z_scope.

Lemma sumcaps_snoc k nl : forall j h0, sumcaps k nl h0 (S j) = sumcaps k nl h0 j + level_capacity k nl (h0 + j).
Proof.
  induction j as [|j IH]; intro h0.
  - cbn [sumcaps]. rewrite Nat.add_0_r. lia.
  - change (sumcaps k nl h0 (S (S j))) with (level_capacity k nl h0 + sumcaps k nl (S h0) (S j)).
    rewrite IH. cbn [sumcaps]. replace (S h0 + j)%nat with (h0 + S j)%nat by lia. lia.
Qed.

Lemma sumcaps_shift k nl : forall j h0, sumcaps k (S nl) (S h0) j = sumcaps k nl h0 j.
Proof.
  induction j as [|j IH]; intro h0; cbn [sumcaps]; [reflexivity|].
  rewrite IH. unfold level_capacity. replace (S nl - S h0 - 1)%nat with (nl - h0 - 1)%nat by lia. reflexivity.
Qed.

Lemma sumcaps_top k nl j : sumcaps k (S nl) 0 (S j) = cap_depth k nl + sumcaps k nl 0 j.
Proof. cbn [sumcaps]. rewrite sumcaps_shift, level_capacity_bottom. reflexivity. Qed.

Lemma sumcaps_all k nl : sumcaps k nl 0 nl = total_capacity k nl.
Proof. pose proof (sumcaps_total k nl nl (le_n _)) as H. now rewrite Nat.sub_diag in H. Qed.

Lemma sumcaps_lower k nl : forall j h0, 8 * Z.of_nat j <= sumcaps k nl h0 j.
Proof.
  induction j as [|j IH]; intro h0; cbn [sumcaps]; [lia|].
  specialize (IH (S h0)). pose proof (level_capacity_ge k nl h0). lia.
Qed.

(* what the already processed levels (0 .. cur-1) may hold when the sketch is still over its target *)
Definition G (k : Z) (nl cur : nat) : Z := sumcaps k nl 0 cur - Z.of_nat cur.

Lemma G_S k nl cur : G k nl (S cur) = G k nl cur + level_capacity k nl cur - 1.
Proof. unfold G. rewrite sumcaps_snoc. simpl Nat.add. lia. Qed.

Lemma G_top k nl cur : G k (S nl) (S cur) = G k nl cur + cap_depth k nl - 1.
Proof. unfold G. rewrite sumcaps_top. lia. Qed.

Lemma G_nonneg k nl cur : 0 <= G k nl cur.
Proof. unfold G. pose proof (sumcaps_lower k nl cur 0). lia. Qed.

(* once under the target, everything is copied *)
Lemma gc_under k s0 : forall fuel cur nl cn tgt ins r, cn < tgt ->
  leaf (gc fuel k s0 cur nl cn tgt ins) r -> fst r = ins /\ snd r = tgt.
Proof.
  induction fuel as [|f IH]; intros cur nl cn tgt ins r H L; cbn [gc] in L.
  { apply leaf_ret_inv in L. now subst r. }
  destruct ins as [|raw rest].
  { apply leaf_ret_inv in L. now subst r. }
  apply Z.ltb_lt in H. rewrite H in L. cbn [orb] in L. apply Z.ltb_lt in H.
  destruct (S cur =? nl)%nat.
  - apply leaf_ret_inv in L. now subst r.
  - apply leaf_bind in L as (r' & L1 & L2). apply leaf_ret_inv in L2. subst r.
    destruct (IH _ _ _ _ _ _ H L1) as [A B]. unfold cons_fst. cbn [fst snd]. now rewrite A, B.
Qed.

Lemma retained_hd_tl rest : retained rest = len (hd [] rest) + retained (tl rest).
Proof. destruct rest; [reflexivity|apply retained_cons]. Qed.

Theorem gc_space k s0 : 8 <= k -> forall fuel cur nl cn tgt ins P r,
  len ins + retained ins < Z.of_nat fuel ->
  nl = (cur + length ins)%nat -> tgt = total_capacity k nl -> cn = P + retained ins ->
  (cn < tgt \/ P <= G k nl cur) ->
  leaf (gc fuel k s0 cur nl cn tgt ins) r ->
  P + retained (fst r) <= snd r.
Proof.
  intro Hk. induction fuel as [|f IH]; intros cur nl cn tgt ins P r Hf Hn Ht Hc Hd L.
  { pose proof (len_nonneg ins). pose proof (retained_nonneg ins). lia. }
  destruct (Z.ltb_spec cn tgt) as [Lt|Ge].
  { destruct (gc_under _ _ _ _ _ _ _ _ _ Lt L) as [A B]. rewrite A, B. lia. }
  destruct Hd as [Hd|Hd]; [lia|].
  cbn [gc] in L. destruct ins as [|raw rest].
  { apply leaf_ret_inv in L. subst r. cbn [fst snd retained fold_right].
    rewrite Nat.add_0_r in Hn. subst nl tgt. unfold G in Hd. rewrite sumcaps_all in Hd. lia. }
  rewrite retained_cons in *. rewrite len_cons in Hf. cbn [length] in Hn.
  replace (cn <? tgt) with false in L by (symmetry; apply Z.ltb_ge; lia). cbn [orb] in L.
  pose proof (len_nonneg raw) as Hraw. pose proof (retained_nonneg rest) as Hrest. pose proof (len_nonneg rest) as Hlrest.
  destruct (Z.ltb_spec (len raw) (level_capacity k nl cur)) as [Small|Big].
  - (* moved over as is *)
    revert L. destruct (Nat.eqb_spec (S cur) nl) as [En|En]; intro L.
    + apply leaf_ret_inv in L. subst r. cbn [fst snd]. rewrite retained_cons.
      assert (rest = []) by (destruct rest; [reflexivity|cbn [length] in Hn; lia]). subst rest.
      cbn [retained fold_right] in *. subst tgt. rewrite <- sumcaps_all. rewrite <- En at 2.
      rewrite sumcaps_snoc. simpl Nat.add. unfold G in Hd. lia.
    + apply leaf_bind in L as (r' & L1 & L2). apply leaf_ret_inv in L2. subst r. unfold cons_fst. cbn [fst snd].
      rewrite retained_cons.
      assert (X : (P + len raw) + retained (fst r') <= snd r').
      { apply (IH (S cur) nl cn tgt rest (P + len raw) r'); try assumption; try lia.
        right. rewrite G_S. lia. }
      lia.
  - (* compacted *)
    apply leaf_flip_inv in L as [c L]. apply leaf_bind in L as (r' & L1 & L2). apply leaf_ret_inv in L2. subst r.
    unfold cons_fst. cbn [fst snd]. rewrite retained_cons.
    pose proof (compact_len ((cur =? 0)%nat && negb s0) raw (hd [] rest) c) as CL.
    destruct (compact_level ((cur =? 0)%nat && negb s0) raw (hd [] rest) c) as [lo up]. cbn [fst snd] in *.
    destruct CL as (_ & CL2 & CL3).
    pose proof (level_capacity_ge k nl cur) as LC.
    assert (Half : 4 <= len raw / 2) by (apply Z.div_le_lower_bound; lia).
    assert (Half2 : len raw / 2 <= len raw) by (apply Z.div_le_upper_bound; lia).
    pose proof (len_nonneg lo) as Hlo. pose proof (retained_hd_tl rest) as HT.
    pose proof (len_nonneg up) as Hup. pose proof (retained_nonneg (tl rest)) as HTr. pose proof (len_nonneg (hd [] rest)).
    assert (X : (P + len lo) + retained (fst r') <= snd r').
    { revert L1. destruct (Nat.eqb_spec (S cur) nl) as [En|En]; intro L1.
      - (* the old top level: a level is added *)
        assert (rest = []) by (destruct rest; [reflexivity|cbn [length] in Hn; lia]). subst rest. cbn [tl hd] in *.
        change (len (@nil Z)) with 0 in *. cbn [retained fold_right] in *.
        apply (IH (S cur) (S nl) (cn - len raw / 2) (tgt + level_capacity k (S nl) 0) [up] (P + len lo) r'); try assumption.
        + rewrite retained_cons, len_cons. cbn [retained fold_right]. change (len (@nil (list Z))) with 0. lia.
        + cbn [length]. lia.
        + subst tgt. rewrite level_capacity_bottom, total_capacity_S. reflexivity.
        + rewrite retained_cons. cbn [retained fold_right]. lia.
        + right. clear Hn L1. subst nl. rewrite G_top. pose proof (cap_depth_ge k (S cur)). lia.
      - apply (IH (S cur) nl (cn - len raw / 2) tgt (up :: tl rest) (P + len lo) r'); try assumption.
        + rewrite retained_cons, len_cons.
          assert (len (tl rest) = len rest - 1).
          { destruct rest; [cbn [length] in Hn; lia|rewrite len_cons; simpl tl; lia]. }
          lia.
        + cbn [length]. destruct rest; cbn [length tl] in *; lia.
        + rewrite retained_cons. lia.
        + right. rewrite G_S. lia. }
    lia.
Qed.

(* ---------- consequences for the sketch ---------- *)
Lemma merge_higher_space s o s' : Inv s -> leaf (merge_higher s o) s' -> Space s'.
Proof.
  intros I L. pose proof (i_k s I) as Hk. pose proof (i_ne s I) as NE. unfold merge_higher in L. apply leaf_bind in L as (r & L1 & L2). apply leaf_ret_inv in L2. subst s'.
  unfold Space, num_retained, set_levels. cbn [cap levels].
  set (work := hd [] (levels s) :: zip_levels (tl (levels s)) (tl (levels o))) in *.
  assert (X : 0 + retained (fst r) <= snd r).
  { eapply (gc_space (kk s) (l0s s) Hk) with (P := 0); [| | |reflexivity| |exact L1].
    - pose proof (retained_nonneg work). unfold len. lia.
    - unfold work. cbn [length]. rewrite zip_levels_length.
      destruct (levels s) as [|a b]; [congruence|]. destruct (levels o); cbn [length tl]; lia.
    - reflexivity.
    - right. apply G_nonneg. }
  lia.
Qed.

Theorem merge_Space s o s' : Inv s -> Space s -> leaf (merge s o) s' -> Space s'.
Proof.
  intros I Sp L. unfold merge in L. destruct (nn o =? 0).
  { apply leaf_ret_inv in L. now subst s'. }
  apply leaf_bind in L as (s2 & L1 & L). apply leaf_bind in L as (s3 & L2 & L3). apply leaf_ret_inv in L3. subst s'.
  pose proof (Inv_upd_minmax s (mn o) (mx o) I) as I1.
  destruct (levels_upd_minmax s (mn o) (mx o)) as (E1 & E2 & E3 & E4 & E5 & E6).
  assert (Sp1 : Space (upd_minmax s (mn o) (mx o))) by (unfold Space, num_retained in *; rewrite E1, E3; exact Sp).
  destruct (add_l0_spec _ _ _ I1 L1) as (I2 & _ & _ & _ & S2 & _). specialize (S2 Sp1).
  unfold Space, num_retained. cbn [cap levels].
  destruct (2 <=? length (levels o))%nat.
  - apply (merge_higher_space s2 o s3 I2 L2).
  - apply leaf_ret_inv in L2. now subst s3.
Qed.

Theorem update_Space s x s' : Inv s -> Space s -> leaf (update s x) s' -> Space s'.
Proof.
  intros I Sp L. unfold update in L.
  pose proof (Inv_upd_minmax s x x I) as I1.
  destruct (levels_upd_minmax s x x) as (E1 & E2 & E3 & E4 & E5 & E6).
  assert (Sp1 : Space (upd_minmax s x x)) by (unfold Space, num_retained in *; rewrite E1, E3; exact Sp).
  destruct (internal_update_spec _ _ _ I1 L) as (_ & _ & _ & _ & S2 & _). auto.
Qed.

(* every reachable sketch retains at most compute_total_capacity(k, m, num_levels) = items_size_ items *)
Theorem reach_Space s log : reach s log -> Space s.
Proof.
  induction 1.
  - unfold Space, num_retained. simpl. change (len (@nil Z)) with 0. lia.
  - eapply update_Space; eauto. eapply r_inv, reach_Rel; eauto.
  - eapply merge_Space; [| |eassumption]; auto. eapply r_inv, reach_Rel; eauto.
  - unfold Space, num_retained, sort_level_zero in *. destruct (l0s s); auto.
    cbn [cap levels]. destruct (levels s) as [|l0 r]; auto.
    rewrite !retained_cons in *. unfold len in *. rewrite (Permutation_length (isort_perm l0)). exact IHreach.
Qed.
